(** * AddrEventsHist: whole histories (see AddrEvents) *)
From FB Require Import Base Syntax World SlotMap Fub Unbounded Ordered Adapters Step Tactics SlotMapProofs WorldProofs FubProofs
  UnboundedProofs OrderedProofs AdaptersProofs StepProofs Reach JoinProofs AddrProofs FobOrder DropProofs LedgerProofs AddrHistory AddrEvents.
From Coq Require Import Permutation.

Section WithParams.
Variable P : params.
Hypothesis HP : params_ok P.

(** ** whole histories *)
Lemma nd_app_l {A} (a b : list A) : NoDup (a ++ b) -> NoDup a.
Proof. induction a as [|x a IH]; simpl; intros H; [constructor|]. inversion H; subst. constructor; auto. intros Hi. apply H2. apply in_or_app; auto. Qed.
Lemma nd_app_r {A} (a b : list A) : NoDup (a ++ b) -> NoDup b.
Proof. induction a as [|x a IH]; simpl; intros H; auto. inversion H; subst. auto. Qed.
Lemma nd_app_disj {A} (a b : list A) x : NoDup (a ++ b) -> In x a -> In x b -> False.
Proof.
  induction a as [|y a IH]; simpl; intros H Ha Hb; [contradiction|]. inversion H; subst.
  destruct Ha as [->|Ha]; [apply H2; apply in_or_app; auto|auto].
Qed.

Lemma nd_map_inj {A B} (g : A -> B) (l : list A) a b : NoDup (map g l) -> In a l -> In b l -> g a = g b -> a = b.
Proof.
  induction l as [|x l IH]; simpl; intros H Ha Hb E; [contradiction|]. inversion H; subst.
  destruct Ha as [->|Ha], Hb as [->|Hb]; auto.
  - exfalso. apply H2. rewrite E. apply in_map; auto.
  - exfalso. apply H2. rewrite <- E. apply in_map; auto.
Qed.

Lemma nd_flat_map_same {A B} (g : A -> list B) (l : list A) x y c :
  NoDup (flat_map g l) -> In x l -> In y l -> In c (g x) -> In c (g y) -> x = y.
Proof.
  induction l as [|a l IH]; simpl; intros H Hx Hy Cx Cy; [contradiction|].
  destruct Hx as [->|Hx], Hy as [->|Hy]; auto.
  - exfalso. eapply nd_app_disj; [exact H|exact Cx|]. apply in_flat_map. eauto.
  - exfalso. eapply nd_app_disj; [exact H|exact Cy|]. apply in_flat_map. eauto.
  - apply IH; auto. eapply nd_app_r; eauto.
Qed.

Lemma slot_unique m i i' c c' :
  NoDup (ids_sm m) -> sm_get m i = Some c -> sm_get m i' = Some c' -> cid c = cid c' -> i = i'.
Proof.
  intros Hn H1 H2 E. apply sm_children_spec in H1. apply sm_children_spec in H2.
  unfold ids_sm in Hn. rewrite <- sm_children_occ, map_map in Hn.
  pose proof (nd_map_inj (fun p => cid (snd p)) (sm_children m) (i, c) (i', c') Hn H1 H2 E) as Hp.
  inversion Hp; auto.
Qed.

Lemma in_ids_fub g i c : sm_get (tasks g) i = Some c -> In (cid c) (ids_fub g).
Proof.
  intros H. unfold ids_fub, ids_sm. rewrite <- sm_children_occ, map_map.
  apply sm_children_spec in H. apply (in_map (fun p => cid (snd p)) _ (i, c)) in H. exact H.
Qed.

Lemma at_addr_unique gs b i b' i' c :
  NoDup (ids_gs gs) -> at_addr gs b i c -> at_addr gs b' i' c -> b = b' /\ i = i'.
Proof.
  intros Hn (g & Hg & Hb & Hc) (g' & Hg' & Hb' & Hc').
  destruct (sm_get (tasks g) i) as [ch|] eqn:E; [|discriminate]. simpl in Hc. inversion Hc; subst c.
  destruct (sm_get (tasks g') i') as [ch'|] eqn:E'; [|discriminate]. simpl in Hc'. inversion Hc' as [Hid].
  assert (g = g').
  { unfold ids_gs in Hn. eapply (nd_flat_map_same ids_fub gs g g' (cid ch) Hn Hg Hg').
    - eapply in_ids_fub; eauto.
    - rewrite <- Hid. eapply in_ids_fub; eauto. }
  subst g'. split; [congruence|].
  assert (Hnf : NoDup (ids_fub g)).
  { clear - Hn Hg. unfold ids_gs in Hn. induction gs as [|a gs IH]; simpl in *; [contradiction|].
    destruct Hg as [->|Hg]; [eapply nd_app_l; eauto|apply IH; auto; eapply nd_app_r; eauto]. }
  eapply slot_unique; eauto.
Qed.

Lemma held_ids_gs k : held_ids k = ids_gs (coll_groups k).
Proof. destruct k; simpl; auto; unfold ids_gs; simpl; try rewrite app_nil_r; auto; destruct (ad_q a); reflexivity. Qed.

(** the address events of a history *)
Definition aevs_in (s : state) (ops : list op) : list (N * nat * nat) :=
  flat_map (fun x => aevs (snd x)) (run_worlds P s ops).

Lemma perm_nodup_shuffle (A tk ac T U : list N) :
  NoDup (A ++ (tk ++ T) ++ (ac ++ U)) -> NoDup ((A ++ tk ++ ac) ++ T ++ U).
Proof.
  apply Permutation_NoDup. rewrite (Permutation_count_occ N.eq_dec). intros x. rewrite !count_occ_app. lia.
Qed.

Lemma nodup_three (held tk ac : list N) A rest :
  NoDup held -> incl held A -> NoDup (A ++ (tk ++ ac) ++ rest) -> NoDup (tk ++ held ++ ac).
Proof.
  intros Hh Hi Hn.
  assert (Hta : NoDup (tk ++ ac)) by (eapply nd_app_l; eapply nd_app_r; eauto).
  assert (Hd : forall x, In x held -> In x (tk ++ ac) -> False).
  { intros x H1 H2. eapply nd_app_disj; [exact Hn|apply Hi; exact H1|apply in_or_app; left; exact H2]. }
  assert (Hp : Permutation (held ++ tk ++ ac) (tk ++ held ++ ac)).
  { rewrite (Permutation_count_occ N.eq_dec). intros x. rewrite !count_occ_app. lia. }
  eapply Permutation_NoDup; [exact Hp|].
  clear Hp. induction held as [|h held IH]; simpl; auto. inversion Hh; subst. constructor.
  - intros Hin. apply in_app_or in Hin as [Hin|Hin]; auto. apply (Hd h); [left; auto|auto].
  - apply IH; auto; [intros x Hx; apply Hi; right; auto|intros x Hx; apply Hd; right; auto].
Qed.

Lemma nodup_step (A tk T ac U held : list N) :
  NoDup held -> incl held A -> NoDup (A ++ (tk ++ T) ++ (ac ++ U)) -> NoDup (tk ++ held ++ ac).
Proof.
  intros Hh Hi Hn. apply (@nodup_three held tk ac A (T ++ U)); auto.
  eapply Permutation_NoDup; [|exact Hn]. rewrite (Permutation_count_occ N.eq_dec). intros x.
  rewrite !count_occ_app. lia.
Qed.

Lemma cle_in a b x : cle a b -> In x a -> In x b.
Proof.
  intros H Hi. specialize (H x). apply (count_occ_In N.eq_dec) in Hi. apply (count_occ_In N.eq_dec). lia.
Qed.

Lemma cle_nodup a b : cle a b -> NoDup b -> NoDup a.
Proof.
  intros H Hn. apply (NoDup_count_occ N.eq_dec). intros x. specialize (H x).
  pose proof (proj1 (NoDup_count_occ N.eq_dec b) Hn x). lia.
Qed.

Theorem log_addresses_stable_from s ops (A : list N) (E : list (N * nat * nat)) :
  Inv s ->
  NoDup (A ++ taken_in P s ops ++ pulled_in P s ops) ->
  incl (held_ids (st_coll s)) A -> NoDup (held_ids (st_coll s)) ->
  (forall c b i, In (c, b, i) E -> In c A) ->
  (forall c b i b' i', In (c, b, i) E -> at_addr (coll_groups (st_coll s)) b' i' c -> b = b' /\ i = i') ->
  (forall c b i b' i', In (c, b, i) E -> In (c, b', i') E -> b = b' /\ i = i') ->
  forall c b i b' i',
    In (c, b, i) (aevs_in s ops ++ E) -> In (c, b', i') (aevs_in s ops ++ E) -> b = b' /\ i = i'.
Proof.
  revert s A E. induction ops as [|o ops IH]; intros s A E Hs Hn Hi Hh H4 H5 H6.
  - unfold aevs_in. simpl. intros c b i b' i'. apply H6.
  - unfold aevs_in, taken_in, pulled_in in *. simpl in *. rewrite !flat_map_app in *.
    destruct (is_dead (st_coll s)) eqn:Hd.
    + assert (Hfix : fst (step_op P s o) = s) by (unfold step_op; rewrite Hd; reflexivity).
      rewrite Hfix in *. simpl in *. apply (IH s A E); auto.
    + simpl in *. rewrite !app_nil_r in *.
      set (s' := fst (step_op P s o)) in *.
      set (l := log (st_world s')) in *.
      set (tk := taken_op (st_coll s) o (st_coll s') l) in *.
      assert (Hfacts : Permutation (held_ids (st_coll s') ++ cdr l) (tk ++ held_ids (st_coll s) ++ acc l)
                       /\ exists H,
                            (forall c b i, In (c, b, i) (aevs l) -> at_addr (coll_groups (st_coll s)) b i c \/ In (c, b, i) H)
                            /\ (forall b i c, at_addr (coll_groups (st_coll s')) b i c ->
                                  at_addr (coll_groups (st_coll s)) b i c \/ In (c, b, i) H \/ In c tk \/ (In c (acc l) /\ ~ In c (ids3 H)))
                            /\ cle (ids3 H) (acc l)).
      { destruct Hs as [Hw Hok]. unfold tk, l, s', step_op. rewrite Hd.
        assert (Hc : cinv (st_coll s) (begin_op (op_inj o) (st_world s))) by (split; auto; apply winv_begin_op; auto).
        destruct (@step_core_step P HP (st_coll s) o _ Hc) as (l1 & L1 & Pm).
        destruct (@step_core_hstep P HP (st_coll s) o _ Hc) as (l2 & H & L2 & He & Hst & Hcl).
        destruct (step_core P (st_coll s) o (begin_op (op_inj o) (st_world s))) as [k' w']. cbn [fst snd st_coll st_world] in *.
        simpl in L1, L2. rewrite app_nil_r in L1, L2. subst l1 l2. split; auto. exists H. splits; auto. }
      destruct Hfacts as (Pm & H & He & Hst & Hcl).
      assert (Hheld' : forall x, In x (held_ids (st_coll s')) -> In x (tk ++ held_ids (st_coll s) ++ acc l)).
      { intros x Hx. eapply Permutation_in; [exact Pm|]. apply in_or_app; auto. }
      assert (Hn3 : NoDup (tk ++ held_ids (st_coll s) ++ acc l)).
      { eapply nodup_step; [exact Hh|exact Hi|exact Hn]. }
      assert (Hfresh : forall x, In x (tk ++ acc l) -> In x A -> False).
      { intros x H1 H2. eapply nd_app_disj; [exact Hn|exact H2|].
        apply in_app_or in H1 as [H1|H1]; apply in_or_app; [left|right]; apply in_or_app; left; auto. }
      assert (Htkacc : forall x, In x tk -> In x (acc l) -> False).
      { intros x H1 H2. eapply nd_app_disj; [exact Hn3|exact H1|apply in_or_app; right; exact H2]. }
      assert (Hnacc : NoDup (acc l)) by (eapply nd_app_r; eapply nd_app_r; exact Hn3).
      assert (HidsH : forall c b i, In (c, b, i) H -> In c (acc l)).
      { intros c b i Hin. eapply (cle_in (ids3 H) (acc l)); [exact Hcl|]. unfold ids3. apply (in_map (fun x => fst (fst x)) _ (c, b, i)) in Hin. exact Hin. }
      assert (Hfun : forall c b i b' i', In (c, b, i) H -> In (c, b', i') H -> b = b' /\ i = i').
      { intros c b i b' i' H1 H2. pose proof (cle_nodup (ids3 H) (acc l) Hcl Hnacc) as Hnd. unfold ids3 in Hnd.
        pose proof (nd_map_inj (fun x : N * nat * nat => fst (fst x)) H (c, b, i) (c, b', i') Hnd H1 H2 eq_refl) as Eq.
        inversion Eq; auto. }
      assert (Huniq : forall c b i b' i', at_addr (coll_groups (st_coll s)) b i c -> at_addr (coll_groups (st_coll s)) b' i' c -> b = b' /\ i = i').
      { intros c b i b' i'. apply at_addr_unique. rewrite <- held_ids_gs. exact Hh. }
      assert (HheldA : forall c b i, at_addr (coll_groups (st_coll s)) b i c -> In c A).
      { intros c b i Ha. apply Hi. eapply at_addr_held; eauto. }
      (* a new event: at its start address (then the child is an old one), or at its home (then it is fresh) *)
      intros c b i b' i' Hin1 Hin2.
      rewrite <- app_assoc in Hin1, Hin2.
      assert (Hsw : forall (x : N * nat * nat) (X Y Z : list (N * nat * nat)), In x (X ++ Y ++ Z) -> In x (Y ++ X ++ Z)).
      { intros x X Y Z Hx. apply in_app_or in Hx as [Hx|Hx]; [apply in_or_app; right; apply in_or_app; auto|].
        apply in_app_or in Hx as [Hx|Hx]; apply in_or_app; [left|right; apply in_or_app; right]; auto. }
      apply Hsw in Hin1. apply Hsw in Hin2.
      refine (IH s' (A ++ tk ++ acc l) (aevs l ++ E) _ _ _ _ _ _ _ c b i b' i' Hin1 Hin2).
      * apply step_inv; auto.
      * apply perm_nodup_shuffle. exact Hn.
      * intros x Hx. apply Hheld' in Hx. apply in_app_or in Hx as [Hx|Hx]; [apply in_or_app; right; apply in_or_app; auto|].
        apply in_app_or in Hx as [Hx|Hx]; [apply in_or_app; left; auto|apply in_or_app; right; apply in_or_app; auto].
      * eapply nd_app_l. eapply Permutation_NoDup; [apply Permutation_sym; exact Pm|exact Hn3].
      * intros c0 b0 i0 Hin. apply in_app_or in Hin as [Hin|Hin].
        -- destruct (He c0 b0 i0 Hin) as [Hat|Hh0]; [apply in_or_app; left; eapply HheldA; eauto|].
           apply in_or_app; right; apply in_or_app; right. eapply HidsH; eauto.
        -- apply in_or_app; left. eapply H4; eauto.
      * intros c0 b0 i0 b1 i1 Hin Hat'.
        destruct (Hst b1 i1 c0 Hat') as [Hat|[Hh1|[Htk|[Hac Hnh]]]].
        -- apply in_app_or in Hin as [Hin|Hin]; [|eapply H5; eauto].
           destruct (He c0 b0 i0 Hin) as [Hat0|Hh0]; [eapply Huniq; eauto|].
           exfalso. apply (Hfresh c0); [apply in_or_app; right; eapply HidsH; eauto|eapply HheldA; eauto].
        -- apply in_app_or in Hin as [Hin|Hin].
           ++ destruct (He c0 b0 i0 Hin) as [Hat0|Hh0]; [|eapply Hfun; eauto].
              exfalso. apply (Hfresh c0); [apply in_or_app; right; eapply HidsH; eauto|eapply HheldA; eauto].
           ++ exfalso. apply (Hfresh c0); [apply in_or_app; right; eapply HidsH; eauto|eapply H4; eauto].
        -- exfalso. apply in_app_or in Hin as [Hin|Hin].
           ++ destruct (He c0 b0 i0 Hin) as [Hat0|Hh0].
              ** apply (Hfresh c0); [apply in_or_app; left; auto|eapply HheldA; eauto].
              ** apply (Htkacc c0); auto. eapply HidsH; eauto.
           ++ apply (Hfresh c0); [apply in_or_app; left; auto|eapply H4; eauto].
        -- exfalso. apply in_app_or in Hin as [Hin|Hin].
           ++ destruct (He c0 b0 i0 Hin) as [Hat0|Hh0].
              ** apply (Hfresh c0); [apply in_or_app; right; auto|eapply HheldA; eauto].
              ** apply Hnh. unfold ids3. apply (in_map (fun x => fst (fst x)) _ (c0, b0, i0)) in Hh0. exact Hh0.
           ++ apply (Hfresh c0); [apply in_or_app; right; auto|eapply H4; eauto].
      * intros c0 b0 i0 b1 i1 Hi1 Hi2.
        apply in_app_or in Hi1 as [Hi1|Hi1]; apply in_app_or in Hi2 as [Hi2|Hi2].
        -- destruct (He _ _ _ Hi1) as [A1|A1]; destruct (He _ _ _ Hi2) as [A2|A2].
           ++ eapply Huniq; eauto.
           ++ exfalso. apply (Hfresh c0); [apply in_or_app; right; eapply HidsH; eauto|eapply HheldA; eauto].
           ++ exfalso. apply (Hfresh c0); [apply in_or_app; right; eapply HidsH; eauto|eapply HheldA; eauto].
           ++ eapply Hfun; eauto.
        -- destruct (He _ _ _ Hi1) as [A1|A1].
           ++ destruct (H5 c0 b1 i1 b0 i0 Hi2 A1); auto.
           ++ exfalso. apply (Hfresh c0); [apply in_or_app; right; eapply HidsH; eauto|eapply H4; eauto].
        -- destruct (He _ _ _ Hi2) as [A2|A2].
           ++ eapply H5; eauto.
           ++ exfalso. apply (Hfresh c0); [apply in_or_app; right; eapply HidsH; eauto|eapply H4; eauto].
        -- eapply H6; eauto.
Qed.

(** from the empty state: with distinct child ids, every poll and every drop of a child - in
    every collection and combinator, also of the children an adapter pulls from its upstream in
    the middle of an operation - is logged at one address *)
Theorem log_addresses_stable ops c b i b' i' :
  NoDup (taken_in P init_state ops ++ pulled_in P init_state ops) ->
  In (c, b, i) (aevs_in init_state ops) -> In (c, b', i') (aevs_in init_state ops) -> b = b' /\ i = i'.
Proof.
  intros Hn H1 H2.
  refine (@log_addresses_stable_from init_state ops [] [] Inv_init _ _ _ _ _ _ c b i b' i' _ _).
  - exact Hn.
  - intros x [].
  - constructor.
  - intros ? ? ? [].
  - intros ? ? ? ? ? [].
  - intros ? ? ? ? ? [].
  - rewrite app_nil_r; auto.
  - rewrite app_nil_r; auto.
Qed.

End WithParams.
