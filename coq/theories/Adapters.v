(** * Adapters: buffered_unordered / buffered_ordered / try_ variants / for_each_concurrent,
      join_all / try_join_all *)
From FB Require Import Base Syntax World SlotMap Fub Unbounded Ordered.

(** scripted upstream *)
Record upstream := {
  us_steps : list upstep;
  us_next : N;          (* id of the next child it creates *)
  us_idx : nat;         (* index of the next step *)
  us_ended : bool;
  us_hlo : nat; us_hhi : option N;
}.

Definition mk_upstream (l : list upstep) (hlo : nat) (hhi : option N) : upstream :=
  {| us_steps := l; us_next := 1%N; us_idx := 0; us_ended := false; us_hlo := hlo; us_hhi := hhi |}.

Inductive upres := UPItem (c : child) | UPPend | UPEnd | UPErr (t : tok).

Definition us_advance (u : upstream) (rest : list upstep) (mkchild ended : bool) : upstream :=
  {| us_steps := rest; us_next := if mkchild then N.succ (us_next u) else us_next u;
     us_idx := S (us_idx u); us_ended := ended; us_hlo := us_hlo u; us_hhi := us_hhi u |}.

(** one poll of the upstream with the task waker [t] *)
Definition up_poll (try : bool) (u : upstream) (t : nat) (w : world) : upstream * upres * world :=
  if us_ended u then (u, UPEnd, emit EStuck (emit (EUpPoll UAAfterEnd) w))   (* never happens: the adapters are fused (AdaptersProofs) *)
  else
    match us_steps u with
    | [] => (u, UPPend, emit (EUpPoll UAPend) w)
    | UItem s :: rest =>
        let c := mk_child (us_next u) s in
        (us_advance u rest true false, UPItem c, emit (EUpPoll (UAItem (cid c))) w)
    | UPend a :: rest =>
        (us_advance u rest false false, UPPend, do_acts (Some (HTask t)) a (emit (EUpPoll UAPend) w))
    | UErr :: rest =>
        if try then (us_advance u rest false false, UPErr (TUp (us_idx u)), emit (EUpPoll (UAErr (TUp (us_idx u)))) w)
        else (us_advance u rest false false, UPPend, emit (EUpPoll UAPend) w)
    | UEnd :: rest =>
        (us_advance u rest false true, UPEnd, emit (EUpPoll UAEnd) w)
    end.

Definition up_remaining (try : bool) (u : upstream) : nat :=
  if us_ended u then 0 else
  length (filter (fun s => match s with UItem _ => true | UErr => try | _ => false end) (us_steps u)).

(** [usize] arithmetic of the hints: [saturating_add] and [checked_add] on words of [wmax + 1] values *)
Definition sat_add (wmax a b : N) : N := N.min (a + b)%N wmax.
Definition chk_add (wmax a b : N) : option N := if N.leb (a + b)%N wmax then Some (a + b)%N else None.

(** the scripted upstream reports an honest hint: lower bound = remaining - slack, upper bound =
    remaining + slack (saturating: the harness's upstream computes it that way) *)
Definition up_hint (wmax : N) (try : bool) (u : upstream) : N * option N :=
  let r := up_remaining try u in
  (N.of_nat (r - us_hlo u), match us_hhi u with Some k => Some (sat_add wmax (N.of_nat r) k) | None => None end).

Inductive queue := QU (f : fub) | QO (q : fob).

Record adapter := {
  ad_try : bool;
  ad_up : option upstream;
  ad_q : queue;
}.

Definition q_running (q : queue) : nat :=
  match q with QU f => fub_len f | QO o => fub_len (fo_inner o) end.
Definition q_cap (q : queue) : nat :=
  match q with QU f => fub_cap f | QO o => fub_cap (fo_inner o) end.
Definition q_len (q : queue) : nat :=
  match q with QU f => fub_len f | QO o => fob_len o end.

Section WithParams.
Variable P : params.

Definition q_push (q : queue) (c : child) (w : world) : queue * world :=
  match q with
  | QU f => match fub_try_push f c w with
            | (PushOk f', w) => (QU f', w)
            | (_, w) => (q, emit EStuck w)      (* [push] would panic: excluded by the fill-loop guard *)
            end
  | QO o => match fob_try_push P false o c w with
            | (Some o', w) => (QO o', w)
            | (None, w) => (q, emit EStuck w)
            end
  end.

Definition q_poll (k : ckind) (q : queue) (t : nat) (w : world) : queue * spoll * world :=
  match q with
  | QU f => let '(f, sp, w) := fub_poll_next P k f t w in (QU f, sp, w)
  | QO o => let '(o, sp, w) := fob_poll_next P k o t w in (QO o, sp, w)
  end.

(** the fill loop; returns [Some e] when a try-upstream error leaves the poll early *)
Fixpoint fill (n : nat) (a : adapter) (t : nat) (w : world) : adapter * option tok * world :=
  match n with
  | O => (a, None, emit EOutOfFuel w)
  | S n' =>
      if Nat.ltb (q_len (ad_q a)) (q_cap (ad_q a)) then
        match ad_up a with
        | Some u =>
            let '(u, r, w) := up_poll (ad_try a) u t w in
            match r with
            | UPItem c =>
                let '(q, w) := q_push (ad_q a) c w in
                fill n' {| ad_try := ad_try a; ad_up := Some u; ad_q := q |} t w
            | UPEnd => ({| ad_try := ad_try a; ad_up := None; ad_q := ad_q a |}, None, emit EUpDrop w)
            | UPPend => ({| ad_try := ad_try a; ad_up := Some u; ad_q := ad_q a |}, None, w)
            | UPErr e => ({| ad_try := ad_try a; ad_up := Some u; ad_q := ad_q a |}, Some e, w)
            end
        | None => (a, None, w)
        end
      else (a, None, w)
  end.

Definition ad_kind (a : adapter) : ckind := if ad_try a then KTry else KFut.

Definition adapter_poll (a : adapter) (t : nat) (w : world) : adapter * retv * world :=
  let '(a, e, w) := fill (S (q_cap (ad_q a))) a t w in
  match e with
  | Some tk => (a, RetItem tk, w)
  | None =>
      let '(q, sp, w) := q_poll (ad_kind a) (ad_q a) t w in
      let a := {| ad_try := ad_try a; ad_up := ad_up a; ad_q := q |} in
      match sp with
      | SPending => (a, RetPending, w)
      | SItem tk _ => (a, RetItem tk, w)
      | SNone => match ad_up a with None => (a, RetNone, w) | Some _ => (a, RetPending, w) end
      end
  end.

(** [size_hint] of the four buffered adapters: [lower.saturating_add(queue_len)] and
    [upper.checked_add(queue_len)] in [usize] *)
Definition wmaxN : N := (2 ^ N.of_nat (pW P) - 1)%N.

Definition adapter_hint (a : adapter) : N * option N :=
  let ql := N.of_nat (q_len (ad_q a)) in
  match ad_up a with
  | Some u => let '(lo, hi) := up_hint wmaxN (ad_try a) u in
              (sat_add wmaxN lo ql, match hi with Some x => chk_add wmaxN x ql | None => None end)
  | None => (ql, Some ql)
  end.

(** ** for_each_concurrent *)
Record fec := { fe_up : option upstream; fe_q : fub }.

Fixpoint fec_loop (n : nat) (a : fec) (t : nat) (w : world) : fec * retv * world :=
  match n with
  | O => (a, RetPending, emit EOutOfFuel w)
  | S n' =>
      let '(a, pulled, w) :=
        if Nat.ltb (fub_len (fe_q a)) (fub_cap (fe_q a)) then
          match fe_up a with
          | Some u =>
              let '(u, r, w) := up_poll false u t w in
              match r with
              | UPItem c =>
                  match fub_try_push (fe_q a) c w with
                  | (PushOk f, w) => ({| fe_up := Some u; fe_q := f |}, true, w)
                  | (_, w) => ({| fe_up := Some u; fe_q := fe_q a |}, true, emit EStuck w)
                  end
              | UPEnd => ({| fe_up := None; fe_q := fe_q a |}, false, emit EUpDrop w)
              | _ => ({| fe_up := Some u; fe_q := fe_q a |}, false, w)
              end
          | None => (a, false, w)
          end
        else (a, false, w) in
      let '(f, sp, w) := fub_poll_next P KFut (fe_q a) t w in
      let a := {| fe_up := fe_up a; fe_q := f |} in
      match sp with
      | SItem _ _ => fec_loop n' a t w
      | SNone =>
          match fe_up a with
          | None => (a, RetDone, w)
          | Some _ => if pulled then fec_loop n' a t w else (a, RetPending, w)
          end
      | SPending => if pulled then fec_loop n' a t w else (a, RetPending, w)
      end
  end.

Definition fec_fuel (a : fec) : nat :=
  match fe_up a with
  | Some u => 2 * length (us_steps u) + fub_len (fe_q a) + 2
  | None => fub_len (fe_q a) + 2
  end.

Definition fec_poll (a : fec) (t : nat) (w : world) : fec * retv * world :=
  fec_loop (fec_fuel a) a t w.

(** ** join_all / try_join_all *)
Record join := { j_try : bool; j_q : fub; j_out : list (option tok) }.

Definition join_new (try : bool) (l : list child) (w : world) : join * world :=
  let '(f, w) := fub_from_list l w in
  ({| j_try := try; j_q := f; j_out := repeat None (length l) |},
   count_alloc (if Nat.eqb (length l) 0 then 0 else 1) w).

Definition cell_tok (o : option tok) : tok := match o with Some t => t | None => TGarbage end.

(** dropping the outputs written so far: the code decides "written" by "slot vacant and not
    the failed one"; a cell that was in fact never written shows as [TGarbage] *)
Fixpoint drop_outputs_from (i : nat) (skip : option nat) (m : slotmap) (out : list (option tok)) (w : world) : world :=
  match out with
  | [] => w
  | o :: rest =>
      let skipped := match skip with Some s => Nat.eqb s i | None => false end in
      let w := if skipped then w
               else match sm_get m i with
                    | None => emit (EODrop (cell_tok o) true) w
                    | Some _ => w
                    end in
      drop_outputs_from (S i) skip m rest w
  end.

(** cancelling the remaining futures: [tasks.remove(i)] for every slot in order *)
Definition fub_clear (f : fub) (w : world) : fub * world :=
  fold_left (fun fw i => fub_remove (fst fw) i (snd fw)) (seq 0 (fub_cap f)) (f, w).

Fixpoint join_loop (n : nat) (j : join) (t : nat) (w : world) : join * retv * world :=
  match n with
  | O => (j, RetPending, emit EOutOfFuel w)
  | S n' =>
      let '(f, pr, w) := poll_inner P (if j_try j then KTry else KFut) (j_q j) t w in
      match pr with
      | PReady i c RX =>
          let w := drop_outputs_from 0 (Some i) (tasks f) (j_out j) w in
          let '(f, w) := fub_clear f w in
          ({| j_try := j_try j; j_q := f; j_out := [] |}, RetErr (TErr (cid c)), w)
      | PReady i c _ =>
          join_loop n' {| j_try := j_try j; j_q := f; j_out := upd (j_out j) i (Some (TOut (cid c))) |} t w
      | PNone =>
          ({| j_try := j_try j; j_q := f; j_out := [] |},
           (if j_try j then RetOkv else RetReady) (map cell_tok (j_out j)), w)
      | PPending => ({| j_try := j_try j; j_q := f; j_out := j_out j |}, RetPending, w)
      end
  end.

Definition join_poll (j : join) (t : nat) (w : world) : join * retv * world :=
  join_loop (S (fub_len (j_q j))) j t w.

End WithParams.

Definition queue_drop (q : queue) (w : world) : world :=
  match q with QU f => fub_drop f w | QO o => fob_drop o w end.

Definition adapter_drop (a : adapter) (w : world) : world :=
  queue_drop (ad_q a) (match ad_up a with Some _ => emit EUpDrop w | None => w end).

Definition fec_drop (a : fec) (w : world) : world :=
  fub_drop (fe_q a) (match fe_up a with Some _ => emit EUpDrop w | None => w end).

(** [Drop for JoinAll / TryJoinAll]: the written outputs, then the fields (the queue; the
    [Box<[MaybeUninit<T>]>] itself drops nothing) *)
Definition join_drop (j : join) (w : world) : world :=
  fub_drop (j_q j) (drop_outputs_from 0 None (tasks (j_q j)) (j_out j) w).
