(** * OrderedProofs: [FuturesOrderedBounded] / [FuturesOrdered] preserve the structural
      invariants (world, slot maps, group list); the park loop never runs out of fuel *)
From FB Require Import Base Syntax World SlotMap Fub Unbounded Ordered Tactics SlotMapProofs WorldProofs FubProofs UnboundedProofs.
Set Implicit Arguments.

Section WithParams.
Variable P : params.
Hypothesis HP : params_ok P.

(** ** bounded *)
Lemma winv_ord_park own cur o i t w :
  winv own cur w -> winv own cur (snd (ord_park o i t w)).
Proof.
  intros Hw. unfold ord_park. destruct (vec_grow (length (oheap o)) (hcap o)) as [c a]. simpl.
  apply winv_count_alloc; auto.
Qed.

Lemma ord_park_heap o i t w : oheap (fst (ord_park o i t w)) = oheap o ++ [(i, t)].
Proof. unfold ord_park. destruct (vec_grow (length (oheap o)) (hcap o)) as [c a]. reflexivity. Qed.

Lemma fob_loop_spec own k n q t w :
  winv own None w -> fub_ok own (fo_inner q) -> fub_len (fo_inner q) < n ->
  let '(q', sp, w') := fob_loop P k n q t w in
  winv own None w' /\ fub_ok own (fo_inner q') /\ blk (fo_inner q') = blk (fo_inner q)
  /\ sm_cap (tasks (fo_inner q')) = sm_cap (tasks (fo_inner q))
  /\ match sp with
     | SItem _ _ => fob_len q' = pred (fob_len q) /\ 0 < fob_len q
     | SNone => fub_len (fo_inner q') = 0 /\ fob_len q' = fob_len q
     | SPending => fub_len (fo_inner q') <> 0 /\ fob_len q' = fob_len q
     end.
Proof.
  revert q w. induction n as [|n IH]; intros q w Hw Hok Hlen; [lia|]. cbn [fob_loop].
  pose proof (@fub_poll_next_spec P own k (fo_inner q) t w Hw Hok) as H.
  destruct (fub_poll_next P k (fo_inner q) t w) as [[f sp] w1]. destruct H as (A & B & C & D & F).
  destruct sp as [| |tk c]; cbn [fo_inner fo_ord].
  - unfold fob_len; simpl. unfold fub_len in *. splits; auto; lia.
  - destruct F as (F1 & -> & ->). unfold fob_len; simpl. splits; auto.
  - destruct F as [F1 F2].
    destruct (Z.eqb (cidx c) (nout (fo_ord q))).
    + unfold fob_len, fub_len in *; simpl. splits; auto; lia.
    + pose proof (winv_ord_park (fo_ord q) (cidx c) tk A) as Hp.
      pose proof (ord_park_heap (fo_ord q) (cidx c) tk w1) as Hh.
      destruct (ord_park (fo_ord q) (cidx c) tk w1) as [o w2]. simpl in Hp, Hh.
      specialize (IH {| fo_inner := f; fo_ord := o |} w2). simpl in IH.
      assert (Hlt : fub_len f < n) by (unfold fub_len in *; lia).
      specialize (IH Hp B Hlt).
      destruct (fob_loop P k n {| fo_inner := f; fo_ord := o |} t w2) as [[q' sp'] w'].
      destruct IH as (I1 & I2 & I3 & I4 & I5).
      splits; auto; try congruence.
      assert (Heq : fob_len {| fo_inner := f; fo_ord := o |} = fob_len q).
      { unfold fob_len, fub_len in *; simpl. rewrite Hh, app_length. simpl. lia. }
      rewrite Heq in I5. exact I5.
Qed.

Lemma fob_rebase_inner q :
  blk (fo_inner (fob_rebase P q)) = blk (fo_inner q)
  /\ sm_cap (tasks (fo_inner (fob_rebase P q))) = sm_cap (tasks (fo_inner q))
  /\ fub_len (fo_inner (fob_rebase P q)) = fub_len (fo_inner q)
  /\ length (oheap (fo_ord (fob_rebase P q))) = length (oheap (fo_ord q))
  /\ (sm_wf (tasks (fo_inner q)) -> sm_wf (tasks (fo_inner (fob_rebase P q)))).
Proof.
  unfold fob_rebase. destruct (msb_set P (nout (fo_ord q))); simpl; splits; auto.
  - apply sm_map_children_cap.
  - apply map_length.
  - apply sm_map_children_wf.
Qed.

Lemma ord_try_release_len o t o' :
  ord_try_release P o = Some (t, o') -> S (length (oheap o')) = length (oheap o).
Proof.
  unfold ord_try_release. destruct (heap_min (oheap o)) as [[i t0]|] eqn:Hm; [|discriminate].
  destruct (Z.eqb_spec i (nout o)); [|discriminate]. intros E; inversion E; subst; clear E. simpl.
  (* the minimum is an element of the heap, so removing its index shortens the heap by one *)
  assert (Hin : forall h x, heap_min h = Some x -> exists y, In y h /\ fst y = fst x).
  { induction h as [|a h IH]; simpl; intros x Hx; [discriminate|].
    destruct (heap_min h) as [y|] eqn:Hy.
    - destruct (Z.ltb (fst y) (fst a)); inversion Hx; subst.
      + destruct (IH _ eq_refl) as (z & Hz & Hf). exists z; auto.
      + exists x; auto.
    - inversion Hx; subst. exists x; auto. }
  assert (Hrm : forall h j, (exists y, In y h /\ fst y = j) -> S (length (heap_remove j h)) = length h).
  { induction h as [|a h IH]; simpl; intros j (y & Hy & Hf); [contradiction|].
    destruct (Z.eqb_spec (fst a) j); auto. simpl. f_equal. apply IH.
    destruct Hy as [->|Hy]; [congruence|]. exists y; auto. }
  apply Hrm. destruct (Hin _ _ Hm) as (y & Hy & Hf). exists y; auto.
Qed.

Lemma fob_poll_next_spec own k q t w :
  winv own None w -> fub_ok own (fo_inner q) ->
  let '(q', sp, w') := fob_poll_next P k q t w in
  winv own None w' /\ fub_ok own (fo_inner q') /\ blk (fo_inner q') = blk (fo_inner q)
  /\ sm_cap (tasks (fo_inner q')) = sm_cap (tasks (fo_inner q))
  /\ match sp with
     | SItem _ _ => fob_len q' = pred (fob_len q) /\ 0 < fob_len q
     | SNone => fub_len (fo_inner q') = 0 /\ fob_len q' = fob_len q
     | SPending => fub_len (fo_inner q') <> 0 /\ fob_len q' = fob_len q
     end.
Proof.
  intros Hw [Hwf Hown]. unfold fob_poll_next.
  destruct (fob_rebase_inner q) as (R1 & R2 & R3 & R4 & R5).
  set (q1 := fob_rebase P q) in *.
  assert (Hok1 : fub_ok own (fo_inner q1)) by (split; [auto | rewrite R1; auto]).
  assert (Hlen1 : fob_len q1 = fob_len q) by (unfold fob_len; lia).
  destruct (ord_try_release P (fo_ord q1)) as [[tk o]|] eqn:Hr.
  - apply ord_try_release_len in Hr. unfold fob_len in *. simpl. splits; auto; lia.
  - pose proof (@fob_loop_spec own k (S (fub_len (fo_inner q1))) q1 t w Hw Hok1 (Nat.lt_succ_diag_r _)) as H.
    destruct (fob_loop P k (S (fub_len (fo_inner q1))) q1 t w) as [[q' sp] w'].
    destruct H as (A & B & C & D & F). splits; auto; try congruence.
    rewrite Hlen1 in F. exact F.
Qed.

Lemma fob_new_spec own cap seed w :
  winv own None w ->
  match fob_new P cap seed w with
  | (NewOk q, w') => winv (add1 (blk (fo_inner q)) own) None w' /\ sm_wf (tasks (fo_inner q))
                     /\ sm_cap (tasks (fo_inner q)) = cap /\ fob_len q = 0
  | (NewPanic, _) => False
  end.
Proof.
  intros Hw. unfold fob_new.
  pose proof (@fub_new_spec own cap w Hw) as H.
  destruct (fub_new cap w) as [f w1]. destruct H as (A & B & C & D & E).
  unfold heap_cap_for. simpl. splits; auto.
  - apply winv_count_alloc; auto.
  - unfold fob_len; simpl. unfold ord_new; simpl. lia.
Qed.

Lemma fob_from_list_spec own l w :
  winv own None w ->
  let '(q, w') := fob_from_list P l w in
  winv (add1 (blk (fo_inner q)) own) None w' /\ sm_wf (tasks (fo_inner q))
  /\ sm_cap (tasks (fo_inner q)) = length l /\ fob_len q = length l.
Proof.
  intros Hw. unfold fob_from_list.
  assert (Hil : forall l i, length (index_children P l i) = length l).
  { induction l0; simpl; intros; auto. }
  pose proof (@fub_from_list_spec own (index_children P l 0) w Hw) as H.
  destruct (fub_from_list (index_children P l 0) w) as [f w1]. destruct H as (A & B & C & D & E).
  rewrite Hil in *. simpl. splits; auto. unfold fob_len; simpl. lia.
Qed.

Lemma fob_try_push_spec own cur front q c w :
  winv own cur w -> fub_ok own (fo_inner q) ->
  match fob_try_push P front q c w with
  | (Some q', w') => winv own cur w' /\ fub_ok own (fo_inner q') /\ blk (fo_inner q') = blk (fo_inner q)
                     /\ sm_cap (tasks (fo_inner q')) = sm_cap (tasks (fo_inner q))
                     /\ fob_len q' = S (fob_len q) /\ fub_len (fo_inner q) < fub_cap (fo_inner q)
  | (None, w') => w' = w /\ fub_len (fo_inner q) = fub_cap (fo_inner q)
  end.
Proof.
  intros Hw Hok. unfold fob_try_push.
  set (c' := child_set_idx c (if front then wdec P (nout (fo_ord q)) else nin (fo_ord q))).
  pose proof (@fub_try_push_spec own cur (fo_inner q) c' w Hw Hok) as H.
  destruct (fub_try_push (fo_inner q) c' w) as [[f| |] w1]; auto; [|contradiction].
  destruct H as (H1 & H2 & H3 & H4 & H5 & H6). simpl. splits; auto.
  unfold fob_len; simpl. destruct front; simpl; lia.
Qed.

Lemma winv_drop_heap own cur h w : winv own cur w -> winv own cur (drop_heap h w).
Proof.
  unfold drop_heap. revert w; induction h as [|e h IH]; simpl; intros w Hw; auto.
  apply IH. apply winv_emit; auto.
Qed.

Lemma winv_fob_drop own cur q w :
  winv (add1 (blk (fo_inner q)) own) cur w -> winv own cur (fob_drop q w).
Proof. intros Hw. unfold fob_drop. apply winv_drop_heap. apply winv_fub_drop; auto. Qed.

(** ** unbounded *)
Definition fo_own (q : fo) : nat -> nat := cnt (blks (groups (fu_inner q))).

Lemma fo_loop_spec n q t w :
  winv (fo_own q) None w -> fu_ok false (fu_inner q) -> rem (fu_inner q) < n ->
  let '(q', sp, w') := fo_loop P n q t w in
  winv (fo_own q') None w' /\ fu_ok false (fu_inner q')
  /\ match sp with
     | SItem _ _ => fo_len q' = pred (fo_len q) /\ 0 < fo_len q
     | SNone => rem (fu_inner q') = 0 /\ fo_len q' = fo_len q
     | SPending => rem (fu_inner q') <> 0 /\ fo_len q' = fo_len q
     end.
Proof.
  revert q w. induction n as [|n IH]; intros q w Hw Hok Hlen; [lia|]. cbn [fo_loop].
  pose proof (@fu_poll_next_spec P false (fu_inner q) t w Hw Hok) as H.
  destruct (fu_poll_next P false (fu_inner q) t w) as [[u sp] w1]. destruct H as (A & B & (L1 & L2 & L5)).
  pose proof (fo_rem Hok eq_refl) as Hr. pose proof (fo_rem B eq_refl) as Hr'.
  specialize (L5 eq_refl).
  destruct sp as [| |tk c]; cbn [fu_inner fu_ord].
  - unfold fo_len, fo_own; simpl. splits; auto; lia.
  - unfold fo_len, fo_own; simpl. splits; auto; lia.
  - destruct (L2 eq_refl) as [L3 L4].
    destruct (Z.eqb (cidx c) (nout (fu_ord q))).
    + unfold fo_len, fo_own; simpl. splits; auto; lia.
    + pose proof (winv_ord_park (fu_ord q) (cidx c) tk A) as Hp.
      pose proof (ord_park_heap (fu_ord q) (cidx c) tk w1) as Hh.
      destruct (ord_park (fu_ord q) (cidx c) tk w1) as [o w2]. simpl in Hp, Hh.
      specialize (IH {| fu_inner := u; fu_ord := o |} w2). unfold fo_own in IH. simpl in IH.
      assert (Hlt : rem u < n) by lia.
      specialize (IH Hp B Hlt).
      destruct (fo_loop P n {| fu_inner := u; fu_ord := o |} t w2) as [[q' sp'] w'].
      destruct IH as (I1 & I2 & I5).
      splits; auto.
      assert (Heq : fo_len {| fu_inner := u; fu_ord := o |} = fo_len q).
      { unfold fo_len; simpl. rewrite Hh, app_length. simpl. lia. }
      rewrite Heq in I5. exact I5.
Qed.

Lemma fo_rebase_inner q :
  blks (groups (fu_inner (fo_rebase P q))) = blks (groups (fu_inner q))
  /\ rem (fu_inner (fo_rebase P q)) = rem (fu_inner q)
  /\ length (oheap (fu_ord (fo_rebase P q))) = length (oheap (fu_ord q))
  /\ (fu_ok false (fu_inner q) -> fu_ok false (fu_inner (fo_rebase P q))).
Proof.
  unfold fo_rebase. destruct (msb_set P (nout (fu_ord q))); simpl; splits; auto.
  - unfold blks. rewrite map_map. reflexivity.
  - apply map_length.
  - intros [O1 O2 O3]. constructor; simpl.
    + rewrite Forall_map. eapply Forall_impl; [|exact O1]. simpl. intros g Hg. apply sm_map_children_wf; auto.
    + intros _. rewrite O2 by auto. clear. induction (groups (fu_inner q)); simpl; auto.
    + rewrite Forall_map. eapply Forall_impl; [|exact O3]. simpl. intros g Hg.
      unfold fub_cap in *; simpl. rewrite sm_map_children_cap. auto.
Qed.

Lemma fo_poll_next_spec q t w :
  winv (fo_own q) None w -> fu_ok false (fu_inner q) ->
  let '(q', sp, w') := fo_poll_next P q t w in
  winv (fo_own q') None w' /\ fu_ok false (fu_inner q')
  /\ match sp with
     | SItem _ _ => fo_len q' = pred (fo_len q) /\ 0 < fo_len q
     | SNone => rem (fu_inner q') = 0 /\ fo_len q' = fo_len q
     | SPending => rem (fu_inner q') <> 0 /\ fo_len q' = fo_len q
     end.
Proof.
  intros Hw Hok. unfold fo_poll_next.
  destruct (fo_rebase_inner q) as (R1 & R2 & R3 & R4).
  set (q1 := fo_rebase P q) in *.
  assert (Hw1 : winv (fo_own q1) None w) by (unfold fo_own; rewrite R1; auto).
  assert (Hlen1 : fo_len q1 = fo_len q) by (unfold fo_len; lia).
  destruct (ord_try_release P (fu_ord q1)) as [[tk o]|] eqn:Hr.
  - apply ord_try_release_len in Hr. unfold fo_len, fo_own in *. simpl. splits; auto; lia.
  - pose proof (@fo_loop_spec (S (rem (fu_inner q1))) q1 t w Hw1 (R4 Hok) (Nat.lt_succ_diag_r _)) as H.
    destruct (fo_loop P (S (rem (fu_inner q1))) q1 t w) as [[q' sp] w'].
    destruct H as (A & B & F). splits; auto.
    rewrite Hlen1 in F. exact F.
Qed.

Lemma fo_push_spec front q c w :
  winv (fo_own q) None w -> fu_ok false (fu_inner q) ->
  let '(q', w') := fo_push P front q c w in
  winv (fo_own q') None w' /\ fu_ok false (fu_inner q') /\ fo_len q' = S (fo_len q).
Proof.
  intros Hw Hok. unfold fo_push.
  set (c' := child_set_idx c (if front then wdec P (nout (fu_ord q)) else nin (fu_ord q))).
  pose proof (@fu_push_spec P HP false (fu_inner q) c' w Hw Hok) as H.
  destruct (fu_push P false (fu_inner q) c' w) as [u w1]. destruct H as (A & B & C & D).
  unfold fo_own, fo_len; simpl. splits; auto.
  pose proof (fo_rem Hok eq_refl). pose proof (fo_rem B eq_refl).
  destruct front; simpl; lia.
Qed.

Lemma fo_from_list_spec h l w :
  winv (cnt []) None w ->
  let '(q, w') := fo_from_list P h l w in
  winv (fo_own q) None w' /\ fu_ok false (fu_inner q).
Proof.
  intros Hw. unfold fo_from_list.
  pose proof (@fu_from_list_spec P HP false h (index_children P l 0) w Hw) as H.
  destruct (fu_from_list P false h (index_children P l 0) w) as [u w1]. destruct H as (A & B & C).
  unfold fo_own; simpl. splits; auto.
Qed.

Lemma fo_with_capacity_spec cap seed w :
  winv (cnt []) None w ->
  match fo_with_capacity P cap seed w with
  | (NewOk q, w') => winv (fo_own q) None w' /\ fu_ok false (fu_inner q)
  | (NewPanic, _) => False
  end.
Proof.
  intros Hw. unfold fo_with_capacity.
  pose proof (@fu_with_capacity_spec false cap w Hw) as H.
  destruct (fu_with_capacity cap w) as [u w1]. destruct H as (A & B & C).
  unfold heap_cap_for. unfold fo_own; simpl. splits; auto. apply winv_count_alloc; auto.
Qed.

End WithParams.

Lemma winv_fo_drop q cur w : winv (fo_own q) cur w -> winv (cnt []) cur (fo_drop q w).
Proof. intros Hw. unfold fo_drop. apply winv_drop_heap. apply winv_fu_drop; auto. Qed.
