(** * MergeTotals: a merged source hands out exactly the items its script holds (C11)

    MergeLedger.v: the items handed out for a source are numbered 0 .. cseq - 1, cseq being the
    number of items the source has produced.  Here cseq is tied to what the source was given:
    [il sc] is the number of item letters of a script before its end letter, and for a source
    [c] that has not ended  [tot c = cseq c + il (cscript c)]  — produced so far + still to come —
    never changes: a poll that answers with an item moves one unit from the second summand to the
    first, a Pending answer consumes a letter that is no item, the end letter leaves both alone.
    A merge never creates a source, so in every reachable state every held source [c] was given
    with a script [sc] such that  cseq c + il (cscript c) = il sc:  it has produced no more items
    than its script holds, and once no item letter is left in front of its end it has produced —
    and by MergeLedger handed out — all of them. *)
From FB Require Import Base Syntax World SlotMap Fub Unbounded Ordered Adapters Step Tactics SlotMapProofs WorldProofs FubProofs
  UnboundedProofs StepProofs AddrProofs FobOrder Reach LedgerProofs TokenLedger MergeLedger.

(** item letters of a source's script before its end *)
Fixpoint il (sc : script) : nat :=
  match sc with
  | [] => 0
  | (_, r) :: rest =>
      match eff_res KSrc r with
      | RI => S (il rest)
      | RE => 0
      | _ => il rest
      end
  end.

Definition left (c : child) : nat := if cdone c then 0 else il (cscript c).
Definition tot (c : child) : nat := cseq c + left c.
Definition pt (c : child) : N * nat := (cid c, tot c).

Lemma poll_child_tot c b s w : pt (fst (fst (poll_child KSrc c b s w))) = pt c.
Proof.
  unfold poll_child, pt, tot, left. destruct (cdone c) eqn:Hd; [simpl; rewrite Hd; reflexivity|].
  destruct (cscript c) as [|[acts r0] rest] eqn:Hs; [simpl; rewrite Hd, Hs; reflexivity|].
  cbn [fst cid cseq cdone cscript il]. destruct r0; cbn [eff_res is_final]; f_equal; lia.
Qed.

(** ** the sources sitting in a collection *)
Definition kid_sm (m : slotmap) (c : child) : Prop := exists i, sm_get m i = Some c.
Definition kid_gs (gs : list fub) (c : child) : Prop := exists g, In g gs /\ kid_sm (tasks g) c.
Definition kid_coll (k : coll) (c : child) : Prop :=
  match k with CMb f => kid_sm (tasks f) c | CMu u => kid_gs (groups u) c | _ => False end.

(** every source afterwards is a source from before with the same (id, tot) *)
Definition keeps (P Q : child -> Prop) : Prop := forall c', Q c' -> exists c, P c /\ pt c' = pt c.

Lemma keeps_refl P : keeps P P. Proof. intros c H. eauto. Qed.
Lemma keeps_trans P Q R : keeps P Q -> keeps Q R -> keeps P R.
Proof. intros H1 H2 c Hc. destruct (H2 c Hc) as (c1 & A & B). destruct (H1 c1 A) as (c0 & A0 & B0). exists c0. split; auto. congruence. Qed.

Lemma kid_set m i c c' : sm_get m i = Some c -> pt c' = pt c -> keeps (kid_sm m) (kid_sm (sm_set m i c')).
Proof.
  intros Hg Hp. unfold keeps, kid_sm. intros x [j Hj]. rewrite sm_get_set in Hj. destruct (Nat.eqb_spec i j) as [E|Hne].
  - subst j. destruct (Nat.ltb i (sm_cap m)); inversion Hj; subst. exists c. split; [exists i; auto|auto].
  - exists x. split; [exists j; auto|auto].
Qed.

Lemma kid_remove m i : keeps (kid_sm m) (kid_sm (sm_remove m i)).
Proof.
  unfold keeps, kid_sm. intros x [j Hj]. rewrite sm_get_remove in Hj. destruct (Nat.eqb i j); [discriminate|]. exists x. split; [exists j; auto|auto].
Qed.

Lemma drain_keeps n f t w :
  keeps (kid_sm (tasks f)) (kid_sm (tasks (fst (fst (drain KSrc n f t w))))).
Proof.
  revert f w. induction n as [|n IH]; intros f w; cbn [drain]; [apply keeps_refl|].
  destruct (pop (blk f) w) as [pr w1]. destruct pr as [| |i]; cbn [fst]; try apply keeps_refl.
  destruct (sm_get (tasks f) i) as [c|] eqn:Hg; [|apply IH].
  pose proof (poll_child_tot c (blk f) i w1) as Hp.
  destruct (poll_child KSrc c (blk f) i w1) as [[c' r] w2]. cbn [fst] in Hp.
  pose proof (kid_set (tasks f) i c c' Hg Hp) as Hk.
  destruct (is_ready r); cbn [fst tasks]; [exact Hk|].
  eapply keeps_trans; [exact Hk|]. apply (IH {| tasks := sm_set (tasks f) i c'; blk := blk f |} w2).
Qed.

Section WithParams.
Variable P : params.

Lemma poll_inner_keeps f t w :
  keeps (kid_sm (tasks f)) (kid_sm (tasks (fst (fst (poll_inner_no_remove P KSrc f t w))))).
Proof. unfold poll_inner_no_remove. destruct (Nat.eqb (fub_len f) 0); [apply keeps_refl|apply drain_keeps]. Qed.

Lemma mb_loop_keeps n f t w :
  keeps (kid_sm (tasks f)) (kid_sm (tasks (fst (fst (mb_poll_loop P n f t w))))).
Proof.
  revert f w. induction n as [|n IH]; intros f w; cbn [mb_poll_loop]; [apply keeps_refl|].
  pose proof (poll_inner_keeps f t w) as H.
  destruct (poll_inner_no_remove P KSrc f t w) as [[f1 pr] w1]. cbn [fst] in H.
  destruct pr as [| |i c r]; cbn [fst]; auto.
  assert (Hrm : keeps (kid_sm (tasks f))
                  (kid_sm (tasks (fst (fst (let '(f2, w2) := fub_remove f1 i w1 in mb_poll_loop P n f2 t w2)))))).
  { unfold fub_remove. destruct (sm_get (tasks f1) i) as [c0|].
    - eapply keeps_trans; [exact H|]. eapply keeps_trans; [apply (kid_remove (tasks f1) i)|].
      apply (IH {| tasks := sm_remove (tasks f1) i; blk := blk f1 |}).
    - eapply keeps_trans; [exact H|apply IH]. }
  destruct r; auto.
Qed.

Lemma kid_gs_split l1 g l2 c : kid_gs (l1 ++ g :: l2) c <-> kid_sm (tasks g) c \/ kid_gs (l1 ++ l2) c.
Proof.
  unfold kid_gs. split.
  - intros (h & Hin & Hk). apply in_app_or in Hin. destruct Hin as [Hin|[<-|Hin]]; auto;
      right; exists h; split; auto; apply in_or_app; auto.
  - intros [Hk|(h & Hin & Hk)]; [exists g; split; auto; apply in_or_app; right; left; auto|].
    exists h. split; auto. apply in_app_or in Hin. apply in_or_app. destruct Hin; auto. right; right; auto.
Qed.

Lemma fu_loop_keeps n u t w :
  keeps (kid_gs (groups u)) (kid_gs (groups (fst (fst (fu_loop P true n u t w))))).
Proof.
  revert u w. induction n as [|n IH]; intros u w; cbn [fu_loop].
  - destruct (forallb _ _); apply keeps_refl.
  - set (cur := if Nat.leb (length (groups u)) (cursor u) then 0 else cursor u).
    destruct (nth_error (groups u) cur) as [g|] eqn:Hg; [|apply keeps_refl].
    destruct (nth_split_fub _ _ Hg) as (l1 & l2 & Hsplit & Hl1).
    unfold poll_group, mb_poll_next. pose proof (mb_loop_keeps (S (fub_len g)) g t w) as Hp.
    destruct (mb_poll_loop P (S (fub_len g)) g t w) as [[g' sp] w1]. cbn [fst] in Hp.
    assert (Hupd : upd (groups u) cur g' = l1 ++ g' :: l2) by (rewrite Hsplit, <- Hl1; apply upd_split).
    assert (Hrm : remove_nth (groups u) cur = l1 ++ l2) by (rewrite Hsplit, <- Hl1; apply remove_nth_split).
    assert (Hstep : keeps (kid_gs (groups u)) (kid_gs (l1 ++ g' :: l2))).
    { intros c Hc. apply kid_gs_split in Hc. rewrite Hsplit. destruct Hc as [Hc|Hc].
      - destruct (Hp c Hc) as (c0 & A & B). exists c0. split; auto. apply kid_gs_split. auto.
      - exists c. split; auto. apply kid_gs_split. auto. }
    assert (Hdrop : keeps (kid_gs (groups u)) (kid_gs (l1 ++ l2))).
    { intros c Hc. exists c. split; auto. rewrite Hsplit. apply kid_gs_split. auto. }
    destruct sp as [| |tk c].
    + eapply keeps_trans; [|apply IH]. cbn [groups set_groups]. rewrite Hupd. exact Hstep.
    + rewrite Hrm. destruct (l1 ++ l2) as [|g0 gs0] eqn:Hgs.
      * apply app_eq_nil in Hgs as [-> ->]. cbn [fst groups set_groups]. exact Hstep.
      * rewrite <- Hgs in Hdrop |- *. destruct (Nat.eqb cur (length (l1 ++ l2))).
        -- eapply keeps_trans; [|apply IH]. cbn [groups set_groups].
           intros c0 Hc. apply (Hstep c0). destruct Hc as (h & Hin & Hk). exists h. split; auto.
           apply in_app_or in Hin. apply in_or_app. destruct Hin as [Hin|[<-|[]]].
           ++ apply in_app_or in Hin. destruct Hin; [left; auto|right; right; auto].
           ++ right; left; auto.
        -- eapply keeps_trans; [|apply IH]. cbn [groups set_groups]. exact Hdrop.
    + cbn [fst groups]. rewrite Hupd. exact Hstep.
Qed.

Lemma fu_poll_keeps u t w :
  keeps (kid_gs (groups u)) (kid_gs (groups (fst (fst (fu_poll_next P true u t w))))).
Proof. unfold fu_poll_next. destruct (groups u) eqn:Hg; [cbn [fst]; rewrite Hg; apply keeps_refl|]. rewrite <- Hg. apply fu_loop_keeps. Qed.

(** ** pushes and constructors: the only sources that appear are the ones given *)
Definition adds (P0 Q : child -> Prop) (c0 : child) : Prop := forall c', Q c' -> P0 c' \/ c' = c0.

Lemma kid_insert m c key m' : sm_insert m c = InsOk key m' -> adds (kid_sm m) (kid_sm m') c.
Proof.
  intros Hi. unfold adds, kid_sm. intros x [j Hj]. rewrite (@sm_get_insert _ _ _ _ j Hi) in Hj. destruct (Nat.eqb key j).
  - inversion Hj; auto.
  - left. exists j; auto.
Qed.

Lemma kid_new cap c : ~ kid_sm (sm_new cap) c.
Proof. unfold kid_sm. intros [i Hi]. rewrite sm_new_get in Hi. discriminate. Qed.

Lemma fub_try_push_adds f c w :
  match fub_try_push f c w with
  | (PushOk f', _) => adds (kid_sm (tasks f)) (kid_sm (tasks f')) c
  | _ => True
  end.
Proof.
  unfold fub_try_push. destruct (sm_insert (tasks f) c) as [key m| |] eqn:Hi; auto.
  apply (kid_insert _ _ _ _ Hi).
Qed.

Lemma fub_new_kid cap w c : ~ kid_sm (tasks (fst (fub_new cap w))) c.
Proof. unfold fub_new. destruct (alloc_block cap _) as [b w1]. apply kid_new. Qed.

Lemma kid_gs_app a b c : kid_gs (a ++ b) c <-> kid_gs a c \/ kid_gs b c.
Proof.
  unfold kid_gs. split.
  - intros (h & Hin & Hk). apply in_app_or in Hin. destruct Hin; [left|right]; exists h; auto.
  - intros [(h & Hin & Hk)|(h & Hin & Hk)]; exists h; split; auto; apply in_or_app; auto.
Qed.

Lemma fu_push_adds u c w : adds (kid_gs (groups u)) (kid_gs (groups (fst (fu_push P true u c w)))) c.
Proof.
  unfold fu_push. cbn [groups rem cursor gcap].
  set (u0 := {| groups := groups u; rem := rem u; cursor := cursor u; gcap := gcap u |}).
  assert (H1 : let '(u1, w1) := match groups u with
                                | [] => let '(g, w0) := fub_new (pMinCap P) w in push_group u0 g w0
                                | _ :: _ => (u0, w) end in
               forall x, kid_gs (groups u1) x -> kid_gs (groups u) x).
  { destruct (groups u) eqn:Hg; [|subst u0; simpl; auto].
    pose proof (fub_new_kid (pMinCap P) w) as A. destruct (fub_new (pMinCap P) w) as [g w0]. cbn [fst] in A.
    unfold push_group. destruct (vec_grow _ _). cbn [fst groups]. subst u0. cbn [groups]. simpl.
    intros x (h & [<-|[]] & Hk). exfalso. exact (A x Hk). }
  destruct (match groups u with [] => _ | _ :: _ => _ end) as [u1 w1].
  destruct (last_opt (groups u1)) as [lastg|] eqn:Hl; [|cbn [fst]; intros x Hx; left; auto].
  destruct (last_split _ Hl) as [l1 Hs].
  pose proof (fub_try_push_adds lastg c w1) as Hp.
  destruct (fub_try_push lastg c w1) as [[g'| |] w2].
  - cbn [fst groups].
    assert (Hupd : upd (groups u1) (pred (length (groups u1))) g' = l1 ++ [g']).
    { rewrite Hs, app_length. simpl. replace (pred (length l1 + 1)) with (length l1) by lia. clear.
      induction l1; simpl; auto. rewrite IHl1; auto. }
    rewrite Hupd. intros x Hx. apply kid_gs_app in Hx. destruct Hx as [Hx|(h & [<-|[]] & Hk)].
    + left. apply H1. rewrite Hs. apply kid_gs_app. auto.
    + destruct (Hp x Hk) as [Hold| ->]; [|right; reflexivity].
      left. apply H1. rewrite Hs. apply kid_gs_app. right. exists lastg. split; [left; auto|auto].
  - pose proof (fub_new_kid (fub_cap lastg * pGrowth P) w2) as A.
    destruct (fub_new (fub_cap lastg * pGrowth P) w2) as [gnew w3]. cbn [fst] in A.
    pose proof (fub_try_push_adds gnew c w3) as Hp2.
    destruct (fub_try_push gnew c w3) as [[g'| |] w4].
    + unfold push_group. destruct (vec_grow _ _). cbn [fst groups].
      intros x Hx. apply kid_gs_app in Hx. destruct Hx as [Hx|(h & [<-|[]] & Hk)]; [left; auto|].
      destruct (Hp2 x Hk) as [Hold| ->]; [exfalso; exact (A x Hold)|right; reflexivity].
    + cbn [fst]. intros x Hx. left; auto.
    + cbn [fst]. intros x Hx. left; auto.
  - cbn [fst]. intros x Hx. left; auto.
Qed.

End WithParams.

(** ** whole histories *)
Lemma sm_get_from_list l i : sm_get (sm_from_list l) i = nth_error l i.
Proof.
  unfold sm_get, sm_from_list. simpl. rewrite nth_error_map. destruct (nth_error l i); reflexivity.
Qed.

Definition offered_op (o : op) : list (N * script) :=
  match o with
  | OBuild _ _ inits _ => inits
  | OPush c sc | OPushF c sc | OTryPush c sc | OTryPushF c sc => [(c, sc)]
  | _ => []
  end.
Definition offered (ops : list op) : list (N * script) := flat_map offered_op ops.

(** every source held was given with a script whose item count is its [tot] *)
Definition TI (k : coll) (OFF : list (N * script)) : Prop :=
  forall c, kid_coll k c -> exists sc, In (cid c, sc) OFF /\ tot c = il sc.

Lemma TI_weaken k OFF OFF' : (forall x, In x OFF -> In x OFF') -> TI k OFF -> TI k OFF'.
Proof. intros H T c Hc. destruct (T c Hc) as (sc & A & B). exists sc. split; auto. Qed.

Lemma TI_keeps (kid kid' : child -> Prop) OFF :
  keeps kid kid' ->
  (forall c, kid c -> exists sc, In (cid c, sc) OFF /\ tot c = il sc) ->
  (forall c, kid' c -> exists sc, In (cid c, sc) OFF /\ tot c = il sc).
Proof.
  intros Hk T c' Hc. destruct (Hk c' Hc) as (c & A & B). destruct (T c A) as (sc & C & D).
  unfold pt in B. inversion B as [[E1 E2]]. exists sc. rewrite E1, E2. auto.
Qed.

Lemma mk_child_tot id sc : cid (mk_child id sc) = id /\ tot (mk_child id sc) = il sc.
Proof. split; reflexivity. Qed.

Section Steps.
Variable P : params.
Hypothesis HP : params_ok P.

Lemma fu_push_fold_kids l u w :
  forall x, kid_gs (groups (fst (fold_left (fun uw c => fu_push P true (fst uw) c (snd uw)) l (u, w)))) x ->
            kid_gs (groups u) x \/ In x l.
Proof.
  revert u w. induction l as [|c l IH]; intros u w x Hx; simpl in Hx; auto.
  destruct (fu_push P true u c w) as [u1 w1] eqn:E. cbn [fst snd] in Hx.
  destruct (IH u1 w1 x Hx) as [H|H]; [|right; right; auto].
  pose proof (fu_push_adds P u c w) as Ha. rewrite E in Ha. cbn [fst] in Ha.
  destruct (Ha x H) as [H1| ->]; [left; auto|right; left; auto].
Qed.

Lemma step_core_TI k o w OFF :
  mty k -> m_op o -> TI k OFF -> TI (fst (step_core P k o w)) (OFF ++ offered_op o).
Proof.
  intros Hk Ho T.
  assert (Hsame : TI k (OFF ++ offered_op o)) by (eapply TI_weaken; [|exact T]; intros; apply in_or_app; auto).
  unfold step_core. destruct o as [ty p inits ups|c sc|c sc|c sc|c sc|t i|a| | | | ]; cbn [fst]; auto.
  - (* build *)
    destruct k; try contradiction; auto.
    assert (Hin : forall x, In x (mk_children inits) -> exists sc, In (cid x, sc) (OFF ++ inits) /\ tot x = il sc).
    { intros x Hx. unfold mk_children in Hx. apply in_map_iff in Hx as ([id sc] & <- & Hi).
      exists sc. split; [apply in_or_app; right; exact Hi|reflexivity]. }
    unfold build. cbn [offered_op]. destruct ty; try discriminate.
    + destruct (fub_from_list (mk_children inits) w) as [f w1] eqn:E. cbn [fst].
      assert (Hf : tasks f = sm_from_list (mk_children inits)).
      { unfold fub_from_list in E. destruct (alloc_block _ _) in E. inversion E; reflexivity. }
      intros x [i Hi]. rewrite Hf, sm_get_from_list in Hi. apply Hin. eapply nth_error_In; eauto.
    + destruct (p_iter p).
      * pose proof (fu_push_fold_kids (mk_children inits) fu_empty w) as Hf.
        unfold fu_from_list. destruct (fold_left _ _ _) as [u w1]. cbn [fst] in *.
        intros x Hx. destruct (Hf x Hx) as [(h & [] & _)|H]. apply Hin; auto.
      * destruct (p_new p); cbn [fst].
        -- intros x (h & [] & _).
        -- unfold fu_with_capacity. destruct (Nat.eqb (p_cap p) 0); [intros x (h & [] & _)|].
           pose proof (fub_new_kid (p_cap p) w) as A. destruct (fub_new (p_cap p) w) as [g w0]. cbn [fst groups] in *.
           intros x (h & [<-|[]] & Hk0). exfalso. exact (A x Hk0).
  - (* push *)
    unfold do_push. destruct k; try contradiction; cbn [fst offered_op]; auto.
    + pose proof (fub_try_push_adds f (mk_child c sc) w) as Ha.
      destruct (fub_try_push f (mk_child c sc) w) as [[f'| |] w1]; cbn [fst]; auto.
      intros x Hx. destruct (Ha x Hx) as [H| ->].
      * destruct (T x H) as (s0 & A & B). exists s0. split; auto. apply in_or_app; auto.
      * exists sc. split; [apply in_or_app; right; left; reflexivity|reflexivity].
    + pose proof (fu_push_adds P u (mk_child c sc) w) as Ha.
      destruct (fu_push P true u (mk_child c sc) w) as [u1 w1]. cbn [fst] in *.
      intros x Hx. destruct (Ha x Hx) as [H| ->].
      * destruct (T x H) as (s0 & A & B). exists s0. split; auto. apply in_or_app; auto.
      * exists sc. split; [apply in_or_app; right; left; reflexivity|reflexivity].
  - unfold do_push. destruct k; try contradiction; cbn [fst]; auto.
  - (* try_push *)
    unfold do_push. destruct k; try contradiction; cbn [fst offered_op]; auto.
    pose proof (fub_try_push_adds f (mk_child c sc) w) as Ha.
    destruct (fub_try_push f (mk_child c sc) w) as [[f'| |] w1]; cbn [fst]; auto.
    intros x Hx. destruct (Ha x Hx) as [H| ->].
    + destruct (T x H) as (s0 & A & B). exists s0. split; auto. apply in_or_app; auto.
    + exists sc. split; [apply in_or_app; right; left; reflexivity|reflexivity].
  - unfold do_push. destruct k; try contradiction; cbn [fst]; auto.
  - (* poll *)
    rewrite app_nil_r. unfold do_poll. destruct k; try contradiction; cbn [fst]; auto.
    + pose proof (mb_loop_keeps P (S (fub_len f)) f t w) as Hkp. unfold mb_poll_next.
      destruct (mb_poll_loop P (S (fub_len f)) f t w) as [[f' sp] w1]. cbn [fst] in *.
      intros x Hx. eapply TI_keeps; eauto.
    + pose proof (fu_poll_keeps P u t w) as Hkp.
      destruct (fu_poll_next P true u t w) as [[u' sp] w1]. cbn [fst] in *.
      intros x Hx. eapply TI_keeps; eauto.
  - (* drop *)
    unfold do_drop. destruct k; try contradiction; cbn [fst]; auto; intros x [].
Qed.

Lemma step_core_mty k o w : mty k -> m_op o -> mty (fst (step_core P k o w)).
Proof.
  intros Hk Ho. unfold step_core.
  destruct o as [ty p inits ups|c sc|c sc|c sc|c sc|t i|a| | | | ]; cbn [fst]; auto.
  - destruct k; try contradiction; auto. unfold build. destruct ty; try discriminate.
    + destruct (fub_from_list (mk_children inits) w). exact I.
    + destruct (p_iter p); [destruct (fu_from_list P true _ _ w); exact I|].
      destruct (p_new p); [exact I|]. destruct (fu_with_capacity (p_cap p) w). exact I.
  - unfold do_push. destruct k; try contradiction; cbn [fst]; auto.
    + destruct (fub_try_push f (mk_child c sc) w) as [[?| |] ?]; exact I.
    + destruct (fu_push P true u (mk_child c sc) w). exact I.
  - unfold do_push. destruct k; try contradiction; cbn [fst]; auto.
  - unfold do_push. destruct k; try contradiction; cbn [fst]; auto.
    destruct (fub_try_push f (mk_child c sc) w) as [[?| |] ?]; exact I.
  - unfold do_push. destruct k; try contradiction; cbn [fst]; auto.
  - unfold do_poll. destruct k; try contradiction; cbn [fst]; auto.
    + destruct (mb_poll_next P f t w) as [[? ?] ?]. exact I.
    + destruct (fu_poll_next P true u t w) as [[? ?] ?]. exact I.
  - unfold do_drop. destruct k; try contradiction; cbn [fst]; auto.
Qed.

Theorem merge_totals_from s ops OFF :
  mty (st_coll s) -> Forall m_op ops -> TI (st_coll s) OFF ->
  TI (st_coll (run_state P s ops)) (OFF ++ offered ops).
Proof.
  revert s OFF. induction ops as [|o ops IH]; intros s OFF Hk Hall T.
  - simpl. rewrite app_nil_r. exact T.
  - inversion Hall as [|o' ops' Ho Hall']; subst. simpl. unfold offered. simpl. rewrite app_assoc.
    destruct (is_dead (st_coll s)) eqn:Hd.
    + assert (Hfix : fst (step_op P s o) = s) by (unfold step_op; rewrite Hd; reflexivity).
      rewrite Hfix. apply IH; auto. eapply TI_weaken; [|exact T]. intros; apply in_or_app; auto.
    + apply IH; auto.
      * unfold step_op. rewrite Hd.
        pose proof (@step_core_mty (st_coll s) o (begin_op (op_inj o) (st_world s)) Hk Ho) as H.
        destruct (step_core P (st_coll s) o (begin_op (op_inj o) (st_world s))) as [k' w']. exact H.
      * unfold step_op. rewrite Hd.
        pose proof (@step_core_TI (st_coll s) o (begin_op (op_inj o) (st_world s)) OFF Hk Ho T) as H.
        destruct (step_core P (st_coll s) o (begin_op (op_inj o) (st_world s))) as [k' w']. exact H.
Qed.

(** *** C11: every source a merge holds was given with a script [sc] such that
    (items produced so far) + (item letters left before its end) = (item letters of [sc]) *)
Theorem merge_source_totals ops c :
  Forall m_op ops -> kid_coll (st_coll (reach P ops)) c ->
  exists sc, In (cid c, sc) (offered ops) /\ cseq c + left c = il sc.
Proof.
  intros Hall Hc.
  pose proof (@merge_totals_from init_state ops [] I Hall (fun x (H : kid_coll CNone x) => match H with end)) as T.
  simpl in T. exact (T c Hc).
Qed.

(** a held source is one of [hs_coll]'s entries (the link to MergeLedger) *)
Lemma kid_sm_in_hs m c : kid_sm m c -> In (cid c, cseq c) (hs_sm m).
Proof.
  intros [i Hi]. unfold sm_get in Hi. destruct (nth_error (slots m) i) as [[c0|]|] eqn:Hn; try discriminate.
  inversion Hi; subst c0. unfold hs_sm. apply (in_map pc). apply nth_error_In in Hn.
  clear - Hn. induction (slots m) as [|x l IH]; [destruct Hn|]. destruct Hn as [->|Hn]; simpl; auto.
  destruct x; simpl; auto.
Qed.

Lemma kid_in_hs k c : kid_coll k c -> In (cid c, cseq c) (hs_coll k).
Proof.
  destruct k; simpl; try contradiction.
  - apply kid_sm_in_hs.
  - intros (g & Hin & Hk). unfold hs_gs. apply in_flat_map. exists g. split; auto. apply kid_sm_in_hs; auto.
Qed.

(** together: what has been handed out for a held source is 0 .. cseq - 1, never more than its
    script holds, and all of it once no item letter is left before its end *)
Theorem merge_source_delivers_its_script ops c :
  Forall m_op ops -> NoDup (taken_in P init_state ops) ->
  kid_coll (st_coll (reach P ops)) c -> cdone c = false ->
  exists sc, In (cid c, sc) (offered ops)
             /\ seqs (cid c) (handed_in P init_state ops) = seq 0 (cseq c)
             /\ cseq c <= il sc
             /\ (il (cscript c) = 0 -> cseq c = il sc).
Proof.
  intros Hall Hnd Hc Hd. destruct (merge_source_totals ops c Hall Hc) as (sc & Hin & Htot).
  exists sc. split; auto. split.
  - apply (@merge_held_source_fully_delivered P HP); auto. apply kid_in_hs; auto.
  - unfold left in Htot. rewrite Hd in Htot. split; [lia|intros Hz; lia].
Qed.

End Steps.
