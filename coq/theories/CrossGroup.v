(** * CrossGroup: no starvation across the groups of the unbounded collections (C13)

    [rot u] is the order in which the next poll meets the groups.  A poll that returns an item
    taken from the group at distance [j] has polled every group at distance <= j and leaves
    the cursor just behind that group: a group at distance [p] is either polled during the
    call, or is at distance < p afterwards — untouched, its ready queue only extended at the
    tail.  So a group is polled within (its distance + 1) <= (number of groups) polls, however
    many items the groups in front of it keep producing. *)
From FB Require Import Base Syntax World SlotMap Fub Unbounded Ordered Adapters Step Tactics SlotMapProofs WorldProofs FubProofs
  UnboundedProofs AddrProofs FifoProofs StepProofs Reach GroupWake.

(** ** the log only grows *)
Definition lsuf (w w' : world) : Prop := exists l, log w' = l ++ log w.

Lemma lsuf_refl w : lsuf w w. Proof. exists []. reflexivity. Qed.
Lemma lsuf_trans w1 w2 w3 : lsuf w1 w2 -> lsuf w2 w3 -> lsuf w1 w3.
Proof. intros [l1 H1] [l2 H2]. exists (l2 ++ l1). rewrite H2, H1, app_assoc. reflexivity. Qed.
Lemma lsuf_same w w' : log w' = log w -> lsuf w w'. Proof. intros H. exists []. auto. Qed.
Lemma lsuf_emit e w : lsuf w (emit e w). Proof. exists [e]. reflexivity. Qed.
Lemma lsuf_in w w' e : lsuf w w' -> In e (log w) -> In e (log w').
Proof. intros [l H] Hin. rewrite H. apply in_or_app; auto. Qed.

Ltac ls := repeat first [apply lsuf_refl | apply lsuf_emit | (apply lsuf_same; reflexivity)
                        | (eapply lsuf_trans; [|apply lsuf_emit]) ].

Lemma lsuf_notify b w : lsuf w (notify b w).
Proof.
  unfold notify. destruct (get_blk w b); [|ls]. destruct (breg b0); [|ls].
  eapply lsuf_trans; [|apply lsuf_emit]. ls.
Qed.

Lemma lsuf_enqueue b s w : lsuf w (snd (enqueue_slot b s w)).
Proof. unfold enqueue_slot. destruct (get_blk w b); [|ls]. destruct (nth_error (bflags b0) s) as [[|]|]; ls. Qed.

Lemma lsuf_wake_slot b s w : lsuf w (wake_slot b s w).
Proof.
  unfold wake_slot. change (get_blk (g_wake w) b) with (get_blk w b).
  assert (H0 : lsuf w (g_wake w)) by ls.
  destruct (get_blk w b) as [k|]; [|eapply lsuf_trans; [exact H0|ls]].
  destruct (bfreed k); [eapply lsuf_trans; [exact H0|ls]|].
  pose proof (lsuf_enqueue b s (g_wake w)) as He.
  destruct (enqueue_slot b s (g_wake w)) as [q w1]. cbn [snd] in He.
  destruct q; [|eapply lsuf_trans; [exact H0|exact He]].
  eapply lsuf_trans; [exact H0|]. eapply lsuf_trans; [exact He|]. apply lsuf_notify.
Qed.

Lemma lsuf_dec_strong b w : lsuf w (dec_strong b w).
Proof.
  unfold dec_strong. destruct (get_blk w b) as [k|]; [|ls]. destruct (bfreed k); [ls|].
  destruct (bstrong k) as [|[|n]]; ls.
Qed.

Lemma lsuf_inc_strong b w : lsuf w (inc_strong b w).
Proof. unfold inc_strong. destruct (get_blk w b) as [k|]; [|ls]. destruct (bfreed k); ls. Qed.

Lemma lsuf_wake_ref x w : lsuf w (wake_ref_handle x w).
Proof. destruct x; simpl; [ls|apply lsuf_wake_slot]. Qed.
Lemma lsuf_drop_val x w : lsuf w (drop_handle_val x w).
Proof. destruct x; simpl; [ls|apply lsuf_dec_strong]. Qed.
Lemma lsuf_clone_val x w : lsuf w (clone_handle_val x w).
Proof.
  destruct x; simpl; [ls|]. eapply lsuf_trans; [apply lsuf_inc_strong|]. ls.
Qed.

Lemma lsuf_do_act cw a w : lsuf w (do_act cw a w).
Proof.
  destruct a; cbn [do_act].
  - destruct cw; [apply lsuf_wake_ref|ls].
  - destruct cw; [apply lsuf_clone_val|ls].
  - destruct (get_handle w h); [apply lsuf_wake_ref|ls].
  - destruct (get_handle w h); [|ls].
    eapply lsuf_trans; [|apply lsuf_drop_val]. eapply lsuf_trans; [|apply lsuf_wake_ref]. ls.
  - destruct (get_handle w h); [|ls]. eapply lsuf_trans; [|apply lsuf_drop_val]. ls.
  - destruct (get_handle w h); [apply lsuf_clone_val|ls].
Qed.

Lemma lsuf_do_acts cw l w : lsuf w (do_acts cw l w).
Proof.
  unfold do_acts. revert w; induction l as [|a l IH]; simpl; intros w; [ls|].
  eapply lsuf_trans; [apply lsuf_do_act|apply IH].
Qed.

Lemma lsuf_run_inj p k sl w : lsuf w (run_inj p k sl w).
Proof.
  unfold run_inj. destruct (find_inj p k (inj_pts (winj w))); [ls|].
  eapply lsuf_trans; [apply lsuf_emit|apply lsuf_do_acts].
Qed.

Lemma lsuf_clear_flag b i w : lsuf w (clear_flag b i w).
Proof. unfold clear_flag. destruct (get_blk w b); ls. Qed.

Lemma lsuf_pop b w : lsuf w (snd (pop b w)).
Proof.
  unfold pop. assert (H0 : lsuf w (set_popk (S (popk w)) w)) by ls.
  destruct (forced_inc (S (popk w)) (set_popk (S (popk w)) w)); cbn [snd].
  - eapply lsuf_trans; [exact H0|apply lsuf_run_inj].
  - change (get_blk (set_popk (S (popk w)) w) b) with (get_blk w b).
    destruct (get_blk w b) as [kb|]; cbn [snd]; [|ls].
    destruct (bqueue kb) as [|i q]; cbn [snd].
    + eapply lsuf_trans; [exact H0|apply lsuf_run_inj].
    + eapply lsuf_trans; [|apply lsuf_run_inj]. eapply lsuf_trans; [|apply lsuf_clear_flag].
      eapply lsuf_trans; [|apply lsuf_run_inj]. ls.
Qed.

Lemma lsuf_self_wake b t w : lsuf w (self_wake b t w).
Proof. unfold self_wake. eapply lsuf_trans; [|apply lsuf_emit]. destruct (get_blk w b); ls. Qed.

Lemma lsuf_register b t w : lsuf w (register b t w).
Proof.
  unfold register. eapply lsuf_trans; [|apply lsuf_run_inj]. destruct (get_blk w b); ls.
Qed.

Lemma lsuf_poll_child k c b s w : lsuf w (snd (poll_child k c b s w)).
Proof.
  unfold poll_child. destruct (cdone c); cbn [snd]; [ls|].
  destruct (cscript c) as [|[acts r0] rest]; cbn [snd]; [ls|].
  eapply lsuf_trans; [|apply lsuf_emit]. eapply lsuf_trans; [|apply lsuf_do_acts]. ls.
Qed.

Lemma lsuf_drain k n f t w : lsuf w (snd (drain k n f t w)).
Proof.
  revert f w. induction n as [|n IH]; intros f w; cbn [drain]; cbn [snd]; [apply lsuf_self_wake|].
  pose proof (lsuf_pop (blk f) w) as Hp. destruct (pop (blk f) w) as [pr w1]. cbn [snd] in Hp.
  destruct pr as [| |i]; cbn [snd]; auto.
  - eapply lsuf_trans; [exact Hp|apply lsuf_self_wake].
  - destruct (sm_get (tasks f) i) as [c|].
    + pose proof (lsuf_poll_child k c (blk f) i w1) as Hc.
      destruct (poll_child k c (blk f) i w1) as [[c' r] w2]. cbn [snd] in Hc.
      destruct (is_ready r); cbn [snd]; [eapply lsuf_trans; eauto|].
      eapply lsuf_trans; [exact Hp|]. eapply lsuf_trans; [exact Hc|apply IH].
    + eapply lsuf_trans; [exact Hp|apply IH].
Qed.

Lemma lsuf_fub_remove f i w : lsuf w (snd (fub_remove f i w)).
Proof. unfold fub_remove. destruct (sm_get (tasks f) i); cbn [snd]; ls. Qed.

Lemma lsuf_fub_drop f w : lsuf w (fub_drop f w).
Proof.
  unfold fub_drop. eapply lsuf_trans; [|apply lsuf_dec_strong].
  unfold drop_children. generalize (sm_children (tasks f)). intros l. revert w.
  induction l as [|p l IH]; intros w; simpl; [ls|]. eapply lsuf_trans; [apply lsuf_emit|apply IH].
Qed.

(** ** the injection script of the operation is never changed *)
Lemma wj_notify b w : winj (notify b w) = winj w.
Proof. unfold notify. destruct (get_blk w b); auto. destruct (breg b0); auto. Qed.
Lemma wj_enqueue b s w : winj (snd (enqueue_slot b s w)) = winj w.
Proof. unfold enqueue_slot. destruct (get_blk w b); auto. destruct (nth_error (bflags b0) s) as [[|]|]; auto. Qed.
Lemma wj_wake_slot b s w : winj (wake_slot b s w) = winj w.
Proof.
  unfold wake_slot. change (get_blk (g_wake w) b) with (get_blk w b).
  destruct (get_blk w b) as [k|]; auto. destruct (bfreed k); auto.
  pose proof (wj_enqueue b s (g_wake w)) as He. destruct (enqueue_slot b s (g_wake w)) as [q w1]. cbn [snd] in He.
  destruct q; auto. rewrite wj_notify. auto.
Qed.
Lemma wj_dec_strong b w : winj (dec_strong b w) = winj w.
Proof. unfold dec_strong. destruct (get_blk w b) as [k|]; auto. destruct (bfreed k); auto. destruct (bstrong k) as [|[|n]]; auto. Qed.
Lemma wj_inc_strong b w : winj (inc_strong b w) = winj w.
Proof. unfold inc_strong. destruct (get_blk w b) as [k|]; auto. destruct (bfreed k); auto. Qed.
Lemma wj_do_act cw a w : winj (do_act cw a w) = winj w.
Proof.
  assert (Hw : forall x w, winj (wake_ref_handle x w) = winj w) by (intros [|]; intros; simpl; auto; apply wj_wake_slot).
  assert (Hd : forall x w, winj (drop_handle_val x w) = winj w) by (intros [|]; intros; simpl; auto; apply wj_dec_strong).
  assert (Hc : forall x w, winj (clone_handle_val x w) = winj w) by (intros [|]; intros; simpl; auto; apply wj_inc_strong).
  destruct a; cbn [do_act]; try destruct cw; try destruct (get_handle w h); auto;
    rewrite ?Hd, ?Hw, ?Hc; reflexivity.
Qed.
Lemma wj_do_acts cw l w : winj (do_acts cw l w) = winj w.
Proof. unfold do_acts. revert w; induction l as [|a l IH]; simpl; intros w; auto. rewrite IH. apply wj_do_act. Qed.
Lemma wj_run_inj p k sl w : winj (run_inj p k sl w) = winj w.
Proof. unfold run_inj. destruct (find_inj p k (inj_pts (winj w))); auto. rewrite wj_do_acts. reflexivity. Qed.
Lemma wj_clear_flag b i w : winj (clear_flag b i w) = winj w.
Proof. unfold clear_flag. destruct (get_blk w b); auto. Qed.
Lemma wj_pop b w : winj (snd (pop b w)) = winj w.
Proof.
  unfold pop. destruct (forced_inc (S (popk w)) (set_popk (S (popk w)) w)); cbn [snd]; [rewrite wj_run_inj; reflexivity|].
  change (get_blk (set_popk (S (popk w)) w) b) with (get_blk w b).
  destruct (get_blk w b) as [kb|]; cbn [snd]; auto.
  destruct (bqueue kb) as [|i q]; cbn [snd]; [rewrite wj_run_inj; reflexivity|].
  rewrite wj_run_inj, wj_clear_flag, wj_run_inj. reflexivity.
Qed.
Lemma wj_self_wake b t w : winj (self_wake b t w) = winj w.
Proof. unfold self_wake. destruct (get_blk w b); auto. Qed.
Lemma wj_register b t w : winj (register b t w) = winj w.
Proof. unfold register. rewrite wj_run_inj. destruct (get_blk w b); auto. Qed.
Lemma wj_poll_child k c b s w : winj (snd (poll_child k c b s w)) = winj w.
Proof.
  unfold poll_child. destruct (cdone c); cbn [snd]; auto.
  destruct (cscript c) as [|[acts r0] rest]; cbn [snd]; auto.
  change (winj (do_acts (Some (HChild b s)) acts (emit (ECPoll (cid c) b s (b, s)) (g_poll w))) = winj w).
  rewrite wj_do_acts. reflexivity.
Qed.
Lemma wj_drain k n f t w : winj (snd (drain k n f t w)) = winj w.
Proof.
  revert f w. induction n as [|n IH]; intros f w; cbn [drain]; cbn [snd]; [apply wj_self_wake|].
  pose proof (wj_pop (blk f) w) as Hp. destruct (pop (blk f) w) as [pr w1]. cbn [snd] in Hp.
  destruct pr as [| |i]; cbn [snd]; auto.
  - rewrite wj_self_wake. auto.
  - destruct (sm_get (tasks f) i) as [c|].
    + pose proof (wj_poll_child k c (blk f) i w1) as Hc.
      destruct (poll_child k c (blk f) i w1) as [[c' r] w2]. cbn [snd] in Hc.
      destruct (is_ready r); cbn [snd]; [congruence|]. rewrite IH. congruence.
    + rewrite IH. auto.
Qed.
Lemma wj_fub_remove f i w : winj (snd (fub_remove f i w)) = winj w.
Proof. unfold fub_remove. destruct (sm_get (tasks f) i); auto. Qed.
Lemma wj_fub_drop f w : winj (fub_drop f w) = winj w.
Proof.
  unfold fub_drop. rewrite wj_dec_strong. unfold drop_children. generalize (sm_children (tasks f)).
  intros l. revert w. induction l as [|p l IH]; intros w; simpl; auto. rewrite IH. reflexivity.
Qed.

Section WithParams.
Variable P : params.
Hypothesis HP : params_ok P.

Lemma lsuf_poll_inner_no_remove k f t w : lsuf w (snd (poll_inner_no_remove P k f t w)).
Proof.
  unfold poll_inner_no_remove. destruct (Nat.eqb (fub_len f) 0); cbn [snd]; [ls|].
  eapply lsuf_trans; [apply lsuf_register|apply lsuf_drain].
Qed.

Lemma lsuf_poll_group mrg g t w : lsuf w (snd (poll_group P mrg g t w)).
Proof.
  unfold poll_group. destruct mrg.
  - unfold mb_poll_next. generalize (S (fub_len g)). intros n. revert g w.
    induction n as [|n IH]; intros g w; cbn [mb_poll_loop]; [ls|].
    pose proof (lsuf_poll_inner_no_remove KSrc g t w) as H.
    destruct (poll_inner_no_remove P KSrc g t w) as [[f1 pr] w1]. cbn [snd] in H.
    destruct pr as [| |i c r]; cbn [snd]; auto.
    assert (Hgo : lsuf w (snd (let '(f0, w0) := fub_remove f1 i w1 in mb_poll_loop P n f0 t w0))).
    { pose proof (lsuf_fub_remove f1 i w1) as Hr. destruct (fub_remove f1 i w1) as [f2 w2]. cbn [snd] in Hr.
      eapply lsuf_trans; [exact H|]. eapply lsuf_trans; [exact Hr|apply IH]. }
    destruct r; auto. cbn [snd]. eapply lsuf_trans; [exact H|]. eapply lsuf_trans; [|apply lsuf_enqueue]. ls.
  - unfold fub_poll_next, poll_inner.
    pose proof (lsuf_poll_inner_no_remove KFut g t w) as H.
    destruct (poll_inner_no_remove P KFut g t w) as [[f1 pr] w1]. cbn [snd] in H.
    destruct pr as [| |i c r]; cbn [snd]; auto.
    pose proof (lsuf_fub_remove f1 i w1) as Hr. destruct (fub_remove f1 i w1) as [f2 w2]. cbn [snd] in *.
    eapply lsuf_trans; eauto.
Qed.

Lemma lsuf_fu_loop mrg n u t w : lsuf w (snd (fu_loop P mrg n u t w)).
Proof.
  revert u w. induction n as [|n IH]; intros u w.
  - cbn [fu_loop]. destruct (if mrg then _ else _); ls.
  - rewrite fu_loop_unfold. unfold fu_iter.
    destruct (nth_error (groups u) (norm u)) as [g|]; [|ls].
    pose proof (lsuf_poll_group mrg g t w) as H.
    destruct (poll_group P mrg g t w) as [[g' sp] w1]. cbn [snd] in H.
    destruct sp; cbn [snd]; auto.
    + eapply lsuf_trans; [exact H|apply IH].
    + destruct (remove_nth (groups u) (norm u)); cbn [snd]; auto.
      destruct (Nat.eqb (norm u) (length (f :: l))).
      * eapply lsuf_trans; [exact H|apply IH].
      * eapply lsuf_trans; [exact H|]. eapply lsuf_trans; [apply lsuf_fub_drop|apply IH].
Qed.

(** ** operations on another block extend the queue of [b] at the tail only *)
Lemma qext_clear_flag_other b b' i w : b' <> b -> qext b w (clear_flag b' i w).
Proof.
  intros Hne. unfold clear_flag. destruct (get_blk w b') eqn:Hk; [|apply qext_refl].
  eapply qext_put_samequeue; eauto.
Qed.

Lemma qext_pop_other b b' w : b' <> b -> qext b w (snd (pop b' w)).
Proof.
  intros Hne. unfold pop.
  assert (H0 : qext b w (set_popk (S (popk w)) w)) by (apply qext_frame; reflexivity).
  destruct (forced_inc (S (popk w)) (set_popk (S (popk w)) w)); cbn [snd].
  - eapply qext_trans; [exact H0|apply qext_run_inj].
  - change (get_blk (set_popk (S (popk w)) w) b') with (get_blk w b').
    destruct (get_blk w b') as [kb|] eqn:Hk; cbn [snd]; [|apply qext_frame; reflexivity].
    destruct (bqueue kb) as [|i q]; cbn [snd].
    + eapply qext_trans; [exact H0|apply qext_run_inj].
    + eapply qext_trans; [|apply qext_run_inj]. eapply qext_trans; [|apply qext_clear_flag_other; auto].
      eapply qext_trans; [|apply qext_run_inj]. eapply qext_trans; [exact H0|].
      exists []. rewrite app_nil_r. apply qof_put_other; auto.
Qed.

Lemma qext_register b b' t w : qext b w (register b' t w).
Proof.
  unfold register. eapply qext_trans; [|apply qext_run_inj].
  destruct (get_blk w b') as [k|] eqn:Hk.
  - eapply qext_trans; [eapply qext_put_samequeue with (k := blk_set_last (blk_set_reg k (Some t)) (Some t)); eauto|].
    apply qext_frame; reflexivity.
  - apply qext_frame; reflexivity.
Qed.

Lemma qext_drain_other b k n f t w : blk f <> b -> qext b w (snd (drain k n f t w)).
Proof.
  intros Hne. revert f w Hne. induction n as [|n IH]; intros f w Hne; cbn [drain]; cbn [snd]; [apply qext_self_wake|].
  pose proof (qext_pop_other b (blk f) w Hne) as Hp. destruct (pop (blk f) w) as [pr w1]. cbn [snd] in Hp.
  destruct pr as [| |i]; cbn [snd]; auto.
  - eapply qext_trans; [exact Hp|apply qext_self_wake].
  - destruct (sm_get (tasks f) i) as [c|].
    + pose proof (qext_poll_child b k c (blk f) i w1) as Hc.
      destruct (poll_child k c (blk f) i w1) as [[c' r] w2]. cbn [snd] in Hc.
      destruct (is_ready r); cbn [snd]; [eapply qext_trans; eauto|].
      eapply qext_trans; [exact Hp|]. eapply qext_trans; [exact Hc|apply IH; auto].
    + eapply qext_trans; [exact Hp|apply IH; auto].
Qed.

Lemma qext_fub_remove b f i w : qext b w (snd (fub_remove f i w)).
Proof. unfold fub_remove. destruct (sm_get (tasks f) i); cbn [snd]; [apply qext_frame; reflexivity|apply qext_refl]. Qed.

Lemma qext_fub_drop b f w : qext b w (fub_drop f w).
Proof.
  unfold fub_drop. eapply qext_trans; [|apply qext_dec_strong]. apply qext_frame.
  unfold drop_children. generalize (sm_children (tasks f)). intros l. revert w.
  induction l as [|p l IH]; intros w; simpl; auto. rewrite IH. reflexivity.
Qed.

Lemma qext_poll_inner_other b k f t w : blk f <> b -> qext b w (snd (poll_inner_no_remove P k f t w)).
Proof.
  intros Hne. unfold poll_inner_no_remove. destruct (Nat.eqb (fub_len f) 0); cbn [snd]; [apply qext_refl|].
  eapply qext_trans; [apply qext_register|apply qext_drain_other; auto].
Qed.

Lemma poll_inner_no_remove_blk k f t w : blk (fst (fst (poll_inner_no_remove P k f t w))) = blk f.
Proof. unfold poll_inner_no_remove. destruct (Nat.eqb (fub_len f) 0); [reflexivity|apply drain_blk]. Qed.

Lemma qext_poll_group_other b mrg g t w : blk g <> b -> qext b w (snd (poll_group P mrg g t w)).
Proof.
  intros Hne. unfold poll_group. destruct mrg.
  - unfold mb_poll_next. generalize (S (fub_len g)). intros n. revert g w Hne.
    induction n as [|n IH]; intros g w Hne; cbn [mb_poll_loop]; [apply qext_frame; reflexivity|].
    pose proof (qext_poll_inner_other b KSrc g t w Hne) as H.
    pose proof (poll_inner_no_remove_blk KSrc g t w) as Hb.
    destruct (poll_inner_no_remove P KSrc g t w) as [[f1 pr] w1]. cbn [fst snd] in *.
    destruct pr as [| |i c r]; cbn [snd]; auto.
    assert (Hgo : qext b w (snd (let '(f0, w0) := fub_remove f1 i w1 in mb_poll_loop P n f0 t w0))).
    { pose proof (qext_fub_remove b f1 i w1) as Hr.
      assert (Hb2 : blk (fst (fub_remove f1 i w1)) = blk f1) by (unfold fub_remove; destruct (sm_get (tasks f1) i); reflexivity).
      destruct (fub_remove f1 i w1) as [f2 w2]. cbn [fst snd] in *.
      eapply qext_trans; [exact H|]. eapply qext_trans; [exact Hr|apply IH; congruence]. }
    destruct r; auto. cbn [snd]. eapply qext_trans; [exact H|].
    eapply qext_trans; [|apply qext_enqueue]. apply qext_frame; reflexivity.
  - unfold fub_poll_next, poll_inner.
    pose proof (qext_poll_inner_other b KFut g t w Hne) as H.
    destruct (poll_inner_no_remove P KFut g t w) as [[f1 pr] w1]. cbn [snd] in H.
    destruct pr as [| |i c r]; cbn [snd]; auto.
    pose proof (qext_fub_remove b f1 i w1) as Hr. destruct (fub_remove f1 i w1) as [f2 w2]. cbn [snd] in *.
    eapply qext_trans; eauto.
Qed.


(** ** one iteration keeps the blocks distinct *)
Lemma fu_iter_nodup mrg u t w :
  groups u <> [] -> NoDup (blks (groups u)) ->
  match fu_iter P mrg u t w with
  | ICont u1 _ => NoDup (blks (groups u1))
  | IDone _ => True
  end.
Proof.
  intros Hne Hnd. destruct (@fu_iter_shape P mrg u t w Hne) as (l1 & g & l2 & Hsplit & Hl1 & Hshape).
  pose proof (poll_group_addr P mrg g t w) as Ha.
  destruct (poll_group P mrg g t w) as [[g' sp] w1]. destruct Ha as [C _].
  destruct (fu_iter P mrg u t w) as [r|u1 w2]; auto.
  rewrite Hsplit in Hnd. unfold blks in *. rewrite map_app in Hnd. simpl in Hnd.
  destruct Hshape as [(_ & Hg1 & _) | [(_ & -> & Hg1 & _) | (_ & _ & Hg1 & _)]]; rewrite Hg1, map_app; simpl.
  - rewrite C. exact Hnd.
  - rewrite C. exact Hnd.
  - eapply NoDup_remove_1; eauto.
Qed.

(** what a poll of other groups may do to the block of a group it does not poll: extend its
    queue at the tail, extend the log; the injection script stays *)
Definition frame (b : nat) (w w' : world) : Prop := qext b w w' /\ lsuf w w' /\ winj w' = winj w.

Lemma frame_refl b w : frame b w w. Proof. split; [apply qext_refl|split; [apply lsuf_refl|reflexivity]]. Qed.
Lemma frame_trans b w1 w2 w3 : frame b w1 w2 -> frame b w2 w3 -> frame b w1 w3.
Proof.
  intros (A & B & C) (A' & B' & C'). split; [eapply qext_trans; eauto|split; [eapply lsuf_trans; eauto|congruence]].
Qed.

Lemma wj_poll_inner_no_remove k f t w : winj (snd (poll_inner_no_remove P k f t w)) = winj w.
Proof.
  unfold poll_inner_no_remove. destruct (Nat.eqb (fub_len f) 0); cbn [snd]; auto.
  rewrite wj_drain, wj_register. reflexivity.
Qed.

Lemma wj_poll_group mrg g t w : winj (snd (poll_group P mrg g t w)) = winj w.
Proof.
  unfold poll_group. destruct mrg.
  - unfold mb_poll_next. generalize (S (fub_len g)). intros n. revert g w.
    induction n as [|n IH]; intros g w; cbn [mb_poll_loop]; auto.
    pose proof (wj_poll_inner_no_remove KSrc g t w) as H.
    destruct (poll_inner_no_remove P KSrc g t w) as [[f1 pr] w1]. cbn [snd] in H.
    destruct pr as [| |i c r]; cbn [snd]; auto.
    assert (Hgo : winj (snd (let '(f0, w0) := fub_remove f1 i w1 in mb_poll_loop P n f0 t w0)) = winj w).
    { pose proof (wj_fub_remove f1 i w1) as Hr. destruct (fub_remove f1 i w1) as [f2 w2]. cbn [snd] in Hr.
      rewrite IH. congruence. }
    destruct r; auto. cbn [snd]. rewrite wj_enqueue. exact H.
  - unfold fub_poll_next, poll_inner.
    pose proof (wj_poll_inner_no_remove KFut g t w) as H.
    destruct (poll_inner_no_remove P KFut g t w) as [[f1 pr] w1]. cbn [snd] in H.
    destruct pr as [| |i c r]; cbn [snd]; auto.
    pose proof (wj_fub_remove f1 i w1) as Hr. destruct (fub_remove f1 i w1) as [f2 w2]. cbn [snd] in *. congruence.
Qed.

Lemma frame_poll_group_other b mrg g t w : blk g <> b -> frame b w (snd (poll_group P mrg g t w)).
Proof. intros Hne. split; [apply qext_poll_group_other; auto|split; [apply lsuf_poll_group|apply wj_poll_group]]. Qed.

Lemma frame_fub_drop b f w : frame b w (fub_drop f w).
Proof. split; [apply qext_fub_drop|split; [apply lsuf_fub_drop|apply wj_fub_drop]]. Qed.

(** [g] was polled during the call: at a moment [w0] at which its queue was the queue at the
    start of the call, extended at the tail only; everything that poll logged is in the final log *)
Definition polled_in (mrg : bool) (g : fub) (t : nat) (w w' : world) : Prop :=
  exists w0, frame (blk g) w w0 /\ lsuf (snd (poll_group P mrg g t w0)) w'.

Theorem fu_loop_victim mrg n u t w pre g post :
  winv (cnt (blks (groups u))) None w -> fu_ok mrg u -> groups u <> [] -> NoDup (blks (groups u)) ->
  rot u = pre ++ g :: post -> length pre < n ->
  let '(u', sp, w') := fu_loop P mrg n u t w in
  polled_in mrg g t w w'
  \/ (exists tk c pre' post', sp = SItem tk c /\ rot u' = pre' ++ g :: post' /\ length pre' < length pre
        /\ frame (blk g) w w').
Proof.
  revert u w pre post. induction n as [|n IH]; intros u w pre post Hw Hok Hne Hnd Hrot Hlt; [lia|].
  rewrite fu_loop_unfold.
  pose proof (@fu_iter_ok P mrg u t w Hw Hok Hne) as Hnext.
  pose proof (@fu_iter_nodup mrg u t w Hne Hnd) as Hnd1.
  destruct (@fu_iter_shape P mrg u t w Hne) as (l1 & g0 & l2 & Hsplit & Hl1 & Hshape).
  rewrite (@rot_at u l1 (g0 :: l2) Hsplit (eq_sym Hl1)) in Hrot. simpl in Hrot.
  destruct pre as [|h pre1]; simpl in Hrot; inversion Hrot as [[Hhd Htl]]; subst g0; clear Hrot.
  - (* the group at the cursor: polled now *)
    pose proof (lsuf_poll_group mrg g t w) as Hl.
    destruct (poll_group P mrg g t w) as [[g' sp] w1] eqn:Hpg. cbn [snd] in Hl.
    assert (Hrest : forall u1 w2, lsuf w1 w2 -> lsuf w1 (snd (fu_loop P mrg n u1 t w2))).
    { intros u1 w2 H. eapply lsuf_trans; [exact H|apply lsuf_fu_loop]. }
    assert (Hfin : lsuf w1 (snd (match fu_iter P mrg u t w with IDone r => r | ICont u1 w2 => fu_loop P mrg n u1 t w2 end))).
    { destruct (fu_iter P mrg u t w) as [[[u' sp'] w']|u1 w2].
      - destruct Hshape as (_ & _ & -> & _). apply lsuf_refl.
      - destruct Hshape as [(_ & _ & _ & ->) | [(_ & _ & _ & _ & ->) | (_ & _ & _ & _ & ->)]];
          apply Hrest; [apply lsuf_refl|apply lsuf_refl|apply lsuf_fub_drop]. }
    destruct (match fu_iter P mrg u t w with IDone r => r | ICont u1 w2 => fu_loop P mrg n u1 t w2 end) as [[u' sp'] w'].
    left. exists w. rewrite Hpg. split; [apply frame_refl|exact Hfin].
  - (* another group is at the cursor *)
    assert (Hin : In g (l2 ++ l1)) by (rewrite Htl; apply in_or_app; right; left; auto).
    assert (Hneq : blk h <> blk g).
    { intros Heq. rewrite Hsplit in Hnd. unfold blks in Hnd. rewrite map_app in Hnd. simpl in Hnd.
      apply NoDup_remove_2 in Hnd. apply Hnd. rewrite Heq, <- map_app. apply in_map.
      apply in_app_iff. apply in_app_iff in Hin. tauto. }
    pose proof (frame_poll_group_other (blk g) mrg h t w Hneq) as Hq.
    destruct (poll_group P mrg h t w) as [[g' sp] w1]. cbn [snd] in Hq.
    destruct (fu_iter P mrg u t w) as [[[u' sp'] w']|u1 w2].
    + destruct Hshape as (-> & Hsp & -> & _ & Hitem & Hnone).
      destruct sp as [| |tk c]; [congruence| |].
      * destruct (Hnone eq_refl) as [-> ->]. destruct pre1; discriminate.
      * right. destruct (Hitem tk c eq_refl) as [Hg1 Hc1].
        exists tk, c, pre1, (post ++ [g']). splits; auto.
        rewrite (rot_next _ _ _ _ Hg1 Hc1), Htl, <- app_assoc. reflexivity.
    + destruct Hnext as (N1 & N2 & N3).
      assert (Hstep : exists post1, rot u1 = pre1 ++ g :: post1 /\ frame (blk g) w w2).
      { destruct Hshape as [(_ & Hg1 & Hc1 & ->) | [(_ & -> & Hg1 & Hc1 & ->) | (_ & Hl2 & Hg1 & Hc1 & ->)]].
        - exists (post ++ [g']). splits; auto. rewrite (rot_next _ _ _ _ Hg1 Hc1), Htl, <- app_assoc. reflexivity.
        - exists (post ++ [g']). splits; auto. rewrite (rot_front _ _ Hg1 Hc1). simpl in Htl.
          rewrite Htl, <- app_assoc. reflexivity.
        - exists post. splits.
          + rewrite (rot_same _ _ _ Hg1 Hl2 Hc1). exact Htl.
          + eapply frame_trans; [exact Hq|apply frame_fub_drop]. }
      destruct Hstep as (post1 & Hr1 & Hq2).
      assert (Hlt1 : length pre1 < n) by (simpl in Hlt; lia).
      specialize (IH u1 w2 pre1 post1 N1 N2 N3 Hnd1 Hr1 Hlt1).
      destruct (fu_loop P mrg n u1 t w2) as [[u' sp'] w'].
      destruct IH as [(w0 & A & B) | (tk & c & pre' & post' & A & B & C & D)].
      * left. exists w0. split; auto. eapply frame_trans; eauto.
      * right. exists tk, c, pre', post'. splits; auto; [simpl; lia | eapply frame_trans; eauto].
Qed.

(** the whole poll: every group is polled, or an item came from a group in front of it and
    the group is strictly closer to the cursor afterwards *)
Theorem fu_poll_victim mrg u t w pre g post :
  winv (cnt (blks (groups u))) None w -> fu_ok mrg u -> NoDup (blks (groups u)) ->
  rot u = pre ++ g :: post ->
  let '(u', sp, w') := fu_poll_next P mrg u t w in
  polled_in mrg g t w w'
  \/ (exists tk c pre' post', sp = SItem tk c /\ rot u' = pre' ++ g :: post' /\ length pre' < length pre
        /\ frame (blk g) w w').
Proof.
  intros Hw Hok Hnd Hrot. unfold fu_poll_next.
  assert (Hlen : length (rot u) = length (groups u)).
  { unfold rot. rewrite app_length, skipn_length, firstn_length. lia. }
  destruct (groups u) as [|g0 gs0] eqn:Hg.
  - unfold rot in Hrot. rewrite Hg in Hrot. destruct (norm u); destruct pre; discriminate.
  - rewrite <- Hg in *. apply (@fu_loop_victim mrg (length (groups u)) u t w pre g post); auto; [rewrite Hg; discriminate|].
    rewrite <- Hlen, Hrot, app_length. simpl. lia.
Qed.

(** ** from "the group is polled" to "the child at the head of its queue is polled" *)
Lemma poll_child_logged k c b s w : In (ECPoll (cid c) b s (b, s)) (log (snd (poll_child k c b s w))).
Proof.
  unfold poll_child. destruct (cdone c); cbn [snd]; [simpl; auto|].
  destruct (cscript c) as [|[acts r0] rest]; cbn [snd]; [simpl; auto|].
  simpl. right. eapply lsuf_in; [apply lsuf_do_acts|]. simpl; auto.
Qed.

Lemma no_forced w k : inj_inc (winj w) = [] -> forced_inc k (set_popk k w) = false.
Proof. intros H. unfold forced_inc. simpl. rewrite H. reflexivity. Qed.

Lemma poll_inner_head_polled k f t w s rest c :
  fub_len f <> 0 -> inj_inc (winj w) = [] ->
  qof w (blk f) = s :: rest -> sm_get (tasks f) s = Some c ->
  In (ECPoll (cid c) (blk f) s (blk f, s)) (log (snd (poll_inner_no_remove P k f t w))).
Proof.
  intros Hlen Hinj Hq Hg. unfold poll_inner_no_remove.
  destruct (Nat.eqb_spec (fub_len f) 0) as [|_]; [congruence|].
  destruct HP as (HB & _). destruct (pB P) as [|n]; [lia|].
  set (w1 := register (blk f) t w).
  destruct (qext_register (blk f) (blk f) t w) as [ext He]. fold w1 in He. rewrite Hq in He. simpl in He.
  assert (Hf : forced_inc (S (popk w1)) (set_popk (S (popk w1)) w1) = false).
  { apply no_forced. unfold w1. rewrite wj_register. exact Hinj. }
  destruct (@head_occupant_polled_first k n f t w1 s (rest ++ ext) c He Hf Hg) as (w2 & Hp & Hd).
  rewrite Hd. pose proof (poll_child_logged k c (blk f) s w2) as Hc.
  destruct (poll_child k c (blk f) s w2) as [[c' r] w3]. cbn [snd] in Hc.
  destruct (is_ready r); cbn [snd]; auto. eapply lsuf_in; [apply lsuf_drain|exact Hc].
Qed.

Lemma poll_group_head_polled mrg g t w s rest c :
  fub_len g <> 0 -> inj_inc (winj w) = [] ->
  qof w (blk g) = s :: rest -> sm_get (tasks g) s = Some c ->
  In (ECPoll (cid c) (blk g) s (blk g, s)) (log (snd (poll_group P mrg g t w))).
Proof.
  intros Hlen Hinj Hq Hg. unfold poll_group. destruct mrg.
  - unfold mb_poll_next. cbn [mb_poll_loop].
    pose proof (@poll_inner_head_polled KSrc g t w s rest c Hlen Hinj Hq Hg) as H.
    destruct (poll_inner_no_remove P KSrc g t w) as [[f1 pr] w1]. cbn [snd] in H.
    destruct pr as [| |i c1 r]; cbn [snd]; auto.
    assert (Hgo : In (ECPoll (cid c) (blk g) s (blk g, s))
                     (log (snd (let '(f0, w0) := fub_remove f1 i w1 in mb_poll_loop P (fub_len g) f0 t w0)))).
    { pose proof (lsuf_fub_remove f1 i w1) as Hr. destruct (fub_remove f1 i w1) as [f2 w2]. cbn [snd] in Hr.
      pose proof (lsuf_poll_group true f2 t w2) as Hl. unfold poll_group, mb_poll_next in Hl.
      assert (Hx : lsuf w2 (snd (mb_poll_loop P (fub_len g) f2 t w2))).
      { clear. generalize (fub_len g). intros n. revert f2 w2.
        induction n as [|n IH]; intros f w; cbn [mb_poll_loop]; [ls|].
        pose proof (lsuf_poll_inner_no_remove KSrc f t w) as H.
        destruct (poll_inner_no_remove P KSrc f t w) as [[f1 pr] w1]. cbn [snd] in H.
        destruct pr as [| |i c r]; cbn [snd]; auto.
        assert (Hgo : lsuf w (snd (let '(f0, w0) := fub_remove f1 i w1 in mb_poll_loop P n f0 t w0))).
        { pose proof (lsuf_fub_remove f1 i w1) as Hr. destruct (fub_remove f1 i w1) as [f2 w2]. cbn [snd] in Hr.
          eapply lsuf_trans; [exact H|]. eapply lsuf_trans; [exact Hr|apply IH]. }
        destruct r; auto. cbn [snd]. eapply lsuf_trans; [exact H|]. eapply lsuf_trans; [|apply lsuf_enqueue]. ls. }
      eapply lsuf_in; [exact Hx|]. eapply lsuf_in; [exact Hr|exact H]. }
    destruct r; auto. cbn [snd]. eapply lsuf_in; [apply lsuf_enqueue|]. exact H.
  - unfold fub_poll_next, poll_inner.
    pose proof (@poll_inner_head_polled KFut g t w s rest c Hlen Hinj Hq Hg) as H.
    destruct (poll_inner_no_remove P KFut g t w) as [[f1 pr] w1]. cbn [snd] in H.
    destruct pr as [| |i c1 r]; cbn [snd]; auto.
    pose proof (lsuf_fub_remove f1 i w1) as Hr. destruct (fub_remove f1 i w1) as [f2 w2]. cbn [snd] in *.
    eapply lsuf_in; eauto.
Qed.

(** if the victim's slot is at the head of its group's ready queue when the call begins (no
    forced "inconsistent" pops in this call), and its group is polled during the call, the victim
    is polled during the call *)
Theorem polled_in_polls_head mrg g t w w' s rest c :
  polled_in mrg g t w w' -> fub_len g <> 0 -> inj_inc (winj w) = [] ->
  qof w (blk g) = s :: rest -> sm_get (tasks g) s = Some c ->
  In (ECPoll (cid c) (blk g) s (blk g, s)) (log w').
Proof.
  intros (w0 & (Hq & Hl & Hj) & Hfin) Hlen Hinj Hqw Hg.
  destruct Hq as [ext He]. rewrite Hqw in He. simpl in He. rewrite <- Hj in Hinj.
  eapply lsuf_in; [exact Hfin|]. eapply poll_group_head_polled; eauto.
Qed.

(** *** in every reachable state of every history *)
Theorem reachable_group_not_starved ops (mrg : bool) u t i pre g post :
  st_coll (reach P ops) = (if mrg then CMu u else CFu u) ->
  rot u = pre ++ g :: post ->
  let w := begin_op i (st_world (reach P ops)) in
  let '(u', sp, w') := fu_poll_next P mrg u t w in
  polled_in mrg g t w w'
  \/ (exists tk c pre' post', sp = SItem tk c /\ rot u' = pre' ++ g :: post' /\ length pre' < length pre
        /\ frame (blk g) w w').
Proof.
  intros Hc Hrot. pose proof (@reachable_nd P HP ops) as Hn. destruct (@reachable_Inv P HP ops) as [Hw Hok].
  rewrite Hc in *.
  assert (Hw' : winv (cnt (blks (groups u))) None (begin_op i (st_world (reach P ops)))).
  { apply winv_begin_op. destruct mrg; exact Hw. }
  assert (Hok' : fu_ok mrg u) by (destruct mrg; exact Hok).
  assert (Hn' : NoDup (blks (groups u))) by (destruct mrg; exact Hn).
  cbv zeta. apply (@fu_poll_victim mrg u t _ pre g post); auto.
Qed.

(** *** several polls: as long as nothing is pushed, a group at distance [d] from the cursor is
    polled within [d + 1] polls — whatever the other groups yield in the meantime and whatever
    wakes arrive between the polls *)
Definition poll_or_env (o : op) : Prop :=
  match o with OPoll _ _ | OEnv _ | OObs | OMove | OCleanup => True | _ => False end.

Fixpoint npolls (ops : list op) : nat :=
  match ops with [] => 0 | OPoll _ _ :: r => S (npolls r) | _ :: r => npolls r end.

Lemma reach_app a b : reach P (a ++ b) = run_state P (reach P a) b.
Proof.
  unfold reach. generalize init_state. induction a as [|o a IH]; intros s; simpl; auto.
Qed.

Definition Cu (mrg : bool) (u : fu) : coll := if mrg then CMu u else CFu u.

Lemma step_keeps_coll s o (mrg : bool) u :
  st_coll s = Cu mrg u ->
  match o with OEnv _ | OObs | OMove | OCleanup => True | _ => False end ->
  st_coll (fst (step_op P s o)) = Cu mrg u.
Proof.
  intros Hc Ho. unfold step_op. rewrite Hc. destruct mrg; simpl; destruct o; try contradiction; reflexivity.
Qed.

Lemma step_poll_coll s t i (mrg : bool) u :
  st_coll s = Cu mrg u ->
  st_coll (fst (step_op P s (OPoll t i))) = Cu mrg (fst (fst (fu_poll_next P mrg u t (begin_op i (st_world s))))).
Proof.
  intros Hc. unfold step_op. rewrite Hc. destruct mrg; simpl;
    destruct (fu_poll_next P _ u t (begin_op i (st_world s))) as [[u' sp] w']; reflexivity.
Qed.

Theorem group_polled_within_its_distance ops0 ops (mrg : bool) u pre g post :
  st_coll (reach P ops0) = Cu mrg u -> rot u = pre ++ g :: post -> Forall poll_or_env ops ->
  (exists ops1 t i ops2 u1,
      ops = ops1 ++ OPoll t i :: ops2 /\ st_coll (reach P (ops0 ++ ops1)) = Cu mrg u1 /\ In g (groups u1)
      /\ polled_in mrg g t (begin_op i (st_world (reach P (ops0 ++ ops1))))
                   (snd (fu_poll_next P mrg u1 t (begin_op i (st_world (reach P (ops0 ++ ops1)))))))
  \/ (exists u' pre' post', st_coll (reach P (ops0 ++ ops)) = Cu mrg u' /\ rot u' = pre' ++ g :: post'
                            /\ length pre' + npolls ops <= length pre).
Proof.
  intros Hc Hrot Hall. revert ops0 u pre post Hc Hrot.
  induction Hall as [|o ops Ho Hall IH]; intros ops0 u pre post Hc Hrot.
  - right. exists u, pre, post. rewrite app_nil_r. simpl. splits; auto; lia.
  - destruct o as [ty p inits ups|c sc|c sc|c sc|c sc|t i|a| | | | ]; try contradiction.
    + (* a poll *)
      pose proof (@reachable_group_not_starved ops0 mrg u t i pre g post Hc Hrot) as Hv. cbv zeta in Hv.
      assert (Hnext : st_coll (reach P (ops0 ++ [OPoll t i]))
                      = Cu mrg (fst (fst (fu_poll_next P mrg u t (begin_op i (st_world (reach P ops0))))))).
      { rewrite reach_app. simpl. apply step_poll_coll; auto. }
      destruct (fu_poll_next P mrg u t (begin_op i (st_world (reach P ops0)))) as [[u' sp] w'] eqn:Ep.
      cbn [fst snd] in *.
      destruct Hv as [Hpolled | (tk & c & pre' & post' & Hsp & Hrot' & Hlt & Hfr)].
      * left. exists [], t, i, ops, u. rewrite app_nil_r, Ep. splits; auto.
        apply rot_in. rewrite Hrot. apply in_or_app; right; left; auto.
      * destruct (IH (ops0 ++ [OPoll t i]) u' pre' post' Hnext Hrot') as
            [(ops1 & t1 & i1 & ops2 & u1 & E1 & E2 & E3 & E4) | (u2 & pre2 & post2 & F1 & F2 & F3)].
        -- left. exists (OPoll t i :: ops1), t1, i1, ops2, u1. rewrite <- app_assoc in E2, E4. simpl in E2, E4.
           splits; auto. simpl. rewrite E1. reflexivity.
        -- right. exists u2, pre2, post2. rewrite <- app_assoc in F1. simpl in F1. splits; auto. simpl. lia.
    + (* environment: a waker action *)
      assert (Hnext : st_coll (reach P (ops0 ++ [OEnv a])) = Cu mrg u).
      { rewrite reach_app. simpl. apply step_keeps_coll; auto; exact I. }
      destruct (IH (ops0 ++ [OEnv a]) u pre post Hnext Hrot) as
          [(ops1 & t1 & i1 & ops2 & u1 & E1 & E2 & E3 & E4) | (u2 & pre2 & post2 & F1 & F2 & F3)].
      * left. exists (OEnv a :: ops1), t1, i1, ops2, u1. rewrite <- app_assoc in E2, E4. simpl in E2, E4.
        splits; auto. simpl. rewrite E1. reflexivity.
      * right. exists u2, pre2, post2. rewrite <- app_assoc in F1. simpl in F1. splits; auto.
    + assert (Hnext : st_coll (reach P (ops0 ++ [OObs])) = Cu mrg u).
      { rewrite reach_app. simpl. apply step_keeps_coll; auto; exact I. }
      destruct (IH (ops0 ++ [OObs]) u pre post Hnext Hrot) as
          [(ops1 & t1 & i1 & ops2 & u1 & E1 & E2 & E3 & E4) | (u2 & pre2 & post2 & F1 & F2 & F3)].
      * left. exists (OObs :: ops1), t1, i1, ops2, u1. rewrite <- app_assoc in E2, E4. simpl in E2, E4.
        splits; auto. simpl. rewrite E1. reflexivity.
      * right. exists u2, pre2, post2. rewrite <- app_assoc in F1. simpl in F1. splits; auto.
    + assert (Hnext : st_coll (reach P (ops0 ++ [OMove])) = Cu mrg u).
      { rewrite reach_app. simpl. apply step_keeps_coll; auto; exact I. }
      destruct (IH (ops0 ++ [OMove]) u pre post Hnext Hrot) as
          [(ops1 & t1 & i1 & ops2 & u1 & E1 & E2 & E3 & E4) | (u2 & pre2 & post2 & F1 & F2 & F3)].
      * left. exists (OMove :: ops1), t1, i1, ops2, u1. rewrite <- app_assoc in E2, E4. simpl in E2, E4.
        splits; auto. simpl. rewrite E1. reflexivity.
      * right. exists u2, pre2, post2. rewrite <- app_assoc in F1. simpl in F1. splits; auto.
    + assert (Hnext : st_coll (reach P (ops0 ++ [OCleanup])) = Cu mrg u).
      { rewrite reach_app. simpl. apply step_keeps_coll; auto; exact I. }
      destruct (IH (ops0 ++ [OCleanup]) u pre post Hnext Hrot) as
          [(ops1 & t1 & i1 & ops2 & u1 & E1 & E2 & E3 & E4) | (u2 & pre2 & post2 & F1 & F2 & F3)].
      * left. exists (OCleanup :: ops1), t1, i1, ops2, u1. rewrite <- app_assoc in E2, E4. simpl in E2, E4.
        splits; auto. simpl. rewrite E1. reflexivity.
      * right. exists u2, pre2, post2. rewrite <- app_assoc in F1. simpl in F1. splits; auto.
Qed.

Corollary group_polled_within_distance_plus_one ops0 ops (mrg : bool) u pre g post :
  st_coll (reach P ops0) = Cu mrg u -> rot u = pre ++ g :: post -> Forall poll_or_env ops ->
  length pre < npolls ops ->
  exists ops1 t i ops2 u1,
      ops = ops1 ++ OPoll t i :: ops2 /\ st_coll (reach P (ops0 ++ ops1)) = Cu mrg u1 /\ In g (groups u1)
      /\ polled_in mrg g t (begin_op i (st_world (reach P (ops0 ++ ops1))))
                   (snd (fu_poll_next P mrg u1 t (begin_op i (st_world (reach P (ops0 ++ ops1)))))).
Proof.
  intros Hc Hrot Hall Hlt.
  destruct (@group_polled_within_its_distance ops0 ops mrg u pre g post Hc Hrot Hall) as [H|(u' & pre' & post' & _ & _ & F)]; auto.
  lia.
Qed.
End WithParams.
