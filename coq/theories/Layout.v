(** * Layout: the pointer arithmetic of the shared waker block (C03 d)

    One allocation  [ header | padding | item 0 | ... | item cap-1 | stub ].  Integer
    re-statement of [slice_offset] (the mask formula), [WakerList::layout] ([Layout::extend] +
    [pad_to_align]) and [meta_raw] (item pointer -> header pointer).  [hs]/[ha] = size / alignment
    of the header, [isz]/[ia] of an item; alignments are powers of two [2^ka], [2^ki]; Rust sizes
    are multiples of the alignment.  Addresses are offsets from the block's base. *)
From FB Require Import Base Tactics.
Local Open Scope Z_scope.

(** the mask formula of the source: (len + align - 1) & !(align - 1) *)
Definition round_up_mask (len align : Z) : Z := Z.land (len + align - 1) (Z.lnot (align - 1)).

Definition round_up (len align : Z) : Z := ((len + align - 1) / align) * align.

Lemma mask_is_round_up len k : 0 <= k -> round_up_mask len (2 ^ k) = round_up len (2 ^ k).
Proof.
  intros Hk. unfold round_up_mask, round_up.
  replace (2 ^ k - 1) with (Z.ones k) by (rewrite Z.ones_equiv; lia).
  rewrite <- Z.ldiff_land. rewrite Z.ldiff_ones_r by lia. rewrite Z.shiftl_mul_pow2, Z.shiftr_div_pow2 by lia. reflexivity.
Qed.

Lemma round_up_ge len a : 0 < a -> len <= round_up len a.
Proof.
  intros Ha. unfold round_up. pose proof (Z.div_mod (len + a - 1) a ltac:(lia)) as H.
  pose proof (Z.mod_pos_bound (len + a - 1) a Ha). nia.
Qed.

Lemma round_up_lt len a : 0 < a -> round_up len a < len + a.
Proof.
  intros Ha. unfold round_up. pose proof (Z.div_mod (len + a - 1) a ltac:(lia)) as H.
  pose proof (Z.mod_pos_bound (len + a - 1) a Ha). nia.
Qed.

Lemma round_up_multiple len a : 0 < a -> (round_up len a) mod a = 0.
Proof. intros Ha. unfold round_up. apply Z.mod_mul. lia. Qed.

Lemma round_up_id len a : 0 < a -> len mod a = 0 -> round_up len a = len.
Proof.
  intros Ha Hm. unfold round_up. apply Z.mod_divide in Hm; [|lia]. destruct Hm as [q ->].
  replace (q * a + a - 1) with ((a - 1) + q * a) by lia. rewrite Z.div_add by lia.
  rewrite Z.div_small by lia. lia.
Qed.

Section L.
Variables (hs isz ka ki : Z).
Hypothesis Hka : 0 <= ka.
Hypothesis Hki : 0 <= ki.
Hypothesis Hhs : 0 <= hs.
Hypothesis His : 0 < isz.
Let ha := 2 ^ ka.
Let ia := 2 ^ ki.
Hypothesis Hsize_h : hs mod ha = 0.
Hypothesis Hsize_i : isz mod ia = 0.

(** [slice_offset()] *)
Definition slice_offset : Z := hs + (round_up_mask hs ia - hs).

(** [WakerList::layout(cap)]: size and alignment of the allocation *)
Definition block_align : Z := Z.max ha ia.
Definition block_size (cap : Z) : Z := round_up (round_up hs ia + isz * (cap + 1)) block_align.

(** offset of item [i] (the stub is item [cap]) *)
Definition item_off (i : Z) : Z := slice_offset + i * isz.

Lemma ia_pos : 0 < ia. Proof. unfold ia. apply Z.pow_pos_nonneg; lia. Qed.
Lemma ha_pos : 0 < ha. Proof. unfold ha. apply Z.pow_pos_nonneg; lia. Qed.

Lemma slice_offset_eq : slice_offset = round_up hs ia.
Proof. unfold slice_offset, ia. rewrite mask_is_round_up by lia. lia. Qed.

(** the items start after the header, at an item-aligned offset *)
Theorem slice_after_header : hs <= slice_offset /\ slice_offset mod ia = 0.
Proof.
  rewrite slice_offset_eq. split; [apply round_up_ge; apply ia_pos | apply round_up_multiple; apply ia_pos].
Qed.

(** every item, the stub included, lies inside the allocation and is aligned (the base of the
    allocation is aligned to [block_align], a multiple of [ia]) *)
Theorem item_inside cap i :
  0 <= i <= cap -> hs <= item_off i /\ item_off i + isz <= block_size cap /\ (item_off i) mod ia = 0.
Proof.
  intros Hi. pose proof ia_pos. pose proof ha_pos. destruct slice_after_header as [H1 H2].
  unfold item_off. splits.
  - nia.
  - unfold block_size. rewrite slice_offset_eq.
    assert (0 < block_align) by (unfold block_align; lia).
    pose proof (round_up_ge (round_up hs ia + isz * (cap + 1)) block_align ltac:(lia)). nia.
  - apply Z.mod_divide; [lia|]. apply Z.divide_add_r.
    + apply Z.mod_divide; [lia|auto].
    + apply Z.divide_mul_r. apply Z.mod_divide; [lia|auto].
Qed.

(** distinct items do not overlap *)
Theorem items_disjoint i j : 0 <= i < j -> item_off i + isz <= item_off j.
Proof. intros H. unfold item_off. nia. Qed.

(** [meta_raw]: from an item's pointer back to the header: subtract [index] items, then [slice_offset] bytes *)
Definition meta_raw (item_ptr index : Z) : Z := (item_ptr - index * isz) - slice_offset.

Theorem meta_raw_correct base i : meta_raw (base + item_off i) i = base.
Proof. unfold meta_raw, item_off. lia. Qed.

(** the allocation size is a multiple of its alignment and no smaller than header + items *)
Theorem block_size_ok cap : 0 <= cap ->
  (block_size cap) mod block_align = 0 /\ hs + isz * (cap + 1) <= block_size cap.
Proof.
  intros Hc. pose proof ia_pos. pose proof ha_pos.
  assert (0 < block_align) by (unfold block_align; lia).
  split; [apply round_up_multiple; auto|].
  unfold block_size.
  pose proof (round_up_ge (round_up hs ia + isz * (cap + 1)) block_align ltac:(lia)).
  pose proof (round_up_ge hs ia ltac:(lia)). lia.
Qed.

End L.

(** executable versions for the comparison with the implementation's probes *)
Definition log2_exact (a : Z) : Z := Z.log2 a.
Definition model_slice_offset (hs ia : Z) : Z := hs + (round_up_mask hs ia - hs).
Definition model_block (hs ha isz ia cap : Z) : Z * Z :=
  (round_up (round_up hs ia + isz * (cap + 1)) (Z.max ha ia), Z.max ha ia).

Definition layout_matches (measured : list Z) (caps : list (Z * (Z * Z))) : bool :=
  match measured with
  | [hs; ha; isz; ia; so] =>
      (2 ^ Z.log2 ha =? ha) && (2 ^ Z.log2 ia =? ia) && (hs mod ha =? 0) && (isz mod ia =? 0)
      && (model_slice_offset hs ia =? so)
      && forallb (fun c => let '(sz, al) := model_block hs ha isz ia (fst c) in
                           (sz =? fst (snd c)) && (al =? snd (snd c))) caps
  | _ => false
  end.
