(** * NonVacuity: concrete reachable states that meet the hypotheses of the group-level
    theorems (C01 multi-group, C13 cross-group), evaluated in the kernel.  These are sanity
    checks of the statements, not part of any proof. *)
From FB Require Import Base Syntax World SlotMap Fub Unbounded Step StepProofs UnboundedProofs Reach GroupWake CrossGroup.

(** small parameters: first group of capacity 1, then 2, 4, ...; budget 2 *)
Definition P0 : params := {| pB := 2; pMinCap := 1; pGrowth := 2; pW := 8 |}.
Lemma P0_ok : params_ok P0. Proof. unfold params_ok, P0; cbn; repeat split; lia. Qed.

Definition cp0 : cparams := {| p_cap := 0; p_new := true; p_iter := false; p_lazy := None; p_seed := None; p_hlo := 0; p_hhi := None |}.

(** three children that stay pending: two groups (capacities 1 and 2), both non-empty *)
Definition ops_pending : list op :=
  [OBuild TFU cp0 [] []; OPush 1%N [([], RP); ([], RP)]; OPush 2%N [([], RP); ([], RP)]; OPush 3%N [([], RP); ([], RP)]].

Definition coll_fu (k : coll) : fu := match k with CFu u | CMu u => u | _ => fu_empty end.

Example two_groups_pending :
  let s := reach P0 ops_pending in
  let u := coll_fu (st_coll s) in
  st_coll s = CFu u
  /\ map fub_len (groups u) = [1; 2]
  /\ (let '(u', sp, w') := fu_poll_next P0 false u 7 (begin_op no_inj (st_world s)) in
      sp = SPending /\ map fub_len (groups u') = [1; 2]).
Proof. vm_compute. repeat split; reflexivity. Qed.

(** the premise of C01_pending_arms_every_group is met by this state, so its conclusion holds
    there: both groups have waker 7 armed *)
Example two_groups_armed :
  let s := reach P0 ops_pending in
  let u := coll_fu (st_coll s) in
  let '(u', sp, w') := fu_poll_next P0 false u 7 (begin_op no_inj (st_world s)) in
  forall g, In g (groups u') -> K (blk g) 7 w'.
Proof.
  pose proof (@pending_arms_every_group P0 P0_ok ops_pending false (coll_fu (st_coll (reach P0 ops_pending))) 7 no_inj) as H.
  assert (Hc : st_coll (reach P0 ops_pending) = CFu (coll_fu (st_coll (reach P0 ops_pending)))) by (vm_compute; reflexivity).
  specialize (H Hc). cbv zeta.
  destruct (fu_poll_next P0 false (coll_fu (st_coll (reach P0 ops_pending))) 7
              (begin_op no_inj (st_world (reach P0 ops_pending)))) as [[u' sp] w'] eqn:E.
  assert (Hsp : sp = SPending) by (vm_compute in E; inversion E; reflexivity).
  assert (Hlen : forallb (fun g => negb (Nat.eqb (fub_len g) 0)) (groups u') = true)
    by (vm_compute in E; inversion E; reflexivity).
  intros g Hin. apply H; auto.
  rewrite forallb_forall in Hlen. specialize (Hlen g Hin). destruct (Nat.eqb_spec (fub_len g) 0); [discriminate|auto].
Qed.

(** the first group yields an item at once; the second group is at distance 1 from the cursor
    and is not polled in this call, but is at distance 0 afterwards *)
Definition ops_item : list op :=
  [OBuild TFU cp0 [] []; OPush 1%N [([], RR)]; OPush 2%N [([], RP); ([], RP)]; OPush 3%N [([], RP); ([], RP)]].

Example second_group_moves_to_the_cursor :
  let s := reach P0 ops_item in
  let u := coll_fu (st_coll s) in
  st_coll s = CFu u
  /\ exists g1 g2, rot u = [g1] ++ g2 :: []
     /\ (let '(u', sp, w') := fu_poll_next P0 false u 7 (begin_op no_inj (st_world s)) in
         (exists tk c, sp = SItem tk c) /\ hd_error (rot u') = Some g2).
Proof.
  vm_compute. split; [reflexivity|]. eexists. eexists. split; [reflexivity|].
  split; [eexists; eexists; reflexivity|reflexivity].
Qed.

(** ConcWake: the schedule of DESIGN.md Appendix E is reachable in the Level B model — a waker
    call has swapped its node in but not linked it, the poll registers, sees Empty and returns
    Pending: the child is armed, the task waker not yet invoked, and the call is in flight *)
From FB Require ConcWake.
Example level_b_pending_with_a_call_in_flight :
  exists s, ConcWake.reachable 61 s /\ ConcWake.pp s = ConcWake.PIdle ConcWake.RPending
            /\ ConcWake.woken s = false /\ ConcWake.armed s 0 = true /\ ConcWake.in_flight s.
Proof.
  eexists. split.
  - eapply ConcWake.r_step; [eapply ConcWake.r_step; [eapply ConcWake.r_step; [eapply ConcWake.r_step;
      [eapply ConcWake.r_step; [apply ConcWake.r_init|]|]|]|]|].
    + apply (ConcWake.s_spawn 61 _ 0).
    + apply (ConcWake.s_test_set_false 61 _ 0 0); reflexivity.
    + apply (ConcWake.s_swap 61 _ 0 0); reflexivity.
    + apply (ConcWake.p_start 61 _ ConcWake.RNone 7); reflexivity.
    + apply (ConcWake.p_empty 61 _ 0); [reflexivity|]. right. simpl. eauto.
  - simpl. repeat split; auto. exists 0, 0, ConcWake.WLink. split; [reflexivity|auto].
Qed.

(** OrderReach: a FuturesOrderedBounded history (word size 8 bits: at most 126 futures) whose
    every prefix is small, so the order invariant holds at its end; counters seeded at 250 so
    that the positions wrap *)
From FB Require Import Ordered OrderProofs FobOrder OrderReach.
Definition cp_fob : cparams := {| p_cap := 3; p_new := false; p_iter := false; p_lazy := None; p_seed := Some 250%Z; p_hlo := 0; p_hhi := None |}.
Definition ops_fob : list op :=
  [OBuild TFOB cp_fob [] []; OPush 1%N [([], RP); ([], RR)]; OPushF 2%N [([], RR)]; OPush 3%N [([], RR)]; OPoll 0 no_inj; OPoll 0 no_inj].

Example fob_history_is_small : forall n, small P0 (st_coll (reach P0 (firstn n ops_fob))).
Proof.
  intros n. do 7 (destruct n as [|n]; [vm_compute; reflexivity|]). vm_compute. reflexivity.
Qed.

Example fob_history_order : ord_inv P0 (st_coll (reach P0 ops_fob)).
Proof. apply (@reachable_order P0 P0_ok). exact fob_history_is_small. Qed.

(** AllocHistory: the three-push history above allocates 5 times (two groups: slot array + waker
    block each, and one growth of the Vec of groups) with a peak of 3 children *)
From FB Require Import AllocProofs AllocHistory.
Example allocations_of_a_small_history :
  list_sum (run_allocs P0 init_state ops_pending) = 5 /\ run_peak P0 init_state ops_pending = 3.
Proof. vm_compute. split; reflexivity. Qed.

(** LedgerProofs: three children pushed, one completes and is dropped by its poll, the other two
    are dropped with the collection: taken = [1;2;3], dropped = [1;3;2], nothing held *)
From FB Require Import LedgerProofs.
Definition ops_ledger : list op := ops_item ++ [OPoll 0 no_inj; ODropColl; OCleanup].
Example ledger_of_a_small_history :
  held_ids (st_coll (reach P0 ops_ledger)) = []
  /\ dropped_in P0 init_state ops_ledger = [1; 3; 2]%N
  /\ taken_in P0 init_state ops_ledger = [1; 2; 3]%N
  /\ pulled_in P0 init_state ops_ledger = [].
Proof. vm_compute. repeat split; reflexivity. Qed.

(** TokenLedger: a FuturesOrderedBounded history in which outputs 2 and 3 arrive before output 1
    and are parked; after child 1 completes, 1 and 2 have been handed out (in order) and 3 is
    still parked: parked ++ handed ++ dropped inside is a permutation of produced *)
From FB Require Import TokenLedger.
Definition ops_tokens : list op :=
  [OBuild TFOB cp_fob [] []; OPush 1%N [([ACloneSelf], RP); ([], RR)]; OPush 2%N [([], RR)]; OPush 3%N [([], RR)];
   OPoll 0 no_inj; OEnv (AWakeRef 0); OPoll 0 no_inj; OPoll 0 no_inj].
Example token_ledger_of_a_small_history :
  parked_of (st_coll (reach P0 ops_tokens)) = [TOut 3%N]
  /\ handed_in P0 init_state ops_tokens = [TOut 1%N; TOut 2%N]
  /\ dropped_inside_in P0 init_state ops_tokens = []
  /\ produced_in P0 init_state ops_tokens = [TOut 3%N; TOut 2%N; TOut 1%N]
  /\ Forall tok_op ops_tokens.
Proof. vm_compute. repeat split; try reflexivity. repeat constructor. Qed.

(** QuietGroups: three quiet children in two groups (capacities 1 and 2, so m = 2 = B): the
    second group has B entries queued, so the first poll exhausts its budget there and wakes
    its task once; the second poll (number m / B + 1) is silent — the bound of
    C14_consecutive_polls_reach_silence is tight *)
From FB Require Import QuietProofs QuietGroups.
Example quiet_two_groups_second_poll_is_silent :
  let s := reach P0 ops_pending in
  let u := coll_fu (st_coll s) in
  let w := begin_op no_inj (st_world s) in
  map (ql w) (blks (groups u)) = [1; 2]
  /\ twakes (log (snd (fu_poll_next P0 false u 7 w))) = 1
  /\ (let '(u1, w1) := polls P0 false [7] u w in
      map (ql w1) (blks (groups u1)) = [0; 0]
      /\ twakes (log (snd (fu_poll_next P0 false u1 8 w1))) = twakes (log w1)).
Proof. vm_compute. repeat split; reflexivity. Qed.

(** MergeLedger: a MergeUnbounded history with three sources, one of them pushed while the merge
    is being consumed; source 2 answers Pending after its first item and is still held with one
    item produced.  The hypotheses of C11_merge_sources_in_order hold (merge history, distinct
    ids) and the items of each source come out numbered from 0 in order *)
From FB Require Import MergeLedger.
Definition ops_merge : list op :=
  [OBuild TMU cp0 [] []; OPush 1%N [([], RI); ([], RI); ([], RE)]; OPush 2%N [([], RI); ([], RP); ([], RI); ([], RE)];
   OPoll 0 no_inj; OPoll 0 no_inj; OPush 3%N [([], RI); ([], RE)];
   OPoll 0 no_inj; OPoll 0 no_inj; OPoll 0 no_inj; OPoll 0 no_inj; OPoll 0 no_inj].
Example merge_history_in_source_order :
  Forall m_op ops_merge /\ NoDup (taken_in P0 init_state ops_merge)
  /\ handed_in P0 init_state ops_merge = [TItem 1%N 0; TItem 2%N 0; TItem 1%N 1; TItem 3%N 0]
  /\ hs_coll (st_coll (reach P0 ops_merge)) = [(2%N, 1)]
  /\ seqs 1%N (handed_in P0 init_state ops_merge) = seq 0 2.
Proof.
  split; [repeat constructor|]. split; [vm_compute; repeat constructor; simpl; intuition discriminate|].
  vm_compute. repeat split; reflexivity.
Qed.

(** UpstreamLedger: a buffered_unordered(2) history whose upstream has three items, a Pending
    in between and an end: the polls of the upstream over the whole history are the upstream's
    own sequence of answers, and the end is seen exactly once *)
From FB Require Import Adapters UpstreamLedger.
Definition cp_ad : cparams := {| p_cap := 2; p_new := false; p_iter := false; p_lazy := None; p_seed := None; p_hlo := 0; p_hhi := None |}.
Definition ups_ex : list upstep := [UItem [([], RR)]; UPend []; UItem [([], RP); ([], RR)]; UItem [([], RR)]; UEnd].
Definition ops_up : list op :=
  [OBuild TBU cp_ad [] ups_ex; OPoll 0 no_inj; OPoll 0 no_inj; OPoll 0 no_inj; OPoll 0 no_inj; OPoll 0 no_inj; OPoll 0 no_inj].
Example upstream_history_is_sequential :
  uppolls_in P0 init_state ops_up = [UAItem 1%N; UAPend; UAItem 2%N; UAItem 3%N; UAEnd]
  /\ fst (up_run false (mk_upstream ups_ex 0 None) 5) = [UAItem 1%N; UAPend; UAItem 2%N; UAItem 3%N; UAEnd].
Proof. vm_compute. split; reflexivity. Qed.

(** AllocHistory, FuturesOrdered: the front child stays pending while six later ones complete
    and are parked: the poll grows the heap twice (0 -> 4 -> 8); 9 allocator calls in all at a
    peak of 7 (in progress + parked) *)
From FB Require Import Ordered.
Definition cp_fo : cparams := {| p_cap := 0; p_new := true; p_iter := false; p_lazy := None; p_seed := None; p_hlo := 0; p_hhi := None |}.
Definition ops_fo : list op :=
  [OBuild TFO cp_fo [] []; OPush 1%N [([], RP); ([], RR)]; OPush 2%N [([], RR)]; OPush 3%N [([], RR)]; OPush 4%N [([], RR)];
   OPush 5%N [([], RR)]; OPush 6%N [([], RR)]; OPush 7%N [([], RR)]; OPoll 0 no_inj; OEnv (AWakeRef 0)].
Example allocations_of_an_ordered_history :
  list_sum (run_allocs P0 init_state ops_fo) = 9 /\ run_peak P0 init_state ops_fo = 7
  /\ match st_coll (reach P0 ops_fo) with
     | CFo q => length (oheap (fu_ord q)) = 6 /\ hcap (fu_ord q) = 8
     | _ => False
     end.
Proof. vm_compute. repeat split; reflexivity. Qed.

(** CrossGroupPush: from the two-group state of [ops_item], the second group's block (1) is at
    distance 1; a push then creates a third group and three polls follow: the hypotheses of
    C13_group_polled_within_its_distance_with_pushes hold (1 + 1 created < 3 polls) *)
From FB Require Import CrossGroupPush.
Definition ops_more : list op := [OPush 4%N [([], RP)]; OPoll 7 no_inj; OPoll 7 no_inj; OPoll 7 no_inj].
Example pushes_between_polls :
  let s := reach P0 ops_item in
  let u := coll_fu (st_coll s) in
  st_coll s = Cu false u /\ Pos 1 u 1 /\ Forall poll_env_push ops_more
  /\ ncreated P0 s ops_more = 1 /\ npolls ops_more = 3.
Proof. vm_compute. repeat split; try reflexivity. repeat constructor. Qed.

(** AddrEvents: the merge history above (distinct ids, nothing pulled) and the buffered_unordered
    history (three children pulled from the upstream in the middle of polls): the hypothesis of
    C08_log_addresses_stable / C08_monitor_accepts_the_model holds, the logs do contain address
    events, and the monitor accepts the model's traces *)
From FB Require Import AddrEvents AddrEventsHist Monitors AddrMonitor.
Example address_events_of_a_history :
  NoDup (taken_in P0 init_state ops_merge ++ pulled_in P0 init_state ops_merge)
  /\ aevs_in P0 init_state ops_merge <> []
  /\ chk_C08 (trace_of P0 ops_merge) = true
  /\ NoDup (taken_in P0 init_state ops_up ++ pulled_in P0 init_state ops_up)
  /\ pulled_in P0 init_state ops_up = [1%N; 3%N; 2%N]
  /\ aevs_in P0 init_state ops_up <> []
  /\ chk_C08 (trace_of P0 ops_up) = true.
Proof.
  split; [vm_compute; repeat constructor; simpl; intuition discriminate|].
  split; [vm_compute; discriminate|]. split; [vm_compute; reflexivity|].
  split; [vm_compute; repeat constructor; simpl; intuition discriminate|].
  split; [vm_compute; reflexivity|]. split; [vm_compute; discriminate|vm_compute; reflexivity].
Qed.

(** BackpressureLog: in the buffered_unordered(2) history [ops_up] the third item is pulled at
    a moment when two items were pulled and one was yielded: the hypothesis of
    C16_pulls_only_below_the_limit is met with a non-trivial prefix *)
From FB Require Import BackpressureLog.
Example a_pull_with_a_backlog :
  let h := hist_of P0 ops_up in
  h = firstn 9 h ++ EUpPoll (UAItem 3%N) :: skipn 10 h /\ npull (firstn 9 h) = 2 /\ nyield (firstn 9 h) = 1 /\ nprodc (firstn 9 h) = 1.
Proof. vm_compute. repeat split; reflexivity. Qed.

(** BackpressureFec: for_each_concurrent(2) over the same upstream: the third item is pulled
    with two pulled and one finished *)
From FB Require Import BackpressureFec.
Definition ops_fec : list op :=
  [OBuild TFEC cp_ad [] ups_ex; OPoll 0 no_inj; OPoll 0 no_inj; OPoll 0 no_inj; OPoll 0 no_inj].
Example a_for_each_pull_with_one_running :
  let h := hist_of P0 ops_fec in
  h = firstn 10 h ++ EUpPoll (UAItem 3%N) :: skipn 11 h /\ npull (firstn 10 h) = 2 /\ nprodc (firstn 10 h) = 1.
Proof. vm_compute. repeat split; reflexivity. Qed.

(** adapter_accounting in the middle of that history: three pulled = two yielded + one running *)
Example accounting_mid_history :
  let o := firstn 4 ops_up in
  match st_coll (run_state P0 init_state o) with
  | CAd a => npull (hist_of P0 o) = 3 /\ nyield (hist_of P0 o) = 2 /\ q_len (ad_q a) = 1
  | _ => False
  end.
Proof. vm_compute. repeat split; reflexivity. Qed.
