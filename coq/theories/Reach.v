(** * Reach: the invariants hold in every reachable state of every history *)
From FB Require Import Base Syntax World SlotMap Fub Unbounded Ordered Adapters Step Tactics
  SlotMapProofs WorldProofs FubProofs UnboundedProofs OrderedProofs AdaptersProofs StepProofs CountProofs.
Set Implicit Arguments.

Section WithParams.
Variable P : params.
Hypothesis HP : params_ok P.

Definition reach (ops : list op) : state := run_state P init_state ops.

Lemma cntinv_empty : cntinv 0 empty_world.
Proof. unfold cntinv, credit; simpl; lia. Qed.

Theorem reachable_counts ops : cntinv 0 (st_world (reach ops)).
Proof.
  unfold reach.
  assert (H : forall s, cntinv 0 (st_world s) -> cntinv 0 (st_world (run_state P s ops))).
  { induction ops as [|o ops IH]; simpl; intros s Hs; auto. apply IH. apply cntinv_step; auto. }
  apply H. apply cntinv_empty.
Qed.

Theorem reachable_Inv ops : Inv (reach ops).
Proof. apply reachable_inv; auto. Qed.

(** C12, summed form: child polls <= accepted pushes + child-waker invocations + merge items *)
Theorem polls_bounded_by_notifications ops :
  let g := wghost (st_world (reach ops)) in
  gpolls g <= gpush g + gwake g + gitems g.
Proof. destruct (reachable_counts ops) as [A B]. unfold credit in B. simpl. lia. Qed.

(** C03: the reference count of every block is exact, and a block is released iff its count is 0 *)
Theorem refcount_exact ops b k :
  let s := reach ops in
  get_blk (st_world s) b = Some k ->
  bstrong k = cnt (coll_blks (st_coll s)) b + hcount (handles (st_world s)) b
  /\ (bfreed k = true <-> bstrong k = 0).
Proof.
  intros s Hk. destruct (reachable_Inv ops) as [Hw _]. fold s in Hw. split.
  - apply (wi_rc Hw _ Hk).
  - apply (bw_freed (wi_blk Hw _ Hk)).
Qed.

(** C03: a live handle never points to a released block *)
Theorem handle_target_alive ops h b sl :
  let s := reach ops in
  nth_error (handles (st_world s)) h = Some (Some (HChild b sl)) ->
  exists k, get_blk (st_world s) b = Some k /\ bfreed k = false.
Proof.
  intros s Hh. destruct (reachable_Inv ops) as [Hw _]. fold s in Hw.
  apply (own_pos_get b Hw). pose proof (hcount_pos _ _ Hh). lia.
Qed.

(** C03: once the collection is gone and every handle was dropped, every block is released *)
Theorem no_leak ops :
  let s := reach ops in
  coll_blks (st_coll s) = [] ->
  (forall h x, nth_error (handles (st_world s)) h = Some (Some x) -> exists t, x = HTask t) ->
  forall b k, get_blk (st_world s) b = Some k -> bfreed k = true.
Proof.
  intros s Hc Hh b k Hk. destruct (refcount_exact ops b Hk) as [Hr Hf]. fold s in Hr.
  apply Hf. rewrite Hr, Hc. unfold cnt; simpl.
  apply hcount_zero_all. intros h b' sl Hn ->. destruct (Hh _ _ Hn) as [t Ht]. discriminate.
Qed.

(** C01 / C12: a slot is in the ready queue exactly when its flag is set; no duplicates *)
Theorem flag_iff_queued ops b k i :
  get_blk (st_world (reach ops)) b = Some k ->
  NoDup (bqueue k) /\ (nth_error (bflags k) i = Some true <-> In i (bqueue k)).
Proof.
  intros Hk. destruct (reachable_Inv ops) as [Hw _].
  destruct (wi_blk Hw _ Hk) as [A1 A2 A3 A4 A5 A6 A7]. split; auto.
  rewrite A3. split; [intros [|]; [auto|discriminate] | auto].
Qed.

(** C01: the registered task waker is the one of the most recent registration, and when none
    is registered any more the most recent one has been invoked since it registered *)
Theorem registration_is_latest ops b k :
  get_blk (st_world (reach ops)) b = Some k ->
  (breg k = None \/ breg k = blast k) /\ (breg k = None -> blast k = None \/ btw k = true).
Proof.
  intros Hk. destruct (reachable_Inv ops) as [Hw _].
  destruct (wi_blk Hw _ Hk) as [A1 A2 A3 A4 A5 A6 A7]. auto.
Qed.

(** C09 / C16: the buffered adapters never hold more than [n] pulled-but-unyielded items, and
    never more than [n] running futures *)
Theorem adapter_limit ops a :
  st_coll (reach ops) = CAd a ->
  q_running (ad_q a) <= q_len (ad_q a) /\ q_len (ad_q a) <= q_cap (ad_q a).
Proof.
  intros Hc. destruct (reachable_Inv ops) as [_ Hok]. rewrite Hc in Hok. destruct Hok as (_ & Hle & _).
  split; auto. apply q_running_le_len.
Qed.

Theorem fec_limit ops a :
  st_coll (reach ops) = CFec a -> fub_len (fe_q a) <= fub_cap (fe_q a).
Proof.
  intros Hc. destruct (reachable_Inv ops) as [_ Hok]. rewrite Hc in Hok. destruct Hok as [Hwf _]. apply sm_filled_le; auto.
Qed.

(** C10: the adapters are fused: while an upstream is still held it has not ended (it is
    dropped in the call in which it answers None), so it is never polled after its end *)
Theorem upstream_fused ops :
  match st_coll (reach ops) with
  | CAd a => up_live (ad_up a)
  | CFec a => up_live (fe_up a)
  | _ => True
  end.
Proof.
  destruct (reachable_Inv ops) as [_ Hok]. destruct (st_coll (reach ops)); auto; simpl in Hok; tauto.
Qed.

(** C15: a bounded collection never holds more than its capacity; [len] is the number of held futures *)
Theorem fub_capacity ops f :
  st_coll (reach ops) = CFub f ->
  fub_len f <= fub_cap f /\ fub_len f = length (sm_children (tasks f)).
Proof.
  intros Hc. destruct (reachable_Inv ops) as [_ Hok]. rewrite Hc in Hok. simpl in Hok.
  split; [apply sm_filled_le | apply sm_filled_children]; auto.
Qed.

(** C15: [FuturesUnordered::len] (the [rem] counter) equals the number of held futures *)
Theorem fu_len_exact ops u :
  st_coll (reach ops) = CFu u -> rem u = total (groups u).
Proof.
  intros Hc. destruct (reachable_Inv ops) as [_ Hok]. rewrite Hc in Hok. apply (fo_rem Hok eq_refl).
Qed.

End WithParams.
