(** * UnboundedProofs: [FuturesUnordered] / [MergeUnbounded] — the list of groups and the
      round-robin loop preserve the invariants; the loop reports [None] exactly when nothing
      is left and [Pending] only while something is held *)
From FB Require Import Base Syntax World SlotMap Fub Unbounded Tactics SlotMapProofs WorldProofs FubProofs.
Set Implicit Arguments.

Definition cnt (l : list nat) : nat -> nat := fun b => count_occ Nat.eq_dec l b.

Definition blks (gs : list fub) : list nat := map blk gs.

Fixpoint total (gs : list fub) : nat :=
  match gs with [] => 0 | g :: t => fub_len g + total t end.

Lemma cnt_cons b l x : cnt (b :: l) x = add1 b (cnt l) x.
Proof.
  unfold cnt, add1; simpl. destruct (Nat.eq_dec b x) as [->|Hne].
  - rewrite Nat.eqb_refl; reflexivity.
  - destruct (Nat.eqb_spec x b); [congruence|reflexivity].
Qed.

Lemma cnt_app l1 l2 x : cnt (l1 ++ l2) x = cnt l1 x + cnt l2 x.
Proof. unfold cnt. apply count_occ_app. Qed.

Lemma cnt_pos_in l x : In x l -> 0 < cnt l x.
Proof. unfold cnt. apply count_occ_In. Qed.

Lemma total_app a b : total (a ++ b) = total a + total b.
Proof. induction a; simpl; auto. rewrite IHa; lia. Qed.

Lemma nth_split_fub (l : list fub) i g :
  nth_error l i = Some g -> exists l1 l2, l = l1 ++ g :: l2 /\ length l1 = i.
Proof. apply nth_error_split. Qed.

Lemma upd_split {A} (l1 l2 : list A) g g' : upd (l1 ++ g :: l2) (length l1) g' = l1 ++ g' :: l2.
Proof. induction l1; simpl; auto. rewrite IHl1; reflexivity. Qed.

Lemma remove_nth_split {A} (l1 l2 : list A) g : remove_nth (l1 ++ g :: l2) (length l1) = l1 ++ l2.
Proof. induction l1; simpl; auto. rewrite IHl1; reflexivity. Qed.

Record fu_ok (mrg : bool) (u : fu) : Prop := {
  fo_wf : Forall (fun g => sm_wf (tasks g)) (groups u);
  fo_rem : mrg = false -> rem u = total (groups u);
  fo_cap : Forall (fun g => 1 <= fub_cap g) (groups u);
}.

Definition params_ok (P : params) : Prop := 1 <= pB P /\ 1 <= pMinCap P /\ 2 <= pGrowth P /\ 2 <= pW P.

Lemma fub_ok_of_group gs g : In g gs -> Forall (fun g => sm_wf (tasks g)) gs -> fub_ok (cnt (blks gs)) g.
Proof.
  intros Hin Hall. split.
  - rewrite Forall_forall in Hall; auto.
  - apply cnt_pos_in. unfold blks. apply in_map; auto.
Qed.

Lemma total_zero_all gs : total gs = 0 <-> forallb (fun g => Nat.eqb (fub_len g) 0) gs = true.
Proof.
  induction gs as [|g t IH]; simpl; [tauto|].
  rewrite andb_true_iff, <- IH, Nat.eqb_eq. lia.
Qed.

Section WithParams.
Variable P : params.
Hypothesis HP : params_ok P.

Lemma poll_group_spec own mrg g t w :
  winv own None w -> fub_ok own g ->
  let '(g', sp, w') := poll_group P mrg g t w in
  winv own None w' /\ fub_ok own g' /\ blk g' = blk g /\ sm_cap (tasks g') = sm_cap (tasks g)
  /\ fub_len g' <= fub_len g
  /\ match sp with
     | SItem _ _ => mrg = false -> fub_len g' = pred (fub_len g) /\ 0 < fub_len g
     | SNone => fub_len g' = 0 /\ (mrg = false -> fub_len g = 0)
     | SPending => fub_len g' <> 0 /\ (mrg = false -> fub_len g' = fub_len g)
     end.
Proof.
  intros Hw Hok. unfold poll_group. destruct mrg.
  - pose proof (@mb_poll_next_spec P own g t w Hw Hok) as H.
    destruct (mb_poll_next P g t w) as [[g' sp] w']. destruct H as (A & B & C & D & E & F).
    splits; auto. destruct sp; splits; auto; intros; discriminate.
  - pose proof (@fub_poll_next_spec P own KFut g t w Hw Hok) as H.
    destruct (fub_poll_next P KFut g t w) as [[g' sp] w']. destruct H as (A & B & C & D & F).
    unfold fub_len in *. destruct sp.
    + splits; auto; try lia.
    + destruct F as (F1 & -> & _). splits; auto.
    + splits; auto; try lia.
Qed.

Definition loop_post_n (mrg : bool) (tu tu' : nat) (sp : spoll) : Prop :=
  tu' <= tu
  /\ match sp with
     | SItem _ _ => mrg = false -> tu' = pred tu /\ 0 < tu
     | SNone => tu' = 0
     | SPending => tu' <> 0
     end
  /\ (mrg = false -> match sp with SItem _ _ => True | _ => tu' = tu end).

Definition loop_post (mrg : bool) (u u' : fu) (sp : spoll) : Prop :=
  loop_post_n mrg (total (groups u)) (total (groups u')) sp.

Lemma lpn_trans mrg tu tm t' sp :
  loop_post_n mrg tm t' sp -> tm <= tu -> (mrg = false -> tm = tu) -> loop_post_n mrg tu t' sp.
Proof.
  intros (A & B & C) Hle Heq. unfold loop_post_n. splits.
  - lia.
  - destruct sp; auto. intros Hm. specialize (B Hm). specialize (Heq Hm). lia.
  - intros Hm. specialize (C Hm). specialize (Heq Hm). destruct sp; auto; lia.
Qed.

(** the round-robin loop *)
Lemma fu_loop_spec mrg n u t w :
  winv (cnt (blks (groups u))) None w -> fu_ok mrg u -> groups u <> [] ->
  let '(u', sp, w') := fu_loop P mrg n u t w in
  winv (cnt (blks (groups u'))) None w' /\ fu_ok mrg u' /\ groups u' <> [] /\ loop_post mrg u u' sp.
Proof.
  revert u w. induction n as [|n IH]; intros u w Hw Hok Hne.
  - (* end of the loop *)
    simpl. pose proof Hok as [O1 O2 O3].
    assert (Hz : (if mrg then forallb (fun g => Nat.eqb (fub_len g) 0) (groups u) else Nat.eqb (rem u) 0) = true
                 <-> total (groups u) = 0).
    { destruct mrg.
      - symmetry; apply total_zero_all.
      - rewrite Nat.eqb_eq, O2 by reflexivity. tauto. }
    destruct (if mrg then forallb (fun g => Nat.eqb (fub_len g) 0) (groups u) else Nat.eqb (rem u) 0) eqn:E.
    + splits; auto. unfold loop_post, loop_post_n. splits; auto. apply Hz; reflexivity.
    + splits; auto. unfold loop_post, loop_post_n. splits; auto. intros Hc. apply Hz in Hc. discriminate.
  - cbn [fu_loop].
    set (cur := if Nat.leb (length (groups u)) (cursor u) then 0 else cursor u).
    assert (Hcur : cur < length (groups u)).
    { unfold cur. destruct (Nat.leb_spec (length (groups u)) (cursor u)); auto.
      destruct (groups u); simpl; [congruence|lia]. }
    destruct (nth_error (groups u) cur) as [g|] eqn:Hg; [|apply nth_error_None in Hg; lia].
    destruct (nth_split_fub _ _ Hg) as (l1 & l2 & Hsplit & Hl1).
    pose proof Hok as [O1 O2 O3].
    assert (Hgok : fub_ok (cnt (blks (groups u))) g).
    { apply fub_ok_of_group; auto. eapply nth_error_In; eauto. }
    pose proof (@poll_group_spec (cnt (blks (groups u))) mrg g t w Hw Hgok) as H.
    destruct (poll_group P mrg g t w) as [[g' sp] w1]. destruct H as (A & B & C & D & E & F).
    assert (Hwf' : sm_wf (tasks g')) by apply B.
    assert (Hcap' : 1 <= fub_cap g').
    { unfold fub_cap. rewrite D. rewrite Hsplit in O3. apply Forall_app in O3 as [_ O3].
      inversion O3; subst; auto. }
    assert (Hblks_upd : blks (upd (groups u) cur g') = blks (groups u)).
    { rewrite Hsplit, <- Hl1, upd_split. unfold blks. rewrite !map_app. simpl. rewrite C. reflexivity. }
    assert (Htot_upd : total (upd (groups u) cur g') + fub_len g = total (groups u) + fub_len g').
    { rewrite Hsplit, <- Hl1, upd_split, !total_app. simpl. lia. }
    assert (Hall1 : Forall (fun g => sm_wf (tasks g)) l1 /\ Forall (fun g => sm_wf (tasks g)) l2).
    { rewrite Hsplit in O1. apply Forall_app in O1 as [O1a O1b]. inversion O1b; subst; auto. }
    assert (Hall3 : Forall (fun g => 1 <= fub_cap g) l1 /\ Forall (fun g => 1 <= fub_cap g) l2).
    { rewrite Hsplit in O3. apply Forall_app in O3 as [O3a O3b]. inversion O3b; subst; auto. }
    destruct Hall1 as [W1 W2]. destruct Hall3 as [K1 K2].
    assert (Hupd_eq : upd (groups u) cur g' = l1 ++ g' :: l2).
    { rewrite Hsplit, <- Hl1. apply upd_split. }
    assert (Hrm_eq : remove_nth (groups u) cur = l1 ++ l2).
    { rewrite Hsplit, <- Hl1. apply remove_nth_split. }
    assert (Htot : total (groups u) = total l1 + (fub_len g + total l2)).
    { rewrite Hsplit, total_app. reflexivity. }
    destruct sp as [| |tk c].
    + (* Pending: next group *)
      destruct F as [F1 F2].
      assert (Hok1 : fu_ok mrg (set_groups u (upd (groups u) cur g') (S cur))).
      { constructor; simpl; rewrite Hupd_eq.
        - apply Forall_app; split; auto.
        - intros Hm. rewrite O2 by auto. specialize (F2 Hm). rewrite Htot, total_app. simpl. lia.
        - apply Forall_app; split; auto. }
      specialize (IH (set_groups u (upd (groups u) cur g') (S cur)) w1).
      simpl in IH. rewrite Hblks_upd in IH. specialize (IH A Hok1).
      destruct (fu_loop P mrg n (set_groups u (upd (groups u) cur g') (S cur)) t w1) as [[u' sp'] w'].
      destruct IH as (I1 & I2 & I3 & I4).
      { rewrite Hupd_eq. destruct l1; discriminate. }
      unfold loop_post in *. simpl in I4. rewrite Hupd_eq, total_app in I4. simpl in I4.
      splits; auto. eapply lpn_trans; [exact I4| |]; [lia|].
      intros Hm. specialize (F2 Hm). lia.
    + (* this group is finished *)
      destruct F as [F1 F2]. rewrite Hrm_eq.
      destruct (l1 ++ l2) as [|g0 gs0] eqn:Hgs.
      * (* it was the only one: keep it *)
        apply app_eq_nil in Hgs as [-> ->]. simpl in *.
        splits.
        -- eapply winv_own_ext; [|exact A]. intros b. rewrite Hsplit. unfold blks; simpl. rewrite C. reflexivity.
        -- constructor; simpl; auto. intros Hm. rewrite O2 by auto. rewrite Hsplit. simpl. specialize (F2 Hm). lia.
        -- discriminate.
        -- unfold loop_post, loop_post_n. simpl. splits; try lia. intros Hm. specialize (F2 Hm). lia.
      * rewrite <- Hgs.
        destruct (Nat.eqb_spec cur (length (l1 ++ l2))) as [Hlast|Hnl].
        -- (* it was the last one: keep the largest allocation, go on from the front *)
           assert (l2 = []).
           { rewrite app_length in Hlast. destruct l2; auto. simpl in Hlast. lia. }
           subst l2. rewrite app_nil_r in *. cbn [total] in Htot.
           assert (Hok1 : fu_ok mrg (set_groups u (l1 ++ [g']) 0)).
           { constructor; simpl.
             - apply Forall_app; split; auto.
             - intros Hm. rewrite O2 by auto. specialize (F2 Hm). rewrite Htot, total_app. simpl. lia.
             - apply Forall_app; split; auto. }
           specialize (IH (set_groups u (l1 ++ [g']) 0) w1). simpl in IH.
           rewrite <- Hupd_eq, Hblks_upd in IH. specialize (IH A).
           rewrite Hupd_eq in IH. specialize (IH Hok1).
           destruct (fu_loop P mrg n (set_groups u (l1 ++ [g']) 0) t w1) as [[u' sp'] w'].
           destruct IH as (I1 & I2 & I3 & I4).
           { destruct l1; discriminate. }
           unfold loop_post in *. simpl in I4. rewrite total_app in I4. simpl in I4.
           splits; auto. eapply lpn_trans; [exact I4| |]; [lia|].
           intros Hm. specialize (F2 Hm). lia.
        -- (* a group in the middle: discard it *)
           assert (Hw2 : winv (cnt (blks (l1 ++ l2))) None (fub_drop g' w1)).
           { apply winv_fub_drop. eapply winv_own_ext; [|exact A].
             intros b. rewrite Hsplit. unfold blks. rewrite !map_app. simpl.
             unfold add1. rewrite !cnt_app, cnt_cons. unfold add1. rewrite C.
             destruct (Nat.eqb b (blk g)); simpl; lia. }
           assert (Hok1 : fu_ok mrg (set_groups u (l1 ++ l2) cur)).
           { constructor; simpl.
             - apply Forall_app; split; auto.
             - intros Hm. rewrite O2 by auto. specialize (F2 Hm). rewrite Htot, total_app. lia.
             - apply Forall_app; split; auto. }
           specialize (IH (set_groups u (l1 ++ l2) cur) (fub_drop g' w1)). simpl in IH.
           specialize (IH Hw2 Hok1).
           destruct (fu_loop P mrg n (set_groups u (l1 ++ l2) cur) t (fub_drop g' w1)) as [[u' sp'] w'].
           destruct IH as (I1 & I2 & I3 & I4).
           { rewrite Hgs; discriminate. }
           unfold loop_post in *. simpl in I4. rewrite total_app in I4.
           splits; auto. eapply lpn_trans; [exact I4| |]; [lia|].
           intros Hm. specialize (F2 Hm). lia.
    + (* an item *)
      splits; simpl.
      * rewrite Hblks_upd. exact A.
      * constructor; simpl; rewrite Hupd_eq.
        -- apply Forall_app; split; auto.
        -- intros Hm. subst mrg. rewrite O2 by auto. destruct (F eq_refl) as [F1 F2].
           rewrite Htot, total_app. simpl. lia.
        -- apply Forall_app; split; auto.
      * rewrite Hupd_eq. destruct l1; discriminate.
      * unfold loop_post, loop_post_n. simpl. rewrite Hupd_eq, total_app. simpl. splits; auto; [lia|].
        intros Hm. destruct (F Hm) as [F1 F2]. lia.
Qed.

Lemma fu_poll_next_spec mrg u t w :
  winv (cnt (blks (groups u))) None w -> fu_ok mrg u ->
  let '(u', sp, w') := fu_poll_next P mrg u t w in
  winv (cnt (blks (groups u'))) None w' /\ fu_ok mrg u' /\ loop_post mrg u u' sp.
Proof.
  intros Hw Hok. unfold fu_poll_next.
  destruct (groups u) as [|g0 gs0] eqn:Hg.
  - splits; auto; [rewrite Hg; auto|]. unfold loop_post, loop_post_n. rewrite Hg; simpl; auto.
  - rewrite <- Hg in *.
    pose proof (@fu_loop_spec mrg (length (groups u)) u t w Hw Hok) as H.
    destruct (fu_loop P mrg (length (groups u)) u t w) as [[u' sp] w'].
    destruct H as (A & B & C & D); [rewrite Hg; discriminate|]. splits; auto.
Qed.

(** construction and push *)
Lemma fu_empty_ok mrg : fu_ok mrg fu_empty.
Proof. constructor; simpl; auto. Qed.

Lemma fu_with_capacity_spec mrg n w :
  winv (cnt []) None w ->
  let '(u, w') := fu_with_capacity n w in
  winv (cnt (blks (groups u))) None w' /\ fu_ok mrg u /\ total (groups u) = 0.
Proof.
  intros Hw. unfold fu_with_capacity. destruct (Nat.eqb_spec n 0) as [Hz|Hnz].
  - splits; auto. apply fu_empty_ok.
  - pose proof (@fub_new_spec (cnt []) n w Hw) as H.
    destruct (fub_new n w) as [g w']. destruct H as (A & B & C & D & E).
    simpl. splits.
    + apply winv_count_alloc. eapply winv_own_ext; [|exact A]. intros b. symmetry. apply cnt_cons.
    + constructor; simpl; auto. intros; lia. constructor; auto. unfold fub_cap. lia.
    + lia.
Qed.

Lemma push_group_eq u g w :
  exists c a, push_group u g w =
    ({| groups := groups u ++ [g]; rem := rem u; cursor := cursor u; gcap := c |}, count_alloc a w).
Proof. unfold push_group. destruct (vec_grow (length (groups u)) (gcap u)) as [c a]. eauto. Qed.

Lemma cnt_snoc l b x : cnt (l ++ [b]) x = add1 b (cnt l) x.
Proof.
  rewrite cnt_app. unfold add1, cnt at 2. simpl.
  destruct (Nat.eq_dec b x) as [->|Hne].
  - rewrite Nat.eqb_refl. lia.
  - destruct (Nat.eqb_spec x b); [congruence|lia].
Qed.

Lemma last_split {A} (l : list A) x : last_opt l = Some x -> exists l1, l = l1 ++ [x].
Proof.
  destruct l as [|a l] using rev_ind; [discriminate|].
  rewrite last_opt_app. intros E; inversion E; subst. eauto.
Qed.

Lemma fu_push_spec mrg u c w :
  winv (cnt (blks (groups u))) None w -> fu_ok mrg u ->
  let '(u', w') := fu_push P mrg u c w in
  winv (cnt (blks (groups u'))) None w' /\ fu_ok mrg u' /\ total (groups u') = S (total (groups u))
  /\ groups u' <> [].
Proof.
  intros Hw Hok. pose proof Hok as [O1 O2 O3]. destruct HP as (HB & HM & HG & HW).
  unfold fu_push. cbn [groups rem cursor gcap].
  destruct (groups u) as [|g0 gs0] eqn:Hg.
  - (* no group yet *)
    pose proof (@fub_new_spec (cnt []) (pMinCap P) w Hw) as H.
    destruct (fub_new (pMinCap P) w) as [g w1]. destruct H as (A & B & C & D & E).
    destruct (push_group_eq {| groups := []; rem := if mrg then rem u else S (rem u); cursor := cursor u; gcap := gcap u |} g w1)
      as (c' & a & ->). cbn [groups rem cursor gcap app]. cbn [last_opt rev app].
    assert (Hw2 : winv (cnt [blk g]) None (count_alloc a w1)).
    { apply winv_count_alloc. eapply winv_own_ext; [|exact A]. intros b. symmetry. apply cnt_cons. }
    assert (Hgok : fub_ok (cnt [blk g]) g).
    { split; auto. apply cnt_pos_in. left; reflexivity. }
    pose proof (@fub_try_push_spec (cnt [blk g]) None g c (count_alloc a w1) Hw2 Hgok) as H.
    destruct (fub_try_push g c (count_alloc a w1)) as [[g'| |] w3].
    + destruct H as (H1 & H2 & H3 & H4 & H5 & H6). cbn [groups length pred upd].
      splits.
      * unfold blks; simpl. rewrite H3. exact H1.
      * constructor; cbn [groups rem].
        -- constructor; [apply H2|constructor].
        -- intros Hm; subst mrg. simpl. rewrite O2 by auto. simpl. lia.
        -- constructor; [|constructor]. unfold fub_cap. rewrite H4, D. lia.
      * simpl. lia.
      * discriminate.
    + destruct H as [_ H]. unfold fub_cap in H. rewrite D in H. lia.
    + contradiction.
  - (* push into the last group *)
    remember (g0 :: gs0) as gsu eqn:Hgsu in *.
    assert (Hne : gsu <> []) by (subst; discriminate).
    replace (match gsu with [] => let '(g, w0) := fub_new (pMinCap P) w in
                 push_group {| groups := gsu; rem := if mrg then rem u else S (rem u); cursor := cursor u; gcap := gcap u |} g w0
               | _ :: _ => ({| groups := gsu; rem := if mrg then rem u else S (rem u); cursor := cursor u; gcap := gcap u |}, w) end)
      with ({| groups := gsu; rem := if mrg then rem u else S (rem u); cursor := cursor u; gcap := gcap u |}, w)
      by (subst; reflexivity).
    cbn [groups rem cursor gcap].
    clear Hgsu g0 gs0 Hg.
    destruct (last_opt gsu) as [lastg|] eqn:Hl.
    2:{ exfalso. rewrite last_opt_nth in Hl. apply nth_error_None in Hl.
        destruct gsu; simpl in *; try congruence; lia. }
    destruct (last_split _ Hl) as [l1 Hsplit].
    assert (Hlen : pred (length gsu) = length l1).
    { rewrite Hsplit, app_length. simpl. lia. }
    assert (Hupd : forall g', upd gsu (pred (length gsu)) g' = l1 ++ [g']).
    { intros g'. rewrite Hlen, Hsplit. apply upd_split. }
    assert (Hlok : fub_ok (cnt (blks gsu)) lastg).
    { apply fub_ok_of_group; auto. rewrite Hsplit. apply in_or_app; right; left; reflexivity. }
    assert (W1 : Forall (fun g => sm_wf (tasks g)) l1 /\ sm_wf (tasks lastg)).
    { rewrite Hsplit in O1. apply Forall_app in O1 as [? X]. inversion X; auto. }
    assert (K1 : Forall (fun g => 1 <= fub_cap g) l1 /\ 1 <= fub_cap lastg).
    { rewrite Hsplit in O3. apply Forall_app in O3 as [? X]. inversion X; auto. }
    assert (Htot : total gsu = total l1 + fub_len lastg).
    { rewrite Hsplit, total_app. simpl. lia. }
    pose proof (@fub_try_push_spec _ None lastg c w Hw Hlok) as H.
    destruct (fub_try_push lastg c w) as [[g'| |] w1].
    + destruct H as (H1 & H2 & H3 & H4 & H5 & H6). cbn [groups rem cursor gcap].
      rewrite Hupd. splits.
      * eapply winv_own_ext; [|exact H1]. intros b. rewrite Hsplit. unfold blks.
        rewrite !map_app. simpl. rewrite H3. reflexivity.
      * constructor; cbn [groups rem].
        -- apply Forall_app; split; [apply W1|]. constructor; [apply H2|constructor].
        -- intros Hm; subst mrg. rewrite O2 by auto. rewrite Htot, total_app. simpl. lia.
        -- apply Forall_app; split; [apply K1|]. constructor; [|constructor].
           unfold fub_cap in *. rewrite H4. apply K1.
      * rewrite total_app. simpl. lia.
      * destruct l1; discriminate.
    + (* the last group is full: a new one, [growth] times as large *)
      destruct H as [-> Hfull].
      pose proof (@fub_new_spec _ (fub_cap lastg * pGrowth P) w Hw) as H.
      destruct (fub_new (fub_cap lastg * pGrowth P) w) as [g w1]. destruct H as (A & B & C & D & E).
      assert (Hgok : fub_ok (add1 (blk g) (cnt (blks gsu))) g).
      { split; auto. rewrite add1_same. lia. }
      pose proof (@fub_try_push_spec _ None g c w1 A Hgok) as H.
      assert (Hcapg : 1 <= fub_cap g).
      { unfold fub_cap at 1. rewrite D. destruct K1 as [_ K1]. nia. }
      destruct (fub_try_push g c w1) as [[g'| |] w2].
      * destruct H as (H1 & H2 & H3 & H4 & H5 & H6).
        destruct (push_group_eq {| groups := gsu; rem := if mrg then rem u else S (rem u); cursor := cursor u; gcap := gcap u |} g' w2)
          as (c' & a & ->). cbn [groups rem cursor gcap].
        splits.
        -- apply winv_count_alloc. eapply winv_own_ext; [|exact H1]. intros b.
           unfold blks. rewrite map_app. simpl. rewrite cnt_snoc, H3. reflexivity.
        -- constructor; cbn [groups rem].
           ++ apply Forall_app; split; auto. constructor; [apply H2|constructor].
           ++ intros Hm; subst mrg. rewrite O2 by auto. rewrite total_app. simpl. lia.
           ++ apply Forall_app; split; auto. constructor; [|constructor].
              unfold fub_cap in *. rewrite H4. exact Hcapg.
        -- rewrite total_app. simpl. lia.
        -- destruct gsu; discriminate.
      * destruct H as [_ H]. lia.
      * contradiction.
    + contradiction.
Qed.

Lemma fu_push_fold_spec mrg l u w :
  winv (cnt (blks (groups u))) None w -> fu_ok mrg u ->
  let '(u', w') := fold_left (fun uw c => fu_push P mrg (fst uw) c (snd uw)) l (u, w) in
  winv (cnt (blks (groups u'))) None w' /\ fu_ok mrg u' /\ total (groups u') = total (groups u) + length l.
Proof.
  revert u w. induction l as [|c l IH]; intros u w Hw Hok; simpl.
  - splits; auto.
  - pose proof (@fu_push_spec mrg u c w Hw Hok) as H.
    destruct (fu_push P mrg u c w) as [u1 w1]. destruct H as (A & B & C & D).
    specialize (IH u1 w1 A B). simpl.
    destruct (fold_left (fun uw c => fu_push P mrg (fst uw) c (snd uw)) l (u1, w1)) as [u' w'].
    destruct IH as (I1 & I2 & I3). splits; auto. lia.
Qed.

Lemma fu_from_list_spec mrg h l w :
  winv (cnt []) None w ->
  let '(u, w') := fu_from_list P mrg h l w in
  winv (cnt (blks (groups u))) None w' /\ fu_ok mrg u /\ total (groups u) = length l.
Proof.
  intros Hw. unfold fu_from_list.
  assert (H0 : let '(u0, w0) := (if mrg then (fu_empty, w) else fu_with_capacity (Nat.max h (pMinCap P)) w) in
               winv (cnt (blks (groups u0))) None w0 /\ fu_ok mrg u0 /\ total (groups u0) = 0).
  { destruct mrg.
    - splits; auto. apply fu_empty_ok.
    - apply fu_with_capacity_spec; auto. }
  destruct (if mrg then (fu_empty, w) else fu_with_capacity (Nat.max h (pMinCap P)) w) as [u0 w0].
  destruct H0 as (A & B & C).
  pose proof (@fu_push_fold_spec mrg l u0 w0 A B) as H.
  destruct (fold_left (fun uw c => fu_push P mrg (fst uw) c (snd uw)) l (u0, w0)) as [u' w'].
  destruct H as (I1 & I2 & I3). splits; auto. lia.
Qed.

End WithParams.

Lemma winv_fu_drop_groups gs cur w :
  winv (cnt (blks gs)) cur w -> winv (cnt []) cur (fold_left (fun w g => fub_drop g w) gs w).
Proof.
  revert w. induction gs as [|g gs IH]; simpl; intros w Hw; auto.
  apply IH. apply winv_fub_drop. eapply winv_own_ext; [|exact Hw]. intros b. apply cnt_cons.
Qed.

Lemma winv_fu_drop u cur w : winv (cnt (blks (groups u))) cur w -> winv (cnt []) cur (fu_drop u w).
Proof. apply winv_fu_drop_groups. Qed.
