(** * OrderProofs: the ordered queues are a double-ended queue (C04)

    [run]: the position indices of the running futures; the parked outputs carry theirs in the
    heap.  [off o i] = (i - nout) mod 2^w is the logical position of index [i].
    Invariant [oinv run o]: the logical positions of all held indices are exactly
    0 .. len-1 (each once), [nin = nout + len], fewer than 2^(w-1) are held.
    - push_back puts the new future at position len (behind everything held);
    - push_front puts it at position 0 and moves everything else up by one;
    - a release removes position 0 and moves everything else down by one;
    - re-basing (flipping the top bit of every index and of both counters) changes no position,
      for every value of the counters, including wrapped ones;
    - whenever the output at position 0 is parked, [ord_try_release] finds it (the heap's raw
      minimum is the logical minimum because after re-basing there is no wrap in the window);
    - when nothing is running and the front is not parked, nothing is held at all. *)
From FB Require Import Base Syntax World SlotMap Fub Ordered Tactics WordArith.
From Coq Require Import Permutation.
Set Implicit Arguments.
Local Open Scope Z_scope.

Definition zseq (n : nat) : list Z := map Z.of_nat (seq 0 n).

Lemma zseq_S n : zseq (S n) = zseq n ++ [Z.of_nat n].
Proof. unfold zseq. rewrite seq_S, map_app. reflexivity. Qed.

Lemma zseq_length n : length (zseq n) = n.
Proof. unfold zseq. rewrite map_length, seq_length. reflexivity. Qed.

Lemma zseq_In n x : In x (zseq n) <-> 0 <= x < Z.of_nat n.
Proof.
  unfold zseq. rewrite in_map_iff. split.
  - intros (k & <- & Hk). apply in_seq in Hk. lia.
  - intros H. exists (Z.to_nat x). split; [lia|]. apply in_seq. lia.
Qed.

Lemma zseq_NoDup n : NoDup (zseq n).
Proof.
  unfold zseq. apply FinFun.Injective_map_NoDup; [|apply seq_NoDup].
  intros a b H. lia.
Qed.

Lemma zseq_shift n : zseq (S n) = 0 :: map (fun x => x + 1) (zseq n).
Proof.
  unfold zseq. simpl. f_equal. rewrite <- seq_shift, !map_map. apply map_ext. intros; lia.
Qed.

Section O.
Variable P : params.
Hypothesis HW : (2 <= pW P)%nat.

Let W : Z := Z.of_nat (pW P).
Lemma HW1 : 1 <= W. Proof. unfold W. lia. Qed.

Lemma wmod_eq : wmod P = wm W. Proof. reflexivity. Qed.
Lemma msb_eq : msb P = hb W. Proof. reflexivity. Qed.
Lemma wmod_2msb : wmod P = 2 * msb P. Proof. rewrite wmod_eq, msb_eq. apply wm_hb. exact HW1. Qed.
Lemma msb_pos : 0 < msb P. Proof. rewrite msb_eq. apply hb_pos. exact HW1. Qed.
Lemma wmod_pos : 0 < wmod P. Proof. pose proof wmod_2msb. pose proof msb_pos. lia. Qed.
(** at least two bits: 2 <= msb *)
Lemma msb_ge2 : 2 <= msb P.
Proof.
  unfold msb. replace (Z.of_nat (pW P) - 1) with (Z.succ (Z.of_nat (pW P) - 2)) by lia.
  rewrite Z.pow_succ_r by lia.
  assert (0 < 2 ^ (Z.of_nat (pW P) - 2)) by (apply Z.pow_pos_nonneg; lia). lia.
Qed.

Definition off (o : ord) (i : Z) : Z := (i - nout o) mod wmod P.
Definition hidx (o : ord) : list Z := map fst (oheap o).
Definition held (run : list Z) (o : ord) : list Z := run ++ hidx o.

Record oinv (run : list Z) (o : ord) : Prop := {
  oi_out : 0 <= nout o < wmod P;
  oi_in : nin o = (nout o + Z.of_nat (length (held run o))) mod wmod P;
  oi_rng : Forall (fun i => 0 <= i < wmod P) (held run o);
  oi_len : Z.of_nat (length (held run o)) < msb P;
  oi_perm : Permutation (map (off o) (held run o)) (zseq (length (held run o)));
}.

(** the invariant only depends on the multiset of running indices *)
Lemma oinv_perm run run' o : Permutation run run' -> oinv run o -> oinv run' o.
Proof.
  intros Hp [A B C D E].
  assert (Hh : Permutation (held run o) (held run' o)) by (unfold held; apply Permutation_app_tail; auto).
  assert (Hl : length (held run' o) = length (held run o)) by (symmetry; apply Permutation_length; auto).
  constructor; auto.
  - rewrite Hl. auto.
  - eapply Permutation_Forall; eauto.
  - rewrite Hl. auto.
  - rewrite Hl. eapply Permutation_trans; [|exact E]. apply Permutation_map. apply Permutation_sym; auto.
Qed.

Lemma off_range o i : 0 <= off o i < wmod P.
Proof. unfold off. apply Z.mod_pos_bound. apply wmod_pos. Qed.

(** every held index has a position below len *)
Lemma held_off_lt run o i : oinv run o -> In i (held run o) -> 0 <= off o i < Z.of_nat (length (held run o)).
Proof.
  intros [A B C D E] Hi. apply zseq_In. eapply Permutation_in; [exact E|]. apply in_map; auto.
Qed.

(** ** push_back *)
Lemma oinv_push_back run o :
  oinv run o -> Z.of_nat (length (held run o)) + 1 < msb P ->
  oinv (nin o :: run) (ord_set_in o (winc P (nin o)))
  /\ off o (nin o) = Z.of_nat (length (held run o)).
Proof.
  intros [A B C D E] Hroom. pose proof wmod_2msb as Hw. pose proof msb_pos as Hm.
  set (len := length (held run o)) in *.
  assert (Hoff : off o (nin o) = Z.of_nat len).
  { unfold off. rewrite B. rewrite Zminus_mod_idemp_l.
    replace (nout o + Z.of_nat len - nout o) with (Z.of_nat len) by lia. apply Z.mod_small. lia. }
  split; auto.
  assert (Hheld : held (nin o :: run) (ord_set_in o (winc P (nin o))) = nin o :: held run o) by reflexivity.
  constructor; rewrite ?Hheld; simpl; fold len.
  - exact A.
  - unfold winc. rewrite B. rewrite Zplus_mod_idemp_l. f_equal. lia.
  - constructor; auto. rewrite B. apply Z.mod_pos_bound. lia.
  - lia.
  - change (off (ord_set_in o (winc P (nin o)))) with (off o). rewrite Hoff.
    rewrite zseq_S. eapply Permutation_trans; [|apply Permutation_cons_append].
    apply perm_skip. exact E.
Qed.

(** ** push_front *)
Lemma oinv_push_front run o :
  oinv run o -> Z.of_nat (length (held run o)) + 1 < msb P ->
  let n' := wdec P (nout o) in
  oinv (n' :: run) (ord_set_out o n')
  /\ off (ord_set_out o n') n' = 0
  /\ forall i, In i (held run o) -> off (ord_set_out o n') i = off o i + 1.
Proof.
  intros Hinv Hroom n'. pose proof Hinv as [A B C D E].
  pose proof wmod_2msb as Hw. pose proof msb_pos as Hm. pose proof msb_ge2 as Hm2.
  set (len := length (held run o)) in *.
  assert (Hn' : 0 <= n' < wmod P) by (unfold n', wdec; apply Z.mod_pos_bound; lia).
  assert (Hoff0 : off (ord_set_out o n') n' = 0).
  { unfold off. simpl. rewrite Z.sub_diag. apply Z.mod_0_l. lia. }
  assert (Hoffs : forall i, In i (held run o) -> off (ord_set_out o n') i = off o i + 1).
  { intros i Hi. pose proof (@held_off_lt _ _ _ Hinv Hi) as Hr. fold len in Hr.
    unfold off in *. simpl. unfold n', wdec.
    rewrite Zminus_mod_idemp_r. replace (i - (nout o - 1)) with ((i - nout o) + 1) by lia.
    rewrite <- Zplus_mod_idemp_l. apply Z.mod_small. lia. }
  splits; auto.
  assert (Hheld : held (n' :: run) (ord_set_out o n') = n' :: held run o) by reflexivity.
  constructor; rewrite ?Hheld; simpl; fold len.
  - exact Hn'.
  - rewrite B. unfold n', wdec. rewrite Zplus_mod_idemp_l. f_equal. lia.
  - constructor; auto.
  - lia.
  - rewrite Hoff0, zseq_shift. apply perm_skip.
    rewrite (map_ext_in _ (fun i => off o i + 1) _ Hoffs).
    rewrite <- (map_map (off o) (fun x => x + 1)). apply Permutation_map. exact E.
Qed.

(** ** release of the front *)
Lemma perm_remove_head (l : list Z) n :
  Permutation (0 :: l) (zseq (S n)) -> Permutation (map (fun x => x - 1) l) (zseq n).
Proof.
  intros Hp. rewrite zseq_shift in Hp. apply Permutation_cons_inv in Hp.
  eapply Permutation_trans; [apply Permutation_map; exact Hp|].
  rewrite map_map. rewrite (map_ext _ (fun x => x)); [rewrite map_id; apply Permutation_refl|].
  intros; lia.
Qed.

Lemma oinv_release run o run' o' rest :
  oinv run o ->
  Permutation (held run o) (nout o :: rest) ->
  Permutation (held run' o') rest ->
  nout o' = winc P (nout o) -> nin o' = nin o ->
  oinv run' o'
  /\ forall i, In i rest -> off o' i = off o i - 1.
Proof.
  intros Hinv Hp Hp' Hout Hin. pose proof Hinv as [A B C D E].
  pose proof wmod_2msb as Hw. pose proof msb_pos as Hm.
  assert (Hlen : length (held run o) = S (length rest)).
  { apply Permutation_length in Hp. simpl in Hp. auto. }
  assert (Hlen' : length (held run' o') = length rest) by (apply Permutation_length; auto).
  assert (Hoff0 : off o (nout o) = 0).
  { unfold off. rewrite Z.sub_diag. apply Z.mod_0_l. lia. }
  assert (E1 : Permutation (0 :: map (off o) rest) (zseq (S (length rest)))).
  { rewrite <- Hlen. eapply Permutation_trans; [|exact E].
    rewrite <- Hoff0. change (off o (nout o) :: map (off o) rest) with (map (off o) (nout o :: rest)).
    apply Permutation_map. apply Permutation_sym; auto. }
  assert (Hnd : ~ In 0 (map (off o) rest)).
  { assert (Hn : NoDup (0 :: map (off o) rest)).
    { eapply Permutation_NoDup; [apply Permutation_sym; exact E1|]. apply zseq_NoDup. }
    inversion Hn; auto. }
  assert (Hoffs : forall i, In i rest -> off o' i = off o i - 1).
  { intros i Hi. assert (Hge : 1 <= off o i).
    { pose proof (off_range o i). destruct (Z.eq_dec (off o i) 0) as [Hz|]; [|lia].
      exfalso. apply Hnd. rewrite <- Hz. apply in_map; auto. }
    unfold off in *. rewrite Hout. unfold winc. rewrite Zminus_mod_idemp_r.
    replace (i - (nout o + 1)) with ((i - nout o) - 1) by lia.
    rewrite <- Zminus_mod_idemp_l. apply Z.mod_small.
    pose proof (Z.mod_pos_bound (i - nout o) (wmod P)). lia. }
  split; auto.
  constructor.
  - rewrite Hout. unfold winc. apply Z.mod_pos_bound. lia.
  - rewrite Hin, B, Hout, Hlen, Hlen'. unfold winc. rewrite Zplus_mod_idemp_l. f_equal. lia.
  - eapply Permutation_Forall; [apply Permutation_sym; exact Hp'|].
    assert (Hall : Forall (fun i => 0 <= i < wmod P) (nout o :: rest)) by (eapply Permutation_Forall; eauto).
    inversion Hall; auto.
  - rewrite Hlen'. rewrite Hlen in D. lia.
  - rewrite Hlen'. eapply Permutation_trans; [apply Permutation_map; exact Hp'|].
    rewrite (map_ext_in _ (fun i => off o i - 1) _ Hoffs).
    rewrite <- (map_map (off o) (fun x => x - 1)). apply perm_remove_head. exact E1.
Qed.

(** ** parking a finished output: the index moves from the running set to the heap *)
Lemma oinv_park run o i t c' :
  oinv (i :: run) o ->
  oinv run {| oheap := oheap o ++ [(i, t)]; hcap := c'; nin := nin o; nout := nout o |}.
Proof.
  intros [A B C D E].
  set (o' := {| oheap := oheap o ++ [(i, t)]; hcap := c'; nin := nin o; nout := nout o |}).
  assert (Hp : Permutation (held (i :: run) o) (held run o')).
  { unfold held, hidx, o'. simpl. rewrite map_app. simpl.
    rewrite app_assoc. apply Permutation_cons_append. }
  assert (Hl : length (held run o') = length (held (i :: run) o)) by (symmetry; apply Permutation_length; auto).
  constructor; rewrite ?Hl; auto.
  - eapply Permutation_Forall; eauto.
  - change (off o') with (off o). eapply Permutation_trans; [|exact E].
    apply Permutation_map. apply Permutation_sym; auto.
Qed.

(** ** re-basing: no position changes *)
Lemma oinv_rebase run o :
  oinv run o -> oinv (map (flip P) run) (ord_rebase P o)
  /\ forall i, 0 <= i < wmod P -> off (ord_rebase P o) (flip P i) = off o i.
Proof.
  intros [A B C D E]. pose proof HW1 as H1.
  assert (Hoffs : forall i, 0 <= i < wmod P -> off (ord_rebase P o) (flip P i) = off o i).
  { intros i Hi. unfold off, ord_rebase, flip. simpl. rewrite wmod_eq, msb_eq in *.
    apply flip_diff; auto. }
  split; auto.
  assert (Hheld : held (map (flip P) run) (ord_rebase P o) = map (flip P) (held run o)).
  { unfold held, hidx, ord_rebase. simpl. rewrite map_app, !map_map. reflexivity. }
  assert (Hl : length (held (map (flip P) run) (ord_rebase P o)) = length (held run o)).
  { rewrite Hheld. apply map_length. }
  constructor; rewrite ?Hl.
  - unfold ord_rebase, flip. simpl. rewrite wmod_eq, msb_eq in *. apply flip_range; auto.
  - unfold ord_rebase, flip. simpl. rewrite wmod_eq, msb_eq in *.
    assert (Hnin : 0 <= nin o < wm W) by (rewrite B; apply Z.mod_pos_bound; pose proof wm_hb W H1; pose proof hb_pos W H1; lia).
    rewrite !flip_add by auto. rewrite B. rewrite Zplus_mod_idemp_l, Zplus_mod_idemp_l. f_equal. lia.
  - rewrite Hheld. rewrite Forall_map. eapply Forall_impl; [|exact C]. simpl. intros i Hi.
    unfold flip. rewrite wmod_eq, msb_eq in *. apply flip_range; auto.
  - exact D.
  - rewrite Hheld, map_map.
    rewrite (map_ext_in (fun x => off (ord_rebase P o) (flip P x)) (off o)); auto.
    intros i Hi. apply Hoffs. rewrite Forall_forall in C. auto.
Qed.

(** after the conditional re-basing the outgoing counter is below the top bit *)
Lemma rebase_below o :
  0 <= nout o < wmod P ->
  nout (if msb_set P (nout o) then ord_rebase P o else o) < msb P.
Proof.
  intros Hn. pose proof HW1 as H1. unfold msb_set. rewrite wmod_eq, msb_eq in *.
  rewrite (msb_test W H1) by auto.
  destruct (Z.leb_spec (hb W) (nout o)).
  - unfold ord_rebase, flip. simpl. apply flip_clears; auto.
  - auto.
Qed.

(** ** the heap's raw minimum is the logical minimum *)
Lemma heap_min_spec h x : heap_min h = Some x -> In x h /\ forall y, In y h -> fst x <= fst y.
Proof.
  revert x. induction h as [|a h IH]; simpl; intros x Hx; [discriminate|].
  destruct (heap_min h) as [y|] eqn:Hy.
  - destruct (IH _ eq_refl) as [Hin Hmin].
    destruct (Z.ltb_spec (fst y) (fst a)); inversion Hx; subst.
    + split; auto. intros z [<-|Hz]; [lia|auto].
    + split; auto. intros z [<-|Hz]; [lia|]. specialize (Hmin _ Hz). lia.
  - inversion Hx; subst. split; auto. intros z [<-|Hz]; [lia|].
    destruct h; [contradiction|]. simpl in Hy. destruct (heap_min h); [destruct (Z.ltb _ _)|]; discriminate.
Qed.

Lemma heap_min_none h : heap_min h = None -> h = [].
Proof.
  destruct h as [|a h]; auto. simpl. destruct (heap_min h); [destruct (Z.ltb _ _)|]; discriminate.
Qed.

Lemma heap_remove_perm i h :
  In i (map fst h) -> Permutation (map fst h) (i :: map fst (heap_remove i h)).
Proof.
  induction h as [|a h IH]; simpl; intros Hin; [contradiction|].
  destruct (Z.eqb_spec (fst a) i) as [->|Hne]; [apply Permutation_refl|].
  destruct Hin as [|Hin]; [contradiction|]. simpl.
  eapply Permutation_trans; [apply perm_skip; apply IH; auto|]. apply perm_swap.
Qed.

(** a held index at position 0 is the outgoing counter itself, and positions order the raw
    indices, once the outgoing counter is below the top bit *)
Lemma held_index_exact run o i :
  oinv run o -> nout o < msb P -> In i (held run o) -> i = nout o + off o i.
Proof.
  intros Hinv Hb Hi. pose proof Hinv as [A B C D E]. pose proof HW1 as H1.
  pose proof (@held_off_lt _ _ _ Hinv Hi) as Hr.
  rewrite Forall_forall in C. specialize (C _ Hi).
  rewrite wmod_eq, msb_eq in *.
  apply (off_exact W H1 i (nout o) (off o i)); auto; try lia.
Qed.

(** if the front is parked, [ord_try_release] returns it *)
Lemma try_release_complete run o :
  oinv run o -> nout o < msb P -> In (nout o) (hidx o) ->
  exists t o', ord_try_release P o = Some (t, o').
Proof.
  intros Hinv Hb Hin. unfold ord_try_release.
  destruct (heap_min (oheap o)) as [[i t]|] eqn:Hm.
  - destruct (@heap_min_spec _ _ Hm) as [Hx Hmin]. simpl in *.
    assert (Hi : In i (held run o)).
    { unfold held, hidx. apply in_or_app; right. apply (in_map fst) in Hx. exact Hx. }
    pose proof (@held_index_exact _ _ _ Hinv Hb Hi) as Hie.
    pose proof (@held_off_lt _ _ _ Hinv Hi) as Hr.
    unfold hidx in Hin. apply in_map_iff in Hin as ((n0, t0) & Hf & Hy). simpl in Hf. subst n0.
    specialize (Hmin _ Hy). simpl in Hmin.
    assert (i = nout o) by lia. subst i. rewrite Z.eqb_refl. eauto.
  - apply heap_min_none in Hm. unfold hidx in Hin. rewrite Hm in Hin. contradiction.
Qed.

(** what [ord_try_release] returns is the front, and the invariant is kept *)
Lemma try_release_sound run o t o' :
  oinv run o -> ord_try_release P o = Some (t, o') ->
  oinv run o' /\ In (nout o, t) (oheap o) /\ nout o' = winc P (nout o)
  /\ forall i, In i (held run o') -> off o' i = off o i - 1.
Proof.
  intros Hinv Hr. unfold ord_try_release in Hr.
  destruct (heap_min (oheap o)) as [[i t0]|] eqn:Hm; [|discriminate].
  destruct (Z.eqb_spec i (nout o)) as [->|]; [|discriminate]. inversion Hr; subst; clear Hr.
  destruct (@heap_min_spec _ _ Hm) as [Hx _].
  set (o' := ord_set_heap (ord_set_out o (winc P (nout o))) (heap_remove (nout o) (oheap o))).
  assert (Hin : In (nout o) (hidx o)) by (unfold hidx; apply (in_map fst) in Hx; exact Hx).
  assert (Hp : Permutation (held run o) (nout o :: held run o')).
  { unfold held. eapply Permutation_trans; [apply Permutation_app_head; apply heap_remove_perm; exact Hin|].
    unfold hidx, o'. simpl. apply Permutation_sym. apply Permutation_middle. }
  destruct (@oinv_release run o run o' (held run o') Hinv Hp (Permutation_refl _) eq_refl eq_refl) as [H1 H2].
  splits; auto.
Qed.

(** when nothing is running and the front is not parked, nothing is held *)
Lemma nothing_running_nothing_held o :
  oinv [] o -> nout o < msb P -> ~ In (nout o) (hidx o) -> oheap o = [].
Proof.
  intros Hinv Hb Hni. pose proof Hinv as [A B C D E].
  destruct (oheap o) as [|x h] eqn:Hh; auto. exfalso.
  assert (Hlen : (0 < length (held [] o))%nat) by (unfold held, hidx; rewrite Hh; simpl; lia).
  (* position 0 is taken by some held index, which then equals nout *)
  assert (H0 : In 0 (zseq (length (held [] o)))) by (apply zseq_In; lia).
  apply (Permutation_in _ (Permutation_sym E)) in H0. apply in_map_iff in H0 as (i & Hoff & Hi).
  pose proof (@held_index_exact _ _ _ Hinv Hb Hi) as Hie. rewrite Hoff in Hie.
  apply Hni. unfold held in Hi. simpl in Hi. replace (nout o) with i by lia. exact Hi.
Qed.

End O.
