(** * BackpressureFec: C09's limit for [for_each_concurrent] at every moment of every history

    The counterpart of BackpressureLog.v for [for_each_concurrent(n, f)]: over the chronological
    event log of any history, whenever an item is pulled from upstream, fewer than [n] of the
    futures made from the items pulled before it are still unfinished (pulled minus answered
    Ready).  The loop of [ForEachConcurrent::poll] alternates a guarded pull with a poll of the
    queue until neither makes progress; the invariant is carried through every iteration.
    For n = 0 the guard is never true, so nothing is ever pulled (that is finding F8, which the
    model mirrors; the statement is then vacuous). *)
From FB Require Import Base Syntax World SlotMap Fub Unbounded Ordered Adapters Step Tactics SlotMapProofs WorldProofs FubProofs
  UnboundedProofs OrderedProofs AdaptersProofs StepProofs Reach LedgerProofs TokenLedger UpstreamLedger BackpressureLog.
From Coq Require Import Permutation.

(** newest first: at every pull, the pulls before it exceed the completions before it by less than [n] *)
Fixpoint bpf (n : nat) (l : list event) : Prop :=
  match l with
  | [] => True
  | e :: l' => bpf n l' /\ (acc_ev e <> [] -> npull l' < n + nprodc l')
  end.

Lemma bpf_quiet n l H : acc l = [] -> bpf n H -> bpf n (l ++ H).
Proof.
  induction l as [|e l IH]; simpl; auto. intros Ha Hb. unfold acc in Ha. simpl in Ha.
  apply app_eq_nil in Ha as [Ha1 Ha2]. split; [apply IH; auto|]. intros Hne. contradiction.
Qed.

Lemma bpf_split n post e pre : bpf n (post ++ e :: pre) -> acc_ev e <> [] -> npull pre < n + nprodc pre.
Proof. induction post as [|x post IH]; simpl; intros H He; [destruct H as [_ H]; auto|destruct H as [H _]; auto]. Qed.

Section WithParams.
Variable P : params.
Hypothesis HP : params_ok P.

Definition FI (N : nat) (f : fub) (L : list event) : Prop :=
  bpf N L /\ npull L = nprodc L + fub_len f.

Lemma FI_psuf N f f' w w' H0 :
  psuf w w' -> fub_len f' = fub_len f -> FI N f (log w ++ H0) -> FI N f' (log w' ++ H0).
Proof.
  intros (l & Hl & A & B & C) Hq (I1 & I2). rewrite Hl, <- app_assoc. unfold FI.
  rewrite npull_app, nprodc_app.
  assert (Ea : npull l = 0) by (unfold npull; rewrite A; reflexivity).
  rewrite Ea, C, Hq. simpl. split; auto. apply bpf_quiet; auto.
Qed.

(** one poll of the queue: the completions it logs are the futures that left the queue *)
Lemma fub_poll_piece own f t w :
  winv own None w -> fub_ok own f ->
  let '(f', sp, w') := fub_poll_next P KFut f t w in
  exists l, log w' = l ++ log w /\ acc l = [] /\ fub_len f = fub_len f' + nprodc l.
Proof.
  intros Hw Hok.
  assert (Hk : KFut <> KSrc) by discriminate.
  pose proof (@q_poll_piece P own KFut (QU f) t w Hk Hw Hok) as H. cbn [q_poll parked_q] in H.
  destruct (fub_poll_next P KFut f t w) as [[f' sp] w']. cbn [parked_q q_len] in H.
  destruct H as ((l & Hl & A & B & C) & _ & _ & Q); [constructor|].
  exists l. splits; auto. simpl in C. lia.
Qed.

(** ** the loop *)
Lemma fec_loop_bp own n a t w H0 :
  winv own None w -> fub_ok own (fe_q a) -> up_live (fe_up a) ->
  FI (fub_cap (fe_q a)) (fe_q a) (log w ++ H0) ->
  let '(a', r, w') := fec_loop P n a t w in
  FI (fub_cap (fe_q a)) (fe_q a') (log w' ++ H0) /\ fub_cap (fe_q a') = fub_cap (fe_q a)
  /\ ret_toks r = [].
Proof.
  revert a w. induction n as [|n IH]; intros a w Hw Hok Hul HI; cbn [fec_loop].
  - splits; auto. eapply FI_psuf; [| |exact HI]; auto. eexists [_]. splits; reflexivity.
  - (* the pull half *)
    assert (Hpull : let '(a1, pulled, w1) :=
                      (if Nat.ltb (fub_len (fe_q a)) (fub_cap (fe_q a)) then
                         match fe_up a with
                         | Some u =>
                             let '(u, r, w) := up_poll false u t w in
                             match r with
                             | UPItem c =>
                                 match fub_try_push (fe_q a) c w with
                                 | (PushOk f, w) => ({| fe_up := Some u; fe_q := f |}, true, w)
                                 | (_, w) => ({| fe_up := Some u; fe_q := fe_q a |}, true, emit EStuck w)
                                 end
                             | UPEnd => ({| fe_up := None; fe_q := fe_q a |}, false, emit EUpDrop w)
                             | _ => ({| fe_up := Some u; fe_q := fe_q a |}, false, w)
                             end
                         | None => (a, false, w)
                         end
                       else (a, false, w)) in
                    winv own None w1 /\ fub_ok own (fe_q a1) /\ up_live (fe_up a1)
                    /\ fub_cap (fe_q a1) = fub_cap (fe_q a)
                    /\ FI (fub_cap (fe_q a)) (fe_q a1) (log w1 ++ H0)).
    { destruct (Nat.ltb_spec (fub_len (fe_q a)) (fub_cap (fe_q a))) as [Hlt|Hge]; [|splits; auto].
      destruct (fe_up a) as [u|] eqn:Hu; [|splits; auto; rewrite Hu; exact I].
      simpl in Hul.
      pose proof (@winv_up_poll own None false u t w Hul Hw) as Hup.
      pose proof (@up_poll_fused false u t w Hul) as Hfu.
      pose proof (up_poll_piece false u t w) as (l & Hl & Hh & Hpc & Hm).
      destruct (up_poll false u t w) as [[u' r] w1]. cbn [fst snd] in *.
      assert (Hq : acc l = [] -> FI (fub_cap (fe_q a)) (fe_q a) (log w1 ++ H0)).
      { intros Ha. eapply FI_psuf; [| reflexivity | exact HI]. exists l. auto. }
      destruct r as [c| | |e]; cbn [fe_q fe_up].
      - subst l.
        pose proof (@fub_try_push_spec own None (fe_q a) c w1 Hup Hok) as Hs.
        pose proof (@psuf_ub _ _ (usuf_fub_try_push (fe_q a) c w1) (bsuf_fub_try_push (fe_q a) c w1)) as Hps.
        destruct (fub_try_push (fe_q a) c w1) as [[f'| |] w2]; cbn [fst snd fe_q fe_up] in *.
        + destruct Hs as (A & B & C & D & E & F). splits; auto.
          destruct HI as (I1 & I2).
          destruct Hps as (l2 & Hl2 & A2 & B2 & C2). rewrite Hl2, Hl, <- app_assoc. unfold FI.
          rewrite npull_app, nprodc_app.
          assert (Ea : npull l2 = 0) by (unfold npull; rewrite A2; reflexivity).
          rewrite Ea, C2, E. simpl.
          change (EUpPoll (UAItem (cid c)) :: log w ++ H0) with ([EUpPoll (UAItem (cid c))] ++ (log w ++ H0)).
          rewrite npull_app, nprodc_app.
          change (npull [EUpPoll (UAItem (cid c))]) with 1. change (nprodc [EUpPoll (UAItem (cid c))]) with 0. simpl.
          split; [|lia]. apply bpf_quiet; auto. simpl. split; auto. intros _. lia.
        + destruct Hs as [_ Hs]. lia.
        + contradiction.
      - splits; auto.
      - splits; auto; try (apply winv_emit; auto; fail); try exact I.
        eapply FI_psuf; [| |apply Hq; auto]; auto. eexists [_]. splits; reflexivity.
      - destruct Hm as [Hm1 Hm2]. splits; auto. }
    destruct (if Nat.ltb (fub_len (fe_q a)) (fub_cap (fe_q a)) then _ else _) as [[a1 pulled] w1].
    destruct Hpull as (Hw1 & Hok1 & Hul1 & Hcap1 & HI1).
    (* the poll half *)
    pose proof (@fub_poll_next_spec P own KFut (fe_q a1) t w1 Hw1 Hok1) as Hs.
    pose proof (@fub_poll_piece own (fe_q a1) t w1 Hw1 Hok1) as Hp.
    destruct (fub_poll_next P KFut (fe_q a1) t w1) as [[f sp] w2].
    destruct Hs as (Hw2 & Hok2 & _ & Hcap2 & _).
    destruct Hp as (l & Hl & A & Hlen).
    assert (HI2 : FI (fub_cap (fe_q a)) f (log w2 ++ H0)).
    { destruct HI1 as (I1 & I2). rewrite Hl, <- app_assoc. unfold FI. rewrite npull_app, nprodc_app.
      assert (Ea : npull l = 0) by (unfold npull; rewrite A; reflexivity).
      rewrite Ea. simpl. split; [apply bpf_quiet; auto|lia]. }
    assert (Hcap : fub_cap f = fub_cap (fe_q a)) by (unfold fub_cap in *; congruence).
    assert (Hrec : let '(a', r, w') := fec_loop P n {| fe_up := fe_up a1; fe_q := f |} t w2 in
                   FI (fub_cap (fe_q a)) (fe_q a') (log w' ++ H0) /\ fub_cap (fe_q a') = fub_cap (fe_q a)
                   /\ ret_toks r = []).
    { specialize (IH {| fe_up := fe_up a1; fe_q := f |} w2). cbn [fe_q fe_up] in IH. rewrite Hcap in IH.
      apply IH; auto. }
    destruct sp as [| |tk c]; cbn [fe_up fe_q].
    + destruct pulled; [exact Hrec|splits; auto].
    + destruct (fe_up a1); [destruct pulled; [exact Hrec|splits; auto]|splits; auto].
    + exact Hrec.
Qed.

(** ** one operation *)
Definition fty (k : coll) : Prop := match k with CFec _ | CDead | CDropped => True | _ => False end.

Definition HF (N : nat) (k : coll) (L : list event) : Prop :=
  bpf N L /\ match k with CFec a => fub_cap (fe_q a) = N /\ FI N (fe_q a) L | _ => True end.

Lemma HF_psuf N k w w' H0 : psuf w w' -> HF N k (log w ++ H0) -> HF N k (log w' ++ H0).
Proof.
  intros Hp [Hb Hm]. pose proof Hp as (l & Hl & A & B & C). split.
  - rewrite Hl, <- app_assoc. apply bpf_quiet; auto.
  - destruct k; auto. destruct Hm as [Hc HIb]. split; auto.
    eapply FI_psuf; [exact Hp|reflexivity|exact HIb].
Qed.

Lemma step_core_hf N k o w H0 :
  fty k -> cinv k w -> HF N k (log w ++ H0) ->
  fty (fst (step_core P k o w)) /\ HF N (fst (step_core P k o w)) (log (snd (step_core P k o w)) ++ H0).
Proof.
  intros Hk Hc HIk. unfold step_core.
  destruct o as [ty p inits ups|c sc|c sc|c sc|c sc|t i|a| | | | ].
  - destruct k; try contradiction; cbn [fst snd]; auto.
  - destruct k; try contradiction; cbn [fst snd do_push]; auto.
  - destruct k; try contradiction; cbn [fst snd do_push]; auto.
  - destruct k; try contradiction; cbn [fst snd do_push]; auto.
  - destruct k; try contradiction; cbn [fst snd do_push]; auto.
  - unfold do_poll. destruct k; try contradiction; cbn [fst snd]; auto.
    destruct Hc as [Hw Hok]. destruct HIk as [Hb [Hcap HIb]]. subst N.
    destruct Hok as [Hwf Hul]. unfold fec_poll.
    pose proof (@fec_loop_bp _ (fec_fuel a) a t w H0 Hw (fub_ok_single _ Hwf) Hul HIb) as H.
    destruct (fec_loop P (fec_fuel a) a t w) as [[a' r] w1]. cbn [fst snd].
    destruct H as (HI1 & Hcap & Hr).
    split; [exact I|].
    assert (Hps : psuf w1 (emit_ret r w1)).
    { destruct (emit_ret_piece r w1) as (l & Hl & A & B & C). exists l. rewrite Hr in B. auto. }
    assert (HI2 : FI (fub_cap (fe_q a)) (fe_q a') (log (emit_ret r w1) ++ H0)).
    { eapply FI_psuf; [exact Hps|reflexivity|exact HI1]. }
    split; [apply HI2|]. split; auto.
  - cbn [fst snd]. split; auto. eapply HF_psuf; [|exact HIk]. apply psuf_ub; [apply usuf_do_act|apply bsuf_do_act].
  - cbn [fst snd]. split; auto. eapply HF_psuf; [|exact HIk].
    destruct (observe P k); [eexists [_]; splits; reflexivity|apply psuf_refl].
  - cbn [fst snd]. auto.
  - unfold do_drop. destruct k; try contradiction; cbn [fst snd]; auto.
    split; [exact I|]. split; [|exact I]. destruct HIk as [Hb _].
    assert (Hu : usuf w (fec_drop a w)).
    { unfold fec_drop.
      assert (Hu0 : usuf w (match fe_up a with Some _ => emit EUpDrop w | None => w end)) by (destruct (fe_up a); us).
      eapply usuf_trans; [exact Hu0|apply usuf_fub_drop]. }
    destruct Hu as (l & Hl & A). rewrite Hl, <- app_assoc. apply bpf_quiet; auto. apply acc_upp; auto.
  - cbn [fst snd]. split; auto. eapply HF_psuf; [|exact HIk]. unfold cleanup.
    apply psuf_ub; [apply usuf_cleanup_from|apply bsuf_cleanup_from].
Qed.

Theorem fec_backpressure_log_from N s ops H0 :
  fty (st_coll s) -> Inv s -> HF N (st_coll s) H0 ->
  HF N (st_coll (run_state P s ops)) (rlog_from P s ops H0).
Proof.
  revert s H0. induction ops as [|o ops IH]; intros s H0 Hk Hs HIs; [exact HIs|].
  unfold rlog_from. cbn [run_state run_logs].
  destruct (is_dead (st_coll s)) eqn:Hd.
  - assert (Hfix : fst (step_op P s o) = s) by (unfold step_op; rewrite Hd; reflexivity).
    rewrite Hfix. cbn [app]. apply IH; auto.
  - rewrite fold_left_app. cbn [fold_left].
    pose proof (step_inv HP o Hs) as Hs'.
    set (s' := fst (step_op P s o)) in *.
    assert (Hstep : fty (st_coll s') /\ HF N (st_coll s') (log (st_world s') ++ H0)).
    { unfold s', step_op. rewrite Hd.
      destruct Hs as [Hw Hok].
      assert (Hc : cinv (st_coll s) (begin_op (op_inj o) (st_world s))) by (split; auto; apply winv_begin_op; auto).
      pose proof (@step_core_hf N (st_coll s) o (begin_op (op_inj o) (st_world s)) H0 Hk Hc HIs) as H.
      destruct (step_core P (st_coll s) o (begin_op (op_inj o) (st_world s))) as [k' w']. exact H. }
    destruct Hstep as [Hk' HI']. apply (IH s' _ Hk' Hs' HI').
Qed.

(** *** C09 for for_each_concurrent, at every moment of every history *)
Lemma fec_history_HF p inits ups rest :
  HF (p_cap p) (st_coll (run_state P init_state (OBuild TFEC p inits ups :: rest)))
     (rev (hist_of P (OBuild TFEC p inits ups :: rest))).
Proof.
  set (s1 := fst (step_op P init_state (OBuild TFEC p inits ups))).
  assert (Hs1 : Inv s1) by (apply step_inv; auto; apply Inv_init).
  assert (H1 : fty (st_coll s1) /\ HF (p_cap p) (st_coll s1) (log (st_world s1) ++ [])).
  { unfold s1, step_op. cbn [is_dead init_state st_coll st_world step_core].
    set (w0 := begin_op (op_inj (OBuild TFEC p inits ups)) empty_world).
    assert (Hw0 : winv (cnt []) None w0) by (apply winv_begin_op; apply winv_empty_world).
    unfold build.
    pose proof (@fub_new_spec (cnt []) (p_cap p) w0 Hw0) as Hn.
    pose proof (@psuf_ub _ _ (usuf_fub_new (p_cap p) w0) (bsuf_fub_new (p_cap p) w0)) as (l & Hl & A & B & C).
    destruct (fub_new (p_cap p) w0) as [f w1]. destruct Hn as (_ & _ & _ & Hcap & Hlen). cbn [fst snd] in *.
    assert (Hb : bpf (p_cap p) (log w1 ++ [])).
    { rewrite Hl. unfold w0 at 1. simpl. rewrite !app_nil_r. rewrite <- (app_nil_r l). apply bpf_quiet; simpl; auto. }
    split; [exact I|]. split; auto. cbn [st_coll st_world fe_q]. split; [exact Hcap|]. split; auto.
    rewrite Hl. unfold w0 at 1 2. simpl. rewrite !app_nil_r. unfold npull. rewrite A, C, Hlen. reflexivity. }
  destruct H1 as [Hk1 HI1].
  pose proof (@fec_backpressure_log_from (p_cap p) s1 rest _ Hk1 Hs1 HI1) as H.
  assert (E : rlog_from P s1 rest (log (st_world s1) ++ []) = rev (hist_of P (OBuild TFEC p inits ups :: rest))).
  { unfold rlog_from, hist_of. cbn [run_logs]. cbn [is_dead init_state st_coll]. fold s1.
    rewrite rlog_rev. cbn [app flat_map]. rewrite rev_app_distr, rev_involutive, app_nil_r. reflexivity. }
  rewrite E in H. cbn [run_state]. fold s1. exact H.
Qed.

Theorem fec_pulls_only_while_fewer_than_n_unfinished p inits ups rest pre c post :
  hist_of P (OBuild TFEC p inits ups :: rest) = pre ++ EUpPoll (UAItem c) :: post ->
  npull pre < p_cap p + nprodc pre.
Proof.
  intros Hh. destruct (fec_history_HF p inits ups rest) as [Hbp _].
  rewrite Hh, rev_app_distr in Hbp. cbn [rev] in Hbp. rewrite <- app_assoc in Hbp. cbn [app] in Hbp.
  apply bpf_split in Hbp; [|simpl; discriminate]. rewrite npull_rev, nprodc_rev in Hbp. exact Hbp.
Qed.

(** exact accounting between operations: items pulled so far = futures finished so far + futures
    still in the queue; the queue's capacity is the limit given at construction *)
Theorem fec_accounting p inits ups rest a :
  st_coll (run_state P init_state (OBuild TFEC p inits ups :: rest)) = CFec a ->
  let h := hist_of P (OBuild TFEC p inits ups :: rest) in
  fub_cap (fe_q a) = p_cap p /\ npull h = nprodc h + fub_len (fe_q a).
Proof.
  intros Hc. cbv zeta. destruct (fec_history_HF p inits ups rest) as [_ Hm].
  rewrite Hc in Hm. destruct Hm as (Hcap & _ & I2).
  rewrite npull_rev, nprodc_rev in I2. auto.
Qed.

End WithParams.
