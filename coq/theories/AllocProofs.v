(** * AllocProofs: which operations call the allocator (C18)

    [nalloc] counts the allocator calls of the current operation.  The bounded collections and
    everything built only on them never change it after construction: pushes, polls, waker
    clone / wake / drop, completion, the error path of try_join_all. *)
From FB Require Import Base Syntax World SlotMap Fub Unbounded Ordered Adapters Step Tactics.
Set Implicit Arguments.

Lemma na_emit e w : nalloc (emit e w) = nalloc w. Proof. reflexivity. Qed.
Lemma na_put_blk b k w : nalloc (put_blk b k w) = nalloc w. Proof. reflexivity. Qed.

Lemma na_notify b w : nalloc (notify b w) = nalloc w.
Proof. unfold notify. destruct (get_blk w b) as [k|]; auto. destruct (breg k); auto. Qed.

Lemma na_enqueue b s w : nalloc (snd (enqueue_slot b s w)) = nalloc w.
Proof.
  unfold enqueue_slot. destruct (get_blk w b) as [k|]; auto.
  destruct (nth_error (bflags k) s) as [[|]|]; auto.
Qed.

Lemma na_wake_slot b s w : nalloc (wake_slot b s w) = nalloc w.
Proof.
  unfold wake_slot. change (get_blk (g_wake w) b) with (get_blk w b).
  destruct (get_blk w b) as [k|]; auto. destruct (bfreed k); auto.
  pose proof (na_enqueue b s (g_wake w)) as H.
  destruct (enqueue_slot b s (g_wake w)) as [q w1]. simpl in H.
  destruct q; auto. rewrite na_notify. auto.
Qed.

Lemma na_dec_strong b w : nalloc (dec_strong b w) = nalloc w.
Proof.
  unfold dec_strong. destruct (get_blk w b) as [k|]; auto. destruct (bfreed k); auto.
  destruct (bstrong k) as [|[|n]]; auto.
Qed.

Lemma na_inc_strong b w : nalloc (inc_strong b w) = nalloc w.
Proof. unfold inc_strong. destruct (get_blk w b) as [k|]; auto. destruct (bfreed k); auto. Qed.

Lemma na_do_act cw a w : nalloc (do_act cw a w) = nalloc w.
Proof.
  destruct a; simpl.
  - destruct cw as [[t|b s]|]; simpl; auto. apply na_wake_slot.
  - destruct cw as [[t|b s]|]; simpl; auto. apply na_inc_strong.
  - destruct (get_handle w h) as [[t|b s]|]; simpl; auto. apply na_wake_slot.
  - destruct (get_handle w h) as [[t|b s]|]; simpl; auto. rewrite na_dec_strong, na_wake_slot. reflexivity.
  - destruct (get_handle w h) as [[t|b s]|]; simpl; auto. rewrite na_dec_strong. reflexivity.
  - destruct (get_handle w h) as [[t|b s]|]; simpl; auto. apply na_inc_strong.
Qed.

Lemma na_do_acts cw l w : nalloc (do_acts cw l w) = nalloc w.
Proof.
  unfold do_acts. revert w; induction l as [|a l IH]; simpl; intros w; auto.
  rewrite IH. apply na_do_act.
Qed.

Lemma na_run_inj p k sl w : nalloc (run_inj p k sl w) = nalloc w.
Proof. unfold run_inj. destruct (find_inj p k (inj_pts (winj w))); auto. rewrite na_do_acts. reflexivity. Qed.

Lemma na_clear_flag b i w : nalloc (clear_flag b i w) = nalloc w.
Proof. unfold clear_flag. destruct (get_blk w b); auto. Qed.

Lemma na_pop b w : nalloc (snd (pop b w)) = nalloc w.
Proof.
  unfold pop. destruct (forced_inc (S (popk w)) (set_popk (S (popk w)) w)); simpl.
  - rewrite na_run_inj. reflexivity.
  - change (get_blk (set_popk (S (popk w)) w) b) with (get_blk w b).
    destruct (get_blk w b) as [kb|]; simpl; auto.
    destruct (bqueue kb) as [|i q]; simpl.
    + rewrite na_run_inj. reflexivity.
    + rewrite na_run_inj, na_clear_flag, na_run_inj. reflexivity.
Qed.

Lemma na_register b t w : nalloc (register b t w) = nalloc w.
Proof. unfold register. rewrite na_run_inj. destruct (get_blk w b); reflexivity. Qed.

Lemma na_self_wake b t w : nalloc (self_wake b t w) = nalloc w.
Proof. unfold self_wake. destruct (get_blk w b); reflexivity. Qed.

Lemma na_poll_child k c b s w : nalloc (snd (poll_child k c b s w)) = nalloc w.
Proof.
  unfold poll_child. destruct (cdone c); simpl; auto.
  destruct (cscript c) as [|[acts r0] rest]; simpl; auto. rewrite na_do_acts. reflexivity.
Qed.

Lemma na_drain k n f t w : nalloc (snd (drain k n f t w)) = nalloc w.
Proof.
  revert f w; induction n as [|n IH]; intros f w; cbn [drain].
  - cbn [snd]. apply na_self_wake.
  - pose proof (na_pop (blk f) w) as Hp. destruct (pop (blk f) w) as [pr w1]. cbn [snd] in Hp.
    destruct pr as [| |i]; cbn [snd]; auto.
    + rewrite na_self_wake. auto.
    + destruct (sm_get (tasks f) i) as [c|].
      * pose proof (na_poll_child k c (blk f) i w1) as Hc.
        destruct (poll_child k c (blk f) i w1) as [[c' r] w2]. cbn [snd] in Hc.
        destruct (is_ready r); cbn [snd]; [congruence|]. rewrite IH. congruence.
      * rewrite IH. auto.
Qed.

Lemma na_fub_remove f i w : nalloc (snd (fub_remove f i w)) = nalloc w.
Proof. unfold fub_remove. destruct (sm_get (tasks f) i); reflexivity. Qed.

Lemma na_fub_try_push f c w : nalloc (snd (fub_try_push f c w)) = nalloc w.
Proof.
  unfold fub_try_push. destruct (sm_insert (tasks f) c); simpl; auto.
  rewrite na_enqueue. reflexivity.
Qed.

Lemma na_drop_children b m w : nalloc (drop_children b m w) = nalloc w.
Proof.
  unfold drop_children. generalize (sm_children m). intros l. revert w.
  induction l; simpl; intros; auto. rewrite IHl. reflexivity.
Qed.

Lemma na_fub_drop f w : nalloc (fub_drop f w) = nalloc w.
Proof. unfold fub_drop. rewrite na_dec_strong, na_drop_children. reflexivity. Qed.

Section WithParams.
Variable P : params.

Lemma na_poll_inner_no_remove k f t w : nalloc (snd (poll_inner_no_remove P k f t w)) = nalloc w.
Proof.
  unfold poll_inner_no_remove. destruct (Nat.eqb (fub_len f) 0); simpl; auto.
  rewrite na_drain, na_register. reflexivity.
Qed.

Lemma na_poll_inner k f t w : nalloc (snd (poll_inner P k f t w)) = nalloc w.
Proof.
  unfold poll_inner. pose proof (na_poll_inner_no_remove k f t w) as H.
  destruct (poll_inner_no_remove P k f t w) as [[f1 pr] w1]. simpl in H.
  destruct pr; simpl; auto.
  pose proof (na_fub_remove f1 i w1) as Hr. destruct (fub_remove f1 i w1). simpl in *. congruence.
Qed.

Lemma na_fub_poll_next k f t w : nalloc (snd (fub_poll_next P k f t w)) = nalloc w.
Proof.
  unfold fub_poll_next. pose proof (na_poll_inner k f t w) as H.
  destruct (poll_inner P k f t w) as [[f1 pr] w1]. simpl in H. destruct pr; simpl; auto.
Qed.

Lemma na_mb_poll_loop n f t w : nalloc (snd (mb_poll_loop P n f t w)) = nalloc w.
Proof.
  revert f w; induction n as [|n IH]; intros f w; simpl; auto.
  pose proof (na_poll_inner_no_remove KSrc f t w) as H.
  destruct (poll_inner_no_remove P KSrc f t w) as [[f1 pr] w1]. simpl in H.
  destruct pr as [| |i c r]; simpl; auto.
  assert (Hgo : nalloc (snd (let '(f0, w0) := fub_remove f1 i w1 in mb_poll_loop P n f0 t w0)) = nalloc w).
  { pose proof (na_fub_remove f1 i w1) as Hr. destruct (fub_remove f1 i w1) as [f2 w2]. simpl in Hr.
    rewrite IH. congruence. }
  destruct r; auto. simpl. rewrite na_enqueue. simpl. auto.
Qed.

Lemma na_mb_poll_next f t w : nalloc (snd (mb_poll_next P f t w)) = nalloc w.
Proof. apply na_mb_poll_loop. Qed.

(** join_all / try_join_all *)
Lemma na_drop_outputs i skip m out w : nalloc (drop_outputs_from i skip m out w) = nalloc w.
Proof.
  revert i w; induction out as [|o rest IH]; intros i w; simpl; auto.
  rewrite IH. destruct (match skip with Some s => Nat.eqb s i | None => false end); auto.
  destruct (sm_get m i); auto.
Qed.

Lemma na_fub_clear f w : nalloc (snd (fub_clear f w)) = nalloc w.
Proof.
  unfold fub_clear. generalize (seq 0 (fub_cap f)). intros l. revert f w.
  induction l as [|j l IH]; intros f w; simpl; auto.
  pose proof (na_fub_remove f j w) as H. destruct (fub_remove f j w) as [f1 w1]. simpl in *.
  rewrite IH. auto.
Qed.

Lemma na_join_loop n j t w : nalloc (snd (join_loop P n j t w)) = nalloc w.
Proof.
  revert j w; induction n as [|n IH]; intros j w; simpl; auto.
  pose proof (na_poll_inner (if j_try j then KTry else KFut) (j_q j) t w) as H.
  destruct (poll_inner P (if j_try j then KTry else KFut) (j_q j) t w) as [[f pr] w1]. simpl in H.
  destruct pr as [| |i c r]; simpl; auto.
  destruct r; try (rewrite IH; auto).
  pose proof (na_fub_clear f (drop_outputs_from 0 (Some i) (tasks f) (j_out j) w1)) as Hc.
  destruct (fub_clear f (drop_outputs_from 0 (Some i) (tasks f) (j_out j) w1)) as [f' w2]. simpl in *.
  rewrite Hc, na_drop_outputs. auto.
Qed.

Lemma na_join_poll j t w : nalloc (snd (join_poll P j t w)) = nalloc w.
Proof. apply na_join_loop. Qed.

(** buffered_unordered / try_buffered_unordered *)
Lemma na_up_poll try u t w : nalloc (snd (up_poll try u t w)) = nalloc w.
Proof.
  unfold up_poll. destruct (us_ended u); simpl; auto.
  destruct (us_steps u) as [|[s|a| |] rest]; simpl; auto.
  - rewrite na_do_acts. reflexivity.
  - destruct try; reflexivity.
Qed.

Lemma na_fill_qu n a t w :
  (exists f, ad_q a = QU f) ->
  nalloc (snd (fill P n a t w)) = nalloc w /\ (exists f, ad_q (fst (fst (fill P n a t w))) = QU f).
Proof.
  revert a w; induction n as [|n IH]; intros a w [f Hq]; cbn [fill]; simpl; eauto.
  destruct (Nat.ltb (q_len (ad_q a)) (q_cap (ad_q a))); simpl; eauto.
  destruct (ad_up a) as [u|]; simpl; eauto.
  pose proof (na_up_poll (ad_try a) u t w) as Hu.
  destruct (up_poll (ad_try a) u t w) as [[u' r] w1]. simpl in Hu.
  destruct r as [c| | |e]; simpl; eauto.
  - rewrite Hq. simpl.
    pose proof (na_fub_try_push f c w1) as Hp.
    destruct (fub_try_push f c w1) as [[f'| |] w2]; simpl in *.
    + destruct (IH {| ad_try := ad_try a; ad_up := Some u'; ad_q := QU f' |} w2) as [I1 I2]; [simpl; eauto|].
      split; auto. congruence.
    + destruct (IH {| ad_try := ad_try a; ad_up := Some u'; ad_q := QU f |} (emit EStuck w2)) as [I1 I2]; [simpl; eauto|].
      split; auto. rewrite I1. simpl. congruence.
    + destruct (IH {| ad_try := ad_try a; ad_up := Some u'; ad_q := QU f |} (emit EStuck w2)) as [I1 I2]; [simpl; eauto|].
      split; auto. rewrite I1. simpl. congruence.
Qed.

Lemma na_adapter_poll_qu a t w :
  (exists f, ad_q a = QU f) ->
  nalloc (snd (adapter_poll P a t w)) = nalloc w /\ (exists f, ad_q (fst (fst (adapter_poll P a t w))) = QU f).
Proof.
  intros Hq. unfold adapter_poll.
  destruct (na_fill_qu (S (q_cap (ad_q a))) a t w Hq) as [H1 [f1 H2]].
  destruct (fill P (S (q_cap (ad_q a))) a t w) as [[a1 e] w1]. simpl in *.
  destruct e as [tk|]; simpl; eauto.
  rewrite H2. simpl.
  pose proof (na_fub_poll_next (ad_kind a1) f1 t w1) as Hp.
  destruct (fub_poll_next P (ad_kind a1) f1 t w1) as [[f2 sp] w2]. simpl in *.
  destruct sp; simpl; [| destruct (ad_up a1) |]; simpl; split; eauto; congruence.
Qed.

Lemma na_fec_loop n a t w : nalloc (snd (fec_loop P n a t w)) = nalloc w.
Proof.
  revert a w; induction n as [|n IH]; intros a w; cbn [fec_loop]; simpl; auto.
  assert (Hpull : nalloc (snd (if Nat.ltb (fub_len (fe_q a)) (fub_cap (fe_q a)) then
                       match fe_up a with
                       | Some u =>
                           let '(u, r, w) := up_poll false u t w in
                           match r with
                           | UPItem c =>
                               match fub_try_push (fe_q a) c w with
                               | (PushOk f, w) => ({| fe_up := Some u; fe_q := f |}, true, w)
                               | (_, w) => ({| fe_up := Some u; fe_q := fe_q a |}, true, emit EStuck w)
                               end
                           | UPEnd => ({| fe_up := None; fe_q := fe_q a |}, false, emit EUpDrop w)
                           | _ => ({| fe_up := Some u; fe_q := fe_q a |}, false, w)
                           end
                       | None => (a, false, w)
                       end
                     else (a, false, w))) = nalloc w).
  { destruct (Nat.ltb (fub_len (fe_q a)) (fub_cap (fe_q a))); auto.
    destruct (fe_up a) as [u|]; auto.
    pose proof (na_up_poll false u t w) as Hu.
    destruct (up_poll false u t w) as [[u' r] w1]. simpl in Hu.
    destruct r as [c| | |e]; simpl; auto.
    pose proof (na_fub_try_push (fe_q a) c w1) as Hp.
    destruct (fub_try_push (fe_q a) c w1) as [[f'| |] w2]; simpl in *; congruence. }
  destruct (if Nat.ltb (fub_len (fe_q a)) (fub_cap (fe_q a)) then _ else _) as [[a1 pulled] w1].
  simpl in Hpull.
  pose proof (na_fub_poll_next KFut (fe_q a1) t w1) as Hp.
  destruct (fub_poll_next P KFut (fe_q a1) t w1) as [[f sp] w2]. simpl in Hp.
  destruct sp; simpl.
  - destruct pulled; simpl; [rewrite IH|]; congruence.
  - destruct (fe_up a1); simpl; [destruct pulled; simpl; [rewrite IH|]|]; congruence.
  - rewrite IH. congruence.
Qed.

Lemma na_fec_poll a t w : nalloc (snd (fec_poll P a t w)) = nalloc w.
Proof. apply na_fec_loop. Qed.

End WithParams.

Lemma na_cleanup_from n h w : nalloc (cleanup_from n h w) = nalloc w.
Proof.
  revert h w; induction n as [|n IH]; intros h w; cbn [cleanup_from]; auto.
  rewrite IH. apply na_do_act.
Qed.

Lemma na_emit_ret r w : nalloc (emit_ret r w) = nalloc w.
Proof.
  unfold emit_ret. generalize (ret_toks r). intros l.
  assert (H : forall w0, nalloc (fold_left (fun w t => emit (EODrop t false) w) l w0) = nalloc w0).
  { induction l; simpl; intros; auto. rewrite IHl. reflexivity. }
  rewrite H. reflexivity.
Qed.

(** the collections and combinators that must never allocate after construction *)
Definition no_alloc_coll (k : coll) : bool :=
  match k with
  | CFub _ | CMb _ | CFec _ | CJoin _ | CDropped => true
  | CAd a => match ad_q a with QU _ => true | QO _ => false end
  | _ => false
  end.

Definition is_build (o : op) : bool := match o with OBuild _ _ _ _ => true | _ => false end.

Theorem no_alloc_step P k o w :
  no_alloc_coll k = true -> is_build o = false ->
  nalloc (snd (step_core P k o w)) = nalloc w /\ no_alloc_coll (fst (step_core P k o w)) = true.
Proof.
  intros Hk Ho. unfold step_core. destruct o; simpl in Ho; try discriminate; simpl.
  - (* push *)
    unfold do_push. destruct k; try discriminate; simpl; auto.
    + pose proof (na_fub_try_push f (mk_child c s) w) as H.
      destruct (fub_try_push f (mk_child c s) w) as [[f'| |] w1]; simpl in *; auto.
    + pose proof (na_fub_try_push f (mk_child c s) w) as H.
      destruct (fub_try_push f (mk_child c s) w) as [[f'| |] w1]; simpl in *; auto.
  - unfold do_push. destruct k; try discriminate; simpl; auto.
  - unfold do_push. destruct k; try discriminate; simpl; auto.
    + pose proof (na_fub_try_push f (mk_child c s) w) as H.
      destruct (fub_try_push f (mk_child c s) w) as [[f'| |] w1]; simpl in *; auto.
    + pose proof (na_fub_try_push f (mk_child c s) w) as H.
      destruct (fub_try_push f (mk_child c s) w) as [[f'| |] w1]; simpl in *; auto.
  - unfold do_push. destruct k; try discriminate; simpl; auto.
  - (* poll *)
    unfold do_poll. destruct k; try discriminate; simpl; auto.
    + pose proof (na_fub_poll_next P KFut f w0 w) as H.
      destruct (fub_poll_next P KFut f w0 w) as [[f' sp] w1]. simpl in *. rewrite na_emit_ret. auto.
    + pose proof (na_mb_poll_next P f w0 w) as H.
      destruct (mb_poll_next P f w0 w) as [[f' sp] w1]. simpl in *. rewrite na_emit_ret. auto.
    + destruct (ad_q a) as [f|] eqn:Hq; [|simpl in Hk; rewrite Hq in Hk; discriminate].
      destruct (na_adapter_poll_qu P a w0 w (ex_intro _ f Hq)) as [H1 [f' H2]].
      destruct (adapter_poll P a w0 w) as [[a' r] w1]. simpl in *. rewrite na_emit_ret, H2. auto.
    + pose proof (na_fec_poll P a w0 w) as H.
      destruct (fec_poll P a w0 w) as [[a' r] w1]. simpl in *. rewrite na_emit_ret. auto.
    + pose proof (na_join_poll P j w0 w) as H.
      destruct (join_poll P j w0 w) as [[j' r] w1]. simpl in *. rewrite na_emit_ret. auto.
  - split; auto. apply na_do_act.
  - split; auto. destruct (observe P k); auto.
  - auto.
  - (* drop *)
    unfold do_drop. destruct k; try discriminate; simpl; auto.
    + split; auto. apply na_fub_drop.
    + split; auto. apply na_fub_drop.
    + split; auto. unfold adapter_drop. destruct (ad_q a) as [f|] eqn:Hq; [|simpl in Hk; rewrite Hq in Hk; discriminate]. simpl.
      rewrite na_fub_drop. destruct (ad_up a); auto.
    + split; auto. unfold fec_drop. rewrite na_fub_drop. destruct (fe_up a); auto.
    + split; auto. unfold join_drop. rewrite na_fub_drop, na_drop_outputs. auto.
  - split; auto. unfold cleanup. apply na_cleanup_from.
Qed.

(** hence the allocation counter of every operation after construction stays 0 (the [EAlloc]
    event of an operation is derived from it by [finish_op]) *)
Theorem no_alloc_after_construction P s o :
  no_alloc_coll (st_coll s) = true -> is_build o = false ->
  nalloc (st_world (fst (step_op P s o))) = 0
  /\ no_alloc_coll (st_coll (fst (step_op P s o))) = true.
Proof.
  intros Hk Ho. unfold step_op. destruct (is_dead (st_coll s)) eqn:Hd.
  - destruct (st_coll s); discriminate.
  - destruct (no_alloc_step P (st_coll s) o (begin_op (op_inj o) (st_world s)) Hk Ho) as [H1 H2].
    destruct (step_core P (st_coll s) o (begin_op (op_inj o) (st_world s))) as [k' w']. simpl in *.
    split; auto.
Qed.

(** ... for every suffix of every history *)
Fixpoint run_allocs P (s : state) (ops : list op) : list nat :=
  match ops with
  | [] => []
  | o :: rest => let s' := fst (step_op P s o) in nalloc (st_world s') :: run_allocs P s' rest
  end.

Theorem no_alloc_history P s ops :
  no_alloc_coll (st_coll s) = true ->
  Forall (fun o => is_build o = false) ops ->
  Forall (fun n => n = 0) (run_allocs P s ops).
Proof.
  intros Hk Hops. revert s Hk. induction Hops as [|o ops Ho Hops IH]; intros s Hk; simpl; constructor.
  - apply (no_alloc_after_construction P s o Hk Ho).
  - apply IH. apply (no_alloc_after_construction P s o Hk Ho).
Qed.
