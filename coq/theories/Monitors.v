(** * Monitors: the properties as decidable checks over (history, trace)

    The same definitions are (a) what theorems of [Properties/] say about the model's
    traces and (b) extracted and evaluated on the traces of the real crate.

    A trace is the list of per-operation event lists, aligned with the history's ops.
    The tracker [trk] is what an outside observer can reconstruct from history + trace:
    who is held, which handle points to which slot, which child sits in which slot,
    which children have a wake-up pending ("armed"). *)
From FB Require Import Base Syntax.
From RecordUpdate Require Import RecordSet.
Import RecordSetNotations.

Definition trace := list (op * list event).

(** ** small utilities *)
Definition memN (x : N) (l : list N) : bool := existsb (N.eqb x) l.
Fixpoint removeN (x : N) (l : list N) : list N :=
  match l with
  | [] => []
  | y :: t => if N.eqb x y then t else y :: removeN x t
  end.

Definition res_eqb (a b : res) : bool :=
  match a, b with
  | RP, RP | RR, RR | RX, RX | RI, RI | RE, RE => true
  | _, _ => false
  end.

Definition tok_eqb (a b : tok) : bool :=
  match a, b with
  | TOut x, TOut y | TErr x, TErr y => N.eqb x y
  | TItem x i, TItem y j => N.eqb x y && Nat.eqb i j
  | TUp i, TUp j => Nat.eqb i j
  | TGarbage, TGarbage => true
  | _, _ => false
  end.

Definition memT (x : tok) (l : list tok) : bool := existsb (tok_eqb x) l.
Definition countT (x : tok) (l : list tok) : nat := length (filter (tok_eqb x) l).
Definition countN (x : N) (l : list N) : nat := length (filter (N.eqb x) l).

Fixpoint lookupN {A} (c : N) (l : list (N * A)) : option A :=
  match l with
  | [] => None
  | (c', v) :: t => if N.eqb c c' then Some v else lookupN c t
  end.
Fixpoint dropN {A} (c : N) (l : list (N * A)) : list (N * A) :=
  match l with
  | [] => []
  | (c', v) :: t => if N.eqb c c' then dropN c t else (c', v) :: dropN c t
  end.

Definition is_bounded (t : ctype) : bool :=
  match t with TFUB | TMB | TFOB => true | _ => false end.
Definition is_merge (t : ctype) : bool :=
  match t with TMB | TMU => true | _ => false end.
Definition is_ordered (t : ctype) : bool :=
  match t with TFOB | TFO | TBO | TTBO => true | _ => false end.
Definition is_adapter (t : ctype) : bool :=
  match t with TBU | TBO | TTBU | TTBO | TFEC => true | _ => false end.
Definition is_join (t : ctype) : bool :=
  match t with TJA | TTJA => true | _ => false end.
Definition is_stream_coll (t : ctype) : bool :=
  match t with TFUB | TFU | TFOB | TFO => true | _ => false end.
Definition is_try (t : ctype) : bool :=
  match t with TTBU | TTBO | TTJA => true | _ => false end.
Definition is_fec (t : ctype) : bool := match t with TFEC => true | _ => false end.
Definition is_unbounded (t : ctype) : bool :=
  match t with TFU | TMU | TFO => true | _ => false end.

Inductive mhandle := MT (w : nat) | MC (b s : nat).

(** ** the tracker *)
Record trk := mkTrk {
  k_type : ctype;
  k_par : cparams;
  k_inits : list N;
  k_built : bool;
  k_dropped : bool;              (* dropcoll happened *)
  k_accepted : list N;           (* accepted children, acceptance order *)
  k_running : list N;            (* accepted, no final answer yet *)
  k_final : list (N * res);      (* final answers given *)
  k_held : list N;               (* accepted, output not yet yielded (merges, FEC: = running) *)
  k_deque : list N;              (* ordered types: abstract queue order of held children *)
  k_yielded : list tok;          (* tokens handed to the caller *)
  k_produced : list tok;         (* tokens produced by children / upstream *)
  k_cdrops : list N;             (* child drop events *)
  k_fin_undropped : list N;      (* children that finished and have not been dropped yet *)
  k_odrops : list tok;           (* token drop events *)
  k_refused : list N;
  k_pulled : nat;                (* upstream items pulled *)
  k_up_ended : bool;
  k_ups : list upstep;           (* upstream script not yet consumed *)
  (* replay *)
  k_scripts : list (N * script); (* remaining script of every live child *)
  k_handles : list (option mhandle);
  k_occ : list (nat * nat * N);  (* slot (b, s) -> child last polled there and not yet dropped *)
  k_armed : list (N * nat);      (* children with a wake-up pending -> value of [k_pollno] when it was raised *)
  k_dequeued : option N;         (* the child whose slot a pop has just handed out (seen through an exit injection) *)
  k_slot_credit : list (nat * nat); (* wake-ups of slots whose occupant is not known yet *)
  k_pollno : nat;                (* collection polls so far that could make progress *)
  k_last_waker : option nat;     (* task waker of the most recent poll *)
  k_last_pending : bool;         (* ... and whether it returned Pending *)
  k_twake_since : bool;          (* that waker was invoked since that poll began *)
  k_max_held : nat;
  k_wakes : nat;                 (* child-waker invocations (wake / wake_by_ref on a slot) *)
  k_stale_wakes : nat;           (* ... of which on slots with no live occupant *)
  k_nblocks : nat;
  k_freed : list nat;            (* waker blocks released so far *)
  k_polls_total : nat;
  k_items_total : nat;
  k_allocs_after : nat;          (* allocator calls after construction *)
  k_quiet_run : nat;             (* consecutive quiet polls *)
  (* per op *)
  k_op_polls : nat;
  k_op_blk : list (nat * nat);    (* child polls of this op per waker block (= per group) *)
  k_op_finals : nat;
  k_op_pulled : nat;
  k_op_twakes : nat;
  k_op_wakes : nat;              (* child-waker invocations in this op *)
  k_op_newly_armed : bool;       (* a held child became armed in this op through a waker *)
  k_op_all_pending : bool;
  k_op_up_last_pend : bool;
  k_op_up_polled : bool;
  k_pending_item : option tok;
  k_pending_err : option tok;
}.

#[export] Instance etaTrk : Settable _ := settable! mkTrk
  <k_type; k_par; k_inits; k_built; k_dropped; k_accepted; k_running; k_final; k_held; k_deque;
   k_yielded; k_produced; k_cdrops; k_fin_undropped; k_odrops; k_refused; k_pulled; k_up_ended; k_ups;
   k_scripts; k_handles; k_occ; k_armed; k_dequeued; k_slot_credit; k_pollno; k_last_waker; k_last_pending; k_twake_since;
   k_max_held; k_wakes; k_stale_wakes; k_nblocks; k_freed; k_polls_total; k_items_total; k_allocs_after; k_quiet_run;
   k_op_polls; k_op_blk; k_op_finals; k_op_pulled; k_op_twakes; k_op_wakes; k_op_newly_armed; k_op_all_pending;
   k_op_up_last_pend; k_op_up_polled; k_pending_item; k_pending_err>.

Definition trk_init : trk :=
  {| k_type := TFUB; k_par := {| p_cap := 0; p_new := false; p_iter := false; p_lazy := None; p_seed := None; p_hlo := 0; p_hhi := None |};
     k_inits := []; k_built := false; k_dropped := false;
     k_accepted := []; k_running := []; k_final := []; k_held := []; k_deque := [];
     k_yielded := []; k_produced := []; k_cdrops := []; k_fin_undropped := []; k_odrops := []; k_refused := [];
     k_pulled := 0; k_up_ended := false; k_ups := [];
     k_scripts := []; k_handles := []; k_occ := []; k_armed := []; k_dequeued := None; k_slot_credit := []; k_pollno := 0;
     k_last_waker := None; k_last_pending := false; k_twake_since := false;
     k_max_held := 0; k_wakes := 0; k_stale_wakes := 0; k_nblocks := 0; k_freed := []; k_polls_total := 0; k_items_total := 0;
     k_allocs_after := 0; k_quiet_run := 0;
     k_op_polls := 0; k_op_blk := []; k_op_finals := 0; k_op_pulled := 0; k_op_twakes := 0; k_op_wakes := 0;
     k_op_newly_armed := false; k_op_all_pending := true;
     k_op_up_last_pend := false; k_op_up_polled := false; k_pending_item := None; k_pending_err := None |}.

(** *** replay of waker actions *)
Definition occupant (k : trk) (b s : nat) : option N :=
  match find (fun e => Nat.eqb (fst (fst e)) b && Nat.eqb (snd (fst e)) s) (k_occ k) with
  | Some e => Some (snd e)
  | None => None
  end.

Definition is_armed (k : trk) (c : N) : bool :=
  match lookupN c (k_armed k) with Some _ => true | None => false end.

Definition arm_child (k : trk) (c : N) : trk :=
  if is_armed k c then k else k <| k_armed ::= cons (c, k_pollno k) |>.

(** a waker of slot (b, s) is invoked *)
Definition wake_slot_m (k : trk) (b s : nat) : trk :=
  let k := k <| k_wakes ::= S |> <| k_op_wakes ::= S |> in
  match occupant k b s with
  | Some c =>
      if is_armed k c then k
      else (arm_child k c) <| k_op_newly_armed := true |>
  | None => k <| k_stale_wakes ::= S |>
              <| k_slot_credit ::= fun l => if existsb (fun e => Nat.eqb (fst e) b && Nat.eqb (snd e) s) l then l else (b, s) :: l |>
  end.

Definition get_mhandle (k : trk) (h : nat) : option mhandle :=
  match nth_error (k_handles k) h with Some (Some x) => Some x | _ => None end.

Definition wake_mhandle (k : trk) (x : mhandle) : trk :=
  match x with MT _ => k <| k_op_wakes ::= S |> | MC b s => wake_slot_m k b s end.

Definition perform (cw : option mhandle) (k : trk) (a : act) : trk :=
  match a with
  | ASelf => match cw with Some x => wake_mhandle k x | None => k end
  | ACloneSelf => match cw with Some x => k <| k_handles ::= fun l => l ++ [Some x] |> | None => k end
  | AWakeRef h => match get_mhandle k h with Some x => wake_mhandle k x | None => k end
  | AWake h => match get_mhandle k h with
               | Some x => wake_mhandle (k <| k_handles ::= fun l => upd l h None |>) x
               | None => k end
  | ADrop h => match get_mhandle k h with
               | Some _ => k <| k_handles ::= fun l => upd l h None |>
               | None => k end
  | AClone h => match get_mhandle k h with
                | Some x => k <| k_handles ::= fun l => l ++ [Some x] |>
                | None => k end
  end.

Definition perform_all (cw : option mhandle) (k : trk) (l : list act) : trk :=
  fold_left (perform cw) l k.

Definition accept (k : trk) (c : N) (s : script) (front : bool) : trk :=
  let k := k <| k_accepted ::= fun l => l ++ [c] |> <| k_running ::= fun l => l ++ [c] |>
             <| k_held ::= fun l => l ++ [c] |>
             <| k_deque ::= fun l => if front then c :: l else l ++ [c] |>
             <| k_scripts ::= cons (c, s) |> in
  let k := arm_child k c in
  k <| k_max_held := Nat.max (k_max_held k) (length (k_held k)) |>.

Definition op_has_inc (o : op) : bool :=
  match o with OPoll _ i => negb (Nat.eqb (length (inj_inc i)) 0) | _ => false end.
Definition op_has_inj (o : op) : bool :=
  match o with OPoll _ i => negb (Nat.eqb (length (inj_inc i)) 0) || negb (Nat.eqb (length (inj_pts i)) 0) | _ => false end.

(** start of an op *)
Definition trk_begin (k : trk) (o : op) : trk :=
  let k := k <| k_op_polls := 0 |> <| k_op_blk := [] |> <| k_op_finals := 0 |> <| k_op_pulled := 0 |> <| k_op_twakes := 0 |>
             <| k_op_wakes := 0 |> <| k_op_newly_armed := false |> <| k_op_all_pending := true |>
             <| k_op_up_last_pend := false |> <| k_op_up_polled := false |>
             <| k_pending_item := None |> <| k_pending_err := None |> <| k_dequeued := None |> in
  match o with
  | OBuild t p inits ups =>
      let k := k <| k_type := t |> <| k_par := p |> <| k_inits := map fst inits |> <| k_built := true |>
                 <| k_ups := ups |> in
      let with_inits := match t with
                        | TMB | TJA | TTJA => true
                        | TFUB | TFU | TMU | TFOB | TFO => p_iter p
                        | _ => false end in
      if with_inits then fold_left (fun k cs => accept k (fst cs) (snd cs) false) inits k else k
  | ODropColl => k <| k_dropped := true |>
  | OPoll w _ => k <| k_last_waker := Some w |> <| k_twake_since := false |> <| k_last_pending := false |>
  | OEnv a => perform None k a
  | OCleanup => k <| k_handles ::= map (fun _ => None) |>
  | _ => k
  end.

Definition final_of (k : trk) (c : N) : option res :=
  match find (fun p => N.eqb (fst p) c) (k_final k) with Some p => Some (snd p) | None => None end.

Definition inj_of (o : op) (p : ipoint) (n : nat) : list act :=
  match o with OPoll _ i => find_inj p n (inj_pts i) | _ => [] end.

Definition poll_waker (o : op) : option mhandle :=
  match o with OPoll w _ => Some (MT w) | _ => None end.

Definition is_final_res (r : res) : bool := match r with RR | RX | RE => true | _ => false end.

(** the effect of one event on the tracker; [o] is the op it belongs to *)
Definition trk_event (k : trk) (o : op) (e : event) : trk :=
  match e with
  | EBlkAlloc _ _ => k <| k_nblocks ::= S |>
  | EBlkFree b => k <| k_freed ::= cons b |>
  | ECPoll c b s _ =>
      let deq := match k_dequeued k with Some c' => N.eqb c c' | None => false end in
      let k := k <| k_op_polls ::= S |> <| k_polls_total ::= S |>
                 <| k_op_blk ::= fun l => (b, S (option_default 0 (lookup_nat b l))) :: filter (fun e => negb (Nat.eqb (fst e) b)) l |>
                 <| k_occ ::= fun l => (b, s, c) :: filter (fun e => negb (Nat.eqb (fst (fst e)) b && Nat.eqb (snd (fst e)) s)) l |> in
      let k := if deq then k <| k_dequeued := None |>
               else if is_armed k c then k <| k_armed ::= dropN c |>
               else k <| k_slot_credit ::= filter (fun e => negb (Nat.eqb (fst e) b && Nat.eqb (snd e) s)) |> in
      match final_of k c, lookupN c (k_scripts k) with
      | None, Some ((acts, _) :: rest) =>
          perform_all (Some (MC b s)) (k <| k_scripts ::= fun l => (c, rest) :: dropN c l |>) acts
      | _, _ => k
      end
  | ECAns c r =>
      match r with
      | RP => k
      | RI =>
          let n := length (filter (fun t => match t with TItem c' _ => N.eqb c c' | _ => false end) (k_produced k)) in
          let t := TItem c n in
          (arm_child k c) <| k_produced ::= fun l => l ++ [t] |> <| k_pending_item := Some t |>
                          <| k_items_total ::= S |> <| k_op_all_pending := false |>
      | _ =>
          let prod := match r with
                      | RR => if is_fec (k_type k) then [] else [TOut c]
                      | RX => [TErr c]
                      | _ => [] end in
          k <| k_running ::= removeN c |> <| k_final ::= fun l => l ++ [(c, r)] |>
            <| k_held ::= fun l => if is_merge (k_type k) || is_fec (k_type k) then removeN c l else l |>
            <| k_produced ::= fun l => l ++ prod |> <| k_op_finals ::= S |> <| k_op_all_pending := false |>
            <| k_fin_undropped ::= cons c |> <| k_armed ::= dropN c |>
            <| k_occ ::= filter (fun e => negb (N.eqb (snd e) c)) |>
      end
  | ECDrop c _ =>
      k <| k_cdrops ::= fun l => l ++ [c] |> <| k_occ ::= filter (fun e => negb (N.eqb (snd e) c)) |>
        <| k_fin_undropped ::= removeN c |>
        <| k_armed ::= dropN c |> <| k_scripts ::= dropN c |>
  | EODrop t _ => k <| k_odrops ::= fun l => l ++ [t] |>
  | ERefused c => k <| k_refused ::= fun l => l ++ [c] |>
  | ETWake w _ =>
      k <| k_op_twakes ::= S |>
        <| k_twake_since := k_twake_since k || match k_last_waker k with Some w' => Nat.eqb w w' | None => false end |>
  | EInj p n sl =>
      (* a pop that returned a slot has cleared its queued flag: a wake injected at its exit re-arms it *)
      let k := match p, sl with
               | IExit, Some (b, s) =>
                   match occupant k b s with
                   | Some c => k <| k_armed ::= dropN c |> <| k_dequeued := Some c |>
                   | None => k
                   end
               | _, _ => k
               end in
      perform_all None k (inj_of o p n)
  | EAlloc n => match o with OBuild _ _ _ _ => k | _ => k <| k_allocs_after ::= Nat.add n |> end
  | EUpPoll a =>
      let k := k <| k_op_up_polled := true |> <| k_op_up_last_pend := false |> in
      let rest := match k_ups k with [] => [] | _ :: t => t end in
      match a with
      | UAItem c =>
          let s := match k_ups k with UItem s :: _ => s | _ => [] end in
          (accept k c s false) <| k_pulled ::= S |> <| k_op_pulled ::= S |> <| k_ups := rest |> <| k_op_all_pending := false |>
      | UAPend =>
          let acts := match k_ups k with UPend a :: _ => a | _ => [] end in
          perform_all (poll_waker o) (k <| k_op_up_last_pend := true |> <| k_ups := rest |>) acts
      | UAEnd => k <| k_up_ended := true |> <| k_ups := rest |> <| k_op_all_pending := false |>
      | UAErr t => k <| k_produced ::= fun l => l ++ [t] |> <| k_pending_err := Some t |> <| k_ups := rest |>
                     <| k_op_all_pending := false |>
      | UAAfterEnd => k
      end
  | ERet r =>
      let k :=
        match o, r with
        | OPush c s, RetOk | OTryPush c s, RetOk => accept k c s false
        | OPushF c s, RetOk | OTryPushF c s, RetOk => accept k c s true
        | _, _ => k
        end in
      let toks := match r with
                  | RetItem t | RetErr t => [t]
                  | RetReady l | RetOkv l => l
                  | _ => [] end in
      let cs := flat_map (fun t => match t with TOut c | TErr c => [c] | _ => [] end) toks in
      let k := k <| k_held ::= fun h => fold_left (fun h c => removeN c h) cs h |>
                 <| k_deque ::= fun h => fold_left (fun h c => removeN c h) cs h |>
                 <| k_yielded ::= fun l => l ++ toks |>
                 <| k_pending_item := None |> <| k_pending_err := None |> in
      match o with
      | OPoll _ _ =>
          let pend := match r with RetPending => true | _ => false end in
          let progress := negb (op_has_inc o) && (pend || negb (Nat.eqb (k_op_polls k) 0)) in
          k <| k_last_pending := pend |> <| k_pollno ::= fun n => if progress then S n else n |>
      | _ => k
      end
  | _ => k
  end.

(** generic fold: [chk k o e] sees the tracker state *before* the event;
    [chk_end k o evs] after the last event of each op; [chk_fin k] at the end of the trace *)
Section Fold.
Variable chk : trk -> op -> event -> bool.
Variable chk_end : trk -> op -> list event -> bool.
Variable chk_fin : trk -> bool.

Fixpoint mon_events (k : trk) (o : op) (evs : list event) : bool * trk :=
  match evs with
  | [] => (true, k)
  | e :: rest =>
      if chk k o e then mon_events (trk_event k o e) o rest
      else (false, k)
  end.

Definition is_quiet_poll (k : trk) (o : op) (evs : list event) : bool :=
  match o with
  | OPoll _ _ => negb (op_has_inj o) && Nat.eqb (k_op_wakes k) 0 && k_op_all_pending k
                 && existsb (fun e => match e with ERet RetPending => true | _ => false end) evs
  | _ => false
  end.

Definition trk_end (k : trk) (o : op) (evs : list event) : trk :=
  match o with
  | OObs | OMove => k
  | _ => if is_quiet_poll k o evs then k <| k_quiet_run ::= S |> else k <| k_quiet_run := 0 |>
  end.

Fixpoint mon_trace (k : trk) (t : trace) : bool :=
  match t with
  | [] => chk_fin k
  | (o, evs) :: rest =>
      let k := trk_begin k o in
      let '(ok, k) := mon_events k o evs in
      ok && chk_end k o evs && mon_trace (trk_end k o evs) rest
  end.
End Fold.

Definition no_chk (k : trk) (o : op) (e : event) := true.
Definition no_end (k : trk) (o : op) (evs : list event) := true.
Definition no_fin (k : trk) := true.

Definition has_ret (r : retv -> bool) (evs : list event) : bool :=
  existsb (fun e => match e with ERet x => r x | _ => false end) evs.
Definition is_ret_pending (r : retv) := match r with RetPending => true | _ => false end.

(** capacity of the bounded collections as seen from the history *)
Definition bound_of (k : trk) : option nat :=
  match k_type k with
  | TFUB | TFOB => Some (if p_iter (k_par k) then length (k_inits k) else p_cap (k_par k))
  | TMB => Some (length (k_inits k))
  | _ => None
  end.

Definition model_only_bad (e : event) : bool :=
  match e with EStuck | EOutOfFuel | EVtBad => true | _ => false end.

(** ** C01: no lost wake-ups (sequential clauses i and ii, incl. the hook-point windows) *)
(** [k_armed] only ever holds running children (a final answer disarms) *)
Definition held_armed (k : trk) : bool := negb (Nat.eqb (length (k_armed k)) 0).

Definition chk_C01_ev (k : trk) (o : op) (e : event) : bool :=
  match e, o with
  | ERet RetPending, OPoll _ _ =>
      (* a child needing a poll is left un-polled only if this poll's task waker was invoked *)
      if held_armed k then k_twake_since k else true
  | _, _ => negb (model_only_bad e)
  end.
Definition chk_C01_end (k : trk) (o : op) (evs : list event) : bool :=
  match o with
  | OEnv _ => if k_op_newly_armed k && k_last_pending k && negb (k_dropped k) then k_twake_since k else true
  | _ => true
  end.
Definition chk_C01 (t : trace) : bool := mon_trace chk_C01_ev chk_C01_end no_fin trk_init t.

(** ** C02: every accepted future yielded exactly once; None iff empty *)
Definition chk_C02_ev (k : trk) (o : op) (e : event) : bool :=
  if negb (is_stream_coll (k_type k)) then true else
  match e with
  | ERet (RetItem (TOut c)) =>
      memN c (k_held k) && negb (memT (TOut c) (k_yielded k))
      && match final_of k c with Some RR => true | _ => false end
  | ERet (RetItem _) => false
  | ERet RetNone => Nat.eqb (length (k_held k)) 0
  | ERet RetPending => negb (Nat.eqb (length (k_held k)) 0)
  | _ => negb (model_only_bad e)
  end.
Definition chk_C02 (t : trace) : bool := mon_trace chk_C02_ev no_end no_fin trk_init t.

(** ** C03 (trace side): no vtable access to a released block, no leak of a block *)
(** a block is released at most once, never while a live cloned waker still points to it, and
    (for the types with a single block) never before the collection itself is dropped *)
Definition handle_points_to (b : nat) (h : option mhandle) : bool :=
  match h with Some (MC b' _) => Nat.eqb b b' | _ => false end.

Definition chk_C03_ev (k : trk) (o : op) (e : event) : bool :=
  match e with
  | EVtBad => false
  | EBlkFree b =>
      negb (existsb (Nat.eqb b) (k_freed k))
      && negb (existsb (handle_points_to b) (k_handles k))
      && (is_unbounded (k_type k) || k_dropped k || negb (k_built k))
  | _ => true
  end.
Definition chk_C03 (t : trace) : bool := mon_trace chk_C03_ev no_end no_fin trk_init t.

(** ** C04: ordered types yield in queue order; join results are in input order *)
Definition chk_C04_ev (k : trk) (o : op) (e : event) : bool :=
  let t := k_type k in
  match e with
  | ERet (RetItem (TOut c)) | ERet (RetItem (TErr c)) =>
      if is_ordered t then match k_deque k with c' :: _ => N.eqb c c' | [] => false end else true
  | ERet RetNone =>
      (* an ordered queue that still holds futures must release its front sooner or later: None
         with a non-empty deque means the front can never come out any more *)
      if is_ordered t && negb (is_adapter t) then Nat.eqb (length (k_deque k)) 0 else true
  | ERet (RetReady l) | ERet (RetOkv l) =>
      if is_join t then
        match l with
        | [] => true     (* an empty Vec (polled again after completion) carries no element *)
        | _ => if list_eq_dec N.eq_dec (flat_map (fun x => match x with TOut c => [c] | _ => [0%N] end) l) (k_inits k)
               then true else false
        end
      else true
  | _ => true
  end.
Definition chk_C04 (t : trace) : bool := mon_trace chk_C04_ev no_end no_fin trk_init t.

(** ** C05: a finished child is never polled again and is dropped before its result is returned *)
Definition chk_C05_ev (k : trk) (o : op) (e : event) : bool :=
  match e with
  | ECPoll c _ _ _ => match final_of k c with Some _ => false | None => true end
  | ERet _ => Nat.eqb (length (k_fin_undropped k)) 0
  | _ => true
  end.
Definition chk_C05 (t : trace) : bool := mon_trace chk_C05_ev no_end no_fin trk_init t.

(** ** C06: everything dropped exactly once, nothing leaks (complete histories end with
       dropcoll and cleanup) *)
Definition chk_C06_ev (k : trk) (o : op) (e : event) : bool :=
  match e with
  | ECDrop c _ => negb (memN c (k_cdrops k))
  | EODrop t inside =>
      negb (memT t (k_odrops k)) && memT t (k_produced k)
      && (if inside then negb (memT t (k_yielded k)) else memT t (k_yielded k))
  | ELeak => false
  | _ => true
  end.
Definition chk_C06_fin (k : trk) : bool :=
  if k_dropped k then
    forallb (fun c => Nat.eqb (countN c (k_cdrops k)) 1) (k_accepted k)
    && forallb (fun c => Nat.eqb (countN c (k_cdrops k)) 1) (k_refused k)
    && forallb (fun t => Nat.eqb (countT t (k_odrops k)) 1) (k_produced k)
  else true.
Definition chk_C06 (t : trace) : bool := mon_trace chk_C06_ev no_end chk_C06_fin trk_init t.

(** ** C07: join_all / try_join_all never hand out a value no input produced *)
Definition chk_C07_ev (k : trk) (o : op) (e : event) : bool :=
  if negb (is_join (k_type k)) then true else
  let all_ok := forallb (fun c => match final_of k c with Some RR => true | _ => false end) (k_inits k) in
  let first_err := match find (fun p => res_eqb (snd p) RX) (k_final k) with Some p => Some (fst p) | None => None end in
  match e with
  | ERet (RetReady l) | ERet (RetOkv l) =>
      match l with
      | [] => Nat.eqb (length (k_inits k)) 0 || negb (Nat.eqb (length (k_yielded k)) 0)
              || match first_err with Some _ => true | None => false end
      | _ => all_ok
             && forallb (fun t => memT t (k_produced k) && negb (memT t (k_yielded k))) l
             && Nat.eqb (length l) (length (k_inits k))
      end
  | ERet (RetErr t) =>
      match first_err, t with
      | Some c, TErr c' => N.eqb c c' && negb (memT t (k_yielded k))
      | _, _ => false
      end
  | _ => negb (model_only_bad e)
  end.
Definition chk_C07 (t : trace) : bool := mon_trace chk_C07_ev no_end no_fin trk_init t.

(** ** C08: pinned children never move *)
Definition addr_eqb (a b : addr) : bool := Nat.eqb (fst a) (fst b) && Nat.eqb (snd a) (snd b).

Fixpoint chk_C08_evs (seen : list (N * addr)) (evs : list event) : bool * list (N * addr) :=
  match evs with
  | [] => (true, seen)
  | e :: rest =>
      let step c a :=
        match lookupN c seen with
        | Some a' => if addr_eqb a a' then chk_C08_evs seen rest else (false, seen)
        | None => chk_C08_evs ((c, a) :: seen) rest
        end in
      match e with
      | ECPoll c _ _ a => step c a
      | ECDrop c (Some a) => step c a
      | EVtBad => (false, seen)       (* the harness saw a pinned object (the upstream of an adapter) at a second address *)
      | _ => chk_C08_evs seen rest
      end
  end.

Fixpoint chk_C08_tr (seen : list (N * addr)) (t : trace) : bool :=
  match t with
  | [] => true
  | (_, evs) :: rest => let '(ok, seen) := chk_C08_evs seen evs in ok && chk_C08_tr seen rest
  end.
Definition chk_C08 (t : trace) : bool := chk_C08_tr [] t.

(** ** C09: concurrency limit respected and kept saturated (n >= 1) *)
Definition chk_C09_ev (k : trk) (o : op) (e : event) : bool :=
  if negb (is_adapter (k_type k)) then true else
  let n := p_cap (k_par k) in
  if Nat.eqb n 0 then true else
  match e with
  | EUpPoll (UAItem _) => Nat.ltb (length (k_running k)) n
  | ERet RetPending =>
      Nat.leb n (length (k_held k)) || k_up_ended k || k_op_up_last_pend k
  | _ => negb (model_only_bad e)
  end.
Definition chk_C09 (t : trace) : bool := mon_trace chk_C09_ev no_end no_fin trk_init t.

(** ** C10: upstream consumed once, in order, fused; termination exact *)
Definition chk_C10_ev (k : trk) (o : op) (e : event) : bool :=
  if negb (is_adapter (k_type k)) then true else
  let idle := k_up_ended k && Nat.eqb (length (k_held k)) 0 in
  let defined := negb (Nat.eqb (p_cap (k_par k)) 0) || is_fec (k_type k) in
  match e with
  | EUpPoll a =>
      (* an upstream error leaves the adapter before upstream is asked again: otherwise a second
         error in the same call would overwrite the first *)
      match k_pending_err k with Some _ => false | None => true end
      && match a with
         | UAAfterEnd => false
         | UAItem c => N.eqb c (N.of_nat (S (k_pulled k)))
         | _ => true
         end
  | ERet r =>
      match k_pending_err k with
      | Some t => match r with RetItem t' => tok_eqb t t' | _ => false end
      | None =>
          match r with
          | RetNone | RetDone => idle
          | RetPending => negb defined || negb idle
          | RetItem (TUp _) => false
          | _ => true
          end
      end
  | _ => true
  end.
(** limit 0 is documented as "no limit" for for_each_concurrent: a Pending poll must at
    least have polled the upstream *)
Definition chk_C10_end (k : trk) (o : op) (evs : list event) : bool :=
  match k_type k, o with
  | TFEC, OPoll _ _ =>
      if Nat.eqb (p_cap (k_par k)) 0 && negb (k_up_ended k) && negb (k_dropped k)
      then k_op_up_polled k || negb (has_ret is_ret_pending evs)
      else true
  | _, _ => true
  end.
Definition chk_C10 (t : trace) : bool := mon_trace chk_C10_ev chk_C10_end no_fin trk_init t.

(** ** C11: merge = union of the sources, per-source order; None iff all ended *)
Definition chk_C11_ev (k : trk) (o : op) (e : event) : bool :=
  if negb (is_merge (k_type k)) then true else
  match e with
  | ECAns c RI => match k_pending_item k with None => true | Some _ => false end
  | ERet r =>
      match k_pending_item k with
      | Some t => match r with RetItem t' => tok_eqb t t' | _ => false end
      | None =>
          match r with
          | RetItem _ => match o with OPoll _ _ => false | _ => true end
          | RetNone => Nat.eqb (length (k_running k)) 0
          | RetPending => negb (Nat.eqb (length (k_running k)) 0)
          | _ => true
          end
      end
  | _ => negb (model_only_bad e)
  end.
Definition chk_C11 (t : trace) : bool := mon_trace chk_C11_ev no_end no_fin trk_init t.

(** ** C12: children are polled only on notification *)
Definition chk_C12_ev (k : trk) (o : op) (e : event) : bool :=
  match e with
  | ECPoll c b s _ =>
      is_armed k c
      || match k_dequeued k with Some c' => N.eqb c c' | None => false end
      || existsb (fun e => Nat.eqb (fst e) b && Nat.eqb (snd e) s) (k_slot_credit k)
  | _ => true
  end.
(** summed form: child polls <= accepted pushes + child-waker invocations + merge items *)
Definition chk_C12_fin (k : trk) : bool :=
  Nat.leb (k_polls_total k) (length (k_accepted k) + k_wakes k + k_items_total k).
Definition chk_C12 (t : trace) : bool := mon_trace chk_C12_ev no_end chk_C12_fin trk_init t.

(** ** C13: bounded work per poll (a) and no starvation (b).  [B] is the calibrated budget. *)
Section Budget.
Variable B : nat.

(** how many collection polls a woken child may have to wait: linear in the held population *)
Definition starve_bound (k : trk) : nat :=
  (k_max_held k + k_stale_wakes k + 2) * (if is_unbounded (k_type k) then S (k_nblocks k) else 1).

Definition chk_C13_ev (k : trk) (o : op) (e : event) : bool :=
  match e with
  | ECPoll c _ _ _ =>
      match lookupN c (k_armed k) with
      | Some since => Nat.leb (k_pollno k - since) (starve_bound k)
      | None => true
      end
  | ERet RetRunaway => false    (* the call did not return within the harness's budget of child / source / upstream polls *)
  | _ => true
  end.
Definition chk_C13_end (k : trk) (o : op) (evs : list event) : bool :=
  match o with
  | OPoll _ _ =>
      (* per group (waker block): at most B child polls per visit; a visit ends with an item, a finished
         child or a pulled future, so B * (1 + finals + pulled) bounds the polls of one group in one call *)
      forallb (fun e => Nat.leb (snd e) (B * (1 + k_op_finals k + k_op_pulled k))) (k_op_blk k)
      && (if has_ret is_ret_pending evs && existsb (fun e => Nat.leb B (snd e)) (k_op_blk k)
             && Nat.eqb (k_op_finals k + k_op_pulled k) 0
          then negb (Nat.eqb (k_op_twakes k) 0) else true)
      (* nobody held and woken is left waiting beyond the bound *)
      && (let bound := starve_bound k in
          let now := k_pollno k in
          forallb (fun p => Nat.leb (now - snd p) bound) (k_armed k))
  | _ => Nat.eqb (k_op_polls k) 0
  end.
Definition chk_C13 (t : trace) : bool := mon_trace chk_C13_ev chk_C13_end no_fin trk_init t.

(** ** C14: no busy-spinning *)
Definition chk_C14_ev (k : trk) (o : op) (e : event) : bool :=
  match e, o with
  | ETWake _ CCrate, OPoll _ _ => true
  | ETWake _ CCrate, _ => false                 (* outside polls only through a child waker *)
  | ETWake _ CChild, OPoll _ _ =>
      (* inside a poll the task is notified only if some child waker was invoked in it *)
      negb (Nat.eqb (k_op_wakes k) 0) || op_has_inj o
      || existsb (fun s => match s with UPend (_ :: _) => true | _ => false end) (firstn 1 (k_ups k))
      || k_op_up_polled k
  | _, _ => true
  end.
(** after (held + 2) quiet polls in a row the task must not be woken any more *)
Definition chk_C14_end (k : trk) (o : op) (evs : list event) : bool :=
  if is_quiet_poll k o evs && Nat.leb (length (k_running k) + 1) (k_quiet_run k)
  then Nat.eqb (k_op_twakes k) 0 else true.
Definition chk_C14 (t : trace) : bool := mon_trace chk_C14_ev chk_C14_end no_fin trk_init t.

(** the class of the open finding F9: at least [B] wake-ups of vacant slots *)
Definition known_C14_fin (k : trk) : bool := Nat.leb B (k_stale_wakes k).
End Budget.

(** ** C15: capacity and observer contract *)
Definition opt_eqb {A} (eqb : A -> A -> bool) (a : option A) (b : A) : bool :=
  match a with Some x => eqb x b | None => true end.

Definition chk_C15_ev (k : trk) (o : op) (e : event) : bool :=
  let t := k_type k in
  let nrun := length (k_running k) in
  let full := match bound_of k with Some n => Nat.leb n nrun | None => false end in
  match e with
  | ERet RetPanic =>
      match o with
      | OBuild _ _ _ _ => false
      | OPush _ _ | OPushF _ _ => full
      | _ => true
      end
  | ERet RetOk =>
      match o with
      | OPush _ _ | OPushF _ _ | OTryPush _ _ | OTryPushF _ _ => negb full
      | _ => true
      end
  | ERefused c =>
      match o with
      | OTryPush c' _ | OTryPushF c' _ => full && N.eqb c c'
      | _ => false
      end
  | EObs ob =>
      if is_adapter t || is_join t then true else
      let n := if is_merge t then nrun else length (k_held k) in
      opt_eqb Nat.eqb (ob_len ob) n
      && opt_eqb Bool.eqb (ob_empty ob) (Nat.eqb n 0)
      && opt_eqb Bool.eqb (ob_term ob) (Nat.eqb n 0)
      && (if is_merge t then true
          else opt_eqb (fun a b => N.eqb (fst a) (fst b) && match snd a with Some h => N.eqb h (fst b) | None => false end)
                       (ob_hint ob) (N.of_nat n, Some (N.of_nat n)))
      && match t, bound_of k with
         | TFUB, Some c => opt_eqb Nat.eqb (ob_cap ob) c && Nat.leb nrun c
         | _, _ => true
         end
  | _ => true
  end.
Definition chk_C15 (t : trace) : bool := mon_trace chk_C15_ev no_end no_fin trk_init t.

(** ** C16: ordered buffering: at most n items pulled but not yielded *)
Definition chk_C16_ev (k : trk) (o : op) (e : event) : bool :=
  match k_type k with
  | TBO | TTBO =>
      let n := p_cap (k_par k) in
      if Nat.eqb n 0 then true else
      match e with
      | EUpPoll (UAItem _) => Nat.ltb (length (k_held k)) n
      | _ => true
      end
  | _ => true
  end.
Definition chk_C16 (t : trace) : bool := mon_trace chk_C16_ev no_end no_fin trk_init t.

(** ** C17: size_hint brackets what will still be yielded *)
Definition up_remaining_m (k : trk) : nat :=
  if k_up_ended k then 0 else
  length (filter (fun s => match s with UItem _ => true | UErr => is_try (k_type k) | _ => false end) (k_ups k)).

(** items a merged source will still yield: the item letters of its remaining script before its end *)
Fixpoint items_left_src (sc : script) : nat :=
  match sc with
  | [] => 0
  | (_, r) :: rest =>
      match r with
      | RI => S (items_left_src rest)
      | RE => 0
      | _ => items_left_src rest      (* a source answers Pending for every other letter *)
      end
  end.

Definition merge_items_left (k : trk) : nat :=
  list_sum (map (fun c => match lookupN c (k_scripts k) with Some sc => items_left_src sc | None => 0 end) (k_held k)).

Definition chk_C17_ev (k : trk) (o : op) (e : event) : bool :=
  match e with
  | EObs ob =>
      match ob_hint ob with
      | None => true
      | Some (lo, hi) =>
          let t := k_type k in
          let remaining :=
            if is_adapter t then up_remaining_m k + length (k_held k)
            else if is_merge t then merge_items_left k   (* the code reports (0, None) *)
            else length (k_held k) in
          N.leb lo (N.of_nat remaining)
          && match hi with Some h => N.leb (N.of_nat remaining) h | None => true end
      end
  | _ => true
  end.
Definition chk_C17 (t : trace) : bool := mon_trace chk_C17_ev no_end no_fin trk_init t.

(** ** C18: allocation discipline *)
Definition no_alloc_type (t : ctype) : bool :=
  match t with TFUB | TMB | TBU | TTBU | TFEC | TJA | TTJA => true | _ => false end.

Fixpoint log2_up_nat (fuel n : nat) : nat :=
  match fuel with
  | O => 0
  | S f => if Nat.leb n 1 then 0 else S (log2_up_nat f (Nat.div2 (S n)))
  end.

(** allocations after construction allowed for a peak population of [peak] children:
    per group 2 (slots + waker block) + the Vec of groups and, for FuturesOrdered, the heap,
    each growing by doubling *)
(** the bound of C18_allocations_logarithmic_in_peak (3 per group created, at most log2 peak + 2
    creations, + 3) and, for FuturesOrdered, of ..._ordered (the heap: one more per doubling + 1) *)
Definition alloc_bound (ordered : bool) (peak : nat) : nat :=
  let l := log2_up_nat (S peak) (S peak) in
  3 * (l + 2) + 3 + (if ordered then l + 1 else 0).

Definition chk_C18_fin (k : trk) : bool :=
  if no_alloc_type (k_type k) then Nat.eqb (k_allocs_after k) 0
  else if is_unbounded (k_type k)
       then Nat.leb (k_allocs_after k) (alloc_bound (match k_type k with TFO => true | _ => false end) (k_max_held k))
  else true.
Definition chk_C18 (t : trace) : bool := mon_trace no_chk no_end chk_C18_fin trk_init t.

(** ** all monitors in one pass over the trace (same verdicts as the individual [chk_Cxx]) *)
Record mon := { m_ev : trk -> op -> event -> bool; m_end : trk -> op -> list event -> bool; m_fin : trk -> bool }.

Fixpoint all_events (ms : list mon) (oks : list bool) (k : trk) (o : op) (evs : list event) : list bool * trk :=
  match evs with
  | [] => (oks, k)
  | e :: rest =>
      let oks := map (fun p => snd p && m_ev (fst p) k o e) (combine ms oks) in
      all_events ms oks (trk_event k o e) o rest
  end.

Fixpoint all_trace (ms : list mon) (oks : list bool) (k : trk) (t : trace) : list bool :=
  match t with
  | [] => map (fun p => snd p && m_fin (fst p) k) (combine ms oks)
  | (o, evs) :: rest =>
      let k := trk_begin k o in
      let '(oks, k) := all_events ms oks k o evs in
      let oks := map (fun p => snd p && m_end (fst p) k o evs) (combine ms oks) in
      all_trace ms oks (trk_end k o evs) rest
  end.

Definition monitors (B : nat) : list mon :=
  [ {| m_ev := chk_C01_ev; m_end := chk_C01_end; m_fin := no_fin |};
    {| m_ev := chk_C02_ev; m_end := no_end; m_fin := no_fin |};
    {| m_ev := chk_C03_ev; m_end := no_end; m_fin := no_fin |};
    {| m_ev := chk_C04_ev; m_end := no_end; m_fin := no_fin |};
    {| m_ev := chk_C05_ev; m_end := no_end; m_fin := no_fin |};
    {| m_ev := chk_C06_ev; m_end := no_end; m_fin := chk_C06_fin |};
    {| m_ev := chk_C07_ev; m_end := no_end; m_fin := no_fin |};
    {| m_ev := no_chk; m_end := no_end; m_fin := no_fin |};           (* C08 has its own fold *)
    {| m_ev := chk_C09_ev; m_end := no_end; m_fin := no_fin |};
    {| m_ev := chk_C10_ev; m_end := chk_C10_end; m_fin := no_fin |};
    {| m_ev := chk_C11_ev; m_end := no_end; m_fin := no_fin |};
    {| m_ev := chk_C12_ev; m_end := no_end; m_fin := chk_C12_fin |};
    {| m_ev := chk_C13_ev; m_end := chk_C13_end B; m_fin := no_fin |};
    {| m_ev := chk_C14_ev; m_end := chk_C14_end; m_fin := no_fin |};
    {| m_ev := chk_C15_ev; m_end := no_end; m_fin := no_fin |};
    {| m_ev := chk_C16_ev; m_end := no_end; m_fin := no_fin |};
    {| m_ev := chk_C17_ev; m_end := no_end; m_fin := no_fin |};
    {| m_ev := no_chk; m_end := no_end; m_fin := chk_C18_fin |};
    {| m_ev := no_chk; m_end := no_end; m_fin := known_C14_fin B |} ].

Definition chk_all (B : nat) (t : trace) : list bool :=
  let r := all_trace (monitors B) (map (fun _ => true) (monitors B)) trk_init t in
  upd r 7 (chk_C08 t).
