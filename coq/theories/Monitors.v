(** * Monitors: the properties as decidable checks over (history, trace)

    The same definitions are (a) what the theorems of [Properties/] talk about on the
    model's traces and (b) extracted and evaluated on the traces of the real crate.

    A trace is the list of per-operation event lists, aligned with the history's ops. *)
From FB Require Import Base Syntax.

Definition trace := list (op * list event).

(** ** small utilities *)
Definition memN (x : N) (l : list N) : bool := existsb (N.eqb x) l.
Fixpoint removeN (x : N) (l : list N) : list N :=
  match l with
  | [] => []
  | y :: t => if N.eqb x y then t else y :: removeN x t
  end.

Definition res_eqb (a b : res) : bool :=
  match a, b with
  | RP, RP | RR, RR | RX, RX | RI, RI | RE, RE => true
  | _, _ => false
  end.

Definition tok_eqb (a b : tok) : bool :=
  match a, b with
  | TOut x, TOut y | TErr x, TErr y => N.eqb x y
  | TItem x i, TItem y j => N.eqb x y && Nat.eqb i j
  | TUp i, TUp j => Nat.eqb i j
  | TGarbage, TGarbage => true
  | _, _ => false
  end.

Definition memT (x : tok) (l : list tok) : bool := existsb (tok_eqb x) l.
Fixpoint removeT (x : tok) (l : list tok) : list tok :=
  match l with
  | [] => []
  | y :: t => if tok_eqb x y then t else y :: removeT x t
  end.
Definition countT (x : tok) (l : list tok) : nat := length (filter (tok_eqb x) l).
Definition countN (x : N) (l : list N) : nat := length (filter (N.eqb x) l).

Definition tok_child (t : tok) : option N :=
  match t with TOut c | TErr c | TItem c _ => Some c | _ => None end.

Definition is_bounded (t : ctype) : bool :=
  match t with TFUB | TMB | TFOB => true | _ => false end.
Definition is_merge (t : ctype) : bool :=
  match t with TMB | TMU => true | _ => false end.
Definition is_ordered (t : ctype) : bool :=
  match t with TFOB | TFO | TBO | TTBO => true | _ => false end.
Definition is_adapter (t : ctype) : bool :=
  match t with TBU | TBO | TTBU | TTBO | TFEC => true | _ => false end.
Definition is_join (t : ctype) : bool :=
  match t with TJA | TTJA => true | _ => false end.
Definition is_stream_coll (t : ctype) : bool :=
  match t with TFUB | TFU | TFOB | TFO => true | _ => false end.
Definition is_try (t : ctype) : bool :=
  match t with TTBU | TTBO | TTJA => true | _ => false end.

(** ** the tracker: what an observer of the trace knows *)
Record trk := {
  k_type : ctype;
  k_par : cparams;
  k_inits : list N;
  k_built : bool;
  k_dropped : bool;              (* dropcoll happened *)
  k_accepted : list N;           (* accepted children, acceptance order *)
  k_running : list N;            (* accepted, no final answer yet *)
  k_final : list (N * res);      (* final answers given *)
  k_held : list N;               (* accepted, output not yet yielded (merges: = running) *)
  k_deque : list N;              (* ordered types: abstract queue order of held children *)
  k_yielded : list tok;          (* tokens handed to the caller *)
  k_produced : list tok;         (* tokens produced by children / upstream *)
  k_cdrops : list N;             (* child drop events *)
  k_odrops : list tok;           (* token drop events *)
  k_refused : list N;
  k_pulled : nat;                (* upstream items pulled *)
  k_up_ended : bool;
  k_up_after_end : bool;
  (* per op *)
  k_op_polls : nat;              (* child polls in this op *)
  k_op_finals : nat;             (* children that finished in this op *)
  k_op_pulled : nat;
  k_op_twakes : nat;
  k_op_crate_twakes : nat;
  k_op_up_last_pend : bool;      (* upstream was polled in this op and its last answer was Pending *)
  k_op_up_polled : bool;
  k_pending_item : option tok;   (* merges: an item answered by a source, not yet returned *)
  k_pending_err : option tok;    (* try adapters: an upstream error not yet returned *)
}.

Definition trk_init : trk :=
  {| k_type := TFUB; k_par := {| p_cap := 0; p_new := false; p_iter := false; p_seed := None; p_hlo := 0; p_hhi := None |};
     k_inits := []; k_built := false; k_dropped := false;
     k_accepted := []; k_running := []; k_final := []; k_held := []; k_deque := [];
     k_yielded := []; k_produced := []; k_cdrops := []; k_odrops := []; k_refused := [];
     k_pulled := 0; k_up_ended := false; k_up_after_end := false;
     k_op_polls := 0; k_op_finals := 0; k_op_pulled := 0; k_op_twakes := 0; k_op_crate_twakes := 0;
     k_op_up_last_pend := false; k_op_up_polled := false; k_pending_item := None; k_pending_err := None |}.

(** record-update helpers (only the fields that change are named) *)
Definition k_upd (k : trk)
  (acc run : list N) (fin : list (N * res)) (held deq : list N) (yl pr : list tok) : trk :=
  {| k_type := k_type k; k_par := k_par k; k_inits := k_inits k; k_built := k_built k; k_dropped := k_dropped k;
     k_accepted := acc; k_running := run; k_final := fin; k_held := held; k_deque := deq;
     k_yielded := yl; k_produced := pr; k_cdrops := k_cdrops k; k_odrops := k_odrops k; k_refused := k_refused k;
     k_pulled := k_pulled k; k_up_ended := k_up_ended k; k_up_after_end := k_up_after_end k;
     k_op_polls := k_op_polls k; k_op_finals := k_op_finals k; k_op_pulled := k_op_pulled k;
     k_op_twakes := k_op_twakes k; k_op_crate_twakes := k_op_crate_twakes k;
     k_op_up_last_pend := k_op_up_last_pend k; k_op_up_polled := k_op_up_polled k;
     k_pending_item := k_pending_item k; k_pending_err := k_pending_err k |}.

Definition k_upd_drops (k : trk) (cd : list N) (od : list tok) (rf : list N) : trk :=
  {| k_type := k_type k; k_par := k_par k; k_inits := k_inits k; k_built := k_built k; k_dropped := k_dropped k;
     k_accepted := k_accepted k; k_running := k_running k; k_final := k_final k; k_held := k_held k; k_deque := k_deque k;
     k_yielded := k_yielded k; k_produced := k_produced k; k_cdrops := cd; k_odrops := od; k_refused := rf;
     k_pulled := k_pulled k; k_up_ended := k_up_ended k; k_up_after_end := k_up_after_end k;
     k_op_polls := k_op_polls k; k_op_finals := k_op_finals k; k_op_pulled := k_op_pulled k;
     k_op_twakes := k_op_twakes k; k_op_crate_twakes := k_op_crate_twakes k;
     k_op_up_last_pend := k_op_up_last_pend k; k_op_up_polled := k_op_up_polled k;
     k_pending_item := k_pending_item k; k_pending_err := k_pending_err k |}.

Definition k_upd_up (k : trk) (pulled : nat) (ended after : bool) (op_pulled : nat) (lastpend polled : bool) : trk :=
  {| k_type := k_type k; k_par := k_par k; k_inits := k_inits k; k_built := k_built k; k_dropped := k_dropped k;
     k_accepted := k_accepted k; k_running := k_running k; k_final := k_final k; k_held := k_held k; k_deque := k_deque k;
     k_yielded := k_yielded k; k_produced := k_produced k; k_cdrops := k_cdrops k; k_odrops := k_odrops k; k_refused := k_refused k;
     k_pulled := pulled; k_up_ended := ended; k_up_after_end := after;
     k_op_polls := k_op_polls k; k_op_finals := k_op_finals k; k_op_pulled := op_pulled;
     k_op_twakes := k_op_twakes k; k_op_crate_twakes := k_op_crate_twakes k;
     k_op_up_last_pend := lastpend; k_op_up_polled := polled;
     k_pending_item := k_pending_item k; k_pending_err := k_pending_err k |}.

Definition k_upd_op (k : trk) (polls finals tw ctw : nat) (pi pe : option tok) : trk :=
  {| k_type := k_type k; k_par := k_par k; k_inits := k_inits k; k_built := k_built k; k_dropped := k_dropped k;
     k_accepted := k_accepted k; k_running := k_running k; k_final := k_final k; k_held := k_held k; k_deque := k_deque k;
     k_yielded := k_yielded k; k_produced := k_produced k; k_cdrops := k_cdrops k; k_odrops := k_odrops k; k_refused := k_refused k;
     k_pulled := k_pulled k; k_up_ended := k_up_ended k; k_up_after_end := k_up_after_end k;
     k_op_polls := polls; k_op_finals := finals; k_op_pulled := k_op_pulled k;
     k_op_twakes := tw; k_op_crate_twakes := ctw;
     k_op_up_last_pend := k_op_up_last_pend k; k_op_up_polled := k_op_up_polled k;
     k_pending_item := pi; k_pending_err := pe |}.

Definition k_set_flags (k : trk) (t : ctype) (p : cparams) (ini : list N) (built dropped : bool) : trk :=
  {| k_type := t; k_par := p; k_inits := ini; k_built := built; k_dropped := dropped;
     k_accepted := k_accepted k; k_running := k_running k; k_final := k_final k; k_held := k_held k; k_deque := k_deque k;
     k_yielded := k_yielded k; k_produced := k_produced k; k_cdrops := k_cdrops k; k_odrops := k_odrops k; k_refused := k_refused k;
     k_pulled := k_pulled k; k_up_ended := k_up_ended k; k_up_after_end := k_up_after_end k;
     k_op_polls := k_op_polls k; k_op_finals := k_op_finals k; k_op_pulled := k_op_pulled k;
     k_op_twakes := k_op_twakes k; k_op_crate_twakes := k_op_crate_twakes k;
     k_op_up_last_pend := k_op_up_last_pend k; k_op_up_polled := k_op_up_polled k;
     k_pending_item := k_pending_item k; k_pending_err := k_pending_err k |}.

Definition accept (k : trk) (c : N) (front : bool) : trk :=
  k_upd k (k_accepted k ++ [c]) (k_running k ++ [c]) (k_final k) (k_held k ++ [c])
        (if front then c :: k_deque k else k_deque k ++ [c]) (k_yielded k) (k_produced k).

(** start of an op *)
Definition trk_begin (k : trk) (o : op) : trk :=
  let k := k_upd_op k 0 0 0 0 None None in
  let k := k_upd_up k (k_pulled k) (k_up_ended k) (k_up_after_end k) 0 false false in
  match o with
  | OBuild t p inits _ =>
      let k := k_set_flags k t p (map fst inits) true false in
      let with_inits := match t with
                        | TMB | TJA | TTJA => true
                        | TFUB | TFU | TMU | TFOB | TFO => p_iter p
                        | _ => false end in
      if with_inits then fold_left (fun k c => accept k c false) (map fst inits) k else k
  | ODropColl => k_set_flags k (k_type k) (k_par k) (k_inits k) (k_built k) true
  | _ => k
  end.

Definition final_of (k : trk) (c : N) : option res :=
  match find (fun p => N.eqb (fst p) c) (k_final k) with Some p => Some (snd p) | None => None end.

(** the effect of one event on the tracker; [o] is the op it belongs to *)
Definition trk_event (k : trk) (o : op) (e : event) : trk :=
  match e with
  | ECPoll _ _ _ _ => k_upd_op k (S (k_op_polls k)) (k_op_finals k) (k_op_twakes k) (k_op_crate_twakes k) (k_pending_item k) (k_pending_err k)
  | ECAns c r =>
      match r with
      | RP => k
      | RI =>
          let t := TItem c (countT (TItem c 0) (map (fun t => match t with TItem c' _ => TItem c' 0 | x => x end) (k_produced k))) in
          let k := k_upd k (k_accepted k) (k_running k) (k_final k) (k_held k) (k_deque k) (k_yielded k) (k_produced k ++ [t]) in
          k_upd_op k (k_op_polls k) (k_op_finals k) (k_op_twakes k) (k_op_crate_twakes k) (Some t) (k_pending_err k)
      | _ =>
          let prod := match r with
                      | RR => if match k_type k with TFEC => true | _ => false end then [] else [TOut c]
                      | RX => [TErr c]
                      | _ => [] end in
          let merge := is_merge (k_type k) in
          let k := k_upd k (k_accepted k) (removeN c (k_running k)) (k_final k ++ [(c, r)])
                         (if merge || match k_type k with TFEC => true | _ => false end then removeN c (k_held k) else k_held k)
                         (k_deque k) (k_yielded k) (k_produced k ++ prod) in
          k_upd_op k (k_op_polls k) (S (k_op_finals k)) (k_op_twakes k) (k_op_crate_twakes k) (k_pending_item k) (k_pending_err k)
      end
  | ECDrop c _ => k_upd_drops k (k_cdrops k ++ [c]) (k_odrops k) (k_refused k)
  | EODrop t _ => k_upd_drops k (k_cdrops k) (k_odrops k ++ [t]) (k_refused k)
  | ERefused c => k_upd_drops k (k_cdrops k) (k_odrops k) (k_refused k ++ [c])
  | ETWake _ cz =>
      k_upd_op k (k_op_polls k) (k_op_finals k) (S (k_op_twakes k))
               (match cz with CCrate => S (k_op_crate_twakes k) | CChild => k_op_crate_twakes k end)
               (k_pending_item k) (k_pending_err k)
  | EUpPoll a =>
      match a with
      | UAItem c =>
          let k := accept k c false in
          k_upd_up k (S (k_pulled k)) (k_up_ended k) (k_up_after_end k) (S (k_op_pulled k)) false true
      | UAPend => k_upd_up k (k_pulled k) (k_up_ended k) (k_up_after_end k) (k_op_pulled k) true true
      | UAEnd => k_upd_up k (k_pulled k) true (k_up_after_end k) (k_op_pulled k) false true
      | UAErr t =>
          let k := k_upd k (k_accepted k) (k_running k) (k_final k) (k_held k) (k_deque k) (k_yielded k) (k_produced k ++ [t]) in
          let k := k_upd_op k (k_op_polls k) (k_op_finals k) (k_op_twakes k) (k_op_crate_twakes k) (k_pending_item k) (Some t) in
          k_upd_up k (k_pulled k) (k_up_ended k) (k_up_after_end k) (k_op_pulled k) false true
      | UAAfterEnd => k_upd_up k (k_pulled k) (k_up_ended k) true (k_op_pulled k) false true
      end
  | ERet r =>
      let k :=
        match o, r with
        | OPush c _, RetOk | OTryPush c _, RetOk => accept k c false
        | OPushF c _, RetOk | OTryPushF c _, RetOk => accept k c true
        | _, _ => k
        end in
      let toks := match r with
                  | RetItem t | RetErr t => [t]
                  | RetReady l | RetOkv l => l
                  | _ => [] end in
      let cs := flat_map (fun t => match t with TOut c | TErr c => [c] | _ => [] end) toks in
      let held := fold_left (fun h c => removeN c h) cs (k_held k) in
      let deq := fold_left (fun h c => removeN c h) cs (k_deque k) in
      let k := k_upd k (k_accepted k) (k_running k) (k_final k) held deq (k_yielded k ++ toks) (k_produced k) in
      k_upd_op k (k_op_polls k) (k_op_finals k) (k_op_twakes k) (k_op_crate_twakes k) None None
  | _ => k
  end.

(** generic fold: [chk k o e] is evaluated with the tracker state *before* the event;
    [chk_end k o evs] after the last event of each op; [chk_fin k] at the end of the trace *)
Section Fold.
Variable chk : trk -> op -> event -> bool.
Variable chk_end : trk -> op -> list event -> bool.
Variable chk_fin : trk -> bool.

Fixpoint mon_events (k : trk) (o : op) (evs : list event) : bool * trk :=
  match evs with
  | [] => (true, k)
  | e :: rest =>
      if chk k o e then mon_events (trk_event k o e) o rest
      else (false, k)
  end.

Fixpoint mon_trace (k : trk) (t : trace) : bool :=
  match t with
  | [] => chk_fin k
  | (o, evs) :: rest =>
      let k := trk_begin k o in
      let '(ok, k) := mon_events k o evs in
      ok && chk_end k o evs && mon_trace k rest
  end.
End Fold.

Definition no_chk (k : trk) (o : op) (e : event) := true.
Definition no_end (k : trk) (o : op) (evs : list event) := true.
Definition no_fin (k : trk) := true.

Definition has_ret (r : retv -> bool) (evs : list event) : bool :=
  existsb (fun e => match e with ERet x => r x | _ => false end) evs.
Definition is_ret_panic (r : retv) := match r with RetPanic => true | _ => false end.
Definition is_ret_ok (r : retv) := match r with RetOk => true | _ => false end.
Definition is_ret_refused (r : retv) := match r with RetRefused => true | _ => false end.
Definition is_ret_pending (r : retv) := match r with RetPending => true | _ => false end.
Definition is_ret_none (r : retv) := match r with RetNone => true | _ => false end.

(** capacity of the bounded collections as seen from the history *)
Definition bound_of (k : trk) : option nat :=
  match k_type k with
  | TFUB | TFOB => Some (if p_iter (k_par k) then length (k_inits k) else p_cap (k_par k))
  | TMB => Some (length (k_inits k))
  | _ => None
  end.

(** ** C02: every accepted future yielded exactly once; None iff empty *)
Definition chk_C02_ev (k : trk) (o : op) (e : event) : bool :=
  if negb (is_stream_coll (k_type k)) then true else
  match e with
  | ERet (RetItem (TOut c)) =>
      memN c (k_held k) && negb (memT (TOut c) (k_yielded k))
      && match final_of k c with Some RR => true | _ => false end
  | ERet (RetItem _) => false
  | ERet RetNone => Nat.eqb (length (k_held k)) 0
  | ERet RetPending => negb (Nat.eqb (length (k_held k)) 0)
  | EStuck | EOutOfFuel => false
  | _ => true
  end.
Definition chk_C02 (t : trace) : bool := mon_trace chk_C02_ev no_end no_fin trk_init t.

(** ** C15: capacity and observer contract *)
Definition opt_eqb {A} (eqb : A -> A -> bool) (a : option A) (b : A) : bool :=
  match a with Some x => eqb x b | None => true end.

Definition chk_C15_ev (k : trk) (o : op) (e : event) : bool :=
  let t := k_type k in
  let nrun := length (k_running k) in
  let full := match bound_of k with Some n => Nat.leb n nrun | None => false end in
  match e with
  | ERet RetPanic =>
      match o with
      | OBuild _ _ _ _ => false                  (* constructors succeed for every capacity *)
      | OPush _ _ | OPushF _ _ => full           (* push panics only when full *)
      | _ => true
      end
  | ERet RetOk =>
      match o with
      | OPush _ _ | OPushF _ _ | OTryPush _ _ | OTryPushF _ _ => negb full
      | _ => true
      end
  | ERefused c =>
      match o with
      | OTryPush c' _ | OTryPushF c' _ => full && N.eqb c c'
      | _ => false
      end
  | EObs ob =>
      if is_adapter t || is_join t then true else
      let n := if is_merge t then nrun else length (k_held k) in
      opt_eqb Nat.eqb (ob_len ob) n
      && opt_eqb Bool.eqb (ob_empty ob) (Nat.eqb n 0)
      && opt_eqb Bool.eqb (ob_term ob) (Nat.eqb n 0)
      && (if is_merge t then true
          else opt_eqb (fun a b => Nat.eqb (fst a) (fst b) && match snd a with Some h => Nat.eqb h (fst b) | None => false end)
                       (ob_hint ob) (n, Some n))
      && match t, bound_of k with
         | TFUB, Some c => opt_eqb Nat.eqb (ob_cap ob) c && Nat.leb nrun c
         | _, _ => true
         end
  | _ => true
  end.
Definition chk_C15 (t : trace) : bool := mon_trace chk_C15_ev no_end no_fin trk_init t.

(** ** C04: ordered types yield in queue order; join results are in input order *)
Definition chk_C04_ev (k : trk) (o : op) (e : event) : bool :=
  let t := k_type k in
  match e with
  | ERet (RetItem (TOut c)) | ERet (RetItem (TErr c)) =>
      if is_ordered t then match k_deque k with c' :: _ => N.eqb c c' | [] => false end else true
  | ERet (RetReady l) | ERet (RetOkv l) =>
      if is_join t then
        match l with
        | [] => true     (* an empty Vec (polled again after completion) carries no element *)
        | _ => if list_eq_dec N.eq_dec (flat_map (fun x => match x with TOut c => [c] | _ => [0%N] end) l) (k_inits k)
               then true else false
        end
      else true
  | _ => true
  end.
Definition chk_C04 (t : trace) : bool := mon_trace chk_C04_ev no_end no_fin trk_init t.

(** ** C05: a finished child is never polled again and is dropped before its result is returned *)
Definition chk_C05_ev (k : trk) (o : op) (e : event) : bool :=
  match e with
  | ECPoll c _ _ _ => match final_of k c with Some _ => false | None => true end
  | ERet _ =>
      (* every child that has finished must have been dropped by now *)
      forallb (fun p => memN (fst p) (k_cdrops k)) (k_final k)
  | _ => true
  end.
Definition chk_C05 (t : trace) : bool := mon_trace chk_C05_ev no_end no_fin trk_init t.

(** ** C06: everything dropped exactly once, nothing leaks (evaluated on complete histories:
       ending with dropcoll and cleanup) *)
Definition chk_C06_ev (k : trk) (o : op) (e : event) : bool :=
  match e with
  | ECDrop c _ => negb (memN c (k_cdrops k))
  | EODrop t inside =>
      negb (memT t (k_odrops k)) && memT t (k_produced k)
      && (if inside then negb (memT t (k_yielded k)) else memT t (k_yielded k))
  | ELeak => false
  | _ => true
  end.
Definition chk_C06_fin (k : trk) : bool :=
  if k_dropped k then
    forallb (fun c => Nat.eqb (countN c (k_cdrops k)) 1) (k_accepted k)
    && forallb (fun c => Nat.eqb (countN c (k_cdrops k)) 1) (k_refused k)
    && forallb (fun t => Nat.eqb (countT t (k_odrops k)) 1) (k_produced k)
  else true.
Definition chk_C06 (t : trace) : bool := mon_trace chk_C06_ev no_end chk_C06_fin trk_init t.

(** ** C07: join_all / try_join_all never hand out a value no input produced *)
Definition chk_C07_ev (k : trk) (o : op) (e : event) : bool :=
  if negb (is_join (k_type k)) then true else
  let all_ok := forallb (fun c => match final_of k c with Some RR => true | _ => false end) (k_inits k) in
  let first_err := match find (fun p => res_eqb (snd p) RX) (k_final k) with Some p => Some (fst p) | None => None end in
  match e with
  | ERet (RetReady l) | ERet (RetOkv l) =>
      match l with
      | [] => (* nothing handed out: fine if there are no inputs, or after the first Ready *)
          Nat.eqb (length (k_inits k)) 0 || negb (Nat.eqb (length (k_yielded k)) 0) || match first_err with Some _ => true | None => false end
      | _ => all_ok
             && forallb (fun t => memT t (k_produced k) && negb (memT t (k_yielded k))) l
             && Nat.eqb (length l) (length (k_inits k))
      end
  | ERet (RetErr t) =>
      match first_err, t with
      | Some c, TErr c' => N.eqb c c' && negb (memT t (k_yielded k))
      | _, _ => false
      end
  | EStuck | EOutOfFuel => false
  | _ => true
  end.
Definition chk_C07 (t : trace) : bool := mon_trace chk_C07_ev no_end no_fin trk_init t.

(** ** C08: pinned children never move *)
Definition addr_eqb (a b : addr) : bool := Nat.eqb (fst a) (fst b) && Nat.eqb (snd a) (snd b).

Fixpoint lookupN {A} (c : N) (l : list (N * A)) : option A :=
  match l with
  | [] => None
  | (c', v) :: t => if N.eqb c c' then Some v else lookupN c t
  end.

Fixpoint chk_C08_evs (seen : list (N * addr)) (evs : list event) : bool * list (N * addr) :=
  match evs with
  | [] => (true, seen)
  | e :: rest =>
      let step c a :=
        match lookupN c seen with
        | Some a' => if addr_eqb a a' then chk_C08_evs seen rest else (false, seen)
        | None => chk_C08_evs ((c, a) :: seen) rest
        end in
      match e with
      | ECPoll c _ _ a => step c a
      | ECDrop c (Some a) => step c a
      | _ => chk_C08_evs seen rest
      end
  end.

Fixpoint chk_C08_tr (seen : list (N * addr)) (t : trace) : bool :=
  match t with
  | [] => true
  | (_, evs) :: rest => let '(ok, seen) := chk_C08_evs seen evs in ok && chk_C08_tr seen rest
  end.
Definition chk_C08 (t : trace) : bool := chk_C08_tr [] t.

(** ** C09: concurrency limit respected and kept saturated (n >= 1) *)
Definition chk_C09_ev (k : trk) (o : op) (e : event) : bool :=
  if negb (is_adapter (k_type k)) then true else
  let n := p_cap (k_par k) in
  if Nat.eqb n 0 then true else
  match e with
  | EUpPoll (UAItem _) => Nat.ltb (length (k_running k)) n      (* pulling one more keeps running <= n *)
  | ERet RetPending =>
      Nat.leb n (length (k_held k)) || k_up_ended k || k_op_up_last_pend k
  | EStuck | EOutOfFuel => false
  | _ => true
  end.
Definition chk_C09 (t : trace) : bool := mon_trace chk_C09_ev no_end no_fin trk_init t.

(** ** C10: upstream consumed once, in order, fused; termination exact *)
Definition chk_C10_ev (k : trk) (o : op) (e : event) : bool :=
  if negb (is_adapter (k_type k)) then true else
  let idle := k_up_ended k && Nat.eqb (length (k_held k)) 0 in
  let defined := negb (Nat.eqb (p_cap (k_par k)) 0) || match k_type k with TFEC => true | _ => false end in
  match e with
  | EUpPoll UAAfterEnd => false
  | EUpPoll (UAItem c) => N.eqb c (N.of_nat (S (k_pulled k)))
  | ERet r =>
      match k_pending_err k with
      | Some t => match r with RetItem t' => tok_eqb t t' | _ => false end
      | None =>
          match r with
          | RetNone | RetDone => idle
          | RetPending => negb defined || negb idle
          | RetItem (TUp _) => false
          | _ => true
          end
      end
  | _ => true
  end.
(** a poll of an adapter whose upstream has items left and which has room must make progress:
    with limit 0 documented as "no limit" (for_each_concurrent) the upstream must still be consumed *)
Definition chk_C10_end (k : trk) (o : op) (evs : list event) : bool :=
  match k_type k, o with
  | TFEC, OPoll _ _ =>
      if Nat.eqb (p_cap (k_par k)) 0 && negb (k_up_ended k) && negb (k_dropped k)
      then k_op_up_polled k || negb (has_ret is_ret_pending evs)
      else true
  | _, _ => true
  end.
Definition chk_C10 (t : trace) : bool := mon_trace chk_C10_ev chk_C10_end no_fin trk_init t.

(** ** C11: merge = union of the sources, per-source order; None iff all ended *)
Definition chk_C11_ev (k : trk) (o : op) (e : event) : bool :=
  if negb (is_merge (k_type k)) then true else
  match e with
  | ECAns c RI => match k_pending_item k with None => true | Some _ => false end
  | ERet r =>
      match k_pending_item k with
      | Some t => match r with RetItem t' => tok_eqb t t' | _ => false end
      | None =>
          match r with
          | RetItem _ => match o with OPoll _ _ => false | _ => true end
          | RetNone => Nat.eqb (length (k_running k)) 0
          | RetPending => negb (Nat.eqb (length (k_running k)) 0)
          | _ => true
          end
      end
  | EStuck | EOutOfFuel => false
  | _ => true
  end.
Definition chk_C11 (t : trace) : bool := mon_trace chk_C11_ev no_end no_fin trk_init t.

(** ** C16: ordered buffering: at most n items pulled but not yielded *)
Definition chk_C16_ev (k : trk) (o : op) (e : event) : bool :=
  match k_type k with
  | TBO | TTBO =>
      let n := p_cap (k_par k) in
      if Nat.eqb n 0 then true else
      match e with
      | EUpPoll (UAItem _) => Nat.ltb (length (k_held k)) n
      | _ => true
      end
  | _ => true
  end.
Definition chk_C16 (t : trace) : bool := mon_trace chk_C16_ev no_end no_fin trk_init t.

(** ** C13 (a): bounded work per poll; a poll that stops on its budget has woken its task.
       [B] is the calibrated budget. *)
Section Budget.
Variable B : nat.
Definition chk_C13_end (k : trk) (o : op) (evs : list event) : bool :=
  match o with
  | OPoll _ _ =>
      Nat.leb (k_op_polls k) (B * (1 + k_op_finals k + k_op_pulled k))
      && (if has_ret is_ret_pending evs && Nat.leb B (k_op_polls k) && Nat.eqb (k_op_finals k + k_op_pulled k) 0
          then negb (Nat.eqb (k_op_twakes k) 0) else true)
  | _ => Nat.eqb (k_op_polls k) 0
  end.
Definition chk_C13a (t : trace) : bool := mon_trace no_chk chk_C13_end no_fin trk_init t.
End Budget.

(** ** C14 (b): outside polls the task is only woken through a child waker *)
Definition chk_C14_ev (k : trk) (o : op) (e : event) : bool :=
  match e, o with
  | ETWake _ CCrate, OPoll _ _ => true
  | ETWake _ CCrate, _ => false
  | _, _ => true
  end.
Definition chk_C14b (t : trace) : bool := mon_trace chk_C14_ev no_end no_fin trk_init t.
