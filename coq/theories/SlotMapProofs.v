(** * SlotMapProofs: well-formedness of [PinSlotMap] and what follows from it

    The free list threaded through the vacant slots starts at [free_head], visits every
    vacant slot exactly once and ends at the sentinel (the capacity); [filled] counts the
    occupied slots.  Consequences: an insert is refused exactly when the map is full, the
    [unreachable_unchecked] arm is never reached, [filled <= capacity]. *)
From FB Require Import Base Syntax SlotMap Tactics.
Set Implicit Arguments.

(** [fchain sl i l]: following the [Free] links from [i] visits exactly [l], then reaches the sentinel *)
Inductive fchain (sl : list slot) : nat -> list nat -> Prop :=
| fc_end : fchain sl (length sl) []
| fc_cons i n l : nth_error sl i = Some (Free n) -> fchain sl n l -> fchain sl i (i :: l).

Definition is_vacant (sl : list slot) (i : nat) : Prop := exists n, nth_error sl i = Some (Free n).

Record sm_wf (m : slotmap) : Prop := {
  wf_chain : exists l, fchain (slots m) (free_head m) l /\ NoDup l
                       /\ (forall i, In i l <-> is_vacant (slots m) i)
                       /\ filled m + length l = length (slots m);
}.

Lemma fchain_upd_notin sl i l j s :
  fchain sl i l -> ~ In j l -> fchain (upd sl j s) i l.
Proof.
  induction 1 as [|i n l Hn Hc IH]; intros Hj.
  - rewrite <- (upd_length sl j s). constructor.
  - econstructor.
    + rewrite nth_error_upd_neq; eauto. intros ->; apply Hj; left; reflexivity.
    + apply IH. intros Hin; apply Hj; right; exact Hin.
Qed.

Lemma fchain_head_lt sl i l : fchain sl i l -> l <> [] -> i < length sl.
Proof. destruct 1; intros; [congruence|]. eapply nth_error_Some_lt; eauto. Qed.

Lemma fchain_nil_inv sl i : fchain sl i [] -> i = length sl.
Proof. inversion 1; reflexivity. Qed.

Lemma fchain_start sl i l : fchain sl i l -> l = [] /\ i = length sl \/ exists n l', l = i :: l' /\ nth_error sl i = Some (Free n) /\ fchain sl n l'.
Proof. destruct 1; [left; auto | right; eauto]. Qed.

(** *** new *)
Lemma fchain_new_aux cap k :
  k <= cap -> fchain (map Free (seq 1 cap)) k (seq k (cap - k)).
Proof.
  intros Hk. remember (cap - k) as d eqn:Hd. revert k Hk Hd.
  induction d as [|d IH]; intros k Hk Hd.
  - assert (k = cap) by lia; subst. simpl.
    replace cap with (length (map Free (seq 1 cap))) at 2 by (rewrite map_length, seq_length; reflexivity).
    constructor.
  - simpl. econstructor.
    + rewrite nth_error_map. rewrite nth_error_nth' with (d := 0) by (rewrite seq_length; lia).
      rewrite seq_nth by lia. simpl. reflexivity.
    + simpl. apply IH; lia.
Qed.

Lemma sm_new_wf cap : sm_wf (sm_new cap).
Proof.
  constructor. exists (seq 0 cap). unfold sm_new; simpl. repeat split.
  - replace cap with (cap - 0) at 2 by lia. apply fchain_new_aux; lia.
  - apply seq_NoDup.
  - intros Hin. apply in_seq in Hin. exists (S i).
    rewrite nth_error_map, nth_error_nth' with (d := 0) by (rewrite seq_length; lia).
    rewrite seq_nth by lia; reflexivity.
  - intros [n Hn]. apply nth_error_Some_lt in Hn. rewrite map_length, seq_length in Hn.
    apply in_seq; lia.
  - rewrite map_length, !seq_length; reflexivity.
Qed.

Lemma sm_from_list_wf l : sm_wf (sm_from_list l).
Proof.
  constructor. exists []. unfold sm_from_list; simpl. repeat split.
  - rewrite <- (map_length Occ l). constructor.
  - constructor.
  - intros [].
  - intros [n Hn]. rewrite nth_error_map in Hn. destruct (nth_error l i); discriminate.
  - rewrite map_length; lia.
Qed.

(** *** insert *)
Lemma sm_insert_spec m c :
  sm_wf m ->
  match sm_insert m c with
  | InsOk key m' => sm_wf m' /\ filled m < sm_cap m /\ key = free_head m /\ key < sm_cap m
                    /\ is_vacant (slots m) key
                    /\ slots m' = upd (slots m) key (Occ c) /\ filled m' = S (filled m)
  | InsFull => filled m = sm_cap m
  | InsStuck => False
  end.
Proof.
  intros [(l & Hc & Hnd & Hv & Hf)]. unfold sm_insert, sm_cap.
  destruct (fchain_start Hc) as [[-> Hh] | (n & l' & -> & Hn & Hc')].
  - rewrite Hh. replace (nth_error (slots m) (length (slots m))) with (@None slot)
      by (symmetry; apply nth_error_None; lia).
    simpl in Hf; lia.
  - rewrite Hn. inversion Hnd as [|? ? Hni Hnd']; subst.
    assert (Hlt : free_head m < length (slots m)) by (eapply nth_error_Some_lt; eauto).
    simpl in Hf. split; [|repeat split; try lia; try (eexists; eauto)].
    constructor. exists l'. simpl. repeat split.
    + apply fchain_upd_notin; auto.
    + exact Hnd'.
    + intros Hin. destruct (proj1 (Hv i) (or_intror Hin)) as [k Hk].
      exists k. rewrite nth_error_upd_neq; auto. intros <-; contradiction.
    + intros [k Hk]. destruct (Nat.eq_dec (free_head m) i) as [<-|Hne].
      * rewrite nth_error_upd_eq in Hk by auto; discriminate.
      * rewrite nth_error_upd_neq in Hk by auto.
        destruct (proj2 (Hv i) (ex_intro _ k Hk)) as [|]; [contradiction | auto].
    + rewrite upd_length; lia.
Qed.

Lemma sm_insert_full_iff m c : sm_wf m -> (sm_insert m c = InsFull <-> filled m = sm_cap m).
Proof.
  intros Hwf. pose proof (sm_insert_spec c Hwf) as H.
  destruct (sm_insert m c); split; intros; try discriminate; try reflexivity; try contradiction; try tauto.
  destruct H as (_ & Hlt & _); lia.
Qed.

Lemma sm_filled_le m : sm_wf m -> filled m <= sm_cap m.
Proof. intros [(l & _ & _ & _ & Hf)]. unfold sm_cap; lia. Qed.

(** *** remove *)
Lemma full_vacant_all sl l key :
  NoDup l -> (forall i, In i l <-> is_vacant sl i) -> length l = length sl -> key < length sl -> In key l.
Proof.
  intros Hnd Hv Hlen Hk.
  assert (Hincl : incl l (seq 0 (length sl))).
  { intros i Hi. destruct (proj1 (Hv i) Hi) as [k Hk']. apply in_seq.
    apply nth_error_Some_lt in Hk'. lia. }
  assert (Hall : incl (seq 0 (length sl)) l).
  { apply NoDup_length_incl; auto. rewrite seq_length; lia. }
  apply Hall, in_seq; lia.
Qed.

Lemma sm_remove_spec m key :
  sm_wf m ->
  sm_wf (sm_remove m key)
  /\ sm_cap (sm_remove m key) = sm_cap m
  /\ match sm_get m key with
     | Some _ => filled (sm_remove m key) = pred (filled m) /\ 0 < filled m
                 /\ slots (sm_remove m key) = upd (slots m) key (Free (free_head m))
     | None => sm_remove m key = m
     end.
Proof.
  intros Hwf. pose proof Hwf as [(l & Hc & Hnd & Hv & Hf)]. unfold sm_remove, sm_get, sm_cap.
  destruct (nth_error (slots m) key) as [[c|n]|] eqn:Hk; auto.
  assert (Hlt : key < length (slots m)) by (eapply nth_error_Some_lt; eauto).
  assert (Hnotin : ~ In key l).
  { intros Hin. destruct (proj1 (Hv key) Hin) as [k Hk']. congruence. }
  simpl. split; [|split; [apply upd_length|]].
  - constructor. exists (key :: l). simpl. repeat split.
    + econstructor.
      * apply nth_error_upd_eq; auto.
      * apply fchain_upd_notin; auto.
    + constructor; auto.
    + intros [<-|Hin].
      * eexists; apply nth_error_upd_eq; auto.
      * destruct (proj1 (Hv i) Hin) as [k Hk']. exists k.
        rewrite nth_error_upd_neq; auto. intros <-; contradiction.
    + intros [k Hk']. destruct (Nat.eq_dec key i) as [|Hne]; [left; auto|right].
      rewrite nth_error_upd_neq in Hk' by auto. apply Hv; eexists; eauto.
    + rewrite upd_length.
      assert (0 < filled m).
      { destruct (filled m) eqn:Hz; [|lia]. exfalso.
        (* all slots vacant contradicts key occupied *)
        apply Hnotin. eapply full_vacant_all; eauto; lia. }
      lia.
  - split; [reflexivity|]. repeat split.
    destruct (filled m) eqn:Hz; [|lia]. exfalso.
    apply Hnotin. eapply full_vacant_all; eauto; lia.
Qed.

Lemma sm_remove_wf m key : sm_wf m -> sm_wf (sm_remove m key).
Proof. intros H; apply (sm_remove_spec key H). Qed.

(** *** set (in-place update of an occupied slot) *)
Lemma sm_set_wf m key c c' : sm_wf m -> sm_get m key = Some c -> sm_wf (sm_set m key c').
Proof.
  intros [(l & Hc & Hnd & Hv & Hf)] Hg. unfold sm_get in Hg.
  destruct (nth_error (slots m) key) as [[c0|]|] eqn:Hk; try discriminate.
  assert (Hnotin : ~ In key l).
  { intros Hin. destruct (proj1 (Hv key) Hin) as [k Hk']. congruence. }
  constructor. exists l. unfold sm_set; simpl. repeat split.
  - apply fchain_upd_notin; auto.
  - auto.
  - intros Hin. destruct (proj1 (Hv i) Hin) as [k Hk']. exists k.
    rewrite nth_error_upd_neq; auto. intros <-; contradiction.
  - intros [k Hk']. destruct (Nat.eq_dec key i) as [<-|Hne].
    + rewrite nth_error_upd_eq in Hk' by (eapply nth_error_Some_lt; eauto). discriminate.
    + rewrite nth_error_upd_neq in Hk' by auto. apply Hv; eexists; eauto.
  - rewrite upd_length; auto.
Qed.

Lemma sm_set_cap m key c : sm_cap (sm_set m key c) = sm_cap m.
Proof. unfold sm_cap, sm_set; simpl. apply upd_length. Qed.

Lemma sm_set_filled m key c : filled (sm_set m key c) = filled m.
Proof. reflexivity. Qed.

Lemma sm_get_set m key c j :
  sm_get (sm_set m key c) j = if Nat.eqb key j then (if Nat.ltb key (sm_cap m) then Some c else None) else sm_get m j.
Proof.
  unfold sm_get, sm_set, sm_cap; simpl. rewrite nth_error_upd.
  destruct (Nat.eqb key j); auto. destruct (Nat.ltb key (length (slots m))); auto.
Qed.

(** *** map over the children *)
Lemma fchain_map sl f i l :
  fchain sl i l ->
  fchain (map (fun s => match s with Occ c => Occ (f c) | Free n => Free n end) sl) i l.
Proof.
  induction 1 as [|i n l Hn Hc IH].
  - rewrite <- (map_length (fun s => match s with Occ c => Occ (f c) | Free n => Free n end) sl). constructor.
  - econstructor; eauto. rewrite nth_error_map, Hn. reflexivity.
Qed.

Lemma sm_map_children_wf f m : sm_wf m -> sm_wf (sm_map_children f m).
Proof.
  intros [(l & Hc & Hnd & Hv & Hf)]. constructor. exists l. unfold sm_map_children; simpl.
  repeat split; auto.
  - apply fchain_map; auto.
  - intros Hin. destruct (proj1 (Hv i) Hin) as [k Hk]. exists k. rewrite nth_error_map, Hk; reflexivity.
  - intros [k Hk]. rewrite nth_error_map in Hk.
    destruct (nth_error (slots m) i) as [[c|n]|] eqn:E; try discriminate. apply Hv. exists n; exact E.
  - rewrite map_length; auto.
Qed.

Lemma sm_map_children_cap f m : sm_cap (sm_map_children f m) = sm_cap m.
Proof. unfold sm_cap, sm_map_children; simpl. apply map_length. Qed.

Lemma sm_get_map_children f m i :
  sm_get (sm_map_children f m) i = option_map f (sm_get m i).
Proof.
  unfold sm_get, sm_map_children; simpl. rewrite nth_error_map.
  destruct (nth_error (slots m) i) as [[c|n]|]; reflexivity.
Qed.

(** *** occupancy count *)
Fixpoint occ_count (sl : list slot) : nat :=
  match sl with
  | [] => 0
  | Occ _ :: t => S (occ_count t)
  | Free _ :: t => occ_count t
  end.

Lemma sm_children_aux_length sl k :
  length (flat_map (fun p => match snd p with Occ c => [(fst p, c)] | Free _ => [] end)
                   (combine (seq k (length sl)) sl)) = occ_count sl.
Proof.
  revert k; induction sl as [|[c|n] t IH]; intros k; simpl; auto.
Qed.

Lemma sm_children_length m : length (sm_children m) = occ_count (slots m).
Proof. apply sm_children_aux_length. Qed.

(** the vacant slots of a well-formed map are exactly [length - occ_count] many *)
Lemma vacant_count sl l :
  NoDup l -> (forall i, In i l <-> is_vacant sl i) -> occ_count sl + length l = length sl.
Proof.
  revert l. induction sl as [|s t IH] using rev_ind; intros l Hnd Hv.
  - destruct l as [|i l]; [reflexivity|]. exfalso.
    destruct (proj1 (Hv i) (or_introl eq_refl)) as [n Hn]. destruct i; discriminate.
  - assert (Hocc : forall a b, occ_count (a ++ b) = occ_count a + occ_count b).
    { induction a as [|[c|n] a IHa]; intros; simpl; auto. }
    rewrite Hocc, app_length; simpl.
    destruct s as [c|n].
    + (* last slot occupied *)
      assert (Hv' : forall i, In i l <-> is_vacant t i).
      { intros i; rewrite Hv. split; intros [k Hk].
        - destruct (Nat.lt_ge_cases i (length t)).
          + rewrite nth_error_app1 in Hk by auto. eexists; eauto.
          + rewrite nth_error_app2 in Hk by auto. destruct (i - length t) as [|[|]]; discriminate.
        - exists k. rewrite nth_error_app1; auto. eapply nth_error_Some_lt; eauto. }
      specialize (IH l Hnd Hv'). lia.
    + (* last slot vacant: remove its index from l *)
      assert (Hin : In (length t) l).
      { apply Hv. exists n. apply nth_error_app_last. }
      destruct (in_split _ _ Hin) as (l1 & l2 & ->).
      apply NoDup_remove in Hnd as [Hnd Hni].
      assert (Hv' : forall i, In i (l1 ++ l2) <-> is_vacant t i).
      { intros i. split.
        - intros Hi. assert (Hi' : In i (l1 ++ length t :: l2)).
          { apply in_app_or in Hi. apply in_or_app. destruct Hi; [left|right; right]; auto. }
          destruct (proj1 (Hv i) Hi') as [k Hk].
          assert (i <> length t) by (intros ->; contradiction).
          assert (i < length t).
          { apply nth_error_Some_lt in Hk. rewrite app_length in Hk; simpl in Hk; lia. }
          rewrite nth_error_app1 in Hk by auto. eexists; eauto.
        - intros [k Hk]. assert (Hlt : i < length t) by (eapply nth_error_Some_lt; eauto).
          assert (Hi' : In i (l1 ++ length t :: l2)).
          { apply Hv. exists k. rewrite nth_error_app1; auto. }
          apply in_app_or in Hi'. apply in_or_app. destruct Hi' as [|[|]]; auto. lia. }
      specialize (IH _ Hnd Hv'). rewrite app_length in *; simpl. lia.
Qed.

Lemma sm_filled_children m : sm_wf m -> filled m = length (sm_children m).
Proof.
  intros [(l & Hc & Hnd & Hv & Hf)]. rewrite sm_children_length.
  pose proof (vacant_count Hnd Hv). lia.
Qed.

(** get after insert / remove *)
Lemma sm_get_insert m c key m' j :
  sm_insert m c = InsOk key m' ->
  sm_get m' j = if Nat.eqb key j then Some c else sm_get m j.
Proof.
  unfold sm_insert. destruct (nth_error (slots m) (free_head m)) as [[?|n]|] eqn:Hk; try discriminate.
  intros H; inversion H; subst; clear H. unfold sm_get; simpl. rewrite nth_error_upd.
  apply nth_error_Some_lt in Hk. destruct (Nat.eqb_spec (free_head m) j); auto.
  destruct (Nat.ltb_spec (free_head m) (length (slots m))); auto; lia.
Qed.

Lemma sm_get_remove m key j :
  sm_get (sm_remove m key) j = if Nat.eqb key j then None else sm_get m j.
Proof.
  unfold sm_remove, sm_get.
  destruct (nth_error (slots m) key) as [[c|n]|] eqn:Hk; simpl.
  - rewrite nth_error_upd. destruct (Nat.eqb_spec key j); auto.
    destruct (Nat.ltb (key) (length (slots m))); reflexivity.
  - destruct (Nat.eqb_spec key j) as [<-|]; auto. rewrite Hk; reflexivity.
  - destruct (Nat.eqb_spec key j) as [<-|]; auto. rewrite Hk; reflexivity.
Qed.

Lemma sm_get_lt m i c : sm_get m i = Some c -> i < sm_cap m.
Proof.
  unfold sm_get, sm_cap. destruct (nth_error (slots m) i) eqn:H; try discriminate.
  intros _. eapply nth_error_Some_lt; eauto.
Qed.

Lemma sm_insert_cap m c key m' : sm_insert m c = InsOk key m' -> sm_cap m' = sm_cap m.
Proof.
  unfold sm_insert. destruct (nth_error (slots m) (free_head m)) as [[?|n]|]; try discriminate.
  intros H; inversion H; subst. unfold sm_cap; simpl. apply upd_length.
Qed.

Lemma sm_new_cap cap : sm_cap (sm_new cap) = cap.
Proof. unfold sm_cap, sm_new; simpl. rewrite map_length, seq_length; reflexivity. Qed.

Lemma sm_new_filled cap : filled (sm_new cap) = 0.
Proof. reflexivity. Qed.

Lemma sm_new_get cap i : sm_get (sm_new cap) i = None.
Proof.
  unfold sm_get, sm_new; simpl. rewrite nth_error_map.
  destruct (nth_error (seq 1 cap) i); reflexivity.
Qed.
