(** * Tactics and list lemmas shared by the proof files *)
From FB Require Import Base.

(** destruct the scrutinee of the first [match] / [if] found in the goal or a hypothesis *)
Ltac dmatch :=
  match goal with
  | |- context [match ?x with _ => _ end] => destruct x eqn:?
  end.
Ltac dmatch_in H :=
  match type of H with
  | context [match ?x with _ => _ end] => destruct x eqn:?
  end.

Ltac inv H := inversion H; subst; clear H.

Ltac pair_inv :=
  repeat match goal with
  | H : (_, _) = (_, _) |- _ => inversion H; subst; clear H
  end.

(** ** [upd] *)
Lemma upd_length {A} (l : list A) i x : length (upd l i x) = length l.
Proof. revert i; induction l as [|h t IH]; intros [|i]; simpl; auto. Qed.

Lemma nth_error_upd_eq {A} (l : list A) i x :
  i < length l -> nth_error (upd l i x) i = Some x.
Proof. revert i; induction l as [|h t IH]; intros [|i] H; simpl in *; try lia; auto. apply IH; lia. Qed.

Lemma nth_error_upd_neq {A} (l : list A) i j x :
  i <> j -> nth_error (upd l i x) j = nth_error l j.
Proof.
  revert i j; induction l as [|h t IH]; intros [|i] [|j] H; simpl; auto; try congruence.
Qed.

Lemma nth_error_upd {A} (l : list A) i j x :
  nth_error (upd l i x) j = if Nat.eqb i j then (if Nat.ltb i (length l) then Some x else None) else nth_error l j.
Proof.
  destruct (Nat.eqb_spec i j) as [->|Hn].
  - destruct (Nat.ltb_spec j (length l)).
    + apply nth_error_upd_eq; auto.
    + apply nth_error_None. rewrite upd_length; lia.
  - apply nth_error_upd_neq; auto.
Qed.

Lemma upd_out {A} (l : list A) i x : length l <= i -> upd l i x = l.
Proof. revert i; induction l as [|h t IH]; intros [|i] H; simpl in *; auto; try lia. f_equal; apply IH; lia. Qed.

Lemma upd_same {A} (l : list A) i x : nth_error l i = Some x -> upd l i x = l.
Proof. revert i; induction l as [|h t IH]; intros [|i] H; simpl in *; try congruence. f_equal; auto. Qed.

Lemma nth_error_Some_lt {A} (l : list A) i x : nth_error l i = Some x -> i < length l.
Proof. intros H; apply nth_error_Some; congruence. Qed.

Lemma nth_error_app_last {A} (l : list A) x : nth_error (l ++ [x]) (length l) = Some x.
Proof. rewrite nth_error_app2 by lia. rewrite Nat.sub_diag; reflexivity. Qed.

Lemma nth_error_repeat {A} (x : A) n i : i < n -> nth_error (repeat x n) i = Some x.
Proof. revert i; induction n; intros [|i] H; simpl; try lia; auto. apply IHn; lia. Qed.

(** ** [remove_nth] *)
Lemma remove_nth_length {A} (l : list A) i : i < length l -> S (length (remove_nth l i)) = length l.
Proof. revert i; induction l as [|h t IH]; intros [|i] H; simpl in *; try lia. rewrite IH; lia. Qed.

Lemma remove_nth_In {A} (l : list A) i x : In x (remove_nth l i) -> In x l.
Proof. revert i; induction l as [|h t IH]; intros [|i] H; simpl in *; auto. destruct H; eauto. Qed.

Lemma last_opt_app {A} (l : list A) x : last_opt (l ++ [x]) = Some x.
Proof. unfold last_opt. rewrite rev_app_distr. reflexivity. Qed.

Lemma last_opt_nth {A} (l : list A) : last_opt l = nth_error l (pred (length l)).
Proof.
  destruct l as [|a l] using rev_ind; [reflexivity|].
  rewrite last_opt_app, app_length; simpl. rewrite Nat.add_1_r; simpl.
  symmetry; apply nth_error_app_last.
Qed.

Lemma fold_left_ext_in {A B} (f g : A -> B -> A) l a :
  (forall a x, In x l -> f a x = g a x) -> fold_left f l a = fold_left g l a.
Proof. revert a; induction l; simpl; intros; auto. rewrite H by auto. apply IHl; auto. Qed.

Lemma NoDup_app_snoc {A} (l : list A) x : NoDup l -> ~ In x l -> NoDup (l ++ [x]).
Proof.
  induction l as [|a l IH]; simpl; intros Hnd Hni.
  - constructor; [intros []|constructor].
  - inversion Hnd; subst. constructor.
    + rewrite in_app_iff; simpl. intros [|[|[]]]; auto.
    + apply IH; auto.
Qed.

(** split conjunctions only (never records) *)
Ltac splits := repeat match goal with |- _ /\ _ => split end.
