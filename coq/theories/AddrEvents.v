(** * AddrEvents: over whole histories, every poll and every drop of a child is logged at one
    address (C08, at the level of the log — what the harness compares with the real addresses)

    [aevs l]: the address events of a piece of log: (child, address) of every [ECPoll] and of
    every [ECDrop] that names an address (an address of the model is a pair (block, slot)).  Every function of the model except [poll_child], the
    removal of a child and the drop of a slot array logs none ([asuf]); those log the address at
    which the child sits ([EVC]: every address event of the piece is about a child that was at
    that address when the function was entered, or about a child pulled from upstream meanwhile).
    With the ledger of children (distinct ids) and [child_never_moves]: in the whole log of any
    history, two address events of the same child (not pulled from an upstream) agree. *)
From FB Require Import Base Syntax World SlotMap Fub Unbounded Ordered Adapters Step Tactics SlotMapProofs WorldProofs FubProofs
  UnboundedProofs OrderedProofs AdaptersProofs StepProofs Reach JoinProofs AddrProofs FobOrder DropProofs LedgerProofs AddrHistory.
From Coq Require Import Permutation.

Definition aev (e : event) : list (N * nat * nat) :=
  match e with
  | ECPoll c _ _ a => [(c, fst a, snd a)]
  | ECDrop c (Some a) => [(c, fst a, snd a)]
  | _ => []
  end.
(** the address events of a piece of log (newest first) *)
Definition aevs (l : list event) : list (N * nat * nat) := flat_map aev l.
Lemma aevs_app a b : aevs (a ++ b) = aevs a ++ aevs b. Proof. apply flat_map_app. Qed.

Definition asuf (w w' : world) : Prop := exists l, log w' = l ++ log w /\ aevs l = [].

Lemma asuf_refl w : asuf w w. Proof. exists []. auto. Qed.
Lemma asuf_trans w1 w2 w3 : asuf w1 w2 -> asuf w2 w3 -> asuf w1 w3.
Proof.
  intros (l1 & H1 & A1) (l2 & H2 & A2). exists (l2 ++ l1). rewrite H2, H1, app_assoc, aevs_app, A1, A2. auto.
Qed.
Lemma asuf_same w w' : log w' = log w -> asuf w w'. Proof. intros H. exists []. auto. Qed.
Definition aq_ev (e : event) : bool :=
  match e with ECPoll _ _ _ _ => false | ECDrop _ (Some _) => false | _ => true end.
Lemma asuf_emit e w : aq_ev e = true -> asuf w (emit e w).
Proof.
  intros H. exists [e]. split; [reflexivity|]. destruct e; simpl in *; auto; try discriminate.
  match goal with a : option addr |- _ => destruct a; simpl in *; auto; discriminate end.
Qed.

Ltac asq := repeat first [apply asuf_refl | (apply asuf_emit; reflexivity) | (apply asuf_same; reflexivity)
                         | (eapply asuf_trans; [|apply asuf_emit; reflexivity]) ].


Lemma asuf_notify b w : asuf w (notify b w).
Proof.
  unfold notify. destruct (get_blk w b); [|asq]. destruct (breg b0); [|asq].
  eapply asuf_trans; [|apply asuf_emit; reflexivity]. asq.
Qed.

Lemma asuf_enqueue b s w : asuf w (snd (enqueue_slot b s w)).
Proof. unfold enqueue_slot. destruct (get_blk w b); [|asq]. destruct (nth_error (bflags b0) s) as [[|]|]; asq. Qed.

Lemma asuf_wake_slot b s w : asuf w (wake_slot b s w).
Proof.
  unfold wake_slot. change (get_blk (g_wake w) b) with (get_blk w b).
  assert (H0 : asuf w (g_wake w)) by asq.
  destruct (get_blk w b) as [k|]; [|eapply asuf_trans; [exact H0|asq]].
  destruct (bfreed k); [eapply asuf_trans; [exact H0|asq]|].
  pose proof (asuf_enqueue b s (g_wake w)) as He.
  destruct (enqueue_slot b s (g_wake w)) as [q w1]. cbn [snd] in He.
  destruct q; [|eapply asuf_trans; [exact H0|exact He]].
  eapply asuf_trans; [exact H0|]. eapply asuf_trans; [exact He|]. apply asuf_notify.
Qed.

Lemma asuf_dec_strong b w : asuf w (dec_strong b w).
Proof.
  unfold dec_strong. destruct (get_blk w b) as [k|]; [|asq]. destruct (bfreed k); [asq|].
  destruct (bstrong k) as [|[|n]]; asq.
Qed.

Lemma asuf_inc_strong b w : asuf w (inc_strong b w).
Proof. unfold inc_strong. destruct (get_blk w b) as [k|]; [|asq]. destruct (bfreed k); asq. Qed.

Lemma asuf_wake_ref x w : asuf w (wake_ref_handle x w).
Proof. destruct x; simpl; [asq|apply asuf_wake_slot]. Qed.

Lemma asuf_drop_val x w : asuf w (drop_handle_val x w).
Proof. destruct x; simpl; [asq|apply asuf_dec_strong]. Qed.

Lemma asuf_clone_val x w : asuf w (clone_handle_val x w).
Proof.
  destruct x; simpl; [asq|]. eapply asuf_trans; [apply asuf_inc_strong|]. asq.
Qed.

Lemma asuf_do_act cw a w : asuf w (do_act cw a w).
Proof.
  destruct a; cbn [do_act].
  - destruct cw; [apply asuf_wake_ref|asq].
  - destruct cw; [apply asuf_clone_val|asq].
  - destruct (get_handle w h); [apply asuf_wake_ref|asq].
  - destruct (get_handle w h); [|asq].
    eapply asuf_trans; [|apply asuf_drop_val]. eapply asuf_trans; [|apply asuf_wake_ref]. asq.
  - destruct (get_handle w h); [|asq]. eapply asuf_trans; [|apply asuf_drop_val]. asq.
  - destruct (get_handle w h); [apply asuf_clone_val|asq].
Qed.

Lemma asuf_do_acts cw l w : asuf w (do_acts cw l w).
Proof.
  unfold do_acts. revert w; induction l as [|a l IH]; simpl; intros w; [asq|].
  eapply asuf_trans; [apply asuf_do_act|apply IH].
Qed.

Lemma asuf_run_inj p k sl w : asuf w (run_inj p k sl w).
Proof.
  unfold run_inj. destruct (find_inj p k (inj_pts (winj w))); [asq|].
  eapply asuf_trans; [apply (asuf_emit (EInj p k sl)); reflexivity|apply asuf_do_acts].
Qed.

Lemma asuf_clear_flag b i w : asuf w (clear_flag b i w).
Proof. unfold clear_flag. destruct (get_blk w b); asq. Qed.

Lemma asuf_pop b w : asuf w (snd (pop b w)).
Proof.
  unfold pop. assert (H0 : asuf w (set_popk (S (popk w)) w)) by asq.
  destruct (forced_inc (S (popk w)) (set_popk (S (popk w)) w)); cbn [snd].
  - eapply asuf_trans; [exact H0|apply asuf_run_inj].
  - change (get_blk (set_popk (S (popk w)) w) b) with (get_blk w b).
    destruct (get_blk w b) as [kb|]; cbn [snd]; [|asq].
    destruct (bqueue kb) as [|i q]; cbn [snd].
    + eapply asuf_trans; [exact H0|apply asuf_run_inj].
    + eapply asuf_trans; [|apply asuf_run_inj]. eapply asuf_trans; [|apply asuf_clear_flag].
      eapply asuf_trans; [|apply asuf_run_inj]. asq.
Qed.

Lemma asuf_self_wake b t w : asuf w (self_wake b t w).
Proof. unfold self_wake. eapply asuf_trans; [|apply asuf_emit; reflexivity]. destruct (get_blk w b); asq. Qed.

Lemma asuf_register b t w : asuf w (register b t w).
Proof.
  unfold register. eapply asuf_trans; [|apply asuf_run_inj]. destruct (get_blk w b); asq.
Qed.

Lemma asuf_count_alloc n w : asuf w (count_alloc n w). Proof. asq. Qed.

Lemma asuf_alloc_block cap w : asuf w (snd (alloc_block cap w)).
Proof. unfold alloc_block. cbn [snd]. eapply asuf_trans; [|apply (asuf_emit (EBlkAlloc _ _)); reflexivity]. asq. Qed.

Lemma asuf_fub_new cap w : asuf w (snd (fub_new cap w)).
Proof.
  unfold fub_new. pose proof (asuf_alloc_block cap (count_alloc (if Nat.eqb cap 0 then 0 else 1) w)) as H.
  destruct (alloc_block cap (count_alloc (if Nat.eqb cap 0 then 0 else 1) w)) as [b w1]. cbn [snd] in *.
  eapply asuf_trans; [apply asuf_count_alloc|exact H].
Qed.

Lemma asuf_push_all b i n w : asuf w (push_all b i n w).
Proof.
  revert i w. induction n as [|n IH]; intros i w; cbn [push_all]; [asq|].
  eapply asuf_trans; [|apply IH]. eapply asuf_trans; [|apply asuf_enqueue]. asq.
Qed.

Lemma asuf_fub_from_list l w : asuf w (snd (fub_from_list l w)).
Proof.
  unfold fub_from_list.
  pose proof (asuf_alloc_block (length l) (count_alloc (if Nat.eqb (length l) 0 then 0 else 1) w)) as H.
  destruct (alloc_block (length l) (count_alloc (if Nat.eqb (length l) 0 then 0 else 1) w)) as [b w1]. cbn [snd] in *.
  eapply asuf_trans; [apply asuf_count_alloc|]. eapply asuf_trans; [exact H|apply asuf_push_all].
Qed.

Lemma asuf_fub_try_push f c w : asuf w (snd (fub_try_push f c w)).
Proof.
  unfold fub_try_push. destruct (sm_insert (tasks f) c); cbn [snd]; [|asq|asq].
  eapply asuf_trans; [|apply asuf_enqueue]. asq.
Qed.

Lemma asuf_push_group u g w : asuf w (snd (push_group u g w)).
Proof. unfold push_group. destruct (vec_grow _ _). cbn [snd]. asq. Qed.


Lemma asuf_cleanup_from n h w : asuf w (cleanup_from n h w).
Proof.
  revert h w; induction n as [|n IH]; intros h w; cbn [cleanup_from]; [asq|].
  eapply asuf_trans; [apply asuf_do_act|apply IH].
Qed.


Lemma asuf_emit_ret r w : asuf w (emit_ret r w).
Proof.
  unfold emit_ret. generalize (ret_toks r). intros toks.
  assert (H : asuf w (emit (ERet r) w)) by asq. revert H. generalize (emit (ERet r) w). intros w0 H.
  revert w0 H. induction toks as [|tk toks IH]; intros w0 H; simpl; auto.
  apply IH. eapply asuf_trans; [exact H|asq].
Qed.

Lemma asuf_ord_park o i tk w : asuf w (snd (ord_park o i tk w)).
Proof. unfold ord_park. destruct (vec_grow _ _). cbn [snd]. asq. Qed.

Lemma asuf_refused c w : asuf w (refused_result c w). Proof. unfold refused_result. asq. Qed.

Lemma asuf_bounded c ok w : asuf w (bounded_push_result c ok w).
Proof. unfold bounded_push_result. destruct ok; asq. Qed.


Section WithParams.
Variable P : params.
Hypothesis HP : params_ok P.


Lemma asuf_fu_push mrg u c w : asuf w (snd (fu_push P mrg u c w)).
Proof.
  unfold fu_push. cbn [groups rem cursor gcap].
  set (u0 := {| groups := groups u; rem := if mrg then rem u else S (rem u); cursor := cursor u; gcap := gcap u |}).
  assert (H1 : asuf w (snd (match groups u with
                            | [] => let '(g, w0) := fub_new (pMinCap P) w in push_group u0 g w0
                            | _ :: _ => (u0, w) end))).
  { destruct (groups u); [|cbn [snd]; asq].
    pose proof (asuf_fub_new (pMinCap P) w) as A. destruct (fub_new (pMinCap P) w) as [g w0]. cbn [snd] in A.
    eapply asuf_trans; [exact A|apply asuf_push_group]. }
  destruct (match groups u with [] => _ | _ :: _ => _ end) as [u1 w1]. cbn [snd] in H1.
  destruct (last_opt (groups u1)) as [lastg|]; [|cbn [snd]; eapply asuf_trans; [exact H1|asq]].
  pose proof (asuf_fub_try_push lastg c w1) as Hp.
  destruct (fub_try_push lastg c w1) as [[g'| |] w2]; cbn [snd] in *.
  - eapply asuf_trans; eauto.
  - pose proof (asuf_fub_new (fub_cap lastg * pGrowth P) w2) as B.
    destruct (fub_new (fub_cap lastg * pGrowth P) w2) as [gnew w3]. cbn [snd] in B.
    pose proof (asuf_fub_try_push gnew c w3) as Hp2.
    destruct (fub_try_push gnew c w3) as [[g'| |] w4]; cbn [snd] in *.
    + eapply asuf_trans; [exact H1|]. eapply asuf_trans; [exact Hp|]. eapply asuf_trans; [exact B|].
      eapply asuf_trans; [exact Hp2|apply asuf_push_group].
    + eapply asuf_trans; [exact H1|]. eapply asuf_trans; [exact Hp|]. eapply asuf_trans; [exact B|].
      eapply asuf_trans; [exact Hp2|asq].
    + eapply asuf_trans; [exact H1|]. eapply asuf_trans; [exact Hp|]. eapply asuf_trans; [exact B|].
      eapply asuf_trans; [exact Hp2|asq].
  - eapply asuf_trans; eauto.
Qed.

Lemma asuf_fu_with_capacity n w : asuf w (snd (fu_with_capacity n w)).
Proof.
  unfold fu_with_capacity. destruct (Nat.eqb n 0); [cbn [snd]; asq|].
  pose proof (asuf_fub_new n w) as A. destruct (fub_new n w) as [g w1]. cbn [snd] in *. eapply asuf_trans; [exact A|asq].
Qed.

Lemma asuf_fu_from_list mrg h l w : asuf w (snd (fu_from_list P mrg h l w)).
Proof.
  unfold fu_from_list.
  assert (H0 : asuf w (snd (if mrg then (fu_empty, w) else fu_with_capacity (Nat.max h (pMinCap P)) w))).
  { destruct mrg; [cbn [snd]; asq|apply asuf_fu_with_capacity]. }
  destruct (if mrg then (fu_empty, w) else fu_with_capacity (Nat.max h (pMinCap P)) w) as [u0 w0]. cbn [snd] in H0.
  eapply asuf_trans; [exact H0|]. clear H0. revert u0 w0. induction l as [|c l IH]; intros u0 w0; simpl; [asq|].
  pose proof (asuf_fu_push mrg u0 c w0) as Hp. destruct (fu_push P mrg u0 c w0) as [u1 w1]. cbn [fst snd] in *.
  eapply asuf_trans; [exact Hp|apply IH].
Qed.

(** ** address events are logged at the child's address *)
(** every address event of the new piece of log is about a child that was at that address in
    [gs], or about one of [news] *)
Definition EVC (gs : list fub) (w w' : world) (news : list N) : Prop :=
  exists l, log w' = l ++ log w /\ forall c b i, In (c, b, i) (aevs l) -> at_addr gs b i c \/ In c news.

Lemma EVC_asuf gs w w' : asuf w w' -> EVC gs w w' [].
Proof. intros (l & H & A). exists l. split; auto. rewrite A. intros c b i []. Qed.

Lemma EVC_refl gs w : EVC gs w w []. Proof. apply EVC_asuf, asuf_refl. Qed.

Lemma EVC_trans g1 g2 w1 w2 w3 n1 n2 :
  EVC g1 w1 w2 n1 -> sub_new g1 g2 n1 -> EVC g2 w2 w3 n2 -> EVC g1 w1 w3 (n2 ++ n1).
Proof.
  intros (l1 & H1 & E1) Hs (l2 & H2 & E2). exists (l2 ++ l1). rewrite H2, H1, app_assoc. split; auto.
  intros c b i Hin. rewrite aevs_app in Hin. apply in_app_or in Hin as [Hin|Hin].
  - destruct (E2 c b i Hin) as [Ha|Hn]; [|right; apply in_or_app; auto].
    destruct (Hs b i c Ha) as [Ha'|Hn]; auto. right; apply in_or_app; auto.
  - destruct (E1 c b i Hin) as [Ha|Hn]; auto. right; apply in_or_app; auto.
Qed.

Lemma EVC_weaken gs w w' n n' : EVC gs w w' n -> incl n n' -> EVC gs w w' n'.
Proof. intros (l & H & E) Hi. exists l. split; auto. intros c b i Hin. destruct (E c b i Hin); auto. Qed.

(** same groups (or groups whose children all were in [gs] at the same addresses), nothing new *)
Lemma EVC_seq g1 g2 w1 w2 w3 : EVC g1 w1 w2 [] -> sub_new g1 g2 [] -> EVC g2 w2 w3 [] -> EVC g1 w1 w3 [].
Proof. intros A B C. exact (EVC_trans g1 g2 w1 w2 w3 [] [] A B C). Qed.

Lemma EVC_l gs w1 w2 w3 n : asuf w1 w2 -> EVC gs w2 w3 n -> EVC gs w1 w3 n.
Proof.
  intros A C. pose proof (EVC_trans gs gs w1 w2 w3 [] n (EVC_asuf gs w1 w2 A) (@sub_new_refl gs) C) as T. rewrite app_nil_r in T. exact T.
Qed.
Lemma EVC_r gs w1 w2 w3 n : EVC gs w1 w2 n -> asuf w2 w3 -> EVC gs w1 w3 n.
Proof.
  intros (l1 & H1 & E1) (l2 & H2 & A2). exists (l2 ++ l1). rewrite H2, H1, app_assoc. split; auto.
  intros c b i Hin. rewrite aevs_app, A2 in Hin. simpl in Hin. auto.
Qed.

Lemma EVC_mono g1 g2 w w' n : (forall b i c, at_addr g2 b i c -> at_addr g1 b i c) -> EVC g2 w w' n -> EVC g1 w w' n.
Proof. intros Hm (l & H & E). exists l. split; auto. intros c b i Hin. destruct (E c b i Hin); auto. Qed.

Lemma at_single f i c : sm_get (tasks f) i = Some c -> at_addr [f] (blk f) i (cid c).
Proof. intros H. exists f. split; [left; auto|]. split; auto. rewrite H. reflexivity. Qed.

Lemma evc_poll_child k c f i w : sm_get (tasks f) i = Some c -> EVC [f] w (snd (poll_child k c (blk f) i w)) [].
Proof.
  intros Hg. unfold poll_child.
  assert (H0 : EVC [f] w (emit (ECPoll (cid c) (blk f) i (blk f, i)) (g_poll w)) []).
  { exists [ECPoll (cid c) (blk f) i (blk f, i)]. split; [reflexivity|].
    intros c0 b0 i0 [E|[]]. simpl in E. inversion E; subst. left. apply at_single; auto. }
  destruct (cdone c); cbn [snd]; [eapply EVC_r; [exact H0|asq]|].
  destruct (cscript c) as [|[acts r0] rest]; cbn [snd]; [eapply EVC_r; [exact H0|asq]|].
  eapply EVC_r; [exact H0|]. eapply asuf_trans; [apply asuf_do_acts|asq].
Qed.

Lemma evc_drain k n f t w : EVC [f] w (snd (drain k n f t w)) [].
Proof.
  revert f w. induction n as [|n IH]; intros f w; cbn [drain]; cbn [snd]; [apply EVC_asuf, asuf_self_wake|].
  pose proof (asuf_pop (blk f) w) as Hp. destruct (pop (blk f) w) as [pr w1]. cbn [snd] in Hp.
  destruct pr as [| |i]; cbn [snd].
  - apply EVC_asuf; auto.
  - apply EVC_asuf. eapply asuf_trans; [exact Hp|apply asuf_self_wake].
  - destruct (sm_get (tasks f) i) as [c|] eqn:Hg.
    + pose proof (evc_poll_child k c f i w1 Hg) as Hc. pose proof (poll_child_cid' k c (blk f) i w1) as Hid.
      destruct (poll_child k c (blk f) i w1) as [[c' r] w2]. cbn [fst snd] in *.
      destruct (is_ready r); cbn [snd]; [eapply EVC_l; eauto|].
      eapply EVC_l; [exact Hp|]. eapply EVC_seq; [exact Hc| |apply IH].
      apply keeps_single; auto. cbn [tasks]. apply same_sub. apply same_ids_set with (c := c); auto.
    + eapply EVC_l; [exact Hp|apply IH].
Qed.

Lemma evc_fub_remove f i w : EVC [f] w (snd (fub_remove f i w)) [].
Proof.
  unfold fub_remove. destruct (sm_get (tasks f) i) as [c|] eqn:Hg; cbn [snd]; [|apply EVC_refl].
  exists [ECDrop (cid c) (Some (blk f, i))]. split; [reflexivity|].
  intros c0 b0 i0 [E|[]]. inversion E; subst. left. apply at_single; auto.
Qed.

Lemma evc_drop_children f w : EVC [f] w (drop_children (blk f) (tasks f) w) [].
Proof.
  exists (rev (cdrop_events (blk f) (sm_children (tasks f)))). split; [apply drop_children_events|].
  intros c b i Hin. left. unfold aevs in Hin. apply in_flat_map in Hin as (e & He & Hin).
  apply in_rev in He. unfold cdrop_events in He. apply in_map_iff in He as ([j ch] & <- & Hj).
  simpl in Hin. destruct Hin as [E|[]]. inversion E; subst. apply at_single. apply sm_children_spec; auto.
Qed.

Lemma evc_fub_drop f w : EVC [f] w (fub_drop f w) [].
Proof. unfold fub_drop. eapply EVC_r; [apply evc_drop_children|apply asuf_dec_strong]. Qed.

Lemma evc_poll_inner_no_remove k f t w : EVC [f] w (snd (poll_inner_no_remove P k f t w)) [].
Proof.
  unfold poll_inner_no_remove. destruct (Nat.eqb (fub_len f) 0); cbn [snd]; [apply EVC_refl|].
  eapply EVC_l; [apply asuf_register|apply evc_drain].
Qed.

Lemma pinr_keeps k f t w : sub_new [f] [fst (fst (poll_inner_no_remove P k f t w))] [].
Proof.
  unfold poll_inner_no_remove. destruct (Nat.eqb (fub_len f) 0); cbn [fst]; [apply sub_new_refl|].
  pose proof (drain_ids k (pB P) f t (register (blk f) t w)) as H.
  pose proof (drain_blk k (pB P) f t (register (blk f) t w)) as Hb.
  destruct (drain k (pB P) f t (register (blk f) t w)) as [[f' pr] w']. cbn [fst] in *. destruct H as [H _].
  apply keeps_single; auto. apply same_sub; auto.
Qed.

Lemma evc_poll_inner k f t w : EVC [f] w (snd (poll_inner P k f t w)) [].
Proof.
  unfold poll_inner. pose proof (evc_poll_inner_no_remove k f t w) as H. pose proof (pinr_keeps k f t w) as Hk.
  destruct (poll_inner_no_remove P k f t w) as [[f1 pr] w1]. cbn [fst snd] in *.
  destruct pr as [| |i c r]; cbn [snd]; auto.
  pose proof (evc_fub_remove f1 i w1) as Hr. destruct (fub_remove f1 i w1) as [f2 w2]. cbn [snd] in *.
  eapply EVC_seq; eauto.
Qed.

Lemma evc_fub_poll_next k f t w : EVC [f] w (snd (fub_poll_next P k f t w)) [].
Proof.
  unfold fub_poll_next. pose proof (evc_poll_inner k f t w) as H.
  destruct (poll_inner P k f t w) as [[f1 pr] w1]. cbn [snd] in *. destruct pr; cbn [snd]; auto.
Qed.

Lemma evc_mb_poll_loop n f t w : EVC [f] w (snd (mb_poll_loop P n f t w)) [].
Proof.
  revert f w. induction n as [|n IH]; intros f w; cbn [mb_poll_loop]; cbn [snd]; [apply EVC_asuf; asq|].
  pose proof (evc_poll_inner_no_remove KSrc f t w) as H. pose proof (pinr_keeps KSrc f t w) as Hk.
  destruct (poll_inner_no_remove P KSrc f t w) as [[f1 pr] w1]. cbn [fst snd] in *.
  destruct pr as [| |i c r]; cbn [snd]; auto.
  assert (Hgo : EVC [f] w (snd (let '(f0, w0) := fub_remove f1 i w1 in mb_poll_loop P n f0 t w0)) []).
  { pose proof (evc_fub_remove f1 i w1) as Hr.
    assert (Hrk : sub_new [f1] [fst (fub_remove f1 i w1)] []).
    { unfold fub_remove. destruct (sm_get (tasks f1) i); cbn [fst]; [|apply sub_new_refl].
      apply keeps_single; auto. simpl. apply sub_ids_remove. }
    destruct (fub_remove f1 i w1) as [f2 w2]. cbn [fst snd] in *.
    eapply EVC_seq; [exact H|exact Hk|]. eapply EVC_seq; [exact Hr|exact Hrk|apply IH]. }
  destruct r; try exact Hgo.
  cbn [snd]. eapply EVC_r; [exact H|]. eapply asuf_trans; [|apply asuf_enqueue]. asq.
Qed.

Lemma evc_poll_group mrg g t w : EVC [g] w (snd (poll_group P mrg g t w)) [].
Proof. unfold poll_group. destruct mrg; [apply evc_mb_poll_loop|apply evc_fub_poll_next]. Qed.

Lemma evc_fu_loop mrg n u t w : EVC (groups u) w (snd (fu_loop P mrg n u t w)) [].
Proof.
  revert u w. induction n as [|n IH]; intros u w; cbn [fu_loop].
  - destruct (if mrg then _ else _); cbn [snd]; apply EVC_refl.
  - set (cur := if Nat.leb (length (groups u)) (cursor u) then 0 else cursor u).
    destruct (nth_error (groups u) cur) as [g|] eqn:Hg; [|cbn [snd]; apply EVC_asuf; asq].
    pose proof (evc_poll_group mrg g t w) as He. pose proof (poll_group_addr P mrg g t w) as Hp.
    destruct (poll_group P mrg g t w) as [[g' sp] w1]. cbn [snd] in He. destruct Hp as [Hb Hs].
    assert (Hing : In g (groups u)) by (eapply nth_error_In; eauto).
    assert (He' : EVC (groups u) w w1 []).
    { eapply EVC_mono; [|exact He]. intros b i c Ha. eapply at_addr_incl; [|exact Ha]. intros y [<-|[]]; auto. }
    assert (Hstep : forall gs', (forall y, In y gs' -> y = g' \/ In y (groups u)) -> sub_new (groups u) gs' []).
    { intros gs' Hin b i id (y & Hy & H1 & H2). left. destruct (Hin y Hy) as [->|Hy'].
      - exists g. split; [auto|]. split; [congruence|]. apply Hs. exact H2.
      - exists y. auto. }
    destruct sp; cbn [snd].
    + eapply EVC_seq; [exact He'| |apply IH]. apply Hstep. intros y Hy. apply in_upd_cases in Hy. exact Hy.
    + destruct (remove_nth (groups u) cur) eqn:Hr; cbn [snd]; [exact He'|]. rewrite <- Hr.
      destruct (Nat.eqb cur (length (remove_nth (groups u) cur))).
      * eapply EVC_seq; [exact He'| |apply IH]. apply Hstep.
        intros y Hy. apply in_app_or in Hy. destruct Hy as [Hy|[<-|[]]]; auto. right. eapply remove_nth_In; eauto.
      * assert (Hd : EVC (groups u) w1 (fub_drop g' w1) []).
        { eapply EVC_mono; [|apply evc_fub_drop]. intros b i c Ha.
          destruct (Hstep [g'] (fun y Hy => match Hy with or_introl e => or_introl (eq_sym e) | or_intror f => match f with end end) b i c Ha) as [|[]]; auto. }
        assert (H12 : EVC (groups u) w (fub_drop g' w1) []) by (eapply EVC_seq; [exact He'|apply sub_new_refl|exact Hd]).
        eapply EVC_seq; [exact H12| |apply IH].
        apply Hstep. intros y Hy. right. simpl in Hy. eapply remove_nth_In; exact Hy.
    + exact He'.
Qed.

Lemma evc_fu_poll_next mrg u t w : EVC (groups u) w (snd (fu_poll_next P mrg u t w)) [].
Proof. unfold fu_poll_next. destruct (groups u) eqn:Hg; [cbn [snd]; apply EVC_refl|]. rewrite <- Hg. apply evc_fu_loop. Qed.

(** *** the ordered queues *)
Lemma fob_q_keeps k f t w : sub_new [f] [fst (fst (fub_poll_next P k f t w))] [].
Proof.
  pose proof (fub_poll_next_addr P k f t w) as H. destruct (fub_poll_next P k f t w) as [[f' sp] w1].
  destruct H as [Hb Hs]. cbn [fst]. apply keeps_single; auto.
Qed.

Lemma evc_fob_loop k n q t w : EVC [fo_inner q] w (snd (fob_loop P k n q t w)) [].
Proof.
  revert q w. induction n as [|n IH]; intros q w; cbn [fob_loop]; cbn [snd]; [apply EVC_asuf; asq|].
  pose proof (evc_fub_poll_next k (fo_inner q) t w) as H. pose proof (fob_q_keeps k (fo_inner q) t w) as Hk.
  destruct (fub_poll_next P k (fo_inner q) t w) as [[f sp] w1]. cbn [fst snd] in *.
  destruct sp as [| |tk c]; cbn [snd]; auto.
  destruct (Z.eqb (cidx c) (nout (fo_ord {| fo_inner := f; fo_ord := fo_ord q |}))); cbn [snd]; auto.
  pose proof (asuf_ord_park (fo_ord {| fo_inner := f; fo_ord := fo_ord q |}) (cidx c) tk w1) as Hp.
  destruct (ord_park (fo_ord {| fo_inner := f; fo_ord := fo_ord q |}) (cidx c) tk w1) as [o w2]. cbn [snd] in Hp.
  eapply EVC_seq; [eapply EVC_r; [exact H|exact Hp]|exact Hk|]. apply (IH {| fo_inner := f; fo_ord := o |} w2).
Qed.

Lemma evc_fob_poll_next k q t w : EVC [fo_inner q] w (snd (fob_poll_next P k q t w)) [].
Proof.
  unfold fob_poll_next. pose proof (fob_rebase_addr P q) as Hr.
  destruct (ord_try_release P (fo_ord (fob_rebase P q))) as [[tk o]|]; cbn [snd]; [apply EVC_refl|].
  eapply EVC_seq; [apply EVC_refl|exact Hr|apply evc_fob_loop].
Qed.

Lemma evc_fo_loop n q t w : EVC (groups (fu_inner q)) w (snd (fo_loop P n q t w)) [].
Proof.
  revert q w. induction n as [|n IH]; intros q w; cbn [fo_loop]; cbn [snd]; [apply EVC_asuf; asq|].
  pose proof (evc_fu_poll_next false (fu_inner q) t w) as H. pose proof (fu_poll_next_addr P false (fu_inner q) t w) as Hk.
  destruct (fu_poll_next P false (fu_inner q) t w) as [[u sp] w1]. cbn [fst snd] in *.
  destruct sp as [| |tk c]; cbn [snd]; auto.
  destruct (Z.eqb (cidx c) (nout (fu_ord {| fu_inner := u; fu_ord := fu_ord q |}))); cbn [snd]; auto.
  pose proof (asuf_ord_park (fu_ord {| fu_inner := u; fu_ord := fu_ord q |}) (cidx c) tk w1) as Hp.
  destruct (ord_park (fu_ord {| fu_inner := u; fu_ord := fu_ord q |}) (cidx c) tk w1) as [o w2]. cbn [snd] in Hp.
  eapply EVC_seq; [eapply EVC_r; [exact H|exact Hp]|exact Hk|]. apply (IH {| fu_inner := u; fu_ord := o |} w2).
Qed.

Lemma evc_fo_poll_next q t w : EVC (groups (fu_inner q)) w (snd (fo_poll_next P q t w)) [].
Proof.
  unfold fo_poll_next. pose proof (fo_rebase_addr P q) as Hr.
  destruct (ord_try_release P (fu_ord (fo_rebase P q))) as [[tk o]|]; cbn [snd]; [apply EVC_refl|].
  eapply EVC_seq; [apply EVC_refl|exact Hr|apply evc_fo_loop].
Qed.

(** *** pushes log no address event *)
Lemma asuf_fob_try_push front q c w : asuf w (snd (fob_try_push P front q c w)).
Proof.
  unfold fob_try_push.
  pose proof (asuf_fub_try_push (fo_inner q) (child_set_idx c (if front then wdec P (nout (fo_ord q)) else nin (fo_ord q))) w) as H.
  destruct (fub_try_push (fo_inner q) _ w) as [[f| |] w1]; cbn [snd] in *; auto.
Qed.

Lemma asuf_q_push q c w : asuf w (snd (q_push P q c w)).
Proof.
  destruct q as [f|o]; simpl.
  - pose proof (asuf_fub_try_push f c w) as H. destruct (fub_try_push f c w) as [[f'| |] w1]; cbn [snd] in *; auto;
      (eapply asuf_trans; [exact H|asq]).
  - pose proof (asuf_fob_try_push false o c w) as H. destruct (fob_try_push P false o c w) as [[o'|] w1]; cbn [snd] in *; auto.
    eapply asuf_trans; [exact H|asq].
Qed.

Lemma asuf_up_poll try u t w : asuf w (snd (up_poll try u t w)).
Proof.
  unfold up_poll. destruct (us_ended u); cbn [snd]; [asq|].
  destruct (us_steps u) as [|[s|a| |] rest]; cbn [snd]; try asq.
  - eapply asuf_trans; [|apply asuf_do_acts]. asq.
  - destruct try; cbn [snd]; asq.
Qed.

(** *** adapters: the children pulled from upstream are the new ones *)
Lemma evc_q_poll k q t w : EVC (qg q) w (snd (q_poll P k q t w)) [].
Proof.
  destruct q as [f|o]; simpl.
  - pose proof (evc_fub_poll_next k f t w) as H. destruct (fub_poll_next P k f t w) as [[f' sp] w1]. exact H.
  - pose proof (evc_fob_poll_next k o t w) as H. destruct (fob_poll_next P k o t w) as [[o' sp] w1]. exact H.
Qed.

Lemma fill_evc n a t w :
  exists news, isuf w (snd (fill P n a t w)) news
               /\ sub_new (qg (ad_q a)) (qg (ad_q (fst (fst (fill P n a t w))))) news
               /\ asuf w (snd (fill P n a t w)).
Proof.
  revert a w. induction n as [|n IH]; intros a w; cbn [fill]; cbn [fst snd].
  - exists []. splits; [apply isuf_of_qsuf; apply qsuf_emit; reflexivity|apply sub_new_refl|asq].
  - destruct (Nat.ltb (q_len (ad_q a)) (q_cap (ad_q a))); [|exists []; splits; [apply isuf_refl|apply sub_new_refl|asq]].
    destruct (ad_up a) as [u|]; [|exists []; splits; [apply isuf_refl|apply sub_new_refl|asq]].
    pose proof (up_poll_isuf (ad_try a) u t w) as Hu. pose proof (asuf_up_poll (ad_try a) u t w) as Ha.
    destruct (up_poll (ad_try a) u t w) as [[u' r] w1]. cbn [fst snd] in Hu, Ha.
    destruct r as [c| | |e]; cbn [fst snd ad_q].
    + destruct (q_push_addr P (ad_q a) c w1) as [Hs Hq]. pose proof (asuf_q_push (ad_q a) c w1) as Hqa.
      destruct (q_push P (ad_q a) c w1) as [q' w2]. cbn [fst snd] in *.
      destruct (IH {| ad_try := ad_try a; ad_up := Some u'; ad_q := q' |} w2) as (n2 & A2 & S2 & E2). cbn [ad_q] in S2.
      exists (n2 ++ [] ++ [cid c]). splits.
      * eapply isuf_trans; [eapply isuf_trans; [exact Hu|apply isuf_of_qsuf; exact Hq]|exact A2].
      * simpl. eapply sub_new_trans; eauto.
      * eapply asuf_trans; [exact Ha|]. eapply asuf_trans; [exact Hqa|exact E2].
    + exists []. splits; auto. apply sub_new_refl.
    + exists []. splits; [|apply sub_new_refl|eapply asuf_trans; [exact Ha|asq]].
      pose proof (isuf_trans Hu (isuf_of_qsuf (qsuf_emit EUpDrop w1 eq_refl))) as T. exact T.
    + exists []. splits; auto. apply sub_new_refl.
Qed.

Lemma adapter_poll_evc a t w :
  exists news, isuf w (snd (adapter_poll P a t w)) news
               /\ sub_new (qg (ad_q a)) (qg (ad_q (fst (fst (adapter_poll P a t w))))) news
               /\ EVC (qg (ad_q a)) w (snd (adapter_poll P a t w)) news.
Proof.
  unfold adapter_poll. destruct (fill_evc (S (q_cap (ad_q a))) a t w) as (n1 & A1 & S1 & E1).
  destruct (fill P (S (q_cap (ad_q a))) a t w) as [[a1 e] w1]. cbn [fst snd] in *.
  assert (E1' : EVC (qg (ad_q a)) w w1 n1) by (eapply EVC_weaken; [apply EVC_asuf; exact E1|intros x []]).
  destruct e as [tk|]; cbn [fst snd]; [exists n1; auto|].
  pose proof (q_poll_addr P (ad_kind a1) (ad_q a1) t w1) as Hq.
  pose proof (isuf_of_BAL (q_poll_bal P (ad_kind a1) (ad_q a1) t w1)) as Hb.
  pose proof (evc_q_poll (ad_kind a1) (ad_q a1) t w1) as He.
  destruct (q_poll P (ad_kind a1) (ad_q a1) t w1) as [[q sp] w2]. cbn [fst snd] in *.
  assert (H : isuf w w2 ([] ++ n1) /\ sub_new (qg (ad_q a)) (qg q) ([] ++ n1) /\ EVC (qg (ad_q a)) w w2 ([] ++ n1)).
  { splits; [eapply isuf_trans; eauto|eapply sub_new_trans; eauto|eapply EVC_trans; eauto]. }
  simpl in H. exists n1. destruct sp; cbn [fst snd ad_q]; auto. destruct (ad_up a1); cbn [fst snd ad_q]; auto.
Qed.

(** for_each_concurrent *)
Lemma fec_loop_evc n a t w :
  exists news, isuf w (snd (fec_loop P n a t w)) news
               /\ sub_new [fe_q a] [fe_q (fst (fst (fec_loop P n a t w)))] news
               /\ EVC [fe_q a] w (snd (fec_loop P n a t w)) news.
Proof.
  revert a w. induction n as [|n IH]; intros a w; cbn [fec_loop]; cbn [fst snd].
  - exists []. splits; [apply isuf_of_qsuf; apply qsuf_emit; reflexivity|apply sub_new_refl|apply EVC_asuf; asq].
  - assert (Hpull : let r := (if Nat.ltb (fub_len (fe_q a)) (fub_cap (fe_q a)) then
                       match fe_up a with
                       | Some u =>
                           let '(u, r, w) := up_poll false u t w in
                           match r with
                           | UPItem c =>
                               match fub_try_push (fe_q a) c w with
                               | (PushOk f, w) => ({| fe_up := Some u; fe_q := f |}, true, w)
                               | (_, w) => ({| fe_up := Some u; fe_q := fe_q a |}, true, emit EStuck w)
                               end
                           | UPEnd => ({| fe_up := None; fe_q := fe_q a |}, false, emit EUpDrop w)
                           | _ => ({| fe_up := Some u; fe_q := fe_q a |}, false, w)
                           end
                       | None => (a, false, w)
                       end
                     else (a, false, w)) in
                    exists news, isuf w (snd r) news /\ sub_new [fe_q a] [fe_q (fst (fst r))] news /\ asuf w (snd r)).
    { cbv zeta. destruct (Nat.ltb (fub_len (fe_q a)) (fub_cap (fe_q a))); [|exists []; splits; [apply isuf_refl|apply sub_new_refl|asq]].
      destruct (fe_up a) as [u|]; [|exists []; splits; [apply isuf_refl|apply sub_new_refl|asq]].
      pose proof (up_poll_isuf false u t w) as Hu. pose proof (asuf_up_poll false u t w) as Ha.
      destruct (up_poll false u t w) as [[u' r] w1]. cbn [fst snd] in Hu, Ha.
      destruct r as [c| | |e]; cbn [fst snd fe_q].
      - pose proof (fub_try_push_bal (fe_q a) c w1) as Hb. pose proof (asuf_fub_try_push (fe_q a) c w1) as Hpa.
        destruct (fub_try_push (fe_q a) c w1) as [[f| |] w2] eqn:E; cbn [fst snd fe_q] in *.
        + destruct Hb as [_ Hb]. exists ([] ++ [cid c]). splits.
          * eapply isuf_trans; [exact Hu|apply isuf_of_qsuf; exact Hb].
          * simpl. apply (push_single _ _ _ E).
          * eapply asuf_trans; eauto.
        + exists ([] ++ [cid c]). splits.
          * eapply isuf_trans; [exact Hu|]. apply isuf_of_qsuf. eapply qsuf_trans; [exact Hb|apply qsuf_emit; reflexivity].
          * simpl. eapply sub_new_weaken; [apply sub_new_refl|intros x []].
          * eapply asuf_trans; [exact Ha|]. eapply asuf_trans; [exact Hpa|asq].
        + exists ([] ++ [cid c]). splits.
          * eapply isuf_trans; [exact Hu|]. apply isuf_of_qsuf. eapply qsuf_trans; [exact Hb|apply qsuf_emit; reflexivity].
          * simpl. eapply sub_new_weaken; [apply sub_new_refl|intros x []].
          * eapply asuf_trans; [exact Ha|]. eapply asuf_trans; [exact Hpa|asq].
      - exists []. splits; auto. apply sub_new_refl.
      - exists []. splits; [|apply sub_new_refl|eapply asuf_trans; [exact Ha|asq]].
        pose proof (isuf_trans Hu (isuf_of_qsuf (qsuf_emit EUpDrop w1 eq_refl))) as T. exact T.
      - exists []. splits; auto. apply sub_new_refl. }
    cbv zeta in Hpull.
    destruct (if Nat.ltb (fub_len (fe_q a)) (fub_cap (fe_q a)) then _ else _) as [[a1 pulled] w1].
    destruct Hpull as (n1 & A1 & S1 & E1). cbn [fst snd] in *.
    assert (E1' : EVC [fe_q a] w w1 n1) by (eapply EVC_weaken; [apply EVC_asuf; exact E1|intros x []]).
    pose proof (fub_poll_next_addr P KFut (fe_q a1) t w1) as Hp.
    pose proof (isuf_of_BAL (fub_poll_next_bal P KFut (fe_q a1) t w1)) as Hb.
    pose proof (evc_fub_poll_next KFut (fe_q a1) t w1) as He.
    destruct (fub_poll_next P KFut (fe_q a1) t w1) as [[f sp] w2]. cbn [fst snd] in *. destruct Hp as [Hpb Hps].
    assert (Hmid : isuf w w2 ([] ++ n1) /\ sub_new [fe_q a] [f] ([] ++ n1) /\ EVC [fe_q a] w w2 ([] ++ n1)).
    { splits; [eapply isuf_trans; eauto|eapply sub_new_trans; [exact S1|apply keeps_single; auto]|eapply EVC_trans; eauto]. }
    simpl in Hmid. destruct Hmid as (M1 & M2 & M3).
    assert (Hgo : exists news, isuf w (snd (fec_loop P n {| fe_up := fe_up a1; fe_q := f |} t w2)) news
                  /\ sub_new [fe_q a] [fe_q (fst (fst (fec_loop P n {| fe_up := fe_up a1; fe_q := f |} t w2)))] news
                  /\ EVC [fe_q a] w (snd (fec_loop P n {| fe_up := fe_up a1; fe_q := f |} t w2)) news).
    { destruct (IH {| fe_up := fe_up a1; fe_q := f |} w2) as (n2 & A2 & S2 & E2). cbn [fe_q] in S2, E2.
      exists (n2 ++ n1). splits; [eapply isuf_trans; eauto|eapply sub_new_trans; eauto|eapply EVC_trans; eauto]. }
    destruct sp as [| |tk c]; cbn [fst snd fe_q]; auto.
    + destruct pulled; auto. exists n1; auto.
    + destruct (fe_up a1); cbn [fst snd fe_q]; [|exists n1; auto]. destruct pulled; auto. exists n1; auto.
Qed.

(** join_all / try_join_all *)
Lemma asuf_drop_outputs i skip m out w : asuf w (drop_outputs_from i skip m out w).
Proof.
  revert i w. induction out as [|o out IH]; intros i w; cbn [drop_outputs_from]; [asq|].
  eapply asuf_trans; [|apply IH]. destruct (match skip with Some s => Nat.eqb s i | None => false end); [asq|].
  destruct (sm_get m i); asq.
Qed.

Lemma evc_fub_clear f w : EVC [f] w (snd (fub_clear f w)) [].
Proof.
  unfold fub_clear. generalize (seq 0 (fub_cap f)). intros l. revert f w.
  induction l as [|i l IH]; intros f w; simpl; [apply EVC_refl|].
  pose proof (evc_fub_remove f i w) as Hr.
  assert (Hk : sub_new [f] [fst (fub_remove f i w)] []).
  { unfold fub_remove. destruct (sm_get (tasks f) i); cbn [fst]; [|apply sub_new_refl].
    apply keeps_single; auto. simpl. apply sub_ids_remove. }
  destruct (fub_remove f i w) as [f1 w1]. cbn [fst snd] in *.
  eapply EVC_seq; [exact Hr|exact Hk|apply IH].
Qed.

Lemma evc_join_loop n j t w : EVC [j_q j] w (snd (join_loop P n j t w)) [].
Proof.
  revert j w. induction n as [|n IH]; intros j w; cbn [join_loop]; cbn [snd]; [apply EVC_asuf; asq|].
  pose proof (evc_poll_inner (if j_try j then KTry else KFut) (j_q j) t w) as H.
  pose proof (poll_inner_addr P (if j_try j then KTry else KFut) (j_q j) t w) as Hk.
  destruct (poll_inner P (if j_try j then KTry else KFut) (j_q j) t w) as [[f pr] w1]. cbn [fst snd] in *.
  destruct pr as [| |i c r]; cbn [snd]; auto.
  assert (Hgo : EVC [j_q j] w (snd (join_loop P n {| j_try := j_try j; j_q := f; j_out := upd (j_out j) i (Some (TOut (cid c))) |} t w1)) []).
  { eapply EVC_seq; [exact H|exact Hk|]. apply (IH {| j_try := j_try j; j_q := f; j_out := upd (j_out j) i (Some (TOut (cid c))) |} w1). }
  destruct r; try exact Hgo.
  pose proof (evc_fub_clear f (drop_outputs_from 0 (Some i) (tasks f) (j_out j) w1)) as Hc.
  destruct (fub_clear f (drop_outputs_from 0 (Some i) (tasks f) (j_out j) w1)) as [f2 w2]. cbn [snd] in *.
  eapply EVC_seq; [eapply EVC_r; [exact H|apply asuf_drop_outputs]|exact Hk|exact Hc].
Qed.

(** *** dropping the collection: every child is dropped at its address *)
Lemma asuf_drop_heap h w : asuf w (drop_heap h w).
Proof.
  unfold drop_heap. revert w. induction h as [|e h IH]; intros w; simpl; [asq|].
  eapply asuf_trans; [|apply IH]. asq.
Qed.

Lemma evc_fu_drop gs w : EVC gs w (fold_left (fun w g => fub_drop g w) gs w) [].
Proof.
  assert (H : forall l, incl l gs -> forall w, EVC gs w (fold_left (fun w g => fub_drop g w) l w) []).
  { induction l as [|g l IH]; intros Hi w0; simpl; [apply EVC_refl|].
    eapply EVC_seq; [|apply sub_new_refl|apply IH; intros x Hx; apply Hi; right; auto].
    eapply EVC_mono; [|apply evc_fub_drop]. intros b i c Ha. eapply at_addr_incl; [|exact Ha].
    intros y [<-|[]]. apply Hi. left; auto. }
  apply H. apply incl_refl.
Qed.

Lemma evc_do_drop k w : EVC (coll_groups k) w (snd (do_drop k w)) [].
Proof.
  unfold do_drop. destruct k; cbn [snd coll_groups]; try apply EVC_refl.
  - apply evc_fub_drop.
  - apply evc_fub_drop.
  - apply evc_fu_drop.
  - apply evc_fu_drop.
  - unfold fob_drop. eapply EVC_r; [apply evc_fub_drop|apply asuf_drop_heap].
  - unfold fo_drop. eapply EVC_r; [apply evc_fu_drop|apply asuf_drop_heap].
  - unfold adapter_drop, queue_drop.
    assert (Hq : asuf w (match ad_up a with Some _ => emit EUpDrop w | None => w end)) by (destruct (ad_up a); asq).
    destruct (ad_q a) as [f|o]; simpl.
    + eapply EVC_l; [exact Hq|apply evc_fub_drop].
    + unfold fob_drop. eapply EVC_l; [exact Hq|]. eapply EVC_r; [apply evc_fub_drop|apply asuf_drop_heap].
  - unfold fec_drop.
    assert (Hq : asuf w (match fe_up a with Some _ => emit EUpDrop w | None => w end)) by (destruct (fe_up a); asq).
    eapply EVC_l; [exact Hq|apply evc_fub_drop].
  - unfold join_drop. eapply EVC_l; [apply asuf_drop_outputs|apply evc_fub_drop].
Qed.

(** *** constructors and pushes log no address event *)
Lemma asuf_build ty p inits ups w : asuf w (snd (build P ty p inits ups w)).
Proof.
  unfold build.
  assert (Hfl : forall l w0, asuf w0 (snd (fub_from_list l w0))) by (intros; apply asuf_fub_from_list).
  assert (Hfn : forall c w0, asuf w0 (snd (fub_new c w0))) by (intros; apply asuf_fub_new).
  assert (Hul : forall m h l w0, asuf w0 (snd (fu_from_list P m h l w0))) by (intros; apply asuf_fu_from_list).
  assert (Huc : forall c w0, asuf w0 (snd (fu_with_capacity c w0))) by (intros; apply asuf_fu_with_capacity).
  assert (Hbn : forall c z w0, asuf w0 (snd (fob_new P c z w0))).
  { intros c z w0. unfold fob_new. pose proof (Hfn c w0) as H. destruct (fub_new c w0) as [f w1]. cbn [snd] in H.
    unfold heap_cap_for. cbn [snd]. eapply asuf_trans; [exact H|asq]. }
  destruct ty; cbn [fst snd].
  - destruct (p_iter p).
    + pose proof (Hfl (mk_children inits) w) as H. destruct (fub_from_list (mk_children inits) w); exact H.
    + pose proof (Hfn (p_cap p) w) as H. destruct (fub_new (p_cap p) w); exact H.
  - destruct (p_iter p).
    + pose proof (Hul false (lazy_hint p (mk_children inits)) (mk_children inits) w) as H. destruct (fu_from_list P false _ _ w); exact H.
    + destruct (p_new p); [asq|]. pose proof (Huc (p_cap p) w) as H. destruct (fu_with_capacity (p_cap p) w); exact H.
  - pose proof (Hfl (mk_children inits) w) as H. destruct (fub_from_list (mk_children inits) w); exact H.
  - destruct (p_iter p).
    + pose proof (Hul true (lazy_hint p (mk_children inits)) (mk_children inits) w) as H. destruct (fu_from_list P true _ _ w); exact H.
    + destruct (p_new p); [asq|]. pose proof (Huc (p_cap p) w) as H. destruct (fu_with_capacity (p_cap p) w); exact H.
  - destruct (p_iter p).
    + unfold fob_from_list. pose proof (Hfl (index_children P (mk_children inits) 0) w) as H.
      destruct (fub_from_list (index_children P (mk_children inits) 0) w); exact H.
    + pose proof (Hbn (p_cap p) (seed_of p) w) as H. destruct (fob_new P (p_cap p) (seed_of p) w) as [[q|] w1]; cbn [snd] in *; auto.
      eapply asuf_trans; [exact H|asq].
  - destruct (p_iter p).
    + unfold fo_from_list. pose proof (Hul false (lazy_hint p (mk_children inits)) (index_children P (mk_children inits) 0) w) as H.
      destruct (fu_from_list P false _ _ w); exact H.
    + destruct (p_new p); [asq|]. unfold fo_with_capacity. pose proof (Huc (p_cap p) w) as H.
      destruct (fu_with_capacity (p_cap p) w) as [u w1]. cbn [snd] in H. unfold heap_cap_for. cbn [snd].
      eapply asuf_trans; [exact H|asq].
  - pose proof (Hfn (p_cap p) w) as H. destruct (fub_new (p_cap p) w); exact H.
  - pose proof (Hbn (p_cap p) 0%Z w) as H. destruct (fob_new P (p_cap p) 0%Z w) as [[q|] w1]; cbn [snd] in *; auto.
    eapply asuf_trans; [exact H|asq].
  - pose proof (Hfn (p_cap p) w) as H. destruct (fub_new (p_cap p) w); exact H.
  - pose proof (Hbn (p_cap p) 0%Z w) as H. destruct (fob_new P (p_cap p) 0%Z w) as [[q|] w1]; cbn [snd] in *; auto.
    eapply asuf_trans; [exact H|asq].
  - pose proof (Hfn (p_cap p) w) as H. destruct (fub_new (p_cap p) w); exact H.
  - unfold join_new. pose proof (Hfl (mk_children inits) w) as H. destruct (fub_from_list (mk_children inits) w) as [f w1].
    cbn [snd] in *. eapply asuf_trans; [exact H|asq].
  - unfold join_new. pose proof (Hfl (mk_children inits) w) as H. destruct (fub_from_list (mk_children inits) w) as [f w1].
    cbn [snd] in *. eapply asuf_trans; [exact H|asq].
Qed.

Lemma asuf_do_push tr front c sc k w : asuf w (snd (do_push P tr front c sc k w)).
Proof.
  assert (Hres : forall w1, asuf w w1 -> asuf w (if tr then refused_result c w1 else bounded_push_result c false w1)).
  { intros w1 Q. destruct tr; (eapply asuf_trans; [exact Q|]); [apply asuf_refused|apply asuf_bounded]. }
  unfold do_push. destruct k; cbn [snd]; try asq.
  - destruct front; cbn [snd]; [asq|]. pose proof (asuf_fub_try_push f (mk_child c sc) w) as H.
    destruct (fub_try_push f (mk_child c sc) w) as [[f'| |] w1]; cbn [snd] in *; auto. eapply asuf_trans; [exact H|asq].
  - destruct front; cbn [snd]; [asq|]. pose proof (asuf_fub_try_push f (mk_child c sc) w) as H.
    destruct (fub_try_push f (mk_child c sc) w) as [[f'| |] w1]; cbn [snd] in *; auto. eapply asuf_trans; [exact H|asq].
  - destruct (tr || front)%bool; cbn [snd]; [asq|]. pose proof (asuf_fu_push false u (mk_child c sc) w) as H.
    destruct (fu_push P false u (mk_child c sc) w) as [u' w1]. cbn [snd] in *. eapply asuf_trans; [exact H|asq].
  - destruct (tr || front)%bool; cbn [snd]; [asq|]. pose proof (asuf_fu_push true u (mk_child c sc) w) as H.
    destruct (fu_push P true u (mk_child c sc) w) as [u' w1]. cbn [snd] in *. eapply asuf_trans; [exact H|asq].
  - pose proof (asuf_fob_try_push front q (mk_child c sc) w) as H.
    destruct (fob_try_push P front q (mk_child c sc) w) as [[q'|] w1]; cbn [snd] in *; auto. eapply asuf_trans; [exact H|asq].
  - destruct tr; cbn [snd]; [asq|]. unfold fo_push.
    pose proof (asuf_fu_push false (fu_inner q) (child_set_idx (mk_child c sc) (if front then wdec P (nout (fu_ord q)) else nin (fu_ord q))) w) as H.
    destruct (fu_push P false (fu_inner q) _ w) as [u' w1]. cbn [snd] in *. eapply asuf_trans; [exact H|asq].
Qed.

Lemma isuf_refl' gs w w' : EVC gs w w' [] -> isuf w w' [].
Proof. intros (l & H & _). exists l. split; auto. intros x []. Qed.

(** ** one operation *)
Definition ESTEP (k : coll) (w w' : world) : Prop :=
  exists l, log w' = l ++ log w
            /\ forall c b i, In (c, b, i) (aevs l) -> at_addr (coll_groups k) b i c \/ In c (acc l).

Lemma ESTEP_asuf k w w' : asuf w w' -> ESTEP k w w'.
Proof. intros (l & H & A). exists l. split; auto. rewrite A. intros c b i []. Qed.

Lemma ESTEP_of_EVC k w w1 w2 news :
  EVC (coll_groups k) w w1 news -> isuf w w1 news -> asuf w1 w2 -> ESTEP k w w2.
Proof.
  intros (l & H & E) (l' & H' & I') (l2 & H2 & A2).
  assert (l' = l) by (rewrite H in H'; apply app_inv_tail in H'; auto). subst l'.
  exists (l2 ++ l). rewrite H2, H, app_assoc. split; auto.
  intros c b i Hin. rewrite aevs_app, A2 in Hin. simpl in Hin.
  destruct (E c b i Hin) as [|Hn]; auto. right. rewrite acc_app. apply in_or_app; right. apply I'; auto.
Qed.

Lemma do_poll_estep t k w : ESTEP k w (snd (do_poll P t k w)).
Proof.
  unfold do_poll.
  destruct k as [| | |f|f|u|u|q|q|a|a|j]; cbn [snd]; try (apply ESTEP_asuf; solve [asq]).
  - pose proof (evc_fub_poll_next KFut f t w) as He. pose proof (isuf_of_BAL (fub_poll_next_bal P KFut f t w)) as Hb.
    destruct (fub_poll_next P KFut f t w) as [[f' sp] w1]. cbn [snd] in *.
    eapply ESTEP_of_EVC; [exact He|exact Hb|apply asuf_emit_ret].
  - pose proof (evc_mb_poll_loop (S (fub_len f)) f t w) as He.
    pose proof (isuf_of_BAL (mb_poll_loop_bal P (S (fub_len f)) f t w)) as Hb. unfold mb_poll_next.
    destruct (mb_poll_loop P (S (fub_len f)) f t w) as [[f' sp] w1]. cbn [snd] in *.
    eapply ESTEP_of_EVC; [exact He|exact Hb|apply asuf_emit_ret].
  - pose proof (evc_fu_poll_next false u t w) as He. pose proof (isuf_of_BAL (fu_poll_next_bal P false u t w)) as Hb.
    destruct (fu_poll_next P false u t w) as [[u' sp] w1]. cbn [snd] in *.
    eapply ESTEP_of_EVC; [exact He|exact Hb|apply asuf_emit_ret].
  - pose proof (evc_fu_poll_next true u t w) as He. pose proof (isuf_of_BAL (fu_poll_next_bal P true u t w)) as Hb.
    destruct (fu_poll_next P true u t w) as [[u' sp] w1]. cbn [snd] in *.
    eapply ESTEP_of_EVC; [exact He|exact Hb|apply asuf_emit_ret].
  - pose proof (evc_fob_poll_next KFut q t w) as He. pose proof (isuf_of_BAL (fob_poll_next_bal P KFut q t w)) as Hb.
    destruct (fob_poll_next P KFut q t w) as [[q' sp] w1]. cbn [snd] in *.
    eapply ESTEP_of_EVC; [exact He|exact Hb|apply asuf_emit_ret].
  - pose proof (evc_fo_poll_next q t w) as He. pose proof (isuf_of_BAL (fo_poll_next_bal P q t w)) as Hb.
    destruct (fo_poll_next P q t w) as [[q' sp] w1]. cbn [snd] in *.
    eapply ESTEP_of_EVC; [exact He|exact Hb|apply asuf_emit_ret].
  - destruct (adapter_poll_evc a t w) as (news & A1 & A2 & A3).
    destruct (adapter_poll P a t w) as [[a' r] w1]. cbn [snd] in *.
    eapply ESTEP_of_EVC; [exact A3|exact A1|apply asuf_emit_ret].
  - destruct (fec_loop_evc (fec_fuel a) a t w) as (news & A1 & A2 & A3). unfold fec_poll.
    destruct (fec_loop P (fec_fuel a) a t w) as [[a' r] w1]. cbn [snd] in *.
    eapply ESTEP_of_EVC; [exact A3|exact A1|apply asuf_emit_ret].
  - pose proof (evc_join_loop (S (fub_len (j_q j))) j t w) as He.
    pose proof (isuf_of_BAL (join_loop_bal P (S (fub_len (j_q j))) j t w)) as Hb. unfold join_poll.
    destruct (join_loop P (S (fub_len (j_q j))) j t w) as [[j' r] w1]. cbn [snd] in *.
    eapply ESTEP_of_EVC; [exact He|exact Hb|apply asuf_emit_ret].
Qed.

Lemma step_core_estep k o w : ESTEP k w (snd (step_core P k o w)).
Proof.
  unfold step_core. destruct o as [ty p inits ups|c sc|c sc|c sc|c sc|t i|a| | | | ].
  - destruct k; cbn [snd]; try (apply ESTEP_asuf; solve [asq]). apply ESTEP_asuf. apply asuf_build.
  - apply ESTEP_asuf. apply asuf_do_push.
  - apply ESTEP_asuf. apply asuf_do_push.
  - apply ESTEP_asuf. apply asuf_do_push.
  - apply ESTEP_asuf. apply asuf_do_push.
  - apply do_poll_estep.
  - cbn [snd]. apply ESTEP_asuf. apply asuf_do_act.
  - cbn [snd]. apply ESTEP_asuf. destruct (observe P k); asq.
  - cbn [snd]. apply ESTEP_asuf. asq.
  - eapply ESTEP_of_EVC; [apply evc_do_drop|eapply isuf_refl'; apply evc_do_drop|apply asuf_refl].
  - cbn [snd]. apply ESTEP_asuf. unfold cleanup. apply asuf_cleanup_from.
Qed.

(** ** children pulled from an upstream: where each of them is placed *)
Definition ids3 (H : list (N * nat * nat)) : list N := map (fun x => fst (fst x)) H.
(** multiset inclusion *)
Definition cle (a b : list N) : Prop := forall x, count_occ N.eq_dec a x <= count_occ N.eq_dec b x.

Lemma cle_nil b : cle [] b. Proof. intros x. simpl. lia. Qed.
Lemma cle_app a1 b1 a2 b2 : cle a1 b1 -> cle a2 b2 -> cle (a2 ++ a1) (b2 ++ b1).
Proof. intros H1 H2 x. rewrite !count_occ_app. specialize (H1 x). specialize (H2 x). lia. Qed.
Lemma ids3_app a b : ids3 (a ++ b) = ids3 a ++ ids3 b. Proof. apply map_app. Qed.

(** the new piece of log, the groups before and after, and the home [H] of every child that
    arrived in between: every address event and every child held afterwards is about a child that
    was at that address before, or is at its home *)
Definition EVH (gs : list fub) (w : world) (gs' : list fub) (w' : world) (H : list (N * nat * nat)) : Prop :=
  exists l, log w' = l ++ log w
    /\ (forall c b i, In (c, b, i) (aevs l) -> at_addr gs b i c \/ In (c, b, i) H)
    /\ (forall b i c, at_addr gs' b i c -> at_addr gs b i c \/ In (c, b, i) H)
    /\ cle (ids3 H) (acc l).

Lemma EVH_of_EVC gs w gs' w' : EVC gs w w' [] -> sub_new gs gs' [] -> EVH gs w gs' w' [].
Proof.
  intros (l & L & E) S. exists l. split; [exact L|]. split; [|split].
  - intros c b i Hin. destruct (E c b i Hin) as [|[]]; auto.
  - intros b i c Ha. destruct (S b i c Ha) as [|[]]; auto.
  - apply cle_nil.
Qed.

Lemma EVH_trans g1 w1 g2 w2 g3 w3 H1 H2 :
  EVH g1 w1 g2 w2 H1 -> EVH g2 w2 g3 w3 H2 -> EVH g1 w1 g3 w3 (H2 ++ H1).
Proof.
  intros (l1 & L1 & E1 & S1 & C1) (l2 & L2 & E2 & S2 & C2). exists (l2 ++ l1). rewrite L2, L1, app_assoc. split; [reflexivity|]. split; [|split].
  - intros c b i Hin. rewrite aevs_app in Hin. apply in_app_or in Hin as [Hin|Hin].
    + destruct (E2 c b i Hin) as [Ha|Hh]; [|right; apply in_or_app; auto].
      destruct (S1 b i c Ha) as [|Hh]; auto. right; apply in_or_app; auto.
    + destruct (E1 c b i Hin) as [|Hh]; auto. right; apply in_or_app; auto.
  - intros b i c Ha. destruct (S2 b i c Ha) as [Ha'|Hh]; [|right; apply in_or_app; auto].
    destruct (S1 b i c Ha') as [|Hh]; auto. right; apply in_or_app; auto.
  - rewrite ids3_app, acc_app. apply cle_app; auto.
Qed.

Lemma EVH_refl gs w : EVH gs w gs w []. Proof. apply EVH_of_EVC; [apply EVC_refl|apply sub_new_refl]. Qed.

Lemma EVH_asuf gs w w' : asuf w w' -> EVH gs w gs w' [].
Proof. intros A. apply EVH_of_EVC; [apply EVC_asuf; auto|apply sub_new_refl]. Qed.

(** a push places the child in one vacant slot and moves nobody *)
Lemma push_home f c w f' w' :
  fub_try_push f c w = (PushOk f', w') ->
  exists key, forall b i id, at_addr [f'] b i id -> at_addr [f] b i id \/ (id, b, i) = (cid c, blk f, key).
Proof.
  unfold fub_try_push. destruct (sm_insert (tasks f) c) as [key m| |] eqn:Hi; try discriminate.
  intros E; inversion E; subst; clear E. exists key. intros b i id (g & [<-|[]] & Hb & Hc). simpl in *.
  rewrite (@sm_get_insert (tasks f) c key m i Hi) in Hc. destruct (Nat.eqb_spec key i) as [<-|Hne].
  - right. simpl in Hc. inversion Hc; subst. reflexivity.
  - left. exists f. splits; auto. left; auto.
Qed.

(** one pull: the upstream hands over a child, the queue takes it *)
Lemma evh_pull_fub f c w0 w f' w' :
  log w = EUpPoll (UAItem (cid c)) :: log w0 -> fub_try_push f c w = (PushOk f', w') ->
  exists b i, EVH [f] w0 [f'] w' [(cid c, b, i)].
Proof.
  intros L0 Hp. destruct (push_home f c w f' w' Hp) as (key & Hk). pose proof (asuf_fub_try_push f c w) as Ha.
  rewrite Hp in Ha. cbn [snd] in Ha. destruct Ha as (l & L & A).
  exists (blk f), key. exists (l ++ [EUpPoll (UAItem (cid c))]). rewrite L, L0, <- app_assoc. split; [reflexivity|]. split; [|split].
  - intros c0 b i Hin. rewrite aevs_app, A in Hin. simpl in Hin. contradiction.
  - intros b i c0 Hat. destruct (Hk b i c0 Hat) as [|E]; auto. right. left. inversion E; subst; auto.
  - intros x. rewrite acc_app. simpl. rewrite count_occ_app. simpl.
    destruct (N.eq_dec (cid c) x); lia.
Qed.

Lemma asuf_from_cons e w0 w w' : log w = e :: log w0 -> aq_ev e = true -> asuf w w' -> asuf w0 w'.
Proof.
  intros L Q (l & L' & A). exists (l ++ [e]). rewrite L', L, <- app_assoc. split; auto.
  rewrite aevs_app, A. simpl. destruct e; simpl in *; auto; try discriminate.
  match goal with a : option addr |- _ => destruct a; simpl in *; auto; discriminate end.
Qed.

Lemma evh_pull_q q c w0 w :
  log w = EUpPoll (UAItem (cid c)) :: log w0 ->
  exists H, EVH (qg q) w0 (qg (fst (q_push P q c w))) (snd (q_push P q c w)) H.
Proof.
  intros L0. pose proof (asuf_q_push q c w) as Ha.
  assert (Hfail : forall w', asuf w w' -> exists H, EVH (qg q) w0 (qg q) w' H).
  { intros w' A. exists []. apply EVH_asuf. eapply asuf_from_cons; eauto. }
  destruct q as [f|o]; simpl in *.
  - destruct (fub_try_push f c w) as [[f'| |] w1] eqn:E; cbn [fst snd] in *; try (apply Hfail; exact Ha).
    destruct (evh_pull_fub f c w0 w f' w1 L0 E) as (b & i & Hh). eexists; exact Hh.
  - unfold fob_try_push in *.
    destruct (fub_try_push (fo_inner o) (child_set_idx c (nin (fo_ord o))) w) as [[f'| |] w1] eqn:E; cbn [fst snd] in *;
      try (apply Hfail; exact Ha).
    destruct (evh_pull_fub (fo_inner o) (child_set_idx c (nin (fo_ord o))) w0 w f' w1 L0 E) as (b & i & Hh).
    eexists; exact Hh.
Qed.

Lemma fill_evh n a t w :
  exists H, EVH (qg (ad_q a)) w (qg (ad_q (fst (fst (fill P n a t w))))) (snd (fill P n a t w)) H.
Proof.
  revert a w. induction n as [|n IH]; intros a w; cbn [fill]; cbn [fst snd].
  - exists []. apply EVH_asuf. asq.
  - destruct (Nat.ltb (q_len (ad_q a)) (q_cap (ad_q a))); [|exists []; apply EVH_refl].
    destruct (ad_up a) as [u|]; [|exists []; apply EVH_refl].
    pose proof (up_poll_bal (ad_try a) u t w) as Hu. pose proof (asuf_up_poll (ad_try a) u t w) as Ha.
    destruct (up_poll (ad_try a) u t w) as [[u' r] w1]. cbn [fst snd] in Hu, Ha.
    destruct r as [c| | |e]; cbn [fst snd ad_q].
    + destruct (evh_pull_q (ad_q a) c w w1 Hu) as (H1 & E1).
      destruct (q_push P (ad_q a) c w1) as [q' w2]. cbn [fst snd] in *.
      destruct (IH {| ad_try := ad_try a; ad_up := Some u'; ad_q := q' |} w2) as (H2 & E2). cbn [ad_q] in E2.
      exists (H2 ++ H1). eapply EVH_trans; eauto.
    + exists []. apply EVH_asuf; auto.
    + exists []. apply EVH_asuf. eapply asuf_trans; [exact Ha|asq].
    + exists []. apply EVH_asuf; auto.
Qed.

Lemma adapter_poll_evh a t w :
  exists H, EVH (qg (ad_q a)) w (qg (ad_q (fst (fst (adapter_poll P a t w))))) (snd (adapter_poll P a t w)) H.
Proof.
  unfold adapter_poll. destruct (fill_evh (S (q_cap (ad_q a))) a t w) as (H1 & E1).
  destruct (fill P (S (q_cap (ad_q a))) a t w) as [[a1 e] w1]. cbn [fst snd] in *.
  destruct e as [tk|]; cbn [fst snd]; [exists H1; auto|].
  pose proof (q_poll_addr P (ad_kind a1) (ad_q a1) t w1) as Hq.
  pose proof (evc_q_poll (ad_kind a1) (ad_q a1) t w1) as He.
  destruct (q_poll P (ad_kind a1) (ad_q a1) t w1) as [[q sp] w2]. cbn [fst snd] in *.
  assert (H : EVH (qg (ad_q a)) w (qg q) w2 ([] ++ H1)) by (eapply EVH_trans; [exact E1|apply EVH_of_EVC; auto]).
  simpl in H. exists H1. destruct sp; cbn [fst snd ad_q]; auto. destruct (ad_up a1); cbn [fst snd ad_q]; auto.
Qed.

Lemma fec_loop_evh n a t w :
  exists H, EVH [fe_q a] w [fe_q (fst (fst (fec_loop P n a t w)))] (snd (fec_loop P n a t w)) H.
Proof.
  revert a w. induction n as [|n IH]; intros a w; cbn [fec_loop]; cbn [fst snd].
  - exists []. apply EVH_asuf. asq.
  - assert (Hpull : let r := (if Nat.ltb (fub_len (fe_q a)) (fub_cap (fe_q a)) then
                       match fe_up a with
                       | Some u =>
                           let '(u, r, w) := up_poll false u t w in
                           match r with
                           | UPItem c =>
                               match fub_try_push (fe_q a) c w with
                               | (PushOk f, w) => ({| fe_up := Some u; fe_q := f |}, true, w)
                               | (_, w) => ({| fe_up := Some u; fe_q := fe_q a |}, true, emit EStuck w)
                               end
                           | UPEnd => ({| fe_up := None; fe_q := fe_q a |}, false, emit EUpDrop w)
                           | _ => ({| fe_up := Some u; fe_q := fe_q a |}, false, w)
                           end
                       | None => (a, false, w)
                       end
                     else (a, false, w)) in
                    exists H, EVH [fe_q a] w [fe_q (fst (fst r))] (snd r) H).
    { cbv zeta. destruct (Nat.ltb (fub_len (fe_q a)) (fub_cap (fe_q a))); [|exists []; apply EVH_refl].
      destruct (fe_up a) as [u|]; [|exists []; apply EVH_refl].
      pose proof (up_poll_bal false u t w) as Hu. pose proof (asuf_up_poll false u t w) as Ha.
      destruct (up_poll false u t w) as [[u' r] w1]. cbn [fst snd] in Hu, Ha.
      destruct r as [c| | |e]; cbn [fst snd fe_q].
      - pose proof (asuf_fub_try_push (fe_q a) c w1) as Hpa.
        destruct (fub_try_push (fe_q a) c w1) as [[f| |] w2] eqn:E; cbn [fst snd fe_q] in *.
        + destruct (evh_pull_fub (fe_q a) c w w1 f w2 Hu E) as (b & i & Hh). eexists; exact Hh.
        + exists []. apply EVH_asuf. eapply asuf_trans; [exact Ha|]. eapply asuf_trans; [exact Hpa|asq].
        + exists []. apply EVH_asuf. eapply asuf_trans; [exact Ha|]. eapply asuf_trans; [exact Hpa|asq].
      - exists []. apply EVH_asuf; auto.
      - exists []. apply EVH_asuf. eapply asuf_trans; [exact Ha|asq].
      - exists []. apply EVH_asuf; auto. }
    cbv zeta in Hpull.
    destruct (if Nat.ltb (fub_len (fe_q a)) (fub_cap (fe_q a)) then _ else _) as [[a1 pulled] w1].
    destruct Hpull as (H1 & E1). cbn [fst snd] in *.
    pose proof (fub_poll_next_addr P KFut (fe_q a1) t w1) as Hp.
    pose proof (evc_fub_poll_next KFut (fe_q a1) t w1) as He.
    destruct (fub_poll_next P KFut (fe_q a1) t w1) as [[f sp] w2]. cbn [fst snd] in *. destruct Hp as [Hpb Hps].
    assert (Hmid : EVH [fe_q a] w [f] w2 ([] ++ H1)).
    { eapply EVH_trans; [exact E1|]. apply EVH_of_EVC; auto. apply keeps_single; auto. }
    simpl in Hmid.
    assert (Hgo : exists H, EVH [fe_q a] w [fe_q (fst (fst (fec_loop P n {| fe_up := fe_up a1; fe_q := f |} t w2)))]
                              (snd (fec_loop P n {| fe_up := fe_up a1; fe_q := f |} t w2)) H).
    { destruct (IH {| fe_up := fe_up a1; fe_q := f |} w2) as (H2 & E2). cbn [fe_q] in E2.
      exists (H2 ++ H1). eapply EVH_trans; eauto. }
    destruct sp as [| |tk c]; cbn [fst snd fe_q]; auto.
    + destruct pulled; auto. exists H1; auto.
    + destruct (fe_up a1); cbn [fst snd fe_q]; [|exists H1; auto]. destruct pulled; auto. exists H1; auto.
Qed.

(** ** one operation, with the homes of the children it pulled *)
Definition HSTEP (k : coll) (o : op) (w : world) (k' : coll) (w' : world) : Prop :=
  exists l H, log w' = l ++ log w
    /\ (forall c b i, In (c, b, i) (aevs l) -> at_addr (coll_groups k) b i c \/ In (c, b, i) H)
    /\ (forall b i c, at_addr (coll_groups k') b i c ->
          at_addr (coll_groups k) b i c \/ In (c, b, i) H \/ In c (taken_op k o k' l) \/ (In c (acc l) /\ ~ In c (ids3 H)))
    /\ cle (ids3 H) (acc l).

Lemma HSTEP_poll k k' t i w w1 r H :
  EVH (coll_groups k) w (coll_groups k') w1 H -> HSTEP k (OPoll t i) w k' (emit_ret r w1).
Proof.
  intros (l & L & E & S & C). destruct (asuf_emit_ret r w1) as (l2 & L2 & A2).
  exists (l2 ++ l), H. rewrite L2, L, app_assoc. split; [reflexivity|]. split; [|split].
  - intros c b j Hin. rewrite aevs_app, A2 in Hin. simpl in Hin. auto.
  - intros b j c Ha. destruct (S b j c Ha) as [|Hh]; auto.
  - intros x. rewrite acc_app, count_occ_app. specialize (C x). lia.
Qed.

(** an operation that logs no address event: what is held afterwards comes from [ASTEP] *)
Lemma HSTEP_quiet k o w k' w' : asuf w w' -> ASTEP k o w k' w' -> HSTEP k o w k' w'.
Proof.
  intros (l & L & A) (l' & L' & S). assert (l' = l) by (rewrite L in L'; apply app_inv_tail in L'; auto). subst l'.
  exists l, []. split; [exact L|]. split; [|split].
  - intros c b i Hin. rewrite A in Hin. contradiction.
  - intros b i c Ha. destruct (S b i c Ha) as [|Hin]; auto. right. right.
    apply in_app_or in Hin as [Hin|Hin]; [left; exact Hin|right; split; [exact Hin|intros []]].
  - apply cle_nil.
Qed.

Lemma do_poll_hstep t i k w : HSTEP k (OPoll t i) w (fst (do_poll P t k w)) (snd (do_poll P t k w)).
Proof.
  unfold do_poll.
  destruct k as [| | |f|f|u|u|q|q|a|a|j]; cbn [fst snd];
    try (apply HSTEP_quiet; [solve [asq]|apply ASTEP_same; exists []; reflexivity]).
  - pose proof (evc_fub_poll_next KFut f t w) as He. pose proof (fub_poll_next_addr P KFut f t w) as Ha.
    destruct (fub_poll_next P KFut f t w) as [[f' sp] w1]. cbn [fst snd] in *. destruct Ha as [A1 A2].
    apply HSTEP_poll with (H := []). apply EVH_of_EVC; auto. apply keeps_single; auto.
  - pose proof (evc_mb_poll_loop (S (fub_len f)) f t w) as He. pose proof (mb_poll_loop_addr P (S (fub_len f)) f t w) as Ha.
    unfold mb_poll_next. destruct (mb_poll_loop P (S (fub_len f)) f t w) as [[f' sp] w1]. cbn [fst snd] in *. destruct Ha as [A1 A2].
    apply HSTEP_poll with (H := []). apply EVH_of_EVC; auto. apply keeps_single; auto.
  - pose proof (evc_fu_poll_next false u t w) as He. pose proof (fu_poll_next_addr P false u t w) as Ha.
    destruct (fu_poll_next P false u t w) as [[u' sp] w1]. cbn [fst snd] in *.
    apply HSTEP_poll with (H := []). apply EVH_of_EVC; auto.
  - pose proof (evc_fu_poll_next true u t w) as He. pose proof (fu_poll_next_addr P true u t w) as Ha.
    destruct (fu_poll_next P true u t w) as [[u' sp] w1]. cbn [fst snd] in *.
    apply HSTEP_poll with (H := []). apply EVH_of_EVC; auto.
  - pose proof (evc_fob_poll_next KFut q t w) as He. pose proof (fob_poll_next_addr P KFut q t w) as Ha.
    destruct (fob_poll_next P KFut q t w) as [[q' sp] w1]. cbn [fst snd] in *.
    apply HSTEP_poll with (H := []). apply EVH_of_EVC; auto.
  - pose proof (evc_fo_poll_next q t w) as He. pose proof (fo_poll_next_addr P q t w) as Ha.
    destruct (fo_poll_next P q t w) as [[q' sp] w1]. cbn [fst snd] in *.
    apply HSTEP_poll with (H := []). apply EVH_of_EVC; auto.
  - destruct (adapter_poll_evh a t w) as (H & E).
    destruct (adapter_poll P a t w) as [[a' r] w1]. cbn [fst snd] in *. apply HSTEP_poll with (H := H). exact E.
  - destruct (fec_loop_evh (fec_fuel a) a t w) as (H & E). unfold fec_poll.
    destruct (fec_loop P (fec_fuel a) a t w) as [[a' r] w1]. cbn [fst snd] in *. apply HSTEP_poll with (H := H). exact E.
  - pose proof (evc_join_loop (S (fub_len (j_q j))) j t w) as He. pose proof (join_loop_addr P (S (fub_len (j_q j))) j t w) as Ha.
    unfold join_poll. destruct (join_loop P (S (fub_len (j_q j))) j t w) as [[j' r] w1]. cbn [fst snd] in *.
    apply HSTEP_poll with (H := []). apply EVH_of_EVC; auto.
Qed.

Lemma step_core_hstep k o w : cinv k w -> HSTEP k o w (fst (step_core P k o w)) (snd (step_core P k o w)).
Proof.
  intros Hc. pose proof (@step_core_astep P HP k o w Hc) as Ha. revert Ha.
  unfold step_core. destruct o as [ty p inits ups|c sc|c sc|c sc|c sc|t i|a| | | | ]; intros Ha.
  - apply HSTEP_quiet; auto. destruct k; cbn [snd]; try solve [asq]. apply asuf_build.
  - apply HSTEP_quiet; auto. apply asuf_do_push.
  - apply HSTEP_quiet; auto. apply asuf_do_push.
  - apply HSTEP_quiet; auto. apply asuf_do_push.
  - apply HSTEP_quiet; auto. apply asuf_do_push.
  - apply do_poll_hstep.
  - apply HSTEP_quiet; auto. cbn [snd]. apply asuf_do_act.
  - apply HSTEP_quiet; auto. cbn [snd]. destruct (observe P k); asq.
  - apply HSTEP_quiet; auto. cbn [snd]. asq.
  - (* drop: every child is dropped at its address; nothing is held afterwards *)
    destruct (evc_do_drop k w) as (l & L & E). exists l, []. split; [exact L|]. split; [|split].
    + intros c b i Hin. destruct (E c b i Hin) as [|[]]; auto.
    + intros b i c Hat. exfalso. unfold do_drop in Hat. destruct k; cbn [fst coll_groups] in Hat; destruct Hat as (g & [] & _).
    + apply cle_nil.
  - apply HSTEP_quiet; auto. cbn [snd]. unfold cleanup. apply asuf_cleanup_from.
Qed.

End WithParams.
