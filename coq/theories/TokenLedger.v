(** * TokenLedger: every output value produced inside the crate is handed out or dropped exactly
    once (C06, second half; C02 at the level of identities), over whole histories

    For the collections and adapters of futures (FuturesUnorderedBounded, FuturesUnordered, both
    ordered queues, the four buffered adapters):  an output is *produced* when a child answers
    Ready ([ECAns c RR / RX]) or the try-upstream yields an error; it is *handed out* when it
    appears in a [ret] event; *dropped inside* when an [odrop .. in] event names it; *parked* while
    it waits in the ordered queue's heap.  Balance of every call and of every history:

        parked now ++ handed out ++ dropped inside   is a permutation of   produced. *)
From FB Require Import Base Syntax World SlotMap Fub Unbounded Ordered Adapters Step Tactics SlotMapProofs WorldProofs FubProofs
  UnboundedProofs OrderedProofs AdaptersProofs StepProofs Reach.
From Coq Require Import Permutation.

Definition prod_ev (e : event) : list tok :=
  match e with
  | ECAns c RR => [TOut c]
  | ECAns c RX => [TErr c]
  | EUpPoll (UAErr t) => [t]
  | _ => []
  end.
Definition idr_ev (e : event) : list tok := match e with EODrop t true => [t] | _ => [] end.
Definition hand_ev (e : event) : list tok := match e with ERet r => ret_toks r | _ => [] end.
Definition prodF (l : list event) : list tok := flat_map prod_ev l.
Definition idr (l : list event) : list tok := flat_map idr_ev l.
Definition handed (l : list event) : list tok := flat_map hand_ev l.

Lemma prodF_app a b : prodF (a ++ b) = prodF a ++ prodF b. Proof. apply flat_map_app. Qed.
Lemma idr_app a b : idr (a ++ b) = idr a ++ idr b. Proof. apply flat_map_app. Qed.
Lemma handed_app a b : handed (a ++ b) = handed a ++ handed b. Proof. apply flat_map_app. Qed.

(** the log grows by a piece that produces, hands out and drops no output *)
Definition bsuf (w w' : world) : Prop :=
  exists l, log w' = l ++ log w /\ prodF l = [] /\ idr l = [] /\ handed l = [].

Lemma bsuf_refl w : bsuf w w. Proof. exists []. auto. Qed.
Lemma bsuf_trans w1 w2 w3 : bsuf w1 w2 -> bsuf w2 w3 -> bsuf w1 w3.
Proof.
  intros (l1 & H1 & C1 & A1 & R1) (l2 & H2 & C2 & A2 & R2). exists (l2 ++ l1).
  rewrite H2, H1, app_assoc, prodF_app, idr_app, handed_app, C1, C2, A1, A2, R1, R2. auto.
Qed.
Lemma bsuf_same w w' : log w' = log w -> bsuf w w'. Proof. intros H. exists []. auto. Qed.
Definition bq_ev (e : event) : bool :=
  match e with
  | ECAns _ RR | ECAns _ RX => false
  | EUpPoll (UAErr _) => false
  | EODrop _ true => false
  | ERet r => match ret_toks r with [] => true | _ => false end
  | _ => true
  end.
Lemma bsuf_emit e w : bq_ev e = true -> bsuf w (emit e w).
Proof.
  intros H. exists [e]. split; [reflexivity|]. unfold prodF, idr, handed; simpl. rewrite !app_nil_r.
  destruct e; simpl in *; auto;
    repeat match goal with
           | x : res |- _ => destruct x; simpl in *; auto; try discriminate
           | x : upans |- _ => destruct x; simpl in *; auto; try discriminate
           | x : bool |- _ => destruct x; simpl in *; auto; try discriminate
           end.
  destruct (ret_toks r); [auto|discriminate].
Qed.

Ltac bs := repeat first [apply bsuf_refl | (apply bsuf_emit; reflexivity) | (apply bsuf_same; reflexivity)
                        | (eapply bsuf_trans; [|apply bsuf_emit; reflexivity]) ].

Lemma bsuf_notify b w : bsuf w (notify b w).
Proof.
  unfold notify. destruct (get_blk w b); [|bs]. destruct (breg b0); [|bs].
  eapply bsuf_trans; [|apply bsuf_emit; reflexivity]. bs.
Qed.

Lemma bsuf_enqueue b s w : bsuf w (snd (enqueue_slot b s w)).
Proof. unfold enqueue_slot. destruct (get_blk w b); [|bs]. destruct (nth_error (bflags b0) s) as [[|]|]; bs. Qed.

Lemma bsuf_wake_slot b s w : bsuf w (wake_slot b s w).
Proof.
  unfold wake_slot. change (get_blk (g_wake w) b) with (get_blk w b).
  assert (H0 : bsuf w (g_wake w)) by bs.
  destruct (get_blk w b) as [k|]; [|eapply bsuf_trans; [exact H0|bs]].
  destruct (bfreed k); [eapply bsuf_trans; [exact H0|bs]|].
  pose proof (bsuf_enqueue b s (g_wake w)) as He.
  destruct (enqueue_slot b s (g_wake w)) as [q w1]. cbn [snd] in He.
  destruct q; [|eapply bsuf_trans; [exact H0|exact He]].
  eapply bsuf_trans; [exact H0|]. eapply bsuf_trans; [exact He|]. apply bsuf_notify.
Qed.

Lemma bsuf_dec_strong b w : bsuf w (dec_strong b w).
Proof.
  unfold dec_strong. destruct (get_blk w b) as [k|]; [|bs]. destruct (bfreed k); [bs|].
  destruct (bstrong k) as [|[|n]]; bs.
Qed.

Lemma bsuf_inc_strong b w : bsuf w (inc_strong b w).
Proof. unfold inc_strong. destruct (get_blk w b) as [k|]; [|bs]. destruct (bfreed k); bs. Qed.

Lemma bsuf_wake_ref x w : bsuf w (wake_ref_handle x w).
Proof. destruct x; simpl; [bs|apply bsuf_wake_slot]. Qed.
Lemma bsuf_drop_val x w : bsuf w (drop_handle_val x w).
Proof. destruct x; simpl; [bs|apply bsuf_dec_strong]. Qed.
Lemma bsuf_clone_val x w : bsuf w (clone_handle_val x w).
Proof.
  destruct x; simpl; [bs|]. eapply bsuf_trans; [apply bsuf_inc_strong|]. bs.
Qed.

Lemma bsuf_do_act cw a w : bsuf w (do_act cw a w).
Proof.
  destruct a; cbn [do_act].
  - destruct cw; [apply bsuf_wake_ref|bs].
  - destruct cw; [apply bsuf_clone_val|bs].
  - destruct (get_handle w h); [apply bsuf_wake_ref|bs].
  - destruct (get_handle w h); [|bs].
    eapply bsuf_trans; [|apply bsuf_drop_val]. eapply bsuf_trans; [|apply bsuf_wake_ref]. bs.
  - destruct (get_handle w h); [|bs]. eapply bsuf_trans; [|apply bsuf_drop_val]. bs.
  - destruct (get_handle w h); [apply bsuf_clone_val|bs].
Qed.

Lemma bsuf_do_acts cw l w : bsuf w (do_acts cw l w).
Proof.
  unfold do_acts. revert w; induction l as [|a l IH]; simpl; intros w; [bs|].
  eapply bsuf_trans; [apply bsuf_do_act|apply IH].
Qed.

Lemma bsuf_run_inj p k sl w : bsuf w (run_inj p k sl w).
Proof.
  unfold run_inj. destruct (find_inj p k (inj_pts (winj w))); [bs|].
  eapply bsuf_trans; [apply (bsuf_emit (EInj p k sl)); reflexivity|apply bsuf_do_acts].
Qed.

Lemma bsuf_clear_flag b i w : bsuf w (clear_flag b i w).
Proof. unfold clear_flag. destruct (get_blk w b); bs. Qed.

Lemma bsuf_pop b w : bsuf w (snd (pop b w)).
Proof.
  unfold pop. assert (H0 : bsuf w (set_popk (S (popk w)) w)) by bs.
  destruct (forced_inc (S (popk w)) (set_popk (S (popk w)) w)); cbn [snd].
  - eapply bsuf_trans; [exact H0|apply bsuf_run_inj].
  - change (get_blk (set_popk (S (popk w)) w) b) with (get_blk w b).
    destruct (get_blk w b) as [kb|]; cbn [snd]; [|bs].
    destruct (bqueue kb) as [|i q]; cbn [snd].
    + eapply bsuf_trans; [exact H0|apply bsuf_run_inj].
    + eapply bsuf_trans; [|apply bsuf_run_inj]. eapply bsuf_trans; [|apply bsuf_clear_flag].
      eapply bsuf_trans; [|apply bsuf_run_inj]. bs.
Qed.

Lemma bsuf_self_wake b t w : bsuf w (self_wake b t w).
Proof. unfold self_wake. eapply bsuf_trans; [|apply bsuf_emit; reflexivity]. destruct (get_blk w b); bs. Qed.

Lemma bsuf_register b t w : bsuf w (register b t w).
Proof.
  unfold register. eapply bsuf_trans; [|apply bsuf_run_inj]. destruct (get_blk w b); bs.
Qed.


Set Implicit Arguments.

(** ** a piece of log with a given production *)
Definition tsuf (w w' : world) (pr : list tok) : Prop :=
  exists l, log w' = l ++ log w /\ prodF l = pr /\ idr l = [] /\ handed l = [].

Lemma tsuf_of_bsuf w w' : bsuf w w' -> tsuf w w' [].
Proof. intros (l & H & A & B & C). exists l. auto. Qed.

Lemma tsuf_trans w1 w2 w3 p1 p2 : tsuf w1 w2 p1 -> tsuf w2 w3 p2 -> tsuf w1 w3 (p2 ++ p1).
Proof.
  intros (l1 & H1 & A1 & B1 & C1) (l2 & H2 & A2 & B2 & C2). exists (l2 ++ l1).
  rewrite H2, H1, app_assoc, prodF_app, idr_app, handed_app, A1, A2, B1, B2, C1, C2. auto.
Qed.

Lemma tsuf_bsuf_r w1 w2 w3 p : tsuf w1 w2 p -> bsuf w2 w3 -> tsuf w1 w3 p.
Proof. intros H B. apply tsuf_of_bsuf in B. pose proof (tsuf_trans H B) as T. simpl in T. exact T. Qed.

Lemma tsuf_bsuf_l w1 w2 w3 p : bsuf w1 w2 -> tsuf w2 w3 p -> tsuf w1 w3 p.
Proof. intros B H. apply tsuf_of_bsuf in B. pose proof (tsuf_trans B H) as T. rewrite app_nil_r in T. exact T. Qed.

Definition tok_of (id : N) (r : res) : list tok :=
  match r with RR => [TOut id] | RX => [TErr id] | _ => [] end.

Lemma poll_child_tok k c b s w :
  let '(c', r, w') := poll_child k c b s w in tsuf w w' (tok_of (cid c) r) /\ cid c' = cid c.
Proof.
  unfold poll_child. destruct (cdone c).
  - split; auto. apply tsuf_of_bsuf. bs.
  - destruct (cscript c) as [|[acts r0] rest].
    + split; auto. apply tsuf_of_bsuf. bs.
    + split; auto. set (r := eff_res k r0).
      assert (Hb : bsuf w (do_acts (Some (HChild b s)) acts (emit (ECPoll (cid c) b s (b, s)) (g_poll w)))).
      { eapply bsuf_trans; [|apply bsuf_do_acts]. bs. }
      destruct Hb as (l & H & A & B & C).
      exists (ECAns (cid c) r :: l). split; [simpl; rewrite H; reflexivity|].
      unfold prodF, idr, handed in *; simpl. rewrite A, B, C, app_nil_r. splits; auto;
        try (destruct r; reflexivity).
Qed.

Definition pres_tok (pr : pres) : list tok :=
  match pr with PReady _ c r => tok_of (cid c) r | _ => [] end.

Lemma drain_tok k n f t w :
  tsuf w (snd (drain k n f t w)) (pres_tok (snd (fst (drain k n f t w)))).
Proof.
  revert f w. induction n as [|n IH]; intros f w; cbn [drain]; cbn [fst snd pres_tok].
  - apply tsuf_of_bsuf. apply bsuf_self_wake.
  - pose proof (bsuf_pop (blk f) w) as Hp. destruct (pop (blk f) w) as [pr w1]. cbn [snd] in Hp.
    destruct pr as [| |i]; cbn [fst snd pres_tok].
    + apply tsuf_of_bsuf; auto.
    + apply tsuf_of_bsuf. eapply bsuf_trans; [exact Hp|apply bsuf_self_wake].
    + destruct (sm_get (tasks f) i) as [c|] eqn:Hg.
      * pose proof (poll_child_tok k c (blk f) i w1) as Hc.
        destruct (poll_child k c (blk f) i w1) as [[c' r] w2]. destruct Hc as [Hc Hid].
        destruct (is_ready r) eqn:Hr; cbn [fst snd pres_tok].
        -- rewrite Hid. eapply tsuf_bsuf_l; eauto.
        -- assert (Hn : tok_of (cid c) r = []) by (destruct r; try discriminate; reflexivity).
           rewrite Hn in Hc. eapply tsuf_bsuf_l; [exact Hp|].
           pose proof (tsuf_trans Hc (IH {| tasks := sm_set (tasks f) i c'; blk := blk f |} w2)) as T.
           rewrite app_nil_r in T. exact T.
      * eapply tsuf_bsuf_l; [exact Hp|apply IH].
Qed.

Lemma bsuf_fub_remove f i w : bsuf w (snd (fub_remove f i w)).
Proof. unfold fub_remove. destruct (sm_get (tasks f) i); cbn [snd]; bs. Qed.

Lemma bsuf_fub_drop f w : bsuf w (fub_drop f w).
Proof.
  unfold fub_drop. eapply bsuf_trans; [|apply bsuf_dec_strong].
  unfold drop_children. generalize (sm_children (tasks f)). intros l. revert w.
  induction l as [|p l IH]; intros w; simpl; [bs|]. eapply bsuf_trans; [|apply IH]. bs.
Qed.

Section WithParams.
Variable P : params.
Hypothesis HP : params_ok P.

Lemma poll_inner_no_remove_tok k f t w :
  tsuf w (snd (poll_inner_no_remove P k f t w)) (pres_tok (snd (fst (poll_inner_no_remove P k f t w)))).
Proof.
  unfold poll_inner_no_remove. destruct (Nat.eqb (fub_len f) 0); cbn [fst snd pres_tok]; [apply tsuf_of_bsuf; bs|].
  eapply tsuf_bsuf_l; [apply bsuf_register|apply drain_tok].
Qed.

Definition sp_tok (sp : spoll) : list tok := match sp with SItem tk _ => [tk] | _ => [] end.

Lemma eff_res_fut k r0 : k <> KSrc -> match eff_res k r0 with RI | RE => False | _ => True end.
Proof. intros Hk. destruct k, r0; simpl; auto; congruence. Qed.

(** futures (not merge sources): a ready child's token is what the poll hands over *)
Lemma drain_ready_kind k n f t w i c r :
  k <> KSrc -> snd (fst (drain k n f t w)) = PReady i c r -> r = RR \/ r = RX.
Proof.
  intros Hk. revert f w. induction n as [|n IH]; intros f w; cbn [drain]; cbn [fst snd]; [discriminate|].
  destruct (pop (blk f) w) as [pr w1]. destruct pr as [| |j]; cbn [fst snd]; try discriminate.
  destruct (sm_get (tasks f) j) as [c0|]; [|apply IH].
  unfold poll_child. destruct (cdone c0); cbn [fst snd].
  - cbn [is_ready]. apply IH.
  - destruct (cscript c0) as [|[acts r0] rest]; cbn [fst snd]; [cbn [is_ready]; apply IH|].
    pose proof (eff_res_fut r0 Hk) as He. destruct (eff_res k r0) eqn:E; cbn [is_ready fst snd]; try contradiction.
    + apply IH.
    + intros H; inversion H; auto.
    + intros H; inversion H; auto.
Qed.

Lemma fub_poll_next_tok k f t w :
  k <> KSrc ->
  tsuf w (snd (fub_poll_next P k f t w)) (sp_tok (snd (fst (fub_poll_next P k f t w)))).
Proof.
  intros Hk. unfold fub_poll_next, poll_inner.
  pose proof (poll_inner_no_remove_tok k f t w) as H.
  assert (Hkind : forall i c r, snd (fst (poll_inner_no_remove P k f t w)) = PReady i c r -> r = RR \/ r = RX).
  { unfold poll_inner_no_remove. destruct (Nat.eqb (fub_len f) 0); cbn [fst snd]; [discriminate|].
    intros i c r. apply drain_ready_kind; auto. }
  destruct (poll_inner_no_remove P k f t w) as [[f1 pr] w1]. cbn [fst snd] in *.
  destruct pr as [| |i c r]; cbn [fst snd sp_tok pres_tok] in *; auto.
  pose proof (bsuf_fub_remove f1 i w1) as Hr. destruct (fub_remove f1 i w1) as [f2 w2]. cbn [fst snd sp_tok] in *.
  destruct (Hkind i c r eq_refl) as [-> | ->]; (eapply tsuf_bsuf_r; [exact H|exact Hr]).
Qed.


(** ** the unbounded collection of futures *)
Lemma fu_loop_tok n u t w :
  tsuf w (snd (fu_loop P false n u t w)) (sp_tok (snd (fst (fu_loop P false n u t w)))).
Proof.
  revert u w. induction n as [|n IH]; intros u w; cbn [fu_loop].
  - destruct (Nat.eqb (rem u) 0); cbn [fst snd sp_tok]; apply tsuf_of_bsuf; bs.
  - set (cur := if Nat.leb (length (groups u)) (cursor u) then 0 else cursor u).
    destruct (nth_error (groups u) cur) as [g|]; [|cbn [fst snd sp_tok]; apply tsuf_of_bsuf; bs].
    unfold poll_group.
    pose proof (@fub_poll_next_tok KFut g t w ltac:(discriminate)) as Hp.
    destruct (fub_poll_next P KFut g t w) as [[g' sp] w1]. cbn [fst snd] in Hp.
    destruct sp as [| |tk c]; cbn [sp_tok] in Hp.
    + pose proof (tsuf_trans Hp (IH (set_groups u (upd (groups u) cur g') (S cur)) w1)) as T.
      rewrite app_nil_r in T. exact T.
    + destruct (remove_nth (groups u) cur) as [|g0 gs0]; [cbn [fst snd sp_tok]; exact Hp|].
      destruct (Nat.eqb cur (length (g0 :: gs0))).
      * pose proof (tsuf_trans Hp (IH (set_groups u ((g0 :: gs0) ++ [g']) 0) w1)) as T. rewrite app_nil_r in T. exact T.
      * assert (Hd : tsuf w (fub_drop g' w1) []) by (eapply tsuf_bsuf_r; [exact Hp|apply bsuf_fub_drop]).
        pose proof (tsuf_trans Hd (IH (set_groups u (g0 :: gs0) cur) (fub_drop g' w1))) as T. rewrite app_nil_r in T. exact T.
    + cbn [fst snd sp_tok]. exact Hp.
Qed.

Lemma fu_poll_next_tok u t w :
  tsuf w (snd (fu_poll_next P false u t w)) (sp_tok (snd (fst (fu_poll_next P false u t w)))).
Proof.
  unfold fu_poll_next. destruct (groups u); [cbn [fst snd sp_tok]; apply tsuf_of_bsuf; bs|]. apply fu_loop_tok.
Qed.

(** ** constructors and pushes say nothing about outputs *)
Lemma bsuf_count_alloc n w : bsuf w (count_alloc n w). Proof. bs. Qed.
Lemma bsuf_alloc_block cap w : bsuf w (snd (alloc_block cap w)).
Proof. unfold alloc_block. cbn [snd]. eapply bsuf_trans; [|apply (bsuf_emit (EBlkAlloc _ _)); reflexivity]. bs. Qed.
Lemma bsuf_fub_new cap w : bsuf w (snd (fub_new cap w)).
Proof.
  unfold fub_new. pose proof (bsuf_alloc_block cap (count_alloc (if Nat.eqb cap 0 then 0 else 1) w)) as H.
  destruct (alloc_block cap (count_alloc (if Nat.eqb cap 0 then 0 else 1) w)) as [b w1]. cbn [snd] in *.
  eapply bsuf_trans; [apply bsuf_count_alloc|exact H].
Qed.
Lemma bsuf_push_all b i n w : bsuf w (push_all b i n w).
Proof.
  revert i w. induction n as [|n IH]; intros i w; cbn [push_all]; [bs|].
  eapply bsuf_trans; [|apply IH]. eapply bsuf_trans; [|apply bsuf_enqueue]. bs.
Qed.
Lemma bsuf_fub_from_list l w : bsuf w (snd (fub_from_list l w)).
Proof.
  unfold fub_from_list.
  pose proof (bsuf_alloc_block (length l) (count_alloc (if Nat.eqb (length l) 0 then 0 else 1) w)) as H.
  destruct (alloc_block (length l) (count_alloc (if Nat.eqb (length l) 0 then 0 else 1) w)) as [b w1]. cbn [snd] in *.
  eapply bsuf_trans; [apply bsuf_count_alloc|]. eapply bsuf_trans; [exact H|apply bsuf_push_all].
Qed.
Lemma bsuf_fub_try_push f c w : bsuf w (snd (fub_try_push f c w)).
Proof.
  unfold fub_try_push. destruct (sm_insert (tasks f) c); cbn [snd]; [|bs|bs].
  eapply bsuf_trans; [|apply bsuf_enqueue]. bs.
Qed.
Lemma bsuf_push_group u g w : bsuf w (snd (push_group u g w)).
Proof. unfold push_group. destruct (vec_grow _ _). cbn [snd]. bs. Qed.

Lemma bsuf_fu_push mrg u c w : bsuf w (snd (fu_push P mrg u c w)).
Proof.
  unfold fu_push. cbn [groups rem cursor gcap].
  set (u0 := {| groups := groups u; rem := if mrg then rem u else S (rem u); cursor := cursor u; gcap := gcap u |}).
  assert (H1 : bsuf w (snd (match groups u with
                            | [] => let '(g, w0) := fub_new (pMinCap P) w in push_group u0 g w0
                            | _ :: _ => (u0, w) end))).
  { destruct (groups u); [|cbn [snd]; bs].
    pose proof (bsuf_fub_new (pMinCap P) w) as A. destruct (fub_new (pMinCap P) w) as [g w0]. cbn [snd] in A.
    eapply bsuf_trans; [exact A|apply bsuf_push_group]. }
  destruct (match groups u with [] => _ | _ :: _ => _ end) as [u1 w1]. cbn [snd] in H1.
  destruct (last_opt (groups u1)) as [lastg|]; [|cbn [snd]; eapply bsuf_trans; [exact H1|bs]].
  pose proof (bsuf_fub_try_push lastg c w1) as Hp.
  destruct (fub_try_push lastg c w1) as [[g'| |] w2]; cbn [snd] in *.
  - eapply bsuf_trans; eauto.
  - pose proof (bsuf_fub_new (fub_cap lastg * pGrowth P) w2) as B.
    destruct (fub_new (fub_cap lastg * pGrowth P) w2) as [gnew w3]. cbn [snd] in B.
    pose proof (bsuf_fub_try_push gnew c w3) as Hp2.
    destruct (fub_try_push gnew c w3) as [[g'| |] w4]; cbn [snd] in *.
    + eapply bsuf_trans; [exact H1|]. eapply bsuf_trans; [exact Hp|]. eapply bsuf_trans; [exact B|].
      eapply bsuf_trans; [exact Hp2|apply bsuf_push_group].
    + eapply bsuf_trans; [exact H1|]. eapply bsuf_trans; [exact Hp|]. eapply bsuf_trans; [exact B|].
      eapply bsuf_trans; [exact Hp2|bs].
    + eapply bsuf_trans; [exact H1|]. eapply bsuf_trans; [exact Hp|]. eapply bsuf_trans; [exact B|].
      eapply bsuf_trans; [exact Hp2|bs].
  - eapply bsuf_trans; eauto.
Qed.

Lemma bsuf_fu_with_capacity n w : bsuf w (snd (fu_with_capacity n w)).
Proof.
  unfold fu_with_capacity. destruct (Nat.eqb n 0); [cbn [snd]; bs|].
  pose proof (bsuf_fub_new n w) as A. destruct (fub_new n w) as [g w1]. cbn [snd] in *. eapply bsuf_trans; [exact A|bs].
Qed.

Lemma bsuf_fu_from_list mrg h l w : bsuf w (snd (fu_from_list P mrg h l w)).
Proof.
  unfold fu_from_list.
  assert (H0 : bsuf w (snd (if mrg then (fu_empty, w) else fu_with_capacity (Nat.max h (pMinCap P)) w))).
  { destruct mrg; [cbn [snd]; bs|apply bsuf_fu_with_capacity]. }
  destruct (if mrg then (fu_empty, w) else fu_with_capacity (Nat.max h (pMinCap P)) w) as [u0 w0]. cbn [snd] in H0.
  eapply bsuf_trans; [exact H0|]. clear H0. revert u0 w0. induction l as [|c l IH]; intros u0 w0; simpl; [bs|].
  pose proof (bsuf_fu_push mrg u0 c w0) as Hp. destruct (fu_push P mrg u0 c w0) as [u1 w1]. cbn [fst snd] in *.
  eapply bsuf_trans; [exact Hp|apply IH].
Qed.

(** ** the ordered queues: outputs that arrive out of turn are parked *)
Definition parked (o : ord) : list tok := map snd (oheap o).

Definition TBAL (pk : list tok) (w : world) (hd : list tok) (pk' : list tok) (w' : world) : Prop :=
  exists l, log w' = l ++ log w /\ idr l = [] /\ handed l = [] /\ Permutation (pk' ++ hd) (pk ++ prodF l).

Lemma TBAL_of_tsuf pk w w' pr : tsuf w w' pr -> TBAL pk w pr pk w'.
Proof. intros (l & H & A & B & C). exists l. splits; auto. rewrite A. reflexivity. Qed.

Lemma heap_min_remove h i tk : heap_min h = Some (i, tk) -> Permutation h ((i, tk) :: heap_remove i h).
Proof.
  revert i tk. induction h as [|[xi xt] tl IH]; intros i tk; simpl; [discriminate|].
  destruct (heap_min tl) as [[yi yt]|] eqn:Hm; simpl.
  - destruct (Z.ltb_spec yi xi) as [Hlt|Hge]; intros E; inversion E; subst.
    + destruct (Z.eqb_spec xi i) as [Heq|Hne]; [lia|]. rewrite (IH i tk eq_refl) at 1. apply perm_swap.
    + rewrite Z.eqb_refl. reflexivity.
  - intros E; inversion E; subst. rewrite Z.eqb_refl. reflexivity.
Qed.

Lemma ord_try_release_tok o tk o' :
  ord_try_release P o = Some (tk, o') -> Permutation (parked o) (tk :: parked o').
Proof.
  unfold ord_try_release. destruct (heap_min (oheap o)) as [[i t0]|] eqn:Hm; [|discriminate].
  destruct (Z.eqb i (nout o)); [|discriminate]. intros E; inversion E; subst. unfold parked. simpl.
  apply (Permutation_map snd (heap_min_remove _ Hm)).
Qed.

Lemma parked_rebase o : parked (ord_rebase P o) = parked o.
Proof. unfold parked, ord_rebase. simpl. rewrite map_map. reflexivity. Qed.

Lemma ord_park_tok o i tk w :
  parked (fst (ord_park o i tk w)) = parked o ++ [tk] /\ bsuf w (snd (ord_park o i tk w)).
Proof.
  unfold ord_park. destruct (vec_grow _ _). cbn [fst snd]. unfold parked. simpl. rewrite map_app. split; auto. bs.
Qed.

Lemma fob_loop_tok k n q t w :
  k <> KSrc ->
  TBAL (parked (fo_ord q)) w (sp_tok (snd (fst (fob_loop P k n q t w))))
       (parked (fo_ord (fst (fst (fob_loop P k n q t w))))) (snd (fob_loop P k n q t w)).
Proof.
  intros Hk. revert q w. induction n as [|n IH]; intros q w; cbn [fob_loop]; cbn [fst snd sp_tok].
  - apply (@TBAL_of_tsuf _ _ _ []). apply tsuf_of_bsuf. bs.
  - pose proof (@fub_poll_next_tok k (fo_inner q) t w Hk) as Hp.
    destruct (fub_poll_next P k (fo_inner q) t w) as [[f sp] w1]. cbn [fst snd] in Hp.
    destruct sp as [| |tk c]; cbn [fst snd sp_tok fo_ord] in *; try (apply TBAL_of_tsuf; exact Hp).
    destruct (Z.eqb (cidx c) (nout (fo_ord q))); cbn [fst snd sp_tok fo_ord].
    + apply (TBAL_of_tsuf (parked (fo_ord q)) Hp).
    + destruct (ord_park_tok (fo_ord q) (cidx c) tk w1) as [Hpk Hb].
      destruct (ord_park (fo_ord q) (cidx c) tk w1) as [o w2]. cbn [fst snd] in *.
      destruct (IH {| fo_inner := f; fo_ord := o |} w2) as (l2 & H2 & I2 & D2 & P2). cbn [fo_ord] in *.
      destruct (tsuf_bsuf_r Hp Hb) as (l1 & H1 & A1 & B1 & C1).
      exists (l2 ++ l1). rewrite H2, H1, app_assoc, idr_app, handed_app, prodF_app, I2, D2, B1, C1, A1. splits; auto.
      rewrite P2, Hpk. rewrite <- !app_assoc. apply Permutation_app_head. apply Permutation_app_comm.
Qed.

Lemma fob_poll_next_tok k q t w :
  k <> KSrc ->
  TBAL (parked (fo_ord q)) w (sp_tok (snd (fst (fob_poll_next P k q t w))))
       (parked (fo_ord (fst (fst (fob_poll_next P k q t w))))) (snd (fob_poll_next P k q t w)).
Proof.
  intros Hk. unfold fob_poll_next.
  assert (Hr : parked (fo_ord (fob_rebase P q)) = parked (fo_ord q)).
  { unfold fob_rebase. destruct (msb_set P (nout (fo_ord q))); auto. simpl. apply parked_rebase. }
  destruct (ord_try_release P (fo_ord (fob_rebase P q))) as [[tk o]|] eqn:Hrel; cbn [fst snd sp_tok fo_ord].
  - exists []. simpl. splits; auto. rewrite app_nil_r, <- Hr. rewrite (ord_try_release_tok _ Hrel).
    apply Permutation_sym. apply Permutation_cons_append.
  - rewrite <- Hr. apply fob_loop_tok; auto.
Qed.

Lemma fo_loop_tok n q t w :
  TBAL (parked (fu_ord q)) w (sp_tok (snd (fst (fo_loop P n q t w))))
       (parked (fu_ord (fst (fst (fo_loop P n q t w))))) (snd (fo_loop P n q t w)).
Proof.
  revert q w. induction n as [|n IH]; intros q w; cbn [fo_loop]; cbn [fst snd sp_tok].
  - apply (@TBAL_of_tsuf _ _ _ []). apply tsuf_of_bsuf. bs.
  - pose proof (fu_poll_next_tok (fu_inner q) t w) as Hp.
    destruct (fu_poll_next P false (fu_inner q) t w) as [[u sp] w1]. cbn [fst snd] in Hp.
    destruct sp as [| |tk c]; cbn [fst snd sp_tok fu_ord] in *; try (apply TBAL_of_tsuf; exact Hp).
    destruct (Z.eqb (cidx c) (nout (fu_ord q))); cbn [fst snd sp_tok fu_ord].
    + apply (TBAL_of_tsuf (parked (fu_ord q)) Hp).
    + destruct (ord_park_tok (fu_ord q) (cidx c) tk w1) as [Hpk Hb].
      destruct (ord_park (fu_ord q) (cidx c) tk w1) as [o w2]. cbn [fst snd] in *.
      destruct (IH {| fu_inner := u; fu_ord := o |} w2) as (l2 & H2 & I2 & D2 & P2). cbn [fu_ord] in *.
      destruct (tsuf_bsuf_r Hp Hb) as (l1 & H1 & A1 & B1 & C1).
      exists (l2 ++ l1). rewrite H2, H1, app_assoc, idr_app, handed_app, prodF_app, I2, D2, B1, C1, A1. splits; auto.
      rewrite P2, Hpk. rewrite <- !app_assoc. apply Permutation_app_head. apply Permutation_app_comm.
Qed.

Lemma fo_poll_next_tok q t w :
  TBAL (parked (fu_ord q)) w (sp_tok (snd (fst (fo_poll_next P q t w))))
       (parked (fu_ord (fst (fst (fo_poll_next P q t w))))) (snd (fo_poll_next P q t w)).
Proof.
  unfold fo_poll_next.
  assert (Hr : parked (fu_ord (fo_rebase P q)) = parked (fu_ord q)).
  { unfold fo_rebase. destruct (msb_set P (nout (fu_ord q))); auto. simpl. apply parked_rebase. }
  destruct (ord_try_release P (fu_ord (fo_rebase P q))) as [[tk o]|] eqn:Hrel; cbn [fst snd sp_tok fu_ord].
  - exists []. simpl. splits; auto. rewrite app_nil_r, <- Hr. rewrite (ord_try_release_tok _ Hrel).
    apply Permutation_sym. apply Permutation_cons_append.
  - rewrite <- Hr. apply fo_loop_tok.
Qed.


(** ** adapters *)
Lemma tok_eq_dec : forall a b : tok, {a = b} + {a <> b}.
Proof. decide equality; try apply N.eq_dec; apply Nat.eq_dec. Qed.

Ltac permtok :=
  rewrite (Permutation_count_occ tok_eq_dec) in *;
  let x := fresh "x" in intros x;
  repeat match goal with H : forall y : tok, _ |- _ => specialize (H x) end;
  rewrite ?count_occ_app in *; simpl in *; try lia.

Lemma TBAL_trans pk w hd1 pk1 w1 hd2 pk2 w2 :
  TBAL pk w hd1 pk1 w1 -> TBAL pk1 w1 hd2 pk2 w2 -> TBAL pk w (hd1 ++ hd2) pk2 w2.
Proof.
  intros (l1 & H1 & I1 & D1 & P1) (l2 & H2 & I2 & D2 & P2). exists (l2 ++ l1).
  rewrite H2, H1, app_assoc, idr_app, handed_app, prodF_app, I1, I2, D1, D2. splits; auto. permtok.
Qed.

Definition parked_q (q : queue) : list tok := match q with QU _ => [] | QO o => parked (fo_ord o) end.

Lemma up_poll_tok try u t w :
  tsuf w (snd (up_poll try u t w)) (match snd (fst (up_poll try u t w)) with UPErr e => [e] | _ => [] end).
Proof.
  unfold up_poll. destruct (us_ended u); cbn [fst snd]; [apply tsuf_of_bsuf; bs|].
  destruct (us_steps u) as [|[s|a| |] rest]; cbn [fst snd]; try (apply tsuf_of_bsuf; bs).
  - apply tsuf_of_bsuf. eapply bsuf_trans; [|apply bsuf_do_acts]. bs.
  - destruct try; cbn [fst snd]; [|apply tsuf_of_bsuf; bs].
    exists [EUpPoll (UAErr (TUp (us_idx u)))]. splits; reflexivity.
Qed.

Lemma q_push_tok q c w : parked_q (fst (q_push P q c w)) = parked_q q /\ bsuf w (snd (q_push P q c w)).
Proof.
  destruct q as [f|o]; simpl.
  - pose proof (bsuf_fub_try_push f c w) as H. destruct (fub_try_push f c w) as [[f'| |] w1]; cbn [fst snd] in *; split; auto;
      try (eapply bsuf_trans; [exact H|bs]).
  - unfold fob_try_push.
    pose proof (bsuf_fub_try_push (fo_inner o) (child_set_idx c (nin (fo_ord o))) w) as H.
    destruct (fub_try_push (fo_inner o) (child_set_idx c (nin (fo_ord o))) w) as [[f'| |] w1]; cbn [fst snd] in *; split; auto;
      try (eapply bsuf_trans; [exact H|bs]).
Qed.

Definition opt_tok (e : option tok) : list tok := match e with Some t => [t] | None => [] end.

Lemma fill_tok n a t w :
  TBAL (parked_q (ad_q a)) w (opt_tok (snd (fst (fill P n a t w))))
       (parked_q (ad_q (fst (fst (fill P n a t w))))) (snd (fill P n a t w)).
Proof.
  revert a w. induction n as [|n IH]; intros a w; cbn [fill]; cbn [fst snd opt_tok].
  - apply (@TBAL_of_tsuf _ _ _ []). apply tsuf_of_bsuf. bs.
  - destruct (Nat.ltb (q_len (ad_q a)) (q_cap (ad_q a))); [|cbn [fst snd opt_tok]; apply (@TBAL_of_tsuf _ _ _ []); apply tsuf_of_bsuf; bs].
    destruct (ad_up a) as [u|]; [|cbn [fst snd opt_tok]; apply (@TBAL_of_tsuf _ _ _ []); apply tsuf_of_bsuf; bs].
    pose proof (up_poll_tok (ad_try a) u t w) as Hu.
    destruct (up_poll (ad_try a) u t w) as [[u' r] w1]. cbn [fst snd] in Hu.
    destruct r as [c| | |e]; cbn [fst snd opt_tok ad_q].
    + destruct (q_push_tok (ad_q a) c w1) as [Hpk Hb]. destruct (q_push P (ad_q a) c w1) as [q' w2]. cbn [fst snd] in *.
      pose proof (IH {| ad_try := ad_try a; ad_up := Some u'; ad_q := q' |} w2) as I2.
      cbn [ad_q] in I2. rewrite Hpk in I2.
      pose proof (TBAL_trans (TBAL_of_tsuf (parked_q (ad_q a)) (tsuf_bsuf_r Hu Hb)) I2) as T.
      simpl in T. exact T.
    + apply (TBAL_of_tsuf _ Hu).
    + assert (Hb : bsuf w1 (emit EUpDrop w1)) by bs. apply (TBAL_of_tsuf _ (tsuf_bsuf_r Hu Hb)).
    + apply (TBAL_of_tsuf _ Hu).
Qed.

Lemma q_poll_tok k q t w :
  k <> KSrc ->
  TBAL (parked_q q) w (sp_tok (snd (fst (q_poll P k q t w)))) (parked_q (fst (fst (q_poll P k q t w)))) (snd (q_poll P k q t w)).
Proof.
  intros Hk. destruct q as [f|o]; simpl.
  - pose proof (@fub_poll_next_tok k f t w Hk) as H. destruct (fub_poll_next P k f t w) as [[f' sp] w1].
    cbn [fst snd parked_q] in *. apply (TBAL_of_tsuf [] H).
  - pose proof (@fob_poll_next_tok k o t w Hk) as H. destruct (fob_poll_next P k o t w) as [[o' sp] w1]. exact H.
Qed.

Lemma adapter_poll_tok a t w :
  TBAL (parked_q (ad_q a)) w (ret_toks (snd (fst (adapter_poll P a t w))))
       (parked_q (ad_q (fst (fst (adapter_poll P a t w))))) (snd (adapter_poll P a t w)).
Proof.
  unfold adapter_poll. pose proof (fill_tok (S (q_cap (ad_q a))) a t w) as Hf.
  destruct (fill P (S (q_cap (ad_q a))) a t w) as [[a1 e] w1]. cbn [fst snd] in Hf.
  destruct e as [tk|]; cbn [fst snd ret_toks opt_tok] in *; auto.
  assert (Hk : ad_kind a1 <> KSrc) by (unfold ad_kind; destruct (ad_try a1); discriminate).
  pose proof (@q_poll_tok (ad_kind a1) (ad_q a1) t w1 Hk) as Hq.
  destruct (q_poll P (ad_kind a1) (ad_q a1) t w1) as [[q sp] w2]. cbn [fst snd] in Hq.
  pose proof (TBAL_trans Hf Hq) as T. simpl in T.
  destruct sp as [| |tk c]; cbn [fst snd ret_toks ad_q sp_tok] in *; auto.
  destruct (ad_up a1); cbn [fst snd ret_toks ad_q]; exact T.
Qed.

(** ** one operation *)
Definition parked_of (k : coll) : list tok :=
  match k with
  | CFob q => parked (fo_ord q)
  | CFo q => parked (fu_ord q)
  | CAd a => parked_q (ad_q a)
  | _ => []
  end.

(** the types whose outputs this ledger follows (merges hand every item over in the call that
    produced it; for_each_concurrent has unit outputs; join_all: JoinProofs) *)
Definition tokty (k : coll) : Prop := match k with CMb _ | CMu _ | CFec _ | CJoin _ => False | _ => True end.

Definition STEPT (k : coll) (w : world) (k' : coll) (w' : world) : Prop :=
  exists l, log w' = l ++ log w /\ Permutation (parked_of k' ++ handed l ++ idr l) (parked_of k ++ prodF l).

Lemma STEPT_bsuf k w w' : bsuf w w' -> STEPT k w k w'.
Proof. intros (l & H & A & B & C). exists l. split; auto. rewrite A, B, C, !app_nil_r. reflexivity. Qed.

Lemma emit_ret_tok r w :
  exists l, log (emit_ret r w) = l ++ log w /\ prodF l = [] /\ idr l = [] /\ handed l = ret_toks r.
Proof.
  unfold emit_ret.
  assert (Hf : forall toks w0 l0, log w0 = l0 ++ log w -> prodF l0 = [] -> idr l0 = [] -> handed l0 = ret_toks r ->
               exists l1, log (fold_left (fun w t => emit (EODrop t false) w) toks w0) = l1 ++ log w
                          /\ prodF l1 = [] /\ idr l1 = [] /\ handed l1 = ret_toks r).
  { induction toks as [|tk toks IH]; intros w0 l0 H0 A0 B0 C0; simpl; [exists l0; auto|].
    apply (IH (emit (EODrop tk false) w0) (EODrop tk false :: l0)); simpl; auto. rewrite H0. reflexivity. }
  apply (Hf (ret_toks r) (emit (ERet r) w) [ERet r]); simpl; auto. rewrite app_nil_r. reflexivity.
Qed.

Lemma STEPT_poll pk pk' w w1 r : TBAL pk w (ret_toks r) pk' w1 ->
  exists l, log (emit_ret r w1) = l ++ log w /\ Permutation (pk' ++ handed l ++ idr l) (pk ++ prodF l).
Proof.
  intros (l1 & H1 & I1 & D1 & P1). destruct (emit_ret_tok r w1) as (l2 & H2 & A2 & B2 & C2).
  exists (l2 ++ l1). rewrite H2, H1, app_assoc, handed_app, idr_app, prodF_app, A2, B2, C2, I1, D1. split; auto.
  simpl. rewrite !app_nil_r. exact P1.
Qed.


Lemma bsuf_refused c w : bsuf w (refused_result c w). Proof. unfold refused_result. bs. Qed.
Lemma bsuf_bounded c ok w : bsuf w (bounded_push_result c ok w).
Proof. unfold bounded_push_result. destruct ok; bs. Qed.

Lemma STEPT_same k k' w w' : parked_of k' = parked_of k -> bsuf w w' -> STEPT k w k' w'.
Proof. intros Hp (l & H & A & B & C). exists l. split; auto. rewrite A, B, C, Hp, !app_nil_r. reflexivity. Qed.

Lemma do_push_tok (tr front : bool) c sc k w :
  tokty k ->
  parked_of (fst (do_push P tr front c sc k w)) = parked_of k
  /\ bsuf w (snd (do_push P tr front c sc k w)) /\ tokty (fst (do_push P tr front c sc k w)).
Proof.
  intros Hk. unfold do_push. destruct k as [| | |f|f|u|u|q|q|a|a|j]; try contradiction; cbn [fst snd]; try (splits; auto; bs; fail).
  - destruct front; cbn [fst snd]; [splits; auto; bs|].
    pose proof (bsuf_fub_try_push f (mk_child c sc) w) as H.
    destruct (fub_try_push f (mk_child c sc) w) as [[f'| |] w1]; cbn [fst snd] in *; splits; auto;
      try solve [eapply bsuf_trans; [exact H|bs]];
      try (eapply bsuf_trans; [exact H|]; destruct tr; [apply bsuf_refused|apply bsuf_bounded]).
  - destruct (tr || front)%bool; cbn [fst snd]; [splits; auto; bs|].
    pose proof (bsuf_fu_push false u (mk_child c sc) w) as H.
    destruct (fu_push P false u (mk_child c sc) w) as [u' w1]. cbn [fst snd] in *. splits; auto.
    eapply bsuf_trans; [exact H|bs].
  - unfold fob_try_push.
    pose proof (bsuf_fub_try_push (fo_inner q) (child_set_idx (mk_child c sc) (if front then wdec P (nout (fo_ord q)) else nin (fo_ord q))) w) as H.
    destruct (fub_try_push (fo_inner q) _ w) as [[f'| |] w1]; cbn [fst snd parked_of fo_ord] in *; splits; auto;
      try (destruct front; reflexivity);
      try solve [eapply bsuf_trans; [exact H|bs]];
      try (eapply bsuf_trans; [exact H|]; destruct tr; [apply bsuf_refused|apply bsuf_bounded]).
  - destruct tr; cbn [fst snd]; [splits; auto; bs|]. unfold fo_push.
    pose proof (bsuf_fu_push false (fu_inner q) (child_set_idx (mk_child c sc) (if front then wdec P (nout (fu_ord q)) else nin (fu_ord q))) w) as H.
    destruct (fu_push P false (fu_inner q) _ w) as [u' w1]. cbn [fst snd parked_of fu_ord] in *. splits; auto.
    + destruct front; reflexivity.
    + eapply bsuf_trans; [exact H|bs].
Qed.

Lemma spoll_ret_toks sp : ret_toks (spoll_ret sp) = sp_tok sp.
Proof. destruct sp; reflexivity. Qed.

Lemma do_poll_tok t k w :
  tokty k -> STEPT k w (fst (do_poll P t k w)) (snd (do_poll P t k w)) /\ tokty (fst (do_poll P t k w)).
Proof.
  intros Hk. unfold do_poll. destruct k as [| | |f|f|u|u|q|q|a|a|j]; try contradiction; cbn [fst snd]; try (split; [apply STEPT_bsuf; bs|exact I]; fail).
  - pose proof (@fub_poll_next_tok KFut f t w ltac:(discriminate)) as H.
    destruct (fub_poll_next P KFut f t w) as [[f' sp] w1]. cbn [fst snd] in *. split; [|exact I].
    unfold STEPT. cbn [parked_of]. apply (@STEPT_poll [] []). rewrite spoll_ret_toks. apply (TBAL_of_tsuf [] H).
  - pose proof (fu_poll_next_tok u t w) as H.
    destruct (fu_poll_next P false u t w) as [[u' sp] w1]. cbn [fst snd] in *. split; [|exact I].
    unfold STEPT. cbn [parked_of]. apply (@STEPT_poll [] []). rewrite spoll_ret_toks. apply (TBAL_of_tsuf [] H).
  - pose proof (@fob_poll_next_tok KFut q t w ltac:(discriminate)) as H.
    destruct (fob_poll_next P KFut q t w) as [[q' sp] w1]. cbn [fst snd] in *. split; [|exact I].
    unfold STEPT. cbn [parked_of]. apply STEPT_poll. rewrite spoll_ret_toks. exact H.
  - pose proof (fo_poll_next_tok q t w) as H.
    destruct (fo_poll_next P q t w) as [[q' sp] w1]. cbn [fst snd] in *. split; [|exact I].
    unfold STEPT. cbn [parked_of]. apply STEPT_poll. rewrite spoll_ret_toks. exact H.
  - pose proof (adapter_poll_tok a t w) as H.
    destruct (adapter_poll P a t w) as [[a' r] w1]. cbn [fst snd] in *. split; [|exact I].
    unfold STEPT. cbn [parked_of]. apply STEPT_poll. exact H.
Qed.

Lemma drop_heap_tok h w :
  exists l, log (drop_heap h w) = l ++ log w /\ prodF l = [] /\ handed l = [] /\ Permutation (idr l) (map snd h).
Proof.
  unfold drop_heap. revert w. induction h as [|e h IH]; intros w; simpl; [exists []; splits; auto|].
  destruct (IH (emit (EODrop (snd e) true) w)) as (l & H & A & B & C).
  exists (l ++ [EODrop (snd e) true]). rewrite H. simpl. rewrite <- app_assoc. splits; auto.
  - rewrite prodF_app, A. reflexivity.
  - rewrite handed_app, B. reflexivity.
  - rewrite idr_app. simpl. rewrite C. apply Permutation_sym. apply Permutation_cons_append.
Qed.

Lemma bsuf_fu_drop gs w : bsuf w (fold_left (fun w g => fub_drop g w) gs w).
Proof. revert w. induction gs as [|g gs IH]; intros w; simpl; [bs|]. eapply bsuf_trans; [apply bsuf_fub_drop|apply IH]. Qed.

Lemma STEPT_drop_heap k h w w1 : parked_of k = map snd h -> bsuf w w1 -> STEPT k w CDropped (drop_heap h w1).
Proof.
  intros Hp (l1 & H1 & A1 & B1 & C1). destruct (drop_heap_tok h w1) as (l2 & H2 & A2 & B2 & C2).
  exists (l2 ++ l1). rewrite H2, H1, app_assoc. split; auto.
  rewrite handed_app, idr_app, prodF_app, A1, A2, B1, B2, C1, Hp. simpl. rewrite !app_nil_r. exact C2.
Qed.

Lemma do_drop_tok k w : tokty k -> STEPT k w (fst (do_drop k w)) (snd (do_drop k w)) /\ tokty (fst (do_drop k w)).
Proof.
  intros Hk. unfold do_drop. destruct k as [| | |f|f|u|u|q|q|a|a|j]; try contradiction; cbn [fst snd]; split; try exact I; try (apply STEPT_bsuf; bs; fail).
  - apply STEPT_same; auto. apply bsuf_fub_drop.
  - apply STEPT_same; auto. apply bsuf_fu_drop.
  - unfold fob_drop. apply STEPT_drop_heap; auto. apply bsuf_fub_drop.
  - unfold fo_drop. apply STEPT_drop_heap; auto. apply bsuf_fu_drop.
  - unfold adapter_drop, queue_drop.
    assert (Hq : bsuf w (match ad_up a with Some _ => emit EUpDrop w | None => w end)) by (destruct (ad_up a); bs).
    destruct (ad_q a) as [f|o] eqn:Eq.
    + apply STEPT_same; [cbn [parked_of]; rewrite Eq; reflexivity|]. eapply bsuf_trans; [exact Hq|apply bsuf_fub_drop].
    + unfold fob_drop. apply STEPT_drop_heap; [cbn [parked_of]; rewrite Eq; reflexivity|].
      eapply bsuf_trans; [exact Hq|apply bsuf_fub_drop].
Qed.

Definition tok_ctype (t : ctype) : bool := match t with TMB | TMU | TFEC | TJA | TTJA => false | _ => true end.

Lemma fob_from_list_tok l w :
  parked (fo_ord (fst (fob_from_list P l w))) = [] /\ bsuf w (snd (fob_from_list P l w)).
Proof.
  unfold fob_from_list. pose proof (bsuf_fub_from_list (index_children P l 0) w) as H.
  destruct (fub_from_list (index_children P l 0) w) as [f w1]. cbn [fst snd] in *. split; auto.
Qed.

Lemma fob_new_tok cap seed w :
  match fob_new P cap seed w with
  | (NewOk q, w') => parked (fo_ord q) = [] /\ bsuf w w'
  | (NewPanic, w') => bsuf w w'
  end.
Proof.
  unfold fob_new, heap_cap_for. pose proof (bsuf_fub_new cap w) as H. destruct (fub_new cap w) as [f w1]. cbn [snd] in H.
  split; [reflexivity|]. eapply bsuf_trans; [exact H|bs].
Qed.

Lemma fo_from_list_tok h l w :
  parked (fu_ord (fst (fo_from_list P h l w))) = [] /\ bsuf w (snd (fo_from_list P h l w)).
Proof.
  unfold fo_from_list. pose proof (bsuf_fu_from_list false h (index_children P l 0) w) as H.
  destruct (fu_from_list P false h (index_children P l 0) w) as [u w1]. cbn [fst snd] in *. split; auto.
Qed.

Lemma fo_with_capacity_tok cap seed w :
  match fo_with_capacity P cap seed w with
  | (NewOk q, w') => parked (fu_ord q) = [] /\ bsuf w w'
  | (NewPanic, w') => bsuf w w'
  end.
Proof.
  unfold fo_with_capacity, heap_cap_for. pose proof (bsuf_fu_with_capacity cap w) as H.
  destruct (fu_with_capacity cap w) as [u w1]. cbn [snd] in H. split; [reflexivity|]. eapply bsuf_trans; [exact H|bs].
Qed.

Lemma build_tok ty p inits ups w :
  tok_ctype ty = true ->
  tokty (fst (build P ty p inits ups w)) /\ parked_of (fst (build P ty p inits ups w)) = []
  /\ bsuf w (snd (build P ty p inits ups w)).
Proof.
  intros Ht. unfold build. destruct ty; try discriminate.
  - (* FUB *) destruct (p_iter p).
    + pose proof (bsuf_fub_from_list (mk_children inits) w) as H. destruct (fub_from_list (mk_children inits) w). splits; auto; exact I.
    + pose proof (bsuf_fub_new (p_cap p) w) as H. destruct (fub_new (p_cap p) w). splits; auto; exact I.
  - (* FU *) destruct (p_iter p); [|destruct (p_new p)].
    + pose proof (bsuf_fu_from_list false (lazy_hint p (mk_children inits)) (mk_children inits) w) as H.
      destruct (fu_from_list P false _ (mk_children inits) w). splits; auto; exact I.
    + splits; auto; [exact I|bs].
    + pose proof (bsuf_fu_with_capacity (p_cap p) w) as H. destruct (fu_with_capacity (p_cap p) w). splits; auto; exact I.
  - (* FOB *) destruct (p_iter p).
    + destruct (fob_from_list_tok (mk_children inits) w) as [A B].
      destruct (fob_from_list P (mk_children inits) w) as [q w1]. cbn [fst snd] in *.
      splits; auto; [exact I|]. cbn [parked_of]. destruct (mk_children inits); [destruct (p_seed p)|]; auto.
    + pose proof (fob_new_tok (p_cap p) (seed_of p) w) as H.
      destruct (fob_new P (p_cap p) (seed_of p) w) as [[q|] w1]; cbn [fst snd].
      * destruct H. splits; auto; exact I.
      * splits; auto; [exact I|]. eapply bsuf_trans; [exact H|bs].
  - (* FO *) destruct (p_iter p); [|destruct (p_new p)].
    + destruct (fo_from_list_tok (lazy_hint p (mk_children inits)) (mk_children inits) w) as [A B].
      destruct (fo_from_list P _ (mk_children inits) w) as [q w1]. cbn [fst snd] in *.
      splits; auto; [exact I|]. cbn [parked_of]. destruct (mk_children inits); [destruct (p_seed p)|]; auto.
    + splits; auto; [exact I|bs].
    + pose proof (fo_with_capacity_tok (p_cap p) (seed_of p) w) as H.
      destruct (fo_with_capacity P (p_cap p) (seed_of p) w) as [[q|] w1]; cbn [fst snd].
      * destruct H. splits; auto; exact I.
      * splits; auto; [exact I|]. eapply bsuf_trans; [exact H|bs].
  - (* BU *) pose proof (bsuf_fub_new (p_cap p) w) as H. destruct (fub_new (p_cap p) w). splits; auto; exact I.
  - (* BO *) pose proof (fob_new_tok (p_cap p) 0%Z w) as H.
    destruct (fob_new P (p_cap p) 0%Z w) as [[q|] w1]; cbn [fst snd].
    + destruct H. splits; auto; exact I.
    + splits; auto; [exact I|]. eapply bsuf_trans; [exact H|bs].
  - (* TBU *) pose proof (bsuf_fub_new (p_cap p) w) as H. destruct (fub_new (p_cap p) w). splits; auto; exact I.
  - (* TBO *) pose proof (fob_new_tok (p_cap p) 0%Z w) as H.
    destruct (fob_new P (p_cap p) 0%Z w) as [[q|] w1]; cbn [fst snd].
    + destruct H. splits; auto; exact I.
    + splits; auto; [exact I|]. eapply bsuf_trans; [exact H|bs].
Qed.

Lemma bsuf_cleanup_from n h w : bsuf w (cleanup_from n h w).
Proof.
  revert h w; induction n as [|n IH]; intros h w; cbn [cleanup_from]; [bs|].
  eapply bsuf_trans; [apply bsuf_do_act|apply IH].
Qed.

Definition tok_op (o : op) : Prop := match o with OBuild t _ _ _ => tok_ctype t = true | _ => True end.

Lemma step_core_tok k o w :
  tokty k -> tok_op o -> STEPT k w (fst (step_core P k o w)) (snd (step_core P k o w)) /\ tokty (fst (step_core P k o w)).
Proof.
  intros Hk Ho. unfold step_core.
  destruct o as [ty p inits ups|c sc|c sc|c sc|c sc|t i|a| | | | ].
  - destruct k; cbn [fst snd]; try (split; [apply STEPT_bsuf; bs|exact Hk]).
    destruct (@build_tok ty p inits ups w Ho) as (A & B & C). split; auto. apply STEPT_same; auto.
  - destruct (@do_push_tok false false c sc k w Hk) as (A & B & C). split; auto. apply STEPT_same; auto.
  - destruct (@do_push_tok false true c sc k w Hk) as (A & B & C). split; auto. apply STEPT_same; auto.
  - destruct (@do_push_tok true false c sc k w Hk) as (A & B & C). split; auto. apply STEPT_same; auto.
  - destruct (@do_push_tok true true c sc k w Hk) as (A & B & C). split; auto. apply STEPT_same; auto.
  - apply do_poll_tok; auto.
  - cbn [fst snd]. split; auto. apply STEPT_bsuf. apply bsuf_do_act.
  - cbn [fst snd]. split; auto. apply STEPT_bsuf. destruct (observe P k); bs.
  - cbn [fst snd]. split; auto. apply STEPT_bsuf. bs.
  - apply do_drop_tok; auto.
  - cbn [fst snd]. split; auto. apply STEPT_bsuf. unfold cleanup. apply bsuf_cleanup_from.
Qed.

(** ** whole histories *)
Fixpoint run_logs (s : state) (ops : list op) : list (list event) :=
  match ops with
  | [] => []
  | o :: rest =>
      let s' := fst (step_op P s o) in
      (if is_dead (st_coll s) then [] else [log (st_world s')]) ++ run_logs s' rest
  end.

Definition produced_in (s : state) (ops : list op) : list tok := flat_map prodF (run_logs s ops).
Definition handed_in (s : state) (ops : list op) : list tok := flat_map handed (run_logs s ops).
Definition dropped_inside_in (s : state) (ops : list op) : list tok := flat_map idr (run_logs s ops).

Theorem token_ledger_from s ops :
  tokty (st_coll s) -> Forall tok_op ops ->
  Permutation (parked_of (st_coll (run_state P s ops)) ++ handed_in s ops ++ dropped_inside_in s ops)
              (parked_of (st_coll s) ++ produced_in s ops).
Proof.
  revert s. induction ops as [|o ops IH]; intros s Hk Hall; simpl.
  - unfold handed_in, dropped_inside_in, produced_in. simpl. rewrite !app_nil_r. reflexivity.
  - inversion Hall as [|o' ops' Ho Hall']; subst.
    unfold handed_in, dropped_inside_in, produced_in in *. simpl. rewrite !flat_map_app.
    destruct (is_dead (st_coll s)) eqn:Hd.
    + assert (Hfix : fst (step_op P s o) = s) by (unfold step_op; rewrite Hd; reflexivity).
      rewrite Hfix in *. simpl. apply IH; auto.
    + simpl. rewrite !app_nil_r.
      set (s' := fst (step_op P s o)) in *.
      assert (Hstep : Permutation (parked_of (st_coll s') ++ handed (log (st_world s')) ++ idr (log (st_world s')))
                        (parked_of (st_coll s) ++ prodF (log (st_world s'))) /\ tokty (st_coll s')).
      { unfold s', step_op. rewrite Hd.
        destruct (@step_core_tok (st_coll s) o (begin_op (op_inj o) (st_world s)) Hk Ho) as [(l & H & Pm) Ht].
        destruct (step_core P (st_coll s) o (begin_op (op_inj o) (st_world s))) as [k' w']. cbn [fst snd st_coll st_world] in *.
        simpl in H. rewrite app_nil_r in H. rewrite H. split; auto. }
      destruct Hstep as [Hstep Ht]. specialize (IH s' Ht Hall').
      revert Hstep IH. generalize (parked_of (st_coll s')) (handed (log (st_world s'))) (idr (log (st_world s')))
        (prodF (log (st_world s'))) (parked_of (st_coll (run_state P s' ops))) (parked_of (st_coll s)).
      intros pk1 h1 d1 p1 pk2 pk0 Hstep IH. permtok.
Qed.

Theorem token_ledger ops :
  Forall tok_op ops ->
  Permutation (parked_of (st_coll (reach P ops)) ++ handed_in init_state ops ++ dropped_inside_in init_state ops)
              (produced_in init_state ops).
Proof. intros H. apply (@token_ledger_from init_state ops I H). Qed.

(** with distinct outputs: none is handed out twice, none is both handed out and dropped *)
Corollary no_output_twice ops :
  Forall tok_op ops -> NoDup (produced_in init_state ops) ->
  NoDup (parked_of (st_coll (reach P ops)) ++ handed_in init_state ops ++ dropped_inside_in init_state ops).
Proof. intros H Hn. eapply Permutation_NoDup; [apply Permutation_sym; apply token_ledger; auto|exact Hn]. Qed.

(** what was handed out was produced, and no more often than it was produced *)
Corollary handed_out_was_produced ops t :
  Forall tok_op ops -> In t (handed_in init_state ops) -> In t (produced_in init_state ops).
Proof.
  intros H Hin. eapply Permutation_in; [apply token_ledger; exact H|].
  apply in_or_app; right. apply in_or_app; left. exact Hin.
Qed.

Corollary handed_out_at_most_as_often_as_produced ops t :
  Forall tok_op ops ->
  count_occ tok_eq_dec (handed_in init_state ops) t <= count_occ tok_eq_dec (produced_in init_state ops) t.
Proof.
  intros H. pose proof (token_ledger H) as L. rewrite (Permutation_count_occ tok_eq_dec) in L.
  specialize (L t). rewrite !count_occ_app in L. lia.
Qed.

End WithParams.
