(** * LedgerProofs: every child given to the crate is dropped exactly once (C06, whole histories)

    [held_ids k]: the children sitting in the slots of the collection; [cdr l]: the children whose
    in-crate drop is logged in [l]; [acc l]: the children pulled from the upstream in [l].
    Balance of one call: the log grows by some [l] and

        held afterwards ++ dropped in l   is a permutation of   held before ++ pulled in l

    ([BAL]).  It composes over calls, holds for every function of the model, and gives for whole
    histories:  held now ++ everything dropped so far  ≡  everything ever taken (constructor
    inputs, accepted pushes, upstream items).  With distinct ids: no child is dropped twice, none
    is both held and dropped, and once the collection is gone every child taken has been dropped. *)
From FB Require Import Base Syntax World SlotMap Fub Unbounded Ordered Adapters Step Tactics SlotMapProofs WorldProofs FubProofs
  UnboundedProofs OrderedProofs AdaptersProofs StepProofs FobOrder DropProofs Reach.
From Coq Require Import Permutation.

(** ** the children of a slot map *)
Definition ids_sm (m : slotmap) : list N := map cid (occ_list (slots m)).

Lemma ids_set m i c c' : sm_get m i = Some c -> cid c' = cid c -> ids_sm (sm_set m i c') = ids_sm m.
Proof.
  unfold sm_get, ids_sm, sm_set. simpl. intros Hg Hc.
  destruct (nth_error (slots m) i) as [[c0|]|] eqn:Hn; try discriminate. inversion Hg; subst c0.
  destruct (split_nth _ _ Hn) as (a & b & -> & <-). rewrite upd_at, !occ_list_app. simpl.
  rewrite !map_app. simpl. rewrite Hc. reflexivity.
Qed.

Lemma ids_insert m c key m' : sm_insert m c = InsOk key m' -> Permutation (ids_sm m') (cid c :: ids_sm m).
Proof.
  unfold sm_insert, ids_sm. destruct (nth_error (slots m) (free_head m)) as [[?|n]|] eqn:Hn; try discriminate.
  intros E; inversion E; subst; clear E. simpl.
  destruct (split_nth _ _ Hn) as (a & b & Hs & Hl). rewrite Hs, <- Hl, upd_at, !occ_list_app. simpl.
  rewrite !map_app. simpl. apply Permutation_sym. apply Permutation_middle.
Qed.

Lemma ids_remove m i c : sm_get m i = Some c -> Permutation (ids_sm m) (cid c :: ids_sm (sm_remove m i)).
Proof.
  unfold sm_get, sm_remove, ids_sm. intros Hg.
  destruct (nth_error (slots m) i) as [[c0|]|] eqn:Hn; try discriminate. inversion Hg; subst c0. simpl.
  destruct (split_nth _ _ Hn) as (a & b & Hs & Hl). rewrite Hs, <- Hl, upd_at, !occ_list_app. simpl.
  rewrite !map_app. simpl. apply Permutation_sym. apply Permutation_middle.
Qed.

Lemma ids_remove_none m i : sm_get m i = None -> sm_wf m -> ids_sm (sm_remove m i) = ids_sm m.
Proof.
  intros Hg Hwf. destruct (sm_remove_spec i Hwf) as (_ & _ & R). rewrite Hg in R. rewrite R. reflexivity.
Qed.

Lemma ids_map f m : (forall c, cid (f c) = cid c) -> ids_sm (sm_map_children f m) = ids_sm m.
Proof.
  intros Hf. unfold ids_sm, sm_map_children. simpl.
  induction (slots m) as [|[c|n] t IH]; simpl; auto. rewrite IH, Hf. reflexivity.
Qed.

Lemma ids_new cap : ids_sm (sm_new cap) = [].
Proof. unfold ids_sm, sm_new. simpl. generalize 1%nat. induction cap; simpl; auto. Qed.

Lemma ids_from_list l : ids_sm (sm_from_list l) = map cid l.
Proof. unfold ids_sm, sm_from_list. simpl. induction l; simpl; auto. rewrite IHl. reflexivity. Qed.

Lemma sm_children_occ m : map snd (sm_children m) = occ_list (slots m).
Proof.
  unfold sm_children. generalize 0 as k. induction (slots m) as [|[c|n] t IH]; intros k; simpl; auto.
  rewrite IH. reflexivity.
Qed.

(** ** what a piece of log says about children *)
Definition cdr_ev (e : event) : list N := match e with ECDrop c (Some _) => [c] | _ => [] end.
Definition acc_ev (e : event) : list N := match e with EUpPoll (UAItem c) => [c] | _ => [] end.
Definition cdr (l : list event) : list N := flat_map cdr_ev l.
Definition acc (l : list event) : list N := flat_map acc_ev l.

Lemma cdr_app a b : cdr (a ++ b) = cdr a ++ cdr b. Proof. apply flat_map_app. Qed.
Lemma acc_app a b : acc (a ++ b) = acc a ++ acc b. Proof. apply flat_map_app. Qed.

(** the log grows by a piece that drops and pulls nothing (and reports no accepted push) *)
Definition rok_ev (e : event) : bool := match e with ERet RetOk => true | _ => false end.
Definition rok (l : list event) : bool := existsb rok_ev l.
Lemma rok_app a b : rok (a ++ b) = rok a || rok b. Proof. apply existsb_app. Qed.

Definition qsuf (w w' : world) : Prop := exists l, log w' = l ++ log w /\ cdr l = [] /\ acc l = [] /\ rok l = false.

Lemma qsuf_refl w : qsuf w w. Proof. exists []. auto. Qed.
Lemma qsuf_trans w1 w2 w3 : qsuf w1 w2 -> qsuf w2 w3 -> qsuf w1 w3.
Proof.
  intros (l1 & H1 & C1 & A1 & R1) (l2 & H2 & C2 & A2 & R2). exists (l2 ++ l1).
  rewrite H2, H1, app_assoc, cdr_app, acc_app, rok_app, C1, C2, A1, A2, R1, R2. auto.
Qed.
Lemma qsuf_same w w' : log w' = log w -> qsuf w w'. Proof. intros H. exists []. auto. Qed.
Definition quiet_ev (e : event) : bool :=
  match e with ECDrop _ (Some _) => false | EUpPoll (UAItem _) => false | ERet RetOk => false | _ => true end.
Lemma qsuf_emit e w : quiet_ev e = true -> qsuf w (emit e w).
Proof.
  intros H. exists [e]. split; [reflexivity|]. unfold cdr, acc, rok; simpl.
  destruct e; simpl in *; auto;
    repeat match goal with
           | x : option _ |- _ => destruct x; simpl in *; auto; try discriminate
           | x : upans |- _ => destruct x; simpl in *; auto; try discriminate
           | x : retv |- _ => destruct x; simpl in *; auto; try discriminate
           end.
Qed.

Ltac qs := repeat first [apply qsuf_refl | (apply qsuf_emit; reflexivity) | (apply qsuf_same; reflexivity)
                        | (eapply qsuf_trans; [|apply qsuf_emit; reflexivity]) ].

Lemma qsuf_notify b w : qsuf w (notify b w).
Proof.
  unfold notify. destruct (get_blk w b); [|qs]. destruct (breg b0); [|qs].
  eapply qsuf_trans; [|apply qsuf_emit; reflexivity]. qs.
Qed.

Lemma qsuf_enqueue b s w : qsuf w (snd (enqueue_slot b s w)).
Proof. unfold enqueue_slot. destruct (get_blk w b); [|qs]. destruct (nth_error (bflags b0) s) as [[|]|]; qs. Qed.

Lemma qsuf_wake_slot b s w : qsuf w (wake_slot b s w).
Proof.
  unfold wake_slot. change (get_blk (g_wake w) b) with (get_blk w b).
  assert (H0 : qsuf w (g_wake w)) by qs.
  destruct (get_blk w b) as [k|]; [|eapply qsuf_trans; [exact H0|qs]].
  destruct (bfreed k); [eapply qsuf_trans; [exact H0|qs]|].
  pose proof (qsuf_enqueue b s (g_wake w)) as He.
  destruct (enqueue_slot b s (g_wake w)) as [q w1]. cbn [snd] in He.
  destruct q; [|eapply qsuf_trans; [exact H0|exact He]].
  eapply qsuf_trans; [exact H0|]. eapply qsuf_trans; [exact He|]. apply qsuf_notify.
Qed.

Lemma qsuf_dec_strong b w : qsuf w (dec_strong b w).
Proof.
  unfold dec_strong. destruct (get_blk w b) as [k|]; [|qs]. destruct (bfreed k); [qs|].
  destruct (bstrong k) as [|[|n]]; qs.
Qed.

Lemma qsuf_inc_strong b w : qsuf w (inc_strong b w).
Proof. unfold inc_strong. destruct (get_blk w b) as [k|]; [|qs]. destruct (bfreed k); qs. Qed.

Lemma qsuf_wake_ref x w : qsuf w (wake_ref_handle x w).
Proof. destruct x; simpl; [qs|apply qsuf_wake_slot]. Qed.
Lemma qsuf_drop_val x w : qsuf w (drop_handle_val x w).
Proof. destruct x; simpl; [qs|apply qsuf_dec_strong]. Qed.
Lemma qsuf_clone_val x w : qsuf w (clone_handle_val x w).
Proof.
  destruct x; simpl; [qs|]. eapply qsuf_trans; [apply qsuf_inc_strong|]. qs.
Qed.

Lemma qsuf_do_act cw a w : qsuf w (do_act cw a w).
Proof.
  destruct a; cbn [do_act].
  - destruct cw; [apply qsuf_wake_ref|qs].
  - destruct cw; [apply qsuf_clone_val|qs].
  - destruct (get_handle w h); [apply qsuf_wake_ref|qs].
  - destruct (get_handle w h); [|qs].
    eapply qsuf_trans; [|apply qsuf_drop_val]. eapply qsuf_trans; [|apply qsuf_wake_ref]. qs.
  - destruct (get_handle w h); [|qs]. eapply qsuf_trans; [|apply qsuf_drop_val]. qs.
  - destruct (get_handle w h); [apply qsuf_clone_val|qs].
Qed.

Lemma qsuf_do_acts cw l w : qsuf w (do_acts cw l w).
Proof.
  unfold do_acts. revert w; induction l as [|a l IH]; simpl; intros w; [qs|].
  eapply qsuf_trans; [apply qsuf_do_act|apply IH].
Qed.

Lemma qsuf_run_inj p k sl w : qsuf w (run_inj p k sl w).
Proof.
  unfold run_inj. destruct (find_inj p k (inj_pts (winj w))); [qs|].
  eapply qsuf_trans; [apply (qsuf_emit (EInj p k sl)); reflexivity|apply qsuf_do_acts].
Qed.

Lemma qsuf_clear_flag b i w : qsuf w (clear_flag b i w).
Proof. unfold clear_flag. destruct (get_blk w b); qs. Qed.

Lemma qsuf_pop b w : qsuf w (snd (pop b w)).
Proof.
  unfold pop. assert (H0 : qsuf w (set_popk (S (popk w)) w)) by qs.
  destruct (forced_inc (S (popk w)) (set_popk (S (popk w)) w)); cbn [snd].
  - eapply qsuf_trans; [exact H0|apply qsuf_run_inj].
  - change (get_blk (set_popk (S (popk w)) w) b) with (get_blk w b).
    destruct (get_blk w b) as [kb|]; cbn [snd]; [|qs].
    destruct (bqueue kb) as [|i q]; cbn [snd].
    + eapply qsuf_trans; [exact H0|apply qsuf_run_inj].
    + eapply qsuf_trans; [|apply qsuf_run_inj]. eapply qsuf_trans; [|apply qsuf_clear_flag].
      eapply qsuf_trans; [|apply qsuf_run_inj]. qs.
Qed.

Lemma qsuf_self_wake b t w : qsuf w (self_wake b t w).
Proof. unfold self_wake. eapply qsuf_trans; [|apply qsuf_emit; reflexivity]. destruct (get_blk w b); qs. Qed.

Lemma qsuf_register b t w : qsuf w (register b t w).
Proof.
  unfold register. eapply qsuf_trans; [|apply qsuf_run_inj]. destruct (get_blk w b); qs.
Qed.

Lemma qsuf_poll_child k c b s w : qsuf w (snd (poll_child k c b s w)).
Proof.
  unfold poll_child. destruct (cdone c); cbn [snd]; [qs|].
  destruct (cscript c) as [|[acts r0] rest]; cbn [snd]; [qs|].
  eapply qsuf_trans; [|apply qsuf_emit; reflexivity]. eapply qsuf_trans; [|apply qsuf_do_acts]. qs.
Qed.

Lemma qsuf_drain k n f t w : qsuf w (snd (drain k n f t w)).
Proof.
  revert f w. induction n as [|n IH]; intros f w; cbn [drain]; cbn [snd]; [apply qsuf_self_wake|].
  pose proof (qsuf_pop (blk f) w) as Hp. destruct (pop (blk f) w) as [pr w1]. cbn [snd] in Hp.
  destruct pr as [| |i]; cbn [snd]; auto.
  - eapply qsuf_trans; [exact Hp|apply qsuf_self_wake].
  - destruct (sm_get (tasks f) i) as [c|].
    + pose proof (qsuf_poll_child k c (blk f) i w1) as Hc.
      destruct (poll_child k c (blk f) i w1) as [[c' r] w2]. cbn [snd] in Hc.
      destruct (is_ready r); cbn [snd]; [eapply qsuf_trans; eauto|].
      eapply qsuf_trans; [exact Hp|]. eapply qsuf_trans; [exact Hc|apply IH].
    + eapply qsuf_trans; [exact Hp|apply IH].
Qed.






(** ** balance *)
Definition BAL (ids : list N) (w : world) (ids' : list N) (w' : world) : Prop :=
  exists l, log w' = l ++ log w /\ Permutation (ids' ++ cdr l) (ids ++ acc l).

Lemma BAL_refl ids w : BAL ids w ids w.
Proof. exists []. simpl. rewrite !app_nil_r. auto. Qed.

Lemma BAL_quiet ids w w' : qsuf w w' -> BAL ids w ids w'.
Proof. intros (l & H & C & A & _). exists l. rewrite C, A. auto. Qed.

Lemma BAL_trans i1 w1 i2 w2 i3 w3 : BAL i1 w1 i2 w2 -> BAL i2 w2 i3 w3 -> BAL i1 w1 i3 w3.
Proof.
  intros (l1 & H1 & P1) (l2 & H2 & P2). exists (l2 ++ l1). split; [rewrite H2, H1, app_assoc; reflexivity|].
  rewrite cdr_app, acc_app.
  rewrite (app_assoc i3), P2, <- app_assoc, (Permutation_app_comm (acc l2)), app_assoc, P1, <- app_assoc.
  apply Permutation_app_head. apply Permutation_app_comm.
Qed.

Lemma BAL_perm i1 i1' i2 i2' w w' : Permutation i1 i1' -> Permutation i2 i2' -> BAL i1 w i2 w' -> BAL i1' w i2' w'.
Proof. intros Pa Pb (l & H & Pm). exists l. split; auto. rewrite <- Pa, <- Pb. exact Pm. Qed.

Lemma BAL_frame x y a a' w w' : BAL a w a' w' -> BAL (x ++ a ++ y) w (x ++ a' ++ y) w'.
Proof.
  intros (l & H & Pm). exists l. split; auto.
  rewrite <- !app_assoc. apply Permutation_app_head.
  rewrite (Permutation_app_comm y), app_assoc, Pm, <- app_assoc.
  apply Permutation_app_head. apply Permutation_app_comm.
Qed.

(** an accepted outside child: the ids grow by it, the log says nothing *)
Lemma BAL_step_quiet i1 w1 i2 w2 w3 : BAL i1 w1 i2 w2 -> qsuf w2 w3 -> BAL i1 w1 i2 w3.
Proof. intros H Q. eapply BAL_trans; [exact H|apply BAL_quiet; exact Q]. Qed.

Definition ids_fub (f : fub) : list N := ids_sm (tasks f).
Definition ids_gs (gs : list fub) : list N := flat_map ids_fub gs.

Lemma ids_gs_app a b : ids_gs (a ++ b) = ids_gs a ++ ids_gs b. Proof. apply flat_map_app. Qed.

Lemma poll_child_cid k c b s w : cid (fst (fst (poll_child k c b s w))) = cid c.
Proof.
  unfold poll_child. destruct (cdone c); [reflexivity|]. destruct (cscript c) as [|[acts r0] rest]; reflexivity.
Qed.

Lemma fub_try_push_bal f c w :
  match fub_try_push f c w with
  | (PushOk f', w') => Permutation (ids_fub f') (cid c :: ids_fub f) /\ qsuf w w'
  | (_, w') => qsuf w w'
  end.
Proof.
  unfold fub_try_push. destruct (sm_insert (tasks f) c) as [key m| |] eqn:Hi; [|qs|qs].
  split; [apply (ids_insert _ _ _ _ Hi)|].
  eapply qsuf_trans; [|apply qsuf_enqueue]. qs.
Qed.

Lemma drain_bal k n f t w :
  ids_fub (fst (fst (drain k n f t w))) = ids_fub f /\ qsuf w (snd (drain k n f t w)).
Proof.
  revert f w. induction n as [|n IH]; intros f w; cbn [drain]; cbn [fst snd]; [split; auto; apply qsuf_self_wake|].
  pose proof (qsuf_pop (blk f) w) as Hp. destruct (pop (blk f) w) as [pr w1]. cbn [snd] in Hp.
  destruct pr as [| |i]; cbn [fst snd]; auto.
  - split; auto. eapply qsuf_trans; [exact Hp|apply qsuf_self_wake].
  - destruct (sm_get (tasks f) i) as [c|] eqn:Hg.
    + pose proof (qsuf_poll_child k c (blk f) i w1) as Hc. pose proof (poll_child_cid k c (blk f) i w1) as Hid.
      destruct (poll_child k c (blk f) i w1) as [[c' r] w2]. cbn [fst snd] in Hc, Hid.
      assert (Hset : ids_fub {| tasks := sm_set (tasks f) i c'; blk := blk f |} = ids_fub f).
      { unfold ids_fub. simpl. eapply ids_set; eauto. }
      destruct (is_ready r); cbn [fst snd].
      * split; auto. eapply qsuf_trans; eauto.
      * destruct (IH {| tasks := sm_set (tasks f) i c'; blk := blk f |} w2) as [I1 I2]. split; [congruence|].
        eapply qsuf_trans; [exact Hp|]. eapply qsuf_trans; [exact Hc|exact I2].
    + destruct (IH f w1) as [I1 I2]. split; auto. eapply qsuf_trans; eauto.
Qed.

Lemma fub_remove_bal f i w :
  BAL (ids_fub f) w (ids_fub (fst (fub_remove f i w))) (snd (fub_remove f i w)).
Proof.
  unfold fub_remove. destruct (sm_get (tasks f) i) as [c|] eqn:Hg; cbn [fst snd]; [|apply BAL_refl].
  exists [ECDrop (cid c) (Some (blk f, i))]. split; [reflexivity|]. unfold cdr, acc, ids_fub; simpl.
  rewrite app_nil_r. rewrite (ids_remove _ _ _ Hg). apply Permutation_sym. apply Permutation_cons_append.
Qed.

Lemma fub_drop_bal f w : BAL (ids_fub f) w [] (fub_drop f w).
Proof.
  unfold fub_drop.
  assert (H : BAL (ids_fub f) w [] (drop_children (blk f) (tasks f) w)).
  { exists (rev (cdrop_events (blk f) (sm_children (tasks f)))). split; [apply drop_children_events|].
    simpl. assert (Ha : acc (rev (cdrop_events (blk f) (sm_children (tasks f)))) = []).
    { unfold acc, cdrop_events. rewrite <- map_rev. generalize (rev (sm_children (tasks f))).
      induction l; simpl; auto. }
    rewrite Ha, app_nil_r. unfold ids_fub, ids_sm. rewrite <- sm_children_occ.
    unfold cdr, cdrop_events. rewrite <- map_rev. rewrite flat_map_concat_map, map_map. simpl.
    rewrite <- flat_map_concat_map.
    assert (Hf : forall l : list (nat * child), flat_map (fun p => [cid (snd p)]) l = map cid (map snd l)).
    { induction l as [|p l IH]; simpl; auto. rewrite IH. reflexivity. }
    rewrite Hf. apply Permutation_map. apply Permutation_map. apply Permutation_sym. apply Permutation_rev. }
  eapply BAL_step_quiet; [exact H|apply qsuf_dec_strong].
Qed.

Section WithParams.
Variable P : params.
Hypothesis HP : params_ok P.

Lemma poll_inner_no_remove_bal k f t w :
  ids_fub (fst (fst (poll_inner_no_remove P k f t w))) = ids_fub f /\ qsuf w (snd (poll_inner_no_remove P k f t w)).
Proof.
  unfold poll_inner_no_remove. destruct (Nat.eqb (fub_len f) 0); cbn [fst snd]; [split; auto; apply qsuf_refl|].
  destruct (drain_bal k (pB P) f t (register (blk f) t w)) as [A B]. split; auto.
  eapply qsuf_trans; [apply qsuf_register|exact B].
Qed.

Lemma poll_inner_bal k f t w :
  BAL (ids_fub f) w (ids_fub (fst (fst (poll_inner P k f t w)))) (snd (poll_inner P k f t w)).
Proof.
  unfold poll_inner. destruct (poll_inner_no_remove_bal k f t w) as [A B].
  destruct (poll_inner_no_remove P k f t w) as [[f1 pr] w1]. cbn [fst snd] in *.
  destruct pr as [| |i c r]; cbn [fst snd]; try (rewrite A; apply BAL_quiet; exact B).
  pose proof (fub_remove_bal f1 i w1) as Hr. destruct (fub_remove f1 i w1) as [f2 w2]. cbn [fst snd] in *.
  eapply BAL_trans; [apply BAL_quiet; exact B|]. rewrite <- A. exact Hr.
Qed.

Lemma fub_poll_next_bal k f t w :
  BAL (ids_fub f) w (ids_fub (fst (fst (fub_poll_next P k f t w)))) (snd (fub_poll_next P k f t w)).
Proof.
  unfold fub_poll_next. pose proof (poll_inner_bal k f t w) as H.
  destruct (poll_inner P k f t w) as [[f1 pr] w1]. cbn [fst snd] in H. destruct pr; exact H.
Qed.

Lemma mb_poll_loop_bal n f t w :
  BAL (ids_fub f) w (ids_fub (fst (fst (mb_poll_loop P n f t w)))) (snd (mb_poll_loop P n f t w)).
Proof.
  revert f w. induction n as [|n IH]; intros f w; cbn [mb_poll_loop]; cbn [fst snd].
  - apply BAL_quiet. qs.
  - destruct (poll_inner_no_remove_bal KSrc f t w) as [A B].
    destruct (poll_inner_no_remove P KSrc f t w) as [[f1 pr] w1]. cbn [fst snd] in *.
    destruct pr as [| |i c r]; cbn [fst snd]; try (rewrite A; apply BAL_quiet; exact B).
    assert (Hgo : BAL (ids_fub f) w
                      (ids_fub (fst (fst (let '(f0, w0) := fub_remove f1 i w1 in mb_poll_loop P n f0 t w0))))
                      (snd (let '(f0, w0) := fub_remove f1 i w1 in mb_poll_loop P n f0 t w0))).
    { pose proof (fub_remove_bal f1 i w1) as Hr. destruct (fub_remove f1 i w1) as [f2 w2]. cbn [fst snd] in Hr.
      eapply BAL_trans; [apply BAL_quiet; exact B|]. rewrite <- A. eapply BAL_trans; [exact Hr|apply IH]. }
    destruct r; try exact Hgo. cbn [fst snd]. rewrite A. apply BAL_quiet.
    eapply qsuf_trans; [exact B|]. eapply qsuf_trans; [|apply qsuf_enqueue]. qs.
Qed.

Lemma poll_group_bal mrg g t w :
  BAL (ids_fub g) w (ids_fub (fst (fst (poll_group P mrg g t w)))) (snd (poll_group P mrg g t w)).
Proof. unfold poll_group. destruct mrg; [apply mb_poll_loop_bal|apply fub_poll_next_bal]. Qed.

Lemma ids_gs_split l1 g l2 : ids_gs (l1 ++ g :: l2) = ids_gs l1 ++ ids_fub g ++ ids_gs l2.
Proof. rewrite ids_gs_app. reflexivity. Qed.

Lemma fu_loop_bal mrg n u t w :
  BAL (ids_gs (groups u)) w (ids_gs (groups (fst (fst (fu_loop P mrg n u t w))))) (snd (fu_loop P mrg n u t w)).
Proof.
  revert u w. induction n as [|n IH]; intros u w; cbn [fu_loop].
  - destruct (if mrg then _ else _); cbn [fst snd]; apply BAL_refl.
  - set (cur := if Nat.leb (length (groups u)) (cursor u) then 0 else cursor u).
    destruct (nth_error (groups u) cur) as [g|] eqn:Hg; [|cbn [fst snd]; apply BAL_quiet; qs].
    destruct (nth_split_fub _ _ Hg) as (l1 & l2 & Hsplit & Hl1).
    pose proof (poll_group_bal mrg g t w) as Hp.
    destruct (poll_group P mrg g t w) as [[g' sp] w1]. cbn [fst snd] in Hp.
    assert (Hupd : upd (groups u) cur g' = l1 ++ g' :: l2) by (rewrite Hsplit, <- Hl1; apply upd_split).
    assert (Hrm : remove_nth (groups u) cur = l1 ++ l2) by (rewrite Hsplit, <- Hl1; apply remove_nth_split).
    assert (Hmid : BAL (ids_gs (groups u)) w (ids_gs (l1 ++ g' :: l2)) w1).
    { rewrite Hsplit, !ids_gs_split. apply BAL_frame. exact Hp. }
    destruct sp as [| |tk c].
    + eapply BAL_trans; [|apply IH]. cbn [groups set_groups]. rewrite Hupd. exact Hmid.
    + rewrite Hrm. destruct (l1 ++ l2) as [|g0 gs0] eqn:Hgs.
      * apply app_eq_nil in Hgs as [-> ->]. cbn [fst snd groups set_groups]. exact Hmid.
      * rewrite <- Hgs. destruct (Nat.eqb cur (length (l1 ++ l2))) eqn:Hlast.
        -- apply Nat.eqb_eq in Hlast. assert (l2 = []).
           { rewrite app_length in Hlast. destruct l2; auto. simpl in Hlast. lia. }
           subst l2. rewrite app_nil_r in *. eapply BAL_trans; [|apply IH]. cbn [groups set_groups]. exact Hmid.
        -- eapply BAL_trans; [|apply IH]. cbn [groups set_groups].
           eapply BAL_trans; [exact Hmid|].
           rewrite ids_gs_split, ids_gs_app.
           pose proof (fub_drop_bal g' w1) as Hd.
           apply (BAL_frame (ids_gs l1) (ids_gs l2)) in Hd. simpl in Hd. exact Hd.
    + cbn [fst snd groups]. rewrite Hupd. exact Hmid.
Qed.

Lemma fu_poll_next_bal mrg u t w :
  BAL (ids_gs (groups u)) w (ids_gs (groups (fst (fst (fu_poll_next P mrg u t w))))) (snd (fu_poll_next P mrg u t w)).
Proof.
  unfold fu_poll_next. destruct (groups u) eqn:Hg; [cbn [fst snd]; rewrite Hg; apply BAL_refl|].
  rewrite <- Hg. apply fu_loop_bal.
Qed.


(** ** constructors and pushes *)
Lemma qsuf_count_alloc n w : qsuf w (count_alloc n w). Proof. qs. Qed.

Lemma qsuf_alloc_block cap w : qsuf w (snd (alloc_block cap w)).
Proof. unfold alloc_block. cbn [snd]. eapply qsuf_trans; [|apply (qsuf_emit (EBlkAlloc _ _)); reflexivity]. qs. Qed.

Lemma fub_new_bal cap w : ids_fub (fst (fub_new cap w)) = [] /\ qsuf w (snd (fub_new cap w)).
Proof.
  unfold fub_new. pose proof (qsuf_alloc_block cap (count_alloc (if Nat.eqb cap 0 then 0 else 1) w)) as H.
  destruct (alloc_block cap (count_alloc (if Nat.eqb cap 0 then 0 else 1) w)) as [b w1]. cbn [fst snd] in *.
  split; [apply ids_new|]. eapply qsuf_trans; [apply qsuf_count_alloc|exact H].
Qed.

Lemma qsuf_push_all b i n w : qsuf w (push_all b i n w).
Proof.
  revert i w. induction n as [|n IH]; intros i w; cbn [push_all]; [qs|].
  eapply qsuf_trans; [|apply IH]. eapply qsuf_trans; [|apply qsuf_enqueue]. qs.
Qed.

Lemma fub_from_list_bal l w : ids_fub (fst (fub_from_list l w)) = map cid l /\ qsuf w (snd (fub_from_list l w)).
Proof.
  unfold fub_from_list.
  pose proof (qsuf_alloc_block (length l) (count_alloc (if Nat.eqb (length l) 0 then 0 else 1) w)) as H.
  destruct (alloc_block (length l) (count_alloc (if Nat.eqb (length l) 0 then 0 else 1) w)) as [b w1]. cbn [fst snd] in *.
  split; [apply ids_from_list|]. eapply qsuf_trans; [apply qsuf_count_alloc|].
  eapply qsuf_trans; [exact H|apply qsuf_push_all].
Qed.

Lemma ids_gs_length gs : Forall (fun g => sm_wf (tasks g)) gs -> length (ids_gs gs) = total gs.
Proof.
  induction 1 as [|g gs Hg _ IH]; simpl; auto. rewrite app_length, IH. f_equal.
  unfold ids_fub, ids_sm, fub_len. rewrite map_length, occ_list_length.
  destruct Hg as [(l & Hc & Hnd & Hv & Hf)]. pose proof (vacant_count Hnd Hv). lia.
Qed.

Lemma qsuf_push_group u g w : qsuf w (snd (push_group u g w)).
Proof. unfold push_group. destruct (vec_grow _ _). cbn [snd]. qs. Qed.

(** structurally a push adds the child or (unreachable arms) changes nothing *)
Lemma fu_push_ids mrg u c w :
  (Permutation (ids_gs (groups (fst (fu_push P mrg u c w)))) (cid c :: ids_gs (groups u))
   \/ ids_gs (groups (fst (fu_push P mrg u c w))) = ids_gs (groups u))
  /\ qsuf w (snd (fu_push P mrg u c w)).
Proof.
  unfold fu_push. cbn [groups rem cursor gcap].
  set (u0 := {| groups := groups u; rem := if mrg then rem u else S (rem u); cursor := cursor u; gcap := gcap u |}).
  assert (H1 : let '(u1, w1) := match groups u with
                                | [] => let '(g, w0) := fub_new (pMinCap P) w in push_group u0 g w0
                                | _ :: _ => (u0, w) end in
               ids_gs (groups u1) = ids_gs (groups u) /\ qsuf w w1).
  { destruct (groups u) eqn:Hg; [|subst u0; simpl; split; [reflexivity|apply qsuf_refl]].
    destruct (fub_new_bal (pMinCap P) w) as [A B]. destruct (fub_new (pMinCap P) w) as [g w0]. cbn [fst snd] in *.
    pose proof (qsuf_push_group u0 g w0) as Hpg. unfold push_group in *. destruct (vec_grow _ _). cbn [fst snd groups] in *.
    subst u0. cbn [groups]. simpl. rewrite A. split; auto; eapply qsuf_trans; eauto. }
  destruct (match groups u with [] => _ | _ :: _ => _ end) as [u1 w1]. destruct H1 as [H1 Q1].
  destruct (last_opt (groups u1)) as [lastg|] eqn:Hl; [|cbn [fst snd]; split; [right; auto|eapply qsuf_trans; [exact Q1|qs]]].
  destruct (last_split _ Hl) as [l1 Hs].
  pose proof (fub_try_push_bal lastg c w1) as Hp.
  destruct (fub_try_push lastg c w1) as [[g'| |] w2].
  - destruct Hp as [Hp Q2]. cbn [fst snd groups]. split; [|eapply qsuf_trans; eauto]. left.
    assert (Hupd : upd (groups u1) (pred (length (groups u1))) g' = l1 ++ [g']).
    { rewrite Hs, app_length. simpl. replace (pred (length l1 + 1)) with (length l1) by lia. clear.
      induction l1; simpl; auto. rewrite IHl1; auto. }
    rewrite Hupd, <- H1, Hs, !ids_gs_app. simpl. rewrite !app_nil_r.
    rewrite Hp. apply Permutation_sym. apply Permutation_middle.
  - destruct (fub_new_bal (fub_cap lastg * pGrowth P) w2) as [A B].
    destruct (fub_new (fub_cap lastg * pGrowth P) w2) as [gnew w3]. cbn [fst snd] in *.
    pose proof (fub_try_push_bal gnew c w3) as Hp2.
    destruct (fub_try_push gnew c w3) as [[g'| |] w4].
    + destruct Hp2 as [Hp2 Q4]. pose proof (qsuf_push_group u1 g' w4) as Hpg.
      unfold push_group in *. destruct (vec_grow _ _). cbn [fst snd groups] in *. split.
      * left. rewrite ids_gs_app, <- H1. simpl. rewrite app_nil_r, Hp2, A.
        apply Permutation_sym. apply Permutation_cons_append.
      * eapply qsuf_trans; [exact Q1|]. eapply qsuf_trans; [exact Hp|]. eapply qsuf_trans; [exact B|].
        eapply qsuf_trans; [exact Q4|exact Hpg].
    + cbn [fst snd]. split; [right; auto|]. eapply qsuf_trans; [exact Q1|]. eapply qsuf_trans; [exact Hp|].
      eapply qsuf_trans; [exact B|]. eapply qsuf_trans; [exact Hp2|qs].
    + cbn [fst snd]. split; [right; auto|]. eapply qsuf_trans; [exact Q1|]. eapply qsuf_trans; [exact Hp|].
      eapply qsuf_trans; [exact B|]. eapply qsuf_trans; [exact Hp2|qs].
  - cbn [fst snd]. split; [right; auto|]. eapply qsuf_trans; eauto.
Qed.

(** under the structural invariant it always adds *)
Lemma fu_push_bal mrg u c w :
  winv (cnt (blks (groups u))) None w -> fu_ok mrg u ->
  Permutation (ids_gs (groups (fst (fu_push P mrg u c w)))) (cid c :: ids_gs (groups u))
  /\ qsuf w (snd (fu_push P mrg u c w)).
Proof.
  intros Hw Hok. destruct (fu_push_ids mrg u c w) as [[H|H] Q]; split; auto. exfalso.
  pose proof (@fu_push_spec P HP mrg u c w Hw Hok) as Hs.
  destruct (fu_push P mrg u c w) as [u' w']. destruct Hs as (A & B & C & D). cbn [fst] in H.
  pose proof (ids_gs_length _ (fo_wf B)) as L1. pose proof (ids_gs_length _ (fo_wf Hok)) as L2.
  rewrite H in L1. lia.
Qed.

Lemma fu_with_capacity_bal n w :
  ids_gs (groups (fst (fu_with_capacity n w))) = [] /\ qsuf w (snd (fu_with_capacity n w)).
Proof.
  unfold fu_with_capacity. destruct (Nat.eqb n 0); [split; auto; apply qsuf_refl|].
  destruct (fub_new_bal n w) as [A B]. destruct (fub_new n w) as [g w1]. cbn [fst snd groups] in *.
  simpl. rewrite A. split; auto; try (eapply qsuf_trans; [exact B|qs]).
Qed.

Lemma fu_push_fold_bal mrg l u w :
  winv (cnt (blks (groups u))) None w -> fu_ok mrg u ->
  let r := fold_left (fun uw c => fu_push P mrg (fst uw) c (snd uw)) l (u, w) in
  Permutation (ids_gs (groups (fst r))) (map cid l ++ ids_gs (groups u)) /\ qsuf w (snd r).
Proof.
  revert u w. induction l as [|c l IH]; intros u w Hw Hok; simpl; [split; auto; apply qsuf_refl|].
  pose proof (@fu_push_spec P HP mrg u c w Hw Hok) as Hs. destruct (@fu_push_bal mrg u c w Hw Hok) as [Hp Hq].
  destruct (fu_push P mrg u c w) as [u1 w1]. destruct Hs as (A & B & _). cbn [fst snd] in *.
  destruct (IH u1 w1 A B) as [I1 I2]. split; [|eapply qsuf_trans; eauto].
  rewrite I1, Hp. apply Permutation_sym. apply Permutation_middle.
Qed.

Lemma fu_from_list_bal mrg h l w :
  winv (cnt []) None w ->
  Permutation (ids_gs (groups (fst (fu_from_list P mrg h l w)))) (map cid l) /\ qsuf w (snd (fu_from_list P mrg h l w)).
Proof.
  intros Hw. unfold fu_from_list.
  assert (H0 : let '(u0, w0) := (if mrg then (fu_empty, w) else fu_with_capacity (Nat.max h (pMinCap P)) w) in
               winv (cnt (blks (groups u0))) None w0 /\ fu_ok mrg u0 /\ ids_gs (groups u0) = [] /\ qsuf w w0).
  { destruct mrg.
    - splits; auto; [apply fu_empty_ok|apply qsuf_refl].
    - pose proof (@fu_with_capacity_spec false (Nat.max h (pMinCap P)) w Hw) as Hs.
      destruct (fu_with_capacity_bal (Nat.max h (pMinCap P)) w) as [A B].
      destruct (fu_with_capacity (Nat.max h (pMinCap P)) w) as [u0 w0]. destruct Hs as (S1 & S2 & _). splits; auto. }
  destruct (if mrg then (fu_empty, w) else fu_with_capacity (Nat.max h (pMinCap P)) w) as [u0 w0].
  destruct H0 as (A & B & C & D).
  destruct (@fu_push_fold_bal mrg l u0 w0 A B) as [I1 I2]. split; [|eapply qsuf_trans; eauto].
  rewrite I1, C, app_nil_r. auto.
Qed.


(** ** the ordered queues *)
Lemma index_children_cids l i : map cid (index_children P l i) = map cid l.
Proof. revert i. induction l as [|c l IH]; intros i; simpl; auto. rewrite IH. reflexivity. Qed.

Lemma flip_child_cid c : cid (flip_child P c) = cid c. Proof. reflexivity. Qed.

Lemma qsuf_ord_park o i tk w : qsuf w (snd (ord_park o i tk w)).
Proof. unfold ord_park. destruct (vec_grow _ _). cbn [snd]. qs. Qed.

Lemma fob_new_bal cap seed w :
  match fob_new P cap seed w with
  | (NewOk q, w') => ids_fub (fo_inner q) = [] /\ qsuf w w'
  | (NewPanic, _) => True
  end.
Proof.
  unfold fob_new. destruct (fub_new_bal cap w) as [A B]. destruct (fub_new cap w) as [f w1]. cbn [fst snd] in *.
  unfold heap_cap_for. split; auto; try (eapply qsuf_trans; [exact B|qs]).
Qed.

Lemma fob_from_list_bal l w :
  ids_fub (fo_inner (fst (fob_from_list P l w))) = map cid l /\ qsuf w (snd (fob_from_list P l w)).
Proof.
  unfold fob_from_list. destruct (fub_from_list_bal (index_children P l 0) w) as [A B].
  destruct (fub_from_list (index_children P l 0) w) as [f w1]. cbn [fst snd fo_inner] in *.
  rewrite A, index_children_cids. auto.
Qed.

Lemma fob_try_push_bal front q c w :
  match fob_try_push P front q c w with
  | (Some q', w') => Permutation (ids_fub (fo_inner q')) (cid c :: ids_fub (fo_inner q)) /\ qsuf w w'
  | (None, w') => qsuf w w'
  end.
Proof.
  unfold fob_try_push.
  pose proof (fub_try_push_bal (fo_inner q) (child_set_idx c (if front then wdec P (nout (fo_ord q)) else nin (fo_ord q))) w) as H.
  destruct (fub_try_push (fo_inner q) _ w) as [[f| |] w1]; auto.
Qed.

Lemma fob_loop_bal k n q t w :
  BAL (ids_fub (fo_inner q)) w (ids_fub (fo_inner (fst (fst (fob_loop P k n q t w))))) (snd (fob_loop P k n q t w)).
Proof.
  revert q w. induction n as [|n IH]; intros q w; cbn [fob_loop]; cbn [fst snd]; [apply BAL_quiet; qs|].
  pose proof (fub_poll_next_bal k (fo_inner q) t w) as H.
  destruct (fub_poll_next P k (fo_inner q) t w) as [[f sp] w1]. cbn [fst snd] in H.
  destruct sp as [| |tk c]; cbn [fst snd fo_inner fo_ord]; auto.
  destruct (Z.eqb (cidx c) (nout (fo_ord q))); cbn [fst snd fo_inner]; auto.
  pose proof (qsuf_ord_park (fo_ord q) (cidx c) tk w1) as Hp.
  destruct (ord_park (fo_ord q) (cidx c) tk w1) as [o w2]. cbn [snd] in Hp.
  eapply BAL_trans; [eapply BAL_step_quiet; [exact H|exact Hp]|]. apply (IH {| fo_inner := f; fo_ord := o |} w2).
Qed.

Lemma fob_poll_next_bal k q t w :
  BAL (ids_fub (fo_inner q)) w (ids_fub (fo_inner (fst (fst (fob_poll_next P k q t w))))) (snd (fob_poll_next P k q t w)).
Proof.
  unfold fob_poll_next.
  assert (Hr : ids_fub (fo_inner (fob_rebase P q)) = ids_fub (fo_inner q)).
  { unfold fob_rebase. destruct (msb_set P (nout (fo_ord q))); auto. unfold ids_fub. simpl. apply ids_map. apply flip_child_cid. }
  destruct (ord_try_release P (fo_ord (fob_rebase P q))) as [[tk o]|]; cbn [fst snd fo_inner].
  - rewrite Hr. apply BAL_refl.
  - rewrite <- Hr. apply fob_loop_bal.
Qed.

Lemma fo_rebase_ids q : ids_gs (groups (fu_inner (fo_rebase P q))) = ids_gs (groups (fu_inner q)).
Proof.
  unfold fo_rebase. destruct (msb_set P (nout (fu_ord q))); auto. simpl.
  induction (groups (fu_inner q)) as [|g gs IH]; simpl; auto. rewrite IH. f_equal.
  unfold ids_fub. simpl. apply ids_map. apply flip_child_cid.
Qed.

Lemma fo_loop_bal n q t w :
  BAL (ids_gs (groups (fu_inner q))) w (ids_gs (groups (fu_inner (fst (fst (fo_loop P n q t w)))))) (snd (fo_loop P n q t w)).
Proof.
  revert q w. induction n as [|n IH]; intros q w; cbn [fo_loop]; cbn [fst snd]; [apply BAL_quiet; qs|].
  pose proof (fu_poll_next_bal false (fu_inner q) t w) as H.
  destruct (fu_poll_next P false (fu_inner q) t w) as [[u sp] w1]. cbn [fst snd] in H.
  destruct sp as [| |tk c]; cbn [fst snd fu_inner fu_ord]; auto.
  destruct (Z.eqb (cidx c) (nout (fu_ord q))); cbn [fst snd fu_inner]; auto.
  pose proof (qsuf_ord_park (fu_ord q) (cidx c) tk w1) as Hp.
  destruct (ord_park (fu_ord q) (cidx c) tk w1) as [o w2]. cbn [snd] in Hp.
  eapply BAL_trans; [eapply BAL_step_quiet; [exact H|exact Hp]|]. apply (IH {| fu_inner := u; fu_ord := o |} w2).
Qed.

Lemma fo_poll_next_bal q t w :
  BAL (ids_gs (groups (fu_inner q))) w (ids_gs (groups (fu_inner (fst (fst (fo_poll_next P q t w)))))) (snd (fo_poll_next P q t w)).
Proof.
  unfold fo_poll_next. pose proof (fo_rebase_ids q) as Hr.
  destruct (ord_try_release P (fu_ord (fo_rebase P q))) as [[tk o]|]; cbn [fst snd fu_inner].
  - rewrite Hr. apply BAL_refl.
  - rewrite <- Hr. apply fo_loop_bal.
Qed.

Lemma fo_push_bal front q c w :
  winv (cnt (blks (groups (fu_inner q)))) None w -> fu_ok false (fu_inner q) ->
  Permutation (ids_gs (groups (fu_inner (fst (fo_push P front q c w))))) (cid c :: ids_gs (groups (fu_inner q)))
  /\ qsuf w (snd (fo_push P front q c w)).
Proof.
  intros Hw Hok. unfold fo_push.
  pose proof (@fu_push_bal false (fu_inner q) (child_set_idx c (if front then wdec P (nout (fu_ord q)) else nin (fu_ord q))) w Hw Hok) as H.
  destruct (fu_push P false (fu_inner q) _ w) as [u w1]. exact H.
Qed.

Lemma fo_from_list_bal h l w :
  winv (cnt []) None w ->
  Permutation (ids_gs (groups (fu_inner (fst (fo_from_list P h l w))))) (map cid l) /\ qsuf w (snd (fo_from_list P h l w)).
Proof.
  intros Hw. unfold fo_from_list. destruct (@fu_from_list_bal false h (index_children P l 0) w Hw) as [A B].
  destruct (fu_from_list P false h (index_children P l 0) w) as [u w1]. cbn [fst snd fu_inner] in *.
  rewrite A, index_children_cids. auto.
Qed.

(** ** drops *)
Lemma fu_drop_groups_bal gs w : BAL (ids_gs gs) w [] (fold_left (fun w g => fub_drop g w) gs w).
Proof.
  revert w. induction gs as [|g gs IH]; intros w; simpl; [apply BAL_refl|].
  eapply BAL_trans; [|apply IH]. pose proof (fub_drop_bal g w) as H.
  apply (BAL_frame [] (ids_gs gs)) in H. simpl in H. exact H.
Qed.

Lemma qsuf_drop_heap h w : qsuf w (drop_heap h w).
Proof.
  unfold drop_heap. revert w. induction h as [|e h IH]; intros w; simpl; [qs|].
  eapply qsuf_trans; [|apply IH]. qs.
Qed.


(** ** adapters *)
Definition ids_q (q : queue) : list N := ids_fub (q_fub q).

Lemma BAL_accept ids ids' x w w1 w2 :
  log w1 = EUpPoll (UAItem x) :: log w -> qsuf w1 w2 -> Permutation ids' (x :: ids) -> BAL ids w ids' w2.
Proof.
  intros H1 (l & H2 & C & A & _) Pm. exists (l ++ [EUpPoll (UAItem x)]). split.
  - rewrite H2, H1, <- app_assoc. reflexivity.
  - rewrite cdr_app, acc_app, C, A. simpl. rewrite app_nil_r, Pm. apply Permutation_cons_append.
Qed.

Lemma up_poll_bal try u t w :
  match snd (fst (up_poll try u t w)) with
  | UPItem c => log (snd (up_poll try u t w)) = EUpPoll (UAItem (cid c)) :: log w
  | _ => qsuf w (snd (up_poll try u t w))
  end.
Proof.
  unfold up_poll. destruct (us_ended u); cbn [fst snd]; [qs|].
  destruct (us_steps u) as [|[s|a| |] rest]; cbn [fst snd]; try qs; auto.
  - eapply qsuf_trans; [|apply qsuf_do_acts]. qs.
  - destruct try; cbn [fst snd]; qs.
Qed.

Lemma q_push_bal own q c w :
  winv own None w -> q_ok own q -> q_len q < q_cap q ->
  Permutation (ids_q (fst (q_push P q c w))) (cid c :: ids_q q) /\ qsuf w (snd (q_push P q c w)).
Proof.
  intros Hw Hok Hlt. pose proof (q_running_le_len q) as Hrl. destruct q as [f|o]; simpl in *.
  - pose proof (@fub_try_push_spec own None f c w Hw Hok) as Hs. pose proof (fub_try_push_bal f c w) as Hb.
    destruct (fub_try_push f c w) as [[f'| |] w1]; cbn [fst snd]; auto.
    + destruct Hs as [_ Hs]. lia.
    + contradiction.
  - pose proof (@fob_try_push_spec P own None false o c w Hw Hok) as Hs. pose proof (fob_try_push_bal false o c w) as Hb.
    destruct (fob_try_push P false o c w) as [[o'|] w1]; cbn [fst snd]; auto.
    destruct Hs as [_ Hs]. unfold fob_len in *. lia.
Qed.

Lemma q_poll_bal k q t w :
  BAL (ids_q q) w (ids_q (fst (fst (q_poll P k q t w)))) (snd (q_poll P k q t w)).
Proof.
  destruct q as [f|o]; simpl.
  - pose proof (fub_poll_next_bal k f t w) as H. destruct (fub_poll_next P k f t w) as [[? ?] ?]. exact H.
  - pose proof (fob_poll_next_bal k o t w) as H. destruct (fob_poll_next P k o t w) as [[? ?] ?]. exact H.
Qed.

Lemma fill_bal own n a t w :
  winv own None w -> q_ok own (ad_q a) -> q_len (ad_q a) <= q_cap (ad_q a) -> up_live (ad_up a) ->
  BAL (ids_q (ad_q a)) w (ids_q (ad_q (fst (fst (fill P n a t w))))) (snd (fill P n a t w)).
Proof.
  revert a w. induction n as [|n IH]; intros a w Hw Hok Hle Hul; cbn [fill]; cbn [fst snd]; [apply BAL_quiet; qs|].
  destruct (Nat.ltb_spec (q_len (ad_q a)) (q_cap (ad_q a))) as [Hlt|Hge]; [|apply BAL_refl].
  destruct (ad_up a) as [u|] eqn:Hu; [|apply BAL_refl]. simpl in Hul.
  pose proof (@winv_up_poll own None (ad_try a) u t w Hul Hw) as Hup.
  pose proof (@up_poll_fused (ad_try a) u t w Hul) as Hfu.
  pose proof (up_poll_bal (ad_try a) u t w) as Hb.
  destruct (up_poll (ad_try a) u t w) as [[u' r] w1]. cbn [fst snd] in *.
  destruct r as [c| | |e]; cbn [fst snd ad_q]; try (apply BAL_quiet; exact Hb).
  - pose proof (@q_push_spec P own (ad_q a) c w1 Hup Hok Hlt) as Hs.
    destruct (@q_push_bal own (ad_q a) c w1 Hup Hok Hlt) as [Pm Q].
    destruct (q_push P (ad_q a) c w1) as [q' w2]. cbn [fst snd] in *.
    destruct Hs as (A & B & C & D & E).
    eapply BAL_trans; [eapply BAL_accept; eauto|].
    apply (IH {| ad_try := ad_try a; ad_up := Some u'; ad_q := q' |} w2); simpl; auto. lia.
  - apply BAL_quiet. eapply qsuf_trans; [exact Hb|qs].
Qed.

Lemma adapter_poll_bal own a t w :
  winv own None w -> ad_ok own a ->
  BAL (ids_q (ad_q a)) w (ids_q (ad_q (fst (fst (adapter_poll P a t w))))) (snd (adapter_poll P a t w)).
Proof.
  intros Hw (Hok & Hle & Hul). unfold adapter_poll.
  pose proof (@fill_bal own (S (q_cap (ad_q a))) a t w Hw Hok Hle Hul) as Hf.
  destruct (fill P (S (q_cap (ad_q a))) a t w) as [[a1 e] w1]. cbn [fst snd] in Hf.
  destruct e as [tk|]; cbn [fst snd]; auto.
  pose proof (q_poll_bal (ad_kind a1) (ad_q a1) t w1) as Hq.
  destruct (q_poll P (ad_kind a1) (ad_q a1) t w1) as [[q sp] w2]. cbn [fst snd] in Hq.
  assert (H : BAL (ids_q (ad_q a)) w (ids_q q) w2) by (eapply BAL_trans; eauto).
  destruct sp; cbn [fst snd ad_q]; auto. destruct (ad_up a1); cbn [fst snd ad_q]; auto.
Qed.

(** ** for_each_concurrent *)
Lemma fec_loop_bal own n a t w :
  winv own None w -> fub_ok own (fe_q a) -> fec_mu a < n -> up_live (fe_up a) ->
  BAL (ids_fub (fe_q a)) w (ids_fub (fe_q (fst (fst (fec_loop P n a t w))))) (snd (fec_loop P n a t w)).
Proof.
  revert a w. induction n as [|n IH]; intros a w Hw Hok Hmu Hul; [lia|]. cbn [fec_loop].
  assert (Hpull : let '(a1, pulled, w1) :=
                    (if Nat.ltb (fub_len (fe_q a)) (fub_cap (fe_q a)) then
                       match fe_up a with
                       | Some u =>
                           let '(u, r, w) := up_poll false u t w in
                           match r with
                           | UPItem c =>
                               match fub_try_push (fe_q a) c w with
                               | (PushOk f, w) => ({| fe_up := Some u; fe_q := f |}, true, w)
                               | (_, w) => ({| fe_up := Some u; fe_q := fe_q a |}, true, emit EStuck w)
                               end
                           | UPEnd => ({| fe_up := None; fe_q := fe_q a |}, false, emit EUpDrop w)
                           | _ => ({| fe_up := Some u; fe_q := fe_q a |}, false, w)
                           end
                       | None => (a, false, w)
                       end
                     else (a, false, w)) in
                  winv own None w1 /\ fub_ok own (fe_q a1)
                  /\ (if pulled then S (fec_mu a1) <= fec_mu a else fec_mu a1 <= fec_mu a)
                  /\ up_live (fe_up a1)
                  /\ BAL (ids_fub (fe_q a)) w (ids_fub (fe_q a1)) w1).
  { destruct (Nat.ltb_spec (fub_len (fe_q a)) (fub_cap (fe_q a))) as [Hlt|Hge]; [|splits; auto; apply BAL_refl].
    destruct (fe_up a) as [u|] eqn:Hu;
      [|splits; auto; try (unfold fec_mu; rewrite Hu; lia); try (rewrite Hu; exact I); apply BAL_refl].
    simpl in Hul.
    pose proof (@winv_up_poll own None false u t w Hul Hw) as Hup.
    pose proof (up_poll_steps false u t w) as Hst.
    pose proof (@up_poll_fused false u t w Hul) as Hfu.
    pose proof (up_poll_bal false u t w) as Hb.
    destruct (up_poll false u t w) as [[u' r] w1]. cbn [fst snd] in *. destruct Hst as [S1 S2].
    destruct r as [c| | |e].
    - pose proof (@fub_try_push_spec own None (fe_q a) c w1 Hup Hok) as H.
      pose proof (fub_try_push_bal (fe_q a) c w1) as Hpb.
      destruct (fub_try_push (fe_q a) c w1) as [[f| |] w2].
      + destruct H as (H1 & H2 & H3 & H4 & H5 & H6). destruct Hpb as [Pm Q]. simpl. splits; auto.
        * unfold fec_mu; simpl. rewrite Hu. lia.
        * eapply BAL_accept; eauto.
      + destruct H as [_ H]. lia.
      + contradiction.
    - simpl. splits; auto. unfold fec_mu; simpl. rewrite Hu. lia. apply BAL_quiet; exact Hb.
    - simpl. splits; auto. apply winv_emit; auto. unfold fec_mu; simpl. rewrite Hu. lia.
      apply BAL_quiet. eapply qsuf_trans; [exact Hb|qs].
    - simpl. splits; auto. unfold fec_mu; simpl. rewrite Hu. lia. apply BAL_quiet; exact Hb. }
  destruct (if Nat.ltb (fub_len (fe_q a)) (fub_cap (fe_q a)) then _ else _) as [[a1 pulled] w1].
  destruct Hpull as (A & B & E & U & Hbal).
  pose proof (@fub_poll_next_spec P own KFut (fe_q a1) t w1 A B) as H.
  pose proof (fub_poll_next_bal KFut (fe_q a1) t w1) as Hpb.
  destruct (fub_poll_next P KFut (fe_q a1) t w1) as [[f sp] w2]. destruct H as (A2 & B2 & C2 & D2 & F2).
  cbn [fst snd] in Hpb.
  assert (Hmid : BAL (ids_fub (fe_q a)) w (ids_fub f) w2) by (eapply BAL_trans; eauto).
  assert (Hgo : fec_mu {| fe_up := fe_up a1; fe_q := f |} < n ->
                BAL (ids_fub (fe_q a)) w
                    (ids_fub (fe_q (fst (fst (fec_loop P n {| fe_up := fe_up a1; fe_q := f |} t w2)))))
                    (snd (fec_loop P n {| fe_up := fe_up a1; fe_q := f |} t w2))).
  { intros Hlt. eapply BAL_trans; [exact Hmid|]. apply (IH {| fe_up := fe_up a1; fe_q := f |} w2); auto. }
  assert (Hmu_eq : forall f', fub_len f' = fub_len (fe_q a1) ->
                    fec_mu {| fe_up := fe_up a1; fe_q := f' |} = fec_mu a1).
  { intros f' Hf. unfold fec_mu; simpl. destruct (fe_up a1); lia. }
  destruct sp as [| |tk c]; simpl.
  - destruct F2 as [F3 F4]. destruct pulled; [|exact Hmid].
    apply Hgo. rewrite Hmu_eq by (unfold fub_len; auto). lia.
  - destruct F2 as (F3 & -> & ->).
    destruct (fe_up a1) eqn:Hu1; [|exact Hmid].
    destruct pulled; [|exact Hmid].
    apply Hgo. unfold fec_mu in *; simpl. rewrite Hu1 in *. lia.
  - destruct F2 as [F3 F4]. apply Hgo.
    unfold fec_mu in *; simpl. unfold fub_len in *. destruct (fe_up a1); destruct pulled; lia.
Qed.

Lemma fec_poll_bal own a t w :
  winv own None w -> fub_ok own (fe_q a) -> up_live (fe_up a) ->
  BAL (ids_fub (fe_q a)) w (ids_fub (fe_q (fst (fst (fec_poll P a t w))))) (snd (fec_poll P a t w)).
Proof.
  intros Hw Hok Hul. unfold fec_poll. apply (@fec_loop_bal own); auto.
  unfold fec_mu, fec_fuel. destruct (fe_up a); lia.
Qed.

(** ** join_all / try_join_all *)
Lemma qsuf_drop_outputs i skip m out w : qsuf w (drop_outputs_from i skip m out w).
Proof.
  revert i w. induction out as [|o out IH]; intros i w; cbn [drop_outputs_from]; [qs|].
  eapply qsuf_trans; [|apply IH].
  destruct (match skip with Some s => Nat.eqb s i | None => false end); [qs|].
  destruct (sm_get m i); qs.
Qed.

Lemma fub_clear_bal f w : BAL (ids_fub f) w (ids_fub (fst (fub_clear f w))) (snd (fub_clear f w)).
Proof.
  unfold fub_clear. generalize (seq 0 (fub_cap f)). intros l. revert f w.
  induction l as [|i l IH]; intros f w; simpl; [apply BAL_refl|].
  pose proof (fub_remove_bal f i w) as Hr. destruct (fub_remove f i w) as [f1 w1]. cbn [fst snd] in *.
  eapply BAL_trans; [exact Hr|apply IH].
Qed.

Lemma join_loop_bal n j t w :
  BAL (ids_fub (j_q j)) w (ids_fub (j_q (fst (fst (join_loop P n j t w))))) (snd (join_loop P n j t w)).
Proof.
  revert j w. induction n as [|n IH]; intros j w; cbn [join_loop]; cbn [fst snd]; [apply BAL_quiet; qs|].
  pose proof (poll_inner_bal (if j_try j then KTry else KFut) (j_q j) t w) as H.
  destruct (poll_inner P (if j_try j then KTry else KFut) (j_q j) t w) as [[f pr] w1]. cbn [fst snd] in H.
  destruct pr as [| |i c r]; cbn [fst snd j_q]; auto.
  assert (Hgo : BAL (ids_fub (j_q j)) w
                    (ids_fub (j_q (fst (fst (join_loop P n {| j_try := j_try j; j_q := f; j_out := upd (j_out j) i (Some (TOut (cid c))) |} t w1)))))
                    (snd (join_loop P n {| j_try := j_try j; j_q := f; j_out := upd (j_out j) i (Some (TOut (cid c))) |} t w1))).
  { eapply BAL_trans; [exact H|]. apply (IH {| j_try := j_try j; j_q := f; j_out := upd (j_out j) i (Some (TOut (cid c))) |} w1). }
  destruct r; try exact Hgo.
  pose proof (fub_clear_bal f (drop_outputs_from 0 (Some i) (tasks f) (j_out j) w1)) as Hc.
  destruct (fub_clear f (drop_outputs_from 0 (Some i) (tasks f) (j_out j) w1)) as [f2 w2]. cbn [fst snd j_q] in *.
  eapply BAL_trans; [exact H|]. eapply BAL_trans; [apply BAL_quiet; apply qsuf_drop_outputs|exact Hc].
Qed.


(** ** one operation of a history *)
Definition held_ids (k : coll) : list N :=
  match k with
  | CFub f | CMb f => ids_fub f
  | CFu u | CMu u => ids_gs (groups u)
  | CFob q => ids_fub (fo_inner q)
  | CFo q => ids_gs (groups (fu_inner q))
  | CAd a => ids_q (ad_q a)
  | CFec a => ids_fub (fe_q a)
  | CJoin j => ids_fub (j_q j)
  | _ => []
  end.

(** what the crate took in this operation: the children the constructor placed, or the child of
    a push that was answered Ok (upstream items are counted through [acc]) *)
Definition taken_op (k : coll) (o : op) (k' : coll) (l : list event) : list N :=
  match o with
  | OBuild _ _ _ _ => match k with CNone => held_ids k' | _ => [] end
  | OPush c _ | OPushF c _ | OTryPush c _ | OTryPushF c _ => if rok l then [c] else []
  | _ => []
  end.

Definition STEP (k : coll) (o : op) (w : world) (k' : coll) (w' : world) : Prop :=
  exists l, log w' = l ++ log w /\ Permutation (held_ids k' ++ cdr l) (taken_op k o k' l ++ held_ids k ++ acc l).

Lemma STEP_of_BAL k o w k' w' :
  (match o with OBuild _ _ _ _ | OPush _ _ | OPushF _ _ | OTryPush _ _ | OTryPushF _ _ => False | _ => True end) ->
  BAL (held_ids k) w (held_ids k') w' -> STEP k o w k' w'.
Proof.
  intros Ho (l & H & Pm). exists l. split; auto. destruct o; try contradiction; exact Pm.
Qed.

Lemma BAL_emit_ret ids w ids' w' r : BAL ids w ids' w' -> BAL ids w ids' (emit_ret r w').
Proof.
  intros (l & H & Pm). unfold emit_ret.
  assert (Hf : forall toks w0 l0, log w0 = l0 ++ log w -> cdr l0 = cdr l -> acc l0 = acc l ->
               exists l1, log (fold_left (fun w t => emit (EODrop t false) w) toks w0) = l1 ++ log w
                          /\ cdr l1 = cdr l /\ acc l1 = acc l).
  { induction toks as [|tk toks IH]; intros w0 l0 H0 C0 A0; simpl; [exists l0; auto|].
    apply (IH (emit (EODrop tk false) w0) (EODrop tk false :: l0)); simpl; auto. rewrite H0. reflexivity. }
  destruct (Hf (ret_toks r) (emit (ERet r) w') (ERet r :: l)) as (l1 & H1 & C1 & A1); simpl; auto.
  - rewrite H. reflexivity.
  - exists l1. split; auto. rewrite C1, A1. exact Pm.
Qed.

Lemma push_ok_case ids ids' (c : N) w w1 :
  qsuf w w1 -> Permutation ids' (c :: ids) ->
  exists l, log (emit (ERet RetOk) w1) = l ++ log w
            /\ Permutation (ids' ++ cdr l) ((if rok l then [c] else []) ++ ids ++ acc l).
Proof.
  intros (l & H & C & A & R) Pm. exists (ERet RetOk :: l). split; [simpl; rewrite H; reflexivity|].
  change (cdr (ERet RetOk :: l)) with (cdr l). change (acc (ERet RetOk :: l)) with (acc l).
  change (rok (ERet RetOk :: l)) with true. rewrite C, A, !app_nil_r. exact Pm.
Qed.

Lemma quiet_case ids (c : N) w w' :
  qsuf w w' ->
  exists l, log w' = l ++ log w /\ Permutation (ids ++ cdr l) ((if rok l then [c] else []) ++ ids ++ acc l).
Proof. intros (l & H & C & A & R). exists l. split; auto. rewrite C, A, R, !app_nil_r. simpl. auto. Qed.

Lemma qsuf_refused c w : qsuf w (refused_result c w).
Proof. unfold refused_result. qs. Qed.
Lemma qsuf_bounded_panic c w : qsuf w (bounded_push_result c false w).
Proof. unfold bounded_push_result. qs. Qed.

Lemma do_push_step (try front : bool) c sc k w :
  cinv k w ->
  let o := if try then (if front then OTryPushF c sc else OTryPush c sc) else (if front then OPushF c sc else OPush c sc) in
  STEP k o w (fst (do_push P try front c sc k w)) (snd (do_push P try front c sc k w)).
Proof.
  intros [Hw Hok]. cbv zeta.
  assert (Hto : forall k' l, taken_op k (if try then (if front then OTryPushF c sc else OTryPush c sc) else (if front then OPushF c sc else OPush c sc)) k' l
                             = if rok l then [c] else []) by (intros; destruct try, front; reflexivity).
  unfold STEP. setoid_rewrite Hto.
  assert (Hsame : exists l, log w = l ++ log w /\ Permutation (held_ids k ++ cdr l) ((if rok l then [c] else []) ++ held_ids k ++ acc l))
    by (apply quiet_case; apply qsuf_refl).
  assert (Hq : forall w', qsuf w w' ->
               exists l, log w' = l ++ log w /\ Permutation (held_ids k ++ cdr l) ((if rok l then [c] else []) ++ held_ids k ++ acc l))
    by (intros; apply quiet_case; auto).
  assert (Hres : forall w1, qsuf w w1 -> qsuf w (if try then refused_result c w1 else bounded_push_result c false w1)).
  { intros w1 Q. destruct try; (eapply qsuf_trans; [exact Q|]); [apply qsuf_refused|apply qsuf_bounded_panic]. }
  unfold do_push. destruct k; cbn [fst snd]; auto.
  - (* FUB *) destruct front; cbn [fst snd]; auto.
    pose proof (fub_try_push_bal f (mk_child c sc) w) as Hb.
    destruct (fub_try_push f (mk_child c sc) w) as [[f'| |] w1]; cbn [fst snd held_ids].
    + destruct Hb as [Pm Q]. apply push_ok_case; auto.
    + apply Hq. apply Hres. exact Hb.
    + apply Hq. apply Hres. exact Hb.
  - (* MB *) destruct front; cbn [fst snd]; auto.
    pose proof (fub_try_push_bal f (mk_child c sc) w) as Hb.
    destruct (fub_try_push f (mk_child c sc) w) as [[f'| |] w1]; cbn [fst snd held_ids].
    + destruct Hb as [Pm Q]. apply push_ok_case; auto.
    + apply Hq. apply Hres. exact Hb.
    + apply Hq. apply Hres. exact Hb.
  - (* FU *) destruct (try || front)%bool; cbn [fst snd]; auto.
    simpl in Hw, Hok. destruct (@fu_push_bal false u (mk_child c sc) w Hw Hok) as [Pm Q].
    destruct (fu_push P false u (mk_child c sc) w) as [u' w1]. cbn [fst snd held_ids] in *.
    apply push_ok_case; auto.
  - (* MU *) destruct (try || front)%bool; cbn [fst snd]; auto.
    simpl in Hw, Hok. destruct (@fu_push_bal true u (mk_child c sc) w Hw Hok) as [Pm Q].
    destruct (fu_push P true u (mk_child c sc) w) as [u' w1]. cbn [fst snd held_ids] in *.
    apply push_ok_case; auto.
  - (* FOB *)
    pose proof (fob_try_push_bal front q (mk_child c sc) w) as Hb.
    destruct (fob_try_push P front q (mk_child c sc) w) as [[q'|] w1]; cbn [fst snd held_ids].
    + destruct Hb as [Pm Q]. apply push_ok_case; auto.
    + apply Hq. apply Hres. exact Hb.
  - (* FO *) destruct try; cbn [fst snd]; auto.
    simpl in Hw, Hok. destruct (@fo_push_bal front q (mk_child c sc) w Hw Hok) as [Pm Q].
    destruct (fo_push P front q (mk_child c sc) w) as [q' w1]. cbn [fst snd held_ids] in *.
    apply push_ok_case; auto.
Qed.


Lemma do_poll_step t i k w : cinv k w ->
  STEP k (OPoll t i) w (fst (do_poll P t k w)) (snd (do_poll P t k w)).
Proof.
  intros [Hw Hok]. apply STEP_of_BAL; [exact I|]. unfold do_poll.
  destruct k; cbn [fst snd]; try apply BAL_refl.
  - pose proof (fub_poll_next_bal KFut f t w) as H. destruct (fub_poll_next P KFut f t w) as [[f' sp] w1].
    cbn [fst snd held_ids] in *. apply BAL_emit_ret; exact H.
  - pose proof (mb_poll_loop_bal (S (fub_len f)) f t w) as H. unfold mb_poll_next.
    destruct (mb_poll_loop P (S (fub_len f)) f t w) as [[f' sp] w1].
    cbn [fst snd held_ids] in *. apply BAL_emit_ret; exact H.
  - pose proof (fu_poll_next_bal false u t w) as H. destruct (fu_poll_next P false u t w) as [[u' sp] w1].
    cbn [fst snd held_ids] in *. apply BAL_emit_ret; exact H.
  - pose proof (fu_poll_next_bal true u t w) as H. destruct (fu_poll_next P true u t w) as [[u' sp] w1].
    cbn [fst snd held_ids] in *. apply BAL_emit_ret; exact H.
  - pose proof (fob_poll_next_bal KFut q t w) as H. destruct (fob_poll_next P KFut q t w) as [[q' sp] w1].
    cbn [fst snd held_ids] in *. apply BAL_emit_ret; exact H.
  - pose proof (fo_poll_next_bal q t w) as H. destruct (fo_poll_next P q t w) as [[q' sp] w1].
    cbn [fst snd held_ids] in *. apply BAL_emit_ret; exact H.
  - simpl in Hok, Hw. destruct Hok as (Hwf & Hle & Hul).
    pose proof (@adapter_poll_bal _ a t w Hw (conj (fub_ok_single _ Hwf) (conj Hle Hul))) as H.
    destruct (adapter_poll P a t w) as [[a' r] w1]. cbn [fst snd held_ids] in *. apply BAL_emit_ret; exact H.
  - simpl in Hok, Hw. destruct Hok as [Hwf Hul].
    pose proof (@fec_poll_bal _ a t w Hw (fub_ok_single _ Hwf) Hul) as H.
    destruct (fec_poll P a t w) as [[a' r] w1]. cbn [fst snd held_ids] in *. apply BAL_emit_ret; exact H.
  - pose proof (join_loop_bal (S (fub_len (j_q j))) j t w) as H. unfold join_poll.
    destruct (join_loop P (S (fub_len (j_q j))) j t w) as [[j' r] w1].
    cbn [fst snd held_ids] in *. apply BAL_emit_ret; exact H.
Qed.

Lemma do_drop_step k w : STEP k ODropColl w (fst (do_drop k w)) (snd (do_drop k w)).
Proof.
  apply STEP_of_BAL; [exact I|]. unfold do_drop. destruct k; cbn [fst snd held_ids]; try apply BAL_refl.
  - apply fub_drop_bal.
  - apply fub_drop_bal.
  - apply fu_drop_groups_bal.
  - apply fu_drop_groups_bal.
  - unfold fob_drop. eapply BAL_step_quiet; [apply fub_drop_bal|apply qsuf_drop_heap].
  - unfold fo_drop. eapply BAL_step_quiet; [apply fu_drop_groups_bal|apply qsuf_drop_heap].
  - unfold adapter_drop, queue_drop, ids_q.
    assert (Hq : qsuf w (match ad_up a with Some _ => emit EUpDrop w | None => w end)) by (destruct (ad_up a); qs).
    destruct (ad_q a) as [f|o]; simpl.
    + eapply BAL_trans; [apply BAL_quiet; exact Hq|apply fub_drop_bal].
    + unfold fob_drop. eapply BAL_trans; [apply BAL_quiet; exact Hq|].
      eapply BAL_step_quiet; [apply fub_drop_bal|apply qsuf_drop_heap].
  - unfold fec_drop.
    assert (Hq : qsuf w (match fe_up a with Some _ => emit EUpDrop w | None => w end)) by (destruct (fe_up a); qs).
    eapply BAL_trans; [apply BAL_quiet; exact Hq|apply fub_drop_bal].
  - unfold join_drop. eapply BAL_trans; [apply BAL_quiet; apply qsuf_drop_outputs|apply fub_drop_bal].
Qed.

Lemma qsuf_cleanup_from n h w : qsuf w (cleanup_from n h w).
Proof.
  revert h w; induction n as [|n IH]; intros h w; cbn [cleanup_from]; [qs|].
  eapply qsuf_trans; [apply qsuf_do_act|apply IH].
Qed.

(** the constructors log no drop and pull nothing *)
Lemma build_quiet ty p inits ups w : winv (cnt []) None w -> qsuf w (snd (build P ty p inits ups w)).
Proof.
  intros Hw. unfold build.
  destruct ty; cbn [fst snd];
    repeat match goal with
           | |- context [if ?b then _ else _] => destruct b
           end; cbn [fst snd]; try qs.
  all: try match goal with
       | |- context [fub_from_list ?l ?w] =>
           destruct (fub_from_list_bal l w) as [_ Hq]; destruct (fub_from_list l w); exact Hq
       | |- context [fub_new ?c ?w] =>
           destruct (fub_new_bal c w) as [_ Hq]; destruct (fub_new c w); exact Hq
       | |- context [fu_from_list P ?m ?h ?l ?w] =>
           destruct (@fu_from_list_bal m h l w Hw) as [_ Hq]; destruct (fu_from_list P m h l w); exact Hq
       | |- context [fu_with_capacity ?c ?w] =>
           destruct (fu_with_capacity_bal c w) as [_ Hq]; destruct (fu_with_capacity c w); exact Hq
       | |- context [fob_from_list P ?l ?w] =>
           destruct (fob_from_list_bal l w) as [_ Hq]; destruct (fob_from_list P l w); exact Hq
       | |- context [fo_from_list P ?h ?l ?w] =>
           destruct (@fo_from_list_bal h l w Hw) as [_ Hq]; destruct (fo_from_list P h l w); exact Hq
       end.
  all: try match goal with
       | |- context [fob_new P ?a ?b ?w] =>
           pose proof (fob_new_bal a b w) as Hq; destruct (fob_new P a b w) as [[?|] ?]; cbn [snd];
           [destruct Hq as [_ Hq]; try exact Hq|]
       end.
  - unfold fo_with_capacity, heap_cap_for.
    destruct (fu_with_capacity_bal (p_cap p) w) as [_ Hq]. destruct (fu_with_capacity (p_cap p) w) as [u w1].
    cbn [fst snd] in *. eapply qsuf_trans; [exact Hq|qs].
  - unfold join_new. destruct (fub_from_list_bal (mk_children inits) w) as [_ Hq].
    destruct (fub_from_list (mk_children inits) w) as [f w1]. cbn [fst snd] in *. eapply qsuf_trans; [exact Hq|qs].
  - unfold join_new. destruct (fub_from_list_bal (mk_children inits) w) as [_ Hq].
    destruct (fub_from_list (mk_children inits) w) as [f w1]. cbn [fst snd] in *. eapply qsuf_trans; [exact Hq|qs].
Qed.

Lemma step_core_step k o w : cinv k w ->
  STEP k o w (fst (step_core P k o w)) (snd (step_core P k o w)).
Proof.
  intros Hc. pose proof Hc as [Hw Hok]. unfold step_core.
  destruct o as [ty p inits ups|c sc|c sc|c sc|c sc|t i|a| | | | ].
  - (* build *)
    destruct k; cbn [fst snd]; unfold STEP;
      try (exists []; split; [reflexivity|]; cbn [taken_op cdr acc flat_map]; rewrite !app_nil_r; reflexivity).
    simpl in Hw. destruct (@build_quiet ty p inits ups w Hw) as (l & H & C & A & _).
    exists l. split; auto. cbn [taken_op held_ids]. rewrite C, A. simpl. reflexivity.
  - apply (@do_push_step false false c sc k w Hc).
  - apply (@do_push_step false true c sc k w Hc).
  - apply (@do_push_step true false c sc k w Hc).
  - apply (@do_push_step true true c sc k w Hc).
  - apply do_poll_step; auto.
  - cbn [fst snd]. apply STEP_of_BAL; [exact I|]. apply BAL_quiet. apply qsuf_do_act.
  - cbn [fst snd]. apply STEP_of_BAL; [exact I|]. apply BAL_quiet. destruct (observe P k); qs.
  - cbn [fst snd]. apply STEP_of_BAL; [exact I|]. apply BAL_refl.
  - apply do_drop_step.
  - cbn [fst snd]. apply STEP_of_BAL; [exact I|]. apply BAL_quiet. unfold cleanup. apply qsuf_cleanup_from.
Qed.

(** ** whole histories *)
Fixpoint run_worlds (s : state) (ops : list op) : list (coll * op * coll * list event) :=
  match ops with
  | [] => []
  | o :: rest =>
      let s' := fst (step_op P s o) in
      (if is_dead (st_coll s) then [] else [(st_coll s, o, st_coll s', log (st_world s'))]) ++ run_worlds s' rest
  end.

Definition dropped_in (s : state) (ops : list op) : list N := flat_map (fun x => cdr (snd x)) (run_worlds s ops).
Definition pulled_in (s : state) (ops : list op) : list N := flat_map (fun x => acc (snd x)) (run_worlds s ops).
Definition taken_of (x : coll * op * coll * list event) : list N :=
  match x with (k, o, k', l) => taken_op k o k' l end.
Definition taken_in (s : state) (ops : list op) : list N := flat_map taken_of (run_worlds s ops).

Lemma perm_ledger (h h' h'' T A D T' A' D' : list N) :
  Permutation (h' ++ D) (T ++ h ++ A) ->
  Permutation (h'' ++ D') (h' ++ T' ++ A') ->
  Permutation (h'' ++ D ++ D') (h ++ (T ++ T') ++ (A ++ A')).
Proof.
  intros H1 H2. rewrite (Permutation_count_occ N.eq_dec) in *. intros x.
  specialize (H1 x). specialize (H2 x). rewrite !count_occ_app in *. lia.
Qed.

Theorem ledger_from s ops :
  Inv s ->
  Permutation (held_ids (st_coll (run_state P s ops)) ++ dropped_in s ops)
              (held_ids (st_coll s) ++ taken_in s ops ++ pulled_in s ops).
Proof.
  revert s. induction ops as [|o ops IH]; intros s Hs; simpl.
  - unfold dropped_in, taken_in, pulled_in. simpl. rewrite !app_nil_r. reflexivity.
  - specialize (IH (fst (step_op P s o)) (step_inv HP o Hs)).
    unfold dropped_in, taken_in, pulled_in in *. simpl. rewrite !flat_map_app.
    destruct (is_dead (st_coll s)) eqn:Hd.
    + assert (Hfix : fst (step_op P s o) = s) by (unfold step_op; rewrite Hd; reflexivity).
      rewrite Hfix in *. simpl. exact IH.
    + simpl. rewrite !app_nil_r.
      set (s' := fst (step_op P s o)) in *.
      assert (Hstep : Permutation (held_ids (st_coll s') ++ cdr (log (st_world s')))
                        (taken_op (st_coll s) o (st_coll s') (log (st_world s')) ++ held_ids (st_coll s) ++ acc (log (st_world s')))).
      { destruct Hs as [Hw Hok]. unfold s', step_op. rewrite Hd.
        assert (Hc : cinv (st_coll s) (begin_op (op_inj o) (st_world s))) by (split; auto; apply winv_begin_op; auto).
        destruct (@step_core_step (st_coll s) o _ Hc) as (l & H & Pm).
        destruct (step_core P (st_coll s) o (begin_op (op_inj o) (st_world s))) as [k' w']. cbn [fst snd st_coll st_world] in *.
        simpl in H. rewrite app_nil_r in H. rewrite H. exact Pm. }
      apply (perm_ledger _ _ _ _ _ _ _ _ _ Hstep IH).
Qed.

(** from the empty state *)
Theorem ledger ops :
  Permutation (held_ids (st_coll (reach P ops)) ++ dropped_in init_state ops)
              (taken_in init_state ops ++ pulled_in init_state ops).
Proof. apply (ledger_from init_state ops Inv_init). Qed.

(** with distinct ids: nothing is dropped twice, nothing is both held and dropped *)
Corollary no_double_drop ops :
  NoDup (taken_in init_state ops ++ pulled_in init_state ops) ->
  NoDup (held_ids (st_coll (reach P ops)) ++ dropped_in init_state ops).
Proof. intros H. eapply Permutation_NoDup; [apply Permutation_sym; apply ledger|exact H]. Qed.

(** once the collection is gone, everything that was taken has been dropped — exactly once *)
Corollary all_dropped_when_gone ops :
  held_ids (st_coll (reach P ops)) = [] ->
  Permutation (dropped_in init_state ops) (taken_in init_state ops ++ pulled_in init_state ops).
Proof. intros H. pose proof (ledger ops) as L. rewrite H in L. exact L. Qed.


(** the same in terms of the events a history shows (what the harness logs): the drops among the
    events of an operation are the drops in its final log *)
Lemma cdr_events_of_step s o :
  is_dead (st_coll s) = false ->
  Permutation (cdr (snd (step_op P s o))) (cdr (log (st_world (fst (step_op P s o))))).
Proof.
  intros Hd. unfold step_op. rewrite Hd.
  destruct (step_core P (st_coll s) o (begin_op (op_inj o) (st_world s))) as [k' w']. cbn [fst snd st_world].
  unfold finish_op. unfold cdr.
  eapply Permutation_trans; [apply Permutation_flat_map; apply Permutation_sym; apply Permutation_rev|].
  destruct (nalloc w'); reflexivity.
Qed.

End WithParams.
