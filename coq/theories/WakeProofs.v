(** * WakeProofs: no lost wake-up (C01, sequential level with wakes injected at every window)

    For the group with waker block [b] polled with task waker [t]:

    [J b t w]   after [register]: the block remembers [t] as the most recent task waker and
                either [t] is still registered and has not been invoked since, or it has been
                invoked since the registration — and then an [ETWake t] event is in the log
                of this operation;
    [E b w]     the ready queue of [b] is empty, or the task waker of the most recent
                registration has been invoked since.

    Theorems: every waker action (wake / wake_by_ref / clone / drop of any handle, at any
    injection point) preserves [J], and preserves [E] given [J]; a drain that returns
    [Pending] ends in [J /\ E]: no queued child is left behind without the task having been
    woken.  A wake of a slot whose flag is clear leaves the slot queued (its child will be
    polled) and notifies the most recently registered task waker. *)
From FB Require Import Base Syntax World SlotMap Fub Tactics.
Set Implicit Arguments.

Definition J (b t : nat) (w : world) : Prop :=
  exists k, get_blk w b = Some k /\ blast k = Some t
    /\ ((breg k = Some t /\ btw k = false) \/ (btw k = true /\ exists c, In (ETWake t c) (log w))).

Definition E (b : nat) (w : world) : Prop :=
  exists k, get_blk w b = Some k /\ (bqueue k = [] \/ btw k = true).

Lemma get_put_blk' w b k b' :
  get_blk (put_blk b k w) b' = if Nat.eqb b b' then (if Nat.ltb b (length (blocks w)) then Some k else None) else get_blk w b'.
Proof. unfold get_blk, put_blk; simpl. apply nth_error_upd. Qed.

Lemma get_blk_emit e w b : get_blk (emit e w) b = get_blk w b. Proof. reflexivity. Qed.
Lemma get_blk_g_enq w b : get_blk (g_enq w) b = get_blk w b. Proof. reflexivity. Qed.
Lemma get_blk_g_wake w b : get_blk (g_wake w) b = get_blk w b. Proof. reflexivity. Qed.
Lemma get_blk_set_regk n w b : get_blk (set_regk n w) b = get_blk w b. Proof. reflexivity. Qed.
Lemma log_emit e w : log (emit e w) = e :: log w. Proof. reflexivity. Qed.

Lemma get_blk_lt' w b k : get_blk w b = Some k -> b < length (blocks w).
Proof. apply nth_error_Some_lt. Qed.

(** frame: same block b, log only grows *)
Lemma J_frame b t w w' :
  get_blk w' b = get_blk w b -> (forall e, In e (log w) -> In e (log w')) -> J b t w -> J b t w'.
Proof.
  intros Hb Hl (k & Hk & Hlast & H). exists k. rewrite Hb. splits; auto.
  destruct H as [H|[H1 [c Hc]]]; [left; auto | right; split; eauto].
Qed.

Lemma E_frame b w w' : get_blk w' b = get_blk w b -> E b w -> E b w'.
Proof. intros Hb (k & Hk & H). exists k. rewrite Hb. auto. Qed.

Lemma J_emit b t e w : J b t w -> J b t (emit e w).
Proof. apply J_frame; auto. simpl; auto. Qed.
Lemma E_emit b e w : E b w -> E b (emit e w).
Proof. apply E_frame; auto. Qed.

(** replacing a block other than [b], or [b] by a block with the same registration data *)
Lemma J_put_other b t b' k' w : b' <> b -> J b t w -> J b t (put_blk b' k' w).
Proof.
  intros Hne. apply J_frame; auto. rewrite get_put_blk'. destruct (Nat.eqb_spec b' b); congruence.
Qed.
Lemma E_put_other b b' k' w : b' <> b -> E b w -> E b (put_blk b' k' w).
Proof.
  intros Hne. apply E_frame. rewrite get_put_blk'. destruct (Nat.eqb_spec b' b); congruence.
Qed.

Lemma J_put_same b t k k' w :
  get_blk w b = Some k -> blast k' = blast k -> breg k' = breg k -> btw k' = btw k ->
  J b t w -> J b t (put_blk b k' w).
Proof.
  intros Hk H1 H2 H3 (k0 & Hk0 & Hlast & H). rewrite Hk in Hk0; inversion Hk0; subst k0.
  exists k'. rewrite get_put_blk', Nat.eqb_refl.
  destruct (Nat.ltb_spec b (length (blocks w))); [|apply get_blk_lt' in Hk; lia].
  rewrite H1, H2, H3. splits; auto.
Qed.

Lemma E_put_same b k k' w :
  get_blk w b = Some k -> bqueue k' = bqueue k -> btw k' = btw k -> E b w -> E b (put_blk b k' w).
Proof.
  intros Hk H1 H3 (k0 & Hk0 & H). rewrite Hk in Hk0; inversion Hk0; subst k0.
  exists k'. rewrite get_put_blk', Nat.eqb_refl.
  destruct (Nat.ltb_spec b (length (blocks w))); [|apply get_blk_lt' in Hk; lia].
  rewrite H1, H3. auto.
Qed.

(** ** notify *)
Lemma J_notify b t b' w : J b t w -> J b t (notify b' w).
Proof.
  intros HJ. unfold notify. destruct (get_blk w b') as [k'|] eqn:Hk'; auto.
  destruct (breg k') as [t'|] eqn:Hr; auto.
  destruct (Nat.eq_dec b' b) as [->|Hne].
  - destruct HJ as (k & Hk & Hlast & H). rewrite Hk in Hk'; inversion Hk'; subst k'.
    exists (blk_set_tw (blk_set_reg k None)).
    rewrite get_blk_emit, get_put_blk', Nat.eqb_refl.
    destruct (Nat.ltb_spec b (length (blocks w))); [|apply get_blk_lt' in Hk; lia].
    splits; auto. right. split; auto. rewrite log_emit.
    destruct H as [[H1 H2]|[H1 [c Hc]]].
    + rewrite Hr in H1. inversion H1; subst. exists CChild. left; reflexivity.
    + exists c. right; auto.
  - apply J_emit. apply J_put_other; auto.
Qed.

(** a notification leaves [E] true whenever [J] held: either [t] was registered and is now
    marked invoked, or it had been invoked before *)
Lemma E_notify_self b t w : J b t w -> E b (notify b w).
Proof.
  intros (k & Hk & Hlast & H). unfold notify. rewrite Hk.
  destruct (breg k) as [t'|] eqn:Hr.
  - exists (blk_set_tw (blk_set_reg k None)). rewrite get_blk_emit, get_put_blk', Nat.eqb_refl.
    destruct (Nat.ltb_spec b (length (blocks w))); [|apply get_blk_lt' in Hk; lia]. split; auto.
  - exists k. split; auto. right. destruct H as [[H1 _]|[H1 _]]; [congruence|auto].
Qed.

Lemma E_notify_other b b' w : b' <> b -> E b w -> E b (notify b' w).
Proof.
  intros Hne HE. unfold notify. destruct (get_blk w b') as [k'|]; auto.
  destruct (breg k'); auto. apply E_emit. apply E_put_other; auto.
Qed.

(** ** enqueue / wake *)
Lemma J_enqueue b t b' s w : J b t w -> J b t (snd (enqueue_slot b' s w)).
Proof.
  intros HJ. unfold enqueue_slot. destruct (get_blk w b') as [k'|] eqn:Hk'; auto.
  destruct (nth_error (bflags k') s) as [[|]|]; auto. simpl.
  assert (H : J b t (put_blk b' (blk_set_queue (blk_set_flags k' (upd (bflags k') s true)) (bqueue k' ++ [s])) w)).
  { destruct (Nat.eq_dec b' b) as [->|Hne]; [eapply J_put_same; eauto | apply J_put_other; auto]. }
  revert H. apply J_frame; auto.
Qed.

Lemma J_wake_slot b t b' s w : J b t w -> J b t (wake_slot b' s w).
Proof.
  intros HJ. unfold wake_slot. change (get_blk (g_wake w) b') with (get_blk w b').
  assert (HJ' : J b t (g_wake w)) by (revert HJ; apply J_frame; auto).
  destruct (get_blk w b') as [k'|]; [|apply J_emit; auto].
  destruct (bfreed k'); [apply J_emit; auto|].
  pose proof (@J_enqueue b t b' s (g_wake w) HJ') as He.
  destruct (enqueue_slot b' s (g_wake w)) as [q w1]. simpl in He.
  destruct q; auto. apply J_notify; auto.
Qed.

Lemma E_wake_slot b t b' s w : J b t w -> E b w -> E b (wake_slot b' s w).
Proof.
  intros HJ HE. unfold wake_slot. change (get_blk (g_wake w) b') with (get_blk w b').
  assert (HJ' : J b t (g_wake w)) by (revert HJ; apply J_frame; auto).
  assert (HE' : E b (g_wake w)) by (revert HE; apply E_frame; auto).
  destruct (get_blk w b') as [k'|] eqn:Hk'; [|apply E_emit; auto].
  destruct (bfreed k'); [apply E_emit; auto|].
  pose proof (@J_enqueue b t b' s (g_wake w) HJ') as He.
  destruct (Nat.eq_dec b' b) as [->|Hne].
  - (* the woken slot belongs to the polled group: if it was enqueued, the task is notified *)
    destruct (enqueue_slot b s (g_wake w)) as [q w1] eqn:Hq. simpl in He.
    destruct q.
    + eapply E_notify_self; eauto.
    + (* flag was already set: nothing changed *)
      unfold enqueue_slot in Hq. change (get_blk (g_wake w) b) with (get_blk w b) in Hq. rewrite Hk' in Hq.
      destruct (nth_error (bflags k') s) as [[|]|]; inversion Hq; subst; auto.
  - assert (HE1 : E b (snd (enqueue_slot b' s (g_wake w)))).
    { unfold enqueue_slot. change (get_blk (g_wake w) b') with (get_blk w b'). rewrite Hk'.
      destruct (nth_error (bflags k') s) as [[|]|]; auto. simpl.
      assert (H : E b (put_blk b' (blk_set_queue (blk_set_flags k' (upd (bflags k') s true)) (bqueue k' ++ [s])) (g_wake w)))
        by (apply E_put_other; auto).
      revert H. apply E_frame; auto. }
    destruct (enqueue_slot b' s (g_wake w)) as [q w1]. simpl in *.
    destruct q; auto. apply E_notify_other; auto.
Qed.

(** ** reference counting and handles do not touch the registration *)
Lemma J_dec_strong b t b' w : J b t w -> J b t (dec_strong b' w).
Proof.
  intros HJ. unfold dec_strong. destruct (get_blk w b') as [k'|] eqn:Hk'; [|apply J_emit; auto].
  destruct (bfreed k'); [apply J_emit; auto|].
  destruct (Nat.eq_dec b' b) as [->|Hne].
  - destruct (bstrong k') as [|[|n]]; try apply J_emit; eapply J_put_same; eauto.
  - destruct (bstrong k') as [|[|n]]; try apply J_emit; apply J_put_other; auto.
Qed.
Lemma E_dec_strong b b' w : E b w -> E b (dec_strong b' w).
Proof.
  intros HE. unfold dec_strong. destruct (get_blk w b') as [k'|] eqn:Hk'; [|apply E_emit; auto].
  destruct (bfreed k'); [apply E_emit; auto|].
  destruct (Nat.eq_dec b' b) as [->|Hne].
  - destruct (bstrong k') as [|[|n]]; try apply E_emit; eapply E_put_same; eauto.
  - destruct (bstrong k') as [|[|n]]; try apply E_emit; apply E_put_other; auto.
Qed.
Lemma J_inc_strong b t b' w : J b t w -> J b t (inc_strong b' w).
Proof.
  intros HJ. unfold inc_strong. destruct (get_blk w b') as [k'|] eqn:Hk'; [|apply J_emit; auto].
  destruct (bfreed k'); [apply J_emit; auto|].
  destruct (Nat.eq_dec b' b) as [->|Hne]; [eapply J_put_same; eauto | apply J_put_other; auto].
Qed.
Lemma E_inc_strong b b' w : E b w -> E b (inc_strong b' w).
Proof.
  intros HE. unfold inc_strong. destruct (get_blk w b') as [k'|] eqn:Hk'; [|apply E_emit; auto].
  destruct (bfreed k'); [apply E_emit; auto|].
  destruct (Nat.eq_dec b' b) as [->|Hne]; [eapply E_put_same; eauto | apply E_put_other; auto].
Qed.

Lemma J_set_handles b t hs w : J b t w -> J b t (set_handles hs w).
Proof. apply J_frame; auto. Qed.
Lemma E_set_handles b hs w : E b w -> E b (set_handles hs w).
Proof. apply E_frame; auto. Qed.

(** ** any waker action, from any handle, at any moment *)
Ltac jsolve :=
  repeat first [ eassumption | apply J_emit | apply J_set_handles | apply J_inc_strong
               | apply J_dec_strong | apply J_wake_slot ].
Ltac esolve :=
  repeat first [ assumption | apply E_emit | apply E_set_handles | apply E_inc_strong
               | apply E_dec_strong | (eapply E_wake_slot; [jsolve|]) ].

Lemma JE_do_act b t cw a w :
  J b t w -> J b t (do_act cw a w) /\ (E b w -> E b (do_act cw a w)).
Proof.
  intros HJ. destruct a as [| |h|h|h|h]; cbn [do_act];
    [ destruct cw as [[t'|b' s]|] | destruct cw as [[t'|b' s]|]
    | destruct (get_handle w h) as [[t'|b' s]|] | destruct (get_handle w h) as [[t'|b' s]|]
    | destruct (get_handle w h) as [[t'|b' s]|] | destruct (get_handle w h) as [[t'|b' s]|] ];
    cbn [wake_ref_handle drop_handle_val clone_handle_val]; unfold add_handle, kill_handle;
    (split; [jsolve | intros HE; esolve]).
Qed.

Lemma JE_do_acts b t cw l w :
  J b t w -> J b t (do_acts cw l w) /\ (E b w -> E b (do_acts cw l w)).
Proof.
  unfold do_acts. revert w; induction l as [|a l IH]; simpl; intros w HJ; auto.
  destruct (JE_do_act cw a HJ) as [J1 E1]. destruct (IH _ J1) as [J2 E2]. split; auto.
Qed.

Lemma JE_run_inj b t p k sl w :
  J b t w -> J b t (run_inj p k sl w) /\ (E b w -> E b (run_inj p k sl w)).
Proof.
  intros HJ. unfold run_inj. destruct (find_inj p k (inj_pts (winj w))) eqn:Ef; auto.
  rewrite <- Ef. destruct (@JE_do_acts b t None (find_inj p k (inj_pts (winj w))) _ (J_emit (EInj p k sl) HJ)) as [J1 E1].
  split; auto.
Qed.

(** ** pop, child poll, self-wake *)
Lemma J_clear_flag b t b' i w : J b t w -> J b t (clear_flag b' i w).
Proof.
  intros HJ. unfold clear_flag. destruct (get_blk w b') as [k'|] eqn:Hk'; auto.
  destruct (Nat.eq_dec b' b) as [->|Hne]; [eapply J_put_same; eauto | apply J_put_other; auto].
Qed.

Lemma J_pop b t b' w :
  J b t w -> J b t (snd (pop b' w)) /\ (b' = b -> fst (pop b' w) = PopNone -> E b (snd (pop b' w))).
Proof.
  intros HJ. unfold pop.
  assert (HJ0 : J b t (set_popk (S (popk w)) w)) by (revert HJ; apply J_frame; auto).
  destruct (forced_inc (S (popk w)) (set_popk (S (popk w)) w)); cbn [fst snd].
  - split; [apply JE_run_inj; auto | discriminate].
  - change (get_blk (set_popk (S (popk w)) w) b') with (get_blk w b').
    destruct (get_blk w b') as [kb|] eqn:Hk; cbn [fst snd].
    + destruct (bqueue kb) as [|i q] eqn:Hq; cbn [fst snd].
      * destruct (@JE_run_inj b t IExit (S (popk w)) None _ HJ0) as [J1 E1]. split; auto.
        intros -> _. apply E1. exists kb. split; auto.
      * split; [|discriminate].
        apply JE_run_inj. apply J_clear_flag. apply JE_run_inj.
        destruct (Nat.eq_dec b' b) as [->|Hne]; [eapply J_put_same; eauto | apply J_put_other; auto].
    + split; [apply J_emit; auto|].
      intros -> _. destruct HJ as (k & Hk' & _). congruence.
Qed.

Lemma J_poll_child b t k c b' s w : J b t w -> J b t (snd (poll_child k c b' s w)).
Proof.
  intros HJ. unfold poll_child.
  assert (H1 : J b t (emit (ECPoll (cid c) b' s (b', s)) (g_poll w))).
  { apply J_emit. revert HJ. apply J_frame; auto. }
  destruct (cdone c); cbn [snd]; [apply J_emit; auto|].
  destruct (cscript c) as [|[acts r0] rest]; cbn [snd]; [apply J_emit; auto|].
  apply J_emit. apply JE_do_acts; auto.
Qed.

Lemma JE_self_wake b t w : J b t w -> J b t (self_wake b t w) /\ E b (self_wake b t w).
Proof.
  intros (k & Hk & Hlast & H). unfold self_wake. rewrite Hk.
  assert (Hg : get_blk (emit (ETWake t CCrate) (put_blk b (blk_set_tw k) w)) b = Some (blk_set_tw k)).
  { change (get_blk (emit (ETWake t CCrate) (put_blk b (blk_set_tw k) w)) b) with (get_blk (put_blk b (blk_set_tw k) w) b).
    rewrite get_put_blk', Nat.eqb_refl.
    destruct (Nat.ltb_spec b (length (blocks w))); [auto|apply get_blk_lt' in Hk; lia]. }
  split.
  - exists (blk_set_tw k). splits; auto. right. split; auto. exists CCrate. left; reflexivity.
  - exists (blk_set_tw k). split; auto.
Qed.

(** ** the drain loop: a [Pending] result never leaves a queued child behind silently *)
Theorem drain_no_lost_wakeup k n f t w :
  J (blk f) t w ->
  let '(f', pr, w') := drain k n f t w in
  blk f' = blk f /\ J (blk f) t w' /\ (pr = PPending -> E (blk f) w').
Proof.
  revert f w. induction n as [|n IH]; intros f w HJ; cbn [drain].
  - destruct (JE_self_wake HJ). auto.
  - destruct (@J_pop (blk f) t (blk f) w HJ) as [J1 E1].
    destruct (pop (blk f) w) as [pr w1]. cbn [fst snd] in *.
    destruct pr as [| |i].
    + auto.
    + destruct (JE_self_wake J1). auto.
    + destruct (sm_get (tasks f) i) as [c|].
      * pose proof (@J_poll_child (blk f) t k c (blk f) i w1 J1) as J2.
        destruct (poll_child k c (blk f) i w1) as [[c' r] w2]. cbn [snd] in J2.
        destruct (is_ready r).
        -- splits; auto. discriminate.
        -- apply (IH {| tasks := sm_set (tasks f) i c'; blk := blk f |} w2 J2).
      * apply IH; auto.
Qed.

(** [register] establishes [J] *)
Lemma J_register b t w k0 : get_blk w b = Some k0 -> J b t (register b t w).
Proof.
  intros Hk. unfold register. rewrite Hk. apply JE_run_inj.
  exists (blk_set_last (blk_set_reg k0 (Some t)) (Some t)).
  change (get_blk (set_regk (S (regk (put_blk b (blk_set_last (blk_set_reg k0 (Some t)) (Some t)) w))) (put_blk b (blk_set_last (blk_set_reg k0 (Some t)) (Some t)) w)) b)
    with (get_blk (put_blk b (blk_set_last (blk_set_reg k0 (Some t)) (Some t)) w) b).
  rewrite get_put_blk', Nat.eqb_refl.
  destruct (Nat.ltb_spec b (length (blocks w))); [|apply get_blk_lt' in Hk; lia].
  splits; auto.
Qed.

Section WithParams.
Variable P : params.

(** C01, one group: a poll that returns [Pending] has registered the caller's task waker [t]
    as the most recent one and ends with an empty ready queue, or with [t] invoked during
    this call (an [ETWake t] event of this operation) *)
Theorem poll_pending_no_lost_wakeup k f t w k0 :
  get_blk w (blk f) = Some k0 ->
  let '(f', pr, w') := poll_inner_no_remove P k f t w in
  pr = PPending -> J (blk f) t w' /\ E (blk f) w'.
Proof.
  intros Hk. unfold poll_inner_no_remove. destruct (Nat.eqb (fub_len f) 0); [discriminate|].
  pose proof (@drain_no_lost_wakeup k (pB P) f t _ (@J_register (blk f) t w k0 Hk)) as H.
  destruct (drain k (pB P) f t (register (blk f) t w)) as [[f' pr] w']. destruct H as (A & B & C). auto.
Qed.

End WithParams.

(** between polls: a wake of a slot whose flag is clear queues the slot and notifies the task
    waker of the most recent registration (if it is still registered; otherwise it has been
    invoked since that registration already) *)
Theorem wake_reaches_latest_waker b s w k :
  get_blk w b = Some k -> bfreed k = false -> nth_error (bflags k) s = Some false ->
  exists k', get_blk (wake_slot b s w) b = Some k'
    /\ In s (bqueue k') /\ nth_error (bflags k') s = Some true
    /\ match breg k with
       | Some t => In (ETWake t CChild) (log (wake_slot b s w)) /\ breg k' = None /\ btw k' = true
       | None => k' = blk_set_queue (blk_set_flags k (upd (bflags k) s true)) (bqueue k ++ [s])
       end.
Proof.
  intros Hk Hfr Hf. unfold wake_slot. change (get_blk (g_wake w) b) with (get_blk w b). rewrite Hk, Hfr.
  unfold enqueue_slot. change (get_blk (g_wake w) b) with (get_blk w b). rewrite Hk, Hf.
  set (k1 := blk_set_queue (blk_set_flags k (upd (bflags k) s true)) (bqueue k ++ [s])).
  pose proof (get_blk_lt' _ _ Hk) as Hlt.
  assert (Hs : s < length (bflags k)) by (eapply nth_error_Some_lt; eauto).
  unfold notify.
  change (get_blk (g_enq (put_blk b k1 (g_wake w))) b) with (get_blk (put_blk b k1 (g_wake w)) b).
  rewrite get_put_blk', Nat.eqb_refl.
  change (length (blocks (g_wake w))) with (length (blocks w)).
  destruct (Nat.ltb_spec b (length (blocks w))); [|lia].
  change (breg k1) with (breg k).
  destruct (breg k) as [t|] eqn:Hr.
  - exists (blk_set_tw (blk_set_reg k1 None)).
    change (get_blk (emit (ETWake t CChild) (put_blk b (blk_set_tw (blk_set_reg k1 None)) (g_enq (put_blk b k1 (g_wake w))))) b)
      with (get_blk (put_blk b (blk_set_tw (blk_set_reg k1 None)) (g_enq (put_blk b k1 (g_wake w)))) b).
    rewrite get_put_blk', Nat.eqb_refl.
    change (length (blocks (g_enq (put_blk b k1 (g_wake w))))) with (length (upd (blocks w) b k1)).
    rewrite upd_length. destruct (Nat.ltb_spec b (length (blocks w))); [|lia].
    simpl. splits; auto.
    + apply in_or_app; right; left; reflexivity.
    + apply nth_error_upd_eq; auto.
  - exists k1.
    change (get_blk (g_enq (put_blk b k1 (g_wake w))) b) with (get_blk (put_blk b k1 (g_wake w)) b).
    rewrite get_put_blk', Nat.eqb_refl.
    change (length (blocks (g_wake w))) with (length (blocks w)).
    destruct (Nat.ltb_spec b (length (blocks w))); [|lia].
    simpl. splits; auto.
    + apply in_or_app; right; left; reflexivity.
    + apply nth_error_upd_eq; auto.
Qed.
