(** * Protocol: the order of the shared-memory steps that ConcWake.v models

    [ConcWake] proves the Level B statement of C01 for a transition system whose waker call is
    "lock + replace(flag, true); if the flag was clear: enqueue (swap, link), notify", whose pop is
    "dequeue, then clear the flag", whose push is "lock + replace; if clear: enqueue" and whose
    poll is "return None if empty; register; loop: budget exhausted -> invoke the task waker,
    Pending; pop; Empty -> Pending; Inconsistent -> invoke the task waker, Pending; Ready ->
    poll the child".  tools/build.py reads the bodies of [wake_by_ref], [WakerList::push],
    [WakerList::pop] and [poll_inner_no_remove] in /repo on every run, lists the steps it finds
    in textual order (generated/ProtocolInst.v) and the generated lemma [protocol_ok] states
    that they are the lists below.  A syntactic tie: it sees re-orderings, removed or added
    steps, not what the called functions do. *)
From FB Require Import Base.

Inductive ptok :=
| KLock | KTestSet | KIfClear | KEnqueueIn | KNotifyIn | KEnqueueOut | KNotifyOut | KUnlockEarly
| KDequeue | KClearFlag
| KIsEmptyRet | KRegister | KLoop | KBudgetSelfWake | KBudgetNoWake | KPop | KEmptyPending
| KInconsSelfWake | KInconsNoWake | KChildPoll.

Definition ptok_eqb (a b : ptok) : bool :=
  match a, b with
  | KLock, KLock | KTestSet, KTestSet | KIfClear, KIfClear | KEnqueueIn, KEnqueueIn | KNotifyIn, KNotifyIn
  | KEnqueueOut, KEnqueueOut | KNotifyOut, KNotifyOut | KUnlockEarly, KUnlockEarly
  | KDequeue, KDequeue | KClearFlag, KClearFlag
  | KIsEmptyRet, KIsEmptyRet | KRegister, KRegister | KLoop, KLoop | KBudgetSelfWake, KBudgetSelfWake
  | KBudgetNoWake, KBudgetNoWake | KPop, KPop | KEmptyPending, KEmptyPending
  | KInconsSelfWake, KInconsSelfWake | KInconsNoWake, KInconsNoWake | KChildPoll, KChildPoll => true
  | _, _ => false
  end.

Fixpoint toks_eqb (a b : list ptok) : bool :=
  match a, b with
  | [], [] => true
  | x :: a', y :: b' => ptok_eqb x y && toks_eqb a' b'
  | _, _ => false
  end.

(** [In] = inside the "flag was clear" branch, while the slot lock is held *)
Definition wake_by_ref_model : list ptok := [KLock; KTestSet; KIfClear; KEnqueueIn; KNotifyIn].
Definition push_model : list ptok := [KLock; KTestSet; KIfClear; KEnqueueIn].
Definition pop_model : list ptok := [KDequeue; KLock; KClearFlag].
Definition poll_model : list ptok :=
  [KIsEmptyRet; KRegister; KLoop; KBudgetSelfWake; KPop; KEmptyPending; KInconsSelfWake; KChildPoll].

Definition protocol_matches (wake push pop poll : list ptok) : bool :=
  toks_eqb wake wake_by_ref_model && toks_eqb push push_model && toks_eqb pop pop_model && toks_eqb poll poll_model.
