(** * Protocol: the order of the shared-memory steps that ConcWake.v models

    [ConcWake] proves the Level B statement of C01 for a transition system whose waker call is
    "lock + replace(flag, true); if the flag was clear: enqueue (swap, link), notify", whose pop is
    "dequeue, then clear the flag", whose push is "lock + replace; if clear: enqueue" and whose
    poll is "return None if empty; register; loop: budget exhausted -> invoke the task waker,
    Pending; pop; Empty -> Pending; Inconsistent -> invoke the task waker, Pending; Ready ->
    poll the child".  tools/build.py reads the bodies of [wake_by_ref], [WakerList::push],
    [WakerList::pop] and [poll_inner_no_remove] in /repo on every run, lists the steps it finds
    in textual order (generated/ProtocolInst.v) and the generated lemma [protocol_ok] states
    that they are the lists below.  A syntactic tie: it sees re-orderings, removed or added
    steps, not what the called functions do. *)
From FB Require Import Base.

Inductive ptok :=
| KLock | KTestSet | KIfClear | KEnqueueIn | KNotifyIn | KEnqueueOut | KNotifyOut | KUnlockEarly
| KDequeue | KClearFlag
| KIsEmptyRet | KRegister | KLoop | KBudgetSelfWake | KBudgetNoWake | KPop | KEmptyPending
| KInconsSelfWake | KInconsNoWake | KChildPoll
| KDecStrong | KDropInner | KIncStrong | KRawWrite | KCallWakeByRef | KCallDropWaker.

Definition ptok_eqb (a b : ptok) : bool :=
  match a, b with
  | KLock, KLock | KTestSet, KTestSet | KIfClear, KIfClear | KEnqueueIn, KEnqueueIn | KNotifyIn, KNotifyIn
  | KEnqueueOut, KEnqueueOut | KNotifyOut, KNotifyOut | KUnlockEarly, KUnlockEarly
  | KDequeue, KDequeue | KClearFlag, KClearFlag
  | KIsEmptyRet, KIsEmptyRet | KRegister, KRegister | KLoop, KLoop | KBudgetSelfWake, KBudgetSelfWake
  | KBudgetNoWake, KBudgetNoWake | KPop, KPop | KEmptyPending, KEmptyPending
  | KInconsSelfWake, KInconsSelfWake | KInconsNoWake, KInconsNoWake | KChildPoll, KChildPoll
  | KDecStrong, KDecStrong | KDropInner, KDropInner | KIncStrong, KIncStrong | KRawWrite, KRawWrite
  | KCallWakeByRef, KCallWakeByRef | KCallDropWaker, KCallDropWaker => true
  | _, _ => false
  end.

Fixpoint toks_eqb (a b : list ptok) : bool :=
  match a, b with
  | [], [] => true
  | x :: a', y :: b' => ptok_eqb x y && toks_eqb a' b'
  | _, _ => false
  end.

(** [In] = inside the "flag was clear" branch, while the slot lock is held *)
Definition wake_by_ref_model : list ptok := [KLock; KTestSet; KIfClear; KEnqueueIn; KNotifyIn].
Definition push_model : list ptok := [KLock; KTestSet; KIfClear; KEnqueueIn].
Definition pop_model : list ptok := [KDequeue; KLock; KClearFlag].
Definition poll_model : list ptok :=
  [KIsEmptyRet; KRegister; KLoop; KBudgetSelfWake; KPop; KEmptyPending; KInconsSelfWake; KChildPoll].

Definition protocol_matches (wake push pop : list ptok) : bool :=
  toks_eqb wake wake_by_ref_model && toks_eqb push push_model && toks_eqb pop pop_model.

(** the skeleton of the owner's poll loop is sequential code (plus the hook-point windows the harness
    injects wakes into): it is a lemma of its own, and the check may re-validate a changed skeleton
    by the escalated correspondence instead (DESIGN.md, section 5) *)
Definition poll_skeleton_matches (poll : list ptok) : bool := toks_eqb poll poll_model.

(** the owners' side of the reference count, as ConcRefcount.v assumes it: a clone is one
    increment; dropping the collection's handle or a waker is one decrement and the owner that
    took the count to 0 releases the block — and does nothing else to the shared block (no raw
    write into the header); [wake] by value is [wake_by_ref] followed by the drop *)
Definition drop_list_model : list ptok := [KDecStrong; KDropInner].
Definition drop_waker_model : list ptok := [KDecStrong; KDropInner].
Definition clone_waker_model : list ptok := [KIncStrong].
Definition wake_model : list ptok := [KCallWakeByRef; KCallDropWaker].

Definition refcount_protocol_matches (dl dw cl wk : list ptok) : bool :=
  toks_eqb dl drop_list_model && toks_eqb dw drop_waker_model && toks_eqb cl clone_waker_model && toks_eqb wk wake_model.

(** [Unpin] facts the model of C08 relies on (measured by the harness with autoref
    specialisation, generated/PinsInst.v): the four buffered adapters keep their upstream
    stream inline, so over a [!Unpin] upstream the adapter must itself be [!Unpin] (otherwise
    safe code may move it, and the upstream with it, between polls); the collections keep
    their children in heap slots and are [Unpin] whatever the children are (moving the
    collection moves no child — the model's [OMove] is the identity).
    Order: buffered_unordered, buffered_ordered, try_buffered_unordered, try_buffered_ordered,
    FuturesUnorderedBounded, FuturesUnordered, FuturesOrderedBounded, FuturesOrdered, JoinAll,
    TryJoinAll. *)
Definition pins_expected : list bool :=
  [false; false; false; false; true; true; true; true; true; true].

Fixpoint bools_eqb (a b : list bool) : bool :=
  match a, b with
  | [], [] => true
  | x :: a', y :: b' => Bool.eqb x y && bools_eqb a' b'
  | _, _ => false
  end.

(** ** the group loop of the unbounded collections (poll_next of FuturesUnordered / MergeUnbounded)

    The statements of the loop in textual order, as tools/build.py reads them from the source.
    [fu_loop] / [fu_poll_next] of Unbounded.v are my rendering of exactly this skeleton: empty
    => None; for each group: wrap the cursor, poll the group at the cursor; item => (count
    down,) cursor + 1, return it; None => remove the group, keep it if it was the only one
    (return None) or the last of the Vec (cursor 0), otherwise discard it; Pending => cursor + 1;
    after the loop None if nothing is left, Pending otherwise. *)
Inductive gtok :=
| GIsEmpty | GRetNone | GFor | GWrapTest | GCurZero | GPollCur | GArmItem | GRemDec | GCurInc | GRetItem
| GArmNone | GRemove | GPushBack | GIfLast | GArmPending | GEndRem | GEndAllEmpty | GRetPending
| GCurOther | GRemOther | GRetOther.
Scheme Equality for gtok.

Fixpoint gtoks_eqb (a b : list gtok) : bool :=
  match a, b with
  | [], [] => true
  | x :: a', y :: b' => gtok_beq x y && gtoks_eqb a' b'
  | _, _ => false
  end.

Definition group_loop_common (count_down : list gtok) (end_test : gtok) : list gtok :=
  [GIsEmpty; GRetNone; GFor; GWrapTest; GCurZero; GPollCur; GArmItem] ++ count_down ++
  [GCurInc; GRetItem; GArmNone; GRemove; GIsEmpty; GPushBack; GRetNone; GIfLast; GPushBack; GCurZero;
   GArmPending; GCurInc; end_test; GRetNone; GRetPending].

Definition fu_poll_model : list gtok := group_loop_common [GRemDec] GEndRem.
Definition mu_poll_model : list gtok := group_loop_common [] GEndAllEmpty.

Definition grouploop_matches (fu mu : list gtok) : bool :=
  gtoks_eqb fu fu_poll_model && gtoks_eqb mu mu_poll_model.
