(** * ConcWake: no lost wake-up under every interleaving of waker calls with a poll (C01, Level B)

    The sequential model (World / Fub) runs every waker call atomically, at hook points of a
    poll.  Here the calls are split into their shared-memory steps and interleaved arbitrarily,
    step by step, with the steps of the polling thread and with each other (sequential
    consistency; each step below is one atomic access of the implementation or of a dependency).

    Waker call on slot [i] ([wake_by_ref], src/waker_list.rs):
      [WStart]  lock the slot, [replace(flag, true)]             (one step: the lock makes it atomic)
                 - the flag was set: done ([WDone]), nothing else happens
                 - the flag was clear: go on
      [WSwap]   first half of [MpscQueue::enqueue]: swap the head  (the node is in the queue, but
                                                                    not yet reachable from its predecessor)
      [WLink]   second half: link the predecessor to the node
      [WNotify] [DiatomicWaker::notify]: take the registered task waker, if any, and invoke it
      [WDone]
    (the slot lock is held until the end of the call; the model lets other threads proceed
    where the implementation would make them wait — more interleavings, not fewer).

    Polling thread ([poll_inner_no_remove], src/futures_unordered_bounded.rs):
      [PIdle r] between polls ([r]: what the last poll returned);
                a poll starts by registering the caller's waker [W];
                the owner may push a child (flag + enqueue, no notification)
      [PLoop n] about to pop, [n] children polled so far in this call
                 - [n >= B]: invoke [W], return Pending
                 - pop = Empty (the queue is empty, or its first node is not linked yet): return Pending
                 - pop = Inconsistent (some node not linked yet): invoke [W], return Pending
                 - pop = Ready i: the node leaves the queue
      [PClear i n] clear the flag of slot [i]
      [PChild i n] poll child [i] — Pending: back to [PLoop (n+1)]; Ready: return

    Ghost state: [armed i] — a waker call on [i] (or a push) has taken effect since the poll of
    child [i] last began; [cur] — the task waker of the most recent register; [woken] — [cur]
    has been invoked since it was registered.

    Theorem [pending_never_loses_a_wake]: in every reachable state in which the last poll
    returned Pending and its task waker has not been invoked, every armed child has a waker
    call in flight that has not yet executed its notify step — and that notify will find the
    waker still registered.  Hence, once no call is in flight, Pending with an armed child
    implies the task waker of the most recent poll was invoked. *)
From FB Require Import Base.

Inductive wpc := WStart | WSwap | WLink | WNotify | WDone.
Inductive pres := RNone | RPending | RReady.
Inductive ppc := PIdle (r : pres) | PLoop (n : nat) | PClear (i n : nat) | PChild (i n : nat).

Record st := {
  flag : nat -> bool;
  armed : nat -> bool;
  Q : list (nat * bool);        (* queue in swap order; the boolean: linked *)
  reg : option nat;             (* DiatomicWaker *)
  cur : nat;
  woken : bool;
  ws : list (nat * wpc);        (* every waker call ever started: slot, program counter *)
  pp : ppc;
}.

Definition fupd (f : nat -> bool) (i : nat) (v : bool) : nat -> bool :=
  fun j => if Nat.eqb j i then v else f j.

Definition set_linked (i : nat) (q : list (nat * bool)) : list (nat * bool) :=
  map (fun p => if Nat.eqb (fst p) i then (i, true) else p) q.

Definition init : st :=
  {| flag := fun _ => false; armed := fun _ => false; Q := []; reg := None; cur := 0; woken := false;
     ws := []; pp := PIdle RNone |}.

Section WithBudget.
Variable B : nat.

Inductive step (s : st) : st -> Prop :=
| s_spawn i :
    step s {| flag := flag s; armed := armed s; Q := Q s; reg := reg s; cur := cur s; woken := woken s;
              ws := ws s ++ [(i, WStart)]; pp := pp s |}
| s_test_set_true t i :
    nth_error (ws s) t = Some (i, WStart) -> flag s i = true ->
    step s {| flag := flag s; armed := fupd (armed s) i true; Q := Q s; reg := reg s; cur := cur s; woken := woken s;
              ws := upd (ws s) t (i, WDone); pp := pp s |}
| s_test_set_false t i :
    nth_error (ws s) t = Some (i, WStart) -> flag s i = false ->
    step s {| flag := fupd (flag s) i true; armed := fupd (armed s) i true; Q := Q s; reg := reg s; cur := cur s;
              woken := woken s; ws := upd (ws s) t (i, WSwap); pp := pp s |}
| s_swap t i :
    nth_error (ws s) t = Some (i, WSwap) ->
    step s {| flag := flag s; armed := armed s; Q := Q s ++ [(i, false)]; reg := reg s; cur := cur s; woken := woken s;
              ws := upd (ws s) t (i, WLink); pp := pp s |}
| s_link t i :
    nth_error (ws s) t = Some (i, WLink) ->
    step s {| flag := flag s; armed := armed s; Q := set_linked i (Q s); reg := reg s; cur := cur s; woken := woken s;
              ws := upd (ws s) t (i, WNotify); pp := pp s |}
| s_notify t i :
    nth_error (ws s) t = Some (i, WNotify) ->
    step s {| flag := flag s; armed := armed s; Q := Q s; reg := None; cur := cur s;
              woken := (match reg s with Some _ => true | None => woken s end);
              ws := upd (ws s) t (i, WDone); pp := pp s |}
| p_start r W :
    pp s = PIdle r ->
    step s {| flag := flag s; armed := armed s; Q := Q s; reg := Some W; cur := W; woken := false;
              ws := ws s; pp := PLoop 0 |}
| p_none r :
    pp s = PIdle r ->
    step s {| flag := flag s; armed := armed s; Q := Q s; reg := reg s; cur := cur s; woken := woken s;
              ws := ws s; pp := PIdle RNone |}
| p_push_fresh r i :
    pp s = PIdle r -> flag s i = false ->
    step s {| flag := fupd (flag s) i true; armed := fupd (armed s) i true; Q := Q s ++ [(i, true)]; reg := reg s;
              cur := cur s; woken := woken s; ws := ws s; pp := PIdle RNone |}
| p_push_stale r i :
    pp s = PIdle r -> flag s i = true ->
    step s {| flag := flag s; armed := fupd (armed s) i true; Q := Q s; reg := reg s;
              cur := cur s; woken := woken s; ws := ws s; pp := PIdle RNone |}
| p_budget n :
    pp s = PLoop n -> B <= n ->
    step s {| flag := flag s; armed := armed s; Q := Q s; reg := reg s; cur := cur s; woken := true;
              ws := ws s; pp := PIdle RPending |}
| p_empty n :
    pp s = PLoop n -> (Q s = [] \/ exists i rest, Q s = (i, false) :: rest) ->
    step s {| flag := flag s; armed := armed s; Q := Q s; reg := reg s; cur := cur s; woken := woken s;
              ws := ws s; pp := PIdle RPending |}
| p_inconsistent n i :
    pp s = PLoop n -> In (i, false) (Q s) ->
    step s {| flag := flag s; armed := armed s; Q := Q s; reg := reg s; cur := cur s; woken := true;
              ws := ws s; pp := PIdle RPending |}
| p_ready n i rest :
    pp s = PLoop n -> Q s = (i, true) :: rest ->
    step s {| flag := flag s; armed := armed s; Q := rest; reg := reg s; cur := cur s; woken := woken s;
              ws := ws s; pp := PClear i n |}
| p_clear i n :
    pp s = PClear i n ->
    step s {| flag := fupd (flag s) i false; armed := armed s; Q := Q s; reg := reg s; cur := cur s; woken := woken s;
              ws := ws s; pp := PChild i n |}
| p_child_pending i n :
    pp s = PChild i n ->
    step s {| flag := flag s; armed := fupd (armed s) i false; Q := Q s; reg := reg s; cur := cur s; woken := woken s;
              ws := ws s; pp := PLoop (S n) |}
| p_child_ready i n :
    pp s = PChild i n ->
    step s {| flag := flag s; armed := fupd (armed s) i false; Q := Q s; reg := reg s; cur := cur s; woken := woken s;
              ws := ws s; pp := PIdle RReady |}.

Inductive reachable : st -> Prop :=
| r_init : reachable init
| r_step s s' : reachable s -> step s s' -> reachable s'.

(** ** counting *)
Definition b2n (b : bool) : nat := if b then 1 else 0.
Definition cntf {A} (P : A -> bool) (l : list A) : nat := length (filter P l).

Definition wpc_eqb (a b : wpc) : bool :=
  match a, b with
  | WStart, WStart | WSwap, WSwap | WLink, WLink | WNotify, WNotify | WDone, WDone => true
  | _, _ => false
  end.

Definition at_pc (i : nat) (pc : wpc) (p : nat * wpc) : bool := Nat.eqb (fst p) i && wpc_eqb (snd p) pc.
Definition wcount (i : nat) (pc : wpc) (l : list (nat * wpc)) : nat := cntf (at_pc i pc) l.
Definition qcount (i : nat) (q : list (nat * bool)) : nat := cntf (fun p => Nat.eqb (fst p) i) q.
Definition ucount (i : nat) (q : list (nat * bool)) : nat := cntf (fun p => Nat.eqb (fst p) i && negb (snd p)) q.
Definition pclear (i : nat) (p : ppc) : nat := match p with PClear j _ => b2n (Nat.eqb j i) | _ => 0 end.
Definition is_owing (p : nat * wpc) : bool := match snd p with WSwap | WLink | WNotify => true | _ => false end.
Definition owes (s : st) : nat := cntf is_owing (ws s).
Definition claims (p : ppc) : Prop := match p with PIdle RNone | PIdle RReady => False | _ => True end.

Record Inv (s : st) : Prop := {
  i_tok : forall i, qcount i (Q s) + wcount i WSwap (ws s) + pclear i (pp s) = b2n (flag s i);
  i_link : forall i, ucount i (Q s) = wcount i WLink (ws s);
  i_cur : forall W, reg s = Some W -> W = cur s;
  i_reg : claims (pp s) -> woken s = false -> reg s = Some (cur s);
  i_pend : pp s = PIdle RPending -> woken s = false -> Q s <> [] -> 0 < owes s;
  i_armed : forall i, armed s i = true -> flag s i = true \/ exists n, pp s = PChild i n;
}.

Lemma cntf_app {A} (P : A -> bool) l1 l2 : cntf P (l1 ++ l2) = cntf P l1 + cntf P l2.
Proof. unfold cntf. rewrite filter_app, app_length. reflexivity. Qed.

Lemma cntf_upd {A} (P : A -> bool) l t old x :
  nth_error l t = Some old -> cntf P (upd l t x) + b2n (P old) = cntf P l + b2n (P x).
Proof.
  unfold cntf. revert t. induction l as [|a l IH]; intros [|t] H; simpl in *; try discriminate.
  - inversion H; subst. destruct (P old), (P x); simpl; lia.
  - specialize (IH _ H). destruct (P a); simpl; lia.
Qed.

Lemma cntf_pos_ex {A} (P : A -> bool) l : 0 < cntf P l -> exists x, In x l /\ P x = true.
Proof.
  unfold cntf. destruct (filter P l) as [|x r] eqn:E; simpl; [lia|]. intros _.
  assert (Hin : In x (filter P l)) by (rewrite E; left; auto). apply filter_In in Hin. eauto.
Qed.

Lemma cntf_in_pos {A} (P : A -> bool) l x : In x l -> P x = true -> 0 < cntf P l.
Proof.
  intros Hin HP. unfold cntf. assert (H : In x (filter P l)) by (apply filter_In; auto).
  destruct (filter P l); simpl; [destruct H|lia].
Qed.

Lemma cntf_le {A} (P R : A -> bool) l : (forall x, P x = true -> R x = true) -> cntf P l <= cntf R l.
Proof.
  intros H. unfold cntf. induction l as [|a l IH]; simpl; auto.
  destruct (P a) eqn:E; [rewrite (H _ E); simpl; lia|]. destruct (R a); simpl; lia.
Qed.

Lemma fupd_same f i v : fupd f i v i = v.
Proof. unfold fupd. rewrite Nat.eqb_refl. reflexivity. Qed.
Lemma fupd_other f i v j : j <> i -> fupd f i v j = f j.
Proof. intros H. unfold fupd. destruct (Nat.eqb_spec j i); congruence. Qed.

Lemma qcount_set_linked i j q : qcount j (set_linked i q) = qcount j q.
Proof.
  unfold qcount, cntf, set_linked. induction q as [|[a b] q IH]; simpl; auto.
  destruct (Nat.eqb_spec a i) as [->|Hne]; simpl; destruct (Nat.eqb i j) eqn:E1; simpl; try (rewrite IH; reflexivity);
    destruct (Nat.eqb a j); simpl; rewrite IH; reflexivity.
Qed.

Lemma ucount_set_linked_same i q : ucount i (set_linked i q) = 0.
Proof.
  unfold ucount, cntf, set_linked. induction q as [|[a b] q IH]; simpl; auto.
  destruct (Nat.eqb_spec a i) as [->|Hne]; simpl.
  - rewrite Nat.eqb_refl. simpl. exact IH.
  - destruct (Nat.eqb_spec a i); [congruence|]. simpl. exact IH.
Qed.

Lemma ucount_set_linked_other i j q : j <> i -> ucount j (set_linked i q) = ucount j q.
Proof.
  intros Hne. unfold ucount, cntf, set_linked. induction q as [|[a b] q IH]; simpl; auto.
  destruct (Nat.eqb_spec a i) as [->|Hai]; simpl.
  - destruct (Nat.eqb_spec i j); [congruence|]. simpl. exact IH.
  - destruct (Nat.eqb a j && negb b); simpl; rewrite IH; reflexivity.
Qed.

Lemma ucount_le_qcount i q : ucount i q <= qcount i q.
Proof. apply cntf_le. intros x H. apply andb_true_iff in H. tauto. Qed.

Lemma wcount_le_owes i pc l : pc = WSwap \/ pc = WLink \/ pc = WNotify -> wcount i pc l <= cntf is_owing l.
Proof.
  intros Hpc. apply cntf_le. intros [j p] H. unfold at_pc in H. apply andb_true_iff in H as [_ H]. simpl in *.
  unfold is_owing; simpl. destruct p, pc; try discriminate; auto; destruct Hpc as [|[|]]; discriminate.
Qed.

Lemma b2n_le b : b2n b <= 1. Proof. destruct b; simpl; lia. Qed.

Lemma at_pc_same i pc : at_pc i pc (i, pc) = true.
Proof. unfold at_pc; simpl. rewrite Nat.eqb_refl. destruct pc; reflexivity. Qed.
Lemma at_pc_other_slot i j pc pc' : j <> i -> at_pc j pc (i, pc') = false.
Proof. intros H. unfold at_pc; simpl. destruct (Nat.eqb_spec i j); [congruence|reflexivity]. Qed.
Lemma at_pc_other_pc i j pc pc' : pc <> pc' -> at_pc j pc (i, pc') = false.
Proof. intros H. unfold at_pc; simpl. destruct pc, pc'; simpl; try congruence; apply andb_false_r. Qed.

(** the count of threads of slot [j] at [pc] after thread [t] moved from [pc0] to [pc1] on slot [i] *)
Lemma wcount_move l t i pc0 pc1 j pc :
  nth_error l t = Some (i, pc0) ->
  wcount j pc (upd l t (i, pc1)) + b2n (at_pc j pc (i, pc0)) = wcount j pc l + b2n (at_pc j pc (i, pc1)).
Proof. intros H. unfold wcount. apply cntf_upd; auto. Qed.

Lemma owes_move l t i pc0 pc1 :
  nth_error l t = Some (i, pc0) ->
  cntf is_owing (upd l t (i, pc1)) + b2n (is_owing (i, pc0)) = cntf is_owing l + b2n (is_owing (i, pc1)).
Proof. intros H. apply cntf_upd; auto. Qed.

Lemma Inv_init : Inv init.
Proof. constructor; simpl; intros; try discriminate; try lia; auto. Qed.

Ltac slot_cases i j :=
  destruct (Nat.eq_dec j i) as [->|?];
  [rewrite ?fupd_same, ?at_pc_same in * | rewrite ?fupd_other, ?at_pc_other_slot in * by auto].

Theorem step_inv s s' : Inv s -> step s s' -> Inv s'.
Proof.
  intros [Htok Hlink Hcur Hreg Hpend Harm] Hs.
  destruct Hs as [i | t i Ht Hf | t i Ht Hf | t i Ht | t i Ht | t i Ht | r W Hp | r Hp | r i Hp Hf | r i Hp Hf
                  | n Hp Hn | n Hp Hq | n i Hp Hin | n i rest Hp Hq | i n Hp | i n Hp | i n Hp];
    constructor; cbn [flag armed Q reg cur woken ws pp]; auto.
  (* s_spawn *)
  - intros j. specialize (Htok j). unfold wcount in *. rewrite cntf_app. simpl.
    unfold cntf at 2; simpl. rewrite at_pc_other_pc by discriminate. simpl. lia.
  - intros j. specialize (Hlink j). unfold wcount in *. rewrite cntf_app.
    unfold cntf at 2; simpl. rewrite at_pc_other_pc by discriminate. simpl. lia.
  - intros H1 H2 H3. specialize (Hpend H1 H2 H3). unfold owes in *; simpl. rewrite cntf_app. lia.
  (* s_test_set_true *)
  - intros j. specialize (Htok j). pose proof (wcount_move _ _ _ _ WDone j WSwap Ht) as Hm.
    rewrite !at_pc_other_pc in Hm by discriminate. simpl in Hm. lia.
  - intros j. specialize (Hlink j). pose proof (wcount_move _ _ _ _ WDone j WLink Ht) as Hm.
    rewrite !at_pc_other_pc in Hm by discriminate. simpl in Hm. lia.
  - intros H1 H2 H3. specialize (Hpend H1 H2 H3). unfold owes in *; simpl.
    pose proof (owes_move _ _ _ _ WDone Ht) as Hm. simpl in Hm. lia.
  - intros j Hj. destruct (Nat.eq_dec j i) as [->|Hne]; [left; auto|]. rewrite fupd_other in Hj by auto. auto.
  (* s_test_set_false *)
  - intros j. specialize (Htok j). pose proof (wcount_move _ _ _ _ WSwap j WSwap Ht) as Hm.
    rewrite (at_pc_other_pc i j) in Hm by discriminate.
    destruct (Nat.eq_dec j i) as [->|Hne].
    + rewrite fupd_same, at_pc_same in *. rewrite Hf in Htok. simpl in *. lia.
    + rewrite fupd_other, at_pc_other_slot in * by auto. simpl in Hm. lia.
  - intros j. specialize (Hlink j). pose proof (wcount_move _ _ _ _ WSwap j WLink Ht) as Hm.
    rewrite !at_pc_other_pc in Hm by discriminate. simpl in Hm. lia.
  - intros H1 H2 H3. unfold owes; simpl. pose proof (owes_move _ _ _ _ WSwap Ht) as Hm. simpl in Hm. lia.
  - intros j Hj. destruct (Nat.eq_dec j i) as [->|Hne]; [left; apply fupd_same|].
    rewrite fupd_other in * by auto. auto.
  (* s_swap *)
  - intros j. specialize (Htok j). pose proof (wcount_move _ _ _ _ WLink j WSwap Ht) as Hm.
    rewrite (at_pc_other_pc i j WSwap WLink) in Hm by discriminate.
    unfold qcount in *. rewrite cntf_app. unfold cntf at 2; simpl.
    destruct (Nat.eq_dec j i) as [->|Hne].
    + rewrite at_pc_same in Hm. rewrite Nat.eqb_refl. simpl in *. lia.
    + rewrite at_pc_other_slot in Hm by auto. destruct (Nat.eqb_spec i j); [congruence|]. simpl in *. lia.
  - intros j. specialize (Hlink j). pose proof (wcount_move _ _ _ _ WLink j WLink Ht) as Hm.
    rewrite (at_pc_other_pc i j WLink WSwap) in Hm by discriminate.
    unfold ucount in *. rewrite cntf_app. unfold cntf at 2; simpl.
    destruct (Nat.eq_dec j i) as [->|Hne].
    + rewrite at_pc_same in Hm. rewrite Nat.eqb_refl. simpl in *. lia.
    + rewrite at_pc_other_slot in Hm by auto. destruct (Nat.eqb_spec i j); [congruence|]. simpl in *. lia.
  - intros H1 H2 H3. unfold owes; simpl. pose proof (owes_move _ _ _ _ WLink Ht) as Hm. simpl in Hm.
    pose proof (cntf_in_pos is_owing (ws s) (i, WSwap) (nth_error_In _ _ Ht) eq_refl). lia.
  (* s_link *)
  - intros j. specialize (Htok j). rewrite qcount_set_linked.
    pose proof (wcount_move _ _ _ _ WNotify j WSwap Ht) as Hm. rewrite !at_pc_other_pc in Hm by discriminate. simpl in Hm. lia.
  - intros j. pose proof (wcount_move _ _ _ _ WNotify j WLink Ht) as Hm.
    rewrite (at_pc_other_pc i j WLink WNotify) in Hm by discriminate.
    destruct (Nat.eq_dec j i) as [->|Hne].
    + rewrite at_pc_same in Hm. rewrite ucount_set_linked_same.
      pose proof (Htok i) as T. pose proof (Hlink i) as L. pose proof (ucount_le_qcount i (Q s)).
      pose proof (b2n_le (flag s i)). simpl in Hm. lia.
    + rewrite at_pc_other_slot in Hm by auto. rewrite ucount_set_linked_other by auto.
      specialize (Hlink j). simpl in Hm. lia.
  - intros H1 H2 H3. unfold owes; simpl. pose proof (owes_move _ _ _ _ WNotify Ht) as Hm. simpl in Hm.
    pose proof (cntf_in_pos is_owing (ws s) (i, WLink) (nth_error_In _ _ Ht) eq_refl). lia.
  (* s_notify *)
  - intros j. specialize (Htok j). pose proof (wcount_move _ _ _ _ WDone j WSwap Ht) as Hm.
    rewrite !at_pc_other_pc in Hm by discriminate. simpl in Hm. lia.
  - intros j. specialize (Hlink j). pose proof (wcount_move _ _ _ _ WDone j WLink Ht) as Hm.
    rewrite !at_pc_other_pc in Hm by discriminate. simpl in Hm. lia.
  - intros W H; discriminate.
  - intros Hc Hw. destruct (reg s) eqn:E; [discriminate|]. specialize (Hreg Hc Hw). congruence.
  - intros H1 Hw H3. destruct (reg s) eqn:E; [discriminate|].
    assert (Hc : claims (pp s)) by (rewrite H1; exact I). specialize (Hreg Hc Hw). congruence.
  (* p_start *)
  - intros j. specialize (Htok j). rewrite Hp in Htok. simpl in *. lia.
  - intros W' H; inversion H; reflexivity.
  - intros; discriminate.
  - intros j Hj. destruct (Harm j Hj) as [|[n Hn]]; auto. rewrite Hp in Hn; discriminate.
  (* p_none *)
  - intros j. specialize (Htok j). rewrite Hp in Htok. simpl in *. lia.
  - intros [].
  - intros; discriminate.
  - intros j Hj. destruct (Harm j Hj) as [|[n Hn]]; auto. rewrite Hp in Hn; discriminate.
  (* p_push_fresh *)
  - intros j. specialize (Htok j). rewrite Hp in Htok. unfold qcount in *. rewrite cntf_app. unfold cntf at 2; simpl.
    destruct (Nat.eq_dec j i) as [->|Hne].
    + rewrite fupd_same, Nat.eqb_refl. rewrite Hf in Htok. simpl in *. lia.
    + rewrite fupd_other by auto. destruct (Nat.eqb_spec i j); [congruence|]. simpl in *. lia.
  - intros j. specialize (Hlink j). unfold ucount in *. rewrite cntf_app. unfold cntf at 2; simpl.
    rewrite andb_false_r. simpl. lia.
  - intros [].
  - intros; discriminate.
  - intros j Hj. destruct (Nat.eq_dec j i) as [->|Hne]; [left; apply fupd_same|].
    rewrite fupd_other in * by auto. destruct (Harm j Hj) as [|[n Hn]]; auto. rewrite Hp in Hn; discriminate.
  (* p_push_stale *)
  - intros j. specialize (Htok j). rewrite Hp in Htok. simpl in *. lia.
  - intros [].
  - intros; discriminate.
  - intros j Hj. destruct (Nat.eq_dec j i) as [->|Hne]; [left; auto|].
    rewrite fupd_other in * by auto. destruct (Harm j Hj) as [|[n Hn]]; auto. rewrite Hp in Hn; discriminate.
  (* p_budget *)
  - intros j. specialize (Htok j). rewrite Hp in Htok. simpl in *. lia.
  - intros; discriminate.
  - intros; discriminate.
  - intros j Hj. destruct (Harm j Hj) as [|[n' Hn']]; auto. rewrite Hp in Hn'; discriminate.
  (* p_empty *)
  - intros j. specialize (Htok j). rewrite Hp in Htok. simpl in *. lia.
  - intros _ Hw. apply Hreg; auto. rewrite Hp; exact I.
  - intros _ Hw Hne. destruct Hq as [E|(i & rest & E)]; [congruence|].
    pose proof (Hlink i) as L. rewrite E in L. unfold ucount, cntf in L. simpl in L. rewrite Nat.eqb_refl in L. simpl in L.
    pose proof (@wcount_le_owes i WLink (ws s) ltac:(auto)). unfold owes. cbn [ws]. lia.
  - intros j Hj. destruct (Harm j Hj) as [|[n' Hn']]; auto. rewrite Hp in Hn'; discriminate.
  (* p_inconsistent *)
  - intros j. specialize (Htok j). rewrite Hp in Htok. simpl in *. lia.
  - intros; discriminate.
  - intros; discriminate.
  - intros j Hj. destruct (Harm j Hj) as [|[n' Hn']]; auto. rewrite Hp in Hn'; discriminate.
  (* p_ready *)
  - intros j. specialize (Htok j). rewrite Hp, Hq in Htok. unfold qcount, cntf in *. simpl in *.
    destruct (Nat.eqb i j); simpl in *; lia.
  - intros j. specialize (Hlink j). rewrite Hq in Hlink. unfold ucount, cntf in *. simpl in *.
    rewrite andb_false_r in Hlink. simpl in Hlink. exact Hlink.
  - intros _ Hw. apply Hreg; auto. rewrite Hp; exact I.
  - intros; discriminate.
  - intros j Hj. destruct (Harm j Hj) as [|[n' Hn']]; auto. rewrite Hp in Hn'; discriminate.
  (* p_clear *)
  - intros j. specialize (Htok j). rewrite Hp in Htok. simpl in Htok.
    destruct (Nat.eq_dec j i) as [->|Hne].
    + rewrite fupd_same. rewrite Nat.eqb_refl in Htok. pose proof (b2n_le (flag s i)). simpl in *. lia.
    + rewrite fupd_other by auto. destruct (Nat.eqb_spec i j); [congruence|]. simpl in *. lia.
  - intros _ Hw. apply Hreg; auto. rewrite Hp; exact I.
  - intros; discriminate.
  - intros j Hj. destruct (Nat.eq_dec j i) as [->|Hne]; [right; eauto|].
    rewrite fupd_other by auto. destruct (Harm j Hj) as [|[n' Hn']]; auto. rewrite Hp in Hn'; discriminate.
  (* p_child_pending *)
  - intros j. specialize (Htok j). rewrite Hp in Htok. simpl in *. lia.
  - intros _ Hw. apply Hreg; auto. rewrite Hp; exact I.
  - intros; discriminate.
  - intros j Hj. destruct (Nat.eq_dec j i) as [->|Hne]; [rewrite fupd_same in Hj; discriminate|].
    rewrite fupd_other in Hj by auto. destruct (Harm j Hj) as [|[n' Hn']]; auto.
    rewrite Hp in Hn'. inversion Hn'; congruence.
  (* p_child_ready *)
  - intros j. specialize (Htok j). rewrite Hp in Htok. simpl in *. lia.
  - intros [].
  - intros; discriminate.
  - intros j Hj. destruct (Nat.eq_dec j i) as [->|Hne]; [rewrite fupd_same in Hj; discriminate|].
    rewrite fupd_other in Hj by auto. destruct (Harm j Hj) as [|[n' Hn']]; auto.
    rewrite Hp in Hn'. inversion Hn'; congruence.
Qed.

Theorem reachable_inv s : reachable s -> Inv s.
Proof. induction 1 as [|s s' _ IH Hs]; [apply Inv_init | eapply step_inv; eauto]. Qed.

(** a waker call that has set the flag and not yet executed its notify step *)
Definition in_flight (s : st) : Prop :=
  exists t i pc, nth_error (ws s) t = Some (i, pc) /\ (pc = WSwap \/ pc = WLink \/ pc = WNotify).

Lemma owes_in_flight s : 0 < owes s -> in_flight s.
Proof.
  intros H. apply cntf_pos_ex in H as ([i pc] & Hin & Ho). apply In_nth_error in Hin as [t Ht].
  exists t, i, pc. split; auto. unfold is_owing in Ho; simpl in Ho. destruct pc; try discriminate; auto.
Qed.

(** *** the Level B statement of C01 *)
Theorem pending_never_loses_a_wake s :
  reachable s -> pp s = PIdle RPending -> woken s = false ->
  reg s = Some (cur s)
  /\ forall i, armed s i = true -> in_flight s.
Proof.
  intros Hr Hp Hw. destruct (reachable_inv _ Hr) as [Htok Hlink Hcur Hreg Hpend Harm]. split.
  - apply Hreg; auto. rewrite Hp; exact I.
  - intros i Hi. apply owes_in_flight.
    destruct (Harm i Hi) as [Hf|[n Hn]]; [|rewrite Hp in Hn; discriminate].
    specialize (Htok i). rewrite Hf, Hp in Htok. simpl in Htok.
    destruct (qcount i (Q s)) eqn:Eq.
    + pose proof (@wcount_le_owes i WSwap (ws s) ltac:(auto)). unfold owes. lia.
    + apply Hpend; auto. intros E. rewrite E in Eq. discriminate.
Qed.

(** when no call is in flight: Pending with an armed child means the task waker of the most
    recent poll has been invoked *)
Corollary quiescent_pending_means_woken s i :
  reachable s -> pp s = PIdle RPending -> ~ in_flight s -> armed s i = true -> woken s = true.
Proof.
  intros Hr Hp Hnf Hi. destruct (woken s) eqn:Hw; auto.
  destruct (pending_never_loses_a_wake _ Hr Hp Hw) as [_ H]. exfalso. apply Hnf. eauto.
Qed.

(** the notify step of a call in flight finds the most recent waker registered, so it invokes it *)
Theorem in_flight_notify_reaches_current_waker s t i :
  reachable s -> claims (pp s) -> woken s = false -> nth_error (ws s) t = Some (i, WNotify) ->
  forall s', s' = {| flag := flag s; armed := armed s; Q := Q s; reg := None; cur := cur s;
                     woken := (match reg s with Some _ => true | None => woken s end);
                     ws := upd (ws s) t (i, WDone); pp := pp s |} ->
  step s s' /\ woken s' = true /\ reg s = Some (cur s).
Proof.
  intros Hr Hc Hw Ht s' ->. destruct (reachable_inv _ Hr) as [_ _ _ Hreg _ _].
  specialize (Hreg Hc Hw). split; [apply s_notify; auto|]. simpl. rewrite Hreg. auto.
Qed.

(** a slot is in the queue at most once, and only while its flag is set *)
Theorem queued_at_most_once s i : reachable s -> qcount i (Q s) <= 1 /\ (0 < qcount i (Q s) -> flag s i = true).
Proof.
  intros Hr. destruct (reachable_inv _ Hr) as [Htok _ _ _ _ _]. specialize (Htok i).
  pose proof (b2n_le (flag s i)). split; [lia|]. intros H0. destruct (flag s i); auto. simpl in *. lia.
Qed.

End WithBudget.
