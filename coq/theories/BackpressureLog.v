(** * BackpressureLog: C16 / C09 over whole histories, at the level of the event log

    [C16_backpressure] bounds the queue in every reachable *state* (between operations).  This
    file proves the statement about every *moment* of every history: whenever the log records
    that an item was pulled from upstream ([EUpPoll (UAItem c)]), strictly fewer than [n] of the
    items pulled before it were still unyielded (pulled minus handed to the caller), for the four
    buffered adapters, any capacity (0 included), any scripts, injections and environment
    actions.  It is the model-side counterpart of what the monitors [chk_C16] / [chk_C09] demand
    of a trace at a pull event, and it sees the inside of a poll (fill loop, then one poll of
    the queue, then the return), which a state invariant does not. *)
From FB Require Import Base Syntax World SlotMap Fub Unbounded Ordered Adapters Step Tactics SlotMapProofs WorldProofs FubProofs
  UnboundedProofs OrderedProofs AdaptersProofs StepProofs Reach LedgerProofs TokenLedger UpstreamLedger.
From Coq Require Import Permutation.

Definition is_ctok (t : tok) : bool := match t with TOut _ | TErr _ => true | _ => false end.
Definition npull (l : list event) : nat := length (acc l).
Definition nyield (l : list event) : nat := length (filter is_ctok (handed l)).

Definition nprodc (l : list event) : nat := length (filter is_ctok (prodF l)).
Lemma nprodc_app a b : nprodc (a ++ b) = nprodc a + nprodc b.
Proof. unfold nprodc. rewrite prodF_app, filter_app, app_length. reflexivity. Qed.

Lemma npull_app a b : npull (a ++ b) = npull a + npull b.
Proof. unfold npull. rewrite acc_app, app_length. reflexivity. Qed.
Lemma nyield_app a b : nyield (a ++ b) = nyield a + nyield b.
Proof. unfold nyield. rewrite handed_app, filter_app, app_length. reflexivity. Qed.

(** [l] is newest first (as [log] is): at every pull of an item, the pulls before it exceed the
    yields before it by less than [n] *)
Fixpoint bp (n : nat) (l : list event) : Prop :=
  match l with
  | [] => True
  | e :: l' => bp n l' /\ (acc_ev e <> [] -> npull l' < n + nyield l' /\ nyield l' <= nprodc l')
  end.

Lemma acc_upp l : upp l = [] -> acc l = [].
Proof.
  induction l as [|e l IH]; auto. unfold upp, acc in *. simpl. intros H. apply app_eq_nil in H as [H1 H2].
  rewrite (IH H2), app_nil_r. destruct e; simpl in *; auto; discriminate.
Qed.

Lemma bp_quiet n l H : acc l = [] -> bp n H -> bp n (l ++ H).
Proof.
  induction l as [|e l IH]; simpl; auto. intros Ha Hb. unfold acc in Ha. simpl in Ha.
  apply app_eq_nil in Ha as [Ha1 Ha2]. split; [apply IH; auto|]. intros Hne. contradiction.
Qed.

Lemma bp_split n post e pre :
  bp n (post ++ e :: pre) -> acc_ev e <> [] -> npull pre < n + nyield pre /\ nyield pre <= nprodc pre.
Proof. induction post as [|x post IH]; simpl; intros H He; [destruct H as [_ H]; auto|destruct H as [H _]; auto]. Qed.

(** the log grows by a piece that pulls nothing and hands nothing out *)
Definition psuf (w w' : world) : Prop :=
  exists l, log w' = l ++ log w /\ acc l = [] /\ handed l = [] /\ nprodc l = 0.

Lemma psuf_refl w : psuf w w. Proof. exists []. auto. Qed.
Lemma psuf_trans w1 w2 w3 : psuf w1 w2 -> psuf w2 w3 -> psuf w1 w3.
Proof.
  intros (l1 & H1 & A1 & B1 & C1) (l2 & H2 & A2 & B2 & C2). exists (l2 ++ l1).
  rewrite H2, H1, app_assoc, acc_app, handed_app, nprodc_app, A1, A2, B1, B2, C1, C2. auto.
Qed.

Lemma psuf_ub w w' : usuf w w' -> bsuf w w' -> psuf w w'.
Proof.
  intros (l1 & H1 & A) (l2 & H2 & B & _ & C). rewrite H1 in H2. apply app_inv_tail in H2. subst l2.
  exists l1. splits; auto; [apply acc_upp; auto|unfold nprodc; rewrite B; reflexivity].
Qed.

Definition ctoks (l : list tok) : Prop := Forall (fun t => is_ctok t = true) l.

Lemma prodF_ctoks l : upp l = [] -> ctoks (prodF l).
Proof.
  induction l as [|e l IH]; [constructor|]. unfold upp, prodF in *. simpl. intros H. apply app_eq_nil in H as [H1 H2].
  apply Forall_app. split; [|apply IH; auto].
  destruct e; simpl in *; try constructor; try discriminate.
  match goal with r : res |- _ => destruct r end; simpl; repeat constructor.
Qed.

Section WithParams.
Variable P : params.
Hypothesis HP : params_ok P.

(** ** one poll of the upstream *)
Lemma up_poll_piece try u t w :
  exists l, log (snd (up_poll try u t w)) = l ++ log w /\ handed l = [] /\ nprodc l = 0 /\
    match snd (fst (up_poll try u t w)) with
    | UPItem c => l = [EUpPoll (UAItem (cid c))]
    | UPErr e => acc l = [] /\ is_ctok e = false
    | _ => acc l = []
    end.
Proof.
  unfold up_poll. destruct (us_ended u); cbn [fst snd]; [eexists [_; _]; splits; reflexivity|].
  destruct (us_steps u) as [|[s|a| |] rest]; cbn [fst snd]; try (eexists [_]; splits; reflexivity).
  - pose proof (usuf_do_acts (Some (HTask t)) a (emit (EUpPoll UAPend) w)) as (l1 & H1 & A1).
    pose proof (bsuf_do_acts (Some (HTask t)) a (emit (EUpPoll UAPend) w)) as (l2 & H2 & B2 & _ & C2).
    rewrite H1 in H2. apply app_inv_tail in H2. subst l2.
    exists (l1 ++ [EUpPoll UAPend]). rewrite H1. simpl. rewrite <- app_assoc. splits; auto.
    + rewrite handed_app, C2. reflexivity.
    + rewrite nprodc_app. unfold nprodc. rewrite B2. reflexivity.
    + rewrite acc_app, (acc_upp _ A1). reflexivity.
  - destruct try; cbn [fst snd]; eexists [_]; splits; reflexivity.
Qed.

Lemma q_push_psuf q c w : psuf w (snd (q_push P q c w)).
Proof. apply psuf_ub; [apply usuf_q_push|apply q_push_tok]. Qed.

(** the invariant between events: [L] is the whole history so far, newest first *)
Definition BI (N : nat) (q : queue) (L : list event) : Prop :=
  bp N L /\ npull L = nyield L + q_len q /\ ctoks (parked_q q) /\ nprodc L = nyield L + length (parked_q q).

Lemma BI_psuf N q q' w w' H0 :
  psuf w w' -> q_len q' = q_len q -> parked_q q' = parked_q q ->
  BI N q (log w ++ H0) -> BI N q' (log w' ++ H0).
Proof.
  intros (l & Hl & A & B & C) Hq Hp (I1 & I2 & I3 & I4). rewrite Hl, <- app_assoc. unfold BI.
  rewrite npull_app, nyield_app, nprodc_app.
  assert (Ea : npull l = 0) by (unfold npull; rewrite A; reflexivity).
  assert (Eb : nyield l = 0) by (unfold nyield; rewrite B; reflexivity).
  rewrite Ea, Eb, C, Hq, Hp. simpl. splits; auto. apply bp_quiet; auto.
Qed.

(** ** the fill loop *)
Lemma fill_bp own n a t w H0 :
  winv own None w -> q_ok own (ad_q a) -> up_live (ad_up a) ->
  BI (q_cap (ad_q a)) (ad_q a) (log w ++ H0) ->
  let '(a', e, w') := fill P n a t w in
  BI (q_cap (ad_q a)) (ad_q a') (log w' ++ H0)
  /\ match e with Some tk => is_ctok tk = false | None => True end.
Proof.
  revert a w. induction n as [|n IH]; intros a w Hw Hok Hul HI; cbn [fill].
  - split; auto. eapply BI_psuf; [| | |exact HI]; auto. eexists [_]. splits; reflexivity.
  - destruct (Nat.ltb_spec (q_len (ad_q a)) (q_cap (ad_q a))) as [Hlt|Hge]; [|split; auto].
    destruct (ad_up a) as [u|] eqn:Hu; [|split; auto].
    simpl in Hul.
    pose proof (@winv_up_poll own None (ad_try a) u t w Hul Hw) as Hup.
    pose proof (@up_poll_fused (ad_try a) u t w Hul) as Hfu.
    pose proof (up_poll_piece (ad_try a) u t w) as (l & Hl & Hh & Hpc & Hm).
    destruct (up_poll (ad_try a) u t w) as [[u' r] w1]. cbn [fst snd] in *.
    assert (Hq : forall q', q_len q' = q_len (ad_q a) -> parked_q q' = parked_q (ad_q a) -> acc l = [] ->
                 BI (q_cap (ad_q a)) q' (log w1 ++ H0)).
    { intros q' E1 E2 Ha. eapply BI_psuf; [| exact E1 | exact E2 | exact HI]. exists l. auto. }
    destruct r as [c| | |e].
    + subst l.
      pose proof (@q_push_spec P own (ad_q a) c w1 Hup Hok Hlt) as Hs.
      pose proof (q_push_psuf (ad_q a) c w1) as Hps.
      destruct (q_push_tok P (ad_q a) c w1) as [Hpk _].
      destruct (q_push P (ad_q a) c w1) as [q' w2]. cbn [fst snd] in *.
      destruct Hs as (A & B & C & D & E).
      specialize (IH {| ad_try := ad_try a; ad_up := Some u'; ad_q := q' |} w2). cbn [ad_q ad_up] in IH.
      rewrite D in IH. apply IH; auto.
      destruct HI as (I1 & I2 & I3 & I4).
      destruct Hps as (l2 & Hl2 & A2 & B2 & C2). rewrite Hl2, Hl, <- app_assoc. unfold BI.
      rewrite npull_app, nyield_app, nprodc_app.
      assert (Ea : npull l2 = 0) by (unfold npull; rewrite A2; reflexivity).
      assert (Eb : nyield l2 = 0) by (unfold nyield; rewrite B2; reflexivity).
      rewrite Ea, Eb, C2, E, Hpk. simpl.
      change (EUpPoll (UAItem (cid c)) :: log w ++ H0) with ([EUpPoll (UAItem (cid c))] ++ (log w ++ H0)).
      rewrite npull_app, nyield_app, nprodc_app.
      change (npull [EUpPoll (UAItem (cid c))]) with 1. change (nyield [EUpPoll (UAItem (cid c))]) with 0.
      change (nprodc [EUpPoll (UAItem (cid c))]) with 0. simpl.
      splits; auto; [|lia].
      apply bp_quiet; auto. simpl. split; auto. intros _. lia.
    + split; auto.
    + split; auto. eapply BI_psuf; [| | |apply Hq; auto]; auto. eexists [_]. splits; reflexivity.
    + destruct Hm as [Hm1 Hm2]. split; auto.
Qed.

(** ** one poll of the queue *)
Lemma q_poll_piece own k q t w :
  k <> KSrc -> winv own None w -> q_ok own q -> ctoks (parked_q q) ->
  let '(q', sp, w') := q_poll P k q t w in
  (exists l, log w' = l ++ log w /\ acc l = [] /\ handed l = []
             /\ length (parked_q q') + length (sp_tok sp) = length (parked_q q) + nprodc l)
  /\ ctoks (parked_q q') /\ ctoks (sp_tok sp)
  /\ q_len q = q_len q' + length (sp_tok sp).
Proof.
  intros Hk Hw Hok Hpk.
  pose proof (@q_poll_spec P own k q t w Hw Hok) as Hs.
  pose proof (usuf_q_poll P k q t w) as Hu.
  pose proof (@q_poll_tok P k q t w Hk) as Ht.
  destruct (q_poll P k q t w) as [[q' sp] w']. cbn [fst snd] in *.
  destruct Hs as (_ & _ & _ & _ & Hm).
  destruct Ht as (l & Hl & _ & Hh & Hperm).
  destruct Hu as (l1 & Hl1 & A1). rewrite Hl1 in Hl. apply app_inv_tail in Hl. subst l1.
  pose proof (prodF_ctoks l A1) as Hpc.
  assert (Hall : ctoks (parked_q q' ++ sp_tok sp)).
  { unfold ctoks. eapply Permutation_Forall; [apply Permutation_sym; exact Hperm|].
    apply Forall_app. split; auto. }
  assert (Hf : forall k0, ctoks k0 -> length (filter is_ctok k0) = length k0).
  { induction k0 as [|x k0 IHk]; simpl; auto. intros Hc. inversion Hc as [|? ? Hx Hc']; subst. rewrite Hx. simpl. auto. }
  apply Forall_app in Hall as [Ha Hb]. splits; auto.
  - exists l. splits; auto; [apply acc_upp; auto|].
    unfold nprodc. rewrite (Hf _ Hpc). apply Permutation_length in Hperm. rewrite !app_length in Hperm. exact Hperm.
  - destruct sp; simpl in *; lia.
Qed.

Lemma emit_ret_piece r w :
  exists l, log (emit_ret r w) = l ++ log w /\ acc l = [] /\ handed l = ret_toks r /\ nprodc l = 0.
Proof.
  destruct (emit_ret_tok r w) as (l & Hl & Hp & _ & Hh).
  destruct (usuf_emit_ret r w) as (l1 & Hl1 & A). rewrite Hl1 in Hl. apply app_inv_tail in Hl. subst l1.
  exists l. splits; auto; [apply acc_upp; auto|unfold nprodc; rewrite Hp; reflexivity].
Qed.

(** ** one poll of the adapter, return event included *)
Lemma adapter_poll_bp own a t w H0 :
  winv own None w -> ad_ok own a ->
  BI (q_cap (ad_q a)) (ad_q a) (log w ++ H0) ->
  let '(a', r, w') := adapter_poll P a t w in
  BI (q_cap (ad_q a)) (ad_q a') (log (emit_ret r w') ++ H0).
Proof.
  intros Hw (Hok & Hle & Hul) HI. unfold adapter_poll.
  pose proof (@fill_spec P own (S (q_cap (ad_q a))) a t w Hw Hok Hle) as Hs.
  pose proof (@fill_bp own (S (q_cap (ad_q a))) a t w H0 Hw Hok Hul HI) as Hb.
  destruct (fill P (S (q_cap (ad_q a))) a t w) as [[a1 e] w1].
  destruct Hs as (A & B & C & D & E & F & G & U); [lia|auto|].
  destruct Hb as [Hb He].
  assert (Hret : forall r q' w2 k l2, log w2 = l2 ++ log w1 -> acc l2 = [] -> handed l2 = [] ->
                   length (parked_q q') + length (filter is_ctok k) = length (parked_q (ad_q a1)) + nprodc l2 ->
                   ctoks (parked_q q') -> ret_toks r = k ->
                   q_len (ad_q a1) = q_len q' + length (filter is_ctok k) ->
                   BI (q_cap (ad_q a)) q' (log (emit_ret r w2) ++ H0)).
  { intros r q' w2 k l2 Hl2 A2 B2 C2 Hpk Hr Hq.
    destruct (emit_ret_piece r w2) as (l3 & Hl3 & A3 & B3 & C3).
    destruct Hb as (I1 & I2 & I3 & I4). rewrite Hl3, Hl2, <- !app_assoc. unfold BI.
    rewrite (npull_app l3), (npull_app l2), (nyield_app l3), (nyield_app l2), (nprodc_app l3), (nprodc_app l2).
    assert (Ea2 : npull l2 = 0) by (unfold npull; rewrite A2; reflexivity).
    assert (Eb2 : nyield l2 = 0) by (unfold nyield; rewrite B2; reflexivity).
    assert (Ea3 : npull l3 = 0) by (unfold npull; rewrite A3; reflexivity).
    assert (Eb3 : nyield l3 = length (filter is_ctok k)) by (unfold nyield; rewrite B3, Hr; reflexivity).
    rewrite Ea2, Eb2, Ea3, Eb3, C3. simpl.
    splits; auto; [|lia|lia]. apply bp_quiet; auto. apply bp_quiet; auto. }
  destruct e as [tk|].
  - apply (Hret (RetItem tk) (ad_q a1) w1 [tk] []); auto;
      try (cbn [filter length]; rewrite He; unfold nprodc; cbn; lia). apply Hb.
  - assert (Hk : ad_kind a1 <> KSrc) by (unfold ad_kind; destruct (ad_try a1); discriminate).
    pose proof (@q_poll_piece own (ad_kind a1) (ad_q a1) t w1 Hk A B (proj1 (proj2 (proj2 Hb)))) as Hq.
    destruct (q_poll P (ad_kind a1) (ad_q a1) t w1) as [[q sp] w2].
    destruct Hq as ((l2 & Hl2 & A2 & B2 & C2) & Q2 & Q3 & Q4).
    assert (Hf : forall k, ctoks k -> length (filter is_ctok k) = length k).
    { induction k as [|x k IHk]; simpl; auto. intros Hc. inversion Hc as [|? ? Hx Hc']; subst. rewrite Hx. simpl. auto. }
    destruct sp as [| |tk c]; cbn [ad_q ad_up ad_try].
    + apply (Hret RetPending q w2 [] l2); auto.
    + destruct (ad_up a1); cbn [ad_q]; [apply (Hret RetPending q w2 [] l2)|apply (Hret RetNone q w2 [] l2)]; auto.
    + cbn [sp_tok] in *. apply (Hret (RetItem tk) q w2 [tk] l2); auto; rewrite (Hf _ Q3); auto.
Qed.

(** ** one operation *)
Definition bty (k : coll) : Prop := match k with CAd _ | CDead | CDropped => True | _ => False end.

Definition HI (N : nat) (k : coll) (L : list event) : Prop :=
  bp N L /\ match k with CAd a => q_cap (ad_q a) = N /\ BI N (ad_q a) L | _ => True end.

Lemma HI_psuf N k w w' H0 : psuf w w' -> HI N k (log w ++ H0) -> HI N k (log w' ++ H0).
Proof.
  intros Hp [Hb Hm]. destruct Hp as (l & Hl & A & B & C). split.
  - rewrite Hl, <- app_assoc. apply bp_quiet; auto.
  - destruct k; auto. destruct Hm as [Hc HIb]. split; auto.
    eapply BI_psuf; [exists l; splits; eauto|reflexivity|reflexivity|exact HIb].
Qed.

Lemma step_core_hi N k o w H0 :
  bty k -> cinv k w -> HI N k (log w ++ H0) ->
  bty (fst (step_core P k o w)) /\ HI N (fst (step_core P k o w)) (log (snd (step_core P k o w)) ++ H0).
Proof.
  intros Hk Hc HIk. unfold step_core.
  destruct o as [ty p inits ups|c sc|c sc|c sc|c sc|t i|a| | | | ].
  - destruct k; try contradiction; cbn [fst snd]; auto.
  - destruct k; try contradiction; cbn [fst snd do_push]; auto.
  - destruct k; try contradiction; cbn [fst snd do_push]; auto.
  - destruct k; try contradiction; cbn [fst snd do_push]; auto.
  - destruct k; try contradiction; cbn [fst snd do_push]; auto.
  - unfold do_poll. destruct k; try contradiction; cbn [fst snd]; auto.
    destruct Hc as [Hw Hok]. destruct HIk as [Hb [Hcap HIb]]. subst N.
    assert (Hao : ad_ok (cnt (coll_blks (CAd a))) a).
    { destruct Hok as (O1 & O2 & O3). unfold ad_ok. splits; auto. apply fub_ok_single; auto. }
    pose proof (@adapter_poll_bp _ a t w H0 Hw Hao HIb) as H.
    pose proof (@adapter_poll_spec P _ a t w Hw Hao) as Hs.
    destruct (adapter_poll P a t w) as [[a' r] w1]. cbn [fst snd].
    destruct Hs as (_ & _ & _ & Hcap & _).
    split; [exact I|]. split; [apply H|]. split; auto.
  - cbn [fst snd]. split; auto. eapply HI_psuf; [|exact HIk]. apply psuf_ub; [apply usuf_do_act|apply bsuf_do_act].
  - cbn [fst snd]. split; auto. eapply HI_psuf; [|exact HIk].
    destruct (observe P k); [eexists [_]; splits; reflexivity|apply psuf_refl].
  - cbn [fst snd]. auto.
  - unfold do_drop. destruct k; try contradiction; cbn [fst snd]; auto.
    split; [exact I|]. split; [|exact I]. destruct HIk as [Hb _].
    assert (Hu : usuf w (adapter_drop a w)).
    { unfold adapter_drop, queue_drop.
      assert (Hu0 : usuf w (match ad_up a with Some _ => emit EUpDrop w | None => w end)) by (destruct (ad_up a); us).
      destruct (ad_q a); (eapply usuf_trans; [exact Hu0|]); [apply usuf_fub_drop|apply usuf_fob_drop]. }
    destruct Hu as (l & Hl & A). rewrite Hl, <- app_assoc. apply bp_quiet; auto. apply acc_upp; auto.
  - cbn [fst snd]. split; auto. eapply HI_psuf; [|exact HIk]. unfold cleanup.
    apply psuf_ub; [apply usuf_cleanup_from|apply bsuf_cleanup_from].
Qed.

(** ** whole histories: the history log, newest first *)
Definition rlog_from (s : state) (ops : list op) (H0 : list event) : list event :=
  fold_left (fun L l => l ++ L) (run_logs P s ops) H0.

Theorem backpressure_log_from N s ops H0 :
  bty (st_coll s) -> Inv s -> HI N (st_coll s) H0 ->
  HI N (st_coll (run_state P s ops)) (rlog_from s ops H0).
Proof.
  revert s H0. induction ops as [|o ops IH]; intros s H0 Hk Hs HIs; [exact HIs|].
  unfold rlog_from. cbn [run_state run_logs].
  destruct (is_dead (st_coll s)) eqn:Hd.
  - assert (Hfix : fst (step_op P s o) = s) by (unfold step_op; rewrite Hd; reflexivity).
    rewrite Hfix. cbn [app]. apply IH; auto.
  - rewrite fold_left_app. cbn [fold_left].
    pose proof (step_inv HP o Hs) as Hs'.
    set (s' := fst (step_op P s o)) in *.
    assert (Hstep : bty (st_coll s') /\ HI N (st_coll s') (log (st_world s') ++ H0)).
    { unfold s', step_op. rewrite Hd.
      destruct Hs as [Hw Hok].
      assert (Hc : cinv (st_coll s) (begin_op (op_inj o) (st_world s))) by (split; auto; apply winv_begin_op; auto).
      pose proof (@step_core_hi N (st_coll s) o (begin_op (op_inj o) (st_world s)) H0 Hk Hc HIs) as H.
      destruct (step_core P (st_coll s) o (begin_op (op_inj o) (st_world s))) as [k' w']. exact H. }
    destruct Hstep as [Hk' HI']. apply (IH s' _ Hk' Hs' HI').
Qed.

(** the same log, oldest first *)
Definition hist_of (ops : list op) : list event := flat_map (@rev event) (run_logs P init_state ops).

Lemma rlog_rev logs H0 : fold_left (fun L l => l ++ L) logs H0 = rev (flat_map (@rev event) logs) ++ H0.
Proof.
  revert H0. induction logs as [|l logs IH]; intros H0; simpl; auto.
  rewrite IH, rev_app_distr, rev_involutive, <- app_assoc. reflexivity.
Qed.

Lemma npull_rev l : npull (rev l) = npull l.
Proof. induction l as [|e l IH]; simpl; auto. rewrite npull_app, IH. change (e :: l) with ([e] ++ l). rewrite npull_app. simpl. lia. Qed.
Lemma nyield_rev l : nyield (rev l) = nyield l.
Proof. induction l as [|e l IH]; simpl; auto. rewrite nyield_app, IH. change (e :: l) with ([e] ++ l). rewrite nyield_app. simpl. lia. Qed.

Lemma nprodc_rev l : nprodc (rev l) = nprodc l.
Proof. induction l as [|e l IH]; simpl; auto. rewrite nprodc_app, IH. change (e :: l) with ([e] ++ l). rewrite nprodc_app. simpl. lia. Qed.

Definition ad_ctype (t : ctype) : bool := match t with TBU | TTBU | TBO | TTBO => true | _ => false end.

(** *** C16 (and the limit half of C09) at every moment of every history: when an item is
    pulled from upstream, fewer than [n] earlier items are pulled and not yet yielded *)
Lemma history_HI ty p inits ups rest :
  ad_ctype ty = true ->
  HI (p_cap p) (st_coll (run_state P init_state (OBuild ty p inits ups :: rest)))
     (rev (hist_of (OBuild ty p inits ups :: rest))).
Proof.
  intros Hty.
  set (s1 := fst (step_op P init_state (OBuild ty p inits ups))).
  assert (Hs1 : Inv s1) by (apply step_inv; auto; apply Inv_init).
  assert (H1 : bty (st_coll s1) /\ HI (p_cap p) (st_coll s1) (log (st_world s1) ++ [])).
  { unfold s1, step_op. cbn [is_dead init_state st_coll st_world step_core].
    set (w0 := begin_op (op_inj (OBuild ty p inits ups)) empty_world).
    assert (Hw0 : winv (cnt []) None w0) by (apply winv_begin_op; apply winv_empty_world).
    pose proof (@build_up P ty p inits ups w0) as Hb.
    pose proof (@build_tok P ty p inits ups w0) as Ht.
    unfold build in *.
    assert (Hnil : forall w', psuf w0 w' -> bp (p_cap p) (log w' ++ []) /\ npull (log w' ++ []) = 0 /\ nyield (log w' ++ []) = 0
                                          /\ nprodc (log w' ++ []) = 0).
    { intros w' (l & Hl & A & B & C). rewrite Hl. unfold w0 at 1. simpl. rewrite !app_nil_r.
      unfold npull, nyield. rewrite A, B. splits; auto. rewrite <- (app_nil_r l). apply bp_quiet; simpl; auto. }
    destruct ty; try discriminate.
    - pose proof (@fub_new_spec (cnt []) (p_cap p) w0 Hw0) as Hn.
      destruct (fub_new (p_cap p) w0) as [f w1]. destruct Hn as (_ & _ & _ & Hcap & Hlen).
      destruct Hb as (Hu & _); [reflexivity|]. destruct Ht as (_ & _ & Hbs); [reflexivity|]. cbn [fst snd] in *.
      destruct (Hnil w1 (@psuf_ub _ _ Hu Hbs)) as (N1 & N2 & N3 & N4).
      split; [exact I|]. split; auto. cbn [st_coll st_world ad_q q_cap]. split; [exact Hcap|].
      unfold BI. cbn [q_len parked_q]. rewrite N2, N3, N4, Hlen. splits; auto. constructor.
    - pose proof (@fob_new_spec P (cnt []) (p_cap p) 0%Z w0 Hw0) as Hn.
      destruct (fob_new P (p_cap p) 0%Z w0) as [[q|] w1]; [|contradiction].
      destruct Hn as (_ & _ & Hcap & Hlen).
      destruct Hb as (Hu & _); [reflexivity|]. destruct Ht as (_ & Hpk & Hbs); [reflexivity|]. cbn [fst snd] in *.
      destruct (Hnil w1 (@psuf_ub _ _ Hu Hbs)) as (N1 & N2 & N3 & N4).
      split; [exact I|]. split; auto. cbn [st_coll st_world ad_q q_cap]. split; [exact Hcap|].
      cbn [parked_of ad_q parked_q] in Hpk. unfold BI. cbn [q_len parked_q]. rewrite N2, N3, N4, Hlen, Hpk. splits; auto. constructor.
    - pose proof (@fub_new_spec (cnt []) (p_cap p) w0 Hw0) as Hn.
      destruct (fub_new (p_cap p) w0) as [f w1]. destruct Hn as (_ & _ & _ & Hcap & Hlen).
      destruct Hb as (Hu & _); [reflexivity|]. destruct Ht as (_ & _ & Hbs); [reflexivity|]. cbn [fst snd] in *.
      destruct (Hnil w1 (@psuf_ub _ _ Hu Hbs)) as (N1 & N2 & N3 & N4).
      split; [exact I|]. split; auto. cbn [st_coll st_world ad_q q_cap]. split; [exact Hcap|].
      unfold BI. cbn [q_len parked_q]. rewrite N2, N3, N4, Hlen. splits; auto. constructor.
    - pose proof (@fob_new_spec P (cnt []) (p_cap p) 0%Z w0 Hw0) as Hn.
      destruct (fob_new P (p_cap p) 0%Z w0) as [[q|] w1]; [|contradiction].
      destruct Hn as (_ & _ & Hcap & Hlen).
      destruct Hb as (Hu & _); [reflexivity|]. destruct Ht as (_ & Hpk & Hbs); [reflexivity|]. cbn [fst snd] in *.
      destruct (Hnil w1 (@psuf_ub _ _ Hu Hbs)) as (N1 & N2 & N3 & N4).
      split; [exact I|]. split; auto. cbn [st_coll st_world ad_q q_cap]. split; [exact Hcap|].
      cbn [parked_of ad_q parked_q] in Hpk. unfold BI. cbn [q_len parked_q]. rewrite N2, N3, N4, Hlen, Hpk. splits; auto. constructor. }
  destruct H1 as [Hk1 HI1].
  pose proof (@backpressure_log_from (p_cap p) s1 rest _ Hk1 Hs1 HI1) as H.
  assert (E : rlog_from s1 rest (log (st_world s1) ++ []) = rev (hist_of (OBuild ty p inits ups :: rest))).
  { unfold rlog_from, hist_of. cbn [run_logs]. cbn [is_dead init_state st_coll]. fold s1.
    rewrite rlog_rev. cbn [app flat_map]. rewrite rev_app_distr, rev_involutive, app_nil_r. reflexivity. }
  rewrite E in H. cbn [run_state]. fold s1. exact H.
Qed.

Theorem pulls_respect_both_limits ty p inits ups rest pre c post :
  ad_ctype ty = true ->
  hist_of (OBuild ty p inits ups :: rest) = pre ++ EUpPoll (UAItem c) :: post ->
  npull pre < p_cap p + nyield pre /\ nyield pre <= nprodc pre.
Proof.
  intros Hty Hh. destruct (@history_HI ty p inits ups rest Hty) as [Hbp _].
  rewrite Hh, rev_app_distr in Hbp. cbn [rev] in Hbp. rewrite <- app_assoc in Hbp. cbn [app] in Hbp.
  apply bp_split in Hbp; [|simpl; discriminate]. rewrite npull_rev, nyield_rev, nprodc_rev in Hbp. exact Hbp.
Qed.

(** *** exact accounting between operations, over the whole history: every item pulled so far is
    either yielded or still in the queue (running or parked) - none lost, none counted twice -
    and every future that has finished is either yielded or parked *)
Theorem adapter_accounting ty p inits ups rest a :
  ad_ctype ty = true ->
  st_coll (run_state P init_state (OBuild ty p inits ups :: rest)) = CAd a ->
  let h := hist_of (OBuild ty p inits ups :: rest) in
  q_cap (ad_q a) = p_cap p
  /\ npull h = nyield h + q_len (ad_q a)
  /\ nprodc h = nyield h + length (parked_q (ad_q a)).
Proof.
  intros Hty Hc. cbv zeta. destruct (@history_HI ty p inits ups rest Hty) as [_ Hm].
  rewrite Hc in Hm. destruct Hm as (Hcap & _ & I2 & _ & I4).
  rewrite npull_rev, nyield_rev in I2. rewrite nprodc_rev, nyield_rev in I4. auto.
Qed.

Lemma parked_le_len q : length (parked_q q) <= q_len q.
Proof. destruct q as [f|o]; simpl; [lia|]. unfold fob_len, parked. rewrite map_length. lia. Qed.

(** nothing from nowhere, at count level, between operations: the child outputs handed to the
    caller so far are no more than the futures that have finished so far, and those are no more
    than the items pulled from upstream so far *)
Corollary adapter_counts_ordered ty p inits ups rest a :
  ad_ctype ty = true ->
  st_coll (run_state P init_state (OBuild ty p inits ups :: rest)) = CAd a ->
  let h := hist_of (OBuild ty p inits ups :: rest) in
  nyield h <= nprodc h /\ nprodc h <= npull h.
Proof.
  intros Hty Hc. cbv zeta. destruct (@adapter_accounting ty p inits ups rest a Hty Hc) as (_ & H1 & H2).
  pose proof (parked_le_len (ad_q a)). lia.
Qed.

(** C16: pulled-but-unyielded items (running futures + parked outputs) *)
Corollary pulls_only_below_the_limit ty p inits ups rest pre c post :
  ad_ctype ty = true ->
  hist_of (OBuild ty p inits ups :: rest) = pre ++ EUpPoll (UAItem c) :: post ->
  npull pre < p_cap p + nyield pre.
Proof. intros Hty Hh. apply (@pulls_respect_both_limits ty p inits ups rest pre c post Hty Hh). Qed.

(** C09: unfinished futures.  [nprodc pre] counts the futures that have answered Ready (their
    output, [TOut c] / [TErr c], produced) before this moment, so [npull pre - nprodc pre] is the
    number of unfinished futures held at the instant of the pull: it is below [n], hence never
    above [n] at any instant (it only grows at a pull) *)
Corollary pulls_only_while_fewer_than_n_unfinished ty p inits ups rest pre c post :
  ad_ctype ty = true ->
  hist_of (OBuild ty p inits ups :: rest) = pre ++ EUpPoll (UAItem c) :: post ->
  npull pre < p_cap p + nprodc pre.
Proof.
  intros Hty Hh. destruct (@pulls_respect_both_limits ty p inits ups rest pre c post Hty Hh) as [H1 H2]. lia.
Qed.

End WithParams.
