(** * JoinPanic: join_all / try_join_all and a destructor that panics (C06, finding F10)

    The executable model has no panics (an operation always returns), so this is a model of its
    own, of just the three things the finding is about.  When an input completes, the combinator
    does three things with it, in some order [ms]:
      [MWrite]   store the output in its cell,
      [MVacate]  destroy the finished future — this runs its destructor, which may panic; the
                 slot is vacant afterwards either way ([Pin::set] is a drop-and-replace: the new
                 value is written on the unwinding path too),
      [MCount]   the slot map's bookkeeping (one future fewer).
    A panic ends the handler after the [MVacate] step: the later steps do not happen.
    [Drop] treats "slot vacant" as "cell written" and drops every such cell; the combinator
    resolves, handing out every cell, when the count reaches zero.

    Theorems, for every number of inputs, every order in which they complete and every choice of
    panicking destructors:
    - if [MWrite] comes before [MVacate] in [ms], "vacant => written" holds in every reachable
      state ([Drop] never touches an unwritten cell);
    - if [MWrite] comes before [MCount], "count = 0 => everything written" holds (the result never
      contains an unwritten cell);
    - for the order the code had before fix 2550a01, vacate - count - write, the first fails: a
      single input with a panicking destructor reaches a state with a vacant slot and an
      unwritten cell.
    A fourth theorem is about the slot map's [remove] alone (every collection uses it): [Pin::set]
    destroys the future and marks the slot vacant in one step, vacant even if the destructor
    panics ([MVacate]); written instead as "destroy in place, then overwrite" ([MDestroy] then
    [MMark]) a panicking destructor leaves a destroyed future in an occupied slot, which a stale
    waker then gets polled again.  With [MVacate] "destroyed => vacant" holds in every reachable
    state; with the split it fails after one panic.
    The generated lemma [JoinOrderInst.join_order_ok] says the order read from the source
    (join_all.rs, try_join_all.rs, slot_map.rs) satisfies both premises. *)
From FB Require Import Base.

Inductive mstep := MWrite | MVacate | MCount | MDestroy | MMark.
Scheme Equality for mstep.

Record jst := { occ : nat -> bool; wr : nat -> bool; cnt : nat; dst : nat -> bool }.

Definition fset (f : nat -> bool) (i : nat) (v : bool) : nat -> bool := fun j => if Nat.eqb j i then v else f j.

Definition do_m (i : nat) (m : mstep) (s : jst) : jst :=
  match m with
  | MWrite => {| occ := occ s; wr := fset (wr s) i true; cnt := cnt s; dst := dst s |}
  | MVacate => {| occ := fset (occ s) i false; wr := wr s; cnt := cnt s; dst := fset (dst s) i true |}
  | MCount => {| occ := occ s; wr := wr s; cnt := pred (cnt s); dst := dst s |}
  | MDestroy => {| occ := occ s; wr := wr s; cnt := cnt s; dst := fset (dst s) i true |}
  | MMark => {| occ := fset (occ s) i false; wr := wr s; cnt := cnt s; dst := dst s |}
  end.

(** the handler for input [i]; [panics]: its destructor panics *)
Fixpoint handle (i : nat) (panics : bool) (ms : list mstep) (s : jst) : jst :=
  match ms with
  | [] => s
  | m :: rest =>
      let s' := do_m i m s in
      match m with
      | MVacate | MDestroy => if panics then s' else handle i panics rest s'
      | _ => handle i panics rest s'
      end
  end.

Definition init (n : nat) : jst := {| occ := fun i => Nat.ltb i n; wr := fun _ => false; cnt := n; dst := fun _ => false |}.

(** reachable: inputs complete one after the other, each at most once (a completed input's slot is
    vacant, so it is never handled again), each with or without a panicking destructor *)
Inductive reach (n : nat) (ms : list mstep) : jst -> Prop :=
| r_init : reach n ms (init n)
| r_handle s i p : reach n ms s -> i < n -> occ s i = true -> reach n ms (handle i p ms s).

(** [Drop] looks at the cells of the inputs only *)
Definition DS (n : nat) (s : jst) : Prop := forall i, i < n -> occ s i = false -> wr s i = true.
Definition RS (n : nat) (s : jst) : Prop := cnt s = 0 -> forall i, i < n -> wr s i = true.

Fixpoint index_of (m : mstep) (ms : list mstep) : option nat :=
  match ms with
  | [] => None
  | x :: rest => if mstep_beq x m then Some 0 else option_map S (index_of m rest)
  end.

Definition before (a b : mstep) (ms : list mstep) : bool :=
  match index_of a ms, index_of b ms with
  | Some x, Some y => Nat.ltb x y
  | Some _, None => true
  | _, _ => false
  end.

Definition no_split (ms : list mstep) : bool :=
  forallb (fun m => match m with MDestroy | MMark => false | _ => true end) ms.

Fixpoint ms_beq (a b : list mstep) : bool :=
  match a, b with
  | [], [] => true
  | x :: a', y :: b' => mstep_beq x y && ms_beq a' b'
  | _, _ => false
  end.

Lemma ms_beq_eq a b : ms_beq a b = true -> a = b.
Proof.
  revert b. induction a as [|x a IH]; intros [|y b] H; simpl in H; try discriminate; auto.
  apply andb_prop in H as [H1 H2]. f_equal; [destruct x, y; simpl in H1; congruence|auto].
Qed.

(** the orders a generated lemma has to exhibit: the output is stored first, each step happens
    once, the future is destroyed by the panic-safe [MVacate] *)
Definition safe_order (ms : list mstep) : bool :=
  ms_beq ms [MWrite; MVacate; MCount] || ms_beq ms [MWrite; MCount; MVacate].

Lemma safe_orders ms :
  safe_order ms = true -> ms = [MWrite; MVacate; MCount] \/ ms = [MWrite; MCount; MVacate].
Proof. unfold safe_order. intros H. apply orb_prop in H as [H|H]; apply ms_beq_eq in H; auto. Qed.

Lemma fset_same f i v : fset f i v i = v. Proof. unfold fset. rewrite Nat.eqb_refl. reflexivity. Qed.
Lemma fset_other f i v j : j <> i -> fset f i v j = f j.
Proof. unfold fset. intros H. destruct (Nat.eqb_spec j i); congruence. Qed.

(** the handler never touches another input's slot or cell, never un-writes, never re-occupies *)
Lemma handle_other i p ms s j :
  j <> i -> occ (handle i p ms s) j = occ s j /\ wr (handle i p ms s) j = wr s j /\ dst (handle i p ms s) j = dst s j.
Proof.
  intros Hne. revert s. induction ms as [|m rest IH]; intros s; cbn [handle]; auto.
  assert (Hd : occ (do_m i m s) j = occ s j /\ wr (do_m i m s) j = wr s j /\ dst (do_m i m s) j = dst s j).
  { destruct m; simpl; rewrite ?fset_other by auto; auto. }
  destruct Hd as (D1 & D2 & D3).
  assert (Hgo : occ (handle i p rest (do_m i m s)) j = occ s j /\ wr (handle i p rest (do_m i m s)) j = wr s j
                /\ dst (handle i p rest (do_m i m s)) j = dst s j).
  { destruct (IH (do_m i m s)) as (A & B & C). rewrite A, B, C. auto. }
  destruct m; auto; destruct p; auto.
Qed.

Lemma handle_wr_mono i p ms s j : wr s j = true -> wr (handle i p ms s) j = true.
Proof.
  revert s. induction ms as [|m rest IH]; intros s H; simpl; auto.
  assert (Hd : wr (do_m i m s) j = true).
  { destruct m; simpl; auto. unfold fset. destruct (Nat.eqb j i); auto. }
  destruct m; auto; destruct p; auto.
Qed.

(** after the handler: if its slot is vacant and [MWrite] came before [MVacate], its cell is written *)
Lemma handle_self_ds i p ms s :
  no_split ms = true -> before MWrite MVacate ms = true -> occ s i = true ->
  occ (handle i p ms s) i = false -> wr (handle i p ms s) i = true.
Proof.
  unfold before. revert s. induction ms as [|m rest IH]; intros s Hns Hb Ho Hv; simpl in *.
  - congruence.
  - destruct m; simpl in *; try discriminate.
    + (* write first: written from here on *)
      apply handle_wr_mono. simpl. apply fset_same.
    + (* vacate first: impossible under the premise *)
      destruct (index_of MWrite rest); simpl in Hb; discriminate.
    + (* count: neither slot nor cell changes *)
      apply IH; auto.
      destruct (index_of MWrite rest) as [x|]; simpl in *; [|discriminate].
      destruct (index_of MVacate rest) as [y|]; simpl in *; auto.
Qed.

Theorem write_before_vacate_is_drop_safe n ms s :
  no_split ms = true -> before MWrite MVacate ms = true -> reach n ms s -> DS n s.
Proof.
  intros Hns Hb Hr. induction Hr as [|s i p Hr IH Hi Ho].
  - intros j Hj Hv. simpl in Hv. apply Nat.ltb_ge in Hv. lia.
  - intros j Hj Hv. destruct (Nat.eq_dec j i) as [->|Hne].
    + apply handle_self_ds; auto.
    + destruct (handle_other i p ms s j Hne) as (A & B & _). rewrite A in Hv. rewrite B. apply IH; auto.
Qed.

(** *** the count: it is at least the number of inputs whose cell is not written, as long as
    [MWrite] comes before [MCount] and each step occurs once *)
Fixpoint unwritten (s : jst) (n : nat) : nat :=
  match n with O => 0 | S k => (if wr s k then 0 else 1) + unwritten s k end.

Lemma unwritten_ext s s' n : (forall j, j < n -> wr s' j = wr s j) -> unwritten s' n = unwritten s n.
Proof. induction n as [|k IH]; intros H; simpl; auto. rewrite H, IH by (auto; intros; apply H; lia). reflexivity. Qed.

Lemma unwritten_write s i n :
  i < n -> wr s i = false ->
  S (unwritten {| occ := occ s; wr := fset (wr s) i true; cnt := cnt s; dst := dst s |} n) = unwritten s n.
Proof.
  revert i. induction n as [|k IH]; intros i Hi Hw; [lia|]. simpl.
  destruct (Nat.eq_dec i k) as [->|Hne].
  - rewrite fset_same, Hw. simpl. f_equal. apply unwritten_ext. intros j Hj. simpl. apply fset_other. lia.
  - rewrite fset_other by auto. rewrite <- (IH i) by (auto; lia). lia.
Qed.

Lemma unwritten_zero s n : unwritten s n = 0 -> forall i, i < n -> wr s i = true.
Proof.
  induction n as [|k IH]; intros H i Hi; [lia|]. simpl in H.
  destruct (wr s k) eqn:E; [|simpl in H; lia]. destruct (Nat.eq_dec i k) as [->|]; auto. apply IH; auto; lia.
Qed.

Lemma unwritten_init n m : unwritten (init m) n = n.
Proof. induction n as [|k IH]; simpl; auto. Qed.

(** for the two safe orders the handler's effect is explicit *)
Lemma handle_safe i p ms s :
  ms = [MWrite; MVacate; MCount] \/ ms = [MWrite; MCount; MVacate] ->
  occ (handle i p ms s) = fset (occ s) i false /\ wr (handle i p ms s) = fset (wr s) i true
  /\ pred (cnt s) <= cnt (handle i p ms s).
Proof. intros [-> | ->]; destruct p; simpl; repeat split; lia. Qed.

(** occupied => not yet written;  unwritten cells <= count *)
Lemma reach_inv n ms s :
  ms = [MWrite; MVacate; MCount] \/ ms = [MWrite; MCount; MVacate] -> reach n ms s ->
  (forall j, occ s j = true -> wr s j = false) /\ unwritten s n <= cnt s.
Proof.
  intros Hms Hr. induction Hr as [|s i p Hr [K J] Hi Ho].
  - split; [reflexivity|]. rewrite unwritten_init. simpl. lia.
  - destruct (handle_safe i p ms s Hms) as (A & B & C). split.
    + intros j Hj. rewrite A in Hj. rewrite B. unfold fset in *. destruct (Nat.eqb j i); [discriminate|auto].
    + pose proof (unwritten_write s i n Hi (K i Ho)) as Hu.
      assert (Hext : unwritten (handle i p ms s) n = unwritten {| occ := occ s; wr := fset (wr s) i true; cnt := cnt s; dst := dst s |} n).
      { apply unwritten_ext. intros j _. rewrite B. reflexivity. }
      rewrite Hext. lia.
Qed.

Theorem write_before_count_is_resolution_safe n ms s :
  safe_order ms = true -> reach n ms s -> RS n s.
Proof.
  intros Hs Hr. destruct (reach_inv n ms s (safe_orders ms Hs) Hr) as [_ J].
  intros Hz. apply unwritten_zero. lia.
Qed.

(** *** the order of the code before fix 2550a01 *)
Definition old_order : list mstep := [MVacate; MCount; MWrite].
Definition fixed_order : list mstep := [MWrite; MVacate; MCount].

Theorem old_order_drops_an_unwritten_cell :
  exists s, reach 1 old_order s /\ occ s 0 = false /\ wr s 0 = false.
Proof.
  exists (handle 0 true old_order (init 1)). split; [|split; reflexivity].
  apply r_handle; [apply r_init|lia|reflexivity].
Qed.

Theorem fixed_order_is_safe n s :
  reach n fixed_order s -> DS n s /\ RS n s.
Proof.
  intros H. split.
  - eapply write_before_vacate_is_drop_safe; [| |exact H]; reflexivity.
  - eapply write_before_count_is_resolution_safe; [|exact H]. reflexivity.
Qed.

(** *** [remove] alone: destroyed => vacant, i.e. a destroyed future is never polled again *)
Definition ND (n : nat) (s : jst) : Prop := forall i, i < n -> dst s i = true -> occ s i = false.

Lemma handle_nd i p ms s :
  no_split ms = true -> (dst s i = true -> occ s i = false) ->
  dst (handle i p ms s) i = true -> occ (handle i p ms s) i = false.
Proof.
  revert s. induction ms as [|m rest IH]; intros s Hns H; cbn [handle]; auto.
  simpl in Hns. apply andb_prop in Hns as [Hm Hns].
  assert (Hd : dst (do_m i m s) i = true -> occ (do_m i m s) i = false).
  { destruct m; simpl in *; try discriminate; auto. intros _. apply fset_same. }
  destruct m; try discriminate; auto. destruct p; auto.
Qed.

Theorem set_keeps_destroyed_futures_out_of_their_slots n ms s :
  no_split ms = true -> reach n ms s -> ND n s.
Proof.
  intros Hns Hr. induction Hr as [|s i p Hr IH Hi Ho].
  - intros j _ H. discriminate.
  - intros j Hj Hd. destruct (Nat.eq_dec j i) as [->|Hne].
    + apply handle_nd; auto.
    + destruct (handle_other i p ms s j Hne) as (A & _ & C). rewrite A. rewrite C in Hd. apply IH; auto.
Qed.

Definition split_order : list mstep := [MWrite; MDestroy; MMark; MCount].

Theorem split_destroy_leaves_a_destroyed_future_in_its_slot :
  exists s, reach 1 split_order s /\ dst s 0 = true /\ occ s 0 = true.
Proof.
  exists (handle 0 true split_order (init 1)). split; [|split; reflexivity].
  apply r_handle; [apply r_init|lia|reflexivity].
Qed.
