(** * DropProofs: who drops what, exactly once (C06)

    Children: a child leaves its slot only through [fub_remove] (one [ECDrop], slot vacated) or
    when its group is dropped ([drop_children]: one [ECDrop] per occupied slot, in slot order);
    polls keep every other child in place (JoinProofs.poll_inner_ids).  Outputs: a parked output
    is dropped by [drop_heap] exactly once when the queue is dropped; join_all / try_join_all
    drop exactly the written cells (JoinProofs) — every vacant, non-skipped cell is dropped. *)
From FB Require Import Base Syntax World SlotMap Fub Unbounded Ordered Adapters Tactics SlotMapProofs JoinProofs.
Set Implicit Arguments.

Definition cdrop_events (b : nat) (l : list (nat * child)) : list event :=
  map (fun p => ECDrop (cid (snd p)) (Some (b, fst p))) l.

(** dropping a group: exactly one drop event per held child, in slot order, nothing else *)
Theorem drop_children_events b m w :
  log (drop_children b m w) = rev (cdrop_events b (sm_children m)) ++ log w.
Proof.
  unfold drop_children, cdrop_events. generalize (sm_children m). intros l. revert w.
  induction l as [|p l IH]; intros w; simpl; auto.
  rewrite IH. simpl. rewrite <- app_assoc. reflexivity.
Qed.

(** removing a child from its slot: one drop event iff the slot was occupied *)
Theorem fub_remove_events f i w :
  match sm_get (tasks f) i with
  | Some c => fub_remove f i w = ({| tasks := sm_remove (tasks f) i; blk := blk f |}, emit (ECDrop (cid c) (Some (blk f, i))) w)
  | None => fub_remove f i w = (f, w)
  end.
Proof. unfold fub_remove. destruct (sm_get (tasks f) i); reflexivity. Qed.

(** the children listed by [sm_children] are exactly the occupied slots *)
Lemma sm_children_spec_aux sl k i c :
  In (i, c) (flat_map (fun p => match snd p with Occ c => [(fst p, c)] | Free _ => [] end)
                      (combine (seq k (length sl)) sl))
  <-> k <= i /\ nth_error sl (i - k) = Some (Occ c).
Proof.
  revert k. induction sl as [|s t IH]; intros k; simpl.
  - split; [intros [] | intros [_ H]; destruct (i - k); discriminate].
  - rewrite in_app_iff, IH. split.
    + intros [H|[H1 H2]].
      * destruct s as [c0|n]; simpl in H; [|contradiction]. destruct H as [H|[]]. inversion H; subst.
        split; auto. rewrite Nat.sub_diag. reflexivity.
      * split; [lia|]. replace (i - k) with (S (i - S k)) by lia. exact H2.
    + intros [H1 H2]. destruct (Nat.eq_dec i k) as [->|Hne].
      * left. rewrite Nat.sub_diag in H2. simpl in H2. inversion H2; subst. simpl. auto.
      * right. split; [lia|]. replace (i - k) with (S (i - S k)) in H2 by lia. exact H2.
Qed.

Theorem sm_children_spec m i c : In (i, c) (sm_children m) <-> sm_get m i = Some c.
Proof.
  unfold sm_children, sm_get. rewrite sm_children_spec_aux, Nat.sub_0_r. split.
  - intros [_ H]. rewrite H. reflexivity.
  - intros H. split; [lia|]. destruct (nth_error (slots m) i) as [[c0|]|]; try discriminate. inversion H; reflexivity.
Qed.

(** hence dropping a collection drops every held child — the drop events of [fub_drop] are in
    bijection with the occupied slots *)
Theorem fub_drop_drops_every_child f w i c :
  sm_get (tasks f) i = Some c ->
  In (ECDrop (cid c) (Some (blk f, i))) (log (drop_children (blk f) (tasks f) w)).
Proof.
  intros H. rewrite drop_children_events. apply in_or_app. left. rewrite <- in_rev.
  unfold cdrop_events. apply in_map_iff. exists (i, c). split; auto. apply sm_children_spec; auto.
Qed.

(** parked outputs: one drop event each *)
Theorem drop_heap_events h w :
  log (drop_heap h w) = rev (map (fun e => EODrop (snd e) true) h) ++ log w.
Proof.
  unfold drop_heap. revert w. induction h as [|e h IH]; intros w; simpl; auto.
  rewrite IH. simpl. rewrite <- app_assoc. reflexivity.
Qed.

(** join: every written (vacant, not skipped) cell is dropped *)
Theorem drop_outputs_drops_every_written_cell m out skip w i0 i o :
  nth_error out i = Some o -> sm_get m (i0 + i) = None ->
  (match skip with Some s => s <> i0 + i | None => True end) ->
  In (EODrop (cell_tok o) true) (log (drop_outputs_from i0 skip m out w)).
Proof.
  revert i0 i w. induction out as [|o0 rest IH]; intros i0 i w Hn Hg Hs; [destruct i; discriminate|].
  assert (Hmono : forall out' j w1 e, In e (log w1) -> In e (log (drop_outputs_from j skip m out' w1))).
  { induction out' as [|x out' IHo]; intros j w1 e He; simpl; auto. apply IHo.
    destruct (match skip with Some s => Nat.eqb s j | None => false end); auto.
    destruct (sm_get m j); auto. simpl. auto. }
  destruct i as [|i]; simpl in *.
  - inversion Hn; subst. rewrite Nat.add_0_r in *. apply Hmono.
    assert (Hsk : match skip with Some s => Nat.eqb s i0 | None => false end = false).
    { destruct skip as [s|]; auto. apply Nat.eqb_neq. auto. }
    rewrite Hsk, Hg. simpl. auto.
  - apply (IH (S i0) i); auto.
    + replace (S i0 + i) with (i0 + S i) by lia. auto.
    + destruct skip; auto. lia.
Qed.
