(** * QuietGroups: no busy-spinning across the groups of the unbounded collections (C14)

    QuietProofs.v settles one group.  Here the group loop of FuturesUnordered / MergeUnbounded:
    if every held child answers Pending without waking anything, nobody invokes a child waker
    (no injection), and every group that still holds something has at most [m] entries in its
    ready queue, then one [poll_next]
    - never yields an item,
    - leaves every such group with at most [m - B] entries (each visited group pops
      min(B, L) of its L entries and enqueues nothing; polling one group leaves every other
      group's block untouched),
    - and invokes no task waker at all when [m < B].
    So poll number [m / B + 1] of a run of consecutive polls, and every later one, is silent. *)
From FB Require Import Base Syntax World SlotMap Fub Unbounded Tactics SlotMapProofs WorldProofs
  FubProofs UnboundedProofs StepProofs Reach QuietProofs GroupWake CrossGroup.
From FB Require Import Step.

Section WithParams.
Variable P : params.

Definition ql (w : world) (b : nat) : nat :=
  match get_blk w b with Some kb => length (bqueue kb) | None => 0 end.

Definition gk (mrg : bool) : ckind := if mrg then KSrc else KFut.

(** a group at rest: quiet children, its waker block is there, and nothing held or at most [m]
    entries queued *)
Definition QL (mrg : bool) (m : nat) (w : world) (g : fub) : Prop :=
  quiet_map (gk mrg) (tasks g) /\ (exists kb, get_blk w (blk g) = Some kb)
  /\ (fub_len g = 0 \/ ql w (blk g) <= m).

Lemma QL_frame mrg m w w' g : get_blk w' (blk g) = get_blk w (blk g) -> QL mrg m w g -> QL mrg m w' g.
Proof. intros He (A & B & C). unfold QL, ql in *. rewrite He. auto. Qed.

Lemma QL_weaken mrg m m' w g : m <= m' -> QL mrg m w g -> QL mrg m' w g.
Proof. intros Hle (A & B & [C|C]); split; auto; split; auto. right. lia. Qed.

Lemma get_blk_dec_strong_other b b' w : b' <> b -> get_blk (dec_strong b w) b' = get_blk w b'.
Proof.
  intros Hne. unfold dec_strong. destruct (get_blk w b) as [k|] eqn:Hk; auto.
  destruct (bfreed k); auto. destruct (bstrong k) as [|[|n]];
    try (rewrite get_blk_emit'); rewrite get_put_blk; destruct (Nat.eqb_spec b b'); congruence.
Qed.

Lemma get_blk_drop_children b m w b' : get_blk (drop_children b m w) b' = get_blk w b'.
Proof.
  unfold drop_children. generalize (sm_children m). intros l. revert w.
  induction l as [|x l IH]; simpl; intros w; auto. rewrite IH. reflexivity.
Qed.

Lemma get_blk_fub_drop_other f w b' : b' <> blk f -> get_blk (fub_drop f w) b' = get_blk w b'.
Proof. intros Hne. unfold fub_drop. rewrite get_blk_dec_strong_other by auto. apply get_blk_drop_children. Qed.

Lemma noinj_fub_drop f w : noinj w -> noinj (fub_drop f w).
Proof. unfold noinj. rewrite wj_fub_drop. auto. Qed.

(** one group's poll under quietness *)
Lemma poll_group_quiet mrg g t w m :
  QL mrg m w g -> noinj w ->
  let '(g', sp, w') := poll_group P mrg g t w in
  blk g' = blk g /\ noinj w' /\ QL mrg (m - pB P) w' g'
  /\ (sp = SPending \/ sp = SNone /\ fub_len g' = 0 /\ w' = w)
  /\ twakes (log w') <= twakes (log w) + (if Nat.ltb m (pB P) then 0 else 1)
  /\ (forall b', b' <> blk g -> get_blk w' b' = get_blk w b').
Proof.
  intros (Hq & (kb & Hk) & Hl) Hn.
  destruct (Nat.eq_dec (fub_len g) 0) as [Hz|Hnz].
  - assert (Hp : forall k, poll_inner_no_remove P k g t w = (g, PNone, w)).
    { intros k. unfold poll_inner_no_remove. rewrite Hz. reflexivity. }
    assert (Hres : poll_group P mrg g t w = (g, SNone, w)).
    { unfold poll_group. destruct mrg.
      - unfold mb_poll_next. cbn [mb_poll_loop]. rewrite Hp. reflexivity.
      - unfold fub_poll_next, poll_inner. rewrite Hp. reflexivity. }
    rewrite Hres. splits; auto.
    + split; auto. split; eauto.
    + lia.
  - destruct Hl as [Hl|Hl]; [contradiction|].
    pose proof (@poll_quiet P (gk mrg) g t w kb Hq Hn Hk Hnz) as H.
    assert (Hres : poll_group P mrg g t w =
                   let '(f', pr, w') := poll_inner_no_remove P (gk mrg) g t w in
                   match pr with PPending => (f', SPending, w') | _ => poll_group P mrg g t w end).
    { unfold poll_group, gk. destruct mrg.
      - unfold mb_poll_next. cbn [mb_poll_loop].
        destruct (poll_inner_no_remove P KSrc g t w) as [[f' pr] w']. destruct pr; reflexivity.
      - unfold fub_poll_next, poll_inner.
        destruct (poll_inner_no_remove P KFut g t w) as [[f' pr] w']. destruct pr; reflexivity. }
    rewrite Hres. clear Hres.
    destruct (poll_inner_no_remove P (gk mrg) g t w) as [[f' pr] w'].
    destruct H as (-> & B & C & D & (kb' & E1 & E2) & F & G).
    unfold ql in Hl. rewrite Hk in Hl.
    splits; auto.
    + split; auto. rewrite D. split; eauto. right. unfold ql. rewrite E1, E2, skipn_length. lia.
    + rewrite F. destruct (Nat.ltb_spec (length (bqueue kb)) (pB P)), (Nat.ltb_spec m (pB P)); lia.
Qed.

Lemma fu_iter_done_none mrg u t w u' w' :
  fu_iter P mrg u t w = IDone (u', SNone, w') ->
  exists g g', nth_error (groups u) (norm u) = Some g /\ poll_group P mrg g t w = (g', SNone, w')
               /\ groups u' = [g'].
Proof.
  unfold fu_iter. destruct (nth_error (groups u) (norm u)) as [g|]; [|discriminate].
  destruct (poll_group P mrg g t w) as [[g' sp] w1] eqn:Hpg. destruct sp as [| |tk c]; try discriminate.
  destruct (remove_nth (groups u) (norm u)) as [|f0 l0].
  - intros H. inversion H; subst. exists g, g'. auto.
  - match goal with |- context [Nat.eqb ?a ?b] => destruct (Nat.eqb a b) end; discriminate.
Qed.

Lemma firstn_app_le {A} n (a b : list A) : n <= length a -> firstn n (a ++ b) = firstn n a.
Proof.
  intros H. rewrite firstn_app. replace (n - length a) with 0 by lia. simpl. apply app_nil_r.
Qed.

Lemma Forall_parts {A} (Q : A -> Prop) n (l : list A) :
  Forall Q (firstn n l) -> Forall Q (skipn n l) -> Forall Q l.
Proof. intros H1 H2. rewrite <- (firstn_skipn n l). apply Forall_app; auto. Qed.

(** *** the group loop under quietness *)
Theorem fu_loop_quiet mrg n u t w m :
  groups u <> [] -> NoDup (blks (groups u)) -> noinj w -> n <= length (groups u) ->
  Forall (QL mrg m w) (firstn n (rot u)) -> Forall (QL mrg (m - pB P) w) (skipn n (rot u)) ->
  let '(u', sp, w') := fu_loop P mrg n u t w in
  (forall tk c, sp <> SItem tk c) /\ noinj w' /\ NoDup (blks (groups u'))
  /\ Forall (QL mrg (m - pB P) w') (groups u')
  /\ twakes (log w') <= twakes (log w) + (if Nat.ltb m (pB P) then 0 else n).
Proof.
  revert u w. induction n as [|n IH]; intros u w Hne Hnd Hn Hlen Hf Hs.
  - cbn [fu_loop]. simpl in Hs.
    assert (Hall : Forall (QL mrg (m - pB P) w) (groups u)).
    { rewrite Forall_forall in *. intros g Hg. apply Hs. apply rot_in; auto. }
    destruct (if mrg then forallb (fun g => Nat.eqb (fub_len g) 0) (groups u) else Nat.eqb (rem u) 0);
      (splits; auto; [discriminate | destruct (Nat.ltb m (pB P)); lia]).
  - rewrite fu_loop_unfold.
    destruct (fu_iter_shape P mrg u t w Hne) as (l1 & g & l2 & Hsplit & Hl1 & Hshape).
    rewrite (rot_at u l1 (g :: l2) Hsplit (eq_sym Hl1)) in Hf, Hs. simpl in Hf, Hs.
    inversion Hf as [|x l Hg Hf']; subst x l. clear Hf.
    pose proof (@poll_group_quiet mrg g t w m Hg Hn) as Hpq.
    assert (Hlen' : n <= length (l2 ++ l1)).
    { rewrite Hsplit in Hlen. rewrite !app_length in *. simpl in Hlen. lia. }
    assert (Hdist : forall h, In h (l2 ++ l1) -> blk h <> blk g).
    { intros h Hin Heq. rewrite Hsplit in Hnd. unfold blks in Hnd. rewrite map_app in Hnd. simpl in Hnd.
      apply NoDup_remove_2 in Hnd. apply Hnd. rewrite <- Heq, <- map_app.
      apply in_map. apply in_app_iff. apply in_app_iff in Hin. tauto. }
    assert (Hnd_rest : NoDup (blks (l1 ++ l2))).
    { rewrite Hsplit in Hnd. unfold blks in *. rewrite map_app in Hnd. simpl in Hnd. rewrite map_app.
      eapply NoDup_remove_1; eauto. }
    pose proof (fun u' w' => @fu_iter_done_none mrg u t w u' w') as Hdone.
    destruct (poll_group P mrg g t w) as [[g' sp] w1] eqn:Hpge.
    destruct Hpq as (Hb & Hn1 & Hq1 & Hsp & Htw & Hfr).
    assert (Hmono : forall k l, (forall h, In h l -> In h (l2 ++ l1)) ->
                                Forall (QL mrg k w) l -> Forall (QL mrg k w1) l).
    { intros k l Hsub Hall. rewrite Forall_forall in *. intros h Hin.
      apply (@QL_frame mrg k w w1 h); [apply Hfr; apply Hdist; auto | auto]. }
    assert (Hf1 : Forall (QL mrg m w1) (firstn n (l2 ++ l1))).
    { apply Hmono; auto. intros h Hin. rewrite <- (firstn_skipn n (l2 ++ l1)). apply in_or_app; auto. }
    assert (Hs1 : Forall (QL mrg (m - pB P) w1) (skipn n (l2 ++ l1))).
    { apply Hmono; auto. intros h Hin. eapply in_skipn; eauto. }
    destruct (fu_iter P mrg u t w) as [[[u' sp'] w']|u1 w2].
    + destruct Hshape as (-> & Hspn & -> & Hbk & _ & Hnone).
      destruct Hsp as [->|(-> & Hz & ->)]; [congruence|].
      destruct (Hnone eq_refl) as [-> ->].
      destruct (Hdone u' w eq_refl) as (g0 & g0' & Hnth & Hpg & Hgr).
      splits; auto; try discriminate.
      * rewrite Hbk; auto.
      * rewrite Hgr. constructor; [|constructor].
        assert (g0 = g). { rewrite Hsplit, <- Hl1 in Hnth. simpl in Hnth. congruence. }
        subst g0. rewrite Hpge in Hpg. inversion Hpg; subst g0'. exact Hq1.
      * destruct (Nat.ltb m (pB P)); lia.
    + assert (Hfin : forall u1 w2,
                 groups u1 <> [] -> NoDup (blks (groups u1)) -> noinj w2 -> n <= length (groups u1) ->
                 Forall (QL mrg m w2) (firstn n (rot u1)) -> Forall (QL mrg (m - pB P) w2) (skipn n (rot u1)) ->
                 twakes (log w2) <= twakes (log w) + (if Nat.ltb m (pB P) then 0 else 1) ->
                 let '(u', sp, w') := fu_loop P mrg n u1 t w2 in
                 (forall tk c, sp <> SItem tk c) /\ noinj w' /\ NoDup (blks (groups u'))
                 /\ Forall (QL mrg (m - pB P) w') (groups u')
                 /\ twakes (log w') <= twakes (log w) + (if Nat.ltb m (pB P) then 0 else S n)).
      { intros u0 w0 F1 F2 F3 F4 F5 F6 F7. specialize (IH u0 w0 F1 F2 F3 F4 F5 F6).
        destruct (fu_loop P mrg n u0 t w0) as [[u' sp'] w']. destruct IH as (I1 & I2 & I3 & I4 & I5).
        splits; auto. destruct (Nat.ltb m (pB P)); lia. }
      destruct Hshape as [(-> & Hg1 & Hc1 & ->) | [(-> & -> & Hg1 & Hc1 & ->) | (-> & Hl2 & Hg1 & Hc1 & ->)]].
      * (* Pending: the group goes to the back, visited *)
        apply Hfin; auto.
        -- rewrite Hg1. destruct l1; discriminate.
        -- rewrite Hg1. rewrite Hsplit in Hnd. unfold blks in *. rewrite map_app in *. simpl in *. rewrite Hb. auto.
        -- rewrite Hg1. rewrite !app_length in *. simpl. lia.
        -- rewrite (rot_next u1 l1 l2 g' Hg1 Hc1), firstn_app_le by auto. exact Hf1.
        -- rewrite (rot_next u1 l1 l2 g' Hg1 Hc1), skipn_app_le by auto.
           apply Forall_app; split; auto.
      * (* empty, the last of the Vec: kept, at the back *)
        simpl in Hf1, Hs1, Hlen'.
        apply Hfin; auto.
        -- rewrite Hg1. destruct l1; discriminate.
        -- rewrite Hg1. rewrite Hsplit in Hnd. unfold blks in *. rewrite map_app in *. simpl in *. rewrite Hb. auto.
        -- rewrite Hg1. rewrite !app_length in *. simpl. lia.
        -- rewrite (rot_front u1 _ Hg1 Hc1), firstn_app_le by auto. exact Hf1.
        -- rewrite (rot_front u1 _ Hg1 Hc1), skipn_app_le by auto.
           apply Forall_app; split; auto.
      * (* empty, in the middle: discarded *)
        assert (Hdrop : forall k l, (forall h, In h l -> In h (l2 ++ l1)) ->
                                    Forall (QL mrg k w1) l -> Forall (QL mrg k (fub_drop g' w1)) l).
        { intros k l Hsub Hall. rewrite Forall_forall in *. intros h Hin.
          apply (@QL_frame mrg k w1 (fub_drop g' w1) h); [|auto].
          apply get_blk_fub_drop_other. rewrite Hb. apply Hdist. auto. }
        apply Hfin; auto.
        -- rewrite Hg1. destruct l1; [destruct l2; [congruence|discriminate]|discriminate].
        -- rewrite Hg1. exact Hnd_rest.
        -- apply noinj_fub_drop; auto.
        -- rewrite Hg1. rewrite !app_length in *. lia.
        -- rewrite (rot_same u1 l1 l2 Hg1 Hl2 Hc1). apply Hdrop; auto.
           intros h Hin. rewrite <- (firstn_skipn n (l2 ++ l1)). apply in_or_app; auto.
        -- rewrite (rot_same u1 l1 l2 Hg1 Hl2 Hc1). apply Hdrop; auto.
           intros h Hin. eapply in_skipn; eauto.
        -- rewrite tw_fub_drop. exact Htw.
Qed.


Lemma twakes_app l1 l2 : twakes (l1 ++ l2) = twakes l1 + twakes l2.
Proof. induction l1 as [|e l1 IH]; simpl; auto. destruct e; simpl; lia. Qed.

Lemma tw_fu_poll_mono mrg u t w : twakes (log w) <= twakes (log (snd (fu_poll_next P mrg u t w))).
Proof.
  assert (H : lsuf w (snd (fu_poll_next P mrg u t w))).
  { unfold fu_poll_next. destruct (groups u); [apply lsuf_refl|apply lsuf_fu_loop]. }
  destruct H as [l ->]. rewrite twakes_app. lia.
Qed.

(** *** one [poll_next] of the whole collection *)
Theorem fu_poll_quiet mrg u t w m :
  NoDup (blks (groups u)) -> noinj w -> Forall (QL mrg m w) (groups u) ->
  let '(u', sp, w') := fu_poll_next P mrg u t w in
  (forall tk c, sp <> SItem tk c) /\ noinj w' /\ NoDup (blks (groups u'))
  /\ Forall (QL mrg (m - pB P) w') (groups u')
  /\ twakes (log w') <= twakes (log w) + (if Nat.ltb m (pB P) then 0 else length (groups u)).
Proof.
  intros Hnd Hn Hall. unfold fu_poll_next. destruct (groups u) as [|g0 gs0] eqn:Hg.
  - splits; auto; [discriminate | rewrite Hg; constructor | rewrite Hg; constructor | lia].
  - rewrite <- Hg in *.
    assert (Hlen : length (rot u) = length (groups u)).
    { unfold rot. rewrite app_length, skipn_length, firstn_length. lia. }
    apply fu_loop_quiet; auto.
    + rewrite Hg; discriminate.
    + rewrite firstn_all2 by lia. rewrite Forall_forall in *. intros g Hin. apply Hall. apply rot_in; auto.
    + rewrite skipn_all2 by lia. constructor.
Qed.

(** consecutive polls, each with its own task waker *)
Fixpoint polls (mrg : bool) (ts : list nat) (u : fu) (w : world) : fu * world :=
  match ts with
  | [] => (u, w)
  | t :: ts' => let '(u', _, w') := fu_poll_next P mrg u t w in polls mrg ts' u' w'
  end.

(** *** the poll after [m / B] polls, and every later one, invokes no task waker *)
Theorem quiet_polls_reach_silence mrg ts u w m :
  NoDup (blks (groups u)) -> noinj w -> Forall (QL mrg m w) (groups u) ->
  m < S (length ts) * pB P ->
  let '(u1, w1) := polls mrg ts u w in
  forall t, let '(u', sp, w') := fu_poll_next P mrg u1 t w1 in
            (forall tk c, sp <> SItem tk c) /\ twakes (log w') = twakes (log w1).
Proof.
  revert u w m. induction ts as [|t0 ts IH]; intros u w m Hnd Hn Hall Hm.
  - cbn [polls]. intros t. pose proof (@fu_poll_quiet mrg u t w m Hnd Hn Hall) as H.
    pose proof (tw_fu_poll_mono mrg u t w) as Hge.
    destruct (fu_poll_next P mrg u t w) as [[u' sp] w']. destruct H as (A & B & C & D & E).
    split; auto. simpl in Hm. destruct (Nat.ltb_spec m (pB P)); [|lia].
    cbn [snd] in Hge. lia.
  - cbn [polls]. pose proof (@fu_poll_quiet mrg u t0 w m Hnd Hn Hall) as H.
    destruct (fu_poll_next P mrg u t0 w) as [[u' sp] w']. destruct H as (A & B & C & D & E).
    apply (IH u' w' (m - pB P)); auto. simpl in Hm. cbn [length] in Hm. lia.
Qed.

(** *** in reachable states: the ready queue of a block never holds more entries than the block
    has slots (each slot is queued at most once), so [m] may be taken as the largest block *)
Lemma ql_le_bcap own w b kb : winv own None w -> get_blk w b = Some kb -> length (bqueue kb) <= bcap kb.
Proof.
  intros Hw Hk. destruct (wi_blk Hw _ Hk) as [A1 A2 A3 _ _ _ _].
  rewrite <- (seq_length (bcap kb) 0). apply NoDup_incl_length; auto.
  intros i Hi. apply in_seq. split; [lia|]. simpl. rewrite <- A1.
  apply nth_error_Some_lt with (x := true). apply A3. auto.
Qed.

Hypothesis HP : params_ok P.

Theorem reachable_quiet_polls_reach_silence ops (mrg : bool) u ts m :
  st_coll (reach P ops) = (if mrg then CMu u else CFu u) ->
  (forall g, In g (groups u) -> quiet_map (gk mrg) (tasks g)) ->
  (forall g kb, In g (groups u) -> get_blk (st_world (reach P ops)) (blk g) = Some kb -> bcap kb <= m) ->
  m < S (length ts) * pB P ->
  let '(u1, w1) := polls mrg ts u (begin_op no_inj (st_world (reach P ops))) in
  forall t, let '(u', sp, w') := fu_poll_next P mrg u1 t w1 in
            (forall tk c, sp <> SItem tk c) /\ twakes (log w') = twakes (log w1).
Proof.
  intros Hc Hq Hcap Hm. pose proof (reachable_nd P HP ops) as Hn. destruct (@reachable_Inv P HP ops) as [Hw Hok].
  rewrite Hc in *.
  assert (Hw' : winv (cnt (blks (groups u))) None (st_world (reach P ops))) by (destruct mrg; exact Hw).
  assert (Hn' : NoDup (blks (groups u))) by (destruct mrg; exact Hn).
  apply quiet_polls_reach_silence with (m := m); auto; [reflexivity|].
  rewrite Forall_forall. intros g Hin.
  destruct (blk_of_owned (cnt (blks (groups u))) (st_world (reach P ops)) (blk g) Hw') as [kb Hk].
  { apply cnt_pos_in. apply in_map. exact Hin. }
  split; [auto|]. split; [exists kb; exact Hk|]. right. unfold ql.
  change (get_blk (begin_op no_inj (st_world (reach P ops))) (blk g)) with (get_blk (st_world (reach P ops)) (blk g)).
  rewrite Hk. pose proof (ql_le_bcap _ _ _ _ Hw' Hk). specialize (Hcap g kb Hin Hk). lia.
Qed.

End WithParams.
