(** * AllocHistory: the number of allocator calls over a whole history of FuturesUnordered /
    MergeUnbounded is logarithmic in the peak number of children held (C18, one theorem)

    [k] counts the groups created by pushes.  Every allocating push creates a group (at most 3
    allocator calls: slot array, waker block, growth of the Vec of groups), the capacity of the
    last group never decreases and is multiplied by [growth] at each creation, and a creation
    needs the last group to be full — so at the k-th creation at least growth^(k-2) children are
    held.  Polls, wakes, drops never allocate.  Hence for every history:

      allocations <= 3 * k + 3   and   growth^(k-2) <= peak   (k >= 2),

    i.e. allocations <= 3 * log_growth(peak) + 9, however many children are processed and
    whatever the pattern of filling, draining and refilling. *)
From FB Require Import Base Syntax World SlotMap Fub Unbounded Ordered Adapters Step Tactics SlotMapProofs WorldProofs FubProofs
  UnboundedProofs OrderedProofs StepProofs AllocProofs GrowthProofs Reach.

Section WithParams.
Variable P : params.
Hypothesis HP : params_ok P.

Definition held (k : coll) : nat :=
  match k with
  | CFu u | CMu u => total (groups u)
  | CFo q => total (groups (fu_inner q)) + length (oheap (fu_ord q))   (* in progress + parked outputs *)
  | _ => 0
  end.

Fixpoint run_peak (s : state) (ops : list op) : nat :=
  match ops with
  | [] => held (st_coll s)
  | o :: rest => Nat.max (held (st_coll s)) (run_peak (fst (step_op P s o)) rest)
  end.

(** [A]: allocator calls so far; [pk]: a bound on the number held so far *)
Definition gi (u : fu) (A pk : nat) : Prop :=
  geo (pGrowth P) (groups u) /\ total (groups u) <= pk
  /\ exists k, A <= 3 * k + 3
       /\ (groups u = [] -> k = 0)
       /\ (1 <= k -> pGrowth P ^ (k - 1) <= last_cap (groups u))
       /\ (2 <= k -> pGrowth P ^ (k - 2) <= pk).

(** the heap of parked outputs of FuturesOrdered: [j] counts its growths; each at least doubles
    the capacity and needs the heap to be full *)
Definition hi (o : ord) (A pk : nat) : Prop :=
  exists j, A <= j + 1 /\ (1 <= j -> 2 ^ (j + 1) <= hcap o) /\ (2 <= j -> 2 ^ j <= pk).

Definition foi (q : fo) (A pk : nat) : Prop :=
  total (groups (fu_inner q)) + length (oheap (fu_ord q)) <= pk
  /\ exists A1 A2, A <= A1 + A2 /\ gi (fu_inner q) A1 pk /\ hi (fu_ord q) A2 pk.

Definition GI (k : coll) (A pk : nat) : Prop :=
  match k with
  | CFu u | CMu u => gi u A pk
  | CFo q => foi q A pk
  | CNone => A = 0
  | _ => True
  end.

Lemma gi_mono u A pk pk' : gi u A pk -> pk <= pk' -> gi u A pk'.
Proof.
  intros (G & T & k & A1 & A2 & A3 & A4) Hle. split; auto. split; [lia|]. exists k. splits; auto.
  intros Hk. specialize (A4 Hk). lia.
Qed.

Lemma last_cap_pos gs : gs <> [] -> Forall (fun g => 1 <= fub_cap g) gs -> 1 <= last_cap gs.
Proof.
  intros Hne Hall. unfold last_cap. rewrite last_opt_nth.
  destruct (nth_error gs (pred (length gs))) as [l|] eqn:E.
  - rewrite Forall_forall in Hall. apply Hall. eapply nth_error_In; eauto.
  - apply nth_error_None in E. destruct gs; simpl in *; [congruence|lia].
Qed.

Lemma total_ge_in gs g : In g gs -> fub_len g <= total gs.
Proof. induction gs as [|a t IH]; simpl; intros []; subst; try lia. specialize (IH H). lia. Qed.

(** a push *)
Lemma push_gi mrg u c w A pk :
  winv (cnt (blks (groups u))) None w -> fu_ok mrg u -> gi u (A + nalloc w) pk ->
  let '(u', w') := fu_push P mrg u c w in
  gi u' (A + nalloc w') (Nat.max pk (total (groups u'))).
Proof.
  intros Hw Hok (G & T & k & A1 & A2 & A3 & A4).
  pose proof HP as (HB & HM & HG & HW). assert (Hg1 : 1 <= pGrowth P) by lia.
  pose proof (@fu_push_growth P Hg1 mrg u c w HM Hok G) as Hg.
  pose proof (@fu_push_spec P HP mrg u c w Hw Hok) as Hs.
  destruct (fu_push P mrg u c w) as [u' w']. destruct Hg as (G' & N & L & C). destruct Hs as (_ & Hok' & Tot & Hne').
  split; auto. split; [lia|].
  destruct (Nat.eq_dec (nalloc w') (nalloc w)) as [Heq|Hneq].
  - exists k. rewrite Heq. splits; auto.
    + intros E. congruence.
    + intros Hk. specialize (A3 Hk). lia.
    + intros Hk. specialize (A4 Hk). lia.
  - exists (S k). splits.
    + lia.
    + intros E; congruence.
    + intros _. replace (S k - 1) with k by lia.
      destruct (C Hneq) as [E | (l & Hl & Hfull & Hcap)].
      * rewrite (A2 E). simpl. apply last_cap_pos; auto. apply Hok'.
      * destruct k as [|k]; [simpl; apply last_cap_pos; auto; apply Hok'|].
        specialize (A3 ltac:(lia)). replace (S k - 1) with k in A3 by lia.
        rewrite Hcap. unfold last_cap in A3. rewrite Hl in A3. simpl. nia.
    + intros Hk. replace (S k - 2) with (k - 1) by lia.
      destruct (C Hneq) as [E | (l & Hl & Hfull & Hcap)].
      * rewrite (A2 E) in Hk. lia.
      * specialize (A3 ltac:(lia)). unfold last_cap in A3. rewrite Hl in A3.
        assert (Hin : In l (groups u)) by (rewrite last_opt_nth in Hl; eapply nth_error_In; eauto).
        pose proof (total_ge_in _ _ Hin). lia.
Qed.

Lemma push_fold_gi mrg l u w A pk :
  winv (cnt (blks (groups u))) None w -> fu_ok mrg u -> gi u (A + nalloc w) pk ->
  let '(u', w') := fold_left (fun uw c => fu_push P mrg (fst uw) c (snd uw)) l (u, w) in
  gi u' (A + nalloc w') (Nat.max pk (total (groups u'))) /\ total (groups u) <= total (groups u').
Proof.
  revert u w pk. induction l as [|c l IH]; intros u w pk Hw Hok Hgi; simpl.
  - split; auto. destruct Hgi as (G & T & Hk). eapply gi_mono; [split; eauto|lia].
  - pose proof (@fu_push_spec P HP mrg u c w Hw Hok) as Hs. pose proof (@push_gi mrg u c w A pk Hw Hok Hgi) as Hp.
    destruct (fu_push P mrg u c w) as [u1 w1]. destruct Hs as (A1 & B1 & T1 & _). simpl.
    specialize (IH u1 w1 _ A1 B1 Hp).
    destruct (fold_left _ l (u1, w1)) as [u' w']. destruct IH as [IH Hle]. split; [|lia].
    eapply gi_mono; [exact IH|]. lia.
Qed.

Lemma with_capacity_gi (mrg : bool) n w :
  winv (cnt []) None w -> nalloc w = 0 ->
  let '(u, w') := fu_with_capacity n w in gi u (nalloc w') (total (groups u)).
Proof.
  intros Hw Hz. pose proof (@fu_with_capacity_spec mrg n w Hw) as Hs. unfold fu_with_capacity in *.
  destruct (Nat.eqb n 0).
  - simpl. rewrite Hz. split; [exact I|]. split; auto. exists 0. splits; auto; lia.
  - assert (Hg1 : 1 <= pGrowth P) by (destruct HP as (_ & _ & ? & _); lia).
    pose proof (@na_fub_new P Hg1 n w) as [Hn _]. destruct (fub_new n w) as [g w1]. simpl in *.
    destruct Hs as (_ & Hok & Ht). split; [exact I|]. split; [simpl; lia|]. exists 0. splits; try lia; try discriminate.
Qed.

(** a poll never allocates and keeps the last group *)
Lemma poll_gi mrg u t w A pk :
  winv (cnt (blks (groups u))) None w -> fu_ok mrg u -> gi u (A + nalloc w) pk ->
  let '(u', sp, w') := fu_poll_next P mrg u t w in gi u' (A + nalloc w') pk.
Proof.
  intros Hw Hok Hgi.
  pose proof (@fu_poll_next_spec P mrg u t w Hw Hok) as Hs. unfold fu_poll_next in *.
  destruct (groups u) as [|g0 gs0] eqn:Hg; [exact Hgi|].
  rewrite <- Hg in *. destruct Hgi as (G & T & k & A1 & A2 & A3 & A4).
  assert (Hg1 : 1 <= pGrowth P) by (destruct HP as (_ & _ & ? & _); lia).
  pose proof (@fu_loop_growth P Hg1 mrg (length (groups u)) u t w G) as Hl.
  pose proof (@fu_loop_spec P mrg (length (groups u)) u t w Hw Hok ltac:(rewrite Hg; discriminate)) as H2.
  destruct (fu_loop P mrg (length (groups u)) u t w) as [[u' sp] w']. destruct Hl as (G' & L & N).
  destruct H2 as (_ & _ & Hne' & _).
  destruct Hs as (_ & _ & (Hle & _)). split; auto. split; [lia|]. exists k. rewrite N, L. splits; auto.
  intros E. congruence.
Qed.

(** collections other than the two unbounded ones stay what they are *)
Definition is_other (k : coll) : Prop := match k with CNone | CFu _ | CMu _ | CFo _ => False | _ => True end.

Lemma step_core_other k o w : is_other k -> is_other (fst (step_core P k o w)).
Proof.
  intros Hk. unfold step_core.
  destruct o; destruct k; try contradiction; cbn [fst do_push do_poll do_drop is_other]; try exact I;
    repeat match goal with
           | |- context [if ?b then _ else _] => destruct b
           end; cbn [fst is_other]; try exact I;
    try match goal with
        | |- context [fub_try_push ?a ?b ?c] => destruct (fub_try_push a b c) as [[?| |] ?]
        | |- context [fob_try_push P ?x ?a ?b ?c] => destruct (fob_try_push P x a b c) as [[?|] ?]
        | |- context [fo_push P ?x ?a ?b ?c] => destruct (fo_push P x a b c)
        | |- context [fub_poll_next P ?x ?a ?b ?c] => destruct (fub_poll_next P x a b c) as [[? ?] ?]
        | |- context [mb_poll_next P ?a ?b ?c] => destruct (mb_poll_next P a b c) as [[? ?] ?]
        | |- context [fob_poll_next P ?x ?a ?b ?c] => destruct (fob_poll_next P x a b c) as [[? ?] ?]
        | |- context [fo_poll_next P ?a ?b ?c] => destruct (fo_poll_next P a b c) as [[? ?] ?]
        | |- context [adapter_poll P ?a ?b ?c] => destruct (adapter_poll P a b c) as [[? ?] ?]
        | |- context [fec_poll P ?a ?b ?c] => destruct (fec_poll P a b c) as [[? ?] ?]
        | |- context [join_poll P ?a ?b ?c] => destruct (join_poll P a b c) as [[? ?] ?]
        end; cbn [fst is_other]; try exact I;
    repeat match goal with
           | |- context [if ?b then _ else _] => destruct b
           end; cbn [fst is_other]; exact I.
Qed.

Lemma other_GI k o w A pk : is_other k ->
  GI (fst (step_core P k o w)) (A + nalloc (snd (step_core P k o w))) (Nat.max pk (held (fst (step_core P k o w)))).
Proof.
  intros Hk. pose proof (step_core_other k o w Hk) as H.
  destruct (fst (step_core P k o w)); try contradiction; exact I.
Qed.

(** FuturesUnordered / MergeUnbounded: every operation *)
Lemma unb_GI (mrg : bool) u o w A pk :
  winv (cnt (blks (groups u))) None w -> fu_ok mrg u -> nalloc w = 0 ->
  gi u A pk ->
  let k := if mrg then CMu u else CFu u in
  GI (fst (step_core P k o w)) (A + nalloc (snd (step_core P k o w))) (Nat.max pk (held (fst (step_core P k o w)))).
Proof.
  intros Hw Hok Hz Hgi. cbv zeta.
  assert (Hgi0 : gi u (A + nalloc w) pk) by (rewrite Hz, Nat.add_0_r; exact Hgi).
  assert (Hsame : forall w', nalloc w' = nalloc w ->
                  GI (if mrg then CMu u else CFu u) (A + nalloc w') (Nat.max pk (held (if mrg then CMu u else CFu u)))).
  { intros w' E. rewrite E. destruct mrg; simpl; (eapply gi_mono; [exact Hgi0|lia]). }
  unfold step_core.
  destruct o as [ty p inits ups|c sc|c sc|c sc|c sc|t i|a| | | | ].
  - destruct mrg; cbn [fst snd]; apply Hsame; reflexivity.
  - (* push *)
    pose proof (@push_gi mrg u (mk_child c sc) w A pk Hw Hok Hgi0) as Hp.
    destruct mrg; cbn [do_push orb fst snd];
      (destruct (fu_push P _ u (mk_child c sc) w) as [u' w']; cbn [fst snd GI held]; rewrite na_emit; exact Hp).
  - destruct mrg; cbn [do_push orb fst snd]; apply Hsame; reflexivity.
  - destruct mrg; cbn [do_push orb fst snd]; apply Hsame; reflexivity.
  - destruct mrg; cbn [do_push orb fst snd]; apply Hsame; reflexivity.
  - (* poll *)
    pose proof (@poll_gi mrg u t w A pk Hw Hok Hgi0) as Hp.
    pose proof (@fu_poll_next_spec P mrg u t w Hw Hok) as Hs.
    destruct mrg; cbn [do_poll fst snd];
      (destruct (fu_poll_next P _ u t w) as [[u' sp] w']; cbn [fst snd GI held]; rewrite na_emit_ret;
       eapply gi_mono; [exact Hp|lia]).
  - destruct mrg; cbn [fst snd]; apply Hsame; apply na_do_act.
  - destruct mrg; cbn [fst snd]; apply Hsame; destruct (observe _); reflexivity.
  - destruct mrg; cbn [fst snd]; apply Hsame; reflexivity.
  - destruct mrg; cbn [do_drop fst snd GI]; exact I.
  - destruct mrg; cbn [fst snd]; apply Hsame; unfold cleanup; apply na_cleanup_from.
Qed.

(** ** FuturesOrdered: the groups of the inner collection and the heap of parked outputs *)
Lemma gi_down u A A' pk : gi u A pk -> A' <= A -> gi u A' pk.
Proof. intros (G & T & k & A1 & R) Hle. split; auto. split; auto. exists k. split; [lia|exact R]. Qed.

Lemma hi_mono o A pk pk' : hi o A pk -> pk <= pk' -> hi o A pk'.
Proof. intros (j & A1 & A2 & A3) Hle. exists j. splits; auto. intros Hj. specialize (A3 Hj). lia. Qed.

Lemma foi_mono q A pk pk' : foi q A pk -> pk <= pk' -> foi q A pk'.
Proof.
  intros (T & A1 & A2 & Hle & G & H) Hp. split; [lia|]. exists A1, A2. splits; auto.
  - eapply gi_mono; eauto.
  - eapply hi_mono; eauto.
Qed.

Lemma poll_gi' u t w A1 pk :
  winv (cnt (blks (groups u))) None w -> fu_ok false u -> gi u A1 pk ->
  let '(u', sp, w') := fu_poll_next P false u t w in gi u' A1 pk /\ nalloc w' = nalloc w.
Proof.
  intros Hw Hok Hgi.
  pose proof (@fu_poll_next_spec P false u t w Hw Hok) as Hs. unfold fu_poll_next in *.
  destruct (groups u) as [|g0 gs0] eqn:Hg; [split; auto|].
  rewrite <- Hg in *. destruct Hgi as (G & T & k & A1' & A2 & A3 & A4).
  assert (Hg1 : 1 <= pGrowth P) by (destruct HP as (_ & _ & ? & _); lia).
  pose proof (@fu_loop_growth P Hg1 false (length (groups u)) u t w G) as Hl.
  pose proof (@fu_loop_spec P false (length (groups u)) u t w Hw Hok ltac:(rewrite Hg; discriminate)) as H2.
  destruct (fu_loop P false (length (groups u)) u t w) as [[u' sp] w']. destruct Hl as (G' & L & N).
  destruct H2 as (_ & _ & Hne' & _).
  destruct Hs as (_ & _ & (Hle & _)). split; auto. split; auto. split; [lia|]. exists k. rewrite L. splits; auto.
  intros E. congruence.
Qed.

Lemma pow2_step x : 2 ^ (x + 1) = 2 * 2 ^ x.
Proof. rewrite Nat.add_1_r. apply Nat.pow_succ_r'. Qed.

Lemma park_hi o i tk w A2 pk :
  hi o A2 pk -> S (length (oheap o)) <= pk ->
  let '(o', w') := ord_park o i tk w in
  hi o' (A2 + (nalloc w' - nalloc w)) pk /\ nalloc w <= nalloc w'
  /\ length (oheap o') = S (length (oheap o)).
Proof.
  intros (j & A1 & B & C) Hlen. unfold ord_park, vec_grow.
  destruct (Nat.ltb_spec (length (oheap o)) (hcap o)) as [Hlt|Hge]; cbn [oheap hcap nalloc count_alloc].
  - splits; [|lia|rewrite app_length; simpl; lia]. exists j. splits; auto. lia.
  - splits; [|lia|rewrite app_length; simpl; lia]. exists (j + 1). splits.
    + lia.
    + intros _. cbn [hcap]. rewrite pow2_step. destruct (Nat.eq_dec j 0) as [->|Hj]; [change (2 ^ (0 + 1)) with 2; lia|].
      specialize (B ltac:(lia)). lia.
    + intros Hj. specialize (B ltac:(lia)). lia.
Qed.

Lemma rebase_total gs :
  total (map (fun g => {| tasks := sm_map_children (flip_child P) (tasks g); blk := blk g |}) gs) = total gs.
Proof. induction gs as [|g gs IH]; simpl; [reflexivity|]. unfold fub_len at 1. simpl. fold (fub_len g). congruence. Qed.

Lemma rebase_geo gs :
  geo (pGrowth P) (map (fun g => {| tasks := sm_map_children (flip_child P) (tasks g); blk := blk g |}) gs)
  <-> geo (pGrowth P) gs.
Proof.
  induction gs as [|a [|b t] IH]; simpl; try tauto.
  unfold fub_cap at 1 2. simpl. rewrite !sm_map_children_cap. simpl in IH. fold (fub_cap a) (fub_cap b). tauto.
Qed.

Lemma rebase_last_cap gs :
  last_cap (map (fun g => {| tasks := sm_map_children (flip_child P) (tasks g); blk := blk g |}) gs) = last_cap gs.
Proof.
  unfold last_cap, last_opt. rewrite <- map_rev. destruct (rev gs) as [|x r]; simpl; auto.
  unfold fub_cap. simpl. apply sm_map_children_cap.
Qed.

Lemma rebase_foi q A pk : foi q A pk -> foi (fo_rebase P q) A pk.
Proof.
  unfold fo_rebase. destruct (msb_set P (nout (fu_ord q))); auto.
  intros (T & A1 & A2 & Hle & (G & T1 & k & K1 & K2 & K3 & K4) & (j & J1 & J2 & J3)).
  split; [cbn [fu_inner fu_ord groups oheap ord_rebase]; rewrite rebase_total, map_length; exact T|].
  exists A1, A2. splits; auto.
  - unfold gi. cbn [fu_inner groups]. split; [apply rebase_geo; exact G|]. split; [rewrite rebase_total; exact T1|].
    exists k. rewrite rebase_last_cap. splits; auto.
    intros E. apply K2. destruct (groups (fu_inner q)); [reflexivity|discriminate].
  - exists j. cbn [fu_ord ord_rebase hcap]. splits; auto.
Qed.

Lemma fo_loop_foi n q t w A pk :
  winv (fo_own q) None w -> fu_ok false (fu_inner q) -> foi q (A + nalloc w) pk ->
  let '(q', sp, w') := fo_loop P n q t w in foi q' (A + nalloc w') pk.
Proof.
  revert q w. induction n as [|n IH]; intros q w Hw Hok Hf; cbn [fo_loop]; [exact Hf|].
  destruct Hf as (T & A1 & A2 & Hle & G & H).
  pose proof (@fu_poll_next_spec P false (fu_inner q) t w Hw Hok) as Hs.
  pose proof (@poll_gi' (fu_inner q) t w A1 pk Hw Hok G) as Hp.
  destruct (fu_poll_next P false (fu_inner q) t w) as [[u sp] w1].
  destruct Hs as (Hw1 & Hok1 & (L1 & L2 & L3)). destruct Hp as [G1 N1]. unfold loop_post in *.
  destruct sp as [| |tk c].
  - split; [cbn [fu_inner fu_ord]; lia|]. exists A1, A2. rewrite N1. splits; auto.
  - split; [cbn [fu_inner fu_ord]; lia|]. exists A1, A2. rewrite N1. splits; auto.
  - destruct (L2 eq_refl) as [Hdec Hpos]. cbn [fu_ord].
    destruct (Z.eqb (cidx c) (nout (fu_ord q))).
    + split; [cbn [fu_inner fu_ord oheap ord_set_out]; lia|]. exists A1, A2. rewrite N1. splits; auto.
    + pose proof (@park_hi (fu_ord q) (cidx c) tk w1 A2 pk H ltac:(lia)) as Hpk.
      destruct (ord_park (fu_ord q) (cidx c) tk w1) as [o w2] eqn:Epk. destruct Hpk as (H2 & N2 & Len2).
      assert (Hw2 : winv (fo_own {| fu_inner := u; fu_ord := o |}) None w2).
      { unfold ord_park in Epk. destruct (vec_grow _ _) in Epk. inversion Epk; subst. apply winv_count_alloc. exact Hw1. }
      apply (IH {| fu_inner := u; fu_ord := o |} w2 Hw2 Hok1).
      split; [cbn [fu_inner fu_ord]; lia|]. exists A1, (A2 + (nalloc w2 - nalloc w1)). splits; auto. lia.
Qed.

Lemma fo_poll_foi q t w A pk :
  winv (fo_own q) None w -> fu_ok false (fu_inner q) -> foi q (A + nalloc w) pk ->
  let '(q', sp, w') := fo_poll_next P q t w in foi q' (A + nalloc w') pk.
Proof.
  intros Hw Hok Hf. unfold fo_poll_next.
  destruct (fo_rebase_inner P q) as (R1 & R2 & R3 & R4).
  pose proof (rebase_foi _ _ _ Hf) as Hf1.
  set (q1 := fo_rebase P q) in *.
  assert (Hw1 : winv (fo_own q1) None w) by (unfold fo_own; rewrite R1; auto).
  destruct (ord_try_release P (fu_ord q1)) as [[tk o]|] eqn:Hr.
  - pose proof (@ord_try_release_len P _ _ _ Hr) as Hl.
    destruct Hf1 as (T & A1 & A2 & Hle & G & (j & J1 & J2 & J3)).
    split; [cbn [fu_inner fu_ord]; lia|]. exists A1, A2. splits; auto. exists j. splits; auto.
    unfold ord_try_release in Hr. destruct (heap_min (oheap (fu_ord q1))) as [[i t0]|]; [|discriminate].
    destruct (Z.eqb i (nout (fu_ord q1))); [|discriminate]. inversion Hr; subst. exact J2.
  - apply fo_loop_foi; auto.
Qed.

Lemma fo_push_foi front q c w A pk :
  winv (fo_own q) None w -> fu_ok false (fu_inner q) -> nalloc w = 0 -> foi q A pk ->
  let '(q', w') := fo_push P front q c w in
  foi q' (A + nalloc w') (Nat.max pk (held (CFo q'))).
Proof.
  intros Hw Hok Hz (T & A1 & A2 & Hle & G & H). unfold fo_push.
  set (c' := child_set_idx c _).
  assert (G0 : gi (fu_inner q) (A1 + nalloc w) pk) by (rewrite Hz, Nat.add_0_r; exact G).
  pose proof (@push_gi false (fu_inner q) c' w A1 pk Hw Hok G0) as Hp.
  pose proof (@fu_push_spec P HP false (fu_inner q) c' w Hw Hok) as Hs.
  destruct (fu_push P false (fu_inner q) c' w) as [u w1]. destruct Hs as (_ & _ & Ht & _).
  destruct H as (j & J1 & J2 & J3).
  destruct front; unfold foi; cbn [held fu_inner fu_ord oheap ord_set_out ord_set_in]; (split; [lia|]);
    exists (A1 + nalloc w1), A2; (splits; [lia | eapply gi_mono; [exact Hp|lia] | ]);
    exists j; cbn [hcap ord_set_out ord_set_in]; splits; auto; intros Hj; specialize (J3 Hj); lia.
Qed.

Lemma fu_from_list_gi (mrg : bool) h l w :
  winv (cnt []) None w -> nalloc w = 0 ->
  let '(u, w') := fu_from_list P mrg h l w in gi u (nalloc w') (total (groups u)).
Proof.
  intros Hw0 Hz. unfold fu_from_list. destruct mrg.
  - assert (H0 : gi fu_empty (0 + nalloc w) 0).
    { split; [exact I|]. split; [simpl; lia|]. exists 0. splits; auto; try lia. }
    pose proof (@push_fold_gi true l fu_empty w 0 0 Hw0 (fu_empty_ok true) H0) as Hf.
    destruct (fold_left _ l (fu_empty, w)) as [u' w']. cbn [fst snd]. destruct Hf as [Hf Hle].
    eapply gi_mono; [exact Hf|]. simpl. lia.
  - pose proof (@with_capacity_gi false (Nat.max h (pMinCap P)) w Hw0 Hz) as H0.
    pose proof (@fu_with_capacity_spec false (Nat.max h (pMinCap P)) w Hw0) as S0.
    destruct (fu_with_capacity (Nat.max h (pMinCap P)) w) as [u0 w1].
    destruct S0 as (A0 & B0 & _).
    pose proof (@push_fold_gi false l u0 w1 0 _ A0 B0 H0) as Hf.
    destruct (fold_left _ l (u0, w1)) as [u' w']. cbn [fst snd]. destruct Hf as [Hf Hle].
    eapply gi_mono; [exact Hf|]. simpl. lia.
Qed.

(** a FuturesOrdered whose heap of parked outputs is empty and has been allocated at most once *)
Lemma foi_fresh u o A1 A2 pk :
  gi u A1 (total (groups u)) -> oheap o = [] -> A2 <= 1 ->
  foi {| fu_inner := u; fu_ord := o |} (A1 + A2) (Nat.max pk (held (CFo {| fu_inner := u; fu_ord := o |}))).
Proof.
  intros G Ho Ha. cbn [held fu_inner fu_ord]. rewrite Ho. simpl. rewrite Nat.add_0_r.
  split; [cbn [fu_inner fu_ord]; rewrite Ho; simpl; lia|]. exists A1, A2. cbn [fu_inner fu_ord]. splits; auto.
  - eapply gi_mono; [exact G|lia].
  - exists 0. splits; try lia.
Qed.

Lemma fo_GI q o w A pk :
  winv (fo_own q) None w -> fu_ok false (fu_inner q) -> nalloc w = 0 -> foi q A pk ->
  GI (fst (step_core P (CFo q) o w)) (A + nalloc (snd (step_core P (CFo q) o w)))
     (Nat.max pk (held (fst (step_core P (CFo q) o w)))).
Proof.
  intros Hw Hok Hz Hf.
  assert (Hsame : forall w', nalloc w' = nalloc w -> GI (CFo q) (A + nalloc w') (Nat.max pk (held (CFo q)))).
  { intros w' E. rewrite E, Hz, Nat.add_0_r. simpl. eapply foi_mono; [exact Hf|lia]. }
  unfold step_core.
  destruct o as [ty p inits ups|c sc|c sc|c sc|c sc|t i|a| | | | ]; cbn [fst snd do_push].
  - apply Hsame; reflexivity.
  - pose proof (@fo_push_foi false q (mk_child c sc) w A pk Hw Hok Hz Hf) as Hp.
    destruct (fo_push P false q (mk_child c sc) w) as [q' w']. cbn [fst snd GI]. rewrite na_emit. exact Hp.
  - pose proof (@fo_push_foi true q (mk_child c sc) w A pk Hw Hok Hz Hf) as Hp.
    destruct (fo_push P true q (mk_child c sc) w) as [q' w']. cbn [fst snd GI]. rewrite na_emit. exact Hp.
  - apply Hsame; reflexivity.
  - apply Hsame; reflexivity.
  - assert (Hf0 : foi q (A + nalloc w) pk) by (rewrite Hz, Nat.add_0_r; exact Hf).
    pose proof (@fo_poll_foi q t w A pk Hw Hok Hf0) as Hp. cbn [do_poll].
    destruct (fo_poll_next P q t w) as [[q' sp] w']. cbn [fst snd GI]. rewrite na_emit_ret.
    eapply foi_mono; [exact Hp|lia].
  - apply Hsame; apply na_do_act.
  - apply Hsame; destruct (observe _); reflexivity.
  - apply Hsame; reflexivity.
  - cbn [do_drop fst snd GI]. exact I.
  - apply Hsame; unfold cleanup; apply na_cleanup_from.
Qed.

(** ** one operation *)
Lemma step_GI s o A pk :
  Inv s -> GI (st_coll s) A pk -> is_dead (st_coll s) = false ->
  let s' := fst (step_op P s o) in
  GI (st_coll s') (A + nalloc (st_world s')) (Nat.max pk (held (st_coll s'))).
Proof.
  intros [Hw Hok] Hgi Hd. cbv zeta. unfold step_op. rewrite Hd.
  set (w0 := begin_op (op_inj o) (st_world s)).
  assert (Hw0 : winv (cnt (coll_blks (st_coll s))) None w0) by (apply winv_begin_op; auto).
  assert (Hz : nalloc w0 = 0) by reflexivity.
  assert (Hgoal : GI (fst (step_core P (st_coll s) o w0)) (A + nalloc (snd (step_core P (st_coll s) o w0)))
                     (Nat.max pk (held (fst (step_core P (st_coll s) o w0)))));
    [|destruct (step_core P (st_coll s) o w0) as [k' w']; exact Hgoal].
  destruct (st_coll s) as [| | |f|f|u|u|q|q|a|a|j] eqn:Hk; try discriminate.
  - (* not built yet *)
    simpl in Hgi. subst A. unfold step_core.
    destruct o as [ty p inits ups|c sc|c sc|c sc|c sc|t i|a| | | | ]; cbn [fst snd st_coll st_world GI held];
      try (unfold cleanup; rewrite ?na_do_act, ?na_cleanup_from; simpl; auto; fail).
    + (* build *)
      unfold build. simpl in Hw0.
      destruct ty; cbn [fst snd];
        repeat match goal with
               | |- context [if ?b then _ else _] => destruct b
               end;
        repeat match goal with
               | |- context [fub_from_list ?l ?w] => destruct (fub_from_list l w)
               | |- context [fub_new ?c ?w] => destruct (fub_new c w)
               | |- context [fob_from_list P ?l ?w] => destruct (fob_from_list P l w)
               | |- context [fob_new P ?a ?b ?w] => destruct (fob_new P a b w) as [[?|] ?]
               | |- context [join_new ?a ?l ?w] => destruct (join_new a l w)
               end; cbn [fst snd st_coll st_world GI held]; auto.
      (* FuturesOrdered: from_iter (also with the list case-split by the automation above), new, with_capacity *)
      all: try solve [
        unfold fo_from_list;
        match goal with |- context [fu_from_list P false ?h ?l ?ww] =>
          pose proof (@fu_from_list_gi false h l ww Hw0 Hz) as Hg; destruct (fu_from_list P false h l ww) as [u w1] end;
        try destruct (p_seed p); cbn [fst snd st_coll st_world GI fu_inner];
        replace (0 + nalloc w1) with (nalloc w1 + 0) by lia; apply foi_fresh; auto ].
      all: try solve [
        change (0 + nalloc w0) with (0 + 0); apply foi_fresh; auto;
        split; [exact I|]; split; [simpl; lia|]; exists 0; splits; auto; lia ].
      all: try solve [
        unfold fo_with_capacity;
        pose proof (@with_capacity_gi false (p_cap p) w0 Hw0 Hz) as H0;
        destruct (fu_with_capacity (p_cap p) w0) as [u0 w1]; unfold heap_cap_for; cbn [fst snd st_coll st_world GI];
        cbn [nalloc count_alloc]; rewrite (Nat.add_comm _ (nalloc w1)); simpl; apply foi_fresh; auto;
        destruct (Nat.eqb _ 0); lia ].
      * (* FU from_iter *)
        unfold fu_from_list.
        pose proof (@with_capacity_gi false (Nat.max (lazy_hint p (mk_children inits)) (pMinCap P)) w0 Hw0 Hz) as H0.
        pose proof (@fu_with_capacity_spec false (Nat.max (lazy_hint p (mk_children inits)) (pMinCap P)) w0 Hw0) as S0.
        destruct (fu_with_capacity (Nat.max (lazy_hint p (mk_children inits)) (pMinCap P)) w0) as [u0 w1].
        destruct S0 as (A0 & B0 & _).
        pose proof (@push_fold_gi false (mk_children inits) u0 w1 0 _ A0 B0 H0) as Hf.
        destruct (fold_left _ (mk_children inits) (u0, w1)) as [u' w']. cbn [fst snd]. destruct Hf as [Hf Hle].
        eapply gi_mono; [exact Hf|]. simpl. lia.
      * (* FU new *)
        split; [exact I|]. split; [simpl; lia|]. exists 0. splits; auto; lia.
      * (* FU with_capacity *)
        pose proof (@with_capacity_gi false (p_cap p) w0 Hw0 Hz) as H0.
        destruct (fu_with_capacity (p_cap p) w0) as [u0 w1]. cbn [fst snd]. eapply gi_mono; [exact H0|]. simpl. lia.
      * (* MU from_iter *)
        unfold fu_from_list.
        assert (H0 : gi fu_empty (0 + nalloc w0) 0).
        { split; [exact I|]. split; [simpl; lia|]. exists 0. splits; auto; try lia. }
        pose proof (@push_fold_gi true (mk_children inits) fu_empty w0 0 0 Hw0 (fu_empty_ok true) H0) as Hf.
        destruct (fold_left _ (mk_children inits) (fu_empty, w0)) as [u' w']. cbn [fst snd]. destruct Hf as [Hf Hle].
        eapply gi_mono; [exact Hf|]. simpl. lia.
      * split; [exact I|]. split; [simpl; lia|]. exists 0. splits; auto; lia.
      * pose proof (@with_capacity_gi true (p_cap p) w0 Hw0 Hz) as H0.
        destruct (fu_with_capacity (p_cap p) w0) as [u0 w1]. cbn [fst snd]. eapply gi_mono; [exact H0|]. simpl. lia.
  - apply other_GI; exact I.
  - apply other_GI; exact I.
  - apply other_GI; exact I.
  - (* FuturesUnordered *) apply (@unb_GI false u o w0 A pk); auto.
  - (* MergeUnbounded *) apply (@unb_GI true u o w0 A pk); auto.
  - apply other_GI; exact I.
  - (* FuturesOrdered *) apply (@fo_GI q o w0 A pk); auto.
  - apply other_GI; exact I.
  - apply other_GI; exact I.
  - apply other_GI; exact I.
Qed.

Lemma held_le_run_peak s ops : held (st_coll s) <= run_peak s ops.
Proof. destruct ops; simpl; lia. Qed.

Lemma GI_mono k A pk pk' : GI k A pk -> pk <= pk' -> GI k A pk'.
Proof.
  intros H Hle. destruct k; simpl in *; auto; try (eapply gi_mono; eauto). eapply foi_mono; eauto.
Qed.

(** ** every history *)
Theorem allocations_logarithmic_in_peak ops :
  GI (st_coll (reach P ops)) (list_sum (run_allocs P init_state ops)) (run_peak init_state ops).
Proof.
  unfold reach.
  assert (H : forall s A pk, Inv s -> GI (st_coll s) A pk -> held (st_coll s) <= pk ->
                             GI (st_coll (run_state P s ops)) (A + list_sum (run_allocs P s ops))
                                (Nat.max pk (run_peak s ops))).
  { induction ops as [|o ops IH]; intros s A pk Hs Hgi Hh; simpl.
    - rewrite Nat.add_0_r. eapply GI_mono; [exact Hgi|lia].
    - destruct (is_dead (st_coll s)) eqn:Hd.
      + (* a dead collection: nothing happens any more *)
        destruct (st_coll s) eqn:Hk; try discriminate. clear IH.
        assert (Hfix : forall o', fst (step_op P s o') = s) by (intros o'; unfold step_op; rewrite Hk; reflexivity).
        assert (Hstay : forall l, st_coll (run_state P s l) = CDead).
        { induction l as [|o' l IHl]; simpl; auto. rewrite Hfix. exact IHl. }
        rewrite Hfix, Hstay. exact I.
      + pose proof (@step_GI s o A pk Hs Hgi Hd) as Hstep. cbv zeta in Hstep.
        specialize (IH (fst (step_op P s o)) (A + nalloc (st_world (fst (step_op P s o))))
                       (Nat.max pk (held (st_coll (fst (step_op P s o))))) (step_inv HP o Hs) Hstep ltac:(lia)).
        rewrite Nat.add_assoc. pose proof (held_le_run_peak (fst (step_op P s o)) ops) as Hp.
        eapply GI_mono; [exact IH|lia]. }
  specialize (H init_state 0 0 Inv_init eq_refl ltac:(simpl; lia)). simpl in H.
  eapply GI_mono; [exact H|lia].
Qed.

Corollary allocations_logarithmic_unfolded ops u :
  st_coll (reach P ops) = CFu u \/ st_coll (reach P ops) = CMu u ->
  exists k, list_sum (run_allocs P init_state ops) <= 3 * k + 3
            /\ (2 <= k -> pGrowth P ^ (k - 2) <= run_peak init_state ops).
Proof.
  intros Hc. pose proof (allocations_logarithmic_in_peak ops) as H.
  destruct Hc as [E|E]; rewrite E in H; destruct H as (_ & _ & k & A1 & _ & _ & A4); exists k; auto.
Qed.

(** FuturesOrdered: the groups of the inner collection (k) and the growths of the heap of parked
    outputs (j) are both logarithmic in the peak of (futures in progress + parked outputs) *)
Corollary allocations_logarithmic_ordered ops q :
  st_coll (reach P ops) = CFo q ->
  exists k j, list_sum (run_allocs P init_state ops) <= (3 * k + 3) + (j + 1)
              /\ (2 <= k -> pGrowth P ^ (k - 2) <= run_peak init_state ops)
              /\ (2 <= j -> 2 ^ j <= run_peak init_state ops).
Proof.
  intros Hc. pose proof (allocations_logarithmic_in_peak ops) as H. rewrite Hc in H.
  destruct H as (_ & A1 & A2 & Hle & (_ & _ & k & K1 & _ & _ & K4) & (j & J1 & _ & J3)).
  exists k, j. splits; auto. lia.
Qed.

End WithParams.
