(** * WordArith: the position counters of the ordered queues live in Z/2^w; flipping the top
      bit is adding 2^(w-1) modulo 2^w, so it preserves all differences *)
From FB Require Import Base.
Local Open Scope Z_scope.

Section W.
Variable W : Z.
Hypothesis HW : 1 <= W.

Definition wm : Z := 2 ^ W.
Definition hb : Z := 2 ^ (W - 1).

Lemma wm_hb : wm = 2 * hb.
Proof. unfold wm, hb. replace W with (Z.succ (W - 1)) at 1 by lia. rewrite Z.pow_succ_r by lia. reflexivity. Qed.

Lemma hb_pos : 0 < hb.
Proof. unfold hb. apply Z.pow_pos_nonneg; lia. Qed.

Lemma land_small y : 0 <= y < hb -> Z.land y hb = 0.
Proof.
  intros [H0 H1]. unfold hb in *. apply Z.bits_inj'. intros n Hn.
  rewrite Z.land_spec, Z.bits_0, Z.pow2_bits_eqb by lia.
  destruct (Z.eqb_spec (W - 1) n) as [<-|]; [|apply andb_false_r].
  rewrite andb_true_r.
  destruct (Z.eq_dec y 0) as [->|Hy]; [apply Z.bits_0|].
  apply Z.bits_above_log2; [lia|]. apply Z.log2_lt_pow2; lia.
Qed.

Lemma lxor_small y : 0 <= y < hb -> Z.lxor y hb = y + hb.
Proof. intros H. symmetry. apply Z.add_nocarry_lxor. apply land_small; auto. Qed.

Lemma lxor_big y : 0 <= y < hb -> Z.lxor (hb + y) hb = y.
Proof.
  intros H. rewrite Z.add_comm, <- (lxor_small y H).
  rewrite Z.lxor_assoc, Z.lxor_nilpotent, Z.lxor_0_r. reflexivity.
Qed.

(** flipping the top bit = adding 2^(w-1) modulo 2^w *)
Lemma flip_add x : 0 <= x < wm -> Z.lxor x hb = (x + hb) mod wm.
Proof.
  intros [H0 H1]. pose proof wm_hb. pose proof hb_pos.
  destruct (Z_lt_ge_dec x hb) as [Hs|Hb].
  - rewrite lxor_small by lia. rewrite Z.mod_small; lia.
  - replace x with (hb + (x - hb)) at 1 by lia. rewrite lxor_big by lia.
    replace (x + hb) with ((x - hb) + 1 * wm) by lia. rewrite Z.mod_add by lia.
    rewrite Z.mod_small; lia.
Qed.

Lemma flip_range x : 0 <= x < wm -> 0 <= Z.lxor x hb < wm.
Proof. intros H. rewrite flip_add by auto. apply Z.mod_pos_bound. pose proof wm_hb; pose proof hb_pos; lia. Qed.

(** the top-bit test *)
Lemma msb_test x : 0 <= x < wm -> (Z.land x hb =? hb) = (hb <=? x).
Proof.
  intros [H0 H1]. pose proof wm_hb. pose proof hb_pos.
  destruct (Z_lt_ge_dec x hb) as [Hs|Hb].
  - rewrite land_small by lia. destruct (Z.eqb_spec 0 hb); [lia|]. symmetry. apply Z.leb_gt; lia.
  - assert (Hx : x = Z.lxor (x - hb) hb) by (rewrite lxor_small by lia; lia).
    assert (Hl : Z.land x hb = hb).
    { rewrite Hx. rewrite Z.lxor_lor by (apply land_small; lia).
      rewrite Z.land_lor_distr_l, land_small by lia. rewrite Z.land_diag, Z.lor_0_l. reflexivity. }
    rewrite Hl, Z.eqb_refl. symmetry. apply Z.leb_le; lia.
Qed.

Lemma flip_clears x : 0 <= x < wm -> hb <= x -> Z.lxor x hb < hb.
Proof.
  intros [H0 H1] Hb. pose proof wm_hb. replace x with (hb + (x - hb)) by lia. rewrite lxor_big; lia.
Qed.

(** differences are preserved *)
Lemma flip_diff x n : 0 <= x < wm -> 0 <= n < wm ->
  (Z.lxor x hb - Z.lxor n hb) mod wm = (x - n) mod wm.
Proof.
  intros Hx Hn. rewrite !flip_add by auto.
  rewrite Zminus_mod_idemp_l, Zminus_mod_idemp_r. f_equal. lia.
Qed.

(** no wrap-around inside the window once the start is below the top bit *)
Lemma off_exact i n k : 0 <= i < wm -> 0 <= n < hb -> (i - n) mod wm = k -> 0 <= k < hb -> i = n + k.
Proof.
  intros Hi Hn Hk Hkr. pose proof wm_hb. pose proof hb_pos.
  assert (Hm : 0 < wm) by lia.
  destruct (Z_lt_ge_dec i n) as [Hlt|Hge].
  - (* i < n: (i - n) mod wm = i - n + wm >= wm - hb = hb, contradiction *)
    exfalso. replace (i - n) with ((i - n + wm) + (-1) * wm) in Hk by lia.
    rewrite Z.mod_add in Hk by lia. rewrite Z.mod_small in Hk; lia.
  - rewrite Z.mod_small in Hk; lia.
Qed.

End W.
