(** * Unbounded: [FuturesUnordered] and [MergeUnbounded] — lists of bounded groups *)
From FB Require Import Base Syntax World SlotMap Fub.

(** [groups]: the Vec of groups; [rem]: held count (FuturesUnordered only);
    [cursor]: [poll_next]; [gcap]: capacity of the Vec (allocation model only) *)
Record fu := { groups : list fub; rem : nat; cursor : nat; gcap : nat }.

Definition fu_empty : fu := {| groups := []; rem := 0; cursor := 0; gcap := 0 |}.

(** amortised growth of a Vec whose elements are small: returns the new capacity and
    whether the allocator was called *)
Definition vec_grow (len cap : nat) : nat * nat :=
  if Nat.ltb len cap then (cap, 0) else (Nat.max 4 (Nat.max (2 * cap) (S len)), 1).

Section WithParams.
Variable P : params.

Definition fu_with_capacity (n : nat) (w : world) : fu * world :=
  if Nat.eqb n 0 then (fu_empty, w)
  else let '(g, w) := fub_new n w in
       ({| groups := [g]; rem := 0; cursor := 0; gcap := 1 |}, count_alloc 1 w).

Definition push_group (u : fu) (g : fub) (w : world) : fu * world :=
  let '(c', a) := vec_grow (length (groups u)) (gcap u) in
  ({| groups := groups u ++ [g]; rem := rem u; cursor := cursor u; gcap := c' |}, count_alloc a w).

(** [push]; [mrg] = this is a MergeUnbounded (no [rem]) *)
Definition fu_push (mrg : bool) (u : fu) (c : child) (w : world) : fu * world :=
  let u := {| groups := groups u; rem := if mrg then rem u else S (rem u); cursor := cursor u; gcap := gcap u |} in
  let '(u, w) :=
    match groups u with
    | [] => let '(g, w) := fub_new (pMinCap P) w in push_group u g w
    | _ => (u, w)
    end in
  match last_opt (groups u) with
  | None => (u, emit EStuck w)
  | Some lastg =>
      match fub_try_push lastg c w with
      | (PushOk g', w) =>
          ({| groups := upd (groups u) (pred (length (groups u))) g'; rem := rem u; cursor := cursor u; gcap := gcap u |}, w)
      | (PushFull, w) =>
          let '(g, w) := fub_new (fub_cap lastg * pGrowth P) w in
          match fub_try_push g c w with
          | (PushOk g', w) => push_group u g' w
          | (_, w) =>
              (* [next.push] would panic on a zero-capacity group: excluded by 1 <= pMinCap, 1 <= pGrowth *)
              (u, emit EStuck w)
          end
      | (PushStuck, w) => (u, w)
      end
  end.

Definition set_groups (u : fu) (gs : list fub) (cur : nat) : fu :=
  {| groups := gs; rem := rem u; cursor := cur; gcap := gcap u |}.

Definition poll_group (mrg : bool) (g : fub) (t : nat) (w : world) : fub * spoll * world :=
  if mrg then mb_poll_next P g t w else fub_poll_next P KFut g t w.

(** the [for _ in 0..groups.len()] loop of [poll_next] *)
Fixpoint fu_loop (mrg : bool) (n : nat) (u : fu) (t : nat) (w : world) : fu * spoll * world :=
  match n with
  | O =>
      (* end of the loop: nothing left at all (every group drained during this call) is
         reported as None, not Pending *)
      if (if mrg then forallb (fun g => Nat.eqb (fub_len g) 0) (groups u) else Nat.eqb (rem u) 0)
      then (u, SNone, w) else (u, SPending, w)
  | S n' =>
      let cur := if Nat.leb (length (groups u)) (cursor u) then 0 else cursor u in
      match nth_error (groups u) cur with
      | None => (u, SPending, emit EStuck w)
      | Some g =>
          let '(g', sp, w) := poll_group mrg g t w in
          match sp with
          | SItem tk c =>
              (* the cursor moves on after a yield *)
              ({| groups := upd (groups u) cur g'; rem := if mrg then rem u else pred (rem u);
                  cursor := S cur; gcap := gcap u |}, SItem tk c, w)
          | SNone =>
              let gs := remove_nth (groups u) cur in
              match gs with
              | [] => (set_groups u [g'] cur, SNone, w)
              | _ =>
                  if Nat.eqb cur (length gs)
                  then fu_loop mrg n' (set_groups u (gs ++ [g']) 0) t w
                  else fu_loop mrg n' (set_groups u gs cur) t (fub_drop g' w)
              end
          | SPending => fu_loop mrg n' (set_groups u (upd (groups u) cur g') (S cur)) t w
          end
      end
  end.

Definition fu_poll_next (mrg : bool) (u : fu) (t : nat) (w : world) : fu * spoll * world :=
  match groups u with
  | [] => (u, SNone, w)
  | _ => fu_loop mrg (length (groups u)) u t w
  end.

Definition fu_from_list (mrg : bool) (hint : nat) (l : list child) (w : world) : fu * world :=
  let '(u, w) := if mrg then (fu_empty, w) else fu_with_capacity (Nat.max hint (pMinCap P)) w in
  fold_left (fun uw c => fu_push mrg (fst uw) c (snd uw)) l (u, w).

End WithParams.

Definition fu_drop (u : fu) (w : world) : world :=
  fold_left (fun w g => fub_drop g w) (groups u) w.

Definition fu_len_sum (u : fu) : nat := fold_left (fun a g => a + fub_len g) (groups u) 0.

Definition fu_capacity (u : fu) : nat :=
  match groups u with
  | [] => 0
  | [only] => fub_cap only
  | _ => match last_opt (groups u) with
         | Some l => rem u + (fub_cap l - fub_len l)
         | None => 0
         end
  end.
