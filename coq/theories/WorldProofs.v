(** * WorldProofs: the invariant of the heap of shared waker blocks

    [winv own cur w]:
    - every block is well-formed: one flag per slot; the ready queue has no duplicates and
      holds exactly the slots whose "already queued" flag is set (except the slot [cur] a pop
      has just dequeued and not yet cleared); the block is released iff its count is zero;
      the registered task waker, if any, is the one of the most recent [register];
    - the reference count of every block equals the number of its owners that are not cloned
      wakers ([own b]: the collection's own handle, or a reference an operation in progress
      holds) plus the number of live cloned waker handles pointing to it;
    - every handle and every owner refers to an existing block;
    - the log contains no [EVtBad] (vtable access to a released block), [EStuck], [EOutOfFuel]. *)
From FB Require Import Base Syntax World Tactics.
Set Implicit Arguments.

Definition cur_t := option (nat * nat).

Definition bad_event (e : event) : bool :=
  match e with EVtBad | EStuck | EOutOfFuel => true | _ => false end.

Record blk_wf (b : nat) (cur : cur_t) (k : block) : Prop := {
  bw_len : length (bflags k) = bcap k;
  bw_nodup : NoDup (bqueue k);
  bw_flag : forall i, nth_error (bflags k) i = Some true <-> (In i (bqueue k) \/ cur = Some (b, i));
  bw_cur : forall i, cur = Some (b, i) -> ~ In i (bqueue k) /\ i < bcap k;
  bw_freed : bfreed k = true <-> bstrong k = 0;
  bw_reg : breg k = None \/ breg k = blast k;
  bw_tw : breg k = None -> blast k = None \/ btw k = true;
}.

Definition is_handle_of (b : nat) (h : option handle) : bool :=
  match h with Some (HChild b' _) => Nat.eqb b b' | _ => false end.

Definition hcount (hs : list (option handle)) (b : nat) : nat := length (filter (is_handle_of b) hs).

Definition add1 (b : nat) (own : nat -> nat) : nat -> nat :=
  fun x => if Nat.eqb x b then S (own x) else own x.

Record winv (own : nat -> nat) (cur : cur_t) (w : world) : Prop := {
  wi_blk : forall b k, get_blk w b = Some k -> blk_wf b cur k;
  wi_rc : forall b k, get_blk w b = Some k -> bstrong k = own b + hcount (handles w) b;
  wi_hvalid : forall h b s, nth_error (handles w) h = Some (Some (HChild b s)) -> b < length (blocks w);
  wi_own : forall b, 0 < own b -> b < length (blocks w);
  wi_log : forall e, In e (log w) -> bad_event e = false;
}.

(** ** hcount *)
Lemma hcount_app hs hs' b : hcount (hs ++ hs') b = hcount hs b + hcount hs' b.
Proof. unfold hcount. rewrite filter_app, app_length; reflexivity. Qed.

Lemma hcount_upd_none hs h x b :
  nth_error hs h = Some (Some x) ->
  hcount (upd hs h None) b + (if is_handle_of b (Some x) then 1 else 0) = hcount hs b.
Proof.
  unfold hcount. revert h; induction hs as [|a t IH]; intros [|h] H; simpl in *; try discriminate.
  - inversion H; subst. destruct x as [t'|b' s']; simpl; [|destruct (Nat.eqb b b')]; simpl; lia.
  - specialize (IH _ H). destruct (is_handle_of b a); simpl; lia.
Qed.

Lemma hcount_pos hs h b s : nth_error hs h = Some (Some (HChild b s)) -> 0 < hcount hs b.
Proof.
  unfold hcount. revert h; induction hs as [|a t IH]; intros [|h] H; simpl in *; try discriminate.
  - inversion H; subst. simpl. rewrite Nat.eqb_refl. simpl; lia.
  - specialize (IH _ H). destruct (is_handle_of b a); simpl; lia.
Qed.

Lemma hcount_zero_all hs b :
  (forall h b' s, nth_error hs h = Some (Some (HChild b' s)) -> b' <> b) -> hcount hs b = 0.
Proof.
  unfold hcount. induction hs as [|a t IH]; intros H; simpl; auto.
  destruct a as [[t'|b' s]|]; simpl.
  - apply IH. intros h; apply (H (S h)).
  - destruct (Nat.eqb_spec b b') as [->|].
    + exfalso. apply (H 0 b' s); reflexivity.
    + apply IH. intros h; apply (H (S h)).
  - apply IH. intros h; apply (H (S h)).
Qed.

(** ** blk_wf under a change of [cur] that does not concern the block *)
Lemma blk_wf_cur_irrel b cur cur' k :
  (forall i, cur = Some (b, i) <-> cur' = Some (b, i)) -> blk_wf b cur k -> blk_wf b cur' k.
Proof.
  intros Hc [H1 H2 H3 H4 H5 H6 H7]. constructor; auto.
  - intros i. rewrite H3. rewrite Hc. reflexivity.
  - intros i Hi. apply H4. apply Hc; auto.
Qed.

(** ** frame: operations that touch neither blocks, handles nor the log *)
Lemma winv_frame own cur w w' :
  blocks w' = blocks w -> handles w' = handles w -> log w' = log w ->
  winv own cur w -> winv own cur w'.
Proof.
  intros Hb Hh Hl [H1 H2 H3 H4 H5]. unfold get_blk in *.
  constructor; unfold get_blk; rewrite ?Hb, ?Hh, ?Hl; auto.
Qed.

Lemma winv_count_alloc own cur n w : winv own cur w -> winv own cur (count_alloc n w).
Proof. apply winv_frame; reflexivity. Qed.
Lemma winv_set_popk own cur n w : winv own cur w -> winv own cur (set_popk n w).
Proof. apply winv_frame; reflexivity. Qed.
Lemma winv_set_regk own cur n w : winv own cur w -> winv own cur (set_regk n w).
Proof. apply winv_frame; reflexivity. Qed.
Lemma winv_set_ghost own cur g w : winv own cur w -> winv own cur (set_ghost g w).
Proof. apply winv_frame; reflexivity. Qed.
Lemma winv_g_poll own cur w : winv own cur w -> winv own cur (g_poll w).
Proof. apply winv_frame; reflexivity. Qed.
Lemma winv_g_enq own cur w : winv own cur w -> winv own cur (g_enq w).
Proof. apply winv_frame; reflexivity. Qed.
Lemma winv_g_push own cur w : winv own cur w -> winv own cur (g_push w).
Proof. apply winv_frame; reflexivity. Qed.
Lemma winv_g_wake own cur w : winv own cur w -> winv own cur (g_wake w).
Proof. apply winv_frame; reflexivity. Qed.
Lemma winv_g_item own cur w : winv own cur w -> winv own cur (g_item w).
Proof. apply winv_frame; reflexivity. Qed.
Lemma winv_g_done own cur w : winv own cur w -> winv own cur (g_done w).
Proof. apply winv_frame; reflexivity. Qed.

Lemma winv_emit own cur e w : bad_event e = false -> winv own cur w -> winv own cur (emit e w).
Proof.
  intros He [H1 H2 H3 H4 H5]. constructor; auto.
  simpl. intros e' [<-|Hin]; auto.
Qed.

Lemma winv_begin_op own cur i w : winv own cur w -> winv own cur (begin_op i w).
Proof. intros [H1 H2 H3 H4 H5]. constructor; auto. simpl. intros e []. Qed.

Lemma winv_own_ext own own' cur w : (forall b, own b = own' b) -> winv own cur w -> winv own' cur w.
Proof.
  intros He [H1 H2 H3 H4 H5]. constructor; auto.
  - intros b k Hk. rewrite <- He. auto.
  - intros b Hb. apply H4. rewrite He; auto.
Qed.

(** ** replacing one block *)
Lemma get_put_blk w b k b' :
  get_blk (put_blk b k w) b' = if Nat.eqb b b' then (if Nat.ltb b (length (blocks w)) then Some k else None) else get_blk w b'.
Proof. unfold get_blk, put_blk; simpl. apply nth_error_upd. Qed.

Lemma get_blk_lt w b k : get_blk w b = Some k -> b < length (blocks w).
Proof. apply nth_error_Some_lt. Qed.

Lemma winv_put_blk own cur cur' w b k k' :
  winv own cur w ->
  get_blk w b = Some k ->
  blk_wf b cur' k' ->
  bstrong k' = bstrong k ->
  (forall b' i, b' <> b -> (cur = Some (b', i) <-> cur' = Some (b', i))) ->
  winv own cur' (put_blk b k' w).
Proof.
  intros [H1 H2 H3 H4 H5] Hk Hwf Hs Hcur.
  pose proof (get_blk_lt _ _ Hk) as Hlt.
  constructor.
  - intros b' k0. rewrite get_put_blk. destruct (Nat.eqb_spec b b') as [<-|Hne].
    + destruct (Nat.ltb_spec b (length (blocks w))); [|lia]. intros E; inversion E; subst; auto.
    + intros Hk0. eapply blk_wf_cur_irrel; [|eauto]. intros i. apply Hcur; auto.
  - intros b' k0. rewrite get_put_blk. destruct (Nat.eqb_spec b b') as [<-|Hne].
    + destruct (Nat.ltb_spec b (length (blocks w))); [|lia]. intros E; inversion E; subst.
      rewrite Hs. apply H2; auto.
    + apply H2.
  - intros h b' s Hh. simpl. rewrite upd_length. eapply H3; eauto.
  - intros b' Hb'. simpl. rewrite upd_length. auto.
  - auto.
Qed.

(** same [cur] *)
Lemma winv_put_blk_same own cur w b k k' :
  winv own cur w -> get_blk w b = Some k -> blk_wf b cur k' -> bstrong k' = bstrong k ->
  winv own cur (put_blk b k' w).
Proof. intros. eapply winv_put_blk; eauto. intros; reflexivity. Qed.

(** ** notify *)
Lemma winv_notify own cur b w : winv own cur w -> winv own cur (notify b w).
Proof.
  intros Hw. unfold notify. destruct (get_blk w b) as [k|] eqn:Hk; auto.
  destruct (breg k) as [t|] eqn:Hr; auto.
  apply winv_emit; [reflexivity|].
  eapply winv_put_blk_same; eauto.
  destruct (wi_blk Hw _ Hk) as [A1 A2 A3 A4 A5 A6 A7].
  constructor; simpl; auto.
Qed.

(** ** enqueue *)
Lemma winv_enqueue own cur b s w : winv own cur w -> winv own cur (snd (enqueue_slot b s w)).
Proof.
  intros Hw. unfold enqueue_slot. destruct (get_blk w b) as [k|] eqn:Hk; auto.
  destruct (nth_error (bflags k) s) as [[|]|] eqn:Hf; auto. simpl.
  apply winv_g_enq. eapply winv_put_blk_same; eauto.
  destruct (wi_blk Hw _ Hk) as [A1 A2 A3 A4 A5 A6 A7].
  assert (Hslt : s < length (bflags k)) by (eapply nth_error_Some_lt; eauto).
  assert (Hnq : ~ In s (bqueue k)).
  { intros Hin. assert (nth_error (bflags k) s = Some true) by (apply A3; auto). congruence. }
  assert (Hnc : cur <> Some (b, s)).
  { intros Hc. assert (nth_error (bflags k) s = Some true) by (apply A3; auto). congruence. }
  constructor; simpl; auto.
  - rewrite upd_length; auto.
  - apply NoDup_app_snoc; auto.
  - intros i. rewrite nth_error_upd. destruct (Nat.eqb_spec s i) as [<-|Hne].
    + destruct (Nat.ltb_spec s (length (bflags k))); [|lia].
      split; auto. intros _. left. apply in_or_app; right; left; reflexivity.
    + rewrite A3. rewrite in_app_iff. simpl. intuition.
  - intros i Hc. destruct (A4 i Hc) as [Hn Hl]. split; auto.
    rewrite in_app_iff; simpl. intros [|[<-|[]]]; auto.
Qed.

Lemma enqueue_fst_true b s w :
  fst (enqueue_slot b s w) = true ->
  exists k, get_blk w b = Some k /\ nth_error (bflags k) s = Some false.
Proof.
  unfold enqueue_slot. destruct (get_blk w b) as [k|]; [|discriminate].
  destruct (nth_error (bflags k) s) as [[|]|] eqn:E; simpl; try discriminate. eauto.
Qed.

(** ** wake_by_ref on a slot *)
Lemma winv_wake_slot own cur b s w :
  winv own cur w -> 0 < own b + hcount (handles w) b -> winv own cur (wake_slot b s w).
Proof.
  intros Hw Hpos. unfold wake_slot.
  assert (Hw' : winv own cur (g_wake w)) by (apply winv_g_wake; auto).
  change (get_blk (g_wake w) b) with (get_blk w b).
  destruct (get_blk w b) as [k|] eqn:Hk.
  - destruct (bfreed k) eqn:Hfr.
    + exfalso. destruct (wi_blk Hw _ Hk) as [A1 A2 A3 A4 A5 A6 A7].
      apply A5 in Hfr. rewrite (wi_rc Hw _ Hk) in Hfr. lia.
    + destruct (enqueue_slot b s (g_wake w)) as [q w1] eqn:He.
      assert (Hw1 : winv own cur w1).
      { replace w1 with (snd (enqueue_slot b s (g_wake w))) by (rewrite He; reflexivity).
        apply winv_enqueue; auto. }
      destruct q; auto. apply winv_notify; auto.
  - exfalso. destruct (Nat.eq_dec (own b) 0) as [Hz|Hnz].
    + assert (hcount (handles w) b = 0).
      { apply hcount_zero_all. intros h b' s' Hh ->. apply (wi_hvalid Hw) in Hh.
        unfold get_blk in Hk. apply nth_error_None in Hk. lia. }
      lia.
    + assert (b < length (blocks w)) by (apply (wi_own Hw); lia).
      unfold get_blk in Hk. apply nth_error_None in Hk. lia.
Qed.

(** ** reference count *)
Lemma own_pos_get own cur w b :
  winv own cur w -> 0 < own b + hcount (handles w) b -> exists k, get_blk w b = Some k /\ bfreed k = false.
Proof.
  intros Hw Hpos. destruct (get_blk w b) as [k|] eqn:Hk.
  - exists k; split; auto. destruct (bfreed k) eqn:Hfr; auto.
    destruct (wi_blk Hw _ Hk) as [A1 A2 A3 A4 A5 A6 A7].
    apply A5 in Hfr. rewrite (wi_rc Hw _ Hk) in Hfr. lia.
  - exfalso. destruct (Nat.eq_dec (own b) 0) as [Hz|Hnz].
    + assert (hcount (handles w) b = 0).
      { apply hcount_zero_all. intros h b' s' Hh ->. apply (wi_hvalid Hw) in Hh.
        unfold get_blk in Hk. apply nth_error_None in Hk. lia. }
      lia.
    + assert (b < length (blocks w)) by (apply (wi_own Hw); lia).
      unfold get_blk in Hk. apply nth_error_None in Hk. lia.
Qed.

Lemma add1_same b own : add1 b own b = S (own b).
Proof. unfold add1. rewrite Nat.eqb_refl; reflexivity. Qed.
Lemma add1_other b own x : x <> b -> add1 b own x = own x.
Proof. unfold add1. intros H. destruct (Nat.eqb_spec x b); congruence. Qed.

Lemma winv_inc_strong own cur b w :
  winv own cur w -> 0 < own b + hcount (handles w) b -> winv (add1 b own) cur (inc_strong b w).
Proof.
  intros Hw Hpos. unfold inc_strong.
  destruct (own_pos_get _ Hw Hpos) as (k & Hk & Hfr). rewrite Hk, Hfr.
  pose proof (get_blk_lt _ _ Hk) as Hlt.
  destruct Hw as [H1 H2 H3 H4 H5]. constructor.
  - intros b' k0. rewrite get_put_blk. destruct (Nat.eqb_spec b b') as [<-|Hne].
    + destruct (Nat.ltb_spec b (length (blocks w))); [|lia]. intros E; inversion E; subst.
      destruct (H1 _ _ Hk) as [A1 A2 A3 A4 A5 A6 A7]. constructor; simpl; auto.
      split; [intros; congruence | intros; discriminate].
    + apply H1.
  - intros b' k0. rewrite get_put_blk. destruct (Nat.eqb_spec b b') as [<-|Hne].
    + destruct (Nat.ltb_spec b (length (blocks w))); [|lia]. intros E; inversion E; subst. simpl.
      rewrite add1_same. rewrite (H2 _ _ Hk). reflexivity.
    + intros Hk0. rewrite add1_other by auto. apply H2; auto.
  - intros h b' s Hh. simpl. rewrite upd_length. eapply H3; eauto.
  - intros b' Hb'. simpl. rewrite upd_length. destruct (Nat.eq_dec b' b) as [->|Hne]; auto.
    rewrite add1_other in Hb' by auto. auto.
  - auto.
Qed.

Lemma winv_dec_strong own cur b w :
  winv (add1 b own) cur w -> winv own cur (dec_strong b w).
Proof.
  intros Hw. unfold dec_strong.
  assert (Hpos : 0 < add1 b own b + hcount (handles w) b) by (rewrite add1_same; lia).
  destruct (own_pos_get _ Hw Hpos) as (k & Hk & Hfr). rewrite Hk, Hfr.
  pose proof (get_blk_lt _ _ Hk) as Hlt.
  pose proof (wi_rc Hw _ Hk) as Hrc. rewrite add1_same in Hrc.
  destruct Hw as [H1 H2 H3 H4 H5].
  assert (Hown : forall b', 0 < own b' -> b' < length (blocks w)).
  { intros b' Hb'. apply H4. unfold add1. destruct (Nat.eqb b' b); lia. }
  destruct (bstrong k) as [|[|n]] eqn:Hs; [lia| |].
  - (* last reference: free *)
    apply winv_emit; [reflexivity|]. constructor.
    + intros b' k0. rewrite get_put_blk. destruct (Nat.eqb_spec b b') as [<-|Hne].
      * destruct (Nat.ltb_spec b (length (blocks w))); [|lia]. intros E; inversion E; subst.
        destruct (H1 _ _ Hk) as [A1 A2 A3 A4 A5 A6 A7]. constructor; simpl; auto. tauto.
      * apply H1.
    + intros b' k0. rewrite get_put_blk. destruct (Nat.eqb_spec b b') as [<-|Hne].
      * destruct (Nat.ltb_spec b (length (blocks w))); [|lia]. intros E; inversion E; subst. simpl. lia.
      * intros Hk0. rewrite <- (@add1_other b own b') by auto. apply H2; auto.
    + intros h b' s Hh. simpl. rewrite upd_length. eapply H3; eauto.
    + intros b' Hb'. simpl. rewrite upd_length. auto.
    + auto.
  - constructor.
    + intros b' k0. rewrite get_put_blk. destruct (Nat.eqb_spec b b') as [<-|Hne].
      * destruct (Nat.ltb_spec b (length (blocks w))); [|lia]. intros E; inversion E; subst.
        destruct (H1 _ _ Hk) as [A1 A2 A3 A4 A5 A6 A7]. constructor; simpl; auto.
        split; [intros; congruence | intros; discriminate].
      * apply H1.
    + intros b' k0. rewrite get_put_blk. destruct (Nat.eqb_spec b b') as [<-|Hne].
      * destruct (Nat.ltb_spec b (length (blocks w))); [|lia]. intros E; inversion E; subst. simpl. lia.
      * intros Hk0. rewrite <- (@add1_other b own b') by auto. apply H2; auto.
    + intros h b' s Hh. simpl. rewrite upd_length. eapply H3; eauto.
    + intros b' Hb'. simpl. rewrite upd_length. auto.
    + auto.
Qed.

(** ** handles *)
Lemma winv_add_handle_child own cur b s w :
  winv (add1 b own) cur w -> winv own cur (add_handle (HChild b s) w).
Proof.
  intros [H1 H2 H3 H4 H5]. constructor; auto.
  - intros b' k Hk. change (get_blk (add_handle (HChild b s) w) b') with (get_blk w b') in Hk.
    rewrite (H2 _ _ Hk). simpl. rewrite hcount_app. unfold add1, hcount at 3. simpl.
    rewrite (Nat.eqb_sym b' b). destruct (Nat.eqb b b'); simpl; lia.
  - intros h b' s' Hh. simpl in *.
    destruct (Nat.lt_ge_cases h (length (handles w))).
    + rewrite nth_error_app1 in Hh by auto. eauto.
    + rewrite nth_error_app2 in Hh by auto.
      destruct (h - length (handles w)) as [|[|]]; simpl in Hh; try discriminate.
      inversion Hh; subst. apply H4. rewrite add1_same; lia.
  - intros b' Hb'. apply H4. unfold add1. destruct (Nat.eqb b' b); lia.
Qed.

Lemma winv_add_handle_task own cur t w :
  winv own cur w -> winv own cur (add_handle (HTask t) w).
Proof.
  intros [H1 H2 H3 H4 H5]. constructor; auto.
  - intros b' k Hk. change (get_blk (add_handle (HTask t) w) b') with (get_blk w b') in Hk.
    rewrite (H2 _ _ Hk). simpl. rewrite hcount_app. unfold hcount at 3. simpl. lia.
  - intros h b' s' Hh. simpl in *.
    destruct (Nat.lt_ge_cases h (length (handles w))).
    + rewrite nth_error_app1 in Hh by auto. eauto.
    + rewrite nth_error_app2 in Hh by auto.
      destruct (h - length (handles w)) as [|[|]]; simpl in Hh; discriminate.
Qed.

Lemma winv_kill_handle_child own cur h b s w :
  winv own cur w -> get_handle w h = Some (HChild b s) -> winv (add1 b own) cur (kill_handle h w).
Proof.
  intros [H1 H2 H3 H4 H5] Hg. unfold get_handle in Hg.
  destruct (nth_error (handles w) h) as [[x|]|] eqn:Hh; try discriminate. inversion Hg; subst.
  constructor; auto.
  - intros b' k Hk. change (get_blk (kill_handle h w) b') with (get_blk w b') in Hk.
    rewrite (H2 _ _ Hk). simpl.
    pose proof (hcount_upd_none _ _ b' Hh) as Hc. simpl in Hc. unfold add1.
    destruct (Nat.eqb b' b); simpl in *; lia.
  - intros h' b' s' Hh'. simpl in *. rewrite nth_error_upd in Hh'.
    destruct (Nat.eqb h h'); [destruct (Nat.ltb h (length (handles w))); discriminate|]. eauto.
  - intros b' Hb'. unfold add1 in Hb'. destruct (Nat.eqb_spec b' b) as [E|]; auto.
    subst b'. eapply H3; eauto.
Qed.

Lemma winv_kill_handle_task own cur h t w :
  winv own cur w -> get_handle w h = Some (HTask t) -> winv own cur (kill_handle h w).
Proof.
  intros [H1 H2 H3 H4 H5] Hg. unfold get_handle in Hg.
  destruct (nth_error (handles w) h) as [[x|]|] eqn:Hh; try discriminate. inversion Hg; subst.
  constructor; auto.
  - intros b' k Hk. change (get_blk (kill_handle h w) b') with (get_blk w b') in Hk.
    rewrite (H2 _ _ Hk). simpl.
    pose proof (hcount_upd_none _ _ b' Hh) as Hc. simpl in Hc. lia.
  - intros h' b' s' Hh'. simpl in *. rewrite nth_error_upd in Hh'.
    destruct (Nat.eqb h h'); [destruct (Nat.ltb h (length (handles w))); discriminate|]. eauto.
Qed.

Lemma get_handle_pos w h b s : get_handle w h = Some (HChild b s) -> 0 < hcount (handles w) b.
Proof.
  unfold get_handle. destruct (nth_error (handles w) h) as [[x|]|] eqn:Hh; try discriminate.
  intros E; inversion E; subst. eapply hcount_pos; eauto.
Qed.

(** ** one environment / child action *)
Definition cw_ok (own : nat -> nat) (cw : option handle) : Prop :=
  match cw with Some (HChild b _) => 0 < own b | _ => True end.

Lemma winv_wake_ref_handle own cur x w :
  winv own cur w ->
  match x with HChild b _ => 0 < own b + hcount (handles w) b | HTask _ => True end ->
  winv own cur (wake_ref_handle x w).
Proof.
  intros Hw Hx. destruct x as [t|b s]; simpl.
  - apply winv_emit; auto.
  - apply winv_wake_slot; auto.
Qed.

Lemma winv_do_act own cur cw a w :
  winv own cur w -> cw_ok own cw -> winv own cur (do_act cw a w).
Proof.
  intros Hw Hcw. destruct a as [| |h|h|h|h]; simpl.
  - (* ASelf *)
    destruct cw as [x|]; auto. apply winv_wake_ref_handle; auto.
    destruct x; simpl in *; auto; lia.
  - (* ACloneSelf *)
    destruct cw as [[t|b s]|]; auto; simpl.
    + apply winv_add_handle_task; auto.
    + apply winv_add_handle_child. apply winv_inc_strong; auto. simpl in Hcw; lia.
  - (* AWakeRef *)
    destruct (get_handle w h) as [x|] eqn:Hg; auto.
    apply winv_wake_ref_handle; auto. destruct x; auto.
    pose proof (get_handle_pos _ _ Hg). lia.
  - (* AWake *)
    destruct (get_handle w h) as [[t|b s]|] eqn:Hg; auto; simpl.
    + apply winv_emit; auto. eapply winv_kill_handle_task; eauto.
    + apply winv_dec_strong. apply winv_wake_slot.
      * eapply winv_kill_handle_child; eauto.
      * rewrite add1_same; lia.
  - (* ADrop *)
    destruct (get_handle w h) as [[t|b s]|] eqn:Hg; auto; simpl.
    + eapply winv_kill_handle_task; eauto.
    + apply winv_dec_strong. eapply winv_kill_handle_child; eauto.
  - (* AClone *)
    destruct (get_handle w h) as [[t|b s]|] eqn:Hg; auto; simpl.
    + apply winv_add_handle_task; auto.
    + apply winv_add_handle_child. apply winv_inc_strong; auto.
      pose proof (get_handle_pos _ _ Hg). lia.
Qed.

Lemma winv_do_acts own cur cw l w :
  winv own cur w -> cw_ok own cw -> winv own cur (do_acts cw l w).
Proof.
  unfold do_acts. revert w; induction l as [|a l IH]; simpl; intros w Hw Hcw; auto.
  apply IH; auto. apply winv_do_act; auto.
Qed.

Lemma winv_run_inj own cur p k sl w : winv own cur w -> winv own cur (run_inj p k sl w).
Proof.
  intros Hw. unfold run_inj. destruct (find_inj p k (inj_pts (winj w))) eqn:Hf; auto.
  rewrite <- Hf. apply winv_do_acts; [|exact I]. apply winv_emit; auto.
Qed.

(** ** cleanup *)
Lemma winv_cleanup_from own cur n h w : winv own cur w -> winv own cur (cleanup_from n h w).
Proof.
  revert h w; induction n as [|n IH]; intros h w Hw; auto.
  cbn [cleanup_from]. apply IH. apply winv_do_act; auto. exact I.
Qed.

Lemma winv_cleanup own cur w : winv own cur w -> winv own cur (cleanup w).
Proof. apply winv_cleanup_from. Qed.

(** ** a new block *)
Lemma winv_alloc_block own cur cap w :
  winv own cur w ->
  (forall i, cur <> Some (length (blocks w), i)) ->
  winv (add1 (length (blocks w)) own) cur (snd (alloc_block cap w))
  /\ fst (alloc_block cap w) = length (blocks w).
Proof.
  intros [H1 H2 H3 H4 H5] Hcur. split; [|reflexivity]. unfold alloc_block. simpl.
  set (b := length (blocks w)).
  assert (Hownb : own b = 0).
  { destruct (own b) eqn:E; auto. assert (b < length (blocks w)) by (apply H4; lia). unfold b in *; lia. }
  assert (Hhb : hcount (handles w) b = 0).
  { apply hcount_zero_all. intros h b' s Hh ->. apply H3 in Hh. unfold b in *; lia. }
  constructor; simpl.
  - intros b' k. unfold get_blk; simpl. intros Hk.
    destruct (Nat.lt_ge_cases b' (length (blocks w))).
    + rewrite nth_error_app1 in Hk by auto. eapply H1; eauto.
    + rewrite nth_error_app2 in Hk by auto.
      destruct (b' - length (blocks w)) as [|[|]] eqn:E; simpl in Hk; try discriminate.
      inversion Hk; subst. assert (b' = b) by (unfold b; lia). subst b'.
      constructor; simpl.
      * apply repeat_length.
      * constructor.
      * intros i. split.
        -- intros Hn. exfalso. destruct (Nat.lt_ge_cases i cap).
           ++ rewrite nth_error_repeat in Hn by auto. discriminate.
           ++ assert (nth_error (repeat false cap) i = None) by (apply nth_error_None; rewrite repeat_length; auto).
              congruence.
        -- intros [[]|Hc]. exfalso; eapply Hcur; eauto.
      * intros i Hc. exfalso; eapply Hcur; eauto.
      * split; intros; discriminate.
      * auto.
      * auto.
  - intros b' k. unfold get_blk; simpl. intros Hk.
    destruct (Nat.lt_ge_cases b' (length (blocks w))).
    + rewrite nth_error_app1 in Hk by auto. rewrite add1_other by (unfold b; lia). eapply H2; eauto.
    + rewrite nth_error_app2 in Hk by auto.
      destruct (b' - length (blocks w)) as [|[|]] eqn:E; simpl in Hk; try discriminate.
      inversion Hk; subst. assert (b' = b) by (unfold b; lia). subst b'.
      simpl. rewrite add1_same. lia.
  - intros h b' s Hh. rewrite app_length; simpl. apply H3 in Hh. lia.
  - intros b' Hb'. rewrite app_length; simpl. unfold add1 in Hb'.
    destruct (Nat.eqb_spec b' b); [unfold b in *; lia|]. apply H4 in Hb'. lia.
  - intros e [<-|Hin]; auto.
Qed.
