(** * QuietOrdered: no busy-spinning for the ordered queues and the buffered adapters (C14)

    The quiet-poll theorems of QuietProofs.v (one group) and QuietGroups.v (the group loop)
    lifted through the layers above them.  "Quiet": every held child answers Pending without
    waking anything, nobody invokes a child waker (no injection), no parked output is due for
    release, and (adapters) the upstream answers Pending without waking anything.  Then a poll
    of FuturesOrderedBounded / FuturesOrdered / buffered_* / try_buffered_* returns Pending (or
    None when nothing is held) and invokes a task waker only where the layer below does. *)
From FB Require Import Base Syntax World SlotMap Fub Unbounded Ordered Adapters Tactics SlotMapProofs WorldProofs
  FubProofs UnboundedProofs QuietProofs GroupWake CrossGroup QuietGroups.

Section WithParams.
Variable P : params.

(** re-basing rewrites indices only: scripts, blocks and counts stay *)
Lemma quiet_map_flip k m : quiet_map k m -> quiet_map k (sm_map_children (flip_child P) m).
Proof.
  intros H i c Hg. rewrite sm_get_map_children in Hg.
  destruct (sm_get m i) as [c0|] eqn:E; [|discriminate]. inversion Hg; subst. simpl. exact (H i c0 E).
Qed.

Lemma fob_rebase_quiet k q :
  quiet_map k (tasks (fo_inner q)) ->
  quiet_map k (tasks (fo_inner (fob_rebase P q))) /\ blk (fo_inner (fob_rebase P q)) = blk (fo_inner q)
  /\ fub_len (fo_inner (fob_rebase P q)) = fub_len (fo_inner q).
Proof.
  unfold fob_rebase. destruct (msb_set P (nout (fo_ord q))); simpl; auto.
  intros H. splits; auto. apply quiet_map_flip; auto.
Qed.

(** *** FuturesOrderedBounded (and the queue of the ordered adapters) *)
Theorem fob_poll_quiet k q t w kb :
  quiet_map k (tasks (fo_inner q)) -> noinj w -> get_blk w (blk (fo_inner q)) = Some kb ->
  fub_len (fo_inner q) <> 0 ->
  ord_try_release P (fo_ord (fob_rebase P q)) = None ->
  let '(q', sp, w') := fob_poll_next P k q t w in
  sp = SPending /\ quiet_map k (tasks (fo_inner q')) /\ noinj w' /\ blk (fo_inner q') = blk (fo_inner q)
  /\ (exists kb', get_blk w' (blk (fo_inner q)) = Some kb' /\ bqueue kb' = skipn (pB P) (bqueue kb))
  /\ twakes (log w') = twakes (log w) + (if Nat.ltb (length (bqueue kb)) (pB P) then 0 else 1).
Proof.
  intros Hq Hn Hk Hlen Hrel. unfold fob_poll_next. rewrite Hrel.
  destruct (fob_rebase_quiet k q Hq) as (Hq1 & Hb1 & Hl1).
  set (q1 := fob_rebase P q) in *. cbn [fob_loop].
  assert (Hk1 : get_blk w (blk (fo_inner q1)) = Some kb) by (rewrite Hb1; exact Hk).
  assert (Hlen1 : fub_len (fo_inner q1) <> 0) by (rewrite Hl1; exact Hlen).
  pose proof (@poll_quiet P k (fo_inner q1) t w kb Hq1 Hn Hk1 Hlen1) as H.
  unfold fub_poll_next, poll_inner.
  destruct (poll_inner_no_remove P k (fo_inner q1) t w) as [[f' pr] w'].
  destruct H as (-> & B & C & D & E & F & _). cbn [fo_inner]. rewrite Hb1 in *. splits; auto.
Qed.

(** *** FuturesOrdered: the quiet poll of the inner FuturesUnordered *)
Lemma fo_rebase_QL m w q :
  Forall (QL false m w) (groups (fu_inner q)) -> Forall (QL false m w) (groups (fu_inner (fo_rebase P q))).
Proof.
  unfold fo_rebase. destruct (msb_set P (nout (fu_ord q))); auto.
  intros H. cbn [fu_inner groups]. rewrite Forall_map. eapply Forall_impl; [|exact H].
  intros g (A & B & C). split; [apply quiet_map_flip; exact A|]. split; [exact B|exact C].
Qed.

Theorem fo_poll_quiet q t w m :
  NoDup (blks (groups (fu_inner q))) -> noinj w -> Forall (QL false m w) (groups (fu_inner q)) ->
  ord_try_release P (fu_ord (fo_rebase P q)) = None ->
  let '(q', sp, w') := fo_poll_next P q t w in
  (forall tk c, sp <> SItem tk c) /\ noinj w' /\ NoDup (blks (groups (fu_inner q')))
  /\ Forall (QL false (m - pB P) w') (groups (fu_inner q'))
  /\ twakes (log w') <= twakes (log w) + (if Nat.ltb m (pB P) then 0 else length (groups (fu_inner q))).
Proof.
  intros Hnd Hn Hall Hrel. unfold fo_poll_next. rewrite Hrel.
  pose proof (fo_rebase_QL m w q Hall) as Hall1.
  assert (Hb : blks (groups (fu_inner (fo_rebase P q))) = blks (groups (fu_inner q))).
  { unfold fo_rebase. destruct (msb_set P (nout (fu_ord q))); auto. cbn [fu_inner groups]. unfold blks. rewrite map_map. reflexivity. }
  assert (Hlen : length (groups (fu_inner (fo_rebase P q))) = length (groups (fu_inner q))).
  { unfold fo_rebase. destruct (msb_set P (nout (fu_ord q))); auto. cbn [fu_inner groups]. apply map_length. }
  set (q1 := fo_rebase P q) in *. cbn [fo_loop].
  assert (Hnd1 : NoDup (blks (groups (fu_inner q1)))) by (rewrite Hb; exact Hnd).
  pose proof (@fu_poll_quiet P false (fu_inner q1) t w m Hnd1 Hn Hall1) as H.
  destruct (fu_poll_next P false (fu_inner q1) t w) as [[u sp] w'].
  destruct H as (A & B & C & D & E). rewrite Hlen in E.
  destruct sp as [| |tk c]; cbn [fu_inner]; splits; auto; try discriminate.
  exfalso. exact (A tk c eq_refl).
Qed.

(** *** the four buffered adapters: an upstream that answers Pending without waking anything *)
Definition up_quiet (ou : option upstream) : Prop :=
  match ou with Some u => us_ended u = false /\ us_steps u = [] | None => True end.

Lemma fill_quiet n a t w :
  up_quiet (ad_up a) ->
  let '(a', e, w') := fill P n a t w in
  a' = a /\ e = None /\ noinj w = noinj w' /\ blocks w' = blocks w /\ winj w' = winj w
  /\ twakes (log w') = twakes (log w).
Proof.
  intros Hu. destruct n as [|n]; cbn [fill]; [splits; auto|].
  destruct (Nat.ltb (q_len (ad_q a)) (q_cap (ad_q a))); [|splits; auto].
  destruct (ad_up a) as [u|] eqn:E; [|splits; auto].
  destruct Hu as [He Hs]. unfold up_poll. rewrite He, Hs.
  splits; auto. destruct a; simpl in *; subst; reflexivity.
Qed.

Theorem adapter_poll_quiet a t w f kb :
  ad_q a = QU f -> up_quiet (ad_up a) ->
  quiet_map (ad_kind a) (tasks f) -> noinj w -> get_blk w (blk f) = Some kb -> fub_len f <> 0 ->
  let '(a', r, w') := adapter_poll P a t w in
  r = RetPending
  /\ twakes (log w') = twakes (log w) + (if Nat.ltb (length (bqueue kb)) (pB P) then 0 else 1).
Proof.
  intros Hq Hu Hqm Hn Hk Hlen. unfold adapter_poll.
  pose proof (fill_quiet (S (q_cap (ad_q a))) a t w Hu) as Hf.
  destruct (fill P (S (q_cap (ad_q a))) a t w) as [[a1 e] w1].
  destruct Hf as (-> & -> & _ & Hb & Hi & Ht). rewrite Hq. unfold q_poll.
  assert (Hn1 : noinj w1) by (unfold noinj in *; congruence).
  assert (Hk1 : get_blk w1 (blk f) = Some kb) by (unfold get_blk in *; rewrite Hb; exact Hk).
  pose proof (@poll_quiet P (ad_kind a) f t w1 kb Hqm Hn1 Hk1 Hlen) as H.
  unfold fub_poll_next, poll_inner.
  destruct (poll_inner_no_remove P (ad_kind a) f t w1) as [[f' pr] w'].
  destruct H as (-> & _ & _ & _ & _ & F & _). split; auto. rewrite F, Ht. reflexivity.
Qed.

Theorem adapter_ordered_poll_quiet a t w o kb :
  ad_q a = QO o -> up_quiet (ad_up a) ->
  quiet_map (ad_kind a) (tasks (fo_inner o)) -> noinj w -> get_blk w (blk (fo_inner o)) = Some kb ->
  fub_len (fo_inner o) <> 0 -> ord_try_release P (fo_ord (fob_rebase P o)) = None ->
  let '(a', r, w') := adapter_poll P a t w in
  r = RetPending
  /\ twakes (log w') = twakes (log w) + (if Nat.ltb (length (bqueue kb)) (pB P) then 0 else 1).
Proof.
  intros Hq Hu Hqm Hn Hk Hlen Hrel. unfold adapter_poll.
  pose proof (fill_quiet (S (q_cap (ad_q a))) a t w Hu) as Hf.
  destruct (fill P (S (q_cap (ad_q a))) a t w) as [[a1 e] w1].
  destruct Hf as (-> & -> & _ & Hb & Hi & Ht). rewrite Hq. unfold q_poll.
  assert (Hn1 : noinj w1) by (unfold noinj in *; congruence).
  assert (Hk1 : get_blk w1 (blk (fo_inner o)) = Some kb) by (unfold get_blk in *; rewrite Hb; exact Hk).
  pose proof (@fob_poll_quiet (ad_kind a) o t w1 kb Hqm Hn1 Hk1 Hlen Hrel) as H.
  destruct (fob_poll_next P (ad_kind a) o t w1) as [[o' sp] w'].
  destruct H as (-> & _ & _ & _ & _ & F). split; auto. rewrite F, Ht. reflexivity.
Qed.

(** *** for_each_concurrent *)
Theorem fec_poll_quiet a t w kb :
  up_quiet (fe_up a) ->
  quiet_map KFut (tasks (fe_q a)) -> noinj w -> get_blk w (blk (fe_q a)) = Some kb -> fub_len (fe_q a) <> 0 ->
  let '(a', r, w') := fec_poll P a t w in
  r = RetPending
  /\ twakes (log w') = twakes (log w) + (if Nat.ltb (length (bqueue kb)) (pB P) then 0 else 1).
Proof.
  intros Hu Hqm Hn Hk Hlen. unfold fec_poll.
  assert (Hfuel : exists n, fec_fuel a = S n).
  { unfold fec_fuel. destruct (fe_up a); [exists (2 * length (us_steps u) + fub_len (fe_q a) + 1)|exists (fub_len (fe_q a) + 1)]; lia. }
  destruct Hfuel as [n ->]. cbn [fec_loop].
  assert (Hpull : (if Nat.ltb (fub_len (fe_q a)) (fub_cap (fe_q a)) then
            match fe_up a with
            | Some u =>
                let '(u, r, w) := up_poll false u t w in
                match r with
                | UPItem c =>
                    match fub_try_push (fe_q a) c w with
                    | (PushOk f, w) => ({| fe_up := Some u; fe_q := f |}, true, w)
                    | (_, w) => ({| fe_up := Some u; fe_q := fe_q a |}, true, emit EStuck w)
                    end
                | UPEnd => ({| fe_up := None; fe_q := fe_q a |}, false, emit EUpDrop w)
                | _ => ({| fe_up := Some u; fe_q := fe_q a |}, false, w)
                end
            | None => (a, false, w)
            end
          else (a, false, w))
          = (a, false, w) \/ exists w1, (if Nat.ltb (fub_len (fe_q a)) (fub_cap (fe_q a)) then
            match fe_up a with
            | Some u =>
                let '(u, r, w) := up_poll false u t w in
                match r with
                | UPItem c =>
                    match fub_try_push (fe_q a) c w with
                    | (PushOk f, w) => ({| fe_up := Some u; fe_q := f |}, true, w)
                    | (_, w) => ({| fe_up := Some u; fe_q := fe_q a |}, true, emit EStuck w)
                    end
                | UPEnd => ({| fe_up := None; fe_q := fe_q a |}, false, emit EUpDrop w)
                | _ => ({| fe_up := Some u; fe_q := fe_q a |}, false, w)
                end
            | None => (a, false, w)
            end
          else (a, false, w)) = (a, false, w1) /\ blocks w1 = blocks w /\ winj w1 = winj w /\ twakes (log w1) = twakes (log w)).
  { destruct (Nat.ltb (fub_len (fe_q a)) (fub_cap (fe_q a))); [|left; reflexivity].
    destruct (fe_up a) as [u|] eqn:E; [|left; reflexivity].
    destruct Hu as [He Hs]. unfold up_poll. rewrite He, Hs. right.
    exists (emit (EUpPoll UAPend) w). splits; auto. destruct a; simpl in *; subst; reflexivity. }
  assert (Hgen : forall w1, blocks w1 = blocks w -> winj w1 = winj w -> twakes (log w1) = twakes (log w) ->
            let '(f, sp, w2) := fub_poll_next P KFut (fe_q a) t w1 in
            sp = SPending /\ twakes (log w2) = twakes (log w) + (if Nat.ltb (length (bqueue kb)) (pB P) then 0 else 1)).
  { intros w1 Hb Hi Ht.
    assert (Hn1 : noinj w1) by (unfold noinj in *; congruence).
    assert (Hk1 : get_blk w1 (blk (fe_q a)) = Some kb) by (unfold get_blk in *; rewrite Hb; exact Hk).
    pose proof (@poll_quiet P KFut (fe_q a) t w1 kb Hqm Hn1 Hk1 Hlen) as H.
    unfold fub_poll_next, poll_inner.
    destruct (poll_inner_no_remove P KFut (fe_q a) t w1) as [[f' pr] w'].
    destruct H as (-> & _ & _ & _ & _ & F & _). split; auto. rewrite F, Ht. reflexivity. }
  destruct Hpull as [-> | (w1 & -> & Hb & Hi & Ht)].
  - specialize (Hgen w eq_refl eq_refl eq_refl).
    destruct (fub_poll_next P KFut (fe_q a) t w) as [[f sp] w2]. destruct Hgen as [-> Ht2]. split; auto.
  - specialize (Hgen w1 Hb Hi Ht).
    destruct (fub_poll_next P KFut (fe_q a) t w1) as [[f sp] w2]. destruct Hgen as [-> Ht2]. split; auto.
Qed.

End WithParams.
