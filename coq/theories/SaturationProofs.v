(** * SaturationProofs: the buffered adapters are work-conserving (C09, second half)

    Whenever a poll of buffered_unordered / buffered_ordered / try_buffered_* returns Pending:
    n pulled items are still unfinished or undelivered, or upstream has ended, or the upstream
    was polled during this call and its last answer was Pending. *)
From FB Require Import Base Syntax World SlotMap Fub Unbounded Ordered Adapters Tactics
  SlotMapProofs WorldProofs FubProofs UnboundedProofs OrderedProofs AdaptersProofs.
Set Implicit Arguments.

(** the most recent upstream answer in the (newest-first) log of the current operation *)
Fixpoint last_up (l : list event) : option upans :=
  match l with
  | [] => None
  | EUpPoll a :: _ => Some a
  | _ :: t => last_up t
  end.

Definition lu (w : world) : option upans := last_up (log w).

(** nothing but [up_poll] emits an upstream event *)
Lemma lu_notify b w : lu (notify b w) = lu w.
Proof. unfold notify. destruct (get_blk w b) as [k|]; auto. destruct (breg k); auto. Qed.
Lemma lu_enqueue b s w : lu (snd (enqueue_slot b s w)) = lu w.
Proof. unfold enqueue_slot. destruct (get_blk w b) as [k|]; auto. destruct (nth_error (bflags k) s) as [[|]|]; auto. Qed.
Lemma lu_wake_slot b s w : lu (wake_slot b s w) = lu w.
Proof.
  unfold wake_slot. change (get_blk (g_wake w) b) with (get_blk w b).
  destruct (get_blk w b) as [k|]; auto. destruct (bfreed k); auto.
  pose proof (lu_enqueue b s (g_wake w)) as H. destruct (enqueue_slot b s (g_wake w)) as [q w1]. simpl in H.
  destruct q; auto. rewrite lu_notify. auto.
Qed.
Lemma lu_dec_strong b w : lu (dec_strong b w) = lu w.
Proof. unfold dec_strong. destruct (get_blk w b) as [k|]; auto. destruct (bfreed k); auto. destruct (bstrong k) as [|[|n]]; auto. Qed.
Lemma lu_inc_strong b w : lu (inc_strong b w) = lu w.
Proof. unfold inc_strong. destruct (get_blk w b) as [k|]; auto. destruct (bfreed k); auto. Qed.
Lemma lu_do_act cw a w : lu (do_act cw a w) = lu w.
Proof.
  destruct a; simpl.
  - destruct cw as [[t|b s]|]; simpl; auto. apply lu_wake_slot.
  - destruct cw as [[t|b s]|]; simpl; auto. apply lu_inc_strong.
  - destruct (get_handle w h) as [[t|b s]|]; simpl; auto. apply lu_wake_slot.
  - destruct (get_handle w h) as [[t|b s]|]; simpl; auto. rewrite lu_dec_strong, lu_wake_slot. reflexivity.
  - destruct (get_handle w h) as [[t|b s]|]; simpl; auto. rewrite lu_dec_strong. reflexivity.
  - destruct (get_handle w h) as [[t|b s]|]; simpl; auto. apply lu_inc_strong.
Qed.
Lemma lu_do_acts cw l w : lu (do_acts cw l w) = lu w.
Proof. unfold do_acts. revert w; induction l as [|a l IH]; simpl; intros w; auto. rewrite IH. apply lu_do_act. Qed.
Lemma lu_run_inj p k sl w : lu (run_inj p k sl w) = lu w.
Proof. unfold run_inj. destruct (find_inj p k (inj_pts (winj w))); auto. rewrite lu_do_acts. reflexivity. Qed.
Lemma lu_clear_flag b i w : lu (clear_flag b i w) = lu w.
Proof. unfold clear_flag. destruct (get_blk w b); auto. Qed.
Lemma lu_pop b w : lu (snd (pop b w)) = lu w.
Proof.
  unfold pop. destruct (forced_inc (S (popk w)) (set_popk (S (popk w)) w)); simpl.
  - rewrite lu_run_inj. reflexivity.
  - change (get_blk (set_popk (S (popk w)) w) b) with (get_blk w b).
    destruct (get_blk w b) as [kb|]; simpl; auto.
    destruct (bqueue kb) as [|i q]; simpl.
    + rewrite lu_run_inj. reflexivity.
    + rewrite lu_run_inj, lu_clear_flag, lu_run_inj. reflexivity.
Qed.
Lemma lu_self_wake b t w : lu (self_wake b t w) = lu w.
Proof. unfold self_wake. destruct (get_blk w b); reflexivity. Qed.
Lemma lu_register b t w : lu (register b t w) = lu w.
Proof. unfold register. rewrite lu_run_inj. destruct (get_blk w b); reflexivity. Qed.
Lemma lu_poll_child k c b s w : lu (snd (poll_child k c b s w)) = lu w.
Proof.
  unfold poll_child. destruct (cdone c); [reflexivity|].
  destruct (cscript c) as [|[acts r0] rest]; [reflexivity|].
  cbn [snd]. unfold lu at 1. cbn [emit log last_up].
  fold (lu (do_acts (Some (HChild b s)) acts (emit (ECPoll (cid c) b s (b, s)) (g_poll w)))).
  rewrite lu_do_acts. reflexivity.
Qed.
Lemma lu_drain k n f t w : lu (snd (drain k n f t w)) = lu w.
Proof.
  revert f w; induction n as [|n IH]; intros f w; cbn [drain].
  - cbn [snd]. apply lu_self_wake.
  - pose proof (lu_pop (blk f) w) as Hp. destruct (pop (blk f) w) as [pr w1]. cbn [snd] in Hp.
    destruct pr as [| |i]; cbn [snd]; auto.
    + rewrite lu_self_wake. auto.
    + destruct (sm_get (tasks f) i) as [c|].
      * pose proof (lu_poll_child k c (blk f) i w1) as Hc.
        destruct (poll_child k c (blk f) i w1) as [[c' r] w2]. cbn [snd] in Hc.
        destruct (is_ready r); cbn [snd]; [congruence|]. rewrite IH. congruence.
      * rewrite IH. auto.
Qed.
Lemma lu_fub_remove f i w : lu (snd (fub_remove f i w)) = lu w.
Proof. unfold fub_remove. destruct (sm_get (tasks f) i); reflexivity. Qed.
Lemma lu_fub_try_push f c w : lu (snd (fub_try_push f c w)) = lu w.
Proof. unfold fub_try_push. destruct (sm_insert (tasks f) c); simpl; auto. rewrite lu_enqueue. reflexivity. Qed.

Section WithParams.
Variable P : params.

Lemma lu_fub_poll_next k f t w : lu (snd (fub_poll_next P k f t w)) = lu w.
Proof.
  unfold fub_poll_next, poll_inner, poll_inner_no_remove.
  destruct (Nat.eqb (fub_len f) 0); auto.
  pose proof (lu_drain k (pB P) f t (register (blk f) t w)) as H. rewrite lu_register in H.
  destruct (drain k (pB P) f t (register (blk f) t w)) as [[f1 pr] w1]. cbn [snd] in H.
  destruct pr; cbn [snd]; auto.
  pose proof (lu_fub_remove f1 i w1) as Hr. destruct (fub_remove f1 i w1). cbn [snd] in *. congruence.
Qed.

Lemma lu_ord_park o i t w : lu (snd (ord_park o i t w)) = lu w.
Proof. unfold ord_park. destruct (vec_grow _ _). reflexivity. Qed.

Lemma lu_fob_loop k n q t w : lu (snd (fob_loop P k n q t w)) = lu w.
Proof.
  revert q w; induction n as [|n IH]; intros q w; cbn [fob_loop]; auto.
  pose proof (lu_fub_poll_next k (fo_inner q) t w) as Hp.
  destruct (fub_poll_next P k (fo_inner q) t w) as [[f sp] w1]. cbn [snd] in Hp.
  destruct sp; cbn [snd fo_ord fo_inner]; auto.
  destruct (Z.eqb _ _); cbn [snd]; auto.
  pose proof (lu_ord_park (fo_ord q) (cidx c) t0 w1) as Ho.
  destruct (ord_park (fo_ord q) (cidx c) t0 w1) as [o w2]. cbn [snd] in Ho. rewrite IH. congruence.
Qed.

Lemma lu_fob_poll_next k q t w : lu (snd (fob_poll_next P k q t w)) = lu w.
Proof.
  unfold fob_poll_next. destruct (ord_try_release P (fo_ord (fob_rebase P q))) as [[tk o]|]; auto.
  apply lu_fob_loop.
Qed.

Lemma lu_q_poll k q t w : lu (snd (q_poll P k q t w)) = lu w.
Proof.
  destruct q as [f|o]; simpl.
  - pose proof (lu_fub_poll_next k f t w) as H. destruct (fub_poll_next P k f t w) as [[? ?] ?]. auto.
  - pose proof (lu_fob_poll_next k o t w) as H. destruct (fob_poll_next P k o t w) as [[? ?] ?]. auto.
Qed.

Hypothesis HP : params_ok P.

(** how the fill loop is left *)
Lemma fill_exit own n a t w :
  winv own None w -> q_ok own (ad_q a) -> q_len (ad_q a) <= q_cap (ad_q a) ->
  q_cap (ad_q a) - q_len (ad_q a) < n -> up_live (ad_up a) ->
  let '(a', e, w') := fill P n a t w in
  match e with
  | Some _ => True
  | None => q_cap (ad_q a') <= q_len (ad_q a') \/ ad_up a' = None \/ lu w' = Some UAPend
  end.
Proof.
  revert a w. induction n as [|n IH]; intros a w Hw Hok Hle Hfuel Hul; [lia|]. cbn [fill].
  destruct (Nat.ltb_spec (q_len (ad_q a)) (q_cap (ad_q a))) as [Hlt|Hge]; [|left; lia].
  destruct (ad_up a) as [u|] eqn:Hu; [|right; left; auto]. simpl in Hul.
  pose proof (@winv_up_poll own None (ad_try a) u t w Hul Hw) as Hup.
  pose proof (@up_poll_fused (ad_try a) u t w Hul) as Hfu.
  assert (Hlast : match snd (fst (up_poll (ad_try a) u t w)) with
                  | UPPend => lu (snd (up_poll (ad_try a) u t w)) = Some UAPend
                  | _ => True end).
  { unfold up_poll. rewrite Hul. destruct (us_steps u) as [|[s|acts| |] rest]; cbn [fst snd]; auto.
    - rewrite lu_do_acts. reflexivity.
    - destruct (ad_try a); cbn [fst snd]; auto. }
  destruct (up_poll (ad_try a) u t w) as [[u' r] w1]. simpl in Hup, Hlast.
  destruct r as [c| | |e]; simpl; auto.
  pose proof (@q_push_spec P own (ad_q a) c w1 Hup Hok Hlt) as H.
  destruct (q_push P (ad_q a) c w1) as [q' w2]. destruct H as (A & B & C & D & E).
  apply IH; simpl; auto; lia.
Qed.

(** C09: a Pending result means saturated, or upstream gone, or upstream just answered Pending *)
Theorem adapter_pending_is_work_conserving own a t w :
  winv own None w -> ad_ok own a ->
  let '(a', r, w') := adapter_poll P a t w in
  r = RetPending ->
  q_cap (ad_q a') <= q_len (ad_q a') \/ ad_up a' = None \/ last_up (log w') = Some UAPend.
Proof.
  intros Hw (Hok & Hle & Hul). unfold adapter_poll.
  pose proof (@fill_exit own (S (q_cap (ad_q a))) a t w Hw Hok Hle ltac:(lia) Hul) as Hf.
  pose proof (@fill_spec P own (S (q_cap (ad_q a))) a t w Hw Hok Hle ltac:(lia) Hul) as Hs.
  destruct (fill P (S (q_cap (ad_q a))) a t w) as [[a1 e] w1].
  destruct Hs as (A & B & C & D & E & F & G & U).
  destruct e as [tk|]; [discriminate|].
  pose proof (lu_q_poll (ad_kind a1) (ad_q a1) t w1) as Hl.
  pose proof (@q_poll_spec P own (ad_kind a1) (ad_q a1) t w1 A B) as Hq.
  destruct (q_poll P (ad_kind a1) (ad_q a1) t w1) as [[q sp] w2]. cbn [snd] in Hl.
  destruct Hq as (A2 & B2 & C2 & D2 & F2).
  destruct sp; simpl.
  - intros _. destruct F2 as [_ F2]. rewrite D2, F2. unfold lu in *. rewrite Hl. exact Hf.
  - destruct (ad_up a1) eqn:Hu1; [|discriminate]. intros _. destruct F2 as [_ F2].
    simpl. rewrite D2, F2. unfold lu in *. rewrite Hl.
    destruct Hf as [Hf|[Hf|Hf]]; auto; congruence.
  - discriminate.
Qed.

(** ** for_each_concurrent: a Pending result means n futures are running, or upstream is gone,
    or upstream's last answer in this call was Pending (limit 0 is the degenerate "saturated"
    case of finding F8) *)
Definition fec_sat (a : fec) (w : world) : Prop :=
  fub_cap (fe_q a) <= fub_len (fe_q a) \/ fe_up a = None \/ lu w = Some UAPend.

Lemma fec_loop_work_conserving own n a t w :
  winv own None w -> fub_ok own (fe_q a) -> fec_mu a < n -> up_live (fe_up a) ->
  let '(a', r, w') := fec_loop P n a t w in
  r = RetPending -> fec_sat a' w'.
Proof.
  revert a w. induction n as [|n IH]; intros a w Hw Hok Hmu Hul; [lia|]. cbn [fec_loop].
  assert (Hpull : let '(a1, pulled, w1) :=
                    (if Nat.ltb (fub_len (fe_q a)) (fub_cap (fe_q a)) then
                       match fe_up a with
                       | Some u =>
                           let '(u, r, w) := up_poll false u t w in
                           match r with
                           | UPItem c =>
                               match fub_try_push (fe_q a) c w with
                               | (PushOk f, w) => ({| fe_up := Some u; fe_q := f |}, true, w)
                               | (_, w) => ({| fe_up := Some u; fe_q := fe_q a |}, true, emit EStuck w)
                               end
                           | UPEnd => ({| fe_up := None; fe_q := fe_q a |}, false, emit EUpDrop w)
                           | _ => ({| fe_up := Some u; fe_q := fe_q a |}, false, w)
                           end
                       | None => (a, false, w)
                       end
                     else (a, false, w)) in
                  winv own None w1 /\ fub_ok own (fe_q a1)
                  /\ (if pulled then S (fec_mu a1) <= fec_mu a else fec_mu a1 <= fec_mu a)
                  /\ up_live (fe_up a1)
                  /\ (pulled = false -> fec_sat a1 w1)).
  { destruct (Nat.ltb_spec (fub_len (fe_q a)) (fub_cap (fe_q a))) as [Hlt|Hge];
      [|splits; auto; intros _; left; exact Hge].
    destruct (fe_up a) as [u|] eqn:Hu;
      [|splits; auto; try (unfold fec_mu; rewrite Hu; lia); try (rewrite Hu; exact I); intros _; right; left; exact Hu].
    simpl in Hul.
    pose proof (@winv_up_poll own None false u t w Hul Hw) as Hup.
    pose proof (up_poll_steps false u t w) as Hst.
    pose proof (@up_poll_fused false u t w Hul) as Hfu.
    assert (Hlast : match snd (fst (up_poll false u t w)) with
                    | UPPend => lu (snd (up_poll false u t w)) = Some UAPend
                    | UPErr _ => False
                    | _ => True end).
    { unfold up_poll. rewrite Hul. destruct (us_steps u) as [|[s|acts| |] rest]; cbn [fst snd]; auto.
      rewrite lu_do_acts. reflexivity. }
    destruct (up_poll false u t w) as [[u' r] w1]. simpl in Hup, Hlast. destruct Hst as [S1 S2].
    destruct r as [c| | |e].
    - pose proof (@fub_try_push_spec own None (fe_q a) c w1 Hup Hok) as H.
      destruct (fub_try_push (fe_q a) c w1) as [[f| |] w2].
      + destruct H as (H1 & H2 & H3 & H4 & H5 & H6). simpl. splits; auto; [|discriminate].
        unfold fec_mu; simpl. rewrite Hu. lia.
      + destruct H as [_ H]. lia.
      + contradiction.
    - simpl. splits; auto. unfold fec_mu; simpl. rewrite Hu. lia. intros _. right; right. exact Hlast.
    - simpl. splits; auto. apply winv_emit; auto. unfold fec_mu; simpl. rewrite Hu. lia. intros _. right; left; reflexivity.
    - contradiction. }
  destruct (if Nat.ltb (fub_len (fe_q a)) (fub_cap (fe_q a)) then _ else _) as [[a1 pulled] w1].
  destruct Hpull as (A & B & E & U & Hsat).
  pose proof (@fub_poll_next_spec P own KFut (fe_q a1) t w1 A B) as H.
  pose proof (lu_fub_poll_next KFut (fe_q a1) t w1) as Hl.
  destruct (fub_poll_next P KFut (fe_q a1) t w1) as [[f sp] w2]. destruct H as (A2 & B2 & C2 & D2 & F2).
  cbn [snd] in Hl.
  assert (Hgo : fec_mu {| fe_up := fe_up a1; fe_q := f |} < n ->
                let '(a', r, w') := fec_loop P n {| fe_up := fe_up a1; fe_q := f |} t w2 in
                r = RetPending -> fec_sat a' w').
  { intros Hlt. apply (IH {| fe_up := fe_up a1; fe_q := f |} w2); auto. }
  assert (Hmu_eq : forall f', fub_len f' = fub_len (fe_q a1) ->
                    fec_mu {| fe_up := fe_up a1; fe_q := f' |} = fec_mu a1).
  { intros f' Hf. unfold fec_mu; simpl. destruct (fe_up a1); lia. }
  (* leaving with Pending: nothing was pulled in this round, and the queue kept its size *)
  assert (Hexit : fub_len f = fub_len (fe_q a1) -> pulled = false ->
                  fec_sat {| fe_up := fe_up a1; fe_q := f |} w2).
  { intros Hlen Hp. destruct (Hsat Hp) as [S|[S|S]].
    - left. simpl. unfold fub_cap in *. rewrite D2, Hlen. exact S.
    - right; left. exact S.
    - right; right. unfold lu in *. rewrite Hl. exact S. }
  destruct sp as [| |tk c]; simpl.
  - destruct F2 as [F3 F4]. destruct pulled.
    + apply Hgo. rewrite Hmu_eq by (unfold fub_len; auto). lia.
    + intros _. apply Hexit; auto.
  - destruct F2 as (F3 & -> & ->).
    destruct (fe_up a1) eqn:Hu1; [|discriminate].
    destruct pulled.
    + apply Hgo. unfold fec_mu in *; simpl. rewrite Hu1 in *. lia.
    + intros _. exact (Hexit eq_refl eq_refl).
  - destruct F2 as [F3 F4]. apply Hgo.
    unfold fec_mu in *; simpl. unfold fub_len in *. destruct (fe_up a1); destruct pulled; lia.
Qed.

Theorem fec_pending_is_work_conserving own a t w :
  winv own None w -> fub_ok own (fe_q a) -> up_live (fe_up a) ->
  let '(a', r, w') := fec_poll P a t w in
  r = RetPending ->
  fub_cap (fe_q a') <= fub_len (fe_q a') \/ fe_up a' = None \/ last_up (log w') = Some UAPend.
Proof.
  intros Hw Hok Hul. unfold fec_poll. apply (@fec_loop_work_conserving own); auto.
  unfold fec_mu, fec_fuel. destruct (fe_up a); lia.
Qed.

End WithParams.
