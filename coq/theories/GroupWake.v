(** * GroupWake: no lost wake-up across the groups of the unbounded collections (C01)

    A poll of FuturesUnordered / MergeUnbounded that returns Pending has visited every group:
    each group still in the list is empty, or has the caller's waker [t] registered as its most
    recent one with an empty ready queue or [t] invoked during this call ([K]).  Polling one
    group never disturbs this for the others (their waker blocks are distinct). *)
From FB Require Import Base Syntax World SlotMap Fub Unbounded Ordered Adapters Step Tactics SlotMapProofs WorldProofs FubProofs UnboundedProofs OrderedProofs WakeProofs AddrProofs GrowthProofs StepProofs Reach.

Definition K (b t : nat) (w : world) : Prop := J b t w /\ E b w.

Lemma K_frame b t w w' :
  get_blk w' b = get_blk w b -> (forall e, In e (log w) -> In e (log w')) -> K b t w -> K b t w'.
Proof. intros Hb Hl [HJ HE]. split; [eapply J_frame; eauto | eapply E_frame; eauto]. Qed.

Lemma K_emit b t e w : K b t w -> K b t (emit e w).
Proof. apply K_frame; auto. simpl; auto. Qed.

Lemma K_put_other b t b' k' w : b' <> b -> K b t w -> K b t (put_blk b' k' w).
Proof. intros Hne [HJ HE]. split; [apply J_put_other | apply E_put_other]; auto. Qed.

Lemma K_do_acts b t cw l w : K b t w -> K b t (do_acts cw l w).
Proof. intros [HJ HE]. destruct (@JE_do_acts b t cw l w HJ) as [A B]. split; auto. Qed.

Lemma K_run_inj b t p k sl w : K b t w -> K b t (run_inj p k sl w).
Proof. intros [HJ HE]. destruct (@JE_run_inj b t p k sl w HJ) as [A B]. split; auto. Qed.

Lemma K_clear_flag_other b t b' i w : b' <> b -> K b t w -> K b t (clear_flag b' i w).
Proof.
  intros Hne HK. unfold clear_flag. destruct (get_blk w b'); auto. apply K_put_other; auto.
Qed.

Lemma K_pop_other b t b' w : b' <> b -> K b t w -> K b t (snd (pop b' w)).
Proof.
  intros Hne HK. unfold pop.
  assert (H0 : K b t (set_popk (S (popk w)) w)) by (revert HK; apply K_frame; auto).
  destruct (forced_inc (S (popk w)) (set_popk (S (popk w)) w)); cbn [snd].
  - apply K_run_inj; auto.
  - change (get_blk (set_popk (S (popk w)) w) b') with (get_blk w b').
    destruct (get_blk w b') as [kb|]; cbn [snd].
    + destruct (bqueue kb) as [|i q]; cbn [snd].
      * apply K_run_inj; auto.
      * apply K_run_inj. apply K_clear_flag_other; auto. apply K_run_inj. apply K_put_other; auto.
    + apply K_emit; auto.
Qed.

Lemma K_poll_child b t k c b' s w : K b t w -> K b t (snd (poll_child k c b' s w)).
Proof.
  intros HK. unfold poll_child.
  assert (H1 : K b t (emit (ECPoll (cid c) b' s (b', s)) (g_poll w))).
  { apply K_emit. revert HK. apply K_frame; auto. }
  destruct (cdone c); cbn [snd].
  - apply K_emit. revert H1. apply K_frame; auto.
  - destruct (cscript c) as [|[acts r0] rest]; cbn [snd]; [apply K_emit; auto|].
    apply K_emit. apply K_do_acts; auto.
Qed.

Lemma K_self_wake_other b t b' t' w : b' <> b -> K b t w -> K b t (self_wake b' t' w).
Proof.
  intros Hne HK. unfold self_wake. apply K_emit. destruct (get_blk w b'); auto. apply K_put_other; auto.
Qed.

Lemma K_register_other b t b' t' w : b' <> b -> K b t w -> K b t (register b' t' w).
Proof.
  intros Hne HK. unfold register. apply K_run_inj.
  destruct (get_blk w b').
  - assert (H : K b t (put_blk b' (blk_set_last (blk_set_reg b0 (Some t')) (Some t')) w)) by (apply K_put_other; auto).
    revert H. apply K_frame; auto.
  - assert (H : K b t (emit EStuck w)) by (apply K_emit; auto). revert H. apply K_frame; auto.
Qed.

Lemma K_drain_other b t k n f t' w : blk f <> b -> K b t w -> K b t (snd (drain k n f t' w)).
Proof.
  intros Hne. revert f w Hne. induction n as [|n IH]; intros f w Hne HK; cbn [drain].
  - cbn [snd]. apply K_self_wake_other; auto.
  - pose proof (K_pop_other b t (blk f) w Hne HK) as Hp.
    destruct (pop (blk f) w) as [pr w1]. cbn [snd] in Hp.
    destruct pr as [| |i]; cbn [snd]; [exact Hp | apply K_self_wake_other; auto | ].
    destruct (sm_get (tasks f) i) as [c|].
      * pose proof (K_poll_child b t k c (blk f) i w1 Hp) as Hc.
        destruct (poll_child k c (blk f) i w1) as [[c' r] w2]. cbn [snd] in Hc.
        destruct (is_ready r); cbn [snd]; [exact Hc | apply IH; auto].
      * apply IH; auto.
Qed.

Lemma K_enqueue_other b t b' s w : b' <> b -> K b t w -> K b t (snd (enqueue_slot b' s w)).
Proof.
  intros Hne HK. unfold enqueue_slot. destruct (get_blk w b') as [k|]; auto.
  destruct (nth_error (bflags k) s) as [[|]|]; auto. cbn [snd].
  assert (H : K b t (put_blk b' (blk_set_queue (blk_set_flags k (upd (bflags k) s true)) (bqueue k ++ [s])) w)) by (apply K_put_other; auto).
  revert H. apply K_frame; auto.
Qed.

Lemma K_fub_remove b t f i w : K b t w -> K b t (snd (fub_remove f i w)).
Proof. intros HK. unfold fub_remove. destruct (sm_get (tasks f) i); cbn [snd]; auto. apply K_emit; auto. Qed.

Lemma K_fub_drop b t f w : K b t w -> K b t (fub_drop f w).
Proof.
  intros [HJ HE]. unfold fub_drop.
  assert (Hd : K b t (drop_children (blk f) (tasks f) w)).
  { unfold drop_children. generalize (sm_children (tasks f)). intros l. revert w HJ HE.
    induction l as [|p l IH]; intros w HJ HE; simpl; [split; auto|]. apply IH; [apply J_emit | apply E_emit]; auto. }
  destruct Hd as [A B]. split; [apply J_dec_strong | apply E_dec_strong]; auto.
Qed.

Section WithParams.
Variable P : params.

Lemma K_poll_group_other b t mrg g t' w : blk g <> b -> K b t w -> K b t (snd (poll_group P mrg g t' w)).
Proof.
  intros Hne HK. unfold poll_group. destruct mrg.
  - unfold mb_poll_next. generalize (S (fub_len g)). intros n. revert g w Hne HK.
    induction n as [|n IH]; intros g w Hne HK; cbn [mb_poll_loop]; [apply K_emit; auto|].
    unfold poll_inner_no_remove. destruct (Nat.eqb (fub_len g) 0); cbn [snd]; auto.
    pose proof (K_drain_other b t KSrc (pB P) g t' (register (blk g) t' w) Hne (K_register_other b t (blk g) t' w Hne HK)) as Hd.
    pose proof (drain_blk KSrc (pB P) g t' (register (blk g) t' w)) as Hb.
    destruct (drain KSrc (pB P) g t' (register (blk g) t' w)) as [[f1 pr] w1]. cbn [fst snd] in *.
    destruct pr as [| |i c r]; cbn [snd]; auto.
    assert (Hgo : K b t (snd (let '(f0, w0) := fub_remove f1 i w1 in mb_poll_loop P n f0 t' w0))).
    { pose proof (K_fub_remove b t f1 i w1 Hd) as Hr.
      assert (Hb2 : blk (fst (fub_remove f1 i w1)) = blk f1) by (unfold fub_remove; destruct (sm_get (tasks f1) i); reflexivity).
      destruct (fub_remove f1 i w1) as [f2 w2]. cbn [fst snd] in *. apply IH; auto. congruence. }
    destruct r; auto. cbn [snd]. apply K_enqueue_other; [congruence|]. revert Hd. apply K_frame; auto.
  - unfold fub_poll_next, poll_inner, poll_inner_no_remove. destruct (Nat.eqb (fub_len g) 0); cbn [snd]; auto.
    pose proof (K_drain_other b t KFut (pB P) g t' (register (blk g) t' w) Hne (K_register_other b t (blk g) t' w Hne HK)) as Hd.
    destruct (drain KFut (pB P) g t' (register (blk g) t' w)) as [[f1 pr] w1]. cbn [snd] in Hd.
    destruct pr as [| |i c r]; cbn [snd]; auto.
    pose proof (K_fub_remove b t f1 i w1 Hd) as Hr. destruct (fub_remove f1 i w1) as [f2 w2]. auto.
Qed.

Hypothesis HP : params_ok P.

Lemma blk_of_owned own w b : winv own None w -> 0 < own b -> exists k, get_blk w b = Some k.
Proof. intros Hw Hpos. destruct (@own_pos_get own None w b Hw) as (k & Hk & _); [lia|]. eauto. Qed.

(** a group that answers Pending ends in [K]: [MergeBounded] may have gone round its loop
    several times (sources that ended), the last round is the one that answered *)
Lemma mb_loop_pending_K own n f t w :
  winv own None w -> fub_ok own f -> fub_len f < n ->
  let '(f', sp, w') := mb_poll_loop P n f t w in
  sp = SPending -> K (blk f) t w'.
Proof.
  revert f w. induction n as [|n IH]; intros f w Hw Hok Hlen; [lia|]. cbn [mb_poll_loop].
  destruct (@blk_of_owned own w (blk f) Hw (proj2 Hok)) as [k0 Hk0].
  pose proof (@poll_pending_no_lost_wakeup P KSrc f t w k0 Hk0) as Hp.
  pose proof (@poll_inner_no_remove_spec P own KSrc f t w Hw Hok) as H.
  destruct (poll_inner_no_remove P KSrc f t w) as [[f1 pr] w1].
  destruct H as (A & B & C & D & F & G).
  destruct pr as [| |i c r].
  - intros _. apply Hp; reflexivity.
  - discriminate.
  - destruct G as [Gg Gr].
    assert (Hgo : let '(f2, w3) := fub_remove f1 i w1 in
                  let '(f', sp, w') := mb_poll_loop P n f2 t w3 in sp = SPending -> K (blk f) t w').
    { pose proof (@fub_remove_spec own None f1 i w1 A B) as H.
      destruct (fub_remove f1 i w1) as [f2 w3]. destruct H as (A2 & B2 & C2 & D2 & E2).
      assert (Hlt : fub_len f2 < n).
      { unfold fub_len in *. rewrite E2. destruct B as [Bwf _].
        destruct (sm_remove_spec i Bwf) as (_ & _ & R). rewrite Gg in R. lia. }
      specialize (IH f2 w3 A2 B2 Hlt). destruct (mb_poll_loop P n f2 t w3) as [[f' sp] w'].
      rewrite C2, C in IH. exact IH. }
    destruct r; try (destruct (fub_remove f1 i w1) as [f2 w3]; exact Hgo). discriminate.
Qed.

Lemma poll_group_pending_K own mrg g t w :
  winv own None w -> fub_ok own g ->
  let '(g', sp, w') := poll_group P mrg g t w in
  sp = SPending -> K (blk g) t w'.
Proof.
  intros Hw Hok. unfold poll_group. destruct mrg.
  - apply (@mb_loop_pending_K own); auto.
  - destruct (@blk_of_owned own w (blk g) Hw (proj2 Hok)) as [k0 Hk0].
    pose proof (@poll_pending_no_lost_wakeup P KFut g t w k0 Hk0) as Hp.
    unfold fub_poll_next, poll_inner.
    destruct (poll_inner_no_remove P KFut g t w) as [[f1 pr] w1].
    destruct pr as [| |i c r]; try discriminate.
    + intros _. apply Hp; reflexivity.
    + destruct (fub_remove f1 i w1); discriminate.
Qed.

(** ** the group loop visits every group

    [rot u]: the groups in the order the loop meets them, starting at the (normalised) cursor.
    One iteration polls the head of [rot]; the group then goes to the back (Pending; or empty
    but the last of the Vec, which is kept) or is discarded (empty, not the last). *)
Definition norm (u : fu) : nat := if Nat.leb (length (groups u)) (cursor u) then 0 else cursor u.
Definition rot (u : fu) : list fub := skipn (norm u) (groups u) ++ firstn (norm u) (groups u).

(** "settled": nothing held, or the caller's waker is armed for this group *)
Definition Kg (t : nat) (w : world) (g : fub) : Prop := fub_len g = 0 \/ K (blk g) t w.

Lemma Kg_mono t w w' (l : list fub) :
  (forall g, In g l -> K (blk g) t w -> K (blk g) t w') -> Forall (Kg t w) l -> Forall (Kg t w') l.
Proof.
  intros H Hf. rewrite Forall_forall in *. intros g Hin. destruct (Hf g Hin) as [Hz|Hk]; [left; auto|right; auto].
Qed.


(** one iteration of the loop, as a function *)
Inductive iter_res := IDone (r : fu * spoll * world) | ICont (u1 : fu) (w1 : world).

Definition fu_iter (mrg : bool) (u : fu) (t : nat) (w : world) : iter_res :=
  let cur := norm u in
  match nth_error (groups u) cur with
  | None => IDone (u, SPending, emit EStuck w)
  | Some g =>
      let '(g', sp, w) := poll_group P mrg g t w in
      match sp with
      | SItem tk c =>
          IDone ({| groups := upd (groups u) cur g'; rem := if mrg then rem u else pred (rem u);
                    cursor := S cur; gcap := gcap u |}, SItem tk c, w)
      | SNone =>
          let gs := remove_nth (groups u) cur in
          match gs with
          | [] => IDone (set_groups u [g'] cur, SNone, w)
          | _ => if Nat.eqb cur (length gs) then ICont (set_groups u (gs ++ [g']) 0) w
                 else ICont (set_groups u gs cur) (fub_drop g' w)
          end
      | SPending => ICont (set_groups u (upd (groups u) cur g') (S cur)) w
      end
  end.

Lemma fu_loop_unfold mrg n u t w :
  fu_loop P mrg (S n) u t w =
  match fu_iter mrg u t w with IDone r => r | ICont u1 w1 => fu_loop P mrg n u1 t w1 end.
Proof.
  cbn [fu_loop]. unfold fu_iter, norm.
  destruct (nth_error (groups u) (if Nat.leb (length (groups u)) (cursor u) then 0 else cursor u)) as [g|]; auto.
  destruct (poll_group P mrg g t w) as [[g' sp] w1]. destruct sp; auto.
  destruct (remove_nth (groups u) (if Nat.leb (length (groups u)) (cursor u) then 0 else cursor u)); auto.
  match goal with |- context [Nat.eqb ?a ?b] => destruct (Nat.eqb a b) end; auto.
Qed.

(** the state handed to the next iteration satisfies the loop's invariant again *)
Lemma fu_iter_ok mrg u t w :
  winv (cnt (blks (groups u))) None w -> fu_ok mrg u -> groups u <> [] ->
  match fu_iter mrg u t w with
  | ICont u1 w1 => winv (cnt (blks (groups u1))) None w1 /\ fu_ok mrg u1 /\ groups u1 <> []
  | IDone _ => True
  end.
Proof.
  intros Hw Hok Hne. pose proof (@fu_loop_spec P mrg 1 u t w Hw Hok Hne) as H.
  rewrite fu_loop_unfold in H. destruct (fu_iter mrg u t w) as [r|u1 w1]; auto.
  cbn [fu_loop] in H.
  destruct (if mrg then forallb (fun g => Nat.eqb (fub_len g) 0) (groups u1) else Nat.eqb (rem u1) 0);
    destruct H as (A & B & C & _); auto.
Qed.

Lemma norm_lt u : groups u <> [] -> norm u < length (groups u).
Proof.
  intros Hne. unfold norm. destruct (Nat.leb_spec (length (groups u)) (cursor u)); auto.
  destruct (groups u); simpl; [congruence|lia].
Qed.

(** what one iteration does to the list of groups and to the cursor *)
Lemma fu_iter_shape mrg u t w :
  groups u <> [] ->
  exists l1 g l2, groups u = l1 ++ g :: l2 /\ length l1 = norm u /\
    let '(g', sp, w1) := poll_group P mrg g t w in
    match fu_iter mrg u t w with
    | ICont u1 w2 =>
        (sp = SPending /\ groups u1 = l1 ++ g' :: l2 /\ cursor u1 = S (length l1) /\ w2 = w1)
        \/ (sp = SNone /\ l2 = [] /\ groups u1 = l1 ++ [g'] /\ cursor u1 = 0 /\ w2 = w1)
        \/ (sp = SNone /\ l2 <> [] /\ groups u1 = l1 ++ l2 /\ cursor u1 = length l1 /\ w2 = fub_drop g' w1)
    | IDone (u', sp', w') =>
        sp' = sp /\ sp <> SPending /\ w' = w1 /\ (blk g' = blk g -> blks (groups u') = blks (groups u))
        /\ (forall tk c, sp = SItem tk c -> groups u' = l1 ++ g' :: l2 /\ cursor u' = S (length l1))
        /\ (sp = SNone -> l1 = [] /\ l2 = [])
    end.
Proof.
  intros Hne. pose proof (norm_lt u Hne) as Hlt.
  destruct (nth_error (groups u) (norm u)) as [g|] eqn:Hg; [|apply nth_error_None in Hg; lia].
  destruct (nth_split_fub _ _ Hg) as (l1 & l2 & Hsplit & Hl1).
  exists l1, g, l2. splits; auto. unfold fu_iter. rewrite Hg.
  destruct (poll_group P mrg g t w) as [[g' sp] w1].
  assert (Hupd_eq : upd (groups u) (norm u) g' = l1 ++ g' :: l2).
  { rewrite Hsplit, <- Hl1. apply upd_split. }
  assert (Hrm_eq : remove_nth (groups u) (norm u) = l1 ++ l2).
  { rewrite Hsplit, <- Hl1. apply remove_nth_split. }
  destruct sp as [| |tk c].
  - left. simpl. rewrite Hupd_eq, Hl1. auto.
  - rewrite Hrm_eq. destruct (l1 ++ l2) as [|g0 gs0] eqn:Hgs.
    + apply app_eq_nil in Hgs as [-> ->]. splits; auto; [discriminate| |discriminate].
      intros Hb. simpl. rewrite Hsplit. simpl. rewrite Hb. reflexivity.
    + rewrite <- Hgs. destruct (Nat.eqb_spec (norm u) (length (l1 ++ l2))) as [Hlast|Hnl].
      * right; left. assert (l2 = []).
        { rewrite app_length in Hlast. destruct l2; auto. simpl in Hlast. lia. }
        subst l2. rewrite app_nil_r. simpl. auto.
      * right; right. simpl. splits; auto.
        intros ->. rewrite app_nil_r in Hnl. congruence.
  - splits; auto; [discriminate| | |discriminate].
    + intros Hb. simpl. rewrite Hupd_eq, Hsplit. unfold blks.
      rewrite !map_app. simpl. rewrite Hb. reflexivity.
    + intros tk' c' _. simpl. rewrite Hupd_eq, Hl1. auto.
Qed.

Lemma skipn_len_app {A} (l1 l2 : list A) : skipn (length l1) (l1 ++ l2) = l2.
Proof. induction l1; simpl; auto. Qed.
Lemma firstn_len_app {A} (l1 l2 : list A) : firstn (length l1) (l1 ++ l2) = l1.
Proof. induction l1; simpl; auto. f_equal; auto. Qed.

Lemma rot_at u l1 x : groups u = l1 ++ x -> norm u = length l1 -> rot u = x ++ l1.
Proof. intros Hs Hn. unfold rot. rewrite Hn, Hs, skipn_len_app, firstn_len_app. reflexivity. Qed.

Lemma rot_in u g : In g (rot u) <-> In g (groups u).
Proof.
  unfold rot. rewrite <- (firstn_skipn (norm u) (groups u)) at 3. rewrite !in_app_iff. tauto.
Qed.

(** rotation after the three ways an iteration can continue *)
Lemma rot_next u1 l1 l2 (g' : fub) :
  groups u1 = l1 ++ g' :: l2 -> cursor u1 = S (length l1) -> rot u1 = (l2 ++ l1) ++ [g'].
Proof.
  intros Hs Hc. destruct l2 as [|h l2].
  - simpl. rewrite <- (app_nil_r (l1 ++ [g'])). apply (@rot_at u1 [] (l1 ++ [g'])); [simpl; auto|].
    unfold norm. rewrite Hs, Hc, app_length. simpl.
    destruct (Nat.leb_spec (length l1 + 1) (S (length l1))); auto; lia.
  - rewrite <- app_assoc.
    apply (@rot_at u1 (l1 ++ [g']) (h :: l2)); [rewrite Hs, <- app_assoc; reflexivity|].
    unfold norm. rewrite Hs, Hc, !app_length. simpl.
    destruct (Nat.leb_spec (length l1 + S (S (length l2))) (S (length l1))); lia.
Qed.

Lemma rot_front u1 l : groups u1 = l -> cursor u1 = 0 -> rot u1 = l.
Proof.
  intros Hs Hc. rewrite (@rot_at u1 [] l); [apply app_nil_r|auto|].
  unfold norm. rewrite Hc. destruct (Nat.leb _ 0); reflexivity.
Qed.

Lemma rot_same u1 l1 l2 : groups u1 = l1 ++ l2 -> l2 <> [] -> cursor u1 = length l1 -> rot u1 = l2 ++ l1.
Proof.
  intros Hs Hne Hc. apply rot_at; auto. unfold norm. rewrite Hs, Hc, app_length.
  destruct (Nat.leb_spec (length l1 + length l2) (length l1)); auto.
  destruct l2; [congruence|simpl in *; lia].
Qed.

Lemma skipn_app_le {A} n (a b : list A) : n <= length a -> skipn n (a ++ b) = skipn n a ++ b.
Proof. intros H. rewrite skipn_app. replace (n - length a) with 0 by lia. reflexivity. Qed.

Lemma in_skipn {A} n (l : list A) x : In x (skipn n l) -> In x l.
Proof. intros H. rewrite <- (firstn_skipn n l). apply in_or_app; auto. Qed.

(** *** the loop visits every group: when it gives up with Pending, every group still in the
    list is empty or has the caller's waker armed *)
Theorem fu_loop_visits mrg n u t w :
  winv (cnt (blks (groups u))) None w -> fu_ok mrg u -> groups u <> [] ->
  NoDup (blks (groups u)) -> n <= length (groups u) ->
  Forall (Kg t w) (skipn n (rot u)) ->
  let '(u', sp, w') := fu_loop P mrg n u t w in
  NoDup (blks (groups u')) /\ (sp = SPending -> Forall (Kg t w') (groups u')).
Proof.
  revert u w. induction n as [|n IH]; intros u w Hw Hok Hne Hnd Hn Hk.
  - cbn [fu_loop]. simpl in Hk.
    assert (Hall : Forall (Kg t w) (groups u)).
    { rewrite Forall_forall in *. intros g Hg. apply Hk. apply rot_in; auto. }
    destruct (if mrg then forallb (fun g => Nat.eqb (fub_len g) 0) (groups u) else Nat.eqb (rem u) 0); auto.
  - rewrite fu_loop_unfold.
    pose proof (@fu_iter_ok mrg u t w Hw Hok Hne) as Hnext.
    destruct (@fu_iter_shape mrg u t w Hne) as (l1 & g & l2 & Hsplit & Hl1 & Hshape).
    assert (Hgok : fub_ok (cnt (blks (groups u))) g).
    { apply fub_ok_of_group; [rewrite Hsplit; apply in_or_app; right; left; auto | apply Hok]. }
    pose proof (@poll_group_spec P (cnt (blks (groups u))) mrg g t w Hw Hgok) as Hspec.
    pose proof (@poll_group_pending_K (cnt (blks (groups u))) mrg g t w Hw Hgok) as Hpk.
    assert (Hother : forall h, In h (l2 ++ l1) -> K (blk h) t w -> K (blk h) t (snd (poll_group P mrg g t w))).
    { intros h Hin. apply K_poll_group_other. intros Heq.
      rewrite Hsplit in Hnd. unfold blks in Hnd. rewrite map_app in Hnd. simpl in Hnd.
      apply NoDup_remove_2 in Hnd. apply Hnd. rewrite Heq. rewrite <- map_app.
      apply in_map. apply in_app_iff. apply in_app_iff in Hin. tauto. }
    rewrite (@rot_at u l1 (g :: l2) Hsplit (eq_sym Hl1)) in Hk. simpl in Hk.
    assert (Hlen : n <= length (l2 ++ l1)).
    { rewrite Hsplit in Hn. rewrite !app_length in *. simpl in Hn. lia. }
    destruct (poll_group P mrg g t w) as [[g' sp] w1]. cbn [snd] in Hother.
    destruct Hspec as (A & B & C & D & E' & F).
    assert (Hk1 : Forall (Kg t w1) (skipn n (l2 ++ l1))).
    { revert Hk. apply Kg_mono. intros h Hin. apply Hother. eapply in_skipn; eauto. }
    assert (Hnd_rest : NoDup (blks (l1 ++ l2)) /\ ~ In (blk g) (blks (l1 ++ l2))).
    { rewrite Hsplit in Hnd. unfold blks in *. rewrite map_app in Hnd. simpl in Hnd. rewrite map_app.
      split; [eapply NoDup_remove_1; eauto | eapply NoDup_remove_2; eauto]. }
    destruct (fu_iter mrg u t w) as [[[u' sp'] w']|u1 w2].
    + destruct Hshape as (-> & Hsp & -> & Hb & _). split; [rewrite Hb; auto|]. intros ->. congruence.
    + destruct Hnext as (N1 & N2 & N3).
      destruct Hshape as [(-> & Hg1 & Hc1 & ->) | [(-> & -> & Hg1 & Hc1 & ->) | (-> & Hl2 & Hg1 & Hc1 & ->)]].
      * (* Pending: the group goes to the back, settled *)
        apply IH; auto.
        -- rewrite Hg1. rewrite Hsplit in Hnd. unfold blks in *. rewrite map_app in *. simpl in *. rewrite C. auto.
        -- rewrite Hg1, Hsplit in *. rewrite !app_length in *. simpl in *. lia.
        -- rewrite (rot_next _ _ _ _ Hg1 Hc1), skipn_app_le by auto.
           apply Forall_app; split; auto. constructor; auto. right. rewrite C. apply Hpk; reflexivity.
      * (* empty, but the last of the Vec: kept, at the back *)
        apply IH; auto.
        -- rewrite Hg1. rewrite Hsplit in Hnd. unfold blks in *. rewrite map_app in *. simpl in *. rewrite C. auto.
        -- rewrite Hg1, Hsplit in *. rewrite !app_length in *. simpl in *. lia.
        -- rewrite (rot_front _ _ Hg1 Hc1). simpl in Hk1, Hlen. rewrite skipn_app_le by auto.
           apply Forall_app; split; auto. constructor; auto. left. apply F.
      * (* empty, in the middle: discarded *)
        apply IH; auto.
        -- rewrite Hg1. apply Hnd_rest.
        -- rewrite Hg1. rewrite !app_length in *. lia.
        -- rewrite (rot_same _ _ _ Hg1 Hl2 Hc1).
           revert Hk1. apply Kg_mono. intros h _. apply K_fub_drop.
Qed.

Theorem fu_poll_pending_all_armed mrg u t w :
  winv (cnt (blks (groups u))) None w -> fu_ok mrg u -> NoDup (blks (groups u)) ->
  let '(u', sp, w') := fu_poll_next P mrg u t w in
  NoDup (blks (groups u')) /\ (sp = SPending -> Forall (Kg t w') (groups u')).
Proof.
  intros Hw Hok Hnd. unfold fu_poll_next. destruct (groups u) as [|g0 gs0] eqn:Hg.
  - split; [rewrite Hg; constructor | discriminate].
  - rewrite <- Hg in *. apply fu_loop_visits; auto; [rewrite Hg; discriminate|].
    rewrite skipn_all2; [constructor|]. unfold rot. rewrite app_length, skipn_length, firstn_length. lia.
Qed.

(** ** the waker blocks of the groups are pairwise distinct: every group is created with a
    freshly allocated block *)
Lemma fu_push_blks mrg u c w :
  fu_ok mrg u ->
  let '(u', w') := fu_push P mrg u c w in
  blks (groups u') = blks (groups u) \/ blks (groups u') = blks (groups u) ++ [length (blocks w)].
Proof.
  destruct HP as (_ & Hmin & Hgr & _). assert (Hg1 : 1 <= pGrowth P) by lia.
  intros Hok. pose proof Hok as [O1 O2 O3]. unfold fu_push. cbn [groups rem cursor gcap].
  destruct (groups u) as [|g0 gs0] eqn:Hgs.
  - destruct (@fub_new_eq P Hg1 (pMinCap P) w) as (w1 & -> & N1).
    unfold push_group. cbn [groups gcap length]. destruct (vec_grow 0 (gcap u)) as [c' a] eqn:Hv.
    cbn [groups rem cursor gcap app]. cbn [last_opt rev app].
    destruct (@fresh_push_ok P Hg1 (pMinCap P) (length (blocks w)) c (count_alloc a w1) Hmin) as (f' & w3 & Hp & Hc & N2).
    rewrite Hp. cbn [groups length pred upd]. right. simpl.
    destruct (fub_try_push_addr _ _ _ Hp) as (-> & _). reflexivity.
  - remember (g0 :: gs0) as gsu eqn:Hgsu.
    assert (Hne : gsu <> []) by (subst; discriminate).
    replace (match gsu with [] => let '(g, w0) := fub_new (pMinCap P) w in
                 push_group {| groups := gsu; rem := if mrg then rem u else S (rem u); cursor := cursor u; gcap := gcap u |} g w0
               | _ :: _ => ({| groups := gsu; rem := if mrg then rem u else S (rem u); cursor := cursor u; gcap := gcap u |}, w) end)
      with ({| groups := gsu; rem := if mrg then rem u else S (rem u); cursor := cursor u; gcap := gcap u |}, w)
      by (subst; reflexivity).
    cbn [groups rem cursor gcap]. clear Hgsu g0 gs0.
    destruct (last_opt gsu) as [lastg|] eqn:Hl.
    2:{ left; reflexivity. }
    assert (Hin : In lastg gsu) by (rewrite last_opt_nth in Hl; eapply nth_error_In; eauto).
    assert (Hwfl : sm_wf (tasks lastg)) by (rewrite Forall_forall in O1; auto).
    assert (Hcl : 1 <= fub_cap lastg) by (rewrite Forall_forall in O3; auto).
    destruct (fub_try_push lastg c w) as [[g'| |] w1] eqn:Hp.
    + left. cbn [groups]. destruct (fub_try_push_addr _ _ _ Hp) as (Hb & _).
      rewrite last_opt_nth in Hl. destruct (nth_split_fub _ _ Hl) as (l1 & l2 & -> & Hl1).
      rewrite <- Hl1, upd_split. unfold blks. rewrite !map_app. simpl. rewrite Hb. reflexivity.
    + assert (Hw1 : w1 = w).
      { unfold fub_try_push in Hp. destruct (sm_insert (tasks lastg) c); inversion Hp; auto. }
      subst w1.
      destruct (@fub_new_eq P Hg1 (fub_cap lastg * pGrowth P) w) as (w2 & -> & N1).
      destruct (@fresh_push_ok P Hg1 (fub_cap lastg * pGrowth P) (length (blocks w)) c w2 ltac:(nia)) as (f' & w3 & Hp2 & Hc2 & N2).
      rewrite Hp2. unfold push_group. cbn [groups gcap]. destruct (vec_grow (length gsu) (gcap u)) as [c' a] eqn:Hv.
      cbn [groups]. right. unfold blks. rewrite map_app. simpl.
      destruct (fub_try_push_addr _ _ _ Hp2) as (-> & _). reflexivity.
    + left; reflexivity.
Qed.

Lemma fu_push_nodup mrg u c w cur :
  winv (cnt (blks (groups u))) cur w -> fu_ok mrg u -> NoDup (blks (groups u)) ->
  NoDup (blks (groups (fst (fu_push P mrg u c w)))).
Proof.
  intros Hw Hok Hnd. pose proof (@fu_push_blks mrg u c w Hok) as H.
  destruct (fu_push P mrg u c w) as [u' w']. cbn [fst]. destruct H as [-> | ->]; auto.
  apply NoDup_app_snoc; auto. intros Hin. apply cnt_pos_in in Hin. apply (wi_own Hw) in Hin. lia.
Qed.

Lemma fu_push_fold_nodup mrg l u w :
  winv (cnt (blks (groups u))) None w -> fu_ok mrg u -> NoDup (blks (groups u)) ->
  NoDup (blks (groups (fst (fold_left (fun uw c => fu_push P mrg (fst uw) c (snd uw)) l (u, w))))).
Proof.
  revert u w. induction l as [|c l IH]; intros u w Hw Hok Hnd; simpl; auto.
  pose proof (@fu_push_spec P HP mrg u c w Hw Hok) as H.
  pose proof (@fu_push_nodup mrg u c w None Hw Hok Hnd) as Hn.
  destruct (fu_push P mrg u c w) as [u1 w1]. destruct H as (A & B & C & D). simpl in *. apply IH; auto.
Qed.

Lemma fu_with_capacity_nodup n w : NoDup (blks (groups (fst (fu_with_capacity n w)))).
Proof.
  unfold fu_with_capacity. destruct (Nat.eqb n 0); [constructor|].
  destruct (fub_new n w) as [g w']. simpl. constructor; [intros []|constructor].
Qed.

Lemma fu_from_list_nodup mrg h l w :
  winv (cnt []) None w -> NoDup (blks (groups (fst (fu_from_list P mrg h l w)))).
Proof.
  intros Hw. unfold fu_from_list.
  assert (H0 : let '(u0, w0) := (if mrg then (fu_empty, w) else fu_with_capacity (Nat.max h (pMinCap P)) w) in
               winv (cnt (blks (groups u0))) None w0 /\ fu_ok mrg u0 /\ NoDup (blks (groups u0))).
  { destruct mrg.
    - splits; auto; [apply fu_empty_ok | constructor].
    - pose proof (@fu_with_capacity_spec false (Nat.max h (pMinCap P)) w Hw) as H.
      pose proof (fu_with_capacity_nodup (Nat.max h (pMinCap P)) w) as Hn.
      destruct (fu_with_capacity (Nat.max h (pMinCap P)) w) as [u0 w0]. destruct H as (A & B & _). auto. }
  destruct (if mrg then (fu_empty, w) else fu_with_capacity (Nat.max h (pMinCap P)) w) as [u0 w0].
  destruct H0 as (A & B & C). apply fu_push_fold_nodup; auto.
Qed.

(** ** FuturesOrdered: the outer loop polls the inner FuturesUnordered until it has the next
    output in order; when it gives up with Pending, the last inner poll returned Pending *)
Lemma fo_rebase_blks q : blks (groups (fu_inner (fo_rebase P q))) = blks (groups (fu_inner q)).
Proof. unfold fo_rebase. destruct (msb_set P (nout (fu_ord q))); auto. simpl. unfold blks. rewrite map_map. reflexivity. Qed.

Lemma fo_loop_armed n q t w :
  winv (fo_own q) None w -> fu_ok false (fu_inner q) -> NoDup (blks (groups (fu_inner q))) ->
  rem (fu_inner q) < n ->
  let '(q', sp, w') := fo_loop P n q t w in
  NoDup (blks (groups (fu_inner q'))) /\ (sp = SPending -> Forall (Kg t w') (groups (fu_inner q'))).
Proof.
  revert q w. induction n as [|n IH]; intros q w Hw Hok Hnd Hlen; [lia|]. cbn [fo_loop].
  pose proof (@fu_poll_next_spec P false (fu_inner q) t w Hw Hok) as H.
  pose proof (@fu_poll_pending_all_armed false (fu_inner q) t w Hw Hok Hnd) as Ha.
  destruct (fu_poll_next P false (fu_inner q) t w) as [[u sp] w1]. destruct H as (A & B & (L1 & L2 & L5)).
  destruct Ha as [Hnd1 Ha].
  pose proof (fo_rem Hok eq_refl) as Hr. pose proof (fo_rem B eq_refl) as Hr'.
  destruct sp as [| |tk c]; cbn [fu_inner fu_ord].
  - split; auto.
  - split; auto; discriminate.
  - destruct (L2 eq_refl) as [L3 L4].
    destruct (Z.eqb (cidx c) (nout (fu_ord q))); [split; auto; discriminate|].
    pose proof (winv_ord_park (fu_ord q) (cidx c) tk A) as Hp.
    destruct (ord_park (fu_ord q) (cidx c) tk w1) as [o w2]. simpl in Hp.
    apply (IH {| fu_inner := u; fu_ord := o |} w2); auto. simpl. lia.
Qed.

Theorem fo_poll_pending_all_armed q t w :
  winv (fo_own q) None w -> fu_ok false (fu_inner q) -> NoDup (blks (groups (fu_inner q))) ->
  let '(q', sp, w') := fo_poll_next P q t w in
  NoDup (blks (groups (fu_inner q'))) /\ (sp = SPending -> Forall (Kg t w') (groups (fu_inner q'))).
Proof.
  intros Hw Hok Hnd. unfold fo_poll_next.
  destruct (fo_rebase_inner P q) as (R1 & R2 & R3 & R4).
  set (q1 := fo_rebase P q) in *.
  assert (Hw1 : winv (fo_own q1) None w) by (unfold fo_own; rewrite R1; auto).
  assert (Hnd1 : NoDup (blks (groups (fu_inner q1)))) by (rewrite R1; auto).
  destruct (ord_try_release P (fu_ord q1)) as [[tk o]|] eqn:Hr.
  - simpl. split; auto. discriminate.
  - apply fo_loop_armed; auto.
Qed.

(** ** every reachable state: the groups of FuturesUnordered / MergeUnbounded own distinct blocks *)
Definition nd (k : coll) : Prop :=
  match k with
  | CFu u | CMu u => NoDup (blks (groups u))
  | CFo q => NoDup (blks (groups (fu_inner q)))
  | _ => True
  end.

Lemma fo_from_list_nd h l w (f : fo -> fo) :
  winv (cnt []) None w -> (forall q, fu_inner (f q) = fu_inner q) ->
  nd (fst (let '(q, w0) := fo_from_list P h l w in (CFo (f q), w0))).
Proof.
  intros Hw Hf. unfold fo_from_list.
  pose proof (@fu_from_list_nodup false h (index_children P l 0) w Hw) as Hx.
  destruct (fu_from_list P false h (index_children P l 0) w) as [u w1]. cbn [fst nd]. rewrite Hf. exact Hx.
Qed.

Lemma build_nd t p inits ups w : winv (cnt []) None w -> nd (fst (build P t p inits ups w)).
Proof.
  intros Hw. unfold build.
  destruct t;
    repeat match goal with
           | |- context [if ?b then _ else _] => destruct b
           end;
    repeat match goal with
           | |- context [fub_from_list ?l ?w] => destruct (fub_from_list l w)
           | |- context [fub_new ?c ?w] => destruct (fub_new c w)
           | |- context [fob_from_list P ?l ?w] => destruct (fob_from_list P l w)
           | |- context [fob_new P ?a ?b ?w] => destruct (fob_new P a b w) as [[?|] ?]
           | |- context [join_new ?a ?l ?w] => destruct (join_new a l w)
           end; cbn [nd fst]; auto.
  - pose proof (@fu_from_list_nodup false (lazy_hint p (mk_children inits)) (mk_children inits) w Hw) as Hx.
    destruct (fu_from_list P false (lazy_hint p (mk_children inits)) (mk_children inits) w); exact Hx.
  - constructor.
  - pose proof (fu_with_capacity_nodup (p_cap p) w) as Hx. destruct (fu_with_capacity (p_cap p) w); exact Hx.
  - pose proof (@fu_from_list_nodup true (lazy_hint p (mk_children inits)) (mk_children inits) w Hw) as Hx.
    destruct (fu_from_list P true (lazy_hint p (mk_children inits)) (mk_children inits) w); exact Hx.
  - constructor.
  - pose proof (fu_with_capacity_nodup (p_cap p) w) as Hx. destruct (fu_with_capacity (p_cap p) w); exact Hx.
  - (* FuturesOrdered from_iter, no input (possibly seeded) *)
    apply fo_from_list_nd; auto. intros q. destruct (p_seed p); reflexivity.
  - apply (@fo_from_list_nd _ _ _ (fun q => q)); auto.
  - constructor.
  - unfold fo_with_capacity, heap_cap_for.
    pose proof (fu_with_capacity_nodup (p_cap p) w) as Hx. destruct (fu_with_capacity (p_cap p) w); exact Hx.
Qed.

Lemma do_push_nd try front c sc k w : cinv k w -> nd k -> nd (fst (do_push P try front c sc k w)).
Proof.
  intros [Hw Hok] Hnd. unfold do_push. destruct k; cbn [fst nd]; auto;
    repeat match goal with
           | |- context [if ?b then _ else _] => destruct b
           end; cbn [fst nd]; auto;
    try match goal with
        | |- context [fub_try_push ?f ?c ?w] => destruct (fub_try_push f c w) as [[?| |] ?]; exact I
        | |- context [fob_try_push P ?fr ?q ?c ?w] => destruct (fob_try_push P fr q c w) as [[?|] ?]; exact I
        | |- context [fu_push P ?m ?u ?c ?w] =>
            pose proof (@fu_push_nodup m u c w None Hw Hok Hnd) as Hx;
            destruct (fu_push P m u c w); exact Hx
        | |- context [fo_push P ?f ?q ?c ?w] =>
            unfold fo_push;
            match goal with |- context [fu_push P false ?u ?c' ?w] =>
              pose proof (@fu_push_nodup false u c' w None Hw Hok Hnd) as Hx;
              destruct (fu_push P false u c' w); exact Hx end
        end.
Qed.

Lemma step_core_nd k o w : cinv k w -> nd k -> nd (fst (step_core P k o w)).
Proof.
  intros [Hw Hok] Hnd. unfold step_core. destruct o; cbn [fst]; auto.
  - (* build *)
    destruct k; auto. simpl in Hw. apply build_nd; auto.
  - apply do_push_nd; auto; split; auto.
  - apply do_push_nd; auto; split; auto.
  - apply do_push_nd; auto; split; auto.
  - apply do_push_nd; auto; split; auto.
  - unfold do_poll. destruct k; cbn [fst nd]; auto;
      try match goal with
          | |- context [fu_poll_next P ?m ?u ?t ?w] =>
              pose proof (@fu_poll_pending_all_armed m u t w Hw Hok Hnd) as Hx;
              destruct (fu_poll_next P m u t w) as [[? ?] ?]; apply Hx
          | |- context [fo_poll_next P ?q ?t ?w] =>
              pose proof (@fo_poll_pending_all_armed q t w Hw Hok Hnd) as Hx;
              destruct (fo_poll_next P q t w) as [[? ?] ?]; apply Hx
          end;
      match goal with
      | |- context [fub_poll_next P ?a ?b ?c ?d] => destruct (fub_poll_next P a b c d) as [[? ?] ?]
      | |- context [mb_poll_next P ?b ?c ?d] => destruct (mb_poll_next P b c d) as [[? ?] ?]
      | |- context [fob_poll_next P ?a ?b ?c ?d] => destruct (fob_poll_next P a b c d) as [[? ?] ?]
      | |- context [fo_poll_next P ?b ?c ?d] => destruct (fo_poll_next P b c d) as [[? ?] ?]
      | |- context [adapter_poll P ?b ?c ?d] => destruct (adapter_poll P b c d) as [[? ?] ?]
      | |- context [fec_poll P ?b ?c ?d] => destruct (fec_poll P b c d) as [[? ?] ?]
      | |- context [join_poll P ?b ?c ?d] => destruct (join_poll P b c d) as [[? ?] ?]
      end; exact I.
  - unfold do_drop. destruct k; exact I.
Qed.

Theorem reachable_nd ops : nd (st_coll (reach P ops)).
Proof.
  unfold reach.
  assert (H : forall s, Inv s -> nd (st_coll s) -> nd (st_coll (run_state P s ops))).
  { induction ops as [|o ops IH]; simpl; intros s Hs Hn; auto. apply IH; [apply step_inv; auto|].
    unfold step_op. destruct (is_dead (st_coll s)); auto.
    destruct Hs as [Hw Hok].
    assert (Hc : cinv (st_coll s) (begin_op (op_inj o) (st_world s))) by (split; auto; apply winv_begin_op; auto).
    pose proof (@step_core_nd (st_coll s) o _ Hc Hn) as Hx.
    destruct (step_core P (st_coll s) o (begin_op (op_inj o) (st_world s))) as [k' w']. exact Hx. }
  apply H; [apply Inv_init | exact I].
Qed.

(** *** C01 for the unbounded collections, in every reachable state of every history: a poll
    that returns Pending leaves every group that still holds something with the caller's waker
    registered as the most recent one, and with an empty ready queue or that waker invoked *)
Theorem pending_arms_every_group ops (mrg : bool) u t i :
  st_coll (reach P ops) = (if mrg then CMu u else CFu u) ->
  let '(u', sp, w') := fu_poll_next P mrg u t (begin_op i (st_world (reach P ops))) in
  sp = SPending -> forall g, In g (groups u') -> fub_len g <> 0 -> K (blk g) t w'.
Proof.
  intros Hc. pose proof (reachable_nd ops) as Hn. destruct (reachable_Inv HP ops) as [Hw Hok].
  rewrite Hc in *.
  assert (Hw' : winv (cnt (blks (groups u))) None (begin_op i (st_world (reach P ops)))).
  { apply winv_begin_op. destruct mrg; exact Hw. }
  assert (Hok' : fu_ok mrg u) by (destruct mrg; exact Hok).
  assert (Hn' : NoDup (blks (groups u))) by (destruct mrg; exact Hn).
  pose proof (@fu_poll_pending_all_armed mrg u t _ Hw' Hok' Hn') as H.
  destruct (fu_poll_next P mrg u t (begin_op i (st_world (reach P ops)))) as [[u' sp] w'].
  destruct H as [_ H]. intros Hsp g Hin Hlen. specialize (H Hsp). rewrite Forall_forall in H.
  destruct (H g Hin) as [Hz|Hk]; [congruence|exact Hk].
Qed.
(** the same for FuturesOrdered (its outer loop may poll the inner collection several times in
    one call; the poll that ends the call with Pending has visited every group) *)
Theorem fo_pending_arms_every_group ops q t i :
  st_coll (reach P ops) = CFo q ->
  let '(q', sp, w') := fo_poll_next P q t (begin_op i (st_world (reach P ops))) in
  sp = SPending -> forall g, In g (groups (fu_inner q')) -> fub_len g <> 0 -> K (blk g) t w'.
Proof.
  intros Hc. pose proof (reachable_nd ops) as Hn. destruct (@reachable_Inv P HP ops) as [Hw Hok].
  rewrite Hc in *. simpl in Hn, Hw, Hok.
  assert (Hw' : winv (fo_own q) None (begin_op i (st_world (reach P ops)))) by (apply winv_begin_op; exact Hw).
  pose proof (@fo_poll_pending_all_armed q t _ Hw' Hok Hn) as H.
  destruct (fo_poll_next P q t (begin_op i (st_world (reach P ops)))) as [[q' sp] w'].
  destruct H as [_ H]. intros Hsp g Hin Hlen. specialize (H Hsp). rewrite Forall_forall in H.
  destruct (H g Hin) as [Hz|Hk]; [congruence|exact Hk].
Qed.

End WithParams.
