(** * ConcRefine: the interleaving model (ConcWake.v, Level B) run atomically is the sequential
    model (World.v / Fub.v, Level A)

    ConcWake.v is tied to the source text by the generated lemma [protocol_ok].  This file ties
    it to the executable model that the correspondence check runs against the implementation:
    when the steps of one waker call (resp. of a pop, of a register) are executed back to back,
    with nothing in between, the Level B state changes exactly as the Level A function
    [wake_slot] (resp. [pop], [register]) changes the waker block — flags, ready queue (all
    nodes linked), registered task waker, "that waker was invoked".  So Level A is Level B
    restricted to schedules in which calls do not overlap; Level B adds the overlapping ones. *)
From FB Require Import Base Syntax World SlotMap Fub Tactics WorldProofs QuietProofs FobOrder.
From FB Require ConcWake.
Import ConcWake.

Section WithBudget.
Variable B : nat.

Inductive steps : st -> st -> Prop :=
| steps_refl s : steps s s
| steps_step s1 s2 s3 : step B s1 s2 -> steps s2 s3 -> steps s1 s3.

Lemma steps_one s1 s2 : step B s1 s2 -> steps s1 s2.
Proof. intros H. eapply steps_step; [exact H|apply steps_refl]. Qed.

Lemma steps_trans s1 s2 s3 : steps s1 s2 -> steps s2 s3 -> steps s1 s3.
Proof. induction 1; auto. intros H'. eapply steps_step; eauto. Qed.

Lemma steps_reachable s s' : reachable B s -> steps s s' -> reachable B s'.
Proof. intros Hr H. induction H; auto. apply IHsteps. eapply r_step; eauto. Qed.

(** the block [k] of Level A seen as a Level B state *)
Record R (k : block) (s : st) : Prop := {
  r_flag : forall i, i < length (bflags k) -> flag s i = nth i (bflags k) false;
  r_queue : Q s = map (fun i => (i, true)) (bqueue k);
  r_reg : reg s = breg k;
  r_woken : woken s = btw k;
}.

(** one whole waker call on slot [i], run back to back *)
Definition call (i : nat) (s : st) : st :=
  if flag s i
  then {| flag := flag s; armed := fupd (armed s) i true; Q := Q s; reg := reg s; cur := cur s; woken := woken s;
          ws := ws s ++ [(i, WDone)]; pp := pp s |}
  else {| flag := fupd (flag s) i true; armed := fupd (armed s) i true; Q := Q s ++ [(i, true)]; reg := None;
          cur := cur s; woken := (match reg s with Some _ => true | None => woken s end);
          ws := ws s ++ [(i, WDone)]; pp := pp s |}.

Lemma nth_error_snoc {A} (l : list A) x : nth_error (l ++ [x]) (length l) = Some x.
Proof. rewrite nth_error_app2 by lia. rewrite Nat.sub_diag. reflexivity. Qed.

Lemma upd_snoc {A} (l : list A) x y : upd (l ++ [x]) (length l) y = l ++ [y].
Proof. apply (upd_at l [] x y). Qed.

Lemma set_linked_snoc i q :
  (forall p, In p q -> snd p = true) -> set_linked i (q ++ [(i, false)]) = q ++ [(i, true)].
Proof.
  intros H. unfold set_linked. rewrite map_app. simpl. rewrite Nat.eqb_refl. f_equal.
  induction q as [|[j b] q IH]; simpl; auto. rewrite IH by (intros; apply H; right; auto).
  specialize (H (j, b) (or_introl eq_refl)). simpl in H. subst b.
  destruct (Nat.eqb_spec j i); [subst; reflexivity|reflexivity].
Qed.

(** the call is an execution of Level B (two steps when the flag was set, five otherwise) *)
Theorem call_is_an_execution i s :
  (forall p, In p (Q s) -> snd p = true) -> steps s (call i s).
Proof.
  intros Hlinked. unfold call.
  set (s0 := {| flag := flag s; armed := armed s; Q := Q s; reg := reg s; cur := cur s; woken := woken s;
                ws := ws s ++ [(i, WStart)]; pp := pp s |}).
  assert (H0 : step B s s0) by apply s_spawn.
  destruct (flag s i) eqn:Hf.
  - eapply steps_step; [exact H0|]. apply steps_one.
    pose proof (s_test_set_true B s0 (length (ws s)) i) as H1. cbn [ws flag s0] in H1.
    rewrite nth_error_snoc, upd_snoc in H1. apply H1; auto.
  - eapply steps_step; [exact H0|].
    pose proof (s_test_set_false B s0 (length (ws s)) i) as H1. cbn [ws flag s0] in H1.
    rewrite nth_error_snoc, upd_snoc in H1. specialize (H1 eq_refl Hf).
    eapply steps_step; [exact H1|]. clear H1.
    match goal with |- steps ?x _ => set (s1 := x) end.
    pose proof (s_swap B s1 (length (ws s)) i) as H2. cbn [ws s1] in H2.
    rewrite nth_error_snoc, upd_snoc in H2. specialize (H2 eq_refl).
    eapply steps_step; [exact H2|]. clear H2.
    match goal with |- steps ?x _ => set (s2 := x) end.
    pose proof (s_link B s2 (length (ws s)) i) as H3. cbn [ws s2] in H3.
    rewrite nth_error_snoc, upd_snoc in H3. specialize (H3 eq_refl).
    eapply steps_step; [exact H3|]. clear H3.
    match goal with |- steps ?x _ => set (s3 := x) end.
    pose proof (s_notify B s3 (length (ws s)) i) as H4. cbn [ws s3] in H4.
    rewrite nth_error_snoc, upd_snoc in H4. specialize (H4 eq_refl).
    apply steps_one. unfold s3, s2, s1, s0 in *. cbn [flag armed Q reg cur woken ws pp] in *.
    rewrite (set_linked_snoc i (Q s) Hlinked) in H4. rewrite (set_linked_snoc i (Q s) Hlinked). exact H4.
Qed.

Lemma nth_upd_eq {A} (l : list A) i v d : i < length l -> nth i (upd l i v) d = v.
Proof. revert i. induction l as [|a l IH]; intros [|i] H; simpl in *; try lia; auto. apply IH. lia. Qed.
Lemma nth_upd_ne {A} (l : list A) i j v d : i <> j -> nth j (upd l i v) d = nth j l d.
Proof. revert i j. induction l as [|a l IH]; intros [|i] [|j] H; simpl; auto; try congruence. Qed.

(** *** Level A's [wake_slot] is that call *)
Theorem wake_slot_is_the_call b i w k s :
  get_blk w b = Some k -> bfreed k = false -> i < length (bflags k) -> R k s ->
  exists k', get_blk (wake_slot b i w) b = Some k' /\ R k' (call i s)
             /\ length (bflags k') = length (bflags k).
Proof.
  intros Hk Hfr Hi [Rf Rq Rr Rw]. unfold wake_slot.
  change (get_blk (g_wake w) b) with (get_blk w b). rewrite Hk, Hfr.
  unfold enqueue_slot. change (get_blk (g_wake w) b) with (get_blk w b). rewrite Hk.
  assert (Hnth : nth_error (bflags k) i = Some (nth i (bflags k) false)) by (apply nth_error_nth'; exact Hi).
  rewrite Hnth. unfold call. rewrite (Rf i Hi).
  destruct (nth i (bflags k) false) eqn:Hfl.
  - (* already queued: nothing happens *)
    exists k. split; [exact Hk|]. split; [|reflexivity]. constructor; simpl; auto.
  - set (k1 := blk_set_queue (blk_set_flags k (upd (bflags k) i true)) (bqueue k ++ [i])).
    set (w1 := g_enq (put_blk b k1 (g_wake w))).
    assert (Hg1 : get_blk w1 b = Some k1).
    { unfold w1. change (get_blk (g_enq ?x) b) with (get_blk x b). eapply get_put_same. exact Hk. }
    unfold notify. rewrite Hg1. cbn [breg k1 blk_set_queue blk_set_flags].
    assert (Hflags : forall j, j < length (upd (bflags k) i true) ->
                     fupd (flag s) i true j = nth j (upd (bflags k) i true) false).
    { intros j Hj. rewrite upd_length in Hj. destruct (Nat.eq_dec j i) as [->|Hne].
      - rewrite fupd_same, nth_upd_eq by auto. reflexivity.
      - rewrite fupd_other, nth_upd_ne by auto. apply Rf; auto. }
    destruct (breg k) as [t|] eqn:Hreg.
    + eexists. split.
      { change (get_blk (emit ?e ?x) b) with (get_blk x b). eapply get_put_same. exact Hg1. }
      split; [|simpl; apply upd_length].
      constructor; simpl; auto.
      * rewrite Rq, map_app. reflexivity.
      * rewrite Rr. reflexivity.
    + exists k1. split; [exact Hg1|]. split; [|simpl; apply upd_length].
      constructor; simpl; auto.
      * rewrite Rq, map_app. reflexivity.
      * rewrite Rr. exact Rw.
Qed.

(** *** a poll's first step, [register], is [p_start] *)
Theorem register_is_p_start b t w k s r :
  noinj w -> get_blk w b = Some k -> R k s -> pp s = PIdle r ->
  exists k' s', get_blk (register b t w) b = Some k' /\ step B s s' /\ R k' s' /\ pp s' = PLoop 0 /\ cur s' = t.
Proof.
  intros Hn Hk [Rf Rq Rr Rw] Hpp. unfold register. rewrite Hk.
  set (w0 := set_regk _ _). assert (Hn0 : noinj w0) by exact Hn. rewrite (run_inj_noinj _ _ _ Hn0).
  eexists. eexists. split.
  { unfold w0. change (get_blk (set_regk _ ?x) b) with (get_blk x b). eapply get_put_same. exact Hk. }
  split; [apply (p_start B s r t Hpp)|]. split; [|split; reflexivity].
  constructor; simpl; auto.
Qed.

(** *** [pop] = Ready is [p_ready] followed by [p_clear] *)
Theorem pop_is_ready_then_clear b w k s n i q :
  noinj w -> get_blk w b = Some k -> bqueue k = i :: q -> i < length (bflags k) -> R k s -> pp s = PLoop n ->
  exists w' k' s', pop b w = (PopReady i, w') /\ get_blk w' b = Some k' /\ steps s s' /\ R k' s' /\ pp s' = PChild i n.
Proof.
  intros Hn Hk Hq Hi [Rf Rq Rr Rw] Hpp.
  pose proof (@pop_noinj b w k Hn Hk) as Hp. rewrite Hq in Hp. destruct Hp as (w' & Hpop & Hg & _).
  exists w'. eexists. eexists. split; [exact Hpop|]. split; [exact Hg|].
  assert (HQ : Q s = (i, true) :: map (fun j => (j, true)) q) by (rewrite Rq, Hq; reflexivity).
  split.
  - eapply steps_step; [apply (p_ready B s n i _ Hpp HQ)|]. apply steps_one. apply (p_clear B _ i n). reflexivity.
  - split; [|reflexivity]. constructor; simpl; auto.
    intros j Hj. rewrite upd_length in Hj. destruct (Nat.eq_dec j i) as [->|Hne].
    + rewrite fupd_same, nth_upd_eq by auto. reflexivity.
    + rewrite fupd_other, nth_upd_ne by auto. apply Rf; auto.
Qed.

(** *** the owner's push ([WakerList::push], no notification) is [p_push_fresh] / [p_push_stale] *)
Theorem enqueue_is_p_push b i w k s r :
  get_blk w b = Some k -> i < length (bflags k) -> R k s -> pp s = PIdle r ->
  exists k' s', get_blk (snd (enqueue_slot b i w)) b = Some k' /\ step B s s' /\ R k' s' /\ pp s' = PIdle RNone.
Proof.
  intros Hk Hi [Rf Rq Rr Rw] Hpp. unfold enqueue_slot. rewrite Hk.
  assert (Hnth : nth_error (bflags k) i = Some (nth i (bflags k) false)) by (apply nth_error_nth'; exact Hi).
  rewrite Hnth. destruct (nth i (bflags k) false) eqn:Hfl; cbn [snd].
  - (* the slot is already queued: nothing is enqueued *)
    exists k. eexists. split; [exact Hk|]. split; [apply (p_push_stale B s r i Hpp); rewrite (Rf i Hi); exact Hfl|].
    split; [|reflexivity]. constructor; simpl; auto.
  - eexists. eexists. split.
    { change (get_blk (g_enq ?x) b) with (get_blk x b). eapply get_put_same. exact Hk. }
    split; [apply (p_push_fresh B s r i Hpp); rewrite (Rf i Hi); exact Hfl|]. split; [|reflexivity].
    constructor; simpl; auto.
    + intros j Hj. rewrite upd_length in Hj. destruct (Nat.eq_dec j i) as [->|Hne].
      * rewrite fupd_same, nth_upd_eq by auto. reflexivity.
      * rewrite fupd_other, nth_upd_ne by auto. apply Rf; auto.
    + rewrite Rq, map_app. reflexivity.
Qed.

End WithBudget.
