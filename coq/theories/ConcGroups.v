(** * ConcGroups: no lost wake-up for the collections made of several groups (C01, Level B)

    [FuturesUnordered], [MergeUnbounded] and [FuturesOrdered] are lists of groups, each a
    [FuturesUnorderedBounded] with a waker block, a ready queue and a [DiatomicWaker] of its own.
    One poll of the collection visits the groups one after the other (registering the caller's
    waker in each group it visits) and returns Pending only after every group has answered
    Pending in this call (Unbounded.fu_loop).

    Here every group is a copy of the interleaving model of ConcWake.v, with its own waker calls
    in flight; the calls of all groups and the owner's steps interleave arbitrarily.  The owner:
    [OIdle r] between polls, [OEnter g] about to register in group [g], [OIn g] inside the poll
    loop of group [g].  [gwoken]: the task waker [W] of the current poll has been invoked since
    the poll began — by the notify step of a waker call of any group whose registered waker is [W],
    or by the owner waking itself (budget, inconsistent queue).  A group whose registration is left
    over from an earlier poll with another waker notifies that other waker: this does not count.

    Theorem [pending_never_loses_a_wake_groups]: in every reachable state in which the last poll
    of the collection returned Pending and its task waker has not been invoked since that poll
    began, every child of every group that needs a poll has a waker call in flight whose notify
    step is still to come, and that group has the current task waker registered — so the call will
    invoke it. *)
From FB Require Import Base Tactics ConcWake.

Section WithBudget.
Variable B : nat.

(** the Inv-level form of ConcWake.pending_never_loses_a_wake *)
Lemma inv_pending s :
  Inv s -> pp s = PIdle RPending -> woken s = false ->
  reg s = Some (cur s) /\ forall i, armed s i = true -> in_flight s.
Proof.
  intros [Htok Hlink Hcur Hreg Hpend Harm] Hp Hw. split.
  - apply Hreg; auto. rewrite Hp; exact I.
  - intros i Hi. apply owes_in_flight.
    destruct (Harm i Hi) as [Hf|[n Hn]]; [|rewrite Hp in Hn; discriminate].
    specialize (Htok i). rewrite Hf, Hp in Htok. simpl in Htok.
    destruct (qcount i (Q s)) eqn:Eq.
    + pose proof (@wcount_le_owes i WSwap (ws s) ltac:(auto)). unfold owes. lia.
    + apply Hpend; auto. intros E. rewrite E in Eq. discriminate.
Qed.

(** [p]: some group has answered Pending in this poll *)
Inductive opc := OIdle (r : pres) | OEnter (g : nat) (p : bool) | OIn (g : nat) (p : bool).

Record mst := { grp : list st; mW : nat; gwoken : bool; mo : opc }.

Definition minit : mst := {| grp := []; mW := 0; gwoken := false; mo := OIdle RNone |}.

(** a step of a waker call that is not the owner's and invokes nobody *)
Definition quiet_waker_step (s s' : st) : Prop :=
  step B s s' /\ pp s' = pp s /\ woken s' = woken s /\ cur s' = cur s.

(** the notify step of a waker call: it invokes the waker the group has registered, if any *)
Definition notify_step (s s' : st) : Prop :=
  step B s s' /\ pp s' = pp s /\ cur s' = cur s /\ woken s' = (match reg s with Some _ => true | None => woken s end).

(** a step of the owner inside the poll loop of a group *)
Definition owner_step (s s' : st) : Prop :=
  step B s s' /\ ws s' = ws s /\ cur s' = cur s /\ (exists n, pp s = PLoop n) \/
  step B s s' /\ ws s' = ws s /\ cur s' = cur s /\ woken s' = woken s /\ (exists i n, pp s = PClear i n \/ pp s = PChild i n).

Inductive mstep (m : mst) : mst -> Prop :=
| m_waker g s s' :
    nth_error (grp m) g = Some s -> quiet_waker_step s s' ->
    mstep m {| grp := upd (grp m) g s'; mW := mW m; gwoken := gwoken m; mo := mo m |}
| m_notify g s s' :
    nth_error (grp m) g = Some s -> notify_step s s' ->
    mstep m {| grp := upd (grp m) g s'; mW := mW m;
               gwoken := (match reg s with Some V => if Nat.eqb V (mW m) then true else gwoken m | None => gwoken m end);
               mo := mo m |}
| m_new_group r :
    mo m = OIdle r ->
    mstep m {| grp := grp m ++ [init]; mW := mW m; gwoken := gwoken m; mo := OIdle RNone |}
| m_push g s s' r :
    mo m = OIdle r -> nth_error (grp m) g = Some s ->
    step B s s' -> ws s' = ws s -> cur s' = cur s -> woken s' = woken s -> (exists r0, pp s = PIdle r0) -> pp s' = PIdle RNone ->
    mstep m {| grp := upd (grp m) g s'; mW := mW m; gwoken := gwoken m; mo := OIdle RNone |}
| m_start r W :
    mo m = OIdle r -> grp m <> [] ->
    mstep m {| grp := grp m; mW := W; gwoken := false; mo := OEnter 0 false |}
| m_register g p s r :
    mo m = OEnter g p -> nth_error (grp m) g = Some s -> pp s = PIdle r ->
    mstep m {| grp := upd (grp m) g
                        {| flag := flag s; armed := armed s; Q := Q s; reg := Some (mW m); cur := mW m; woken := false;
                           ws := ws s; pp := PLoop 0 |};
               mW := mW m; gwoken := gwoken m; mo := OIn g p |}
| m_group_none g p s r :
    mo m = OEnter g p -> nth_error (grp m) g = Some s -> pp s = PIdle r ->
    mstep m {| grp := upd (grp m) g {| flag := flag s; armed := armed s; Q := Q s; reg := reg s; cur := cur s;
                                         woken := woken s; ws := ws s; pp := PIdle RNone |};
               mW := mW m; gwoken := gwoken m;
               mo := if Nat.ltb (S g) (length (grp m)) then OEnter (S g) p
                     else if p then OIdle RPending else OIdle RNone |}
| m_owner g p s s' :
    mo m = OIn g p -> nth_error (grp m) g = Some s -> owner_step s s' -> (forall r, pp s' <> PIdle r) ->
    mstep m {| grp := upd (grp m) g s'; mW := mW m; gwoken := gwoken m || woken s'; mo := mo m |}
| m_group_pending g p s s' :
    mo m = OIn g p -> nth_error (grp m) g = Some s -> owner_step s s' -> pp s' = PIdle RPending ->
    mstep m {| grp := upd (grp m) g s'; mW := mW m; gwoken := gwoken m || woken s';
               mo := if Nat.ltb (S g) (length (grp m)) then OEnter (S g) true else OIdle RPending |}
| m_group_ready g p s s' :
    mo m = OIn g p -> nth_error (grp m) g = Some s -> owner_step s s' -> pp s' = PIdle RReady ->
    mstep m {| grp := upd (grp m) g s'; mW := mW m; gwoken := gwoken m || woken s'; mo := OIdle RReady |}.

Inductive mreach : mst -> Prop :=
| mr_init : mreach minit
| mr_step m m' : mreach m -> mstep m m' -> mreach m'.

(** groups that have been visited in the current poll *)
Definition visited (m : mst) (g : nat) : Prop :=
  match mo m with
  | OIdle RPending => True
  | OEnter v _ | OIn v _ => g < v
  | _ => False
  end.

Record MInv (m : mst) : Prop := {
  mi_inv : forall g s, nth_error (grp m) g = Some s -> Inv s;
  mi_visited : forall g s, nth_error (grp m) g = Some s -> visited m g -> pp s = PIdle RPending ->
                 cur s = mW m /\ (woken s = true -> gwoken m = true);
  mi_vpp : forall g s, nth_error (grp m) g = Some s -> visited m g -> pp s = PIdle RPending \/ pp s = PIdle RNone;
  mi_in : forall g p s, mo m = OIn g p -> nth_error (grp m) g = Some s ->
                 cur s = mW m /\ (woken s = true -> gwoken m = true);
  mi_bound : forall g p, (mo m = OEnter g p \/ mo m = OIn g p) -> g < length (grp m);
}.

Lemma nth_upd_same {A} (l : list A) g x y : nth_error l g = Some y -> nth_error (upd l g x) g = Some x.
Proof. revert g; induction l as [|a l IH]; intros [|g] H; simpl in *; try discriminate; auto. Qed.
Lemma nth_upd_other {A} (l : list A) g h x : h <> g -> nth_error (upd l g x) h = nth_error l h.
Proof. revert g h; induction l as [|a l IH]; intros [|g] [|h] H; simpl; auto; try congruence. Qed.
Lemma upd_length' {A} (l : list A) g x : length (upd l g x) = length l.
Proof. revert g; induction l as [|a l IH]; intros [|g]; simpl; auto. Qed.

Lemma nth_upd_cases {A} (l : list A) g h x y :
  nth_error (upd l g x) h = Some y -> (h = g /\ y = x /\ exists z, nth_error l g = Some z) \/ (h <> g /\ nth_error l h = Some y).
Proof.
  intros H. destruct (Nat.eq_dec h g) as [->|Hne].
  - left. destruct (nth_error l g) as [z|] eqn:E.
    + rewrite (nth_upd_same l g x z E) in H. inversion H; subst. eauto.
    + exfalso. assert (Hl : length l <= g) by (apply nth_error_None; auto).
      assert (nth_error (upd l g x) g = None) by (apply nth_error_None; rewrite upd_length'; auto). congruence.
  - right. rewrite nth_upd_other in H by auto. auto.
Qed.

Lemma MInv_init : MInv minit.
Proof.
  constructor; simpl.
  - intros [|g] s H; discriminate.
  - intros [|g] s H; discriminate.
  - intros [|g] s H; discriminate.
  - intros g p s H; discriminate.
  - intros g p [H|H]; discriminate.
Qed.

(** where the owner goes after group [g] *)
Definition next_of (m : mst) (g : nat) (p : bool) : opc :=
  if Nat.ltb (S g) (length (grp m)) then OEnter (S g) p else if p then OIdle RPending else OIdle RNone.

Lemma visited_next m g p h (gs : list st) W gw :
  length gs = length (grp m) -> g < length (grp m) ->
  visited {| grp := gs; mW := W; gwoken := gw; mo := next_of m g p |} h -> h < length gs -> h < S g /\ (Nat.ltb (S g) (length (grp m)) = false -> p = true).
Proof.
  unfold visited, next_of. cbn [mo]. intros Hl Hg Hv Hh.
  destruct (Nat.ltb (S g) (length (grp m))) eqn:E; cbn [mo] in Hv.
  - split; [lia|discriminate].
  - apply Nat.ltb_ge in E. destruct p; cbn [mo] in Hv; [|contradiction]. split; [lia|auto].
Qed.

Theorem mstep_inv m m' : MInv m -> mstep m m' -> MInv m'.
Proof.
  intros [Hinv Hvis Hvpp Hin Hb] Hs.
  destruct Hs as [g s s' Hg (St & Hpp & Hwk & Hcur)
                 | g s s' Hg (St & Hpp & Hcur & Hwk)
                 | r Ho
                 | g s s' r Ho Hg St Hws Hcur Hwk Hpp0 Hpp'
                 | r W Ho Hne
                 | g p s r Ho Hg Hpp
                 | g p s r Ho Hg Hpp
                 | g p s s' Ho Hg Hos Hnp
                 | g p s s' Ho Hg Hos Hp
                 | g p s s' Ho Hg Hos Hp].
  - (* quiet waker step *)
    constructor; cbn [grp mW gwoken mo]; unfold visited; cbn [mo].
    + intros h y Hy. apply nth_upd_cases in Hy as [(-> & -> & _)|[_ Hy]]; eauto. eapply step_inv; eauto.
    + intros h y Hy Hv Hyp. apply nth_upd_cases in Hy as [(-> & -> & _)|[_ Hy]]; [|apply (Hvis h y); auto].
      rewrite Hpp in Hyp. destruct (Hvis g s Hg Hv Hyp) as (A2 & A3). rewrite Hcur, Hwk. auto.
    + intros h y Hy Hv. apply nth_upd_cases in Hy as [(-> & -> & _)|[_ Hy]]; [|apply (Hvpp h y); auto].
      rewrite Hpp. apply (Hvpp g s); auto.
    + intros h p y Hoh Hy. apply nth_upd_cases in Hy as [(-> & -> & _)|[_ Hy]]; [|apply (Hin h p y); auto].
      destruct (Hin g p s Hoh Hg) as (A2 & A3). rewrite Hcur, Hwk. auto.
    + intros h p Hh. rewrite upd_length'. eauto.
  - (* notify *)
    assert (Hc : forall V, reg s = Some V -> V = cur s) by (apply (i_cur s (Hinv g s Hg))).
    constructor; cbn [grp mW gwoken mo]; unfold visited; cbn [mo].
    + intros h y Hy. apply nth_upd_cases in Hy as [(-> & -> & _)|[_ Hy]]; eauto. eapply step_inv; eauto.
    + intros h y Hy Hv Hyp. apply nth_upd_cases in Hy as [(-> & -> & _)|[Hne Hy]].
      * rewrite Hpp in Hyp. destruct (Hvis g s Hg Hv Hyp) as (A2 & A3). rewrite Hcur. split; auto.
        rewrite Hwk. destruct (reg s) as [V|] eqn:Er; [|auto]. intros _. rewrite (Hc V eq_refl), A2, Nat.eqb_refl. reflexivity.
      * destruct (Hvis h y Hy Hv Hyp) as (A2 & A3). split; auto. intros Hw. specialize (A3 Hw).
        destruct (reg s) as [V|]; auto. destruct (Nat.eqb V (mW m)); auto.
    + intros h y Hy Hv. apply nth_upd_cases in Hy as [(-> & -> & _)|[_ Hy]]; [|apply (Hvpp h y); auto].
      rewrite Hpp. apply (Hvpp g s); auto.
    + intros h p y Hoh Hy. apply nth_upd_cases in Hy as [(-> & -> & _)|[Hne Hy]].
      * destruct (Hin g p s Hoh Hg) as (A2 & A3). rewrite Hcur. split; auto.
        rewrite Hwk. destruct (reg s) as [V|] eqn:Er; [|auto]. intros _. rewrite (Hc V eq_refl), A2, Nat.eqb_refl. reflexivity.
      * destruct (Hin h p y Hoh Hy) as (A2 & A3). split; auto. intros Hw. specialize (A3 Hw).
        destruct (reg s) as [V|]; auto. destruct (Nat.eqb V (mW m)); auto.
    + intros h p Hh. rewrite upd_length'. eauto.
  - (* new group *)
    constructor; cbn [grp mW gwoken mo]; unfold visited; cbn [mo]; try (intros; contradiction); try (intros; discriminate).
    + intros h y Hy. destruct (Nat.lt_ge_cases h (length (grp m))) as [Hl|Hl].
      * rewrite nth_error_app1 in Hy by auto. eauto.
      * rewrite nth_error_app2 in Hy by auto. destruct (h - length (grp m)) as [|k]; simpl in Hy; [|destruct k; discriminate].
        inversion Hy; subst. apply Inv_init.
    + intros h p [H|H]; discriminate.
  - (* push *)
    constructor; cbn [grp mW gwoken mo]; unfold visited; cbn [mo]; try (intros; contradiction); try (intros; discriminate).
    + intros h y Hy. apply nth_upd_cases in Hy as [(-> & -> & _)|[_ Hy]]; eauto. eapply step_inv; eauto.
    + intros h p [H|H]; discriminate.
  - (* start *)
    constructor; cbn [grp mW gwoken mo]; unfold visited; cbn [mo]; eauto.
    + intros h y Hy Hv. lia.
    + intros h y Hy Hv. lia.
    + intros h p y H; discriminate.
    + intros h p [H|H]; inversion H; subst. destruct (grp m); [contradiction|simpl; lia].
  - (* register *)
    assert (Hst : step B s {| flag := flag s; armed := armed s; Q := Q s; reg := Some (mW m); cur := mW m; woken := false; ws := ws s; pp := PLoop 0 |})
      by (eapply p_start; eauto).
    constructor; cbn [grp mW gwoken mo]; unfold visited; cbn [mo].
    + intros h y Hy. apply nth_upd_cases in Hy as [(-> & -> & _)|[_ Hy]]; eauto. eapply step_inv; eauto.
    + intros h y Hy Hv Hyp. apply nth_upd_cases in Hy as [(-> & -> & _)|[_ Hy]]; [lia|].
      apply (Hvis h y Hy); auto. unfold visited. rewrite Ho. exact Hv.
    + intros h y Hy Hv. apply nth_upd_cases in Hy as [(-> & -> & _)|[_ Hy]]; [lia|].
      apply (Hvpp h y Hy). unfold visited. rewrite Ho. exact Hv.
    + intros h p0 y Hoh Hy. inversion Hoh; subst h p0. rewrite (nth_upd_same _ _ _ _ Hg) in Hy. inversion Hy; subst y. simpl. split; auto. discriminate.
    + intros h p0 [H|H]; inversion H; subst. rewrite upd_length'. eapply Hb. left; eauto.
  - (* an empty group answers None: on to the next group *)
    assert (Hgl : g < length (grp m)) by (eapply Hb; left; eauto).
    set (s0 := {| flag := flag s; armed := armed s; Q := Q s; reg := reg s; cur := cur s; woken := woken s; ws := ws s; pp := PIdle RNone |}).
    assert (Hst : step B s s0) by (eapply p_none; eauto).
    fold (next_of m g p).
    constructor; cbn [grp mW gwoken].
    + intros h y Hy. apply nth_upd_cases in Hy as [(-> & -> & _)|[_ Hy]]; eauto. eapply step_inv; eauto.
    + intros h y Hy Hv Hyp.
      assert (Hh : h < length (upd (grp m) g s0)) by (apply nth_error_Some; congruence).
      destruct (visited_next m g p h _ _ _ (upd_length' _ _ _) Hgl Hv Hh) as [Hlt _].
      apply nth_upd_cases in Hy as [(-> & -> & _)|[Hne Hy]]; [discriminate|].
      apply (Hvis h y Hy); auto. unfold visited. rewrite Ho. lia.
    + intros h y Hy Hv.
      assert (Hh : h < length (upd (grp m) g s0)) by (apply nth_error_Some; congruence).
      destruct (visited_next m g p h _ _ _ (upd_length' _ _ _) Hgl Hv Hh) as [Hlt _].
      apply nth_upd_cases in Hy as [(-> & -> & _)|[Hne Hy]]; [right; reflexivity|].
      apply (Hvpp h y Hy). unfold visited. rewrite Ho. lia.
    + intros h p0 y Hoh Hy. unfold next_of in Hoh. cbn [mo] in Hoh.
      destruct (Nat.ltb (S g) (length (grp m))); [discriminate|destruct p; discriminate].
    + intros h p0 Hh. rewrite upd_length'. unfold next_of in Hh. cbn [mo] in Hh.
      destruct (Nat.ltb (S g) (length (grp m))) eqn:E; [|destruct p; destruct Hh as [H|H]; discriminate].
      destruct Hh as [H|H]; inversion H; subst. apply Nat.ltb_lt in E. exact E.
  - (* owner step inside the loop *)
    assert (Hfacts : step B s s' /\ cur s' = cur s).
    { destruct Hos as [(A & _ & C & _)|(A & _ & C & _)]; auto. }
    destruct Hfacts as (St & Hcur).
    constructor; cbn [grp mW gwoken mo].
    + intros h y Hy. apply nth_upd_cases in Hy as [(-> & -> & _)|[_ Hy]]; eauto. eapply step_inv; eauto.
    + intros h y Hy Hv Hyp. unfold visited in Hv. cbn [mo] in Hv. rewrite Ho in Hv.
      apply nth_upd_cases in Hy as [(-> & -> & _)|[_ Hy]]; [lia|].
      destruct (Hvis h y Hy) as (A2 & A3); auto; [unfold visited; rewrite Ho; exact Hv|]. split; auto.
      intros Hw. rewrite (A3 Hw). reflexivity.
    + intros h y Hy Hv. unfold visited in Hv. cbn [mo] in Hv. rewrite Ho in Hv.
      apply nth_upd_cases in Hy as [(-> & -> & _)|[_ Hy]]; [lia|].
      apply (Hvpp h y Hy). unfold visited. rewrite Ho. exact Hv.
    + intros h p0 y Hoh Hy. rewrite Ho in Hoh. inversion Hoh; subst h p0. rewrite (nth_upd_same _ _ _ _ Hg) in Hy. inversion Hy; subst y.
      destruct (Hin g p s Ho Hg) as (A2 & A3). rewrite Hcur. split; auto. intros Hw. rewrite Hw. apply orb_true_r.
    + intros h p0 Hh. rewrite upd_length'. eauto.
  - (* the group answers Pending: on to the next group, or the collection answers Pending *)
    assert (Hgl : g < length (grp m)) by (eapply Hb; right; eauto).
    assert (Hfacts : step B s s' /\ cur s' = cur s).
    { destruct Hos as [(A & _ & C & _)|(A & _ & C & _)]; auto. }
    destruct Hfacts as (St & Hcur).
    destruct (Hin g p s Ho Hg) as (A2 & A3).
    change (if Nat.ltb (S g) (length (grp m)) then OEnter (S g) true else OIdle RPending) with (next_of m g true).
    constructor; cbn [grp mW gwoken].
    + intros h y Hy. apply nth_upd_cases in Hy as [(-> & -> & _)|[_ Hy]]; eauto. eapply step_inv; eauto.
    + intros h y Hy Hv Hyp.
      assert (Hh : h < length (upd (grp m) g s')) by (apply nth_error_Some; congruence).
      destruct (visited_next m g true h _ _ _ (upd_length' _ _ _) Hgl Hv Hh) as [Hlt _].
      apply nth_upd_cases in Hy as [(-> & -> & _)|[Hne Hy]].
      * split; [congruence|]. intros Hw. rewrite Hw. apply orb_true_r.
      * destruct (Hvis h y Hy) as (B2 & B3); auto; [unfold visited; rewrite Ho; lia|]. split; auto.
        intros Hw. rewrite (B3 Hw). reflexivity.
    + intros h y Hy Hv.
      assert (Hh : h < length (upd (grp m) g s')) by (apply nth_error_Some; congruence).
      destruct (visited_next m g true h _ _ _ (upd_length' _ _ _) Hgl Hv Hh) as [Hlt _].
      apply nth_upd_cases in Hy as [(-> & -> & _)|[Hne Hy]]; [left; exact Hp|].
      apply (Hvpp h y Hy). unfold visited. rewrite Ho. lia.
    + intros h p0 y Hoh Hy. unfold next_of in Hoh. cbn [mo] in Hoh. destruct (Nat.ltb (S g) (length (grp m))); discriminate.
    + intros h p0 Hh. rewrite upd_length'. unfold next_of in Hh. cbn [mo] in Hh.
      destruct (Nat.ltb (S g) (length (grp m))) eqn:E; [|destruct Hh as [H|H]; discriminate].
      destruct Hh as [H|H]; inversion H; subst. apply Nat.ltb_lt in E. exact E.
  - (* the group yields: the collection answers Ready *)
    assert (Hfacts : step B s s').
    { destruct Hos as [(A & _)|(A & _)]; auto. }
    constructor; cbn [grp mW gwoken mo]; unfold visited; cbn [mo]; try (intros; contradiction); try (intros; discriminate).
    + intros h y Hy. apply nth_upd_cases in Hy as [(-> & -> & _)|[_ Hy]]; eauto. eapply step_inv; eauto.
    + intros h p0 [H|H]; discriminate.
Qed.

Theorem mreach_inv m : mreach m -> MInv m.
Proof. induction 1 as [|m m' _ IH Hs]; [apply MInv_init|eapply mstep_inv; eauto]. Qed.

(** *** the Level B statement of C01 for the collections made of groups *)
Theorem pending_never_loses_a_wake_groups m :
  mreach m -> mo m = OIdle RPending -> gwoken m = false ->
  forall g s, nth_error (grp m) g = Some s ->
    (pp s = PIdle RPending \/ pp s = PIdle RNone)
    /\ (pp s = PIdle RPending -> reg s = Some (mW m) /\ forall i, armed s i = true -> in_flight s).
Proof.
  intros Hr Ho Hw g s Hg. destruct (mreach_inv m Hr) as [Hinv Hvis Hvpp _ _].
  assert (Hv : visited m g) by (unfold visited; rewrite Ho; exact I).
  split; [apply (Hvpp g s Hg Hv)|]. intros A1.
  destruct (Hvis g s Hg Hv A1) as (A2 & A3).
  assert (Hws : woken s = false).
  { destruct (woken s) eqn:E; auto. rewrite (A3 eq_refl) in Hw. discriminate. }
  destruct (inv_pending s (Hinv g s Hg) A1 Hws) as [R1 R2]. split; [rewrite R1, A2; reflexivity|exact R2].
Qed.

(** once no call is in flight in any group: Pending with a child that needs a poll, in whatever
    group that answered Pending, means the task waker of that poll has been invoked *)
Corollary quiescent_pending_means_woken_groups m g s i :
  mreach m -> mo m = OIdle RPending -> nth_error (grp m) g = Some s -> pp s = PIdle RPending ->
  ~ in_flight s -> armed s i = true -> gwoken m = true.
Proof.
  intros Hr Ho Hg Hp Hnf Hi. destruct (gwoken m) eqn:Hw; auto.
  destruct (pending_never_loses_a_wake_groups m Hr Ho Hw g s Hg) as [_ H]. destruct (H Hp) as [_ H']. exfalso. apply Hnf. eauto.
Qed.

End WithBudget.

(** the premises are satisfiable: one group, a poll with waker 7 that finds nothing to do and
    answers Pending, then a waker call on slot 3 that has set the flag and not yet linked the slot:
    the child needs a poll, the task has not been woken, and the call is in flight *)
Example a_pending_collection_with_a_call_in_flight :
  exists m, mreach 61 m /\ mo m = OIdle RPending /\ gwoken m = false
            /\ exists s, nth_error (grp m) 0 = Some s /\ armed s 3 = true /\ reg s = Some 7 /\ in_flight s.
Proof.
  set (s1 := {| flag := fun _ => false; armed := fun _ => false; Q := []; reg := Some 7; cur := 7; woken := false;
                ws := []; pp := PLoop 0 |}).
  set (s2 := {| flag := fun _ => false; armed := fun _ => false; Q := []; reg := Some 7; cur := 7; woken := false;
                ws := []; pp := PIdle RPending |}).
  set (s3 := {| flag := flag s2; armed := armed s2; Q := Q s2; reg := reg s2; cur := cur s2; woken := woken s2;
                ws := ws s2 ++ [(3, WStart)]; pp := pp s2 |}).
  set (s4 := {| flag := fupd (flag s3) 3 true; armed := fupd (armed s3) 3 true; Q := Q s3; reg := reg s3; cur := cur s3;
                woken := woken s3; ws := upd (ws s3) 0 (3, WSwap); pp := pp s3 |}).
  exists {| grp := [s4]; mW := 7; gwoken := false; mo := OIdle RPending |}.
  split.
  - assert (R0 : mreach 61 {| grp := [init]; mW := 0; gwoken := false; mo := OIdle RNone |}).
    { eapply mr_step; [apply mr_init|]. apply (m_new_group 61 minit RNone). reflexivity. }
    assert (R1 : mreach 61 {| grp := [init]; mW := 7; gwoken := false; mo := OEnter 0 false |}).
    { eapply mr_step; [exact R0|]. apply (m_start 61 {| grp := [init]; mW := 0; gwoken := false; mo := OIdle RNone |} RNone 7); [reflexivity|discriminate]. }
    assert (R2 : mreach 61 {| grp := [s1]; mW := 7; gwoken := false; mo := OIn 0 false |}).
    { eapply mr_step; [exact R1|]. apply (m_register 61 {| grp := [init]; mW := 7; gwoken := false; mo := OEnter 0 false |} 0 false init RNone); reflexivity. }
    assert (R3 : mreach 61 {| grp := [s2]; mW := 7; gwoken := false; mo := OIdle RPending |}).
    { eapply mr_step; [exact R2|].
      apply (m_group_pending 61 {| grp := [s1]; mW := 7; gwoken := false; mo := OIn 0 false |} 0 false s1 s2); try reflexivity.
      left. split; [apply (p_empty 61 s1 0); [reflexivity|left; reflexivity]|]. split; [reflexivity|]. split; [reflexivity|]. exists 0; reflexivity. }
    assert (R4 : mreach 61 {| grp := [s3]; mW := 7; gwoken := false; mo := OIdle RPending |}).
    { eapply mr_step; [exact R3|].
      apply (m_waker 61 {| grp := [s2]; mW := 7; gwoken := false; mo := OIdle RPending |} 0 s2 s3); [reflexivity|].
      split; [apply (s_spawn 61 s2 3)|]. split; [reflexivity|]. split; reflexivity. }
    eapply mr_step; [exact R4|].
    apply (m_waker 61 {| grp := [s3]; mW := 7; gwoken := false; mo := OIdle RPending |} 0 s3 s4); [reflexivity|].
    split; [apply (s_test_set_false 61 s3 0 3); reflexivity|]. split; [reflexivity|]. split; reflexivity.
  - split; [reflexivity|]. split; [reflexivity|]. exists s4. split; [reflexivity|]. split; [reflexivity|]. split; [reflexivity|].
    exists 0, 3, WSwap. split; [reflexivity|]. left; reflexivity.
Qed.
