(** * HintProofs: size_hint is a true bound (C17), in [usize] arithmetic *)
From FB Require Import Base Syntax World SlotMap Fub Unbounded Ordered Adapters Step Tactics.
From Coq Require Import NArith.
Set Implicit Arguments.

(** what the stream will still yield: the items upstream will still produce (an upstream error of
    a try-stream is yielded as an item) plus one item per pulled-but-unyielded future *)
Definition still_to_yield (a : adapter) : nat :=
  match ad_up a with Some u => up_remaining (ad_try a) u | None => 0 end + q_len (ad_q a).

(** [saturating_add] never exceeds the sum; [checked_add] is the sum when it answers *)
Lemma sat_add_le wmax a b : (sat_add wmax a b <= a + b)%N.
Proof. unfold sat_add. apply N.le_min_l. Qed.

Lemma chk_add_some wmax a b h : chk_add wmax a b = Some h -> h = (a + b)%N.
Proof. unfold chk_add. destruct (N.leb (a + b) wmax); intros E; inversion E; reflexivity. Qed.

(** an upstream hint (lo, hi) is honest when lo <= remaining <= hi; the scripted upstream
    reports (remaining - slack_lo, remaining + slack_hi saturating at the largest word) — honest
    as long as the number of remaining items itself fits in a word *)
Lemma up_hint_honest wmax try u :
  (N.of_nat (up_remaining try u) <= wmax)%N ->
  (fst (up_hint wmax try u) <= N.of_nat (up_remaining try u))%N
  /\ match snd (up_hint wmax try u) with Some h => (N.of_nat (up_remaining try u) <= h)%N | None => True end.
Proof.
  intros Hfit. unfold up_hint. simpl. split; [lia|]. destruct (us_hhi u) as [k|]; auto.
  unfold sat_add. apply N.min_glb; [lia|exact Hfit].
Qed.

Section WithParams.
Variable P : params.

(** the adapters' hint brackets what will still be yielded, for every upstream slack (values
    at the top of the word range included: the upper bound is dropped rather than wrapped) *)
Theorem adapter_hint_brackets a :
  (match ad_up a with Some u => N.of_nat (up_remaining (ad_try a) u) <= wmaxN P | None => True end)%N ->
  (fst (adapter_hint P a) <= N.of_nat (still_to_yield a))%N
  /\ match snd (adapter_hint P a) with Some h => (N.of_nat (still_to_yield a) <= h)%N | None => True end.
Proof.
  unfold adapter_hint, still_to_yield. destruct (ad_up a) as [u|]; intros Hfit.
  - pose proof (up_hint_honest (ad_try a) u Hfit) as [H1 H2].
    destruct (up_hint (wmaxN P) (ad_try a) u) as [lo hi]. simpl in *. split.
    + pose proof (sat_add_le (wmaxN P) lo (N.of_nat (q_len (ad_q a)))). lia.
    + destruct hi as [x|]; auto. destruct (chk_add (wmaxN P) x (N.of_nat (q_len (ad_q a)))) as [h|] eqn:E; auto.
      apply chk_add_some in E. lia.
  - simpl. split; lia.
Qed.

(** the upper bound never wraps: when it is reported it is the exact sum *)
Theorem adapter_hint_upper_is_exact_sum a u lo x h :
  ad_up a = Some u -> up_hint (wmaxN P) (ad_try a) u = (lo, Some x) ->
  snd (adapter_hint P a) = Some h -> h = (x + N.of_nat (q_len (ad_q a)))%N /\ (h <= wmaxN P)%N.
Proof.
  intros Hu Hh. unfold adapter_hint. rewrite Hu, Hh. simpl. intros E.
  pose proof (chk_add_some _ _ _ E) as ->. split; auto.
  unfold chk_add in E. destruct (N.leb_spec (x + N.of_nat (q_len (ad_q a))) (wmaxN P)); [auto|discriminate].
Qed.

(** once upstream is gone the hint is exact (after the fix: also for the try_ adapters) *)
Theorem adapter_hint_exact_after_upstream_end a :
  ad_up a = None -> adapter_hint P a = (N.of_nat (q_len (ad_q a)), Some (N.of_nat (q_len (ad_q a)))).
Proof. intros H. unfold adapter_hint. rewrite H. reflexivity. Qed.

(** the collections report exactly the number they hold *)
Theorem collection_hint_exact k o :
  observe P k = Some o ->
  match k with
  | CFub f => ob_hint o = Some (N.of_nat (fub_len f), Some (N.of_nat (fub_len f)))
  | CFu u => ob_hint o = Some (N.of_nat (rem u), Some (N.of_nat (rem u)))
  | CFob q => ob_hint o = Some (N.of_nat (fob_len q), Some (N.of_nat (fob_len q)))
  | CFo q => ob_hint o = Some (N.of_nat (fo_len q), Some (N.of_nat (fo_len q)))
  | CMb _ | CMu _ => ob_hint o = Some (0%N, None)
  | CAd a => ob_hint o = Some (adapter_hint P a)
  | _ => True
  end.
Proof. destruct k; simpl; intros H; inversion H; subst; auto. Qed.

End WithParams.
