(** * HintProofs: size_hint is a true bound (C17) *)
From FB Require Import Base Syntax World SlotMap Fub Unbounded Ordered Adapters Step Tactics.
Set Implicit Arguments.

(** what the stream will still yield: the items upstream will still produce (an upstream error of
    a try-stream is yielded as an item) plus one item per pulled-but-unyielded future *)
Definition still_to_yield (a : adapter) : nat :=
  match ad_up a with Some u => up_remaining (ad_try a) u | None => 0 end + q_len (ad_q a).

(** an upstream hint (lo, hi) is honest when lo <= remaining <= hi; the scripted upstream
    reports (remaining - slack_lo, remaining + slack_hi) *)
Lemma up_hint_honest try u :
  fst (up_hint try u) <= up_remaining try u
  /\ match snd (up_hint try u) with Some h => up_remaining try u <= h | None => True end.
Proof. unfold up_hint. simpl. split; [lia|]. destruct (us_hhi u); lia. Qed.

Theorem adapter_hint_brackets a :
  fst (adapter_hint a) <= still_to_yield a
  /\ match snd (adapter_hint a) with Some h => still_to_yield a <= h | None => True end.
Proof.
  unfold adapter_hint, still_to_yield. destruct (ad_up a) as [u|].
  - pose proof (up_hint_honest (ad_try a) u) as [H1 H2].
    destruct (up_hint (ad_try a) u) as [lo hi]. simpl in *. split; [lia|]. destruct hi; lia.
  - simpl. split; lia.
Qed.

(** once upstream is gone the hint is exact (after the fix: also for the try_ adapters) *)
Theorem adapter_hint_exact_after_upstream_end a :
  ad_up a = None -> adapter_hint a = (q_len (ad_q a), Some (q_len (ad_q a))).
Proof. intros H. unfold adapter_hint. rewrite H. reflexivity. Qed.

(** the collections report exactly the number they hold *)
Theorem collection_hint_exact k o :
  observe k = Some o ->
  match k with
  | CFub f => ob_hint o = Some (fub_len f, Some (fub_len f))
  | CFu u => ob_hint o = Some (rem u, Some (rem u))
  | CFob q => ob_hint o = Some (fob_len q, Some (fob_len q))
  | CFo q => ob_hint o = Some (fo_len q, Some (fo_len q))
  | CMb _ | CMu _ => ob_hint o = Some (0, None)
  | CAd a => ob_hint o = Some (adapter_hint a)
  | _ => True
  end.
Proof. destruct k; simpl; intros H; inversion H; subst; auto. Qed.
