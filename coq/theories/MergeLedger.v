(** * MergeLedger: MergeBounded / MergeUnbounded hand out every item of every source, once, in
    the source's own order (C11, whole histories)

    A source's state in the model carries [cseq], the number of items it has produced so far
    (it is incremented exactly when a poll of the source answers "item", [poll_child_seq]); the
    k-th item of source [c] is the token [TItem c k].

    [hs k]: the (id, cseq) pairs of the sources the merge holds.  One operation of a history
    either hands out nothing and changes [hs] only by adding the sources it took (with cseq 0)
    and losing the sources that ended or were dropped ([SUB]), or hands out exactly one item
    [TItem id n] where (id, n) was held and (id, n + 1) is held afterwards, everything else
    unchanged or gone ([YLD]).  Over a whole history whose accepted sources have distinct ids:
    the items handed out for source [id] are numbered 0, 1, 2, ... in that order, and for a
    source still held their number is its [cseq] — nothing it produced is missing, duplicated
    or reordered, whatever the interleaving with the other sources, pushes and wake-ups. *)
From FB Require Import Base Syntax World SlotMap Fub Unbounded Ordered Adapters Step Tactics SlotMapProofs WorldProofs FubProofs
  UnboundedProofs StepProofs FobOrder Reach LedgerProofs TokenLedger.
From Coq Require Import Permutation.

Lemma NoDup_app_l {A} (a b : list A) : NoDup (a ++ b) -> NoDup a.
Proof. induction a as [|x a IH]; simpl; intros H; [constructor|]. inversion H; subst. constructor; auto. intros Hi. apply H2. apply in_or_app; auto. Qed.
Lemma NoDup_app_r {A} (a b : list A) : NoDup (a ++ b) -> NoDup b.
Proof. induction a as [|x a IH]; simpl; intros H; auto. inversion H; subst. auto. Qed.

(** ** lists of (id, count) pairs *)
Notation hp := (N * nat)%type (only parsing).
Lemma hp_eq_dec : forall a b : hp, {a = b} + {a <> b}.
Proof. decide equality; [apply Nat.eq_dec | apply N.eq_dec]. Qed.

Ltac permhp :=
  rewrite ?(Permutation_count_occ hp_eq_dec) in *;
  let x := fresh "x" in intros x;
  repeat match goal with H : forall y : hp, _ |- _ => specialize (H x) end;
  simpl; rewrite ?count_occ_app in *; simpl in *; rewrite ?count_occ_app in *;
  repeat match goal with |- context [if hp_eq_dec ?a ?b then _ else _] => destruct (hp_eq_dec a b) end;
  repeat match goal with H : context [if hp_eq_dec ?a ?b then _ else _] |- _ => destruct (hp_eq_dec a b) end;
  try congruence; try lia.

(** nothing handed out: what is held afterwards was held before *)
Definition SUB (hs hs' : list hp) : Prop := exists gone, Permutation hs (hs' ++ gone).
(** item [n] of source [id] handed out *)
Definition YLD (hs : list hp) (id : N) (n : nat) (hs' : list hp) : Prop :=
  exists R gone, Permutation hs ((id, n) :: R ++ gone) /\ Permutation hs' ((id, S n) :: R).

Lemma SUB_refl hs : SUB hs hs. Proof. exists []. rewrite app_nil_r. reflexivity. Qed.
Lemma SUB_perm hs hs' : Permutation hs' hs -> SUB hs hs'.
Proof. intros H. exists []. rewrite app_nil_r. symmetry. exact H. Qed.
Lemma SUB_trans a b c : SUB a b -> SUB b c -> SUB a c.
Proof. intros [g1 H1] [g2 H2]. exists (g2 ++ g1). rewrite H1, H2, app_assoc. reflexivity. Qed.
Lemma SUB_app a a' R : SUB a a' -> SUB (a ++ R) (a' ++ R).
Proof. intros [g H]. exists g. rewrite H. permhp. Qed.
Lemma SUB_app_l a a' L : SUB a a' -> SUB (L ++ a) (L ++ a').
Proof. intros [g H]. exists g. rewrite H. permhp. Qed.
Lemma SUB_mid a a' L R : SUB a a' -> SUB (L ++ a ++ R) (L ++ a' ++ R).
Proof. intros H. apply SUB_app_l. apply SUB_app. exact H. Qed.
Lemma SUB_drop a L R : SUB (L ++ a ++ R) (L ++ R).
Proof. exists a. permhp. Qed.
Lemma SUB_YLD a b id n c : SUB a b -> YLD b id n c -> YLD a id n c.
Proof.
  intros [g1 H1] (R & g2 & H2 & H3). exists R, (g2 ++ g1). split; auto.
  rewrite H1, H2. permhp.
Qed.
Lemma YLD_SUB a id n b c : YLD a id n b -> Permutation c b -> YLD a id n c.
Proof. intros (R & g & H1 & H2) H3. exists R, g. split; auto. rewrite H3. exact H2. Qed.
Lemma YLD_mid a a' id n L R : YLD a id n a' -> YLD (L ++ a ++ R) id n (L ++ a' ++ R).
Proof.
  intros (R0 & g & H1 & H2). exists (L ++ R0 ++ R), g. split; [rewrite H1|rewrite H2]; permhp.
Qed.

(** ** the items handed out for one source, in order *)
Definition seq_ev (id : N) (t : tok) : list nat :=
  match t with TItem c n => if N.eqb c id then [n] else [] | _ => [] end.
Definition seqs (id : N) (H : list tok) : list nat := flat_map (seq_ev id) H.
Lemma seqs_app id a b : seqs id (a ++ b) = seqs id a ++ seqs id b. Proof. apply flat_map_app. Qed.

(** the invariant of a history: [H] handed out so far, [T] the ids taken so far *)
Record MI (hs : list hp) (H : list tok) (T : list N) : Prop := {
  mi_nodup : NoDup (map fst hs);
  mi_held : forall id n, In (id, n) hs -> seqs id H = seq 0 n;
  mi_all : forall id, exists n, seqs id H = seq 0 n;
  mi_known : forall id, (seqs id H <> [] \/ In id (map fst hs)) -> In id T;
  mi_items : Forall (fun t => exists id n, t = TItem id n) H;
}.

Lemma MI_init : MI [] [] [].
Proof.
  constructor; simpl; [constructor | intros ? ? [] | intros; exists 0; reflexivity | | constructor].
  intros id [H|[]]. congruence.
Qed.

Lemma perm_map_fst (a b : list hp) : Permutation a b -> Permutation (map fst a) (map fst b).
Proof. apply Permutation_map. Qed.

Lemma MI_sub hs hs' H T : SUB hs hs' -> MI hs H T -> MI hs' H T.
Proof.
  intros [g Hp] [A B C D EI].
  assert (Hin : forall x, In x hs' -> In x hs).
  { intros x Hx. eapply Permutation_in; [symmetry; exact Hp|]. apply in_or_app; auto. }
  constructor; auto.
  - pose proof (Permutation_NoDup (perm_map_fst _ _ Hp) A) as Hn. rewrite map_app in Hn.
    eapply NoDup_app_l; eauto.
  - intros id [Hs|Hi]; apply D; auto. right.
    apply in_map_iff in Hi as ([i n] & <- & Hx). apply in_map_iff. exists (i, n). auto.
Qed.

Lemma MI_yld hs id n hs' H T : YLD hs id n hs' -> MI hs H T -> MI hs' (H ++ [TItem id n]) T.
Proof.
  intros (R & g & Hp & Hp') [A B C D EI].
  assert (Hn : NoDup (id :: map fst R)).
  { pose proof (Permutation_NoDup (perm_map_fst _ _ Hp) A) as Hn. simpl in Hn. rewrite map_app in Hn.
    inversion Hn as [|x l Hx Hl]; subst. constructor.
    - intros Hi. apply Hx. apply in_or_app; auto.
    - eapply NoDup_app_l; eauto. }
  assert (Hid : seqs id H = seq 0 n).
  { apply B. eapply Permutation_in; [symmetry; exact Hp|]. left; reflexivity. }
  assert (Hsame : forall id', id' <> id -> seqs id' (H ++ [TItem id n]) = seqs id' H).
  { intros id' Hne. rewrite seqs_app. simpl. destruct (N.eqb_spec id id'); [congruence|]. apply app_nil_r. }
  assert (Hthis : seqs id (H ++ [TItem id n]) = seq 0 (S n)).
  { rewrite seqs_app, Hid, seq_S. unfold seqs. cbn [flat_map seq_ev]. rewrite N.eqb_refl. reflexivity. }
  constructor.
  - eapply Permutation_NoDup; [symmetry; apply perm_map_fst; exact Hp'|]. exact Hn.
  - intros id' n' Hin. apply (Permutation_in _ Hp') in Hin. destruct Hin as [E|Hin].
    + inversion E; subst. exact Hthis.
    + assert (Hne : id' <> id).
      { intros ->. inversion Hn as [|x l Hx _]; subst. apply Hx. apply in_map_iff. exists (id, n'). auto. }
      rewrite Hsame by auto. apply B. eapply Permutation_in; [symmetry; exact Hp|].
      right. apply in_or_app; auto.
  - intros id'. destruct (N.eq_dec id' id) as [->|Hne]; [exists (S n); exact Hthis|].
    rewrite Hsame by auto. apply C.
  - intros id' [Hs|Hi].
    + destruct (N.eq_dec id' id) as [->|Hne].
      * apply D. right. eapply Permutation_in; [symmetry; apply perm_map_fst; exact Hp|]. left; reflexivity.
      * rewrite Hsame in Hs by auto. apply D; auto.
    + apply D. right. apply (Permutation_in _ (perm_map_fst _ _ Hp')) in Hi. simpl in Hi.
      eapply Permutation_in; [symmetry; apply perm_map_fst; exact Hp|]. simpl. rewrite map_app.
      destruct Hi as [<-|Hi]; [left; reflexivity|right; apply in_or_app; auto].
  - apply Forall_app; split; [exact EI|]. constructor; [eauto|constructor].
Qed.

Definition p0 (id : N) : hp := (id, 0).

(** sources taken (with nothing produced yet); their ids are new *)
Lemma MI_take hs hs' H T tk :
  Permutation hs' (map p0 tk ++ hs) -> NoDup (T ++ tk) -> MI hs H T -> MI hs' H (T ++ tk).
Proof.
  intros Hp Hnd [A B C D EI].
  assert (Hfresh : forall id, In id tk -> ~ In id T).
  { intros id Hi Ht. revert Hnd Hi Ht. clear. induction T as [|a T IH]; simpl; intros Hnd Hi Ht; [auto|].
    inversion Hnd; subst. destruct Ht as [->|Ht]; [|apply IH; auto]. apply H1. apply in_or_app; auto. }
  assert (Hmap : map fst (map p0 tk) = tk) by (rewrite map_map; simpl; apply map_id).
  constructor.
  - eapply Permutation_NoDup; [symmetry; apply perm_map_fst; exact Hp|]. rewrite map_app, Hmap.
    pose proof (NoDup_app_r _ _ Hnd) as Hnt.
    clear - A Hnt Hfresh D. induction tk as [|a tk IH]; simpl; auto.
    inversion Hnt; subst. constructor; [|apply IH; auto; intros; apply Hfresh; right; auto].
    intros Hi. apply in_app_or in Hi as [Hi|Hi]; [auto|]. apply (Hfresh a); [left; auto|]. apply D; auto.
  - intros id n Hin. apply (Permutation_in _ Hp) in Hin. apply in_app_or in Hin as [Hin|Hin]; [|apply B; auto].
    apply in_map_iff in Hin as (x & E & Hx). inversion E; subst. simpl.
    destruct (seqs id H) eqn:Hs; auto. exfalso. apply (Hfresh id Hx). apply D. left. congruence.
  - exact C.
  - intros id [Hs|Hi]; apply in_or_app.
    + left. apply D; auto.
    + apply (Permutation_in _ (perm_map_fst _ _ Hp)) in Hi. rewrite map_app, Hmap in Hi.
      apply in_app_or in Hi as [Hi|Hi]; [right; auto|left; apply D; auto].
  - exact EI.
Qed.

(** ** the (id, cseq) pairs of the sources in a slot map *)
Definition pc (c : child) : hp := (cid c, cseq c).
Definition hs_sm (m : slotmap) : list hp := map pc (occ_list (slots m)).
Definition hs_fub (f : fub) : list hp := hs_sm (tasks f).
Definition hs_gs (gs : list fub) : list hp := flat_map hs_fub gs.

Lemma hs_gs_app a b : hs_gs (a ++ b) = hs_gs a ++ hs_gs b. Proof. apply flat_map_app. Qed.
Lemma hs_gs_split l1 g l2 : hs_gs (l1 ++ g :: l2) = hs_gs l1 ++ hs_fub g ++ hs_gs l2.
Proof. rewrite hs_gs_app. reflexivity. Qed.

Lemma map_fst_hs m : map fst (hs_sm m) = ids_sm m.
Proof. unfold hs_sm, ids_sm. rewrite map_map. reflexivity. Qed.
Lemma map_fst_hs_gs gs : map fst (hs_gs gs) = ids_gs gs.
Proof.
  induction gs as [|g gs IH]; simpl; auto. rewrite map_app, IH. unfold hs_fub, ids_fub. rewrite map_fst_hs. reflexivity.
Qed.

Lemma hs_set m i c c' :
  sm_get m i = Some c ->
  exists R, Permutation (hs_sm m) (pc c :: R) /\ Permutation (hs_sm (sm_set m i c')) (pc c' :: R).
Proof.
  unfold sm_get, hs_sm, sm_set. simpl. intros Hg.
  destruct (nth_error (slots m) i) as [[c0|]|] eqn:Hn; try discriminate. inversion Hg; subst c0.
  destruct (split_nth _ _ Hn) as (a & b & -> & <-). rewrite upd_at, !occ_list_app. simpl.
  rewrite !map_app. simpl. exists (map pc (occ_list a) ++ map pc (occ_list b)).
  split; symmetry; apply Permutation_middle.
Qed.

Lemma hs_insert m c key m' : sm_insert m c = InsOk key m' -> Permutation (hs_sm m') (pc c :: hs_sm m).
Proof.
  unfold sm_insert, hs_sm. destruct (nth_error (slots m) (free_head m)) as [[?|n]|] eqn:Hn; try discriminate.
  intros E; inversion E; subst; clear E. simpl.
  destruct (split_nth _ _ Hn) as (a & b & Hs & Hl). rewrite Hs, <- Hl, upd_at, !occ_list_app. simpl.
  rewrite !map_app. simpl. apply Permutation_sym. apply Permutation_middle.
Qed.

Lemma hs_remove m i c : sm_get m i = Some c -> Permutation (hs_sm m) (pc c :: hs_sm (sm_remove m i)).
Proof.
  unfold sm_get, sm_remove, hs_sm. intros Hg.
  destruct (nth_error (slots m) i) as [[c0|]|] eqn:Hn; try discriminate. inversion Hg; subst c0. simpl.
  destruct (split_nth _ _ Hn) as (a & b & Hs & Hl). rewrite Hs, <- Hl, upd_at, !occ_list_app. simpl.
  rewrite !map_app. simpl. apply Permutation_sym. apply Permutation_middle.
Qed.

Lemma hs_new cap : hs_sm (sm_new cap) = [].
Proof. unfold hs_sm, sm_new. simpl. generalize 1%nat. induction cap; simpl; auto. Qed.

Lemma hs_from_list l : hs_sm (sm_from_list l) = map pc l.
Proof. unfold hs_sm, sm_from_list. simpl. induction l; simpl; auto. rewrite IHl. reflexivity. Qed.

(** ** one poll of a source: [cseq] counts the items it has answered *)
Lemma poll_child_seq c b s w :
  let '(c', r, w') := poll_child KSrc c b s w in
  cid c' = cid c /\ bsuf w w'
  /\ (r = RI /\ cseq c' = S (cseq c) \/ r = RE /\ cseq c' = cseq c \/ r = RP /\ cseq c' = cseq c).
Proof.
  unfold poll_child. destruct (cdone c).
  - split; auto. split; [bs|auto].
  - destruct (cscript c) as [|[acts r0] rest].
    + split; auto. split; [bs|auto].
    + assert (Hb : forall r, r <> RR -> r <> RX ->
                   bsuf w (emit (ECAns (cid c) r) (do_acts (Some (HChild b s)) acts (emit (ECPoll (cid c) b s (b, s)) (g_poll w))))).
      { intros r H1 H2. eapply bsuf_trans; [|apply bsuf_emit; destruct r; try reflexivity; congruence].
        eapply bsuf_trans; [|apply bsuf_do_acts]. bs. }
      destruct r0; cbn [eff_res is_final]; (split; [reflexivity|]); (split; [apply Hb; discriminate|]); auto.
Qed.

(** the drain loop of a merge *)
Lemma drain_seq n f t w :
  let '(f', pr, w') := drain KSrc n f t w in
  bsuf w w' /\ blk f' = blk f /\
  match pr with
  | PReady i c' r =>
      sm_get (tasks f') i = Some c'
      /\ (r = RI /\ YLD (hs_fub f) (cid c') (pred (cseq c')) (hs_fub f')
          \/ r <> RI /\ Permutation (hs_fub f') (hs_fub f))
  | _ => Permutation (hs_fub f') (hs_fub f)
  end.
Proof.
  revert f w. induction n as [|n IH]; intros f w; cbn [drain].
  - split; [apply bsuf_self_wake|]. split; reflexivity.
  - pose proof (bsuf_pop (blk f) w) as Hp. destruct (pop (blk f) w) as [pr w1]. cbn [snd] in Hp.
    destruct pr as [| |i].
    + split; [exact Hp|]. split; reflexivity.
    + split; [eapply bsuf_trans; [exact Hp|apply bsuf_self_wake]|]. split; reflexivity.
    + destruct (sm_get (tasks f) i) as [c|] eqn:Hg.
      * pose proof (poll_child_seq c (blk f) i w1) as Hc.
        destruct (poll_child KSrc c (blk f) i w1) as [[c' r] w2]. destruct Hc as (Hid & Hb & Hr).
        destruct (hs_set _ _ _ c' Hg) as (R & HR & HR').
        assert (Hget : sm_get (sm_set (tasks f) i c') i = Some c').
        { rewrite sm_get_set, Nat.eqb_refl. pose proof (sm_get_lt _ _ Hg) as Hlt.
          destruct (Nat.ltb_spec i (sm_cap (tasks f))); [reflexivity|lia]. }
        destruct Hr as [[-> Hs]|[[-> Hs]|[-> Hs]]]; cbn [is_ready].
        -- split; [eapply bsuf_trans; eauto|]. split; [reflexivity|]. split; [exact Hget|]. left. split; auto.
           exists R, []. unfold hs_fub. cbn [tasks]. rewrite app_nil_r, Hid, Hs. cbn [pred]. split; [exact HR|].
           rewrite HR'. unfold pc. rewrite Hid, Hs. reflexivity.
        -- split; [eapply bsuf_trans; eauto|]. split; [reflexivity|]. split; [exact Hget|]. right. split; [discriminate|].
           unfold hs_fub. cbn [tasks]. rewrite HR, HR'. unfold pc. rewrite Hid, Hs. reflexivity.
        -- specialize (IH {| tasks := sm_set (tasks f) i c'; blk := blk f |} w2).
           destruct (drain KSrc n {| tasks := sm_set (tasks f) i c'; blk := blk f |} t w2) as [[f' pr] w'].
           destruct IH as (I1 & I2 & I3). cbn [blk] in I2.
           assert (Hsame : Permutation (hs_fub {| tasks := sm_set (tasks f) i c'; blk := blk f |}) (hs_fub f)).
           { unfold hs_fub. cbn [tasks]. rewrite HR, HR'. unfold pc. rewrite Hid, Hs. reflexivity. }
           split; [eapply bsuf_trans; [exact Hp|]; eapply bsuf_trans; eauto|]. split; [exact I2|].
           destruct pr as [| |j cj rj].
           ++ rewrite I3. exact Hsame.
           ++ rewrite I3. exact Hsame.
           ++ destruct I3 as (J1 & [[-> J2]|[J2 J3]]); (split; [exact J1|]).
              ** left. split; auto. eapply SUB_YLD; [apply SUB_perm; exact Hsame|exact J2].
              ** right. split; auto. rewrite J3. exact Hsame.
      * specialize (IH f w1). destruct (drain KSrc n f t w1) as [[f' pr] w']. destruct IH as (I1 & I2 & I3).
        split; [eapply bsuf_trans; eauto|]. split; auto.
Qed.

Section WithParams.
Variable P : params.

Lemma poll_inner_seq f t w :
  let '(f', pr, w') := poll_inner_no_remove P KSrc f t w in
  bsuf w w' /\ blk f' = blk f /\
  match pr with
  | PReady i c' r =>
      sm_get (tasks f') i = Some c'
      /\ (r = RI /\ YLD (hs_fub f) (cid c') (pred (cseq c')) (hs_fub f')
          \/ r <> RI /\ Permutation (hs_fub f') (hs_fub f))
  | _ => Permutation (hs_fub f') (hs_fub f)
  end.
Proof.
  unfold poll_inner_no_remove. destruct (Nat.eqb (fub_len f) 0).
  - split; [apply bsuf_refl|]. split; reflexivity.
  - pose proof (drain_seq (pB P) f t (register (blk f) t w)) as H.
    destruct (drain KSrc (pB P) f t (register (blk f) t w)) as [[f' pr] w']. destruct H as (A & B & C).
    split; [eapply bsuf_trans; [apply bsuf_register|exact A]|]. split; auto.
Qed.

Definition yields (hs : list hp) (sp : spoll) (hs' : list hp) : Prop :=
  match sp with
  | SItem tk _ => exists id k, tk = TItem id k /\ YLD hs id k hs'
  | _ => SUB hs hs'
  end.

Lemma yields_SUB a b sp c : SUB a b -> yields b sp c -> yields a sp c.
Proof.
  intros H1 H2. destruct sp as [| |tk c0]; simpl in *; [eapply SUB_trans; eauto|eapply SUB_trans; eauto|].
  destruct H2 as (id & k & E & Y). exists id, k. split; auto. eapply SUB_YLD; eauto.
Qed.

(** MergeBounded's loop *)
Lemma mb_loop_seq n f t w :
  let '(f', sp, w') := mb_poll_loop P n f t w in
  bsuf w w' /\ yields (hs_fub f) sp (hs_fub f').
Proof.
  revert f w. induction n as [|n IH]; intros f w; cbn [mb_poll_loop].
  - split; [bs|apply SUB_refl].
  - pose proof (poll_inner_seq f t w) as H.
    destruct (poll_inner_no_remove P KSrc f t w) as [[f1 pr] w1]. destruct H as (A & B & C).
    destruct pr as [| |i c r].
    + split; auto. apply SUB_perm; auto.
    + split; auto. apply SUB_perm; auto.
    + destruct C as (Hget & C).
      assert (Hrm : r <> RI -> forall f2 w2, fub_remove f1 i w1 = (f2, w2) ->
                let '(f', sp, w') := mb_poll_loop P n f2 t w2 in
                bsuf w w' /\ yields (hs_fub f) sp (hs_fub f')).
      { intros Hne f2 w2 E. destruct C as [[-> _]|[_ C]]; [congruence|].
        pose proof (bsuf_fub_remove f1 i w1) as Hr. rewrite E in Hr. cbn [snd] in Hr.
        unfold fub_remove in E. rewrite Hget in E. inversion E; subst f2 w2. clear E.
        specialize (IH {| tasks := sm_remove (tasks f1) i; blk := blk f1 |} (emit (ECDrop (cid c) (Some (blk f1, i))) w1)).
        destruct (mb_poll_loop P n _ t _) as [[f' sp] w']. destruct IH as [I1 I2].
        split; [eapply bsuf_trans; [exact A|]; eapply bsuf_trans; eauto|].
        eapply yields_SUB; [|exact I2]. exists [pc c]. unfold hs_fub in *. cbn [tasks].
        rewrite <- C. rewrite (hs_remove _ _ _ Hget). permhp. }
      destruct r; try (destruct (fub_remove f1 i w1) as [f2 w2] eqn:E; apply (Hrm ltac:(discriminate) f2 w2 eq_refl)).
      destruct C as [[_ Y]|[Hne _]]; [|congruence].
      split.
      * eapply bsuf_trans; [exact A|]. eapply bsuf_trans; [|apply bsuf_enqueue]. bs.
      * simpl. exists (cid c), (pred (cseq c)). split; auto.
Qed.

Lemma mb_poll_seq f t w :
  let '(f', sp, w') := mb_poll_next P f t w in bsuf w w' /\ yields (hs_fub f) sp (hs_fub f').
Proof. apply mb_loop_seq. Qed.

(** MergeUnbounded's loop over the groups *)
Lemma fu_loop_seq n u t w :
  let '(u', sp, w') := fu_loop P true n u t w in
  bsuf w w' /\ yields (hs_gs (groups u)) sp (hs_gs (groups u')).
Proof.
  revert u w. induction n as [|n IH]; intros u w; cbn [fu_loop].
  - destruct (forallb _ _); (split; [apply bsuf_refl|apply SUB_refl]).
  - set (cur := if Nat.leb (length (groups u)) (cursor u) then 0 else cursor u).
    destruct (nth_error (groups u) cur) as [g|] eqn:Hg; [|split; [bs|apply SUB_refl]].
    destruct (nth_split_fub _ _ Hg) as (l1 & l2 & Hsplit & Hl1).
    unfold poll_group. pose proof (mb_poll_seq g t w) as Hp.
    destruct (mb_poll_next P g t w) as [[g' sp] w1]. destruct Hp as [A B].
    assert (Hupd : upd (groups u) cur g' = l1 ++ g' :: l2) by (rewrite Hsplit, <- Hl1; apply upd_split).
    assert (Hrm : remove_nth (groups u) cur = l1 ++ l2) by (rewrite Hsplit, <- Hl1; apply remove_nth_split).
    destruct sp as [| |tk c].
    + specialize (IH (set_groups u (upd (groups u) cur g') (S cur)) w1).
      destruct (fu_loop P true n _ t w1) as [[u' sp'] w']. destruct IH as [I1 I2]. cbn [groups set_groups] in I2.
      split; [eapply bsuf_trans; eauto|]. eapply yields_SUB; [|exact I2].
      rewrite Hupd, Hsplit, !hs_gs_split. apply SUB_mid. exact B.
    + rewrite Hrm. destruct (l1 ++ l2) as [|g0 gs0] eqn:Hgs.
      * apply app_eq_nil in Hgs as [-> ->]. split; auto. cbn [groups set_groups yields].
        rewrite Hsplit. simpl. rewrite !app_nil_r. exact B.
      * rewrite <- Hgs.
        assert (Hsub1 : SUB (hs_gs (groups u)) (hs_gs ((l1 ++ l2) ++ [g']))).
        { rewrite Hsplit, hs_gs_split, !hs_gs_app. simpl. rewrite app_nil_r.
          eapply SUB_trans; [apply SUB_mid; exact B|]. apply SUB_perm. permhp. }
        assert (Hsub2 : SUB (hs_gs (groups u)) (hs_gs (l1 ++ l2))).
        { rewrite Hsplit, hs_gs_split, hs_gs_app. apply SUB_drop. }
        destruct (Nat.eqb cur (length (l1 ++ l2))).
        -- specialize (IH (set_groups u ((l1 ++ l2) ++ [g']) 0) w1).
           destruct (fu_loop P true n _ t w1) as [[u' sp'] w']. destruct IH as [I1 I2]. cbn [groups set_groups] in I2.
           split; [eapply bsuf_trans; eauto|]. eapply yields_SUB; [exact Hsub1|exact I2].
        -- specialize (IH (set_groups u (l1 ++ l2) cur) (fub_drop g' w1)).
           destruct (fu_loop P true n _ t (fub_drop g' w1)) as [[u' sp'] w']. destruct IH as [I1 I2]. cbn [groups set_groups] in I2.
           split; [eapply bsuf_trans; [exact A|]; eapply bsuf_trans; [apply bsuf_fub_drop|exact I1]|].
           eapply yields_SUB; [exact Hsub2|exact I2].
    + split; auto. cbn [groups yields]. destruct B as (id & k & E & Y). exists id, k. split; auto.
      rewrite Hupd, Hsplit, !hs_gs_split. apply YLD_mid. exact Y.
Qed.

Lemma fu_poll_seq u t w :
  let '(u', sp, w') := fu_poll_next P true u t w in
  bsuf w w' /\ yields (hs_gs (groups u)) sp (hs_gs (groups u')).
Proof.
  unfold fu_poll_next. destruct (groups u) eqn:Hg; [split; [apply bsuf_refl|rewrite Hg; apply SUB_refl]|].
  rewrite <- Hg. apply fu_loop_seq.
Qed.

End WithParams.

(** ** one operation of a history *)
Section Steps.
Variable P : params.
Hypothesis HP : params_ok P.

Definition hs_coll (k : coll) : list hp :=
  match k with CMb f => hs_fub f | CMu u => hs_gs (groups u) | _ => [] end.

Definition mty (k : coll) : Prop :=
  match k with CMb _ | CMu _ | CNone | CDead | CDropped => True | _ => False end.
Definition m_ctype (t : ctype) : bool := match t with TMB | TMU => true | _ => false end.
Definition m_op (o : op) : Prop := match o with OBuild t _ _ _ => m_ctype t = true | _ => True end.

Definition MSTEP (k : coll) (o : op) (w : world) (k' : coll) (w' : world) : Prop :=
  exists l, log w' = l ++ log w /\
    match handed l with
    | [] => exists gone, Permutation (map p0 (taken_op k o k' l) ++ hs_coll k) (hs_coll k' ++ gone)
    | [TItem id n] => taken_op k o k' l = [] /\ YLD (hs_coll k) id n (hs_coll k')
    | _ => False
    end.

Lemma both_suf w w' : bsuf w w' -> qsuf w w' -> exists l, log w' = l ++ log w /\ handed l = [] /\ rok l = false.
Proof.
  intros (l1 & H1 & _ & _ & A) (l2 & H2 & _ & _ & B). exists l1. splits; auto.
  rewrite H1 in H2. apply app_inv_tail in H2. subst l2. exact B.
Qed.

(** an operation that hands out nothing, takes nothing and keeps the collection *)
Lemma MSTEP_quiet k o w w' :
  (match o with OBuild _ _ _ _ | OPush _ _ | OPushF _ _ | OTryPush _ _ | OTryPushF _ _ => False | _ => True end) ->
  bsuf w w' -> MSTEP k o w k w'.
Proof.
  intros Ho (l & H & _ & _ & A). exists l. split; auto. rewrite A. exists [].
  rewrite app_nil_r. destruct o; try contradiction; reflexivity.
Qed.

Definition all_zero (hs : list hp) : Prop := Forall (fun x => snd x = 0) hs.
Lemma all_zero_p0 hs : all_zero hs -> hs = map p0 (map fst hs).
Proof.
  induction 1 as [|[id n] hs Hx _ IH]; simpl; auto. simpl in Hx. subst n. rewrite <- IH. reflexivity.
Qed.

Lemma fub_try_push_hs f c w :
  match fub_try_push f c w with
  | (PushOk f', _) => Permutation (hs_fub f') (pc c :: hs_fub f)
  | _ => True
  end.
Proof.
  unfold fub_try_push. destruct (sm_insert (tasks f) c) as [key m| |] eqn:Hi; auto.
  apply (hs_insert _ _ _ _ Hi).
Qed.

Lemma fub_new_hs cap w : hs_fub (fst (fub_new cap w)) = [].
Proof.
  unfold fub_new. destruct (alloc_block cap _) as [b w1]. apply hs_new.
Qed.

(** structurally a push adds the source or (unreachable arms) changes nothing *)
Lemma fu_push_hs mrg u c w :
  Permutation (hs_gs (groups (fst (fu_push P mrg u c w)))) (pc c :: hs_gs (groups u))
  \/ hs_gs (groups (fst (fu_push P mrg u c w))) = hs_gs (groups u).
Proof.
  unfold fu_push. cbn [groups rem cursor gcap].
  set (u0 := {| groups := groups u; rem := if mrg then rem u else S (rem u); cursor := cursor u; gcap := gcap u |}).
  assert (H1 : let '(u1, w1) := match groups u with
                                | [] => let '(g, w0) := fub_new (pMinCap P) w in push_group u0 g w0
                                | _ :: _ => (u0, w) end in
               hs_gs (groups u1) = hs_gs (groups u)).
  { destruct (groups u) eqn:Hg; [|subst u0; simpl; reflexivity].
    pose proof (fub_new_hs (pMinCap P) w) as A. destruct (fub_new (pMinCap P) w) as [g w0]. cbn [fst] in A.
    unfold push_group. destruct (vec_grow _ _). cbn [fst snd groups].
    subst u0. cbn [groups]. simpl. rewrite A. reflexivity. }
  destruct (match groups u with [] => _ | _ :: _ => _ end) as [u1 w1].
  destruct (last_opt (groups u1)) as [lastg|] eqn:Hl; [|cbn [fst]; right; auto].
  destruct (last_split _ Hl) as [l1 Hs].
  pose proof (fub_try_push_hs lastg c w1) as Hp.
  destruct (fub_try_push lastg c w1) as [[g'| |] w2].
  - cbn [fst groups]. left.
    assert (Hupd : upd (groups u1) (pred (length (groups u1))) g' = l1 ++ [g']).
    { rewrite Hs, app_length. simpl. replace (pred (length l1 + 1)) with (length l1) by lia. clear.
      induction l1; simpl; auto. rewrite IHl1; auto. }
    rewrite Hupd, <- H1, Hs, !hs_gs_app. simpl. rewrite !app_nil_r.
    rewrite Hp. apply Permutation_sym. apply Permutation_middle.
  - pose proof (fub_new_hs (fub_cap lastg * pGrowth P) w2) as A.
    destruct (fub_new (fub_cap lastg * pGrowth P) w2) as [gnew w3]. cbn [fst] in A.
    pose proof (fub_try_push_hs gnew c w3) as Hp2.
    destruct (fub_try_push gnew c w3) as [[g'| |] w4].
    + unfold push_group. destruct (vec_grow _ _). cbn [fst groups]. left.
      rewrite hs_gs_app, <- H1. simpl. rewrite app_nil_r, Hp2, A.
      apply Permutation_sym. apply Permutation_cons_append.
    + cbn [fst]. right; auto.
    + cbn [fst]. right; auto.
  - cbn [fst]. right; auto.
Qed.

Lemma fu_push_adds u c w :
  winv (cnt (blks (groups u))) None w -> fu_ok true u ->
  Permutation (hs_gs (groups (fst (fu_push P true u c w)))) (pc c :: hs_gs (groups u)).
Proof.
  intros Hw Hok. destruct (fu_push_hs true u c w) as [H|H]; auto. exfalso.
  destruct (@fu_push_bal P HP true u c w Hw Hok) as [Hb _].
  apply Permutation_length in Hb. rewrite <- !map_fst_hs_gs, H in Hb. simpl in Hb. lia.
Qed.

Lemma fu_push_fold_zero l u w :
  all_zero (hs_gs (groups u)) -> Forall (fun c => cseq c = 0) l ->
  all_zero (hs_gs (groups (fst (fold_left (fun uw c => fu_push P true (fst uw) c (snd uw)) l (u, w))))).
Proof.
  revert u w. induction l as [|c l IH]; intros u w Hz Hl; simpl; auto.
  inversion Hl as [|c0 l0 Hc Hl']; subst.
  destruct (fu_push P true u c w) as [u1 w1] eqn:E. apply IH; auto.
  pose proof (fu_push_hs true u c w) as H. rewrite E in H. cbn [fst] in H.
  destruct H as [H|H]; [|rewrite H; auto].
  unfold all_zero. eapply Permutation_Forall; [symmetry; exact H|]. constructor; auto.
Qed.

Lemma mk_children_zero inits : Forall (fun c => cseq c = 0) (mk_children inits).
Proof. unfold mk_children. apply Forall_forall. intros c Hin. apply in_map_iff in Hin as (x & <- & _). reflexivity. Qed.

Lemma build_mstep ty p inits ups w :
  m_ctype ty = true -> winv (cnt []) None w ->
  MSTEP CNone (OBuild ty p inits ups) w (fst (build P ty p inits ups w)) (snd (build P ty p inits ups w))
  /\ mty (fst (build P ty p inits ups w)).
Proof.
  intros Hty Hw.
  assert (Hgen : forall k' w', bsuf w w' -> all_zero (hs_coll k') -> map fst (hs_coll k') = held_ids k' ->
                               MSTEP CNone (OBuild ty p inits ups) w k' w').
  { intros k' w' (l & H & _ & _ & A) Hz Hm. exists l. split; auto. rewrite A. exists [].
    cbn [taken_op hs_coll]. rewrite !app_nil_r, <- Hm. rewrite <- all_zero_p0; auto. }
  unfold build. destruct ty; try discriminate.
  - (* MergeBounded: from an iterator *)
    pose proof (bsuf_fub_from_list (mk_children inits) w) as Hb.
    destruct (fub_from_list (mk_children inits) w) as [f w1] eqn:E. cbn [fst snd] in *.
    assert (Hf : tasks f = sm_from_list (mk_children inits)).
    { unfold fub_from_list in E. destruct (alloc_block _ _) in E. inversion E; reflexivity. }
    split; [|exact I]. apply Hgen; auto.
    + cbn [hs_coll]. unfold hs_fub. rewrite Hf, hs_from_list. unfold all_zero. rewrite Forall_map.
      eapply Forall_impl; [|apply mk_children_zero]. intros c Hc. exact Hc.
    + cbn [hs_coll held_ids]. unfold hs_fub, ids_fub. apply map_fst_hs.
  - (* MergeUnbounded *)
    destruct (p_iter p).
    + pose proof (bsuf_fu_from_list P true (lazy_hint p (mk_children inits)) (mk_children inits) w) as Hb.
      pose proof (fu_push_fold_zero (mk_children inits) fu_empty w) as Hz.
      unfold fu_from_list in *. destruct (fold_left _ _ _) as [u w1]. cbn [fst snd] in *.
      split; [|exact I]. apply Hgen; auto.
      * apply Hz; [constructor|apply mk_children_zero].
      * apply map_fst_hs_gs.
    + destruct (p_new p).
      * cbn [fst snd]. split; [|exact I]. apply Hgen; [apply bsuf_refl|constructor|reflexivity].
      * pose proof (bsuf_fu_with_capacity (p_cap p) w) as Hb.
        assert (Hz : hs_gs (groups (fst (fu_with_capacity (p_cap p) w))) = []).
        { unfold fu_with_capacity. destruct (Nat.eqb (p_cap p) 0); [reflexivity|].
          pose proof (fub_new_hs (p_cap p) w) as A. destruct (fub_new (p_cap p) w) as [g w0]. cbn [fst groups] in *.
          simpl. rewrite A. reflexivity. }
        destruct (fu_with_capacity (p_cap p) w) as [u w1]. cbn [fst snd] in *.
        split; [|exact I]. apply Hgen; auto.
        -- cbn [hs_coll]. rewrite Hz. constructor.
        -- apply map_fst_hs_gs.
Qed.

Lemma do_push_mstep (tr front : bool) c sc k w :
  cinv k w -> mty k ->
  let o := if tr then (if front then OTryPushF c sc else OTryPush c sc) else (if front then OPushF c sc else OPush c sc) in
  MSTEP k o w (fst (do_push P tr front c sc k w)) (snd (do_push P tr front c sc k w))
  /\ mty (fst (do_push P tr front c sc k w)).
Proof.
  intros [Hw Hok] Hk. cbv zeta.
  set (o := if tr then (if front then OTryPushF c sc else OTryPush c sc) else (if front then OPushF c sc else OPush c sc)).
  assert (Hto : forall k' l, taken_op k o k' l = if rok l then [c] else [])
    by (intros; subst o; destruct tr, front; reflexivity).
  assert (Hnil : MSTEP k o w k w).
  { exists []. split; [reflexivity|]. simpl. exists []. rewrite Hto. simpl. rewrite app_nil_r. reflexivity. }
  assert (Hrefuse : forall w1, bsuf w w1 -> qsuf w w1 ->
            MSTEP k o w k (if tr then refused_result c w1 else bounded_push_result c false w1)).
  { intros w1 Hb Hq. destruct (both_suf _ _ Hb Hq) as (l & H & A & B).
    destruct tr; unfold refused_result, bounded_push_result; cbn [log emit].
    - exists (ERet RetRefused :: ECDrop c None :: ERefused c :: l). split; [simpl; rewrite H; reflexivity|].
      unfold handed in *. cbn [flat_map hand_ev ret_toks app]. rewrite A. exists [].
      rewrite Hto. cbn [rok existsb rok_ev orb]. fold (rok l). rewrite B. simpl. rewrite app_nil_r. reflexivity.
    - exists (ERet RetPanic :: ECDrop c None :: l). split; [simpl; rewrite H; reflexivity|].
      unfold handed in *. cbn [flat_map hand_ev ret_toks app]. rewrite A. exists [].
      rewrite Hto. cbn [rok existsb rok_ev orb]. fold (rok l). rewrite B. simpl. rewrite app_nil_r. reflexivity. }
  assert (Hok' : forall k' w1, bsuf w w1 -> Permutation (hs_coll k') (pc (mk_child c sc) :: hs_coll k) ->
            MSTEP k o w k' (emit (ERet RetOk) w1)).
  { intros k' w1 (l & H & _ & _ & A) Hp. exists (ERet RetOk :: l). split; [simpl; rewrite H; reflexivity|].
    unfold handed in *. cbn [flat_map hand_ev ret_toks app]. rewrite A. exists [].
    rewrite Hto. cbn [rok existsb rok_ev orb]. rewrite app_nil_r, Hp. reflexivity. }
  unfold do_push. destruct k; try contradiction; cbn [fst snd]; auto.
  - (* MergeBounded *)
    destruct front; cbn [fst snd]; auto.
    pose proof (fub_try_push_hs f (mk_child c sc) w) as Hh.
    pose proof (fub_try_push_bal f (mk_child c sc) w) as Hq.
    pose proof (bsuf_fub_try_push f (mk_child c sc) w) as Hb.
    destruct (fub_try_push f (mk_child c sc) w) as [[f'| |] w1]; cbn [fst snd] in *.
    + split; [|exact I]. apply Hok'; auto.
    + split; [|exact I]. apply Hrefuse; auto.
    + split; [|exact I]. apply Hrefuse; auto.
  - (* MergeUnbounded *)
    destruct (tr || front); cbn [fst snd]; auto.
    simpl in Hw, Hok.
    pose proof (@fu_push_adds u (mk_child c sc) w Hw Hok) as Hh.
    pose proof (bsuf_fu_push P true u (mk_child c sc) w) as Hb.
    destruct (fu_push P true u (mk_child c sc) w) as [u1 w1]. cbn [fst snd] in *.
    split; [|exact I]. apply Hok'; auto.
Qed.

Lemma do_poll_mstep t i k w :
  mty k -> MSTEP k (OPoll t i) w (fst (do_poll P t k w)) (snd (do_poll P t k w)) /\ mty (fst (do_poll P t k w)).
Proof.
  intros Hk.
  assert (Hgen : forall k' sp w1, bsuf w w1 -> yields (hs_coll k) sp (hs_coll k') ->
                                  MSTEP k (OPoll t i) w k' (emit_ret (spoll_ret sp) w1)).
  { intros k' sp w1 (l & H & _ & _ & A) Y.
    destruct (emit_ret_tok (spoll_ret sp) w1) as (l1 & H1 & _ & _ & A1).
    exists (l1 ++ l). split; [rewrite H1, H, app_assoc; reflexivity|].
    rewrite handed_app, A, app_nil_r, A1, spoll_ret_toks.
    destruct sp as [| |tk c0]; cbn [sp_tok yields] in *.
    - destruct Y as [g Y]. exists g. exact Y.
    - destruct Y as [g Y]. exists g. exact Y.
    - destruct Y as (id & n & -> & Y). split; auto. }
  unfold do_poll. destruct k; try contradiction; cbn [fst snd]; auto;
    try (split; [apply MSTEP_quiet; [exact I|apply bsuf_refl]|exact I]).
  - pose proof (mb_poll_seq P f t w) as H. destruct (mb_poll_next P f t w) as [[f' sp] w1]. destruct H as [A B].
    cbn [fst snd]. split; [|exact I]. apply Hgen; auto.
  - pose proof (fu_poll_seq P u t w) as H. destruct (fu_poll_next P true u t w) as [[u' sp] w1]. destruct H as [A B].
    cbn [fst snd]. split; [|exact I]. apply Hgen; auto.
Qed.

Lemma do_drop_mstep k w :
  mty k -> MSTEP k ODropColl w (fst (do_drop k w)) (snd (do_drop k w)) /\ mty (fst (do_drop k w)).
Proof.
  intros Hk.
  assert (Hgen : forall w1, bsuf w w1 -> MSTEP k ODropColl w CDropped w1).
  { intros w1 (l & H & _ & _ & A). exists l. split; auto. rewrite A. exists (hs_coll k). reflexivity. }
  unfold do_drop. destruct k; try contradiction; cbn [fst snd];
    try (split; [apply MSTEP_quiet; [exact I|apply bsuf_refl]|exact I]).
  - split; [|exact I]. apply Hgen. apply bsuf_fub_drop.
  - split; [|exact I]. apply Hgen. unfold fu_drop. apply bsuf_fu_drop.
Qed.

Lemma step_core_mstep k o w :
  cinv k w -> mty k -> m_op o ->
  MSTEP k o w (fst (step_core P k o w)) (snd (step_core P k o w)) /\ mty (fst (step_core P k o w)).
Proof.
  intros Hc Hk Ho. unfold step_core.
  destruct o as [ty p inits ups|c sc|c sc|c sc|c sc|t i|a| | | | ].
  - destruct k; try contradiction; cbn [fst snd];
      try (split; [|exact I]; exists []; split; [reflexivity|]; simpl; exists []; rewrite ?app_nil_r; reflexivity).
    destruct Hc as [Hw _]. apply build_mstep; auto.
  - apply (@do_push_mstep false false c sc k w Hc Hk).
  - apply (@do_push_mstep false true c sc k w Hc Hk).
  - apply (@do_push_mstep true false c sc k w Hc Hk).
  - apply (@do_push_mstep true true c sc k w Hc Hk).
  - apply do_poll_mstep; auto.
  - cbn [fst snd]. split; auto. apply MSTEP_quiet; [exact I|apply bsuf_do_act].
  - cbn [fst snd]. split; auto. apply MSTEP_quiet; [exact I|]. destruct (observe P k); bs.
  - cbn [fst snd]. split; auto. apply MSTEP_quiet; [exact I|bs].
  - apply do_drop_mstep; auto.
  - cbn [fst snd]. split; auto. apply MSTEP_quiet; [exact I|]. unfold cleanup. apply bsuf_cleanup_from.
Qed.

End Steps.

(** ** whole histories *)
Section History.
Variable P : params.
Hypothesis HP : params_ok P.

Theorem merge_ledger_from s ops H T :
  Inv s -> mty (st_coll s) -> Forall m_op ops ->
  MI (hs_coll (st_coll s)) H T -> NoDup (T ++ taken_in P s ops) ->
  MI (hs_coll (st_coll (run_state P s ops))) (H ++ handed_in P s ops) (T ++ taken_in P s ops).
Proof.
  revert s H T. induction ops as [|o ops IH]; intros s H T Hs Hk Hall Hmi Hnd.
  - unfold handed_in, taken_in. simpl. rewrite !app_nil_r. exact Hmi.
  - inversion Hall as [|o' ops' Ho Hall']; subst.
    unfold handed_in, taken_in in *. simpl. simpl in Hnd. rewrite !flat_map_app in *.
    destruct (is_dead (st_coll s)) eqn:Hd.
    + assert (Hfix : fst (step_op P s o) = s) by (unfold step_op; rewrite Hd; reflexivity).
      rewrite Hfix in *. simpl in *. apply IH; auto.
    + simpl in *. rewrite !app_nil_r in *.
      pose proof (step_inv HP o Hs) as Hs'.
      set (s' := fst (step_op P s o)) in *.
      set (tk := taken_op (st_coll s) o (st_coll s') (log (st_world s'))) in *.
      assert (Hstep : MSTEP (st_coll s) o (begin_op (op_inj o) (st_world s)) (st_coll s') (st_world s')
                      /\ mty (st_coll s')).
      { unfold s', step_op. rewrite Hd.
        assert (Hc : cinv (st_coll s) (begin_op (op_inj o) (st_world s))).
        { destruct Hs as [Hw Hok]. split; auto. apply winv_begin_op; auto. }
        pose proof (@step_core_mstep P HP (st_coll s) o _ Hc Hk Ho) as X.
        destruct (step_core P (st_coll s) o (begin_op (op_inj o) (st_world s))) as [k' w']. exact X. }
      destruct Hstep as [(l & Hl & Hm) Hk'].
      simpl in Hl. rewrite app_nil_r in Hl. rewrite <- Hl in Hm. fold tk in Hm.
      assert (Hnd1 : NoDup (T ++ tk)) by (rewrite app_assoc in Hnd; eapply NoDup_app_l; eauto).
      assert (Hmi' : MI (hs_coll (st_coll s')) (H ++ handed (log (st_world s'))) (T ++ tk)).
      { destruct (handed (log (st_world s'))) as [|t0 [|t1 rest]].
        - destruct Hm as [gone Hp]. rewrite app_nil_r.
          apply (@MI_sub (hs_coll (st_coll s') ++ gone)); [exists gone; reflexivity|].
          eapply MI_take; eauto. symmetry. exact Hp.
        - destruct t0; try contradiction. destruct Hm as [Htk Y]. rewrite Htk, app_nil_r.
          eapply MI_yld; eauto.
        - destruct t0; contradiction. }
      specialize (IH s' _ _ Hs' Hk' Hall' Hmi'). rewrite <- !app_assoc in IH. apply IH.
      exact Hnd.
Qed.

(** *** C11: over any history of a merge whose accepted sources have distinct ids, the items
    handed out for each source are numbered 0, 1, 2, ... in that order *)
Theorem merge_sources_in_order ops :
  Forall m_op ops -> NoDup (taken_in P init_state ops) ->
  forall id, exists n, seqs id (handed_in P init_state ops) = seq 0 n.
Proof.
  intros Hall Hnd. pose proof (@merge_ledger_from init_state ops [] [] Inv_init I Hall MI_init Hnd) as M.
  simpl in M. destruct M as [_ _ C _ _]. exact C.
Qed.

(** a source the merge still holds has had every item it produced handed out *)
Theorem merge_held_source_fully_delivered ops id n :
  Forall m_op ops -> NoDup (taken_in P init_state ops) ->
  In (id, n) (hs_coll (st_coll (reach P ops))) -> seqs id (handed_in P init_state ops) = seq 0 n.
Proof.
  intros Hall Hnd Hin. pose proof (@merge_ledger_from init_state ops [] [] Inv_init I Hall MI_init Hnd) as M.
  simpl in M. destruct M as [_ B _ _ _]. apply B. exact Hin.
Qed.

(** nothing but items of sources the merge was given is ever handed out *)
Theorem merge_hands_out_only_items_of_its_sources ops :
  Forall m_op ops -> NoDup (taken_in P init_state ops) ->
  Forall (fun t => exists id n, t = TItem id n /\ In id (taken_in P init_state ops)) (handed_in P init_state ops).
Proof.
  intros Hall Hnd. pose proof (@merge_ledger_from init_state ops [] [] Inv_init I Hall MI_init Hnd) as M.
  simpl in M. destruct M as [_ _ _ Hknown Hi]. rewrite Forall_forall in *. intros t Ht.
  destruct (Hi t Ht) as (id & n & ->). exists id, n. split; auto.
  apply Hknown. left. intros Hs.
  assert (Hin : In n (seqs id (handed_in P init_state ops))).
  { unfold seqs. apply in_flat_map. exists (TItem id n). split; auto. simpl. rewrite N.eqb_refl. left; auto. }
  rewrite Hs in Hin. exact Hin.
Qed.

End History.
