(** * C03 — shared waker state: no race, no use-after-free, freed exactly once
    (property theorems only; proofs live in the files they are taken from) *)
From FB Require Import Base Syntax World Step Orderings WorldProofs UnboundedProofs StepProofs Reach.

(** (c) with orderings satisfying the side condition (checked against the source text on
    every run, [FBGen.OrderingsInst.orderings_ok]) every access to the shared block by
    any owner happens-before its deallocation, for any number of owners and whichever
    owner turns out to be the last one. *)
Theorem C03_release_acquire :
  forall (inc dec : mord) (fence : option mord) (n last : nat),
    orderings_sufficient inc dec fence = true ->
    forall i, i < n -> hb dec fence n last (Acc i) FreeBlk.
Proof. exact sufficient_hb. Qed.
Print Assumptions C03_release_acquire.

(** the side condition is not vacuous: without it some owner's accesses are unordered
    with the deallocation *)
Theorem C03_side_condition_needed :
  forall (inc dec : mord) (fence : option mord) (n last : nat),
    orderings_sufficient inc dec fence = false ->
    forall i, i < n -> i <> last -> ~ hb dec fence n last (Acc i) FreeBlk.
Proof. exact insufficient_no_hb. Qed.
Print Assumptions C03_side_condition_needed.

(** (a) in every reachable state of every history (any interleaving of push / poll / wake /
    clone / drop / completion / drop of the collection, any number of handles, handles of
    finished children, of reused slots, of discarded groups, of dropped collections): the
    count of every block = the collection's own references + the live cloned wakers pointing
    to it, and the block is released iff that count is 0 *)
Theorem C03_refcount_exact :
  forall (P : params), params_ok P -> forall (ops : list op) (b : nat) (k : block),
  let s := reach P ops in
  get_blk (st_world s) b = Some k ->
  bstrong k = cnt (coll_blks (st_coll s)) b + hcount (handles (st_world s)) b
  /\ (bfreed k = true <-> bstrong k = 0).
Proof. exact refcount_exact. Qed.
Print Assumptions C03_refcount_exact.

(** a live waker never points to a released block (no use after free through any handle) *)
Theorem C03_handle_target_alive :
  forall (P : params), params_ok P -> forall (ops : list op) (h b sl : nat),
  let s := reach P ops in
  nth_error (handles (st_world s)) h = Some (Some (HChild b sl)) ->
  exists k, get_blk (st_world s) b = Some k /\ bfreed k = false.
Proof. exact handle_target_alive. Qed.
Print Assumptions C03_handle_target_alive.

(** no operation of any history ever runs a vtable entry (wake, wake_by_ref, clone, drop) or
    a count update on a released or non-existent block: the model marks such an access with
    [EVtBad], and that event is never emitted *)
Theorem C03_no_access_to_released_block :
  forall (P : params), params_ok P -> forall (ops : list op),
  Forall (Forall (fun e => bad_event e = false)) (run P init_state ops).
Proof. exact run_events_clean. Qed.
Print Assumptions C03_no_access_to_released_block.

(** no leak: once the collection is gone and every cloned waker was dropped, every block is released *)
Theorem C03_no_leak :
  forall (P : params), params_ok P -> forall (ops : list op),
  let s := reach P ops in
  coll_blks (st_coll s) = [] ->
  (forall h x, nth_error (handles (st_world s)) h = Some (Some x) -> exists t, x = HTask t) ->
  forall b k, get_blk (st_world s) b = Some k -> bfreed k = true.
Proof. exact no_leak. Qed.
Print Assumptions C03_no_leak.

(** a single waker action never breaks the block / count invariant, whatever handle it uses *)
Theorem C03_waker_action_safe :
  forall (own : nat -> nat) (cur : cur_t) (cw : option handle) (a : act) (w : world),
  winv own cur w -> cw_ok own cw -> winv own cur (do_act cw a w).
Proof. exact winv_do_act. Qed.
Print Assumptions C03_waker_action_safe.

(** (d) the pointer arithmetic of the block: for all header / item sizes, power-of-two alignments,
    capacities and item indices (the stub included).  [Calib.layout_ok] (generated, checked on
    every run) shows that these formulas give the implementation's slice offset and the
    implementation's (size, align) for every probed capacity. *)
From FB Require Import Layout.
Local Open Scope Z_scope.

Theorem C03_mask_formula_rounds_up :
  forall len k : Z, 0 <= k -> round_up_mask len (2 ^ k) = round_up len (2 ^ k).
Proof. exact mask_is_round_up. Qed.
Print Assumptions C03_mask_formula_rounds_up.

Theorem C03_items_inside_the_allocation_and_aligned :
  forall hs isz ka ki : Z, 0 <= ka -> 0 <= ki -> 0 < isz -> isz mod 2 ^ ki = 0 ->
  forall cap i : Z, 0 <= i <= cap ->
  hs <= item_off hs isz ki i /\ item_off hs isz ki i + isz <= block_size hs isz ka ki cap
  /\ (item_off hs isz ki i) mod 2 ^ ki = 0.
Proof. exact item_inside. Qed.
Print Assumptions C03_items_inside_the_allocation_and_aligned.

Theorem C03_items_disjoint :
  forall hs isz ka ki : Z, 0 <= ka -> 0 <= ki -> 0 < isz -> forall i j : Z, 0 <= i < j ->
  item_off hs isz ki i + isz <= item_off hs isz ki j.
Proof. exact items_disjoint. Qed.
Print Assumptions C03_items_disjoint.

Theorem C03_header_found_from_any_item :
  forall hs isz ki base i : Z, meta_raw hs isz ki (base + item_off hs isz ki i) i = base.
Proof. intros hs isz ki base i. exact (meta_raw_correct hs isz 0 ki base i). Qed.
Print Assumptions C03_header_found_from_any_item.

(** (b) the count protocol under any interleaving of atomic steps of any number of owners on
    any threads (clone = fetch_add creating a new owner, use = an access, drop = fetch_sub; the
    owner that reads 1 releases): counter = live owners, released iff none is left, released at
    most once, no step ever touches a released block - for every schedule *)
From FB Require Import ConcRefcount.

Theorem C03_every_interleaving_of_owners :
  forall sched : list (nat * action), rc_inv (run rc_init sched).
Proof. exact every_interleaving. Qed.
Print Assumptions C03_every_interleaving_of_owners.

Theorem C03_released_by_the_last_drop_only :
  forall (s : rc) (i : nat) (a : action),
  rc_inv s -> released s = false -> released (step s i a) = true ->
  a = Drop /\ live_at s i = true /\ live_count (owners s) = 1%nat.
Proof. exact released_by_the_last_drop. Qed.
Print Assumptions C03_released_by_the_last_drop_only.
