(** * C03 — shared waker state: no race, no use-after-free, freed exactly once
    (property theorems only; proofs live in the files they are taken from) *)
From FB Require Import Base Orderings.

(** (c) with orderings satisfying the side condition (checked against the source text on
    every run, [FBGen.OrderingsInst.orderings_ok]) every access to the shared block by
    any owner happens-before its deallocation, for any number of owners and whichever
    owner turns out to be the last one. *)
Theorem C03_release_acquire :
  forall (inc dec : mord) (fence : option mord) (n last : nat),
    orderings_sufficient inc dec fence = true ->
    forall i, i < n -> hb dec fence n last (Acc i) FreeBlk.
Proof. exact sufficient_hb. Qed.

(** the side condition is not vacuous: without it some owner's accesses are unordered
    with the deallocation *)
Theorem C03_side_condition_needed :
  forall (inc dec : mord) (fence : option mord) (n last : nat),
    orderings_sufficient inc dec fence = false ->
    forall i, i < n -> i <> last -> ~ hb dec fence n last (Acc i) FreeBlk.
Proof. exact insufficient_no_hb. Qed.
