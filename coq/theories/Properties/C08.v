(** C08 — pinned futures never move.  The address of a child in the model is (waker block of its
    group, slot index); that the Box-ed slot array itself does not move is Rust semantics, tied by
    the harness comparing the real addresses of a !Unpin child at every poll and at drop. *)
From FB Require Import Base Syntax World SlotMap Fub Unbounded Ordered JoinProofs AddrProofs.

(** polling: every child keeps its slot and its identity; only the finished one leaves *)
Theorem C08_poll_in_place :
  forall (k : ckind) (n : nat) (f : fub) (t : nat) (w : world),
  let '(f', pr, _) := drain k n f t w in
  same_ids (tasks f) (tasks f')
  /\ match pr with PReady i c r => sm_get (tasks f') i = Some c | _ => True end.
Proof. exact drain_ids. Qed.
Print Assumptions C08_poll_in_place.

Theorem C08_stream_poll_keeps_addresses :
  forall (P : params) (k : ckind) (f : fub) (t : nat) (w : world),
  let '(f', sp, _) := fub_poll_next P k f t w in blk f' = blk f /\ sub_ids (tasks f) (tasks f').
Proof. exact fub_poll_next_addr. Qed.
Print Assumptions C08_stream_poll_keeps_addresses.

Theorem C08_merge_poll_keeps_addresses :
  forall (P : params) (n : nat) (f : fub) (t : nat) (w : world),
  let '(f', sp, _) := mb_poll_loop P n f t w in blk f' = blk f /\ sub_ids (tasks f) (tasks f').
Proof. exact mb_poll_loop_addr. Qed.
Print Assumptions C08_merge_poll_keeps_addresses.

(** a push fills a vacant slot and leaves every held child where it is *)
Theorem C08_push_keeps_addresses :
  forall (f : fub) (c : child) (w : world) (f' : fub) (w' : world),
  fub_try_push f c w = (PushOk f', w') ->
  blk f' = blk f
  /\ (forall j c0, sm_get (tasks f) j = Some c0 -> sm_get (tasks f') j = Some c0)
  /\ (forall j id, option_map cid (sm_get (tasks f') j) = Some id ->
        option_map cid (sm_get (tasks f) j) = Some id \/ (id = cid c /\ sm_get (tasks f) j = None)).
Proof. exact fub_try_push_addr. Qed.
Print Assumptions C08_push_keeps_addresses.

(** the unbounded collections: across removal, rotation and re-use of groups every child still
    held after a poll is at the (block, slot) address it had before *)
Theorem C08_group_loop_keeps_addresses :
  forall (P : params) (mrg : bool) (n : nat) (u : fu) (t : nat) (w : world) (b i : nat) (id : N),
  let '(u', sp, _) := fu_loop P mrg n u t w in
  at_addr (groups u') b i id -> at_addr (groups u) b i id.
Proof. exact fu_loop_addr. Qed.
Print Assumptions C08_group_loop_keeps_addresses.

(** ... and across pushes that grow the collection by new groups *)
Theorem C08_growth_keeps_addresses :
  forall (P : params) (mrg : bool) (u : fu) (c : child) (w : world) (b i : nat) (id : N),
  let '(u', _) := fu_push P mrg u c w in
  at_addr (groups u') b i id -> at_addr (groups u) b i id \/ id = cid c.
Proof. exact fu_push_addr. Qed.
Print Assumptions C08_growth_keeps_addresses.

(** re-basing the ordered queues rewrites indices in place *)
Theorem C08_rebase_in_place :
  forall (P : params) (m : slotmap) (j : nat),
  option_map cid (sm_get (sm_map_children (flip_child P) m) j) = option_map cid (sm_get m j).
Proof. exact rebase_addr. Qed.
Print Assumptions C08_rebase_in_place.

(** whole histories: a child that is held after [ops1 ++ ops2] and was not taken (placed by the
    constructor, accepted by a push, pulled from upstream) during [ops2] was, after [ops1], at the
    same (waker block, slot) address — in every collection and combinator, whatever pushes,
    polls, group creations / discards / rotations, re-basings and upstream pulls [ops2] contains *)
From FB Require Import Step StepProofs Reach LedgerProofs AddrHistory UnboundedProofs.
Theorem C08_child_never_moves :
  forall (P : params), params_ok P ->
  forall (ops1 ops2 : list op) (b i : nat) (id : N),
  at_addr (coll_groups (st_coll (reach P (ops1 ++ ops2)))) b i id ->
  ~ In id (taken_in P (reach P ops1) ops2 ++ pulled_in P (reach P ops1) ops2) ->
  at_addr (coll_groups (st_coll (reach P ops1))) b i id.
Proof. exact child_never_moves. Qed.
Print Assumptions C08_child_never_moves.

(** at the level of the log — what the harness compares with the real addresses: over the whole
    history (distinct child ids), in every collection and combinator, every poll and every drop
    of a child — also of one an adapter pulls from its upstream, polls, completes and drops inside
    a single call — is logged at one and the same address *)
From FB Require Import AddrEvents AddrEventsHist.
Theorem C08_log_addresses_stable :
  forall (P : params), params_ok P ->
  forall (ops : list op) (c : N) (b i b' i' : nat),
  NoDup (taken_in P init_state ops ++ pulled_in P init_state ops) ->
  In (c, b, i) (aevs_in P init_state ops) -> In (c, b', i') (aevs_in P init_state ops) -> b = b' /\ i = i'.
Proof. exact log_addresses_stable. Qed.
Print Assumptions C08_log_addresses_stable.

(** one operation: every address event is about a child that sat at that address when the
    operation began, or about a child pulled from the upstream during the operation, at the slot
    it was placed in ([H]: the homes of the pulled children, each pulled id at most once); what is
    held afterwards sat there before, or is at its home, or was taken by this push / constructor *)
Theorem C08_events_at_the_childs_address :
  forall (P : params), params_ok P ->
  forall (k : coll) (o : op) (w : world), cinv k w ->
  HSTEP k o w (fst (step_core P k o w)) (snd (step_core P k o w)).
Proof. exact step_core_hstep. Qed.
Print Assumptions C08_events_at_the_childs_address.

(** the monitor the checks run on the implementation's traces, [chk_C08], accepts the model's own
    trace of every history of distinct children: it demands nothing the model does not deliver *)
From FB Require Import Monitors AddrMonitor.
Theorem C08_monitor_accepts_the_model :
  forall (P : params), params_ok P ->
  forall (ops : list op),
  NoDup (taken_in P init_state ops ++ pulled_in P init_state ops) ->
  chk_C08 (trace_of P ops) = true.
Proof. exact monitor_C08_accepts_the_model. Qed.
Print Assumptions C08_monitor_accepts_the_model.
