(** C13 — bounded work per poll (a); no starvation inside a group and across groups (b) *)
From FB Require Import Base Syntax World SlotMap Fub Unbounded Step WorldProofs UnboundedProofs CountProofs WakeProofs FifoProofs StepProofs Reach GroupWake CrossGroup.

(** one call of the bounded core polls at most [B] children (B = the calibrated budget, 61),
    however many wake themselves continuously *)
Theorem C13_budget_per_call :
  forall (P : params) (k : ckind) (f : fub) (t : nat) (w : world),
  cntinv 0 w ->
  cntinv 0 (snd (poll_inner_no_remove P k f t w))
  /\ gp (snd (poll_inner_no_remove P k f t w)) <= gp w + pB P.
Proof. exact poll_inner_no_remove_count. Qed.
Print Assumptions C13_budget_per_call.

(** when it stops early (budget exhausted or inconsistent queue) it has woken its task: a
    Pending result with a non-empty queue implies the task waker was invoked *)
Theorem C13_early_stop_wakes_task :
  forall (k : ckind) (n : nat) (f : fub) (t : nat) (w : world),
  J (blk f) t w ->
  let '(f', pr, w') := drain k n f t w in
  blk f' = blk f /\ J (blk f) t w' /\ (pr = PPending -> E (blk f) w').
Proof. exact drain_no_lost_wakeup. Qed.
Print Assumptions C13_early_stop_wakes_task.

(** the group cursor moves on after every yield and every Pending group, so each call of the
    unbounded collections polls every non-empty group at most once and terminates *)
Theorem C13_group_loop_terminates_and_accounts :
  forall (P : params) (mrg : bool) (n : nat) (u : fu) (t : nat) (w : world),
  winv (cnt (blks (groups u))) None w -> fu_ok mrg u -> groups u <> [] ->
  let '(u', sp, w') := fu_loop P mrg n u t w in
  winv (cnt (blks (groups u'))) None w' /\ fu_ok mrg u' /\ groups u' <> [] /\ loop_post mrg u u' sp.
Proof. exact fu_loop_spec. Qed.
Print Assumptions C13_group_loop_terminates_and_accounts.

(** (b) no starvation inside a group: the ready queue is FIFO - a poll only removes a prefix of it
    and everything woken meanwhile (self-waking children, re-armed sources, injected wakes) goes
    behind what was already queued *)
Theorem C13_queue_is_fifo :
  forall (k : ckind) (n : nat) (f : fub) (t : nat) (w : world),
  exists popped, qstep (blk f) w (snd (drain k n f t w)) popped.
Proof. exact drain_fifo. Qed.
Print Assumptions C13_queue_is_fifo.

(** a poll whose first pop is not a forced Inconsistent answer removes at least the head ... *)
Theorem C13_poll_pops_the_head :
  forall (k : ckind) (n : nat) (f : fub) (t : nat) (w : world) (s : nat) (rest : list nat),
  qof w (blk f) = s :: rest -> forced_inc (S (popk w)) (set_popk (S (popk w)) w) = false ->
  exists popped, qstep (blk f) w (snd (drain k (S n) f t w)) (s :: popped).
Proof. exact drain_pops_head. Qed.
Print Assumptions C13_poll_pops_the_head.

(** ... and the occupant of the head slot is the first child it polls *)
Theorem C13_head_occupant_polled_first :
  forall (k : ckind) (n : nat) (f : fub) (t : nat) (w : world) (s : nat) (rest : list nat) (c : child),
  qof w (blk f) = s :: rest -> forced_inc (S (popk w)) (set_popk (S (popk w)) w) = false ->
  sm_get (tasks f) s = Some c ->
  exists w1, pop (blk f) w = (PopReady s, w1)
    /\ drain k (S n) f t w =
       (let '(c', r, w2) := poll_child k c (blk f) s w1 in
        let f' := {| tasks := sm_set (tasks f) s c'; blk := blk f |} in
        if is_ready r then (f', PReady s c' r, w2) else drain k n f' t w2).
Proof. exact head_occupant_polled_first. Qed.
Print Assumptions C13_head_occupant_polled_first.

(** so an entry at position p is at position p - |popped| after the poll (or was popped): it
    reaches the head, and its child is polled, within p + 1 such polls; p < capacity *)
Theorem C13_position_decreases :
  forall (q ext popped q' pre : list nat) (x : nat) (post : list nat),
  q ++ ext = popped ++ q' -> q = pre ++ x :: post -> length popped <= length pre ->
  exists pre' post', q' = pre' ++ x :: post' /\ length pre' + length popped = length pre.
Proof. exact position_after. Qed.
Print Assumptions C13_position_decreases.

(** (b) across groups.  [rot u] is the order in which the next poll meets the groups (from the
    cursor).  In every reachable state of every history: a group at distance [length pre] from
    the cursor is polled during the call ([polled_in]: at a moment when its ready queue is the
    one it had at the start of the call, extended at the tail only), or the call returned an
    item from a group in front of it and afterwards the group — untouched — is strictly closer
    to the cursor, its queue only extended at the tail.  Hence it is polled within
    [length pre + 1] <= number-of-groups polls, however many items the other groups produce. *)
Theorem C13_group_not_starved :
  forall (P : params), params_ok P ->
  forall (ops : list op) (mrg : bool) (u : fu) (t : nat) (i : injection) (pre : list fub) (g : fub) (post : list fub),
  st_coll (reach P ops) = (if mrg then CMu u else CFu u) ->
  rot u = pre ++ g :: post ->
  let w := begin_op i (st_world (reach P ops)) in
  let '(u', sp, w') := fu_poll_next P mrg u t w in
  polled_in P mrg g t w w'
  \/ (exists tk c pre' post', sp = SItem tk c /\ rot u' = pre' ++ g :: post' /\ length pre' < length pre
        /\ frame (blk g) w w').
Proof. exact reachable_group_not_starved. Qed.
Print Assumptions C13_group_not_starved.

(** ... and when the group is polled, the child whose slot is at the head of its ready queue
    is polled (no forced "inconsistent" pop in that call) *)
Theorem C13_polled_group_polls_its_head :
  forall (P : params), params_ok P ->
  forall (mrg : bool) (g : fub) (t : nat) (w w' : world) (s : nat) (rest : list nat) (c : child),
  polled_in P mrg g t w w' -> fub_len g <> 0 -> inj_inc (winj w) = [] ->
  qof w (blk g) = s :: rest -> sm_get (tasks g) s = Some c ->
  In (ECPoll (cid c) (blk g) s (blk g, s)) (log w').
Proof. exact polled_in_polls_head. Qed.
Print Assumptions C13_polled_group_polls_its_head.

(** the cursor moves past the group that yielded (the fix of finding F2): after an item the
    yielding group is last in cursor order *)
Theorem C13_cursor_moves_past_the_yielding_group :
  forall (P : params) (mrg : bool) (u : fu) (t : nat) (w : world),
  groups u <> [] ->
  exists l1 g l2, groups u = l1 ++ g :: l2 /\ length l1 = norm u /\
    let '(g', sp, w1) := poll_group P mrg g t w in
    match fu_iter P mrg u t w with
    | ICont u1 w2 =>
        (sp = SPending /\ groups u1 = l1 ++ g' :: l2 /\ cursor u1 = S (length l1) /\ w2 = w1)
        \/ (sp = SNone /\ l2 = [] /\ groups u1 = l1 ++ [g'] /\ cursor u1 = 0 /\ w2 = w1)
        \/ (sp = SNone /\ l2 <> [] /\ groups u1 = l1 ++ l2 /\ cursor u1 = length l1 /\ w2 = fub_drop g' w1)
    | IDone (u', sp', w') =>
        sp' = sp /\ sp <> SPending /\ w' = w1 /\ (blk g' = blk g -> blks (groups u') = blks (groups u))
        /\ (forall tk c, sp = SItem tk c -> groups u' = l1 ++ g' :: l2 /\ cursor u' = S (length l1))
        /\ (sp = SNone -> l1 = [] /\ l2 = [])
    end.
Proof. exact fu_iter_shape. Qed.
Print Assumptions C13_cursor_moves_past_the_yielding_group.

(** several polls: as long as nothing is pushed, a group at distance d from the cursor is polled
    within d + 1 polls, whatever the other groups yield in the meantime and whatever waker
    actions, observations and moves happen between the polls.  [ops0] is any history leading to
    a FuturesUnordered ([mrg = false]) or MergeUnbounded; [ops] contains polls and environment
    operations only *)
Theorem C13_group_polled_within_its_distance :
  forall (P : params), params_ok P ->
  forall (ops0 ops : list op) (mrg : bool) (u : fu) (pre : list fub) (g : fub) (post : list fub),
  st_coll (reach P ops0) = Cu mrg u -> rot u = pre ++ g :: post -> Forall poll_or_env ops ->
  length pre < npolls ops ->
  exists ops1 t i ops2 u1,
      ops = ops1 ++ OPoll t i :: ops2 /\ st_coll (reach P (ops0 ++ ops1)) = Cu mrg u1 /\ In g (groups u1)
      /\ polled_in P mrg g t (begin_op i (st_world (reach P (ops0 ++ ops1))))
                   (snd (fu_poll_next P mrg u1 t (begin_op i (st_world (reach P (ops0 ++ ops1)))))).
Proof. exact group_polled_within_distance_plus_one. Qed.
Print Assumptions C13_group_polled_within_its_distance.

(** the same with pushes between the polls ([ops]: anything but a constructor or the drop of
    the collection).  A push goes into the last group (order and cursor unchanged) or appends a
    group, which moves a group at most one step away from the cursor: the group owning waker
    block [b], at distance [d], is polled within d + 1 + (groups created meanwhile) polls.
    (Groups created over a whole history are logarithmic in the peak number held, C18.) *)
From FB Require Import CrossGroupPush.
Theorem C13_group_polled_within_its_distance_with_pushes :
  forall (P : params), params_ok P ->
  forall (ops0 ops : list op) (mrg : bool) (u : fu) (b d : nat),
  st_coll (reach P ops0) = Cu mrg u -> Pos b u d -> Forall poll_env_push ops ->
  d + ncreated P (reach P ops0) ops < npolls ops ->
  exists ops1 t i ops2 u1 g1,
      ops = ops1 ++ OPoll t i :: ops2 /\ st_coll (reach P (ops0 ++ ops1)) = Cu mrg u1
      /\ In g1 (groups u1) /\ blk g1 = b
      /\ polled_in P mrg g1 t (begin_op i (st_world (reach P (ops0 ++ ops1))))
                   (snd (fu_poll_next P mrg u1 t (begin_op i (st_world (reach P (ops0 ++ ops1)))))).
Proof. exact block_polled_within_distance_plus_created. Qed.
Print Assumptions C13_group_polled_within_its_distance_with_pushes.

(** a push moves no group more than one step away from the cursor, and only by creating a group *)
Theorem C13_push_moves_a_group_at_most_one_step :
  forall (P : params), params_ok P ->
  forall (mrg : bool) (u : fu) (c : child) (w : world) (b d : nat),
  fu_ok mrg u -> Pos b u d ->
  let u' := fst (fu_push P mrg u c w) in
  exists d', Pos b u' d' /\ d' <= d + (length (groups u') - length (groups u)).
Proof. exact push_pos. Qed.
Print Assumptions C13_push_moves_a_group_at_most_one_step.
