(** C13 — bounded work per poll (a); see DESIGN.md for the starvation bound (b) *)
From FB Require Import Base Syntax World SlotMap Fub Unbounded Step WorldProofs UnboundedProofs CountProofs WakeProofs FifoProofs.

(** one call of the bounded core polls at most [B] children (B = the calibrated budget, 61),
    however many wake themselves continuously *)
Theorem C13_budget_per_call :
  forall (P : params) (k : ckind) (f : fub) (t : nat) (w : world),
  cntinv 0 w ->
  cntinv 0 (snd (poll_inner_no_remove P k f t w))
  /\ gp (snd (poll_inner_no_remove P k f t w)) <= gp w + pB P.
Proof. exact poll_inner_no_remove_count. Qed.
Print Assumptions C13_budget_per_call.

(** when it stops early (budget exhausted or inconsistent queue) it has woken its task: a
    Pending result with a non-empty queue implies the task waker was invoked *)
Theorem C13_early_stop_wakes_task :
  forall (k : ckind) (n : nat) (f : fub) (t : nat) (w : world),
  J (blk f) t w ->
  let '(f', pr, w') := drain k n f t w in
  blk f' = blk f /\ J (blk f) t w' /\ (pr = PPending -> E (blk f) w').
Proof. exact drain_no_lost_wakeup. Qed.
Print Assumptions C13_early_stop_wakes_task.

(** the group cursor moves on after every yield and every Pending group, so each call of the
    unbounded collections polls every non-empty group at most once and terminates *)
Theorem C13_group_loop_terminates_and_accounts :
  forall (P : params) (mrg : bool) (n : nat) (u : fu) (t : nat) (w : world),
  winv (cnt (blks (groups u))) None w -> fu_ok mrg u -> groups u <> [] ->
  let '(u', sp, w') := fu_loop P mrg n u t w in
  winv (cnt (blks (groups u'))) None w' /\ fu_ok mrg u' /\ groups u' <> [] /\ loop_post mrg u u' sp.
Proof. exact fu_loop_spec. Qed.
Print Assumptions C13_group_loop_terminates_and_accounts.

(** (b) no starvation inside a group: the ready queue is FIFO - a poll only removes a prefix of it
    and everything woken meanwhile (self-waking children, re-armed sources, injected wakes) goes
    behind what was already queued *)
Theorem C13_queue_is_fifo :
  forall (k : ckind) (n : nat) (f : fub) (t : nat) (w : world),
  exists popped, qstep (blk f) w (snd (drain k n f t w)) popped.
Proof. exact drain_fifo. Qed.
Print Assumptions C13_queue_is_fifo.

(** a poll whose first pop is not a forced Inconsistent answer removes at least the head ... *)
Theorem C13_poll_pops_the_head :
  forall (k : ckind) (n : nat) (f : fub) (t : nat) (w : world) (s : nat) (rest : list nat),
  qof w (blk f) = s :: rest -> forced_inc (S (popk w)) (set_popk (S (popk w)) w) = false ->
  exists popped, qstep (blk f) w (snd (drain k (S n) f t w)) (s :: popped).
Proof. exact drain_pops_head. Qed.
Print Assumptions C13_poll_pops_the_head.

(** ... and the occupant of the head slot is the first child it polls *)
Theorem C13_head_occupant_polled_first :
  forall (k : ckind) (n : nat) (f : fub) (t : nat) (w : world) (s : nat) (rest : list nat) (c : child),
  qof w (blk f) = s :: rest -> forced_inc (S (popk w)) (set_popk (S (popk w)) w) = false ->
  sm_get (tasks f) s = Some c ->
  exists w1, pop (blk f) w = (PopReady s, w1)
    /\ drain k (S n) f t w =
       (let '(c', r, w2) := poll_child k c (blk f) s w1 in
        let f' := {| tasks := sm_set (tasks f) s c'; blk := blk f |} in
        if is_ready r then (f', PReady s c' r, w2) else drain k n f' t w2).
Proof. exact head_occupant_polled_first. Qed.
Print Assumptions C13_head_occupant_polled_first.

(** so an entry at position p is at position p - |popped| after the poll (or was popped): it
    reaches the head, and its child is polled, within p + 1 such polls; p < capacity *)
Theorem C13_position_decreases :
  forall (q ext popped q' pre : list nat) (x : nat) (post : list nat),
  q ++ ext = popped ++ q' -> q = pre ++ x :: post -> length popped <= length pre ->
  exists pre' post', q' = pre' ++ x :: post' /\ length pre' + length popped = length pre.
Proof. exact position_after. Qed.
Print Assumptions C13_position_decreases.
