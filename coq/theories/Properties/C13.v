(** C13 — bounded work per poll (a); see DESIGN.md for the starvation bound (b) *)
From FB Require Import Base Syntax World SlotMap Fub Unbounded Step WorldProofs UnboundedProofs CountProofs WakeProofs.

(** one call of the bounded core polls at most [B] children (B = the calibrated budget, 61),
    however many wake themselves continuously *)
Theorem C13_budget_per_call :
  forall (P : params) (k : ckind) (f : fub) (t : nat) (w : world),
  cntinv 0 w ->
  cntinv 0 (snd (poll_inner_no_remove P k f t w))
  /\ gp (snd (poll_inner_no_remove P k f t w)) <= gp w + pB P.
Proof. exact poll_inner_no_remove_count. Qed.
Print Assumptions C13_budget_per_call.

(** when it stops early (budget exhausted or inconsistent queue) it has woken its task: a
    Pending result with a non-empty queue implies the task waker was invoked *)
Theorem C13_early_stop_wakes_task :
  forall (k : ckind) (n : nat) (f : fub) (t : nat) (w : world),
  J (blk f) t w ->
  let '(f', pr, w') := drain k n f t w in
  blk f' = blk f /\ J (blk f) t w' /\ (pr = PPending -> E (blk f) w').
Proof. exact drain_no_lost_wakeup. Qed.
Print Assumptions C13_early_stop_wakes_task.

(** the group cursor moves on after every yield and every Pending group, so each call of the
    unbounded collections polls every non-empty group at most once and terminates *)
Theorem C13_group_loop_terminates_and_accounts :
  forall (P : params) (mrg : bool) (n : nat) (u : fu) (t : nat) (w : world),
  winv (cnt (blks (groups u))) None w -> fu_ok mrg u -> groups u <> [] ->
  let '(u', sp, w') := fu_loop P mrg n u t w in
  winv (cnt (blks (groups u'))) None w' /\ fu_ok mrg u' /\ groups u' <> [] /\ loop_post mrg u u' sp.
Proof. exact fu_loop_spec. Qed.
Print Assumptions C13_group_loop_terminates_and_accounts.
