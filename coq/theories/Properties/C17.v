(** C17 — size_hint is a true bound on what will still be yielded *)
From FB Require Import Base Syntax World SlotMap Fub Unbounded Ordered Adapters Step UnboundedProofs StepProofs Reach HintProofs.

(** the adapters, in [usize] arithmetic ([wmaxN P] = 2^w - 1): with an honest upstream hint —
    whatever its slack, values at the top of the word range included — lower <= (items upstream
    will still produce + pulled-but-unyielded futures) <= upper, at every point (the hint is a
    function of the state); the lower bound saturates, the upper bound is dropped rather than
    wrapped when the sum does not fit *)
From Coq Require Import NArith.
Theorem C17_adapter_hint_brackets :
  forall (P : params) (a : adapter),
  (match ad_up a with Some u => N.of_nat (up_remaining (ad_try a) u) <= wmaxN P | None => True end)%N ->
  (fst (adapter_hint P a) <= N.of_nat (still_to_yield a))%N
  /\ match snd (adapter_hint P a) with Some h => (N.of_nat (still_to_yield a) <= h)%N | None => True end.
Proof. exact adapter_hint_brackets. Qed.
Print Assumptions C17_adapter_hint_brackets.

Theorem C17_adapter_hint_upper_never_wraps :
  forall (P : params) (a : adapter) (u : upstream) (lo x h : N),
  ad_up a = Some u -> up_hint (wmaxN P) (ad_try a) u = (lo, Some x) ->
  snd (adapter_hint P a) = Some h -> h = (x + N.of_nat (q_len (ad_q a)))%N /\ (h <= wmaxN P)%N.
Proof. exact adapter_hint_upper_is_exact_sum. Qed.
Print Assumptions C17_adapter_hint_upper_never_wraps.

Theorem C17_adapter_hint_exact_after_upstream_end :
  forall (P : params) (a : adapter),
  ad_up a = None -> adapter_hint P a = (N.of_nat (q_len (ad_q a)), Some (N.of_nat (q_len (ad_q a)))).
Proof. exact adapter_hint_exact_after_upstream_end. Qed.
Print Assumptions C17_adapter_hint_exact_after_upstream_end.

(** the collections report exactly what they hold (merges: (0, None)) *)
Theorem C17_collection_hint_exact :
  forall (P : params) (k : coll) (o : obsrec),
  observe P k = Some o ->
  match k with
  | CFub f => ob_hint o = Some (N.of_nat (fub_len f), Some (N.of_nat (fub_len f)))
  | CFu u => ob_hint o = Some (N.of_nat (rem u), Some (N.of_nat (rem u)))
  | CFob q => ob_hint o = Some (N.of_nat (fob_len q), Some (N.of_nat (fob_len q)))
  | CFo q => ob_hint o = Some (N.of_nat (fo_len q), Some (N.of_nat (fo_len q)))
  | CMb _ | CMu _ => ob_hint o = Some (0%N, None)
  | CAd a => ob_hint o = Some (adapter_hint P a)
  | _ => True
  end.
Proof. exact collection_hint_exact. Qed.
Print Assumptions C17_collection_hint_exact.

(** ... and what they hold is the number of futures still to be yielded: the counters equal the
    number of occupied slots in every reachable state (C15), and every held future yields exactly
    one item (C02) *)
Theorem C17_unbounded_counter_is_held_count :
  forall (P : params), params_ok P -> forall (ops : list op) (u : fu),
  st_coll (reach P ops) = CFu u -> rem u = total (groups u).
Proof. exact fu_len_exact. Qed.
Print Assumptions C17_unbounded_counter_is_held_count.
