(** C17 — size_hint is a true bound on what will still be yielded *)
From FB Require Import Base Syntax World SlotMap Fub Unbounded Ordered Adapters Step UnboundedProofs StepProofs Reach HintProofs.

(** the adapters: with an honest upstream hint, lower <= (items upstream will still produce +
    pulled-but-unyielded futures) <= upper, at every point (the hint is a function of the state) *)
Theorem C17_adapter_hint_brackets :
  forall a : adapter,
  fst (adapter_hint a) <= still_to_yield a
  /\ match snd (adapter_hint a) with Some h => still_to_yield a <= h | None => True end.
Proof. exact adapter_hint_brackets. Qed.
Print Assumptions C17_adapter_hint_brackets.

Theorem C17_adapter_hint_exact_after_upstream_end :
  forall a : adapter, ad_up a = None -> adapter_hint a = (q_len (ad_q a), Some (q_len (ad_q a))).
Proof. exact adapter_hint_exact_after_upstream_end. Qed.
Print Assumptions C17_adapter_hint_exact_after_upstream_end.

(** the collections report exactly what they hold (merges: (0, None)) *)
Theorem C17_collection_hint_exact :
  forall (k : coll) (o : obsrec),
  observe k = Some o ->
  match k with
  | CFub f => ob_hint o = Some (fub_len f, Some (fub_len f))
  | CFu u => ob_hint o = Some (rem u, Some (rem u))
  | CFob q => ob_hint o = Some (fob_len q, Some (fob_len q))
  | CFo q => ob_hint o = Some (fo_len q, Some (fo_len q))
  | CMb _ | CMu _ => ob_hint o = Some (0, None)
  | CAd a => ob_hint o = Some (adapter_hint a)
  | _ => True
  end.
Proof. exact collection_hint_exact. Qed.
Print Assumptions C17_collection_hint_exact.

(** ... and what they hold is the number of futures still to be yielded: the counters equal the
    number of occupied slots in every reachable state (C15), and every held future yields exactly
    one item (C02) *)
Theorem C17_unbounded_counter_is_held_count :
  forall (P : params), params_ok P -> forall (ops : list op) (u : fu),
  st_coll (reach P ops) = CFu u -> rem u = total (groups u).
Proof. exact fu_len_exact. Qed.
Print Assumptions C17_unbounded_counter_is_held_count.
