(** C07 — join_all / try_join_all never return a value no input produced *)
From FB Require Import Base Syntax World SlotMap Fub Adapters WorldProofs FubProofs JoinProofs.

(** construction establishes the buffer invariant, with [ids] = the inputs in input order *)
Theorem C07_construction :
  forall (try : bool) (l : list child) (w : world), join_inv (map cid l) (fst (join_new try l w)).
Proof. exact join_new_inv. Qed.
Print Assumptions C07_construction.

(** every poll — the first, and any number of further polls after Ready / after Err — keeps the
    invariant and returns: Pending; or the Vec of exactly the inputs' own outputs in input order
    (index i = input i), only once every slot is vacant; or the empty Vec (polled again after it
    finished: no element at all); or the error of one of the inputs.  Never a cell that was not
    written ([TGarbage] cannot occur: every returned token is [TOut id] / [TErr id] of an input) *)
Theorem C07_every_poll_returns_only_produced_values :
  forall (P : params) (own : nat -> nat) (ids : list N) (j : join) (t : nat) (w : world),
  winv own None w -> fub_ok own (j_q j) -> join_inv ids j ->
  let '(j', r, w') := join_poll P j t w in
  winv own None w' /\ fub_ok own (j_q j') /\ join_inv ids j' /\ ret_ok ids r.
Proof. exact join_poll_inv. Qed.
Print Assumptions C07_every_poll_returns_only_produced_values.

(** the error path of try_join_all and the Drop impls release exactly the written cells: every
    token they drop is the output of one of the inputs *)
Theorem C07_only_written_cells_are_dropped :
  forall (ids : list N) (m : slotmap) (out : list (option tok)) (skip : option nat) (w : world),
  length out = sm_cap m -> length ids = sm_cap m ->
  (forall i, i < sm_cap m -> skip = Some i \/ cell_ok ids m out i) ->
  forall e, In e (log (drop_outputs_from 0 skip m out w)) ->
    In e (log w) \/ exists id, In id ids /\ e = EODrop (TOut id) true.
Proof. exact drop_outputs_only_written. Qed.
Print Assumptions C07_only_written_cells_are_dropped.
