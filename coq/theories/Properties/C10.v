(** C10 — adapters consume upstream once, in order, fused, and end exactly when done *)
From FB Require Import Base Syntax World SlotMap Fub Ordered Adapters Step
  WorldProofs FubProofs UnboundedProofs AdaptersProofs StepProofs Reach LedgerProofs TokenLedger UpstreamLedger BackpressureLog.

(** fused: in every reachable state an upstream that is still held has not ended (it is dropped
    in the very call in which it answers None) *)
Theorem C10_upstream_fused :
  forall (P : params), params_ok P -> forall (ops : list op),
  match st_coll (reach P ops) with
  | CAd a => up_live (ad_up a)
  | CFec a => up_live (fe_up a)
  | _ => True
  end.
Proof. exact upstream_fused. Qed.
Print Assumptions C10_upstream_fused.

(** hence no operation of any history polls an upstream after it ended: the model marks such a
    poll with [EStuck] (besides [EUpPoll UAAfterEnd]), and no bad event is ever emitted *)
Theorem C10_never_polled_after_end :
  forall (P : params), params_ok P -> forall (ops : list op),
  Forall (Forall (fun e => bad_event e = false)) (run P init_state ops).
Proof. exact run_events_clean. Qed.
Print Assumptions C10_never_polled_after_end.

(** exact termination: None only when upstream is gone and nothing is running; Pending only
    while upstream is still there or something is running *)
Theorem C10_termination_exact :
  forall (P : params) (own : nat -> nat) (a : adapter) (t : nat) (w : world),
  winv own None w -> ad_ok own a ->
  let '(a', r, w') := adapter_poll P a t w in
  match r with
  | RetNone => ad_up a' = None /\ q_running (ad_q a') = 0
  | RetPending => ad_up a' <> None \/ q_running (ad_q a') <> 0
  | _ => True
  end.
Proof. exact adapter_poll_termination. Qed.
Print Assumptions C10_termination_exact.

(** an upstream error of a try-stream leaves the same call as an item; the futures in flight
    are exactly those of the fill loop's state (nothing is discarded) *)
Theorem C10_error_forwarded_in_the_same_call :
  forall (P : params) (a : adapter) (t : nat) (w : world),
  let '(a1, e, w1) := fill P (S (q_cap (ad_q a))) a t w in
  match e with Some tk => adapter_poll P a t w = (a1, RetItem tk, w1) | None => True end.
Proof. exact adapter_error_forwarded. Qed.
Print Assumptions C10_error_forwarded_in_the_same_call.

(** for_each_concurrent (limit >= 1 or not): the loop terminates (fuel suffices), never pushes
    into a full queue, keeps the upstream fused *)
Theorem C10_for_each_loop :
  forall (P : params) (own : nat -> nat) (a : fec) (t : nat) (w : world),
  winv own None w -> fub_ok own (fe_q a) -> up_live (fe_up a) ->
  let '(a', r, w') := fec_poll P a t w in
  winv own None w' /\ fub_ok own (fe_q a') /\ blk (fe_q a') = blk (fe_q a)
  /\ SlotMap.sm_cap (tasks (fe_q a')) = SlotMap.sm_cap (tasks (fe_q a)) /\ up_live (fe_up a').
Proof. exact fec_poll_spec. Qed.
Print Assumptions C10_for_each_loop.

(** one poll of the upstream logs the answer of the pure step function [up_step] and moves the
    upstream's state exactly as [up_step] does *)
Theorem C10_upstream_poll_is_one_step :
  forall (try : bool) (u : upstream) (t : nat) (w : world),
  let '(u', r, w') := up_poll try u t w in
  u' = fst (up_step try u)
  /\ exists l, log w' = l ++ log w /\ upp l = [snd (up_step try u)].
Proof. exact up_poll_ref. Qed.
Print Assumptions C10_upstream_poll_is_one_step.

(** whole histories of buffered_unordered / buffered_ordered / try_buffered_* /
    for_each_concurrent (any interleaving of polls, wake-ups, waker clones and drops): the polls
    of the upstream, oldest first, are exactly the answers that upstream gives when polled that
    many times in sequence on its own - every step pulled once, in order, none skipped, none
    repeated (and, C10_never_polled_after_end, none after the end) *)
Theorem C10_upstream_polled_once_in_order :
  forall (P : params) (ty : ctype) (p : cparams) (inits : list (N * script)) (ups : list upstep) (rest : list op),
  u_ctype ty = true ->
  let U := uppolls_in P init_state (OBuild ty p inits ups :: rest) in
  U = fst (up_run (u_try ty) (mk_upstream ups (p_hlo p) (p_hhi p)) (length U)).
Proof. exact upstream_polled_sequentially. Qed.
Print Assumptions C10_upstream_polled_once_in_order.

(** nothing discarded, nothing from nowhere (count level, over the whole history, between
    operations of any of the four buffered adapters): every item pulled so far is yielded or
    still held (running or parked), so outputs handed out <= futures finished <= items pulled *)
Theorem C10_pulled_items_are_yielded_or_held :
  forall (P : params), params_ok P ->
  forall (ty : ctype) (p : cparams) (inits : list (N * script)) (ups : list upstep) (rest : list op) (a : adapter),
  ad_ctype ty = true ->
  st_coll (run_state P init_state (OBuild ty p inits ups :: rest)) = CAd a ->
  let h := hist_of P (OBuild ty p inits ups :: rest) in
  nyield h <= nprodc h /\ nprodc h <= npull h.
Proof. exact adapter_counts_ordered. Qed.
Print Assumptions C10_pulled_items_are_yielded_or_held.
