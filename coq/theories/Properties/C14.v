(** C14 — no busy-spinning: the task is woken only for a reason *)
From FB Require Import Base Syntax World SlotMap Fub Unbounded Step UnboundedProofs StepProofs Reach QuietProofs QuietGroups.

(** if every held child answers Pending without waking anything and no child waker is invoked
    (no injection), a poll of a group with L queued entries returns Pending, pops min(B, L) of
    them, and invokes a task waker exactly when L >= B (the rest must not be forgotten) *)
Theorem C14_quiet_poll :
  forall (P : params) (k : ckind) (f : fub) (t : nat) (w : world) (kb : block),
  quiet_map k (tasks f) -> noinj w -> get_blk w (blk f) = Some kb -> fub_len f <> 0 ->
  let '(f', pr, w') := poll_inner_no_remove P k f t w in
  pr = PPending /\ quiet_map k (tasks f') /\ noinj w' /\ blk f' = blk f
  /\ (exists kb', get_blk w' (blk f) = Some kb' /\ bqueue kb' = skipn (pB P) (bqueue kb))
  /\ twakes (log w') = twakes (log w) + (if Nat.ltb (length (bqueue kb)) (pB P) then 0 else 1)
  /\ (forall b', b' <> blk f -> get_blk w' b' = get_blk w b').
Proof. exact poll_quiet. Qed.
Print Assumptions C14_quiet_poll.

(** so with fewer than B entries queued the poll is silent and leaves the queue empty, and so is
    every later poll (poll number floor(L/B) + 1 and all later ones are silent; with no stale
    entries L <= held children) *)
Theorem C14_quiescent :
  forall (P : params) (k : ckind) (f : fub) (t : nat) (w : world) (kb : block),
  quiet_map k (tasks f) -> noinj w -> get_blk w (blk f) = Some kb -> fub_len f <> 0 ->
  length (bqueue kb) < pB P ->
  let '(f', pr, w') := poll_inner_no_remove P k f t w in
  pr = PPending /\ twakes (log w') = twakes (log w)
  /\ exists kb', get_blk w' (blk f) = Some kb' /\ bqueue kb' = [].
Proof. exact poll_quiescent. Qed.
Print Assumptions C14_quiescent.

(** between polls: a push or the drop of the collection never invokes a task waker *)
Theorem C14_push_does_not_wake :
  forall (f : fub) (c : child) (w : world), twakes (log (snd (fub_try_push f c w))) = twakes (log w).
Proof. exact tw_fub_try_push. Qed.
Print Assumptions C14_push_does_not_wake.

Theorem C14_drop_does_not_wake :
  forall (f : fub) (w : world), twakes (log (fub_drop f w)) = twakes (log w).
Proof. exact tw_fub_drop. Qed.
Print Assumptions C14_drop_does_not_wake.

(** the group loop of FuturesUnordered (mrg = false) / MergeUnbounded (mrg = true): if every
    group is at rest (QL: quiet children, and nothing held or at most m entries queued) and
    nobody invokes a child waker, one poll_next yields no item, leaves every group at rest with
    at most m - B entries, and invokes no task waker at all when m < B (at most one per group
    otherwise) *)
Theorem C14_group_loop_quiet_poll :
  forall (P : params) (mrg : bool) (u : fu) (t : nat) (w : world) (m : nat),
  NoDup (blks (groups u)) -> noinj w -> Forall (QL mrg m w) (groups u) ->
  let '(u', sp, w') := fu_poll_next P mrg u t w in
  (forall tk c, sp <> SItem tk c) /\ noinj w' /\ NoDup (blks (groups u'))
  /\ Forall (QL mrg (m - pB P) w') (groups u')
  /\ twakes (log w') <= twakes (log w) + (if Nat.ltb m (pB P) then 0 else length (groups u)).
Proof. exact fu_poll_quiet. Qed.
Print Assumptions C14_group_loop_quiet_poll.

(** repeated polling: after any run of polls with m < (number of polls + 1) * B, the next poll
    invokes no task waker (and neither does any later one): poll number m / B + 1 is silent *)
Theorem C14_consecutive_polls_reach_silence :
  forall (P : params) (mrg : bool) (ts : list nat) (u : fu) (w : world) (m : nat),
  NoDup (blks (groups u)) -> noinj w -> Forall (QL mrg m w) (groups u) ->
  m < S (length ts) * pB P ->
  let '(u1, w1) := polls P mrg ts u w in
  forall t, let '(u', sp, w') := fu_poll_next P mrg u1 t w1 in
            (forall tk c, sp <> SItem tk c) /\ twakes (log w') = twakes (log w1).
Proof. exact quiet_polls_reach_silence. Qed.
Print Assumptions C14_consecutive_polls_reach_silence.

(** in every reachable state of every history: distinct blocks and the presence of each group's
    block are invariants, and a ready queue never holds more entries than its block has slots,
    so m may be taken as the largest block of the collection *)
Theorem C14_reachable_quiet_collection_falls_silent :
  forall (P : params), params_ok P ->
  forall (ops : list op) (mrg : bool) (u : fu) (ts : list nat) (m : nat),
  st_coll (reach P ops) = (if mrg then CMu u else CFu u) ->
  (forall g, In g (groups u) -> quiet_map (gk mrg) (tasks g)) ->
  (forall g kb, In g (groups u) -> get_blk (st_world (reach P ops)) (blk g) = Some kb -> bcap kb <= m) ->
  m < S (length ts) * pB P ->
  let '(u1, w1) := polls P mrg ts u (begin_op no_inj (st_world (reach P ops))) in
  forall t, let '(u', sp, w') := fu_poll_next P mrg u1 t w1 in
            (forall tk c, sp <> SItem tk c) /\ twakes (log w') = twakes (log w1).
Proof. exact reachable_quiet_polls_reach_silence. Qed.
Print Assumptions C14_reachable_quiet_collection_falls_silent.

(** the layers above: FuturesOrderedBounded (no parked output due for release) *)
From FB Require Import Ordered Adapters QuietOrdered.
Theorem C14_ordered_bounded_quiet_poll :
  forall (P : params) (k : ckind) (q : fob) (t : nat) (w : world) (kb : block),
  quiet_map k (tasks (fo_inner q)) -> noinj w -> get_blk w (blk (fo_inner q)) = Some kb ->
  fub_len (fo_inner q) <> 0 ->
  ord_try_release P (fo_ord (fob_rebase P q)) = None ->
  let '(q', sp, w') := fob_poll_next P k q t w in
  sp = SPending /\ quiet_map k (tasks (fo_inner q')) /\ noinj w' /\ blk (fo_inner q') = blk (fo_inner q)
  /\ (exists kb', get_blk w' (blk (fo_inner q)) = Some kb' /\ bqueue kb' = skipn (pB P) (bqueue kb))
  /\ twakes (log w') = twakes (log w) + (if Nat.ltb (length (bqueue kb)) (pB P) then 0 else 1).
Proof. exact fob_poll_quiet. Qed.
Print Assumptions C14_ordered_bounded_quiet_poll.

(** FuturesOrdered: the quiet poll of its inner group loop *)
Theorem C14_ordered_quiet_poll :
  forall (P : params) (q : fo) (t : nat) (w : world) (m : nat),
  NoDup (blks (groups (fu_inner q))) -> noinj w -> Forall (QL false m w) (groups (fu_inner q)) ->
  ord_try_release P (fu_ord (fo_rebase P q)) = None ->
  let '(q', sp, w') := fo_poll_next P q t w in
  (forall tk c, sp <> SItem tk c) /\ noinj w' /\ NoDup (blks (groups (fu_inner q')))
  /\ Forall (QL false (m - pB P) w') (groups (fu_inner q'))
  /\ twakes (log w') <= twakes (log w) + (if Nat.ltb m (pB P) then 0 else length (groups (fu_inner q))).
Proof. exact fo_poll_quiet. Qed.
Print Assumptions C14_ordered_quiet_poll.

(** buffered_unordered / try_buffered_unordered with an upstream that answers Pending without
    waking anything (or is gone): the adapter adds nothing to what its queue does *)
Theorem C14_buffered_unordered_quiet_poll :
  forall (P : params) (a : adapter) (t : nat) (w : world) (f : fub) (kb : block),
  ad_q a = QU f -> up_quiet (ad_up a) ->
  quiet_map (ad_kind a) (tasks f) -> noinj w -> get_blk w (blk f) = Some kb -> fub_len f <> 0 ->
  let '(a', r, w') := adapter_poll P a t w in
  r = RetPending
  /\ twakes (log w') = twakes (log w) + (if Nat.ltb (length (bqueue kb)) (pB P) then 0 else 1).
Proof. exact adapter_poll_quiet. Qed.
Print Assumptions C14_buffered_unordered_quiet_poll.

(** buffered_ordered / try_buffered_ordered *)
Theorem C14_buffered_ordered_quiet_poll :
  forall (P : params) (a : adapter) (t : nat) (w : world) (o : fob) (kb : block),
  ad_q a = QO o -> up_quiet (ad_up a) ->
  quiet_map (ad_kind a) (tasks (fo_inner o)) -> noinj w -> get_blk w (blk (fo_inner o)) = Some kb ->
  fub_len (fo_inner o) <> 0 -> ord_try_release P (fo_ord (fob_rebase P o)) = None ->
  let '(a', r, w') := adapter_poll P a t w in
  r = RetPending
  /\ twakes (log w') = twakes (log w) + (if Nat.ltb (length (bqueue kb)) (pB P) then 0 else 1).
Proof. exact adapter_ordered_poll_quiet. Qed.
Print Assumptions C14_buffered_ordered_quiet_poll.

(** for_each_concurrent *)
Theorem C14_for_each_concurrent_quiet_poll :
  forall (P : params) (a : fec) (t : nat) (w : world) (kb : block),
  up_quiet (fe_up a) ->
  quiet_map KFut (tasks (fe_q a)) -> noinj w -> get_blk w (blk (fe_q a)) = Some kb -> fub_len (fe_q a) <> 0 ->
  let '(a', r, w') := fec_poll P a t w in
  r = RetPending
  /\ twakes (log w') = twakes (log w) + (if Nat.ltb (length (bqueue kb)) (pB P) then 0 else 1).
Proof. exact fec_poll_quiet. Qed.
Print Assumptions C14_for_each_concurrent_quiet_poll.
