(** C14 — no busy-spinning: the task is woken only for a reason *)
From FB Require Import Base Syntax World SlotMap Fub QuietProofs.

(** if every held child answers Pending without waking anything and no child waker is invoked
    (no injection), a poll of a group with L queued entries returns Pending, pops min(B, L) of
    them, and invokes a task waker exactly when L >= B (the rest must not be forgotten) *)
Theorem C14_quiet_poll :
  forall (P : params) (k : ckind) (f : fub) (t : nat) (w : world) (kb : block),
  quiet_map k (tasks f) -> noinj w -> get_blk w (blk f) = Some kb -> fub_len f <> 0 ->
  let '(f', pr, w') := poll_inner_no_remove P k f t w in
  pr = PPending /\ quiet_map k (tasks f') /\ noinj w' /\ blk f' = blk f
  /\ (exists kb', get_blk w' (blk f) = Some kb' /\ bqueue kb' = skipn (pB P) (bqueue kb))
  /\ twakes (log w') = twakes (log w) + (if Nat.ltb (length (bqueue kb)) (pB P) then 0 else 1).
Proof. exact poll_quiet. Qed.
Print Assumptions C14_quiet_poll.

(** so with fewer than B entries queued the poll is silent and leaves the queue empty, and so is
    every later poll (poll number floor(L/B) + 1 and all later ones are silent; with no stale
    entries L <= held children) *)
Theorem C14_quiescent :
  forall (P : params) (k : ckind) (f : fub) (t : nat) (w : world) (kb : block),
  quiet_map k (tasks f) -> noinj w -> get_blk w (blk f) = Some kb -> fub_len f <> 0 ->
  length (bqueue kb) < pB P ->
  let '(f', pr, w') := poll_inner_no_remove P k f t w in
  pr = PPending /\ twakes (log w') = twakes (log w)
  /\ exists kb', get_blk w' (blk f) = Some kb' /\ bqueue kb' = [].
Proof. exact poll_quiescent. Qed.
Print Assumptions C14_quiescent.

(** between polls: a push or the drop of the collection never invokes a task waker *)
Theorem C14_push_does_not_wake :
  forall (f : fub) (c : child) (w : world), twakes (log (snd (fub_try_push f c w))) = twakes (log w).
Proof. exact tw_fub_try_push. Qed.
Print Assumptions C14_push_does_not_wake.

Theorem C14_drop_does_not_wake :
  forall (f : fub) (w : world), twakes (log (fub_drop f w)) = twakes (log w).
Proof. exact tw_fub_drop. Qed.
Print Assumptions C14_drop_does_not_wake.
