(** C11 — merge: None exactly when every source has ended, Pending only while one is live *)
From FB Require Import Base Syntax World SlotMap Fub Unbounded Step
  WorldProofs FubProofs UnboundedProofs StepProofs Reach LedgerProofs TokenLedger MergeLedger.

(** MergeBounded: the "a source ended, go round again" loop never runs out of fuel, returns
    None iff no source is left, Pending / an item only while one is left; ended sources are
    removed in the call that observed their end *)
Theorem C11_merge_bounded_poll :
  forall (P : params) (own : nat -> nat) (f : fub) (t : nat) (w : world),
  winv own None w -> fub_ok own f ->
  let '(f', sp, w') := mb_poll_next P f t w in
  winv own None w' /\ fub_ok own f' /\ blk f' = blk f /\ sm_cap (tasks f') = sm_cap (tasks f)
  /\ fub_len f' <= fub_len f
  /\ match sp with
     | SItem _ _ => fub_len f' <> 0
     | SNone => fub_len f' = 0
     | SPending => fub_len f' <> 0
     end.
Proof. exact mb_poll_next_spec. Qed.
Print Assumptions C11_merge_bounded_poll.

(** MergeUnbounded: None iff no live source in any group, Pending only while some source is live *)
Theorem C11_merge_unbounded_poll :
  forall (P : params) (u : fu) (t : nat) (w : world),
  winv (cnt (blks (groups u))) None w -> fu_ok true u ->
  let '(u', sp, w') := fu_poll_next P true u t w in
  winv (cnt (blks (groups u'))) None w' /\ fu_ok true u' /\ loop_post true u u' sp.
Proof. intros P. exact (@fu_poll_next_spec P true). Qed.
Print Assumptions C11_merge_unbounded_poll.

(** a source's counter [cseq] is the number of items it has produced: a poll of a source
    increments it exactly when the source answers with an item *)
Theorem C11_source_counter_counts_items :
  forall (c : child) (b s : nat) (w : world),
  let '(c', r, w') := poll_child KSrc c b s w in
  cid c' = cid c /\ bsuf w w'
  /\ (r = RI /\ cseq c' = S (cseq c) \/ r = RE /\ cseq c' = cseq c \/ r = RP /\ cseq c' = cseq c).
Proof. exact poll_child_seq. Qed.
Print Assumptions C11_source_counter_counts_items.

(** whole histories of MergeBounded / MergeUnbounded (any interleaving of pushes - also while
    the merge is being consumed -, polls, wake-ups, waker clones and drops) whose accepted
    sources have distinct ids: the items handed out for each source are its items number
    0, 1, 2, ... in that order: none missing in between, none twice, none out of order *)
Theorem C11_merge_sources_in_order :
  forall (P : params), params_ok P ->
  forall (ops : list op), Forall m_op ops -> NoDup (taken_in P init_state ops) ->
  forall id, exists n, seqs id (handed_in P init_state ops) = seq 0 n.
Proof. exact merge_sources_in_order. Qed.
Print Assumptions C11_merge_sources_in_order.

(** and for a source the merge still holds that number is the number of items the source has
    produced: every item a source has produced has been handed out by the very poll in which it
    was produced *)
Theorem C11_merge_held_source_fully_delivered :
  forall (P : params), params_ok P ->
  forall (ops : list op) (id : N) (n : nat), Forall m_op ops -> NoDup (taken_in P init_state ops) ->
  In (id, n) (hs_coll (st_coll (reach P ops))) -> seqs id (handed_in P init_state ops) = seq 0 n.
Proof. exact merge_held_source_fully_delivered. Qed.
Print Assumptions C11_merge_held_source_fully_delivered.

(** nothing else is ever handed out: every value a merge yields is an item of a source it was given *)
Theorem C11_merge_hands_out_only_items_of_its_sources :
  forall (P : params), params_ok P ->
  forall (ops : list op), Forall m_op ops -> NoDup (taken_in P init_state ops) ->
  Forall (fun t => exists id n, t = TItem id n /\ In id (taken_in P init_state ops)) (handed_in P init_state ops).
Proof. exact merge_hands_out_only_items_of_its_sources. Qed.
Print Assumptions C11_merge_hands_out_only_items_of_its_sources.

(** exactly the items of the source (MergeTotals.v): [il sc] is the number of item letters of a
    script before its end letter.  A poll that answers with an item moves one unit from "still
    to come" to "produced", nothing else changes the sum, and a merge never creates a source: in
    every reachable state every held source was given with a script [sc] such that
    produced + still to come = il sc *)
From FB Require Import MergeTotals.
Theorem C11_merge_source_totals :
  forall (P : params) (ops : list op) (c : child),
  Forall m_op ops -> kid_coll (st_coll (reach P ops)) c ->
  exists sc, In (cid c, sc) (offered ops) /\ cseq c + left c = il sc.
Proof. exact merge_source_totals. Qed.
Print Assumptions C11_merge_source_totals.

(** with the ledger: what has been handed out for a held source is its items 0 .. cseq - 1, never
    more than its script holds, and all of them once no item letter is left before its end *)
Theorem C11_merge_source_delivers_its_script :
  forall (P : params), params_ok P ->
  forall (ops : list op) (c : child),
  Forall m_op ops -> NoDup (taken_in P init_state ops) ->
  kid_coll (st_coll (reach P ops)) c -> cdone c = false ->
  exists sc, In (cid c, sc) (offered ops)
             /\ seqs (cid c) (handed_in P init_state ops) = seq 0 (cseq c)
             /\ cseq c <= il sc
             /\ (il (cscript c) = 0 -> cseq c = il sc).
Proof. exact merge_source_delivers_its_script. Qed.
Print Assumptions C11_merge_source_delivers_its_script.
