(** C11 — merge: None exactly when every source has ended, Pending only while one is live *)
From FB Require Import Base Syntax World SlotMap Fub Unbounded Step
  WorldProofs FubProofs UnboundedProofs StepProofs Reach.

(** MergeBounded: the "a source ended, go round again" loop never runs out of fuel, returns
    None iff no source is left, Pending / an item only while one is left; ended sources are
    removed in the call that observed their end *)
Theorem C11_merge_bounded_poll :
  forall (P : params) (own : nat -> nat) (f : fub) (t : nat) (w : world),
  winv own None w -> fub_ok own f ->
  let '(f', sp, w') := mb_poll_next P f t w in
  winv own None w' /\ fub_ok own f' /\ blk f' = blk f /\ sm_cap (tasks f') = sm_cap (tasks f)
  /\ fub_len f' <= fub_len f
  /\ match sp with
     | SItem _ _ => fub_len f' <> 0
     | SNone => fub_len f' = 0
     | SPending => fub_len f' <> 0
     end.
Proof. exact mb_poll_next_spec. Qed.
Print Assumptions C11_merge_bounded_poll.

(** MergeUnbounded: None iff no live source in any group, Pending only while some source is live *)
Theorem C11_merge_unbounded_poll :
  forall (P : params) (u : fu) (t : nat) (w : world),
  winv (cnt (blks (groups u))) None w -> fu_ok true u ->
  let '(u', sp, w') := fu_poll_next P true u t w in
  winv (cnt (blks (groups u'))) None w' /\ fu_ok true u' /\ loop_post true u u' sp.
Proof. intros P. exact (@fu_poll_next_spec P true). Qed.
Print Assumptions C11_merge_unbounded_poll.
