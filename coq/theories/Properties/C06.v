(** C06 — every future and every output is dropped exactly once (the drop glue of each type as
    stated by the model; its position and multiplicity are tied to the real Drop calls by the
    harness, per identity, on every sampled history and drop point).  Partial: see DESIGN.md. *)
From FB Require Import Base Syntax World SlotMap Fub Ordered Adapters WorldProofs FubProofs JoinProofs DropProofs LiveProofs.

(** dropping a group emits exactly one drop event per held child, in slot order, nothing else *)
Theorem C06_group_drop_is_one_drop_per_child :
  forall (b : nat) (m : slotmap) (w : world),
  log (drop_children b m w) = rev (cdrop_events b (sm_children m)) ++ log w.
Proof. exact drop_children_events. Qed.
Print Assumptions C06_group_drop_is_one_drop_per_child.

(** ... and the children it lists are exactly the occupied slots: nothing held is leaked *)
Theorem C06_every_held_child_is_dropped :
  forall (f : fub) (w : world) (i : nat) (c : child),
  sm_get (tasks f) i = Some c ->
  In (ECDrop (cid c) (Some (blk f, i))) (log (drop_children (blk f) (tasks f) w)).
Proof. exact fub_drop_drops_every_child. Qed.
Print Assumptions C06_every_held_child_is_dropped.

(** a child leaves its slot through [remove] only: one drop event iff the slot was occupied *)
Theorem C06_remove_drops_once :
  forall (f : fub) (i : nat) (w : world),
  match sm_get (tasks f) i with
  | Some c => fub_remove f i w = ({| tasks := sm_remove (tasks f) i; blk := blk f |}, emit (ECDrop (cid c) (Some (blk f, i))) w)
  | None => fub_remove f i w = (f, w)
  end.
Proof. exact fub_remove_events. Qed.
Print Assumptions C06_remove_drops_once.

(** a poll keeps every child it does not finish in its slot; the finished one is removed (and
    dropped, C05) in the same call *)
Theorem C06_poll_loses_no_child :
  forall (P : params) (k : ckind) (f : fub) (t : nat) (w : world),
  let '(f', pr, _) := poll_inner P k f t w in
  match pr with
  | PReady i c r =>
      exists c0, sm_get (tasks f) i = Some c0 /\ cid c0 = cid c /\ sm_get (tasks f') i = None
                 /\ SlotMap.sm_cap (tasks f') = SlotMap.sm_cap (tasks f)
                 /\ forall j, j <> i -> option_map cid (sm_get (tasks f') j) = option_map cid (sm_get (tasks f) j)
  | _ => same_ids (tasks f) (tasks f')
  end.
Proof. exact poll_inner_ids. Qed.
Print Assumptions C06_poll_loses_no_child.

(** parked outputs of the ordered queues: one drop each when the queue is dropped *)
Theorem C06_parked_outputs_dropped_once :
  forall (h : heap) (w : world),
  log (drop_heap h w) = rev (map (fun e => EODrop (snd e) true) h) ++ log w.
Proof. exact drop_heap_events. Qed.
Print Assumptions C06_parked_outputs_dropped_once.

(** join_all / try_join_all (Drop impl and the error path, after the fixes): every written cell
    is dropped, and only written cells are *)
Theorem C06_join_drops_every_written_cell :
  forall (m : slotmap) (out : list (option tok)) (skip : option nat) (w : world) (i0 i : nat) (o : option tok),
  nth_error out i = Some o -> sm_get m (i0 + i) = None ->
  (match skip with Some s => s <> i0 + i | None => True end) ->
  In (EODrop (cell_tok o) true) (log (drop_outputs_from i0 skip m out w)).
Proof. exact drop_outputs_drops_every_written_cell. Qed.
Print Assumptions C06_join_drops_every_written_cell.

Theorem C06_join_drops_only_written_cells :
  forall (ids : list N) (m : slotmap) (out : list (option tok)) (skip : option nat) (w : world),
  length out = SlotMap.sm_cap m -> length ids = SlotMap.sm_cap m ->
  (forall i, i < SlotMap.sm_cap m -> skip = Some i \/ cell_ok ids m out i) ->
  forall e, In e (log (drop_outputs_from 0 skip m out w)) ->
    In e (log w) \/ exists id, In id ids /\ e = EODrop (TOut id) true.
Proof. exact drop_outputs_only_written. Qed.
Print Assumptions C06_join_drops_only_written_cells.

(** ** whole histories: the ledger of children.  [held_ids]: the children sitting in the slots of
    the collection; [dropped_in]: every in-crate child drop logged so far; [taken_in]: the
    children the constructor placed and the children of pushes answered Ok; [pulled_in]: the
    items pulled from upstream.  For every history

        held now ++ dropped so far   is a permutation of   taken ++ pulled

    — no child is lost, none is dropped that was not taken. *)
From FB Require Import Step UnboundedProofs StepProofs Reach LedgerProofs.
From Coq Require Import Permutation.
Theorem C06_children_ledger :
  forall (P : params), params_ok P -> forall (ops : list op),
  Permutation (held_ids (st_coll (reach P ops)) ++ dropped_in P init_state ops)
              (taken_in P init_state ops ++ pulled_in P init_state ops).
Proof. exact ledger. Qed.
Print Assumptions C06_children_ledger.

(** with distinct ids (the history language numbers the children): no child is dropped twice,
    and none is dropped while it is still held *)
Theorem C06_no_child_dropped_twice :
  forall (P : params), params_ok P -> forall (ops : list op),
  NoDup (taken_in P init_state ops ++ pulled_in P init_state ops) ->
  NoDup (held_ids (st_coll (reach P ops)) ++ dropped_in P init_state ops).
Proof. exact no_double_drop. Qed.
Print Assumptions C06_no_child_dropped_twice.

(** once the collection is gone (dropped, or never holding anything), every child the crate took
    has been dropped — at whatever point of the history the drop happened *)
Theorem C06_every_child_dropped_once_the_collection_is_gone :
  forall (P : params), params_ok P -> forall (ops : list op),
  held_ids (st_coll (reach P ops)) = [] ->
  Permutation (dropped_in P init_state ops) (taken_in P init_state ops ++ pulled_in P init_state ops).
Proof. exact all_dropped_when_gone. Qed.
Print Assumptions C06_every_child_dropped_once_the_collection_is_gone.

(** the drops of the ledger are the drop events the history shows *)
Theorem C06_ledger_reads_the_events :
  forall (P : params) (s : state) (o : op),
  is_dead (st_coll s) = false ->
  Permutation (cdr (snd (step_op P s o))) (cdr (log (st_world (fst (step_op P s o))))).
Proof. exact cdr_events_of_step. Qed.
Print Assumptions C06_ledger_reads_the_events.

(** ** whole histories: the ledger of output values, for the collections and adapters of futures
    (FuturesUnorderedBounded, FuturesUnordered, both ordered queues, the four buffered adapters;
    [tok_op]: the history builds one of these).  An output is produced when a child answers
    Ready (or the try-upstream yields an error); handed out when a [ret] event carries it;
    dropped inside when an [odrop .. in] event names it; parked while it waits in the heap of an
    ordered queue.  For every history

        parked now ++ handed out so far ++ dropped inside so far   ≡   produced so far *)
From FB Require Import TokenLedger.
Theorem C06_outputs_ledger :
  forall (P : params) (ops : list op),
  Forall tok_op ops ->
  Permutation (parked_of (st_coll (reach P ops)) ++ handed_in P init_state ops ++ dropped_inside_in P init_state ops)
              (produced_in P init_state ops).
Proof. exact token_ledger. Qed.
Print Assumptions C06_outputs_ledger.

(** with distinct outputs: none is handed out twice, none is both handed out and dropped inside,
    none is dropped inside twice *)
Theorem C06_no_output_twice :
  forall (P : params) (ops : list op),
  Forall tok_op ops -> NoDup (produced_in P init_state ops) ->
  NoDup (parked_of (st_coll (reach P ops)) ++ handed_in P init_state ops ++ dropped_inside_in P init_state ops).
Proof. exact no_output_twice. Qed.
Print Assumptions C06_no_output_twice.

(** ... and for join_all / try_join_all, whose collected outputs wait in the cells of the output
    buffer: parked (written cells) ++ handed out ++ dropped inside ≡ produced, for every history of
    a join — the finishing call hands every cell out, the error path and Drop drop exactly the
    written cells *)
From FB Require Import JoinLedger.
Theorem C06_join_outputs_ledger :
  forall (P : params), params_ok P -> forall (ops : list op),
  Forall join_op ops ->
  Permutation (parked_k (st_coll (reach P ops)) ++ handed_in P init_state ops ++ dropped_inside_in P init_state ops)
              (produced_in P init_state ops).
Proof. exact join_token_ledger. Qed.
Print Assumptions C06_join_outputs_ledger.

(** a destructor that panics (finding F10; JoinPanic.v, a model of its own: the executable model
    has no panics).  Whatever the number of inputs, the order in which they complete and the
    choice of inputs whose destructor panics: if the output is stored before the future is
    destroyed, a vacant slot always has a written cell (so Drop never drops an unwritten cell),
    and if it is also stored before the slot map counts the future out, a count of zero means
    every cell is written (so the result never holds an unwritten cell) *)
From FB Require Import JoinPanic.
Theorem C06_output_stored_before_the_future_is_destroyed_is_drop_safe :
  forall (n : nat) (ms : list mstep) (s : jst),
  no_split ms = true -> before MWrite MVacate ms = true -> reach n ms s -> DS n s.
Proof. exact write_before_vacate_is_drop_safe. Qed.
Print Assumptions C06_output_stored_before_the_future_is_destroyed_is_drop_safe.

Theorem C06_output_stored_first_is_resolution_safe :
  forall (n : nat) (ms : list mstep) (s : jst),
  safe_order ms = true -> reach n ms s -> RS n s.
Proof. exact write_before_count_is_resolution_safe. Qed.
Print Assumptions C06_output_stored_first_is_resolution_safe.

(** the order before fix 2550a01 (destroy, count, store): one input whose destructor panics
    leaves a vacant slot with an unwritten cell *)
Theorem C06_old_order_drops_an_unwritten_cell :
  exists s, reach 1 old_order s /\ occ s 0 = false /\ wr s 0 = false.
Proof. exact old_order_drops_an_unwritten_cell. Qed.
Print Assumptions C06_old_order_drops_an_unwritten_cell.
