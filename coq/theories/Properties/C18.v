(** C18 — allocation discipline (bounded family: no allocator call after construction) *)
From FB Require Import Base Syntax World SlotMap Fub Unbounded Step AllocProofs UnboundedProofs GrowthProofs.

(** FuturesUnorderedBounded, MergeBounded, buffered_unordered / try_buffered_unordered,
    for_each_concurrent, join_all / try_join_all: every operation after construction — push,
    poll, waker clone / wake / drop, completion, the error path of try_join_all, drop — leaves
    the allocation counter of the operation at 0 (the EAlloc event is derived from it) *)
Theorem C18_no_allocation_after_construction :
  forall (P : params) (s : state) (o : op),
  no_alloc_coll (st_coll s) = true -> is_build o = false ->
  nalloc (st_world (fst (step_op P s o))) = 0
  /\ no_alloc_coll (st_coll (fst (step_op P s o))) = true.
Proof. exact no_alloc_after_construction. Qed.
Print Assumptions C18_no_allocation_after_construction.

(** ... for every suffix of every history *)
Theorem C18_no_allocation_in_any_history :
  forall (P : params) (s : state) (ops : list op),
  no_alloc_coll (st_coll s) = true ->
  Forall (fun o => is_build o = false) ops ->
  Forall (fun n => n = 0) (run_allocs P s ops).
Proof. exact no_alloc_history. Qed.
Print Assumptions C18_no_allocation_in_any_history.

(** the unbounded collections (FuturesUnordered, MergeUnbounded, the inner collection of
    FuturesOrdered): a poll never calls the allocator, keeps the geometric shape of the group
    capacities and keeps the last (largest) group *)
Theorem C18_poll_never_allocates :
  forall (P : params), 1 <= pGrowth P -> forall (mrg : bool) (n : nat) (u : fu) (t : nat) (w : world),
  geo (pGrowth P) (groups u) ->
  let '(u', sp, w') := fu_loop P mrg n u t w in
  geo (pGrowth P) (groups u') /\ last_cap (groups u') = last_cap (groups u) /\ nalloc w' = nalloc w.
Proof. exact fu_loop_growth. Qed.
Print Assumptions C18_poll_never_allocates.

(** a push calls the allocator at most 3 times, and only to create a group - which it does only
    when there is none or the last one is full (so held >= its capacity); the new group is
    [growth] times as large; the capacity of the last group never decreases *)
Theorem C18_push_allocates_only_for_a_new_group :
  forall (P : params), 1 <= pGrowth P -> forall (mrg : bool) (u : fu) (c : child) (w : world),
  1 <= pMinCap P -> fu_ok mrg u -> geo (pGrowth P) (groups u) ->
  let '(u', w') := fu_push P mrg u c w in
  geo (pGrowth P) (groups u')
  /\ nalloc w' <= nalloc w + 3
  /\ last_cap (groups u) <= last_cap (groups u')
  /\ (nalloc w' <> nalloc w ->
      groups u = [] \/ exists l, last_opt (groups u) = Some l /\ fub_len l = fub_cap l
                                 /\ last_cap (groups u') = fub_cap l * pGrowth P).
Proof. exact fu_push_growth. Qed.
Print Assumptions C18_push_allocates_only_for_a_new_group.

(** hence the number of groups alive is logarithmic: growth^(groups - 1) * cap_first <= cap_last,
    and (last capacity monotone, multiplied by growth at each creation, a creation needs
    held >= cap_last) the number of allocating events over any history is at most
    log_growth(growth * peak / cap_first) + 1 *)
Theorem C18_groups_logarithmic :
  forall (P : params), 1 <= pGrowth P -> forall (a : fub) (t : list fub),
  geo (pGrowth P) (a :: t) -> 1 <= fub_cap a ->
  pGrowth P ^ length t * fub_cap a <= last_cap (a :: t).
Proof. exact groups_logarithmic. Qed.
Print Assumptions C18_groups_logarithmic.

(** the whole-history bound for FuturesUnordered / MergeUnbounded as one theorem: for every
    history, with A = the sum of the per-operation allocation counters and peak = the largest
    number of children held at any moment, there is k (the number of groups created by pushes)
    with A <= 3 * k + 3 and growth^(k-2) <= peak — so A <= 3 * log_growth(peak) + 9, however many
    children are processed and whatever the pattern of filling, draining and refilling *)
From FB Require Import StepProofs Reach AllocHistory.
Theorem C18_allocations_logarithmic_in_peak :
  forall (P : params), params_ok P -> forall (ops : list op),
  GI P (st_coll (reach P ops)) (list_sum (run_allocs P init_state ops)) (run_peak P init_state ops).
Proof. exact allocations_logarithmic_in_peak. Qed.
Print Assumptions C18_allocations_logarithmic_in_peak.

(** what [GI] says for the two unbounded collections, spelled out *)
Theorem C18_allocations_logarithmic_in_peak_unfolded :
  forall (P : params), params_ok P -> forall (ops : list op) (u : fu),
  st_coll (reach P ops) = CFu u \/ st_coll (reach P ops) = CMu u ->
  exists k, list_sum (run_allocs P init_state ops) <= 3 * k + 3
            /\ (2 <= k -> pGrowth P ^ (k - 2) <= run_peak P init_state ops).
Proof. exact allocations_logarithmic_unfolded. Qed.
Print Assumptions C18_allocations_logarithmic_in_peak_unfolded.

(** FuturesOrdered (peak = futures in progress + parked outputs): the groups of the inner
    collection (k creations) and the growths of the heap of parked outputs (j, each at least
    doubling a full heap) are both logarithmic in the peak:
    A <= 3 * k + j + 4 with growth^(k-2) <= peak and 2^j <= peak *)
From FB Require Import Ordered.
Theorem C18_allocations_logarithmic_in_peak_ordered :
  forall (P : params), params_ok P -> forall (ops : list op) (q : fo),
  st_coll (reach P ops) = CFo q ->
  exists k j, list_sum (run_allocs P init_state ops) <= (3 * k + 3) + (j + 1)
              /\ (2 <= k -> pGrowth P ^ (k - 2) <= run_peak P init_state ops)
              /\ (2 <= j -> 2 ^ j <= run_peak P init_state ops).
Proof. exact allocations_logarithmic_ordered. Qed.
Print Assumptions C18_allocations_logarithmic_in_peak_ordered.
