(** C18 — allocation discipline (bounded family: no allocator call after construction) *)
From FB Require Import Base Syntax World Step AllocProofs.

(** FuturesUnorderedBounded, MergeBounded, buffered_unordered / try_buffered_unordered,
    for_each_concurrent, join_all / try_join_all: every operation after construction — push,
    poll, waker clone / wake / drop, completion, the error path of try_join_all, drop — leaves
    the allocation counter of the operation at 0 (the EAlloc event is derived from it) *)
Theorem C18_no_allocation_after_construction :
  forall (P : params) (s : state) (o : op),
  no_alloc_coll (st_coll s) = true -> is_build o = false ->
  nalloc (st_world (fst (step_op P s o))) = 0
  /\ no_alloc_coll (st_coll (fst (step_op P s o))) = true.
Proof. exact no_alloc_after_construction. Qed.
Print Assumptions C18_no_allocation_after_construction.

(** ... for every suffix of every history *)
Theorem C18_no_allocation_in_any_history :
  forall (P : params) (s : state) (ops : list op),
  no_alloc_coll (st_coll s) = true ->
  Forall (fun o => is_build o = false) ops ->
  Forall (fun n => n = 0) (run_allocs P s ops).
Proof. exact no_alloc_history. Qed.
Print Assumptions C18_no_allocation_in_any_history.
