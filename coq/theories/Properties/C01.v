(** C01 — no lost wake-ups (sequential level: every waker action is atomic, but may land at
    every race window of a poll: after register, between dequeue and flag-clear, at pop exit,
    inside child polls, between polls).  See DESIGN.md for what is not covered. *)
From FB Require Import Base Syntax World SlotMap Fub Unbounded Step WorldProofs UnboundedProofs StepProofs WakeProofs Reach GroupWake.

(** a poll of a group that returns Pending has registered the caller's waker [t] as the most
    recent one, and ends with an empty ready queue or with [t] invoked during the call *)
Theorem C01_pending_poll_leaves_no_queued_child :
  forall (P : params) (k : ckind) (f : fub) (t : nat) (w : world) (k0 : block),
  get_blk w (blk f) = Some k0 ->
  let '(f', pr, w') := poll_inner_no_remove P k f t w in
  pr = PPending -> J (blk f) t w' /\ E (blk f) w'.
Proof. exact poll_pending_no_lost_wakeup. Qed.
Print Assumptions C01_pending_poll_leaves_no_queued_child.

(** the same for the drain loop alone, from any state in which [t] is registered *)
Theorem C01_drain_pending :
  forall (k : ckind) (n : nat) (f : fub) (t : nat) (w : world),
  J (blk f) t w ->
  let '(f', pr, w') := drain k n f t w in
  blk f' = blk f /\ J (blk f) t w' /\ (pr = PPending -> E (blk f) w').
Proof. exact drain_no_lost_wakeup. Qed.
Print Assumptions C01_drain_pending.

(** any waker action (wake, wake_by_ref, clone, drop of any handle, the current context's
    waker) keeps "the task waker of the most recent registration is registered or was invoked"
    and "queue empty or task woken" *)
Theorem C01_waker_actions_keep_the_registration :
  forall (b t : nat) (cw : option handle) (a : act) (w : world),
  J b t w -> J b t (do_act cw a w) /\ (E b w -> E b (do_act cw a w)).
Proof. exact JE_do_act. Qed.
Print Assumptions C01_waker_actions_keep_the_registration.

(** invoking a waker whose slot is not queued queues the slot (so its child is polled by the
    next pop of it) and notifies the registered task waker — the one of the most recent poll *)
Theorem C01_wake_queues_and_notifies :
  forall (b s : nat) (w : world) (k : block),
  get_blk w b = Some k -> bfreed k = false -> nth_error (bflags k) s = Some false ->
  exists k', get_blk (wake_slot b s w) b = Some k'
    /\ In s (bqueue k') /\ nth_error (bflags k') s = Some true
    /\ match breg k with
       | Some t => In (ETWake t CChild) (log (wake_slot b s w)) /\ breg k' = None /\ btw k' = true
       | None => k' = blk_set_queue (blk_set_flags k (upd (bflags k) s true)) (bqueue k ++ [s])
       end.
Proof. exact wake_reaches_latest_waker. Qed.
Print Assumptions C01_wake_queues_and_notifies.

(** in every reachable state of every history: a slot is queued iff its flag is set (a wake
    of a queued slot is absorbed, the slot stays queued), and the registered waker is the most
    recent one *)
Theorem C01_flag_iff_queued :
  forall (P : params), params_ok P -> forall (ops : list op) (b : nat) (k : block) (i : nat),
  get_blk (st_world (reach P ops)) b = Some k ->
  NoDup (bqueue k) /\ (nth_error (bflags k) i = Some true <-> In i (bqueue k)).
Proof. exact flag_iff_queued. Qed.
Print Assumptions C01_flag_iff_queued.

Theorem C01_registration_is_latest :
  forall (P : params), params_ok P -> forall (ops : list op) (b : nat) (k : block),
  get_blk (st_world (reach P ops)) b = Some k ->
  (breg k = None \/ breg k = blast k) /\ (breg k = None -> blast k = None \/ btw k = true).
Proof. exact registration_is_latest. Qed.
Print Assumptions C01_registration_is_latest.

(** the unbounded collections: a poll returns Pending only while something is held, and
    None exactly when nothing is left (no "Pending for ever" with nothing registered) *)
Theorem C01_group_loop :
  forall (P : params) (mrg : bool) (u : fu) (t : nat) (w : world),
  winv (cnt (blks (groups u))) None w -> fu_ok mrg u ->
  let '(u', sp, w') := fu_poll_next P mrg u t w in
  winv (cnt (blks (groups u'))) None w' /\ fu_ok mrg u' /\ loop_post mrg u u' sp.
Proof. exact fu_poll_next_spec. Qed.
Print Assumptions C01_group_loop.

(** the unbounded collections poll every group before returning Pending.  In every reachable
    state of every history, for FuturesUnordered ([mrg = false]) and MergeUnbounded: after a
    poll with task waker [t] returned Pending, every group that still holds something has [t]
    registered as its most recent waker, and its ready queue is empty or [t] was invoked during
    the call ([K] = [J /\ E] of the per-group theorems) — nothing woken in any group is left
    behind without the task being notified *)
Theorem C01_pending_arms_every_group :
  forall (P : params), params_ok P ->
  forall (ops : list op) (mrg : bool) (u : fu) (t : nat) (i : injection),
  st_coll (reach P ops) = (if mrg then CMu u else CFu u) ->
  let '(u', sp, w') := fu_poll_next P mrg u t (begin_op i (st_world (reach P ops))) in
  sp = SPending -> forall g, In g (groups u') -> fub_len g <> 0 -> K (blk g) t w'.
Proof. exact pending_arms_every_group. Qed.
Print Assumptions C01_pending_arms_every_group.

(** ... and for FuturesOrdered, whose outer loop may poll the inner collection several times in
    one call *)
From FB Require Import Ordered.
Theorem C01_ordered_pending_arms_every_group :
  forall (P : params), params_ok P ->
  forall (ops : list op) (q : fo) (t : nat) (i : injection),
  st_coll (reach P ops) = CFo q ->
  let '(q', sp, w') := fo_poll_next P q t (begin_op i (st_world (reach P ops))) in
  sp = SPending -> forall g, In g (groups (fu_inner q')) -> fub_len g <> 0 -> K (blk g) t w'.
Proof. exact fo_pending_arms_every_group. Qed.
Print Assumptions C01_ordered_pending_arms_every_group.

(** the same for the loop from any cursor position and any number of remaining iterations:
    the groups not yet visited are the first [n] in cursor order *)
Theorem C01_group_loop_visits_every_group :
  forall (P : params) (mrg : bool) (n : nat) (u : fu) (t : nat) (w : world),
  winv (cnt (blks (groups u))) None w -> fu_ok mrg u -> groups u <> [] ->
  NoDup (blks (groups u)) -> n <= length (groups u) ->
  Forall (Kg t w) (skipn n (rot u)) ->
  let '(u', sp, w') := fu_loop P mrg n u t w in
  NoDup (blks (groups u')) /\ (sp = SPending -> Forall (Kg t w') (groups u')).
Proof. exact fu_loop_visits. Qed.
Print Assumptions C01_group_loop_visits_every_group.

(** the groups of one collection never share a waker block (each is created with a fresh one),
    so polling one group cannot disturb the registration of another *)
Theorem C01_group_blocks_distinct :
  forall (P : params), params_ok P -> forall (ops : list op), nd (st_coll (reach P ops)).
Proof. exact reachable_nd. Qed.
Print Assumptions C01_group_blocks_distinct.

Theorem C01_other_group_poll_keeps_registration :
  forall (P : params) (b t : nat) (mrg : bool) (g : fub) (t' : nat) (w : world),
  blk g <> b -> K b t w -> K b t (snd (poll_group P mrg g t' w)).
Proof. exact K_poll_group_other. Qed.
Print Assumptions C01_other_group_poll_keeps_registration.

(** ** Level B: every interleaving of the shared-memory steps of any number of waker calls with
    the steps of the polling thread (ConcWake.v; the step lists are tied to the source text by
    the generated lemma ProtocolInst.protocol_ok).  For every budget [B]: whenever the last poll
    returned Pending and its task waker has not been invoked, that waker is still registered
    and every child that was woken (or pushed) since its own last poll began has a waker call
    in flight that has not yet executed its notify step. *)
From FB Require Import ConcWake.

Theorem C01_every_interleaving_pending_never_loses_a_wake :
  forall (B : nat) (s : st),
  reachable B s -> pp s = PIdle RPending -> woken s = false ->
  reg s = Some (cur s) /\ forall i, armed s i = true -> in_flight s.
Proof. exact pending_never_loses_a_wake. Qed.
Print Assumptions C01_every_interleaving_pending_never_loses_a_wake.

(** ... so once no waker call is in flight, Pending with an armed child means the task waker of
    the most recent poll was invoked *)
Theorem C01_every_interleaving_quiescent :
  forall (B : nat) (s : st) (i : nat),
  reachable B s -> pp s = PIdle RPending -> ~ in_flight s -> armed s i = true -> woken s = true.
Proof. exact quiescent_pending_means_woken. Qed.
Print Assumptions C01_every_interleaving_quiescent.

(** the notify step of a call in flight during or after a poll that has not been woken finds
    the waker of the most recent register, and invokes it *)
Theorem C01_every_interleaving_notify_reaches_the_latest_waker :
  forall (B : nat) (s : st) (t i : nat),
  reachable B s -> claims (pp s) -> woken s = false -> nth_error (ws s) t = Some (i, WNotify) ->
  forall s', s' = {| flag := flag s; armed := armed s; Q := Q s; reg := None; cur := cur s;
                     woken := (match reg s with Some _ => true | None => woken s end);
                     ws := upd (ws s) t (i, WDone); pp := pp s |} ->
  step B s s' /\ woken s' = true /\ reg s = Some (cur s).
Proof. exact in_flight_notify_reaches_current_waker. Qed.
Print Assumptions C01_every_interleaving_notify_reaches_the_latest_waker.

(** a slot is in the ready queue at most once, and only while its flag is set — under every
    interleaving *)
Theorem C01_every_interleaving_queued_at_most_once :
  forall (B : nat) (s : st) (i : nat),
  reachable B s -> qcount i (Q s) <= 1 /\ (0 < qcount i (Q s) -> flag s i = true).
Proof. exact queued_at_most_once. Qed.
Print Assumptions C01_every_interleaving_queued_at_most_once.

(** ... for the collections made of several groups (FuturesUnordered, MergeUnbounded,
    FuturesOrdered: ConcGroups.v): every group is a copy of the model above with its own ready
    queue, registered waker and waker calls in flight; the calls of all groups and the owner's
    visits of the groups, one after the other, interleave arbitrarily; a group that is empty
    answers None without registering and the owner moves on.  Whenever the last poll of the
    collection returned Pending and its task waker has not been invoked since that poll began (by
    a notify step of any group that has it registered, or by the owner waking itself), every group
    answered None or Pending in that poll, every group that answered Pending still has that
    waker registered, and every child of such a group that was woken or pushed since its own last
    poll began has a waker call in flight that has not yet notified *)
From FB Require Import ConcGroups.
Theorem C01_every_interleaving_groups_pending_never_loses_a_wake :
  forall (B : nat) (m : mst),
  mreach B m -> mo m = OIdle RPending -> gwoken m = false ->
  forall (g : nat) (s : st), nth_error (grp m) g = Some s ->
    (pp s = PIdle RPending \/ pp s = PIdle RNone)
    /\ (pp s = PIdle RPending -> reg s = Some (mW m) /\ forall i, armed s i = true -> in_flight s).
Proof. exact pending_never_loses_a_wake_groups. Qed.
Print Assumptions C01_every_interleaving_groups_pending_never_loses_a_wake.

Theorem C01_every_interleaving_groups_quiescent :
  forall (B : nat) (m : mst) (g : nat) (s : st) (i : nat),
  mreach B m -> mo m = OIdle RPending -> nth_error (grp m) g = Some s -> pp s = PIdle RPending ->
  ~ in_flight s -> armed s i = true -> gwoken m = true.
Proof. exact quiescent_pending_means_woken_groups. Qed.
Print Assumptions C01_every_interleaving_groups_quiescent.

(** the two levels are one model: the interleaving model run atomically is the executable
    sequential model.  A whole waker call on slot i (spawn, test-and-set, swap, link, notify back
    to back) is an execution of Level B, and Level A's [wake_slot] changes the waker block (flags,
    ready queue with every node linked, registered task waker, "invoked") exactly as that call
    changes the Level B state related to it by [R]; likewise [register] is [p_start], and a
    [pop] that finds an entry is [p_ready] followed by [p_clear] *)
From FB Require Import QuietProofs ConcRefine.
Theorem C01_level_b_call_is_an_execution :
  forall (B i : nat) (s : st), (forall p, In p (Q s) -> snd p = true) -> steps B s (call i s).
Proof. exact call_is_an_execution. Qed.
Print Assumptions C01_level_b_call_is_an_execution.

Theorem C01_level_a_wake_is_the_atomic_call :
  forall (b i : nat) (w : world) (k : block) (s : st),
  get_blk w b = Some k -> bfreed k = false -> i < length (bflags k) -> R k s ->
  exists k', get_blk (wake_slot b i w) b = Some k' /\ R k' (call i s)
             /\ length (bflags k') = length (bflags k).
Proof. exact wake_slot_is_the_call. Qed.
Print Assumptions C01_level_a_wake_is_the_atomic_call.

Theorem C01_level_a_register_is_p_start :
  forall (B b t : nat) (w : world) (k : block) (s : st) (r : ConcWake.pres),
  noinj w -> get_blk w b = Some k -> R k s -> pp s = PIdle r ->
  exists k' s', get_blk (register b t w) b = Some k' /\ step B s s' /\ R k' s' /\ pp s' = PLoop 0 /\ cur s' = t.
Proof. exact register_is_p_start. Qed.
Print Assumptions C01_level_a_register_is_p_start.

Theorem C01_level_a_pop_is_ready_then_clear :
  forall (B b : nat) (w : world) (k : block) (s : st) (n i : nat) (q : list nat),
  noinj w -> get_blk w b = Some k -> bqueue k = i :: q -> i < length (bflags k) -> R k s -> pp s = PLoop n ->
  exists w' k' s', pop b w = (PopReady i, w') /\ get_blk w' b = Some k' /\ steps B s s' /\ R k' s' /\ pp s' = PChild i n.
Proof. exact pop_is_ready_then_clear. Qed.
Print Assumptions C01_level_a_pop_is_ready_then_clear.

Theorem C01_level_a_push_is_p_push :
  forall (B b i : nat) (w : world) (k : block) (s : st) (r : ConcWake.pres),
  get_blk w b = Some k -> i < length (bflags k) -> R k s -> pp s = PIdle r ->
  exists k' s', get_blk (snd (enqueue_slot b i w)) b = Some k' /\ step B s s' /\ R k' s' /\ pp s' = PIdle RNone.
Proof. exact enqueue_is_p_push. Qed.
Print Assumptions C01_level_a_push_is_p_push.
