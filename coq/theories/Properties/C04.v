(** C04 — the ordered queues are a double-ended queue of futures, for every value of the
    position counters (wrapped and re-based ones included); join results are in input order *)
From FB Require Import Base Syntax World SlotMap Fub Unbounded Ordered Adapters UnboundedProofs WordArith OrderProofs FobOrder FoOrder JoinProofs
  WorldProofs FubProofs.
From Coq Require Import Permutation.
Local Open Scope Z_scope.

(** flipping the top bit of an index is adding 2^(w-1) modulo 2^w: re-basing preserves every
    difference of indices, whatever the counters are *)
Theorem C04_rebase_preserves_differences :
  forall (W : Z), 1 <= W -> forall x n : Z, 0 <= x < wm W -> 0 <= n < wm W ->
  (Z.lxor x (hb W) - Z.lxor n (hb W)) mod wm W = (x - n) mod wm W.
Proof. exact flip_diff. Qed.
Print Assumptions C04_rebase_preserves_differences.

(** push_back puts the new future at logical position len (behind everything held);
    push_front at position 0, moving everything held up by one — for every counter value *)
Theorem C04_push_positions :
  forall (P : params), params_ok P ->
  forall (front : bool) (q : fob) (c : child) (w : world) (q' : fob) (w' : world),
  fob_oinv P q -> Z.of_nat (fob_len q) + 1 < msb P -> SlotMapProofs.sm_wf (tasks (fo_inner q)) ->
  fob_try_push P front q c w = (Some q', w') ->
  fob_oinv P q'
  /\ (front = false -> off P (fo_ord q) (nin (fo_ord q)) = Z.of_nat (length (held (run_of (tasks (fo_inner q))) (fo_ord q))))
  /\ (front = true -> off P (fo_ord q') (nout (fo_ord q')) = 0
        /\ forall i, In i (held (run_of (tasks (fo_inner q))) (fo_ord q)) -> off P (fo_ord q') i = off P (fo_ord q) i + 1).
Proof. exact fob_push_order. Qed.
Print Assumptions C04_push_positions.

(** a poll keeps "the logical positions of the held futures are exactly 0 .. len-1" (also
    across the re-basing step), and returns None only when nothing at all is held *)
Theorem C04_poll_keeps_queue_order :
  forall (P : params), params_ok P -> forall (k : ckind) (q : fob) (t : nat) (w : world),
  fob_oinv P q ->
  let '(q', sp, _) := fob_poll_next P k q t w in
  fob_oinv P q'
  /\ match sp with
     | SNone => SlotMapProofs.sm_wf (tasks (fo_inner q')) -> fub_len (fo_inner q') = 0%nat -> fob_len q' = 0%nat
     | _ => True
     end.
Proof. exact fob_poll_order. Qed.
Print Assumptions C04_poll_keeps_queue_order.

(** the park loop releases a finished future only if its index is the outgoing counter (the
    front of the queue); every other finished future is parked; nothing is lost or duplicated *)
Theorem C04_only_the_front_is_released :
  forall (P : params), params_ok P -> forall (k : ckind) (n : nat) (q : fob) (t : nat) (w : world),
  fob_oinv P q -> nout (fo_ord q) < msb P -> ~ In (nout (fo_ord q)) (hidx (fo_ord q)) ->
  let '(q', sp, _) := fob_loop P k n q t w in
  fob_oinv P q'
  /\ match sp with
     | SItem _ c => cidx c = nout (fo_ord q)
                    /\ Permutation (held (run_of (tasks (fo_inner q))) (fo_ord q))
                                   (nout (fo_ord q) :: held (run_of (tasks (fo_inner q'))) (fo_ord q'))
     | SNone => (SlotMapProofs.sm_wf (tasks (fo_inner q')) -> fub_len (fo_inner q') = 0%nat -> oheap (fo_ord q') = [])
                /\ Permutation (held (run_of (tasks (fo_inner q))) (fo_ord q)) (held (run_of (tasks (fo_inner q'))) (fo_ord q'))
     | SPending => Permutation (held (run_of (tasks (fo_inner q))) (fo_ord q)) (held (run_of (tasks (fo_inner q'))) (fo_ord q'))
     end.
Proof. exact fob_loop_order. Qed.
Print Assumptions C04_only_the_front_is_released.

(** an output parked at the front is always found by the heap (raw minimum = logical minimum
    after re-basing) and released by the next poll: completion order never blocks queue order *)
Theorem C04_parked_front_is_released :
  forall (P : params), params_ok P -> forall (k : ckind) (q : fob) (t : nat) (w : world),
  fob_oinv P q -> In (nout (fo_ord (fob_rebase P q))) (hidx (fo_ord (fob_rebase P q))) ->
  exists tk c q' w', fob_poll_next P k q t w = (q', SItem tk c, w').
Proof. exact fob_parked_front_is_released. Qed.
Print Assumptions C04_parked_front_is_released.

(** what the heap hands out is the front, and positions of the others move down by one *)
Theorem C04_heap_release_is_front :
  forall (P : params), (2 <= pW P)%nat -> forall (run : list Z) (o : ord) (t : tok) (o' : ord),
  oinv P run o -> ord_try_release P o = Some (t, o') ->
  oinv P run o' /\ In (nout o, t) (oheap o) /\ nout o' = winc P (nout o)
  /\ forall i, In i (held run o') -> off P o' i = off P o i - 1.
Proof. exact try_release_sound. Qed.
Print Assumptions C04_heap_release_is_front.

(** every start value of the counters *)
Theorem C04_new_with_any_counter :
  forall (P : params), params_ok P -> forall (cap : nat) (seed : Z) (w : world) (q : fob) (w' : world),
  fob_new P cap seed w = (NewOk q, w') -> fob_oinv P q.
Proof. exact fob_new_order. Qed.
Print Assumptions C04_new_with_any_counter.

(** join_all / try_join_all: the result is [output of input 0; ...; output of input n-1] *)
Theorem C04_join_results_in_input_order :
  forall (P : params) (own : nat -> nat) (ids : list N) (j : join) (t : nat) (w : world),
  winv own None w -> fub_ok own (j_q j) -> join_inv ids j ->
  let '(j', r, w') := join_poll P j t w in
  winv own None w' /\ fub_ok own (j_q j') /\ join_inv ids j' /\ ret_ok ids r.
Proof. exact join_poll_inv. Qed.
Print Assumptions C04_join_results_in_input_order.

(** FuturesOrdered (unbounded): the running indices are spread over the groups of the inner
    FuturesUnordered; its round-robin loop conserves them (an item takes exactly its own index
    out, discarded groups are empty) *)
Theorem C04_unbounded_inner_loop_conserves_indices :
  forall (P : params) (n : nat) (u : fu) (t : nat) (w : world),
  Forall (fun g => SlotMapProofs.sm_wf (tasks g)) (groups u) ->
  let '(u', sp, _) := fu_loop P false n u t w in
  match sp with
  | SItem _ c => Permutation (run_fu u) (cidx c :: run_fu u')
  | _ => Permutation (run_fu u) (run_fu u')
  end /\ Forall (fun g => SlotMapProofs.sm_wf (tasks g)) (groups u').
Proof. exact fu_loop_run. Qed.
Print Assumptions C04_unbounded_inner_loop_conserves_indices.

(** ... so one poll of FuturesOrdered keeps the queue-order invariant (also across re-basing),
    releases only the front, and returns None only when nothing is held *)
Theorem C04_unbounded_poll_keeps_queue_order :
  forall (P : params), params_ok P -> forall (q : fo) (t : nat) (w : world),
  fo_oinv P q -> Forall (fun g => SlotMapProofs.sm_wf (tasks g)) (groups (fu_inner q)) ->
  let '(q', sp, _) := fo_poll_next P q t w in
  fo_oinv P q' /\ match sp with SNone => run_fu (fu_inner q') = [] -> oheap (fu_ord q') = [] | _ => True end.
Proof. exact fo_poll_order. Qed.
Print Assumptions C04_unbounded_poll_keeps_queue_order.

(** push_back / push_front of FuturesOrdered keep it, given that the inner push adds exactly the
    new index (which [C04_unbounded_push_adds_the_index] shows, up to the unreachable Stuck arm) *)
Theorem C04_unbounded_push_keeps_queue_order :
  forall (P : params), params_ok P -> forall (front : bool) (q : fo) (c : child) (w : world),
  fo_oinv P q -> Z.of_nat (length (held (run_fu (fu_inner q)) (fu_ord q))) + 1 < msb P ->
  let idx := if front then wdec P (nout (fu_ord q)) else nin (fu_ord q) in
  Permutation (run_fu (fst (fu_push P false (fu_inner q) (child_set_idx c idx) w))) (idx :: run_fu (fu_inner q)) ->
  fo_oinv P (fst (fo_push P front q c w)).
Proof. exact fo_push_order. Qed.
Print Assumptions C04_unbounded_push_keeps_queue_order.

Theorem C04_unbounded_push_adds_the_index :
  forall (P : params) (mrg : bool) (u : fu) (c : child) (w : world),
  Permutation (run_fu (fst (fu_push P mrg u c w))) (cidx c :: run_fu u) \/ run_fu (fst (fu_push P mrg u c w)) = run_fu u.
Proof. exact fu_push_run. Qed.
Print Assumptions C04_unbounded_push_adds_the_index.

(** from_iter / collect of FuturesOrderedBounded: the inputs get positions 0 .. n-1 in input order *)
Theorem C04_from_iter_is_in_input_order :
  forall (P : params), params_ok P -> forall (l : list child) (w : world),
  Z.of_nat (length l) < msb P -> fob_oinv P (fst (fob_from_list P l w)).
Proof. exact fob_from_list_order. Qed.
Print Assumptions C04_from_iter_is_in_input_order.

(** the same for FuturesOrdered (unbounded): the indices 0 .. n-1 are spread over the groups *)
Theorem C04_unbounded_from_iter_is_in_input_order :
  forall (P : params), params_ok P -> forall (hint : nat) (l : list child) (w : world),
  winv (cnt []) None w -> Z.of_nat (length l) < msb P -> fo_oinv P (fst (fo_from_list P hint l w)).
Proof. exact fo_from_list_order. Qed.
Print Assumptions C04_unbounded_from_iter_is_in_input_order.

(** under the structural invariant (every reachable state) the inner push always adds the new
    index, so push_back / push_front of FuturesOrdered keep the queue order unconditionally *)
Theorem C04_unbounded_push_keeps_queue_order_unconditionally :
  forall (P : params), params_ok P -> forall (front : bool) (q : fo) (c : child) (w : world),
  winv (cnt (blks (groups (fu_inner q)))) None w -> fu_ok false (fu_inner q) ->
  fo_oinv P q -> Z.of_nat (length (held (run_fu (fu_inner q)) (fu_ord q))) + 1 < msb P ->
  fo_oinv P (fst (fo_push P front q c w)).
Proof. exact fo_push_order_ok. Qed.
Print Assumptions C04_unbounded_push_keeps_queue_order_unconditionally.

(** every history: if at every moment fewer than 2^(w-1) - 1 futures are held (for
    buffered_ordered / try_buffered_ordered: the limit is below that), then at every moment the
    queue-order invariant holds — for FuturesOrderedBounded, FuturesOrdered and the queue inside
    the ordered adapters, whatever the start values of the counters *)
From FB Require Import Step StepProofs Reach OrderReach.
Theorem C04_queue_order_in_every_reachable_state :
  forall (P : params), params_ok P -> forall (ops : list op),
  (forall n, small P (st_coll (reach P (firstn n ops)))) -> ord_inv P (st_coll (reach P ops)).
Proof. exact reachable_order. Qed.
Print Assumptions C04_queue_order_in_every_reachable_state.
