(** C12 — children are polled only on notification *)
From FB Require Import Base Syntax World SlotMap Fub Step UnboundedProofs StepProofs CountProofs Reach.

(** over any history: child polls <= accepted pushes + child-waker invocations + merge items *)
Theorem C12_polls_bounded_by_notifications :
  forall (P : params) (ops : list op),
  let g := wghost (st_world (reach P ops)) in
  gpolls g <= gpush g + gwake g + gitems g.
Proof. exact polls_bounded_by_notifications. Qed.
Print Assumptions C12_polls_bounded_by_notifications.

(** the accounting behind it, in every reachable state: polls + queued entries <= enqueues <= credit *)
Theorem C12_accounting :
  forall (P : params) (ops : list op), cntinv 0 (st_world (reach P ops)).
Proof. exact reachable_counts. Qed.
Print Assumptions C12_accounting.

(** repeated wakes between two polls of a child cost at most one poll: a slot is queued at most
    once (no duplicates) and a wake of a queued slot changes nothing *)
Theorem C12_queued_at_most_once :
  forall (P : params), params_ok P -> forall (ops : list op) (b : nat) (k : block) (i : nat),
  get_blk (st_world (reach P ops)) b = Some k ->
  NoDup (bqueue k) /\ (nth_error (bflags k) i = Some true <-> In i (bqueue k)).
Proof. exact flag_iff_queued. Qed.
Print Assumptions C12_queued_at_most_once.

(** a child poll is always paid for by a dequeued entry *)
Theorem C12_drain_accounting :
  forall (k : ckind) (n : nat) (f : fub) (t : nat) (w : world),
  cntinv 0 w ->
  cntinv 0 (snd (drain k n f t w)) /\ gp (snd (drain k n f t w)) <= gp w + n.
Proof. exact drain_count. Qed.
Print Assumptions C12_drain_accounting.
