(** C05 — a finished child is never polled again and is released promptly *)
From FB Require Import Base Syntax World SlotMap Fub Step LiveProofs.

(** in every reachable state of every history, of every collection and combinator: no child
    sitting in a slot has given its final answer (Ready / None), and the counter of "polls of
    a child after its final answer" is 0 — through later polls, stale wakers of the child,
    wakers outliving a reused slot, injected wakes at every window *)
Theorem C05_never_polled_after_completion :
  forall (P : params) (ops : list op),
  let s := run_state' P init_state ops in
  gd (st_world s) = 0 /\ coll_live (st_coll s).
Proof. exact never_polled_after_completion. Qed.
Print Assumptions C05_never_polled_after_completion.

(** the call that observes the completion removes the future from its slot (dropping it in
    place): the slot is vacant when the call returns, and the drop is the last event of the
    call, i.e. it precedes the return of the output *)
Theorem C05_released_before_the_call_returns :
  forall (P : params) (k : ckind) (f : fub) (t : nat) (w : world),
  live (tasks f) ->
  let '(f', pr, w') := poll_inner P k f t w in
  gd w' = gd w /\ live (tasks f')
  /\ match pr with
     | PReady i c r => sm_get (tasks f') i = None /\ hd_error (log w') = Some (ECDrop (cid c) (Some (blk f', i)))
     | _ => True
     end.
Proof. exact poll_inner_live. Qed.
Print Assumptions C05_released_before_the_call_returns.

(** merges: a source that answered None is removed in the same call; one that yielded an item
    is not finished and stays (re-armed) *)
Theorem C05_ended_source_removed :
  forall (P : params) (n : nat) (f : fub) (t : nat) (w : world),
  live (tasks f) ->
  let '(f', sp, w') := mb_poll_loop P n f t w in gd w' = gd w /\ live (tasks f').
Proof. exact mb_poll_loop_live. Qed.
Print Assumptions C05_ended_source_removed.

(** the drain loop only ever polls the current occupant of a popped slot, and that occupant is live *)
Theorem C05_drain_polls_live_children_only :
  forall (k : ckind) (n : nat) (f : fub) (t : nat) (w : world),
  live (tasks f) ->
  let '(f', pr, w') := drain k n f t w in
  gd w' = gd w
  /\ match pr with
     | PReady i c r => (forall j c0, j <> i -> sm_get (tasks f') j = Some c0 -> cdone c0 = false)
                       /\ sm_get (tasks f') i = Some c /\ cdone c = is_final r
     | _ => live (tasks f')
     end.
Proof. exact drain_live. Qed.
Print Assumptions C05_drain_polls_live_children_only.

(** with a destructor that panics (JoinPanic.v, a model of its own): the slot map's [remove]
    destroys the future with [Pin::set], which marks the slot vacant even when the destructor
    unwinds - so a destroyed future is never left in an occupied slot (where a stale waker would get
    it polled again), whatever the inputs, the completion order and the panicking destructors;
    written as "destroy in place, then overwrite" one panic leaves a destroyed future in its slot *)
From FB Require Import JoinPanic.
Theorem C05_set_keeps_destroyed_futures_out_of_their_slots :
  forall (n : nat) (ms : list mstep) (s : jst),
  no_split ms = true -> reach n ms s -> ND n s.
Proof. exact set_keeps_destroyed_futures_out_of_their_slots. Qed.
Print Assumptions C05_set_keeps_destroyed_futures_out_of_their_slots.

Theorem C05_split_destroy_leaves_a_destroyed_future_in_its_slot :
  exists s, reach 1 split_order s /\ dst s 0 = true /\ occ s 0 = true.
Proof. exact split_destroy_leaves_a_destroyed_future_in_its_slot. Qed.
Print Assumptions C05_split_destroy_leaves_a_destroyed_future_in_its_slot.
