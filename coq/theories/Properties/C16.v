(** C16 — ordered buffering exerts backpressure: at most n items pulled but not yielded *)
From FB Require Import Base Syntax World SlotMap Fub Ordered Adapters Step
  WorldProofs FubProofs UnboundedProofs AdaptersProofs StepProofs Reach LedgerProofs TokenLedger UpstreamLedger BackpressureLog.

(** in every reachable state of every history of buffered_ordered / try_buffered_ordered (and
    the unordered ones): running futures + finished outputs waiting for an earlier one <= n *)
Theorem C16_backpressure :
  forall (P : params), params_ok P -> forall (ops : list op) (a : adapter),
  st_coll (reach P ops) = CAd a ->
  q_running (ad_q a) <= q_len (ad_q a) /\ q_len (ad_q a) <= q_cap (ad_q a).
Proof. exact adapter_limit. Qed.
Print Assumptions C16_backpressure.

(** one poll of the adapter keeps the bound, whatever upstream and the futures do *)
Theorem C16_poll_keeps_bound :
  forall (P : params) (own : nat -> nat) (a : adapter) (t : nat) (w : world),
  winv own None w -> ad_ok own a ->
  let '(a', r, w') := adapter_poll P a t w in
  winv own None w' /\ ad_ok own a' /\ blk (q_fub (ad_q a')) = blk (q_fub (ad_q a))
  /\ q_cap (ad_q a') = q_cap (ad_q a) /\ ad_try a' = ad_try a.
Proof. exact adapter_poll_spec. Qed.
Print Assumptions C16_poll_keeps_bound.

(** at every moment of every history (not only between operations): in the chronological event
    log of any history of the four buffered adapters, whenever an item is pulled from upstream
    ([EUpPoll (UAItem c)]), the items pulled before it exceed the items handed to the caller
    before it by less than the limit [n = p_cap p]: a pull happens only while fewer than n
    items are pulled-but-unyielded (running futures + parked outputs); n = 0 never pulls *)
Theorem C16_pulls_only_below_the_limit :
  forall (P : params), params_ok P ->
  forall (ty : ctype) (p : cparams) (inits : list (N * script)) (ups : list upstep) (rest : list op)
         (pre : list event) (c : N) (post : list event),
  ad_ctype ty = true ->
  hist_of P (OBuild ty p inits ups :: rest) = pre ++ EUpPoll (UAItem c) :: post ->
  npull pre < p_cap p + nyield pre.
Proof. exact pulls_only_below_the_limit. Qed.
Print Assumptions C16_pulls_only_below_the_limit.

(** exact accounting over the whole history, between operations: the items pulled so far are the
    items yielded so far plus the queue (running + parked): the backlog the limit bounds is
    exactly the queue, nothing is lost or counted twice; finished futures = yielded + parked *)
Theorem C16_backlog_is_exactly_the_queue :
  forall (P : params), params_ok P ->
  forall (ty : ctype) (p : cparams) (inits : list (N * script)) (ups : list upstep) (rest : list op) (a : adapter),
  ad_ctype ty = true ->
  st_coll (run_state P init_state (OBuild ty p inits ups :: rest)) = CAd a ->
  let h := hist_of P (OBuild ty p inits ups :: rest) in
  q_cap (ad_q a) = p_cap p
  /\ npull h = nyield h + q_len (ad_q a)
  /\ nprodc h = nyield h + length (parked_q (ad_q a)).
Proof. exact adapter_accounting. Qed.
Print Assumptions C16_backlog_is_exactly_the_queue.
