(** C16 — ordered buffering exerts backpressure: at most n items pulled but not yielded *)
From FB Require Import Base Syntax World SlotMap Fub Ordered Adapters Step
  WorldProofs FubProofs UnboundedProofs AdaptersProofs StepProofs Reach.

(** in every reachable state of every history of buffered_ordered / try_buffered_ordered (and
    the unordered ones): running futures + finished outputs waiting for an earlier one <= n *)
Theorem C16_backpressure :
  forall (P : params), params_ok P -> forall (ops : list op) (a : adapter),
  st_coll (reach P ops) = CAd a ->
  q_running (ad_q a) <= q_len (ad_q a) /\ q_len (ad_q a) <= q_cap (ad_q a).
Proof. exact adapter_limit. Qed.
Print Assumptions C16_backpressure.

(** one poll of the adapter keeps the bound, whatever upstream and the futures do *)
Theorem C16_poll_keeps_bound :
  forall (P : params) (own : nat -> nat) (a : adapter) (t : nat) (w : world),
  winv own None w -> ad_ok own a ->
  let '(a', r, w') := adapter_poll P a t w in
  winv own None w' /\ ad_ok own a' /\ blk (q_fub (ad_q a')) = blk (q_fub (ad_q a))
  /\ q_cap (ad_q a') = q_cap (ad_q a) /\ ad_try a' = ad_try a.
Proof. exact adapter_poll_spec. Qed.
Print Assumptions C16_poll_keeps_bound.
