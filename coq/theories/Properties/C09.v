(** C09 — the buffered adapters never exceed their limit and keep it saturated *)
From FB Require Import Base Syntax World SlotMap Fub Ordered Adapters Step
  WorldProofs FubProofs UnboundedProofs AdaptersProofs StepProofs Reach SaturationProofs LedgerProofs TokenLedger UpstreamLedger BackpressureLog BackpressureFec.

(** in every reachable state of every history: running <= pulled-but-unyielded <= n *)
Theorem C09_limit_respected :
  forall (P : params), params_ok P -> forall (ops : list op) (a : adapter),
  st_coll (reach P ops) = CAd a ->
  q_running (ad_q a) <= q_len (ad_q a) /\ q_len (ad_q a) <= q_cap (ad_q a).
Proof. exact adapter_limit. Qed.
Print Assumptions C09_limit_respected.

Theorem C09_for_each_limit_respected :
  forall (P : params), params_ok P -> forall (ops : list op) (a : fec),
  st_coll (reach P ops) = CFec a -> fub_len (fe_q a) <= fub_cap (fe_q a).
Proof. exact fec_limit. Qed.
Print Assumptions C09_for_each_limit_respected.

(** the fill loop pulls only while there is room, never pushes into a full queue (no panic),
    always has fuel left, keeps the bound and never loses an item *)
Theorem C09_fill_loop :
  forall (P : params) (own : nat -> nat) (n : nat) (a : adapter) (t : nat) (w : world),
  winv own None w -> q_ok own (ad_q a) -> q_len (ad_q a) <= q_cap (ad_q a) ->
  q_cap (ad_q a) - q_len (ad_q a) < n -> up_live (ad_up a) ->
  let '(a', e, w') := fill P n a t w in
  winv own None w' /\ q_ok own (ad_q a') /\ blk (q_fub (ad_q a')) = blk (q_fub (ad_q a))
  /\ q_cap (ad_q a') = q_cap (ad_q a) /\ q_len (ad_q a') <= q_cap (ad_q a') /\ ad_try a' = ad_try a
  /\ q_len (ad_q a) <= q_len (ad_q a') /\ up_live (ad_up a').
Proof. exact fill_spec. Qed.
Print Assumptions C09_fill_loop.

(** work conservation: whenever a poll returns Pending, n pulled items are still unfinished or
    undelivered, or upstream has ended (and was dropped), or upstream was polled during this call
    and its last answer was Pending *)
Theorem C09_pending_is_work_conserving :
  forall (P : params) (own : nat -> nat) (a : adapter) (t : nat) (w : world),
  winv own None w -> ad_ok own a ->
  let '(a', r, w') := adapter_poll P a t w in
  r = RetPending ->
  q_cap (ad_q a') <= q_len (ad_q a') \/ ad_up a' = None \/ last_up (log w') = Some UAPend.
Proof. exact adapter_pending_is_work_conserving. Qed.
Print Assumptions C09_pending_is_work_conserving.

(** the same for for_each_concurrent: whenever its poll returns Pending, n futures are running
    (the limit 0, documented as "no limit", counts as saturated: finding F8), or upstream has
    ended, or upstream's last answer in this call was Pending — the inner loop never gives up
    with a free slot and an upstream that might have an item *)
Theorem C09_for_each_pending_is_work_conserving :
  forall (P : params) (own : nat -> nat) (a : fec) (t : nat) (w : world),
  winv own None w -> fub_ok own (fe_q a) -> up_live (fe_up a) ->
  let '(a', r, w') := fec_poll P a t w in
  r = RetPending ->
  fub_cap (fe_q a') <= fub_len (fe_q a') \/ fe_up a' = None \/ last_up (log w') = Some UAPend.
Proof. exact fec_pending_is_work_conserving. Qed.
Print Assumptions C09_for_each_pending_is_work_conserving.

(** "at any instant": over the chronological event log of any history of the four buffered
    adapters, at every pull of an upstream item the futures pulled before it exceed the futures
    that have finished before it ([nprodc]: outputs TOut / TErr produced) by less than n - so the
    number of unfinished futures, which only grows at a pull, never exceeds n, inside polls too *)
Theorem C09_fewer_than_n_unfinished_at_every_pull :
  forall (P : params), params_ok P ->
  forall (ty : ctype) (p : cparams) (inits : list (N * script)) (ups : list upstep) (rest : list op)
         (pre : list event) (c : N) (post : list event),
  ad_ctype ty = true ->
  hist_of P (OBuild ty p inits ups :: rest) = pre ++ EUpPoll (UAItem c) :: post ->
  npull pre < p_cap p + nprodc pre.
Proof. exact pulls_only_while_fewer_than_n_unfinished. Qed.
Print Assumptions C09_fewer_than_n_unfinished_at_every_pull.

(** the same for for_each_concurrent(n, f), through every iteration of its pull-then-poll loop *)
Theorem C09_for_each_fewer_than_n_unfinished_at_every_pull :
  forall (P : params), params_ok P ->
  forall (p : cparams) (inits : list (N * script)) (ups : list upstep) (rest : list op)
         (pre : list event) (c : N) (post : list event),
  hist_of P (OBuild TFEC p inits ups :: rest) = pre ++ EUpPoll (UAItem c) :: post ->
  npull pre < p_cap p + nprodc pre.
Proof. exact fec_pulls_only_while_fewer_than_n_unfinished. Qed.
Print Assumptions C09_for_each_fewer_than_n_unfinished_at_every_pull.

(** between operations, over the whole history of a for_each_concurrent: items pulled so far =
    futures finished so far + futures in the queue, and the queue's capacity is n *)
Theorem C09_for_each_accounting :
  forall (P : params), params_ok P ->
  forall (p : cparams) (inits : list (N * script)) (ups : list upstep) (rest : list op) (a : fec),
  st_coll (run_state P init_state (OBuild TFEC p inits ups :: rest)) = CFec a ->
  let h := hist_of P (OBuild TFEC p inits ups :: rest) in
  fub_cap (fe_q a) = p_cap p /\ npull h = nprodc h + fub_len (fe_q a).
Proof. exact fec_accounting. Qed.
Print Assumptions C09_for_each_accounting.
