(** C02 — every accepted future yielded exactly once; None iff empty (count level; the
    identity-level statement is in C06/C02 conservation theorems where proved, see DESIGN.md) *)
From FB Require Import Base Syntax World SlotMap Fub Unbounded Ordered Step
  SlotMapProofs WorldProofs FubProofs UnboundedProofs OrderedProofs StepProofs Reach.

(** FuturesUnorderedBounded: an item leaves exactly one future fewer; None iff nothing is
    held (and then nothing changes); Pending only while something is held, and nothing is lost *)
Theorem C02_bounded_poll :
  forall (P : params) (own : nat -> nat) (k : ckind) (f : fub) (t : nat) (w : world),
  winv own None w -> fub_ok own f ->
  let '(f', sp, w') := fub_poll_next P k f t w in
  winv own None w' /\ fub_ok own f' /\ blk f' = blk f /\ sm_cap (tasks f') = sm_cap (tasks f)
  /\ match sp with
     | SItem _ _ => filled (tasks f') = pred (filled (tasks f)) /\ 0 < filled (tasks f)
     | SNone => fub_len f = 0 /\ f' = f /\ w' = w
     | SPending => fub_len f <> 0 /\ filled (tasks f') = filled (tasks f)
     end.
Proof. exact fub_poll_next_spec. Qed.
Print Assumptions C02_bounded_poll.

(** the finished future is removed from its slot in the very call that yields its output *)
Theorem C02_yielded_future_is_removed :
  forall (P : params) (own : nat -> nat) (k : ckind) (f : fub) (t : nat) (w : world),
  winv own None w -> fub_ok own f ->
  let '(f', pr, w') := poll_inner P k f t w in
  winv own None w' /\ fub_ok own f' /\ blk f' = blk f /\ sm_cap (tasks f') = sm_cap (tasks f)
  /\ match pr with
     | PReady i c r => is_ready r = true /\ filled (tasks f') = pred (filled (tasks f)) /\ 0 < filled (tasks f)
                       /\ sm_get (tasks f') i = None
     | PNone => fub_len f = 0 /\ f' = f /\ w' = w
     | PPending => fub_len f <> 0 /\ filled (tasks f') = filled (tasks f)
     end.
Proof. exact poll_inner_spec. Qed.
Print Assumptions C02_yielded_future_is_removed.

(** FuturesUnordered (and MergeUnbounded): the round-robin loop over the groups returns None
    exactly when nothing is left in any group, Pending only while something is held, and an
    item leaves exactly one future fewer; no group holding a future is discarded *)
Theorem C02_unbounded_poll :
  forall (P : params) (mrg : bool) (u : fu) (t : nat) (w : world),
  winv (cnt (blks (groups u))) None w -> fu_ok mrg u ->
  let '(u', sp, w') := fu_poll_next P mrg u t w in
  winv (cnt (blks (groups u'))) None w' /\ fu_ok mrg u' /\ loop_post mrg u u' sp.
Proof. exact fu_poll_next_spec. Qed.
Print Assumptions C02_unbounded_poll.

(** a push into FuturesUnordered is always accepted and adds exactly one held future,
    across the creation of new groups *)
Theorem C02_unbounded_push :
  forall (P : params), params_ok P -> forall (mrg : bool) (u : fu) (c : child) (w : world),
  winv (cnt (blks (groups u))) None w -> fu_ok mrg u ->
  let '(u', w') := fu_push P mrg u c w in
  winv (cnt (blks (groups u'))) None w' /\ fu_ok mrg u' /\ total (groups u') = S (total (groups u))
  /\ groups u' <> [].
Proof. exact fu_push_spec. Qed.
Print Assumptions C02_unbounded_push.

(** FuturesOrderedBounded: held = running + parked; an item leaves one fewer; None / Pending
    never change the held count *)
Theorem C02_ordered_bounded_poll :
  forall (P : params) (own : nat -> nat) (k : ckind) (q : fob) (t : nat) (w : world),
  winv own None w -> fub_ok own (fo_inner q) ->
  let '(q', sp, w') := fob_poll_next P k q t w in
  winv own None w' /\ fub_ok own (fo_inner q') /\ blk (fo_inner q') = blk (fo_inner q)
  /\ sm_cap (tasks (fo_inner q')) = sm_cap (tasks (fo_inner q))
  /\ match sp with
     | SItem _ _ => fob_len q' = pred (fob_len q) /\ 0 < fob_len q
     | SNone => fub_len (fo_inner q') = 0 /\ fob_len q' = fob_len q
     | SPending => fub_len (fo_inner q') <> 0 /\ fob_len q' = fob_len q
     end.
Proof. exact fob_poll_next_spec. Qed.
Print Assumptions C02_ordered_bounded_poll.

Theorem C02_ordered_unbounded_poll :
  forall (P : params) (q : fo) (t : nat) (w : world),
  winv (fo_own q) None w -> fu_ok false (fu_inner q) ->
  let '(q', sp, w') := fo_poll_next P q t w in
  winv (fo_own q') None w' /\ fu_ok false (fu_inner q')
  /\ match sp with
     | SItem _ _ => fo_len q' = pred (fo_len q) /\ 0 < fo_len q
     | SNone => rem (fu_inner q') = 0 /\ fo_len q' = fo_len q
     | SPending => rem (fu_inner q') <> 0 /\ fo_len q' = fo_len q
     end.
Proof. exact fo_poll_next_spec. Qed.
Print Assumptions C02_ordered_unbounded_poll.

(** all of this holds in every reachable state: the structural invariant is preserved by
    every operation of every history, and no unreachable arm / exhausted fuel is ever hit *)
Theorem C02_invariant_reachable :
  forall (P : params), params_ok P -> forall (ops : list op), Inv (reach P ops).
Proof. exact reachable_Inv. Qed.
Print Assumptions C02_invariant_reachable.

(** identity level, whole histories (TokenLedger.v): an output that is handed out was produced by
    a child that answered Ready, and it is handed out no more often than it was produced — no
    item is yielded that no held future produced, none is yielded twice; the full conservation
    statement (parked ++ handed out ++ dropped inside ≡ produced) is C06_outputs_ledger *)
From FB Require Import TokenLedger.
Theorem C02_yielded_outputs_were_produced :
  forall (P : params) (ops : list op) (t : tok),
  Forall tok_op ops -> In t (handed_in P init_state ops) -> In t (produced_in P init_state ops).
Proof. exact handed_out_was_produced. Qed.
Print Assumptions C02_yielded_outputs_were_produced.

Theorem C02_no_output_yielded_more_often_than_produced :
  forall (P : params) (ops : list op) (t : tok),
  Forall tok_op ops ->
  count_occ tok_eq_dec (handed_in P init_state ops) t <= count_occ tok_eq_dec (produced_in P init_state ops) t.
Proof. exact handed_out_at_most_as_often_as_produced. Qed.
Print Assumptions C02_no_output_yielded_more_often_than_produced.

(** a stream that holds nothing (no future, no parked output - what is_terminated reports) answers
    None, and keeps holding nothing: in every reachable state of every history *)
From FB Require Import ObserveProofs.
Theorem C02_terminated_stream_answers_none :
  forall (P : params), params_ok P -> forall (ops : list op) (t : nat) (i : injection),
  let k := st_coll (reach P ops) in
  (match k with CFub _ | CFu _ | CFob _ | CFo _ | CMu _ => True | _ => False end) ->
  in_crate k = 0 ->
  let '(k', w') := do_poll P t k (begin_op i (st_world (reach P ops))) in
  in_crate k' = 0 /\ exists l, log w' = ERet RetNone :: l.
Proof. exact terminated_stream_answers_none. Qed.
Print Assumptions C02_terminated_stream_answers_none.
