(** C15 — capacity and observer contract *)
From FB Require Import Base Syntax World SlotMap Fub Unbounded Ordered Step
  SlotMapProofs WorldProofs FubProofs UnboundedProofs OrderedProofs StepProofs Reach.

(** every constructor succeeds, for every capacity (0 included) *)
Theorem C15_constructors_succeed :
  forall (P : params) (t : ctype) (p : cparams) (inits : list (N * script)) (ups : list upstep) (w : world),
  fst (build P t p inits ups w) <> CDead.
Proof. exact build_not_dead. Qed.
Print Assumptions C15_constructors_succeed.

(** the slot map refuses an insert exactly when it is full; the unreachable arm is never taken *)
Theorem C15_insert_refused_iff_full :
  forall (m : slotmap) (c : child), sm_wf m -> (sm_insert m c = InsFull <-> filled m = sm_cap m).
Proof. exact sm_insert_full_iff. Qed.
Print Assumptions C15_insert_refused_iff_full.

(** a bounded push: accepted iff fewer than n are held; on acceptance exactly one more is held
    and the capacity is unchanged; on refusal nothing at all changes (the world is the same) *)
Theorem C15_bounded_push :
  forall (own : nat -> nat) (cur : cur_t) (f : fub) (c : child) (w : world),
  winv own cur w -> fub_ok own f ->
  match fub_try_push f c w with
  | (PushOk f', w') => winv own cur w' /\ fub_ok own f' /\ blk f' = blk f
                       /\ sm_cap (tasks f') = sm_cap (tasks f)
                       /\ fub_len f' = S (fub_len f) /\ fub_len f < fub_cap f
  | (PushFull, w') => w' = w /\ fub_len f = fub_cap f
  | (PushStuck, _) => False
  end.
Proof. exact fub_try_push_spec. Qed.
Print Assumptions C15_bounded_push.

(** the ordered bounded queue: same contract; a refused try_push_back / try_push_front leaves
    the position counters untouched (the returned queue is the old one) *)
Theorem C15_ordered_bounded_push :
  forall (P : params) (own : nat -> nat) (cur : cur_t) (front : bool) (q : fob) (c : child) (w : world),
  winv own cur w -> fub_ok own (fo_inner q) ->
  match fob_try_push P front q c w with
  | (Some q', w') => winv own cur w' /\ fub_ok own (fo_inner q') /\ blk (fo_inner q') = blk (fo_inner q)
                     /\ sm_cap (tasks (fo_inner q')) = sm_cap (tasks (fo_inner q))
                     /\ fob_len q' = S (fob_len q) /\ fub_len (fo_inner q) < fub_cap (fo_inner q)
  | (None, w') => w' = w /\ fub_len (fo_inner q) = fub_cap (fo_inner q)
  end.
Proof. exact fob_try_push_spec. Qed.
Print Assumptions C15_ordered_bounded_push.

(** in every reachable state: len = number of held futures <= capacity *)
Theorem C15_len_is_held_count :
  forall (P : params), params_ok P -> forall (ops : list op) (f : fub),
  st_coll (reach P ops) = CFub f ->
  fub_len f <= fub_cap f /\ fub_len f = length (sm_children (tasks f)).
Proof. exact fub_capacity. Qed.
Print Assumptions C15_len_is_held_count.

(** FuturesUnordered::len (a separate counter) equals the number of held futures in all groups *)
Theorem C15_unbounded_len_exact :
  forall (P : params), params_ok P -> forall (ops : list op) (u : fu),
  st_coll (reach P ops) = CFu u -> rem u = total (groups u).
Proof. exact fu_len_exact. Qed.
Print Assumptions C15_unbounded_len_exact.

(** the observers themselves ([observe] is the model of len / is_empty / capacity / size_hint /
    is_terminated): in every reachable state of every history they report the state - [len] is
    the number of futures held plus (ordered queues) the outputs parked for their turn,
    [is_empty] and [is_terminated] say exactly whether that number is zero, [capacity] is never
    below [len], the collections' [size_hint] is exact, merges report (0, None), and
    for_each_concurrent is terminated exactly when its upstream is gone and nothing runs *)
From FB Require Import Step Reach LedgerProofs TokenLedger ObserveProofs.
Theorem C15_observers_report_the_state :
  forall (P : params), params_ok P -> forall (ops : list op),
  match observe P (st_coll (reach P ops)) with
  | Some ob => obs_ok (st_coll (reach P ops)) ob
  | None => True
  end.
Proof. exact observers_report_the_state. Qed.
Print Assumptions C15_observers_report_the_state.
