(** * OrderReach: the queue-order invariant of the ordered queues holds in every reachable state
    of every history (C04), for FuturesOrderedBounded, FuturesOrdered and the queues inside
    buffered_ordered / try_buffered_ordered — as long as fewer than 2^(w-1) - 1 futures are held
    (capacity, for the adapters) at every moment of the history. *)
From FB Require Import Base Syntax World SlotMap Fub Unbounded Ordered Adapters Step Tactics SlotMapProofs WorldProofs FubProofs
  UnboundedProofs OrderedProofs AdaptersProofs StepProofs Reach WordArith OrderProofs FobOrder FoOrder.
From Coq Require Import Permutation.
Local Open Scope Z_scope.

Section WithParams.
Variable P : params.
Hypothesis HP : params_ok P.

Definition qord (q : queue) : Prop := match q with QO o => fob_oinv P o | QU _ => True end.

Definition ord_inv (k : coll) : Prop :=
  match k with
  | CFob q => fob_oinv P q
  | CFo q => fo_oinv P q
  | CAd a => qord (ad_q a)
  | _ => True
  end.

(** "fewer than 2^(w-1) - 1 futures": what is held, or (adapters) the capacity of the queue *)
Definition small (k : coll) : Prop :=
  match k with
  | CFob q => Z.of_nat (fob_len q) + 1 < msb P
  | CFo q => Z.of_nat (length (held (run_fu (fu_inner q)) (fu_ord q))) + 1 < msb P
  | CAd a => match ad_q a with QO o => Z.of_nat (fub_cap (fo_inner o)) + 1 < msb P | QU _ => True end
  | _ => True
  end.

Lemma ord_new_oinv hc seed : oinv P [] (ord_new P hc seed).
Proof.
  pose proof (@wmod_pos P (HW2 HP)). pose proof (@msb_pos P (HW2 HP)).
  constructor; simpl; auto.
  - apply Z.mod_pos_bound; auto.
  - rewrite Z.add_0_r. rewrite Z.mod_mod; lia.
  - constructor.
Qed.

Lemma index_children_length l i : length (index_children P l i) = length l.
Proof. revert i; induction l; simpl; intros; auto. Qed.

Lemma fob_from_list_len l w : fob_len (fst (fob_from_list P l w)) = length l.
Proof.
  unfold fob_from_list, fub_from_list. destruct (alloc_block _ _) as [b w1]. unfold fob_len, fub_len. simpl.
  rewrite index_children_length. lia.
Qed.

Lemma fo_from_list_run_len h l w :
  winv (cnt []) None w -> length (run_fu (fu_inner (fst (fo_from_list P h l w)))) = length l.
Proof.
  intros Hw. unfold fo_from_list, fu_from_list.
  pose proof (@fu_with_capacity_spec false (Nat.max h (pMinCap P)) w Hw) as H0.
  assert (Hrun0 : run_fu (fst (fu_with_capacity (Nat.max h (pMinCap P)) w)) = []).
  { unfold fu_with_capacity. destruct (Nat.eqb _ 0); [reflexivity|].
    destruct (fub_new_eq' (Nat.max h (pMinCap P)) w) as (w0 & ->).
    unfold run_fu, run_gs. simpl. rewrite run_of_new. reflexivity. }
  destruct (fu_with_capacity (Nat.max h (pMinCap P)) w) as [u0 w0].
  destruct H0 as (A & B & _). cbn [fst] in Hrun0.
  pose proof (@fu_push_fold_run P HP (index_children P l 0) u0 w0 A B) as Hp.
  destruct (fold_left _ (index_children P l 0) (u0, w0)) as [u w1]. cbn [fst snd fu_inner] in *.
  apply Permutation_length in Hp. rewrite Hp, Hrun0, app_nil_r, map_length. apply index_children_length.
Qed.

(** ** construction *)
Lemma build_ord t p inits ups w :
  winv (cnt []) None w -> small (fst (build P t p inits ups w)) -> ord_inv (fst (build P t p inits ups w)).
Proof.
  intros Hw. unfold build. destruct t; cbn [ord_inv fst];
    repeat match goal with
           | |- context [if ?b then _ else _] => destruct b
           end; cbn [ord_inv fst]; auto;
    repeat match goal with
           | |- context [fub_from_list ?l ?w] => destruct (fub_from_list l w)
           | |- context [fub_new ?c ?w] => destruct (fub_new c w)
           | |- context [fu_from_list P ?m ?h ?l ?w] => destruct (fu_from_list P m h l w)
           | |- context [fu_with_capacity ?c ?w] => destruct (fu_with_capacity c w)
           | |- context [join_new ?a ?l ?w] => destruct (join_new a l w)
           end; cbn [ord_inv fst]; auto.
  - (* FOB from_iter, no input *)
    assert (Hr : run_of (tasks (fo_inner (fst (fob_from_list P [] w)))) = []).
    { unfold fob_from_list, fub_from_list. destruct (alloc_block _ _). reflexivity. }
    pose proof (@fob_from_list_order P HP [] w) as Ho.
    destruct (fob_from_list P [] w) as [q w1]. cbn [fst] in *.
    destruct (p_seed p); cbn [ord_inv small fst].
    + intros _. unfold fob_oinv. simpl. rewrite Hr. apply ord_new_oinv.
    + intros Hs. apply Ho. simpl. pose proof (@msb_pos P (HW2 HP)). lia.
  - (* FOB from_iter *)
    pose proof (fob_from_list_len (c :: l) w) as Hl.
    pose proof (@fob_from_list_order P HP (c :: l) w) as Ho.
    destruct (fob_from_list P (c :: l) w) as [q w1]. cbn [ord_inv small fst] in *.
    intros Hs. apply Ho. rewrite <- Hl. lia.
  - (* FOB new *)
    pose proof (@fob_new_order P HP (p_cap p) (seed_of p) w) as Ho.
    destruct (fob_new P (p_cap p) (seed_of p) w) as [[q|] w1]; cbn [ord_inv fst]; auto.
    intros _. eapply Ho; reflexivity.
  - (* FO from_iter, no input *)
    pose proof (@fo_from_list_run_len (lazy_hint p []) [] w Hw) as Hl.
    pose proof (@fo_from_list_order P HP (lazy_hint p []) [] w Hw) as Ho.
    destruct (fo_from_list P (lazy_hint p []) [] w) as [q w1] eqn:Hq. cbn [fst] in *.
    destruct (p_seed p); cbn [ord_inv small fst].
    + intros _. unfold fo_oinv. simpl. destruct (run_fu (fu_inner q)); [apply ord_new_oinv|discriminate].
    + intros Hs. apply Ho. simpl. pose proof (@msb_pos P (HW2 HP)). lia.
  - (* FO from_iter *)
    pose proof (@fo_from_list_run_len (lazy_hint p (c :: l)) (c :: l) w Hw) as Hl.
    pose proof (@fo_from_list_order P HP (lazy_hint p (c :: l)) (c :: l) w Hw) as Ho.
    destruct (fo_from_list P (lazy_hint p (c :: l)) (c :: l) w) as [q w1] eqn:Hq. cbn [fst] in *.
    assert (Hheap : oheap (fu_ord q) = []).
    { unfold fo_from_list in Hq. destruct (fu_from_list P false _ _ w). inversion Hq; subst. reflexivity. }
    cbn [ord_inv small fst]. intros Hs. apply Ho. unfold held, hidx in Hs. rewrite Hheap in Hs. simpl in Hs.
    rewrite app_nil_r, Hl in Hs. lia.
  - (* FO new *)
    intros _. unfold fo_oinv. simpl. apply ord_new_oinv.
  - (* FO with_capacity *)
    unfold fo_with_capacity, heap_cap_for.
    assert (Hrun0 : run_fu (fst (fu_with_capacity (p_cap p) w)) = []).
    { unfold fu_with_capacity. destruct (Nat.eqb _ 0); [reflexivity|].
      destruct (fub_new_eq' (p_cap p) w) as (w0 & ->).
      unfold run_fu, run_gs. simpl. rewrite run_of_new. reflexivity. }
    destruct (fu_with_capacity (p_cap p) w) as [u w1]. cbn [ord_inv fst] in *. intros _.
    unfold fo_oinv. simpl. rewrite Hrun0. apply ord_new_oinv.
  - (* buffered_ordered *)
    pose proof (@fob_new_order P HP (p_cap p) 0 w) as Ho.
    destruct (fob_new P (p_cap p) 0 w) as [[q|] w1]; cbn [ord_inv fst qord ad_q]; auto.
    intros _. eapply Ho; reflexivity.
  - (* try_buffered_ordered *)
    pose proof (@fob_new_order P HP (p_cap p) 0 w) as Ho.
    destruct (fob_new P (p_cap p) 0 w) as [[q|] w1]; cbn [ord_inv fst qord ad_q]; auto.
    intros _. eapply Ho; reflexivity.
Qed.


(** ** push *)
Lemma do_push_ord try front c sc k w :
  cinv k w -> ord_inv k -> small k -> ord_inv (fst (do_push P try front c sc k w)).
Proof.
  intros [Hw Hok] Hinv Hsm. unfold do_push. destruct k; cbn [fst ord_inv]; auto.
  - destruct front; auto. destruct (fub_try_push f (mk_child c sc) w) as [[?| |] ?]; exact I.
  - destruct front; auto. destruct (fub_try_push f (mk_child c sc) w) as [[?| |] ?]; exact I.
  - destruct (try || front)%bool; auto. destruct (fu_push P false u (mk_child c sc) w); exact I.
  - destruct (try || front)%bool; auto. destruct (fu_push P true u (mk_child c sc) w); exact I.
  - (* FOB *)
    simpl in Hok, Hinv, Hsm.
    pose proof (@fob_push_order P HP front q (mk_child c sc) w) as H.
    destruct (fob_try_push P front q (mk_child c sc) w) as [[q'|] w1]; cbn [fst ord_inv]; auto.
    destruct (H q' w1 Hinv Hsm Hok eq_refl) as [A _]. exact A.
  - (* FO *)
    simpl in Hok, Hinv, Hsm, Hw. destruct try; auto.
    pose proof (@fo_push_order_ok P HP front q (mk_child c sc) w Hw Hok Hinv Hsm) as H.
    destruct (fo_push P front q (mk_child c sc) w) as [q' w1]. exact H.
Qed.

(** ** the adapters: the fill loop pushes at the back, the poll releases the front *)
Lemma q_push_ord q c w :
  sm_wf (tasks (q_fub q)) -> qord q ->
  (match q with QO o => Z.of_nat (fob_len o) + 1 < msb P | QU _ => True end) ->
  qord (fst (q_push P q c w)).
Proof.
  intros Hwf Hinv Hroom. destruct q as [f|o]; simpl.
  - destruct (fub_try_push f c w) as [[?| |] ?]; exact I.
  - pose proof (@fob_push_order P HP false o c w) as H.
    destruct (fob_try_push P false o c w) as [[o'|] w1]; cbn [fst qord]; auto.
    destruct (H o' w1 Hinv Hroom Hwf eq_refl) as [A _]. exact A.
Qed.

Definition capsmall (q : queue) : Prop :=
  match q with QO o => Z.of_nat (fub_cap (fo_inner o)) + 1 < msb P | QU _ => True end.

Lemma capsmall_eq q q' : q_cap q' = q_cap q -> (forall f, q = QU f -> exists f', q' = QU f') ->
  (forall o, q = QO o -> exists o', q' = QO o') -> capsmall q -> capsmall q'.
Proof.
  intros Hc H1 H2 Hs. destruct q as [f|o].
  - destruct (H1 f eq_refl) as [f' ->]. exact I.
  - destruct (H2 o eq_refl) as [o' ->]. simpl in *. lia.
Qed.

Lemma fill_ord own n a t w :
  winv own None w -> q_ok own (ad_q a) -> (q_len (ad_q a) <= q_cap (ad_q a))%nat ->
  up_live (ad_up a) -> qord (ad_q a) -> capsmall (ad_q a) ->
  qord (ad_q (fst (fst (fill P n a t w)))) /\ capsmall (ad_q (fst (fst (fill P n a t w)))).
Proof.
  revert a w. induction n as [|n IH]; intros a w Hw Hok Hle Hul Hinv Hcs; cbn [fill]; [split; auto|].
  destruct (Nat.ltb_spec (q_len (ad_q a)) (q_cap (ad_q a))) as [Hlt|Hge]; [|split; auto].
  destruct (ad_up a) as [u|] eqn:Hu; [|split; auto].
  simpl in Hul.
  pose proof (@winv_up_poll own None (ad_try a) u t w Hul Hw) as Hup.
  pose proof (@up_poll_fused (ad_try a) u t w Hul) as Hfu.
  destruct (up_poll (ad_try a) u t w) as [[u' r] w1]. simpl in Hup.
  destruct r as [c| | |e]; cbn [fst ad_q]; auto.
  pose proof (@q_push_spec P own (ad_q a) c w1 Hup Hok Hlt) as H.
  assert (Hroom : match ad_q a with QO o => Z.of_nat (fob_len o) + 1 < msb P | QU _ => True end).
  { destruct (ad_q a) as [f|o]; auto. simpl in *. lia. }
  pose proof (@q_push_ord (ad_q a) c w1 (proj1 Hok) Hinv Hroom) as Ho.
  assert (Hkind : capsmall (fst (q_push P (ad_q a) c w1))).
  { destruct (ad_q a) as [f|o]; simpl in *.
    - destruct (fub_try_push f c w1) as [[?| |] ?]; exact I.
    - pose proof (@fob_try_push_spec P own None false o c w1 Hup Hok) as Hs.
      destruct (fob_try_push P false o c w1) as [[o'|] w2]; simpl; auto.
      destruct Hs as (_ & _ & _ & Hc & _). unfold fub_cap in *. rewrite Hc. exact Hcs. }
  destruct (q_push P (ad_q a) c w1) as [q' w2]. cbn [fst] in *.
  destruct H as (A & B & C & D & E).
  apply IH; simpl; auto; try lia.
Qed.

Lemma q_poll_ord own k q t w :
  winv own None w -> q_ok own q -> qord q -> capsmall q ->
  qord (fst (fst (q_poll P k q t w))) /\ capsmall (fst (fst (q_poll P k q t w))).
Proof.
  intros Hw Hok Hinv Hcs. destruct q as [f|o]; simpl.
  - destruct (fub_poll_next P k f t w) as [[? ?] ?]. split; exact I.
  - pose proof (@fob_poll_order P HP k o t w Hinv) as H.
    pose proof (@fob_poll_next_spec P own k o t w Hw Hok) as Hc.
    destruct (fob_poll_next P k o t w) as [[o' sp] w1]. cbn [fst] in *. destruct H as [A _]. split; auto.
    destruct Hc as (_ & _ & _ & Hc & _). simpl in *. unfold fub_cap in *. rewrite Hc. exact Hcs.
Qed.

Lemma adapter_poll_ord own a t w :
  winv own None w -> ad_ok own a -> qord (ad_q a) -> capsmall (ad_q a) ->
  qord (ad_q (fst (fst (adapter_poll P a t w)))) /\ capsmall (ad_q (fst (fst (adapter_poll P a t w)))).
Proof.
  intros Hw (Hok & Hle & Hul) Hinv Hcs. unfold adapter_poll.
  pose proof (@fill_spec P own (S (q_cap (ad_q a))) a t w Hw Hok Hle ltac:(lia) Hul) as Hs.
  pose proof (@fill_ord own (S (q_cap (ad_q a))) a t w Hw Hok Hle Hul Hinv Hcs) as Ho.
  destruct (fill P (S (q_cap (ad_q a))) a t w) as [[a1 e] w1]. cbn [fst] in Ho.
  destruct Hs as (A & B & _). destruct Ho as [O1 O2].
  destruct e as [tk|]; cbn [fst]; auto.
  pose proof (@q_poll_ord own (ad_kind a1) (ad_q a1) t w1 A B O1 O2) as Hp.
  destruct (q_poll P (ad_kind a1) (ad_q a1) t w1) as [[q' sp] w2]. cbn [fst] in Hp.
  destruct sp; cbn [fst ad_q]; auto. destruct (ad_up a1); cbn [fst ad_q]; auto.
Qed.

(** ** one operation *)
Lemma step_core_ord k o w :
  cinv k w -> ord_inv k -> small k -> small (fst (step_core P k o w)) -> ord_inv (fst (step_core P k o w)).
Proof.
  intros Hc Hinv Hsm. pose proof Hc as [Hw Hok]. unfold step_core.
  destruct o as [ty p inits ups|c sc|c sc|c sc|c sc|t i|a| | | | ]; cbn [fst]; auto.
  - destruct k; auto. simpl in Hw. apply build_ord; auto.
  - intros _. apply do_push_ord; auto.
  - intros _. apply do_push_ord; auto.
  - intros _. apply do_push_ord; auto.
  - intros _. apply do_push_ord; auto.
  - intros _. unfold do_poll. destruct k; cbn [fst ord_inv]; auto.
    + destruct (fub_poll_next P KFut f t w) as [[? ?] ?]; exact I.
    + destruct (mb_poll_next P f t w) as [[? ?] ?]; exact I.
    + destruct (fu_poll_next P false u t w) as [[? ?] ?]; exact I.
    + destruct (fu_poll_next P true u t w) as [[? ?] ?]; exact I.
    + pose proof (@fob_poll_order P HP KFut q t w Hinv) as H.
      destruct (fob_poll_next P KFut q t w) as [[q' sp] w1]. destruct H as [A _]. exact A.
    + simpl in Hok. pose proof (@fo_poll_order P HP q t w Hinv (fo_wf Hok)) as H.
      destruct (fo_poll_next P q t w) as [[q' sp] w1]. destruct H as [A _]. exact A.
    + simpl in Hok, Hw, Hinv, Hsm. destruct Hok as (Hwf & Hle & Hul).
      assert (Hcs : capsmall (ad_q a)) by (unfold capsmall; destruct (ad_q a); auto).
      pose proof (@adapter_poll_ord _ a t w Hw (conj (fub_ok_single _ Hwf) (conj Hle Hul)) Hinv Hcs) as H.
      destruct (adapter_poll P a t w) as [[a' r] w1]. cbn [fst] in *. apply H.
    + destruct (fec_poll P a t w) as [[? ?] ?]; exact I.
    + destruct (join_poll P j t w) as [[? ?] ?]; exact I.
  - intros _. unfold do_drop. destruct k; exact I.
Qed.

(** ** every history: if at every moment fewer than 2^(w-1) - 1 futures are held (for the
    adapters: the limit is below that), the queue-order invariant holds at every moment *)
Theorem reachable_order ops :
  (forall n, small (st_coll (reach P (firstn n ops)))) -> ord_inv (st_coll (reach P ops)).
Proof.
  unfold reach.
  assert (H : forall s, Inv s -> ord_inv (st_coll s) ->
                        (forall n, small (st_coll (run_state P s (firstn n ops)))) ->
                        ord_inv (st_coll (run_state P s ops))).
  { induction ops as [|o ops IH]; simpl; intros s Hs Ho Hsm; auto.
    apply IH.
    - apply step_inv; auto.
    - pose proof (Hsm 0%nat) as S0. pose proof (Hsm 1%nat) as S1. simpl in S0, S1.
      unfold step_op in *. destruct (is_dead (st_coll s)); auto.
      destruct Hs as [Hw Hok].
      assert (Hc : cinv (st_coll s) (begin_op (op_inj o) (st_world s))) by (split; auto; apply winv_begin_op; auto).
      pose proof (@step_core_ord (st_coll s) o _ Hc Ho S0) as Hx.
      destruct (step_core P (st_coll s) o (begin_op (op_inj o) (st_world s))) as [k' w']. apply Hx. exact S1.
    - intros n. apply (Hsm (S n)). }
  intros Hsm. apply H; auto; [apply Inv_init | exact I].
Qed.

End WithParams.
