(** * JoinProofs: join_all / try_join_all never hand out a value no input produced (C07), and
      put the output of the i-th input at index i (C04, join part)

    Buffer invariant [join_inv ids j] ([ids] = the ids of the inputs, in input order):
    either the combinator has completed / failed (empty buffer, empty queue), or for every
    index [i]: slot [i] still holds input [i] and cell [i] is unwritten, or slot [i] is vacant
    and cell [i] holds exactly the output of input [i]. *)
From FB Require Import Base Syntax World SlotMap Fub Adapters Tactics SlotMapProofs WorldProofs FubProofs AdaptersProofs.
Set Implicit Arguments.

(** children never change slot and keep their identity *)
Definition same_ids (m m' : slotmap) : Prop :=
  sm_cap m' = sm_cap m /\ forall j, option_map cid (sm_get m' j) = option_map cid (sm_get m j).

Lemma same_ids_refl m : same_ids m m.
Proof. split; auto. Qed.

Lemma same_ids_trans a b c : same_ids a b -> same_ids b c -> same_ids a c.
Proof. intros [A1 A2] [B1 B2]. split; [congruence|]. intros j. rewrite B2, A2. reflexivity. Qed.

Lemma same_ids_set m i c c' :
  sm_get m i = Some c -> cid c' = cid c -> same_ids m (sm_set m i c').
Proof.
  intros Hg Hc. split; [apply sm_set_cap|]. intros j. rewrite sm_get_set.
  destruct (Nat.eqb_spec i j) as [<-|]; auto.
  apply sm_get_lt in Hg as Hlt. destruct (Nat.ltb_spec i (sm_cap m)); [|lia].
  rewrite Hg. simpl. congruence.
Qed.

Lemma poll_child_cid' k c b s w : cid (fst (fst (poll_child k c b s w))) = cid c.
Proof.
  unfold poll_child. destruct (cdone c); simpl; auto.
  destruct (cscript c) as [|[acts r0] rest]; simpl; auto.
Qed.

Lemma drain_ids k n f t w :
  let '(f', pr, _) := drain k n f t w in
  same_ids (tasks f) (tasks f')
  /\ match pr with PReady i c r => sm_get (tasks f') i = Some c | _ => True end.
Proof.
  revert f w. induction n as [|n IH]; intros f w; cbn [drain].
  - split; auto. apply same_ids_refl.
  - destruct (pop (blk f) w) as [pr w1]. destruct pr as [| |i].
    + split; auto. apply same_ids_refl.
    + split; auto. apply same_ids_refl.
    + destruct (sm_get (tasks f) i) as [c|] eqn:Hg; [|apply IH].
      pose proof (poll_child_cid' k c (blk f) i w1) as Hc.
      destruct (poll_child k c (blk f) i w1) as [[c' r] w2]. simpl in Hc.
      pose proof (@same_ids_set (tasks f) i c c' Hg Hc) as Hs.
      destruct (is_ready r).
      * split; auto. simpl. rewrite sm_get_set, Nat.eqb_refl.
        apply sm_get_lt in Hg. destruct (Nat.ltb_spec i (sm_cap (tasks f))); auto; lia.
      * specialize (IH {| tasks := sm_set (tasks f) i c'; blk := blk f |} w2).
        destruct (drain k n {| tasks := sm_set (tasks f) i c'; blk := blk f |} t w2) as [[f' pr'] w'].
        destruct IH as [I1 I2]. split; auto. eapply same_ids_trans; eauto.
Qed.

Section WithParams.
Variable P : params.

Lemma poll_inner_ids k f t w :
  let '(f', pr, _) := poll_inner P k f t w in
  match pr with
  | PReady i c r =>
      exists c0, sm_get (tasks f) i = Some c0 /\ cid c0 = cid c /\ sm_get (tasks f') i = None
                 /\ sm_cap (tasks f') = sm_cap (tasks f)
                 /\ forall j, j <> i -> option_map cid (sm_get (tasks f') j) = option_map cid (sm_get (tasks f) j)
  | _ => same_ids (tasks f) (tasks f')
  end.
Proof.
  unfold poll_inner, poll_inner_no_remove.
  destruct (Nat.eqb (fub_len f) 0); [apply same_ids_refl|].
  pose proof (drain_ids k (pB P) f t (register (blk f) t w)) as H.
  destruct (drain k (pB P) f t (register (blk f) t w)) as [[f1 pr] w1]. destruct H as [[H1 H2] H3].
  destruct pr as [| |i c r]; try (split; auto).
  unfold fub_remove. rewrite H3. simpl.
  specialize (H2 i) as Hi. rewrite H3 in Hi. simpl in Hi.
  destruct (sm_get (tasks f) i) as [c0|] eqn:Hg; [|discriminate]. simpl in Hi. inversion Hi.
  exists c0. splits; auto.
  - rewrite sm_get_remove, Nat.eqb_refl. reflexivity.
  - unfold sm_cap, sm_remove. unfold sm_get in H3.
    destruct (nth_error (slots (tasks f1)) i) as [[?|?]|]; simpl; try discriminate.
    rewrite upd_length. exact H1.
  - intros j Hj. rewrite sm_get_remove. destruct (Nat.eqb_spec i j); [congruence|]. apply H2.
Qed.

(** ** the buffer invariant *)
Definition cell_ok (ids : list N) (m : slotmap) (out : list (option tok)) (i : nat) : Prop :=
  match sm_get m i with
  | Some c => nth_error out i = Some None /\ nth_error ids i = Some (cid c)
  | None => exists id, nth_error ids i = Some id /\ nth_error out i = Some (Some (TOut id))
  end.

Definition join_inv (ids : list N) (j : join) : Prop :=
  (j_out j = [] /\ forall i, sm_get (tasks (j_q j)) i = None)
  \/ (length (j_out j) = sm_cap (tasks (j_q j)) /\ length ids = sm_cap (tasks (j_q j))
      /\ forall i, i < sm_cap (tasks (j_q j)) -> cell_ok ids (tasks (j_q j)) (j_out j) i).

(** dropping the written outputs never touches an unwritten cell *)
Lemma drop_outputs_no_garbage ids m out0 out i0 skip w :
  (forall i, i0 <= i -> i < i0 + length out ->
     (match skip with Some s => s = i | None => False end)
     \/ match sm_get m i with
        | Some _ => True
        | None => exists id, nth_error out (i - i0) = Some (Some (TOut id)) /\ In id ids
        end) ->
  out0 = out ->
  forall e, In e (log (drop_outputs_from i0 skip m out w)) ->
    In e (log w) \/ exists id, In id ids /\ e = EODrop (TOut id) true.
Proof.
  intros H _. revert i0 w H. induction out as [|o rest IH]; intros i0 w H e He; simpl in *; auto.
  apply IH in He.
  - destruct He as [He|He]; auto.
    destruct (match skip with Some s => Nat.eqb s i0 | None => false end) eqn:Hs; auto.
    destruct (sm_get m i0) eqn:Hg; auto.
    simpl in He. destruct He as [<-|He]; auto. right.
    destruct (H i0 (le_n _)) as [Hk|Hk]; [lia| |].
    + destruct skip as [s|]; [|contradiction]. subst s. rewrite Nat.eqb_refl in Hs. discriminate.
    + rewrite Hg in Hk. rewrite Nat.sub_diag in Hk. destruct Hk as (id & Hn & Hin). simpl in Hn.
      inversion Hn; subst. simpl. eauto.
  - intros i Hi1 Hi2. destruct (H i) as [Hk|Hk]; try lia; auto. right.
    destruct (sm_get m i); auto. destruct Hk as (id & Hn & Hin). exists id. split; auto.
    replace (i - i0) with (S (i - S i0)) in Hn by lia. exact Hn.
Qed.

Lemma nth_error_In_ids (ids : list N) i id : nth_error ids i = Some id -> In id ids.
Proof. apply nth_error_In. Qed.

Lemma sm_wf_filled0_vacant m : sm_wf m -> filled m = 0 -> forall i, sm_get m i = None.
Proof.
  intros Hwf Hz i. destruct (sm_get m i) as [c|] eqn:Hg; auto. exfalso.
  pose proof (sm_remove_spec i Hwf) as (_ & _ & R). rewrite Hg in R. lia.
Qed.

Lemma cell_ok_transfer ids m m' out i :
  option_map cid (sm_get m' i) = option_map cid (sm_get m i) ->
  cell_ok ids m out i -> cell_ok ids m' out i.
Proof.
  unfold cell_ok. intros H. destruct (sm_get m' i) as [c1|], (sm_get m i) as [c0|]; simpl in H; try discriminate; auto.
  inversion H. intros [A B]. split; congruence.
Qed.

Lemma join_inv_same_ids ids try f f' out :
  same_ids (tasks f) (tasks f') ->
  join_inv ids {| j_try := try; j_q := f; j_out := out |} ->
  join_inv ids {| j_try := try; j_q := f'; j_out := out |}.
Proof.
  intros [Hc Hs] [[H1 H2]|(H1 & H2 & H3)]; simpl in *.
  - left. simpl. split; auto. intros i. specialize (Hs i). rewrite H2 in Hs.
    destruct (sm_get (tasks f') i); auto; discriminate.
  - right. simpl. splits; try congruence. intros i Hi. rewrite Hc in Hi.
    eapply cell_ok_transfer; [apply Hs|]. auto.
Qed.

(** every returned Vec is exactly the inputs' outputs in input order (or the empty Vec of a
    combinator polled again after it finished); an error is the error of one of the inputs *)
Definition ret_ok (ids : list N) (r : retv) : Prop :=
  match r with
  | RetReady l | RetOkv l => l = map TOut ids \/ l = []
  | RetErr t => exists id, In id ids /\ t = TErr id
  | RetPending => True
  | _ => False
  end.

Lemma map_cell_tok_full ids out :
  length out = length ids ->
  (forall i, i < length ids -> exists id, nth_error ids i = Some id /\ nth_error out i = Some (Some (TOut id))) ->
  map cell_tok out = map TOut ids.
Proof.
  revert out. induction ids as [|id ids IH]; intros [|o out] Hl H; simpl in *; try discriminate; auto.
  destruct (H 0 (Nat.lt_0_succ _)) as (id' & H1 & H2). simpl in H1, H2. inversion H1; inversion H2; subst.
  simpl. f_equal. apply IH; [lia|]. intros i Hi. apply (H (S i)). lia.
Qed.

Theorem join_loop_inv own ids n j t w :
  winv own None w -> fub_ok own (j_q j) -> join_inv ids j -> fub_len (j_q j) < n ->
  let '(j', r, w') := join_loop P n j t w in
  winv own None w' /\ fub_ok own (j_q j') /\ join_inv ids j' /\ ret_ok ids r.
Proof.
  revert j w. induction n as [|n IH]; intros j w Hw Hok Hinv Hfuel; cbn [join_loop]; [lia|].
  - pose proof (@poll_inner_spec P own (if j_try j then KTry else KFut) (j_q j) t w Hw Hok) as Hs.
    pose proof (poll_inner_ids (if j_try j then KTry else KFut) (j_q j) t w) as Hp.
    destruct (poll_inner P (if j_try j then KTry else KFut) (j_q j) t w) as [[f pr] w1].
    destruct Hs as (A & B & C & D & F).
    destruct j as [try q out]. simpl in *.
    destruct pr as [| |i c r].
    + (* pending *)
      splits; auto; [eapply join_inv_same_ids; eauto | exact I].
    + (* the queue is empty: the result *)
      destruct F as (F1 & -> & ->).
      assert (Hvac : forall i, sm_get (tasks q) i = None).
      { apply sm_wf_filled0_vacant; [apply Hok | exact F1]. }
      splits; auto.
      * left. simpl. split; auto.
      * destruct Hinv as [[H1 _]|(H1 & H2 & H3)]; simpl in *.
        -- rewrite H1. destruct try; simpl; auto.
        -- assert (Hm : map cell_tok out = map TOut ids).
           { apply map_cell_tok_full; [congruence|]. intros i Hi. rewrite H2 in Hi.
             specialize (H3 i Hi). unfold cell_ok in H3. rewrite Hvac in H3. exact H3. }
           rewrite Hm. destruct try; simpl; auto.
    + (* a child finished *)
      destruct F as (F1 & F2 & F3 & F4).
      destruct Hp as (c0 & Hg0 & Hcid & Hg2 & Hcap & Hoth).
      destruct Hinv as [[H1 H2]|(H1 & H2 & H3)]; simpl in *; [rewrite H2 in Hg0; discriminate|].
      assert (Hi : i < sm_cap (tasks q)) by (eapply sm_get_lt; eauto).
      pose proof (H3 i Hi) as Hci. unfold cell_ok in Hci. rewrite Hg0 in Hci. destruct Hci as [Hci1 Hci2].
      assert (Hinv' : join_inv ids {| j_try := try; j_q := f; j_out := upd out i (Some (TOut (cid c))) |}).
      { right; simpl. rewrite upd_length. splits; try congruence.
        intros i' Hi'. rewrite Hcap in Hi'. unfold cell_ok.
        destruct (Nat.eq_dec i' i) as [->|Hne].
        - rewrite Hg2. exists (cid c). split; [congruence | apply nth_error_upd_eq; lia].
        - rewrite nth_error_upd_neq by auto.
          eapply cell_ok_transfer; [apply (Hoth i' Hne)|]. auto. }
      assert (Hgo : let '(j', r', w') := join_loop P n {| j_try := try; j_q := f; j_out := upd out i (Some (TOut (cid c))) |} t w1 in
                    winv own None w' /\ fub_ok own (j_q j') /\ join_inv ids j' /\ ret_ok ids r').
      { apply IH; auto. simpl. unfold fub_len in *. lia. }
      destruct r; try exact Hgo.
      (* an input failed: release what was collected, cancel the rest *)
      pose proof (@winv_drop_outputs own None 0 (Some i) (tasks f) out w1 A) as Hd.
      pose proof (@fub_clear_spec own None f _ Hd B) as Hcl.
      destruct (fub_clear f (drop_outputs_from 0 (Some i) (tasks f) out w1)) as [f' w2].
      destruct Hcl as (K1 & K2 & K3 & K4 & K5).
      splits; auto.
      * left. simpl. split; auto.
      * simpl. exists (cid c). split; auto. apply nth_error_In with (n := i). congruence.
Qed.

Theorem join_poll_inv own ids j t w :
  winv own None w -> fub_ok own (j_q j) -> join_inv ids j ->
  let '(j', r, w') := join_poll P j t w in
  winv own None w' /\ fub_ok own (j_q j') /\ join_inv ids j' /\ ret_ok ids r.
Proof. intros. unfold join_poll. apply join_loop_inv; auto. Qed.

(** the error path and the Drop impl never drop an unwritten cell: under the invariant every
    cell [drop_outputs_from] reads holds the output of its input *)
Lemma drop_outputs_only_written ids m out skip w :
  length out = sm_cap m -> length ids = sm_cap m ->
  (forall i, i < sm_cap m -> skip = Some i \/ cell_ok ids m out i) ->
  forall e, In e (log (drop_outputs_from 0 skip m out w)) ->
    In e (log w) \/ exists id, In id ids /\ e = EODrop (TOut id) true.
Proof.
  intros Hl Hids Hcells. eapply drop_outputs_no_garbage with (out0 := out); auto.
  intros i _ Hi. simpl in Hi. rewrite Hl in Hi. destruct (Hcells i Hi) as [->|Hc]; auto.
  right. unfold cell_ok in Hc. destruct (sm_get m i); auto.
  destruct Hc as (id & H1 & H2). exists id. rewrite Nat.sub_0_r. split; auto.
  eapply nth_error_In; eauto.
Qed.

(** construction establishes the invariant with [ids] = the inputs' ids in input order *)
Lemma sm_get_from_list l i : sm_get (sm_from_list l) i = nth_error l i.
Proof.
  unfold sm_get, sm_from_list; simpl. rewrite nth_error_map. destruct (nth_error l i); reflexivity.
Qed.

Theorem join_new_inv try l w : join_inv (map cid l) (fst (join_new try l w)).
Proof.
  unfold join_new, fub_from_list.
  destruct (alloc_block (length l) (count_alloc (if Nat.eqb (length l) 0 then 0 else 1) w)) as [b w1].
  simpl. right. simpl. unfold sm_cap; simpl. rewrite repeat_length, !map_length. splits; auto.
  intros i Hi. unfold cell_ok. rewrite sm_get_from_list.
  destruct (nth_error l i) as [c|] eqn:Hn; [|apply nth_error_None in Hn; lia].
  split.
  - apply nth_error_repeat; auto.
  - rewrite nth_error_map, Hn. reflexivity.
Qed.

End WithParams.
