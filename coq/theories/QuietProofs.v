(** * QuietProofs: no busy-spinning (C14)

    If every held child answers Pending without waking anything and nobody invokes a child
    waker (no injections), a poll of a group whose ready queue holds [L] entries
    - pops min(B, L) entries, enqueues nothing, and wakes its task exactly when L >= B
      (budget exhausted: the rest of the queue must not be forgotten);
    - so with L < B it returns Pending having invoked no task waker at all, leaves the queue
      empty, and every later poll does the same.
    Hence poll number floor(L/B) + 1 and all later ones are silent.  With no stale entries
    L <= held, which gives the "held + 2" bound; stale entries (wake-ups of vacant slots) also
    cost budget, which is the open finding F9 when there are more than B of them. *)
From FB Require Import Base Syntax World SlotMap Fub Tactics SlotMapProofs WorldProofs.
Set Implicit Arguments.

Definition quiet_script (k : ckind) (s : script) : Prop :=
  Forall (fun st => fst st = [] /\ eff_res k (snd st) = RP) s.

Definition quiet_map (k : ckind) (m : slotmap) : Prop :=
  forall i c, sm_get m i = Some c -> cdone c = false /\ quiet_script k (cscript c).

Fixpoint twakes (l : list event) : nat :=
  match l with
  | [] => 0
  | ETWake _ _ :: t => S (twakes t)
  | _ :: t => twakes t
  end.

Definition noinj (w : world) : Prop := winj w = no_inj.

Lemma run_inj_noinj p k sl w : noinj w -> run_inj p k sl w = w.
Proof.
  unfold noinj, run_inj. intros ->. reflexivity.
Qed.

Lemma forced_inc_noinj k w : noinj w -> forced_inc k w = false.
Proof. unfold noinj, forced_inc. intros ->. reflexivity. Qed.

Lemma get_blk_emit' e w b : get_blk (emit e w) b = get_blk w b. Proof. reflexivity. Qed.

Lemma get_put_same w b k k0 : get_blk w b = Some k0 -> get_blk (put_blk b k w) b = Some k.
Proof.
  intros H. unfold get_blk, put_blk in *. simpl. apply nth_error_upd_eq. eapply nth_error_Some_lt; eauto.
Qed.

(** a quiet child's poll: Pending, nothing but the log and the poll counter changes *)
Lemma poll_child_quiet k c b s w :
  cdone c = false -> quiet_script k (cscript c) ->
  let '(c', r, w') := poll_child k c b s w in
  r = RP /\ cdone c' = false /\ quiet_script k (cscript c')
  /\ blocks w' = blocks w /\ winj w' = winj w /\ twakes (log w') = twakes (log w).
Proof.
  intros Hd Hq. unfold poll_child. rewrite Hd.
  destruct (cscript c) as [|[acts r0] rest] eqn:Hs; simpl.
  - splits; auto. rewrite Hs. constructor.
  - inversion Hq as [|x l [Ha Hr] Hrest]; subst. simpl in Ha, Hr. subst acts. rewrite Hr. simpl.
    splits; auto.
Qed.

(** pop without injections *)
Lemma pop_noinj b w kb :
  noinj w -> get_blk w b = Some kb ->
  match bqueue kb with
  | [] => pop b w = (PopNone, set_popk (S (popk w)) w)
  | i :: q => exists w', pop b w = (PopReady i, w')
              /\ get_blk w' b = Some (blk_set_flags (blk_set_queue kb q) (upd (bflags kb) i false))
              /\ winj w' = winj w /\ log w' = log w
              /\ (forall b', b' <> b -> get_blk w' b' = get_blk w b')
  end.
Proof.
  intros Hn Hk. unfold pop.
  assert (Hn' : noinj (set_popk (S (popk w)) w)) by exact Hn.
  rewrite (forced_inc_noinj _ Hn').
  change (get_blk (set_popk (S (popk w)) w) b) with (get_blk w b). rewrite Hk.
  destruct (bqueue kb) as [|i q] eqn:Hq.
  - rewrite run_inj_noinj by exact Hn'. reflexivity.
  - set (w1 := put_blk b (blk_set_queue kb q) (set_popk (S (popk w)) w)).
    assert (Hn1 : noinj w1) by exact Hn.
    rewrite (run_inj_noinj _ _ _ Hn1).
    assert (Hg1 : get_blk w1 b = Some (blk_set_queue kb q)) by (unfold w1; eapply get_put_same; exact Hk).
    unfold clear_flag. rewrite Hg1.
    set (w2 := put_blk b (blk_set_flags (blk_set_queue kb q) (upd (bflags (blk_set_queue kb q)) i false)) w1).
    assert (Hn2 : noinj w2) by exact Hn.
    rewrite (run_inj_noinj _ _ _ Hn2).
    exists w2. splits; auto; [unfold w2; eapply get_put_same; eauto|].
    intros b' Hne. unfold w2, w1. rewrite !get_put_blk.
    destruct (Nat.eqb_spec b b'); [congruence|reflexivity].
Qed.

(** the drain loop under quietness *)
Lemma drain_quiet k n f t w kb :
  quiet_map k (tasks f) -> noinj w -> get_blk w (blk f) = Some kb ->
  let '(f', pr, w') := drain k n f t w in
  pr = PPending /\ quiet_map k (tasks f') /\ noinj w' /\ blk f' = blk f
  /\ (exists kb', get_blk w' (blk f) = Some kb' /\ bqueue kb' = skipn n (bqueue kb))
  /\ twakes (log w') = twakes (log w) + (if Nat.ltb (length (bqueue kb)) n then 0 else 1)
  /\ (forall b', b' <> blk f -> get_blk w' b' = get_blk w b').
Proof.
  revert f w kb. induction n as [|n IH]; intros f w kb Hq Hn Hk; cbn [drain].
  - assert (Hsw : self_wake (blk f) t w = emit (ETWake t CCrate) (put_blk (blk f) (blk_set_tw kb) w))
      by (unfold self_wake; rewrite Hk; reflexivity).
    rewrite Hsw. splits; auto.
    + exists (blk_set_tw kb). split; [|reflexivity].
      change (get_blk (emit (ETWake t CCrate) (put_blk (blk f) (blk_set_tw kb) w)) (blk f))
        with (get_blk (put_blk (blk f) (blk_set_tw kb) w) (blk f)).
      eapply get_put_same; eauto.
    + simpl. lia.
    + intros b' Hne. rewrite get_blk_emit', get_put_blk. destruct (Nat.eqb_spec (blk f) b'); [congruence|reflexivity].
  - pose proof (@pop_noinj (blk f) w kb Hn Hk) as Hp.
    destruct (bqueue kb) as [|i q] eqn:Hqq.
    + rewrite Hp. splits; auto. exists kb. split; auto.
    + destruct Hp as (w1 & -> & Hg1 & Hi1 & Hl1 & Hf1).
      assert (Hn1 : noinj w1) by (unfold noinj in *; congruence).
      destruct (sm_get (tasks f) i) as [c|] eqn:Hg.
      * destruct (Hq _ _ Hg) as [Hd Hs].
        pose proof (@poll_child_quiet k c (blk f) i w1 Hd Hs) as Hc.
        destruct (poll_child k c (blk f) i w1) as [[c' r] w2]. destruct Hc as (-> & C2 & C3 & C4 & C5 & C6).
        simpl.
        assert (Hq' : quiet_map k (sm_set (tasks f) i c')).
        { intros j c0 Hj. rewrite sm_get_set in Hj. destruct (Nat.eqb i j); [|eauto].
          destruct (Nat.ltb i (sm_cap (tasks f))); inversion Hj; subst; auto. }
        assert (Hg2 : get_blk w2 (blk f) = Some (blk_set_flags (blk_set_queue kb q) (upd (bflags kb) i false))).
        { unfold get_blk in *. rewrite C4. exact Hg1. }
        assert (Hn2 : noinj w2) by (unfold noinj in *; congruence).
        specialize (IH {| tasks := sm_set (tasks f) i c'; blk := blk f |} w2
                       (blk_set_flags (blk_set_queue kb q) (upd (bflags kb) i false)) Hq' Hn2 Hg2).
        destruct (drain k n {| tasks := sm_set (tasks f) i c'; blk := blk f |} t w2) as [[f' pr] w'].
        destruct IH as (I1 & I2 & I3 & I4 & I5 & I6 & I7). splits; auto.
        { rewrite I6, C6, Hl1. simpl.
          destruct (Nat.ltb_spec (length q) n), (Nat.ltb_spec (S (length q)) (S n)); lia. }
        intros b' Hne. rewrite (I7 b' Hne), <- (Hf1 b' Hne). unfold get_blk. rewrite C4. reflexivity.
      * specialize (IH f w1 (blk_set_flags (blk_set_queue kb q) (upd (bflags kb) i false)) Hq Hn1 Hg1).
        destruct (drain k n f t w1) as [[f' pr] w']. destruct IH as (I1 & I2 & I3 & I4 & I5 & I6 & I7).
        splits; auto.
        { rewrite I6, Hl1. simpl.
          destruct (Nat.ltb_spec (length q) n), (Nat.ltb_spec (S (length q)) (S n)); lia. }
        intros b' Hne. rewrite (I7 b' Hne). apply Hf1; auto.
Qed.

Section WithParams.
Variable P : params.

(** one poll: silent iff fewer than B entries were queued; the queue shrinks by min(B, L) *)
Theorem poll_quiet k f t w kb :
  quiet_map k (tasks f) -> noinj w -> get_blk w (blk f) = Some kb -> fub_len f <> 0 ->
  let '(f', pr, w') := poll_inner_no_remove P k f t w in
  pr = PPending /\ quiet_map k (tasks f') /\ noinj w' /\ blk f' = blk f
  /\ (exists kb', get_blk w' (blk f) = Some kb' /\ bqueue kb' = skipn (pB P) (bqueue kb))
  /\ twakes (log w') = twakes (log w) + (if Nat.ltb (length (bqueue kb)) (pB P) then 0 else 1)
  /\ (forall b', b' <> blk f -> get_blk w' b' = get_blk w b').
Proof.
  intros Hq Hn Hk Hne. unfold poll_inner_no_remove.
  destruct (Nat.eqb_spec (fub_len f) 0); [contradiction|].
  unfold register. rewrite Hk.
  set (w0 := set_regk (S (regk (put_blk (blk f) (blk_set_last (blk_set_reg kb (Some t)) (Some t)) w)))
               (put_blk (blk f) (blk_set_last (blk_set_reg kb (Some t)) (Some t)) w)).
  assert (Hn0 : noinj w0) by exact Hn.
  rewrite (run_inj_noinj _ _ _ Hn0).
  assert (Hg0 : get_blk w0 (blk f) = Some (blk_set_last (blk_set_reg kb (Some t)) (Some t))).
  { unfold w0. change (get_blk (set_regk _ ?x) (blk f)) with (get_blk x (blk f)). eapply get_put_same; eauto. }
  pose proof (@drain_quiet k (pB P) f t w0 _ Hq Hn0 Hg0) as H.
  destruct (drain k (pB P) f t w0) as [[f' pr] w']. destruct H as (A & B & C & D & E & F & G). splits; auto.
  intros b' Hb. rewrite (G b' Hb). unfold w0. change (get_blk (set_regk _ ?x) b') with (get_blk x b').
  rewrite get_put_blk. destruct (Nat.eqb_spec (blk f) b'); [congruence|reflexivity].
Qed.

(** fewer than B queued: the poll is silent and leaves the queue empty — and so is every later one *)
Corollary poll_quiescent k f t w kb :
  quiet_map k (tasks f) -> noinj w -> get_blk w (blk f) = Some kb -> fub_len f <> 0 ->
  length (bqueue kb) < pB P ->
  let '(f', pr, w') := poll_inner_no_remove P k f t w in
  pr = PPending /\ twakes (log w') = twakes (log w)
  /\ exists kb', get_blk w' (blk f) = Some kb' /\ bqueue kb' = [].
Proof.
  intros Hq Hn Hk Hne Hlt.
  pose proof (@poll_quiet k f t w kb Hq Hn Hk Hne) as H.
  destruct (poll_inner_no_remove P k f t w) as [[f' pr] w']. destruct H as (A & B & C & D & (kb' & E1 & E2) & F & _).
  splits; auto.
  - rewrite F. destruct (Nat.ltb_spec (length (bqueue kb)) (pB P)); lia.
  - exists kb'. split; auto. rewrite E2. apply skipn_all2. lia.
Qed.

End WithParams.

(** between polls: pushes and drops never invoke the task waker; only a waker action does *)
Lemma tw_enqueue b s w : twakes (log (snd (enqueue_slot b s w))) = twakes (log w).
Proof.
  unfold enqueue_slot. destruct (get_blk w b) as [k|]; auto.
  destruct (nth_error (bflags k) s) as [[|]|]; auto.
Qed.

Lemma tw_fub_try_push f c w : twakes (log (snd (fub_try_push f c w))) = twakes (log w).
Proof.
  unfold fub_try_push. destruct (sm_insert (tasks f) c); simpl; auto.
  rewrite tw_enqueue. reflexivity.
Qed.

Lemma tw_dec_strong b w : twakes (log (dec_strong b w)) = twakes (log w).
Proof.
  unfold dec_strong. destruct (get_blk w b) as [k|]; auto.
  destruct (bfreed k); auto. destruct (bstrong k) as [|[|n]]; auto.
Qed.

Lemma tw_drop_children b m w : twakes (log (drop_children b m w)) = twakes (log w).
Proof.
  unfold drop_children. generalize (sm_children m). intros l. revert w.
  induction l; simpl; intros; auto. rewrite IHl. reflexivity.
Qed.

Lemma tw_fub_drop f w : twakes (log (fub_drop f w)) = twakes (log w).
Proof. unfold fub_drop. rewrite tw_dec_strong, tw_drop_children. reflexivity. Qed.
