(** * StepProofs: the global invariant of the top-level state machine

    [Inv s] holds initially and is preserved by every operation of every collection type, so
    it holds in every reachable state, for every history.  Consequences proved here: no
    operation ever emits [EVtBad] (a waker vtable entry touching a released block),
    [EStuck] (an [unreachable] arm of the code) or [EOutOfFuel] (a fuelled loop of the model
    running dry). *)
From FB Require Import Base Syntax World SlotMap Fub Unbounded Ordered Adapters Step Tactics
  SlotMapProofs WorldProofs FubProofs UnboundedProofs OrderedProofs AdaptersProofs.
Set Implicit Arguments.

Definition coll_blks (k : coll) : list nat :=
  match k with
  | CFub f | CMb f => [blk f]
  | CFu u | CMu u => blks (groups u)
  | CFob q => [blk (fo_inner q)]
  | CFo q => blks (groups (fu_inner q))
  | CAd a => [blk (q_fub (ad_q a))]
  | CFec a => [blk (fe_q a)]
  | CJoin j => [blk (j_q j)]
  | _ => []
  end.

Definition coll_ok (k : coll) : Prop :=
  match k with
  | CFub f | CMb f => sm_wf (tasks f)
  | CFu u => fu_ok false u
  | CMu u => fu_ok true u
  | CFob q => sm_wf (tasks (fo_inner q))
  | CFo q => fu_ok false (fu_inner q)
  | CAd a => sm_wf (tasks (q_fub (ad_q a))) /\ q_len (ad_q a) <= q_cap (ad_q a) /\ up_live (ad_up a)
  | CFec a => sm_wf (tasks (fe_q a)) /\ up_live (fe_up a)
  | CJoin j => sm_wf (tasks (j_q j))
  | _ => True
  end.

Definition cinv (k : coll) (w : world) : Prop := winv (cnt (coll_blks k)) None w /\ coll_ok k.

Definition Inv (s : state) : Prop := cinv (st_coll s) (st_world s).

Lemma winv_empty_world : winv (cnt []) None empty_world.
Proof.
  constructor; simpl.
  - intros b k H. destruct b; discriminate.
  - intros b k H. destruct b; discriminate.
  - intros h b s H. destruct h; discriminate.
  - intros b H. unfold cnt in H; simpl in H. lia.
  - intros e [].
Qed.

Lemma Inv_init : Inv init_state.
Proof. split; simpl; auto. apply winv_empty_world. Qed.

Lemma winv_single own b w : winv (add1 b (cnt [])) None w -> own = tt -> winv (cnt [b]) None w.
Proof. intros H _. eapply winv_own_ext; [|exact H]. intros x. symmetry. apply cnt_cons. Qed.

Lemma winv_unsingle b w : winv (cnt [b]) None w -> winv (add1 b (cnt [])) None w.
Proof. intros H. eapply winv_own_ext; [|exact H]. intros x. apply cnt_cons. Qed.

Lemma fub_ok_single f : sm_wf (tasks f) -> fub_ok (cnt [blk f]) f.
Proof. intros H. split; auto. apply cnt_pos_in. left; reflexivity. Qed.

Lemma winv_emit_ret own cur r w : winv own cur w -> winv own cur (emit_ret r w).
Proof.
  intros Hw. unfold emit_ret.
  assert (H : forall l w0, winv own cur w0 -> winv own cur (fold_left (fun w t => emit (EODrop t false) w) l w0)).
  { induction l as [|x l IH]; simpl; intros w0 H0; auto. apply IH. apply winv_emit; auto. }
  apply H. apply winv_emit; auto.
Qed.

Section WithParams.
Variable P : params.
Hypothesis HP : params_ok P.

Ltac single := try (eapply winv_single; eauto; fail).

(** ** construction *)
Lemma build_inv t p inits ups w :
  winv (cnt []) None w ->
  let '(k, w') := build P t p inits ups w in cinv k w'.
Proof.
  intros Hw. unfold build.
  assert (Hfub : forall cap, let '(f, w1) := fub_new cap w in
                  winv (cnt [blk f]) None w1 /\ sm_wf (tasks f) /\ fub_len f = 0).
  { intros cap. pose proof (@fub_new_spec (cnt []) cap w Hw) as H.
    destruct (fub_new cap w) as [f w1]. destruct H as (A & B & C & D & E). splits; auto. single. }
  assert (Hfl : forall l, let '(f, w1) := fub_from_list l w in
                  winv (cnt [blk f]) None w1 /\ sm_wf (tasks f)).
  { intros l. pose proof (@fub_from_list_spec (cnt []) l w Hw) as H.
    destruct (fub_from_list l w) as [f w1]. destruct H as (A & B & _). splits; auto. single. }
  assert (Hfob : forall cap seed, match fob_new P cap seed w with
                  | (NewOk q, w1) => winv (cnt [blk (fo_inner q)]) None w1 /\ sm_wf (tasks (fo_inner q)) /\ fob_len q = 0
                  | (NewPanic, _) => False end).
  { intros cap seed. pose proof (@fob_new_spec P (cnt []) cap seed w Hw) as H.
    destruct (fob_new P cap seed w) as [[q|] w1]; auto. destruct H as (A & B & C & D). splits; auto. single. }
  destruct t.
  - (* FUB *)
    destruct (p_iter p).
    + specialize (Hfl (mk_children inits)). destruct (fub_from_list (mk_children inits) w) as [f w1].
      destruct Hfl. split; auto.
    + specialize (Hfub (p_cap p)). destruct (fub_new (p_cap p) w) as [f w1].
      destruct Hfub as (A & B & C). split; auto.
  - (* FU *)
    destruct (p_iter p); [|destruct (p_new p)].
    + pose proof (@fu_from_list_spec P HP false (lazy_hint p (mk_children inits)) (mk_children inits) w Hw) as H.
      destruct (fu_from_list P false (lazy_hint p (mk_children inits)) (mk_children inits) w) as [u w1]. destruct H as (A & B & _). split; auto.
    + split; simpl; auto. apply fu_empty_ok.
    + pose proof (@fu_with_capacity_spec false (p_cap p) w Hw) as H.
      destruct (fu_with_capacity (p_cap p) w) as [u w1]. destruct H as (A & B & _). split; auto.
  - (* MB *)
    specialize (Hfl (mk_children inits)). destruct (fub_from_list (mk_children inits) w) as [f w1].
    destruct Hfl. split; auto.
  - (* MU *)
    destruct (p_iter p); [|destruct (p_new p)].
    + pose proof (@fu_from_list_spec P HP true (lazy_hint p (mk_children inits)) (mk_children inits) w Hw) as H.
      destruct (fu_from_list P true (lazy_hint p (mk_children inits)) (mk_children inits) w) as [u w1]. destruct H as (A & B & _). split; auto.
    + split; simpl; auto. apply fu_empty_ok.
    + pose proof (@fu_with_capacity_spec true (p_cap p) w Hw) as H.
      destruct (fu_with_capacity (p_cap p) w) as [u w1]. destruct H as (A & B & _). split; auto.
  - (* FOB *)
    destruct (p_iter p).
    + pose proof (@fob_from_list_spec P (cnt []) (mk_children inits) w Hw) as H.
      destruct (fob_from_list P (mk_children inits) w) as [q w1]. destruct H as (A & B & _).
      assert (Hq : cinv (CFob q) w1) by (split; simpl; auto; single).
      destruct (mk_children inits); [|exact Hq]. destruct (p_seed p); exact Hq.
    + specialize (Hfob (p_cap p) (seed_of p)).
      destruct (fob_new P (p_cap p) (seed_of p) w) as [[q|] w1]; [|contradiction].
      destruct Hfob as (A & B & C). split; auto.
  - (* FO *)
    destruct (p_iter p); [|destruct (p_new p)].
    + pose proof (@fo_from_list_spec P HP (lazy_hint p (mk_children inits)) (mk_children inits) w Hw) as H.
      destruct (fo_from_list P (lazy_hint p (mk_children inits)) (mk_children inits) w) as [q w1]. destruct H as (A & B).
      assert (Hq : cinv (CFo q) w1) by (split; simpl; auto).
      destruct (mk_children inits); [|exact Hq]. destruct (p_seed p); exact Hq.
    + split; simpl; auto. apply fu_empty_ok.
    + pose proof (@fo_with_capacity_spec P (p_cap p) (seed_of p) w Hw) as H.
      destruct (fo_with_capacity P (p_cap p) (seed_of p) w) as [[q|] w1]; [|contradiction].
      destruct H as (A & B). split; auto.
  - (* BU *)
    specialize (Hfub (p_cap p)). destruct (fub_new (p_cap p) w) as [f w1].
    destruct Hfub as (A & B & C). split; simpl; auto. splits; auto. unfold fub_len in *; lia.
  - (* BO *)
    specialize (Hfob (p_cap p) 0%Z).
    destruct (fob_new P (p_cap p) 0%Z w) as [[q|] w1]; [|contradiction].
    destruct Hfob as (A & B & C). split; simpl; auto. splits; auto. lia.
  - (* TBU *)
    specialize (Hfub (p_cap p)). destruct (fub_new (p_cap p) w) as [f w1].
    destruct Hfub as (A & B & C). split; simpl; auto. splits; auto. unfold fub_len in *; lia.
  - (* TBO *)
    specialize (Hfob (p_cap p) 0%Z).
    destruct (fob_new P (p_cap p) 0%Z w) as [[q|] w1]; [|contradiction].
    destruct Hfob as (A & B & C). split; simpl; auto. splits; auto. lia.
  - (* FEC *)
    specialize (Hfub (p_cap p)). destruct (fub_new (p_cap p) w) as [f w1].
    destruct Hfub as (A & B & C). split; simpl; auto.
  - (* JA *)
    pose proof (@join_new_spec (cnt []) false (mk_children inits) w Hw) as H.
    destruct (join_new false (mk_children inits) w) as [j w1]. destruct H as (A & B & _).
    split; simpl; auto. single.
  - (* TJA *)
    pose proof (@join_new_spec (cnt []) true (mk_children inits) w Hw) as H.
    destruct (join_new true (mk_children inits) w) as [j w1]. destruct H as (A & B & _).
    split; simpl; auto. single.
Qed.

(** C15: no constructor panics, for any capacity (0 included) *)
Lemma fob_new_never_panics cap seed w : exists q w', fob_new P cap seed w = (NewOk q, w').
Proof. unfold fob_new, heap_cap_for. destruct (fub_new cap w) as [f w1]. eauto. Qed.

Lemma fo_with_capacity_never_panics cap seed w : exists q w', fo_with_capacity P cap seed w = (NewOk q, w').
Proof. unfold fo_with_capacity, heap_cap_for. destruct (fu_with_capacity cap w) as [u w1]. eauto. Qed.

Lemma build_not_dead t p inits ups w : fst (build P t p inits ups w) <> CDead.
Proof.
  unfold build.
  destruct t; repeat (match goal with |- context [if ?c then _ else _] => destruct c end);
    try (destruct (fob_new_never_panics (p_cap p) (seed_of p) w) as (q & w' & ->));
    try (destruct (fob_new_never_panics (p_cap p) 0%Z w) as (q & w' & ->));
    try (destruct (fo_with_capacity_never_panics (p_cap p) (seed_of p) w) as (q & w' & ->));
    repeat (match goal with |- context [let '(_, _) := ?x in _] => destruct x end);
    cbn [fst]; try discriminate.
Qed.

(** ** push *)
Lemma winv_refused own cur c w : winv own cur w -> winv own cur (refused_result c w).
Proof. intros. unfold refused_result. repeat apply winv_emit; auto. Qed.

Lemma winv_bounded_push own cur c ok w : winv own cur w -> winv own cur (bounded_push_result c ok w).
Proof. intros. unfold bounded_push_result. destruct ok; repeat apply winv_emit; auto. Qed.

Lemma do_push_inv try front c sc k w :
  cinv k w -> let '(k', w') := do_push P try front c sc k w in cinv k' w'.
Proof.
  intros [Hw Hok]. unfold do_push.
  destruct k; simpl in *; auto; try (split; auto; fail).
  - (* FUB *)
    destruct front; [split; auto|].
    pose proof (@fub_try_push_spec _ None f (mk_child c sc) w Hw (fub_ok_single _ Hok)) as H.
    destruct (fub_try_push f (mk_child c sc) w) as [[f'| |] w1].
    + destruct H as (H1 & H2 & H3 & _). split; simpl; [|apply H2]. rewrite H3. apply winv_emit; auto.
    + destruct H as [-> _]. split; auto. destruct try; unfold refused_result, bounded_push_result; simpl; repeat apply winv_emit; auto.
    + contradiction.
  - (* MB *)
    destruct front; [split; auto|].
    pose proof (@fub_try_push_spec _ None f (mk_child c sc) w Hw (fub_ok_single _ Hok)) as H.
    destruct (fub_try_push f (mk_child c sc) w) as [[f'| |] w1].
    + destruct H as (H1 & H2 & H3 & _). split; simpl; [|apply H2]. rewrite H3. apply winv_emit; auto.
    + destruct H as [-> _]. split; auto. destruct try; unfold refused_result, bounded_push_result; simpl; repeat apply winv_emit; auto.
    + contradiction.
  - (* FU *)
    destruct (try || front); [split; auto|].
    pose proof (@fu_push_spec P HP false u (mk_child c sc) w Hw Hok) as H.
    destruct (fu_push P false u (mk_child c sc) w) as [u' w1]. destruct H as (A & B & _).
    split; simpl; auto. apply winv_emit; auto.
  - (* MU *)
    destruct (try || front); [split; auto|].
    pose proof (@fu_push_spec P HP true u (mk_child c sc) w Hw Hok) as H.
    destruct (fu_push P true u (mk_child c sc) w) as [u' w1]. destruct H as (A & B & _).
    split; simpl; auto. apply winv_emit; auto.
  - (* FOB *)
    pose proof (@fob_try_push_spec P _ None front q (mk_child c sc) w Hw (fub_ok_single _ Hok)) as H.
    destruct (fob_try_push P front q (mk_child c sc) w) as [[q'|] w1].
    + destruct H as (H1 & H2 & H3 & _). split; simpl; [|apply H2]. rewrite H3. apply winv_emit; auto.
    + destruct H as [-> _]. split; auto. destruct try; unfold refused_result, bounded_push_result; simpl; repeat apply winv_emit; auto.
  - (* FO *)
    destruct try; [split; auto|].
    pose proof (@fo_push_spec P HP front q (mk_child c sc) w Hw Hok) as H.
    destruct (fo_push P front q (mk_child c sc) w) as [q' w1]. destruct H as (A & B & _).
    split; simpl; auto. apply winv_emit_ret with (r := RetOk) in A. exact A.
Qed.

(** ** poll *)
Lemma do_poll_inv t k w :
  cinv k w -> let '(k', w') := do_poll P t k w in cinv k' w'.
Proof.
  intros [Hw Hok]. unfold do_poll.
  destruct k; simpl in *; auto; try (split; auto; fail).
  - pose proof (@fub_poll_next_spec P _ KFut f t w Hw (fub_ok_single _ Hok)) as H.
    destruct (fub_poll_next P KFut f t w) as [[f' sp] w1]. destruct H as (A & B & C & _).
    split; simpl; [|apply B]. rewrite C. apply winv_emit_ret; auto.
  - pose proof (@mb_poll_next_spec P _ f t w Hw (fub_ok_single _ Hok)) as H.
    destruct (mb_poll_next P f t w) as [[f' sp] w1]. destruct H as (A & B & C & _).
    split; simpl; [|apply B]. rewrite C. apply winv_emit_ret; auto.
  - pose proof (@fu_poll_next_spec P false u t w Hw Hok) as H.
    destruct (fu_poll_next P false u t w) as [[u' sp] w1]. destruct H as (A & B & _).
    split; simpl; auto. apply winv_emit_ret; auto.
  - pose proof (@fu_poll_next_spec P true u t w Hw Hok) as H.
    destruct (fu_poll_next P true u t w) as [[u' sp] w1]. destruct H as (A & B & _).
    split; simpl; auto. apply winv_emit_ret; auto.
  - pose proof (@fob_poll_next_spec P _ KFut q t w Hw (fub_ok_single _ Hok)) as H.
    destruct (fob_poll_next P KFut q t w) as [[q' sp] w1]. destruct H as (A & B & C & _).
    split; simpl; [|apply B]. rewrite C. apply winv_emit_ret; auto.
  - pose proof (@fo_poll_next_spec P q t w Hw Hok) as H.
    destruct (fo_poll_next P q t w) as [[q' sp] w1]. destruct H as (A & B & _).
    split; simpl; auto. apply winv_emit_ret; auto.
  - destruct Hok as (Hwf & Hle & Hul).
    pose proof (@adapter_poll_spec P _ a t w Hw (conj (fub_ok_single _ Hwf) (conj Hle Hul))) as H.
    destruct (adapter_poll P a t w) as [[a' r] w1]. destruct H as (A & (B1 & B2 & B3) & C & _).
    split; simpl; [|splits; [apply B1|auto|auto]]. rewrite C. apply winv_emit_ret; auto.
  - destruct Hok as [Hwf Hul].
    pose proof (@fec_poll_spec P _ a t w Hw (fub_ok_single _ Hwf) Hul) as H.
    destruct (fec_poll P a t w) as [[a' r] w1]. destruct H as (A & B & C & _ & U).
    split; simpl; [|split; [apply B|auto]]. rewrite C. apply winv_emit_ret; auto.
  - pose proof (@join_poll_spec P _ j t w Hw (fub_ok_single _ Hok)) as H.
    destruct (join_poll P j t w) as [[j' r] w1]. destruct H as (A & B & C & _).
    split; simpl; [|apply B]. rewrite C. apply winv_emit_ret; auto.
Qed.

(** ** drop *)
Lemma do_drop_inv k w : cinv k w -> let '(k', w') := do_drop k w in cinv k' w'.
Proof.
  intros [Hw Hok]. unfold do_drop.
  destruct k; simpl in *; auto; try (split; auto; fail); split; simpl; auto.
  - apply winv_fub_drop. apply winv_unsingle; auto.
  - apply winv_fub_drop. apply winv_unsingle; auto.
  - apply winv_fu_drop; auto.
  - apply winv_fu_drop; auto.
  - apply winv_fob_drop. apply winv_unsingle; auto.
  - apply winv_fo_drop; auto.
  - apply winv_adapter_drop. apply winv_unsingle; auto.
  - apply winv_fec_drop. apply winv_unsingle; auto.
  - apply winv_join_drop. apply winv_unsingle; auto.
Qed.

(** ** one operation *)
Lemma step_core_inv k o w : cinv k w -> let '(k', w') := step_core P k o w in cinv k' w'.
Proof.
  intros Hc. unfold step_core. destruct o.
  - destruct k; try exact Hc. destruct Hc as [Hw _]. apply build_inv; auto.
  - apply do_push_inv; auto.
  - apply do_push_inv; auto.
  - apply do_push_inv; auto.
  - apply do_push_inv; auto.
  - apply do_poll_inv; auto.
  - destruct Hc as [Hw Hok]. split; auto. apply winv_do_act; auto. exact I.
  - destruct Hc as [Hw Hok]. split; auto. destruct (observe P k); auto. apply winv_emit; auto.
  - exact Hc.
  - apply do_drop_inv; auto.
  - destruct Hc as [Hw Hok]. split; auto. apply winv_cleanup; auto.
Qed.

Theorem step_inv s o : Inv s -> Inv (fst (step_op P s o)).
Proof.
  intros [Hw Hok]. unfold step_op. destruct (is_dead (st_coll s)); [split; auto|].
  assert (Hc : cinv (st_coll s) (begin_op (op_inj o) (st_world s))).
  { split; auto. apply winv_begin_op; auto. }
  pose proof (@step_core_inv (st_coll s) o _ Hc) as H.
  destruct (step_core P (st_coll s) o (begin_op (op_inj o) (st_world s))) as [k' w']. exact H.
Qed.

(** every reachable state satisfies the invariant *)
Fixpoint run_state (s : state) (ops : list op) : state :=
  match ops with
  | [] => s
  | o :: rest => run_state (fst (step_op P s o)) rest
  end.

Theorem reachable_inv ops : Inv (run_state init_state ops).
Proof.
  assert (H : forall s, Inv s -> Inv (run_state s ops)).
  { induction ops as [|o ops IH]; simpl; intros s Hs; auto. apply IH. apply step_inv; auto. }
  apply H. apply Inv_init.
Qed.

(** no operation of any history emits a model-only failure event *)
Lemma step_events_clean s o : Inv s -> Forall (fun e => bad_event e = false) (snd (step_op P s o)).
Proof.
  intros Hs. pose proof (step_inv o Hs) as Hi. unfold step_op in *.
  destruct (is_dead (st_coll s)); [constructor|].
  destruct (step_core P (st_coll s) o (begin_op (op_inj o) (st_world s))) as [k' w'].
  simpl in *. destruct Hi as [Hw _]. unfold finish_op.
  apply Forall_rev. destruct (nalloc w').
  - apply Forall_forall. intros e He. eapply wi_log; eauto.
  - constructor; [reflexivity|]. apply Forall_forall. intros e He. eapply wi_log; eauto.
Qed.

Theorem run_events_clean ops :
  Forall (Forall (fun e => bad_event e = false)) (run P init_state ops).
Proof.
  assert (H : forall s, Inv s -> Forall (Forall (fun e => bad_event e = false)) (run P s ops)).
  { induction ops as [|o ops IH]; simpl; intros s Hs; [constructor|].
    pose proof (step_events_clean o Hs) as He. pose proof (step_inv o Hs) as Hi.
    destruct (step_op P s o) as [s' evs]. simpl in *. constructor; auto. }
  apply H. apply Inv_init.
Qed.

End WithParams.
