(** * Ordered: [FuturesOrderedBounded] and [FuturesOrdered] *)
From FB Require Import Base Syntax World SlotMap Fub Unbounded.

Local Open Scope Z_scope.

(** finished outputs waiting for their turn: (raw index, token); [BinaryHeap] = priority
    queue on the raw index, smallest first *)
Definition heap := list (Z * tok).

Fixpoint heap_min (h : heap) : option (Z * tok) :=
  match h with
  | [] => None
  | x :: t => match heap_min t with
              | Some y => if fst y <? fst x then Some y else Some x
              | None => Some x
              end
  end.

Fixpoint heap_remove (i : Z) (h : heap) : heap :=
  match h with
  | [] => []
  | x :: t => if fst x =? i then t else x :: heap_remove i t
  end.

(** position counters etc. shared by the two ordered queues *)
Record ord := { oheap : heap; hcap : nat; nin : Z; nout : Z }.

Section WithParams.
Variable P : params.

Definition wmod : Z := 2 ^ Z.of_nat (pW P).
Definition msb : Z := 2 ^ (Z.of_nat (pW P) - 1).
Definition winc (x : Z) : Z := (x + 1) mod wmod.
Definition wdec (x : Z) : Z := (x - 1) mod wmod.
Definition msb_set (x : Z) : bool := Z.land x msb =? msb.
Definition flip (x : Z) : Z := Z.lxor x msb.

Definition ord_new (hc : nat) (seed : Z) : ord :=
  {| oheap := []; hcap := hc; nin := seed mod wmod; nout := seed mod wmod |}.

Definition ord_rebase (o : ord) : ord :=
  {| oheap := map (fun e => (flip (fst e), snd e)) (oheap o); hcap := hcap o;
     nin := flip (nin o); nout := flip (nout o) |}.

Definition flip_child (c : child) : child := child_set_idx c (flip (cidx c)).

Definition ord_park (o : ord) (i : Z) (t : tok) (w : world) : ord * world :=
  let '(c', a) := vec_grow (length (oheap o)) (hcap o) in
  ({| oheap := oheap o ++ [(i, t)]; hcap := c'; nin := nin o; nout := nout o |}, count_alloc a w).

Definition ord_set_out (o : ord) (x : Z) : ord :=
  {| oheap := oheap o; hcap := hcap o; nin := nin o; nout := x |}.
Definition ord_set_in (o : ord) (x : Z) : ord :=
  {| oheap := oheap o; hcap := hcap o; nin := x; nout := nout o |}.
Definition ord_set_heap (o : ord) (h : heap) : ord :=
  {| oheap := h; hcap := hcap o; nin := nin o; nout := nout o |}.

(** the "already received the next value" test *)
Definition ord_try_release (o : ord) : option (tok * ord) :=
  match heap_min (oheap o) with
  | Some (i, t) =>
      if i =? nout o
      then Some (t, ord_set_heap (ord_set_out o (winc (nout o))) (heap_remove i (oheap o)))
      else None
  | None => None
  end.

(** ** bounded *)
Record fob := { fo_inner : fub; fo_ord : ord }.

Definition fob_len (q : fob) : nat := (fub_len (fo_inner q) + length (oheap (fo_ord q)))%nat.

(** [BinaryHeap::with_capacity(capacity.saturating_sub(1))]; [None] would be the panic of
    an underflowing subtraction *)
Definition heap_cap_for (cap : nat) : option nat := Some (pred cap).

Definition fob_new (cap : nat) (seed : Z) (w : world) : new_res fob * world :=
  let '(f, w) := fub_new cap w in
  match heap_cap_for cap with
  | None => (NewPanic, fub_drop f w)       (* capacity overflow in [BinaryHeap::with_capacity]: the queue built so far is unwound *)
  | Some hc => (NewOk {| fo_inner := f; fo_ord := ord_new hc seed |},
                count_alloc (if Nat.eqb hc 0 then 0 else 1) w)
  end.

Fixpoint index_children (l : list child) (i : Z) : list child :=
  match l with
  | [] => []
  | c :: t => child_set_idx c i :: index_children t (winc i)
  end.

Definition fob_from_list (l : list child) (w : world) : fob * world :=
  let '(f, w) := fub_from_list (index_children l 0) w in
  ({| fo_inner := f;
      fo_ord := {| oheap := []; hcap := 0; nin := Z.of_nat (length l) mod wmod; nout := 0 |} |}, w).

(** [try_push_back] / [try_push_front]: the counters move only if a slot was found *)
Definition fob_try_push (front : bool) (q : fob) (c : child) (w : world) : option fob * world :=
  let o := fo_ord q in
  let idx := if front then wdec (nout o) else nin o in
  match fub_try_push (fo_inner q) (child_set_idx c idx) w with
  | (PushOk f, w) =>
      (Some {| fo_inner := f; fo_ord := if front then ord_set_out o idx else ord_set_in o (winc idx) |}, w)
  | (_, w) => (None, w)
  end.

Definition fob_rebase (q : fob) : fob :=
  if msb_set (nout (fo_ord q))
  then {| fo_inner := {| tasks := sm_map_children flip_child (tasks (fo_inner q)); blk := blk (fo_inner q) |};
          fo_ord := ord_rebase (fo_ord q) |}
  else q.

Fixpoint fob_loop (k : ckind) (n : nat) (q : fob) (t : nat) (w : world) : fob * spoll * world :=
  match n with
  | O => (q, SPending, emit EOutOfFuel w)
  | S n' =>
      let '(f, sp, w) := fub_poll_next P k (fo_inner q) t w in
      let q := {| fo_inner := f; fo_ord := fo_ord q |} in
      match sp with
      | SPending => (q, SPending, w)
      | SNone => (q, SNone, w)
      | SItem tk c =>
          if cidx c =? nout (fo_ord q)
          then ({| fo_inner := f; fo_ord := ord_set_out (fo_ord q) (winc (nout (fo_ord q))) |}, SItem tk c, w)
          else let '(o, w) := ord_park (fo_ord q) (cidx c) tk w in
               fob_loop k n' {| fo_inner := f; fo_ord := o |} t w
      end
  end.

Definition dummy_child : child := mk_child 0%N [].

Definition fob_poll_next (k : ckind) (q : fob) (t : nat) (w : world) : fob * spoll * world :=
  let q := fob_rebase q in
  match ord_try_release (fo_ord q) with
  | Some (tk, o) => ({| fo_inner := fo_inner q; fo_ord := o |}, SItem tk dummy_child, w)
  | None => fob_loop k (S (fub_len (fo_inner q))) q t w
  end.

(** ** unbounded *)
Record fo := { fu_inner : fu; fu_ord : ord }.

Definition fo_len (q : fo) : nat := (rem (fu_inner q) + length (oheap (fu_ord q)))%nat.

Definition fo_new : fo := {| fu_inner := fu_empty; fu_ord := ord_new 0 0 |}.

Definition fo_with_capacity (cap : nat) (seed : Z) (w : world) : new_res fo * world :=
  let '(u, w) := fu_with_capacity cap w in
  match heap_cap_for cap with
  | None => (NewPanic, fu_drop u w)
  | Some hc => (NewOk {| fu_inner := u; fu_ord := ord_new hc seed |},
                count_alloc (if Nat.eqb hc 0 then 0 else 1) w)
  end.

Definition fo_from_list (hint : nat) (l : list child) (w : world) : fo * world :=
  let '(u, w) := fu_from_list P false hint (index_children l 0) w in
  ({| fu_inner := u;
      fu_ord := {| oheap := []; hcap := 0; nin := Z.of_nat (length l) mod wmod; nout := 0 |} |}, w).

Definition fo_push (front : bool) (q : fo) (c : child) (w : world) : fo * world :=
  let o := fu_ord q in
  let idx := if front then wdec (nout o) else nin o in
  let '(u, w) := fu_push P false (fu_inner q) (child_set_idx c idx) w in
  ({| fu_inner := u; fu_ord := if front then ord_set_out o idx else ord_set_in o (winc idx) |}, w).

Definition fo_rebase (q : fo) : fo :=
  if msb_set (nout (fu_ord q))
  then let u := fu_inner q in
       {| fu_inner := {| groups := map (fun g => {| tasks := sm_map_children flip_child (tasks g); blk := blk g |}) (groups u);
                         rem := rem u; cursor := cursor u; gcap := gcap u |};
          fu_ord := ord_rebase (fu_ord q) |}
  else q.

Fixpoint fo_loop (n : nat) (q : fo) (t : nat) (w : world) : fo * spoll * world :=
  match n with
  | O => (q, SPending, emit EOutOfFuel w)
  | S n' =>
      let '(u, sp, w) := fu_poll_next P false (fu_inner q) t w in
      let q := {| fu_inner := u; fu_ord := fu_ord q |} in
      match sp with
      | SPending => (q, SPending, w)
      | SNone => (q, SNone, w)
      | SItem tk c =>
          if cidx c =? nout (fu_ord q)
          then ({| fu_inner := u; fu_ord := ord_set_out (fu_ord q) (winc (nout (fu_ord q))) |}, SItem tk c, w)
          else let '(o, w) := ord_park (fu_ord q) (cidx c) tk w in
               fo_loop n' {| fu_inner := u; fu_ord := o |} t w
      end
  end.

Definition fo_poll_next (q : fo) (t : nat) (w : world) : fo * spoll * world :=
  let q := fo_rebase q in
  match ord_try_release (fu_ord q) with
  | Some (tk, o) => ({| fu_inner := fu_inner q; fu_ord := o |}, SItem tk dummy_child, w)
  | None => fo_loop (S (rem (fu_inner q))) q t w
  end.

End WithParams.

Definition drop_heap (h : heap) (w : world) : world :=
  fold_left (fun w e => emit (EODrop (snd e) true) w) h w.

Definition fob_drop (q : fob) (w : world) : world :=
  drop_heap (oheap (fo_ord q)) (fub_drop (fo_inner q) w).

Definition fo_drop (q : fo) (w : world) : world :=
  drop_heap (oheap (fu_ord q)) (fu_drop (fu_inner q) w).
