(** * Fub: [FuturesUnorderedBounded] and [MergeBounded] *)
From FB Require Import Base Syntax World SlotMap.

Inductive ckind := KFut | KTry | KSrc.

(** the answer a scripted child of kind [k] effectively gives for script letter [r] *)
Definition eff_res (k : ckind) (r : res) : res :=
  match k, r with
  | KFut, RR | KFut, RX => RR
  | KFut, _ => RP
  | KTry, RR => RR
  | KTry, RX => RX
  | KTry, _ => RP
  | KSrc, RI => RI
  | KSrc, RE => RE
  | KSrc, _ => RP
  end.

Definition is_final (r : res) : bool :=
  match r with RR | RX | RE => true | _ => false end.

Definition is_ready (r : res) : bool :=
  match r with RP => false | _ => true end.

(** one poll of a child sitting in slot [s] of block [b] *)
Definition poll_child (k : ckind) (c : child) (b s : nat) (w : world) : child * res * world :=
  let w := emit (ECPoll (cid c) b s (b, s)) (g_poll w) in
  if cdone c then (c, RP, emit (ECAns (cid c) RP) (g_done w))   (* never happens: LiveProofs *)
  else
    match cscript c with
    | [] => (c, RP, emit (ECAns (cid c) RP) w)
    | (acts, r0) :: rest =>
        let r := eff_res k r0 in
        let w := do_acts (Some (HChild b s)) acts w in
        let c' := {| cid := cid c; cscript := rest;
                     cseq := match r with RI => S (cseq c) | _ => cseq c end;
                     cdone := is_final r; cidx := cidx c |} in
        (c', r, emit (ECAns (cid c) r) w)
    end.

Record fub := { tasks : slotmap; blk : nat }.

Definition fub_len (f : fub) : nat := filled (tasks f).
Definition fub_cap (f : fub) : nat := sm_cap (tasks f).

(** [FuturesUnorderedBounded::new]: the slot array (one allocation unless empty), then the
    shared waker block *)
Definition fub_new (cap : nat) (w : world) : fub * world :=
  let w := count_alloc (if Nat.eqb cap 0 then 0 else 1) w in
  let '(b, w) := alloc_block cap w in
  ({| tasks := sm_new cap; blk := b |}, w).

Fixpoint push_all (b : nat) (i n : nat) (w : world) : world :=
  match n with
  | O => w
  | S n' => push_all b (S i) n' (snd (enqueue_slot b i (g_push w)))
  end.

(** [FromIterator] *)
Definition fub_from_list (l : list child) (w : world) : fub * world :=
  let cap := length l in
  let w := count_alloc (if Nat.eqb cap 0 then 0 else 1) w in
  let '(b, w) := alloc_block cap w in
  ({| tasks := sm_from_list l; blk := b |}, push_all b 0 cap w).

Inductive push_res := PushOk (f : fub) | PushFull | PushStuck.

(** [try_push_with] *)
Definition fub_try_push (f : fub) (c : child) (w : world) : push_res * world :=
  match sm_insert (tasks f) c with
  | InsOk key m => (PushOk {| tasks := m; blk := blk f |}, snd (enqueue_slot (blk f) key (g_push w)))
  | InsFull => (PushFull, w)
  | InsStuck => (PushStuck, emit EStuck w)
  end.

Inductive popres := PopNone | PopInc | PopReady (i : nat).

Definition clear_flag (b i : nat) (w : world) : world :=
  match get_blk w b with
  | Some k => put_blk b (blk_set_flags k (upd (bflags k) i false)) w
  | None => w
  end.

(** [WakerList::pop] with its three hook points *)
Definition pop (b : nat) (w : world) : popres * world :=
  let k := S (popk w) in
  let w := set_popk k w in
  if forced_inc k w then (PopInc, run_inj IExit k None w)
  else
    match get_blk w b with
    | None => (PopNone, emit EStuck w)
    | Some kb =>
        match bqueue kb with
        | [] => (PopNone, run_inj IExit k None w)
        | i :: q =>
            let w := put_blk b (blk_set_queue kb q) w in
            let w := run_inj IMid k (Some (b, i)) w in
            let w := clear_flag b i w in
            let w := run_inj IExit k (Some (b, i)) w in
            (PopReady i, w)
        end
    end.

Definition register (b t : nat) (w : world) : world :=
  let w := match get_blk w b with
           | Some k => put_blk b (blk_set_last (blk_set_reg k (Some t)) (Some t)) w
           | None => emit EStuck w
           end in
  let j := S (regk w) in
  run_inj IReg j None (set_regk j w).

Inductive pres := PPending | PNone | PReady (i : nat) (c : child) (r : res).

(** the drain loop of [poll_inner_no_remove]; [n] = remaining budget *)
Fixpoint drain (k : ckind) (n : nat) (f : fub) (t : nat) (w : world) : fub * pres * world :=
  match n with
  | O => (f, PPending, self_wake (blk f) t w)
  | S n' =>
      let '(pr, w) := pop (blk f) w in
      match pr with
      | PopNone => (f, PPending, w)
      | PopInc => (f, PPending, self_wake (blk f) t w)
      | PopReady i =>
          match sm_get (tasks f) i with
          | Some c =>
              let '(c', r, w) := poll_child k c (blk f) i w in
              let f' := {| tasks := sm_set (tasks f) i c'; blk := blk f |} in
              if is_ready r then (f', PReady i c' r, w) else drain k n' f' t w
          | None => drain k n' f t w
          end
      end
  end.

Section WithParams.
Variable P : params.

Definition poll_inner_no_remove (k : ckind) (f : fub) (t : nat) (w : world) : fub * pres * world :=
  if Nat.eqb (fub_len f) 0 then (f, PNone, w)
  else drain k (pB P) f t (register (blk f) t w).

Definition fub_remove (f : fub) (i : nat) (w : world) : fub * world :=
  match sm_get (tasks f) i with
  | Some c => ({| tasks := sm_remove (tasks f) i; blk := blk f |}, emit (ECDrop (cid c) (Some (blk f, i))) w)
  | None => (f, w)
  end.

(** [poll_inner]: the finished future is removed (dropped in place) before the result is returned *)
Definition poll_inner (k : ckind) (f : fub) (t : nat) (w : world) : fub * pres * world :=
  let '(f, pr, w) := poll_inner_no_remove k f t w in
  match pr with
  | PReady i c r => let '(f, w) := fub_remove f i w in (f, PReady i c r, w)
  | _ => (f, pr, w)
  end.

Definition out_tok (c : child) (r : res) : tok :=
  match r with
  | RX => TErr (cid c)
  | RI => TItem (cid c) (pred (cseq c))
  | _ => TOut (cid c)
  end.

(** what a stream poll hands to its caller *)
Inductive spoll := SPending | SNone | SItem (t : tok) (c : child).

Definition fub_poll_next (k : ckind) (f : fub) (t : nat) (w : world) : fub * spoll * world :=
  let '(f, pr, w) := poll_inner k f t w in
  match pr with
  | PPending => (f, SPending, w)
  | PNone => (f, SNone, w)
  | PReady _ c r => (f, SItem (out_tok c r) c, w)
  end.

(** [MergeBounded::poll_next]; fuel [n] bounds the "a source ended, go round again" loop *)
Fixpoint mb_poll_loop (n : nat) (f : fub) (t : nat) (w : world) : fub * spoll * world :=
  match n with
  | O => (f, SPending, emit EOutOfFuel w)
  | S n' =>
      let '(f, pr, w) := poll_inner_no_remove KSrc f t w in
      match pr with
      | PReady i c RI =>
          (f, SItem (out_tok c RI) c, snd (enqueue_slot (blk f) i (g_item w)))
      | PReady i c _ =>
          let '(f, w) := fub_remove f i w in mb_poll_loop n' f t w
      | PPending => (f, SPending, w)
      | PNone => (f, SNone, w)
      end
  end.

Definition mb_poll_next (f : fub) (t : nat) (w : world) : fub * spoll * world :=
  mb_poll_loop (S (fub_len f)) f t w.

End WithParams.

(** dropping the collection: the slot map drops its children in slot order, then the
    handle on the shared block is released *)
Definition drop_children (b : nat) (m : slotmap) (w : world) : world :=
  fold_left (fun w p => emit (ECDrop (cid (snd p)) (Some (b, fst p))) w) (sm_children m) w.

Definition fub_drop (f : fub) (w : world) : world :=
  dec_strong (blk f) (drop_children (blk f) (tasks f) w).
