(** * FifoProofs: no starvation inside a group (C13 b)

    The ready queue of a group is FIFO: waker actions only append at the tail, [pop] only removes
    the head.  A poll whose first pop is not a (forced) Inconsistent answer pops at least the head
    and polls its occupant.  So a queued slot at position p is popped — and its child polled —
    by the (p+1)-th such poll at the latest, whatever the other children do (children that wake
    themselves or are re-armed go behind it).  p < queue length <= capacity (no duplicates):
    linear in the held (+ stale) children. *)
From FB Require Import Base Syntax World SlotMap Fub Tactics.

Definition qof (w : world) (b : nat) : list nat :=
  match get_blk w b with Some k => bqueue k | None => [] end.

(** [w'] extends the queue of [b] at the tail only *)
Definition qext (b : nat) (w w' : world) : Prop := exists ext, qof w' b = qof w b ++ ext.

Lemma qext_refl b w : qext b w w. Proof. exists []. rewrite app_nil_r. reflexivity. Qed.
Lemma qext_trans b w1 w2 w3 : qext b w1 w2 -> qext b w2 w3 -> qext b w1 w3.
Proof. intros [e1 H1] [e2 H2]. exists (e1 ++ e2). rewrite H2, H1, app_assoc. reflexivity. Qed.

Lemma qof_frame b w w' : blocks w' = blocks w -> qof w' b = qof w b.
Proof. intros H. unfold qof, get_blk. rewrite H. reflexivity. Qed.

Lemma qof_put_other b b' k w : b' <> b -> qof (put_blk b' k w) b = qof w b.
Proof.
  intros Hne. unfold qof, get_blk, put_blk. simpl. rewrite nth_error_upd_neq by auto. reflexivity.
Qed.

Lemma qof_put_same b k k0 w : get_blk w b = Some k0 -> qof (put_blk b k w) b = bqueue k.
Proof.
  intros H. unfold qof, get_blk, put_blk in *. simpl. rewrite nth_error_upd_eq; auto.
  eapply nth_error_Some_lt; eauto.
Qed.

Lemma qext_put_samequeue b b' k k0 w :
  get_blk w b' = Some k0 -> bqueue k = bqueue k0 -> qext b w (put_blk b' k w).
Proof.
  intros Hk Hq. exists []. rewrite app_nil_r.
  destruct (Nat.eq_dec b' b) as [->|Hne].
  - erewrite qof_put_same by eauto. unfold qof. rewrite Hk. auto.
  - apply qof_put_other; auto.
Qed.

Lemma qext_notify b b' w : qext b w (notify b' w).
Proof.
  unfold notify. destruct (get_blk w b') as [k|] eqn:Hk; [|apply qext_refl].
  destruct (breg k); [|apply qext_refl].
  eapply qext_trans; [eapply qext_put_samequeue with (k := blk_set_tw (blk_set_reg k None)); eauto|].
  exists []. rewrite app_nil_r. reflexivity.
Qed.

Lemma qext_enqueue b b' s w : qext b w (snd (enqueue_slot b' s w)).
Proof.
  unfold enqueue_slot. destruct (get_blk w b') as [k|] eqn:Hk; [|apply qext_refl].
  destruct (nth_error (bflags k) s) as [[|]|]; try apply qext_refl. simpl.
  destruct (Nat.eq_dec b' b) as [->|Hne].
  - exists [s]. rewrite (qof_frame b (put_blk b (blk_set_queue (blk_set_flags k (upd (bflags k) s true)) (bqueue k ++ [s])) w)) by reflexivity.
    erewrite qof_put_same by eauto. simpl. unfold qof. rewrite Hk. reflexivity.
  - exists []. rewrite app_nil_r.
    rewrite (qof_frame b (put_blk b' (blk_set_queue (blk_set_flags k (upd (bflags k) s true)) (bqueue k ++ [s])) w)) by reflexivity.
    apply qof_put_other; auto.
Qed.

Lemma qext_wake_slot b b' s w : qext b w (wake_slot b' s w).
Proof.
  unfold wake_slot. change (get_blk (g_wake w) b') with (get_blk w b').
  assert (H0 : qext b w (g_wake w)) by (exists []; rewrite app_nil_r; reflexivity).
  destruct (get_blk w b') as [k|]; [|eapply qext_trans; [exact H0|]; exists []; rewrite app_nil_r; reflexivity].
  destruct (bfreed k); [eapply qext_trans; [exact H0|]; exists []; rewrite app_nil_r; reflexivity|].
  pose proof (qext_enqueue b b' s (g_wake w)) as He.
  destruct (enqueue_slot b' s (g_wake w)) as [q w1]. simpl in He.
  destruct q.
  - eapply qext_trans; [exact H0|]. eapply qext_trans; [exact He|]. apply qext_notify.
  - eapply qext_trans; [exact H0|exact He].
Qed.

Lemma qext_dec_strong b b' w : qext b w (dec_strong b' w).
Proof.
  unfold dec_strong. destruct (get_blk w b') as [k|] eqn:Hk; [|exists []; rewrite app_nil_r; reflexivity].
  destruct (bfreed k); [exists []; rewrite app_nil_r; reflexivity|].
  destruct (bstrong k) as [|[|n]].
  - eapply qext_put_samequeue; eauto.
  - eapply qext_trans; [eapply qext_put_samequeue with (k := blk_set_freed (blk_set_strong k 0) true); eauto|].
    exists []; rewrite app_nil_r; reflexivity.
  - eapply qext_put_samequeue; eauto.
Qed.

Lemma qext_inc_strong b b' w : qext b w (inc_strong b' w).
Proof.
  unfold inc_strong. destruct (get_blk w b') as [k|] eqn:Hk; [|exists []; rewrite app_nil_r; reflexivity].
  destruct (bfreed k); [exists []; rewrite app_nil_r; reflexivity|]. eapply qext_put_samequeue; eauto.
Qed.

Lemma qext_frame b w w' : blocks w' = blocks w -> qext b w w'.
Proof. intros H. exists []. rewrite app_nil_r. apply qof_frame; auto. Qed.

Lemma qext_do_act b cw a w : qext b w (do_act cw a w).
Proof.
  destruct a as [| |h|h|h|h]; cbn [do_act];
    [ destruct cw as [[t'|b' s]|] | destruct cw as [[t'|b' s]|]
    | destruct (get_handle w h) as [[t'|b' s]|] | destruct (get_handle w h) as [[t'|b' s]|]
    | destruct (get_handle w h) as [[t'|b' s]|] | destruct (get_handle w h) as [[t'|b' s]|] ];
    cbn [wake_ref_handle drop_handle_val clone_handle_val]; unfold add_handle, kill_handle;
    try apply qext_refl; try (apply qext_frame; reflexivity); try apply qext_wake_slot.
  - eapply qext_trans; [apply qext_inc_strong|]. apply qext_frame; reflexivity.
  - eapply qext_trans; [apply qext_frame with (w' := set_handles (upd (handles w) h None) w); reflexivity|].
    eapply qext_trans; [apply qext_wake_slot|]. apply qext_dec_strong.
  - eapply qext_trans; [apply qext_frame with (w' := set_handles (upd (handles w) h None) w); reflexivity|].
    apply qext_dec_strong.
  - eapply qext_trans; [apply qext_inc_strong|]. apply qext_frame; reflexivity.
Qed.

Lemma qext_do_acts b cw l w : qext b w (do_acts cw l w).
Proof.
  unfold do_acts. revert w; induction l as [|a l IH]; simpl; intros w; [apply qext_refl|].
  eapply qext_trans; [apply qext_do_act|apply IH].
Qed.

Lemma qext_run_inj b p k sl w : qext b w (run_inj p k sl w).
Proof.
  unfold run_inj. destruct (find_inj p k (inj_pts (winj w))); [apply qext_refl|].
  eapply qext_trans; [apply qext_frame with (w' := emit (EInj p k sl) w); reflexivity|]. apply qext_do_acts.
Qed.

(** a pop that is not forced Inconsistent removes the head of a non-empty queue *)
Lemma pop_head b w s rest :
  qof w b = s :: rest -> forced_inc (S (popk w)) (set_popk (S (popk w)) w) = false ->
  exists ext, fst (pop b w) = PopReady s /\ qof (snd (pop b w)) b = rest ++ ext.
Proof.
  intros Hq Hf. unfold pop. rewrite Hf.
  change (get_blk (set_popk (S (popk w)) w) b) with (get_blk w b).
  unfold qof in Hq. destruct (get_blk w b) as [kb|] eqn:Hk; [|discriminate]. rewrite Hq.
  cbn [fst snd].
  set (w1 := put_blk b (blk_set_queue kb rest) (set_popk (S (popk w)) w)).
  assert (H1 : qof w1 b = rest) by (unfold w1; erewrite qof_put_same by eauto; auto).
  destruct (qext_run_inj b IMid (S (popk w)) (Some (b, s)) w1) as [e1 E1].
  set (w2 := run_inj IMid (S (popk w)) (Some (b, s)) w1) in *.
  assert (H3 : qof (clear_flag b s w2) b = qof w2 b).
  { unfold clear_flag. destruct (get_blk w2 b) as [k2|] eqn:Hk2; auto.
    erewrite qof_put_same by eauto. unfold qof. rewrite Hk2. reflexivity. }
  destruct (qext_run_inj b IExit (S (popk w)) (Some (b, s)) (clear_flag b s w2)) as [e2 E2].
  exists (e1 ++ e2). split; auto. rewrite E2, H3, E1, H1, app_assoc. reflexivity.
Qed.

Lemma qext_poll_child b k c b' s w : qext b w (snd (poll_child k c b' s w)).
Proof.
  unfold poll_child. destruct (cdone c); cbn [snd]; [apply qext_frame; reflexivity|].
  destruct (cscript c) as [|[acts r0] rest]; cbn [snd]; [apply qext_frame; reflexivity|].
  eapply qext_trans; [apply qext_frame with (w' := emit (ECPoll (cid c) b' s (b', s)) (g_poll w)); reflexivity|].
  eapply qext_trans; [apply qext_do_acts|]. apply qext_frame; reflexivity.
Qed.

(** [qstep b w w']: the queue of [b] lost a prefix ([popped]) and gained a suffix ([ext]) *)
Definition qstep (b : nat) (w w' : world) (popped : list nat) : Prop :=
  exists ext, qof w b ++ ext = popped ++ qof w' b.

Lemma qstep_of_qext b w w' : qext b w w' -> qstep b w w' [].
Proof. intros [e H]. exists e. simpl. congruence. Qed.

Lemma qstep_trans b w1 w2 w3 p1 p2 : qstep b w1 w2 p1 -> qstep b w2 w3 p2 -> qstep b w1 w3 (p1 ++ p2).
Proof.
  intros [e1 H1] [e2 H2]. exists (e1 ++ e2).
  rewrite app_assoc, H1, <- app_assoc, H2, app_assoc. reflexivity.
Qed.

(** pop: at most the head leaves *)
Lemma pop_qstep b w :
  exists p, qstep b w (snd (pop b w)) p
    /\ match fst (pop b w) with PopReady s => p = [s] | _ => p = [] end.
Proof.
  unfold pop.
  assert (H0 : qext b w (set_popk (S (popk w)) w)) by (apply qext_frame; reflexivity).
  destruct (forced_inc (S (popk w)) (set_popk (S (popk w)) w)) eqn:Hf; cbn [fst snd].
  - exists []. split; auto. apply qstep_of_qext. eapply qext_trans; [exact H0|apply qext_run_inj].
  - change (get_blk (set_popk (S (popk w)) w) b) with (get_blk w b).
    destruct (get_blk w b) as [kb|] eqn:Hk; cbn [fst snd].
    + destruct (bqueue kb) as [|s rest] eqn:Hq; cbn [fst snd].
      * exists []. split; auto. apply qstep_of_qext. eapply qext_trans; [exact H0|apply qext_run_inj].
      * assert (Hqw : qof w b = s :: rest) by (unfold qof; rewrite Hk; auto).
        destruct (@pop_head b w s rest Hqw Hf) as (ext & Hp & Hq').
        unfold pop in Hp, Hq'. rewrite Hf in Hp, Hq'.
        change (get_blk (set_popk (S (popk w)) w) b) with (get_blk w b) in Hp, Hq'.
        rewrite Hk, Hq in Hp, Hq'. cbn [fst snd] in Hp, Hq'.
        exists [s]. split; auto. exists ext. rewrite Hqw, Hq'. reflexivity.
    + exists []. split; auto. apply qstep_of_qext. apply qext_frame; reflexivity.
Qed.

Lemma qext_self_wake b b' t w : qext b w (self_wake b' t w).
Proof.
  unfold self_wake. destruct (get_blk w b') as [k|] eqn:Hk; [|apply qext_frame; reflexivity].
  eapply qext_trans; [eapply qext_put_samequeue with (k := blk_set_tw k); eauto|]. apply qext_frame; reflexivity.
Qed.

(** the drain loop removes a prefix of the queue, in order, and appends whatever is woken meanwhile
    behind everything that was already queued *)
Theorem drain_fifo k n f t w :
  exists popped, qstep (blk f) w (snd (drain k n f t w)) popped.
Proof.
  revert f w. induction n as [|n IH]; intros f w; cbn [drain].
  - exists []. apply qstep_of_qext. apply qext_self_wake.
  - destruct (pop_qstep (blk f) w) as (p & Hp & Hm).
    destruct (pop (blk f) w) as [pr w1]. cbn [fst snd] in *.
    destruct pr as [| |i]; cbn [snd].
    + exists p. exact Hp.
    + exists (p ++ []). eapply qstep_trans; [exact Hp|]. apply qstep_of_qext. apply qext_self_wake.
    + destruct (sm_get (tasks f) i) as [c|].
      * pose proof (qext_poll_child (blk f) k c (blk f) i w1) as Hc.
        destruct (poll_child k c (blk f) i w1) as [[c' r] w2]. cbn [snd] in Hc.
        destruct (is_ready r); cbn [snd].
        -- exists (p ++ []). eapply qstep_trans; [exact Hp|]. apply qstep_of_qext. exact Hc.
        -- destruct (IH {| tasks := sm_set (tasks f) i c'; blk := blk f |} w2) as [p2 H2]. simpl in H2.
           exists (p ++ [] ++ p2). eapply qstep_trans; [exact Hp|].
           eapply qstep_trans; [apply qstep_of_qext; exact Hc|exact H2].
      * destruct (IH f w1) as [p2 H2]. exists (p ++ p2). eapply qstep_trans; eauto.
Qed.

(** a poll whose first pop is not a forced Inconsistent removes at least the head *)
Theorem drain_pops_head k n f t w s rest :
  qof w (blk f) = s :: rest -> forced_inc (S (popk w)) (set_popk (S (popk w)) w) = false ->
  exists popped, qstep (blk f) w (snd (drain k (S n) f t w)) (s :: popped).
Proof.
  intros Hq Hf. cbn [drain].
  destruct (@pop_head (blk f) w s rest Hq Hf) as (ext & Hp & Hq').
  destruct (pop (blk f) w) as [pr w1]. cbn [fst snd] in *. subst pr.
  assert (H1 : qstep (blk f) w w1 [s]) by (exists ext; rewrite Hq, Hq'; reflexivity).
  destruct (sm_get (tasks f) s) as [c|].
  - pose proof (qext_poll_child (blk f) k c (blk f) s w1) as Hc.
    destruct (poll_child k c (blk f) s w1) as [[c' r] w2]. cbn [snd] in Hc.
    destruct (is_ready r); cbn [snd].
    + exists []. change [s] with ([s] ++ []). eapply qstep_trans; [exact H1|]. apply qstep_of_qext; auto.
    + destruct (drain_fifo k n {| tasks := sm_set (tasks f) s c'; blk := blk f |} t w2) as [p2 H2]. simpl in H2.
      exists ([] ++ p2). change (s :: [] ++ p2) with ([s] ++ [] ++ p2).
      eapply qstep_trans; [exact H1|]. eapply qstep_trans; [apply qstep_of_qext; exact Hc|exact H2].
  - destruct (drain_fifo k n f t w1) as [p2 H2]. exists p2. change (s :: p2) with ([s] ++ p2).
    eapply qstep_trans; eauto.
Qed.

(** the occupant of the head slot is the first child polled *)
Theorem head_occupant_polled_first k n f t w s rest c :
  qof w (blk f) = s :: rest -> forced_inc (S (popk w)) (set_popk (S (popk w)) w) = false ->
  sm_get (tasks f) s = Some c ->
  exists w1, pop (blk f) w = (PopReady s, w1)
    /\ drain k (S n) f t w =
       (let '(c', r, w2) := poll_child k c (blk f) s w1 in
        let f' := {| tasks := sm_set (tasks f) s c'; blk := blk f |} in
        if is_ready r then (f', PReady s c' r, w2) else drain k n f' t w2).
Proof.
  intros Hq Hf Hg. destruct (@pop_head (blk f) w s rest Hq Hf) as (ext & Hp & _).
  cbn [drain]. destruct (pop (blk f) w) as [pr w1]. cbn [fst] in Hp. subst pr.
  exists w1. split; auto. rewrite Hg. reflexivity.
Qed.

(** position arithmetic: an entry at position p moves to position p - |popped| (or was popped) *)
Lemma position_after (q ext popped q' pre : list nat) (x : nat) (post : list nat) :
  q ++ ext = popped ++ q' -> q = pre ++ x :: post -> length popped <= length pre ->
  exists pre' post', q' = pre' ++ x :: post' /\ length pre' + length popped = length pre.
Proof.
  intros H Hq Hl. subst q.
  assert (Hs : skipn (length popped) ((pre ++ x :: post) ++ ext) = q').
  { rewrite H. rewrite skipn_app, skipn_all, Nat.sub_diag. reflexivity. }
  rewrite <- app_assoc in Hs. rewrite skipn_app in Hs.
  replace (length popped - length pre) with 0 in Hs by lia. simpl in Hs.
  exists (skipn (length popped) pre), (post ++ ext). split; [congruence|].
  rewrite skipn_length. lia.
Qed.
