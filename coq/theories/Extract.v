(** * Extract: extraction of the executable model (ExtrOcamlBasic only; nat, N, Z stay inductive) *)
From FB Require Import Base Syntax World SlotMap Fub Unbounded Ordered Adapters Step Monitors.
Require Import ExtrOcamlBasic.
Extraction Language OCaml.

Extraction "../ocaml/gen/model.ml" step_op run init_state chk_C01 chk_C02 chk_C03 chk_C04 chk_C05 chk_C06 chk_C07 chk_C08 chk_C09 chk_C10 chk_C11 chk_C12 chk_C13 chk_C14 known_C14_fin chk_C15 chk_C16 chk_C17 chk_C18 chk_all.
