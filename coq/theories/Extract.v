(** * Extract: extraction of the executable model (ExtrOcamlBasic only; nat, N, Z stay inductive) *)
From FB Require Import Base Syntax World SlotMap Fub Unbounded Ordered Adapters Step.
Require Import ExtrOcamlBasic.
Extraction Language OCaml.

Extraction "../ocaml/gen/model.ml" step_op run init_state.
